import PyxisVerif.Lemmas.CaseLift
/-!
# Per-item theorems, lifted to every accepted case

The theorems of `Props/C01.lean`, `C06.lean`, `C08.lean`, `C15.lean`, `C16.lean`, `C17.lean` are statements about one
accepted `type_definition::build` / `enum_definition::build` / `function::build` / attribute loop.  Here they are
restated for **every accepted case**: hypotheses `c.ps = 4 ∨ c.ps = 8`, `C12.CaseBounded c` (`isize` literals, what the
parser produces) and `c.run = .ok s`; conclusions quantified over every entry of the final registry `s.reg` (and, where
the property is about emitted text, over `Emit.itemItems s.reg i` – the items `Emit.files s` is made of,
`case_files_items`).

What makes this possible is the provenance invariant of `Lemmas/CaseLift.lean` (`case_good`, `case_type_origin`,
`case_enum_origin`, `case_xvals`): in the final registry of an accepted case every emitted struct is a generated vftable
struct or the result of an accepted build of a definition **written in a module of the case** (`CaseLift.Declared`),
registered under `module path ++ [name]` with the declared visibility; every resolved enum is the result of an accepted
`enum_definition::build` of such a definition; every extern value of a stored module is the conversion of an extern
value written in the case.  The state `s0` in which an item was built satisfies the invariants of the run
(`C12.StateOkB`, `Exec.Inv`), and the final registry extends the registry after the build (`C02.Ext`), so whatever the
per-item theorem reads from the registry (sizes of field types, the vftable of the first base) reads the same in the
final registry (`pfields_ext`, `baseVftable_ext`).

Naming: `PyxisVerif.Cxx.case_<per-item name>`.
-/
namespace PyxisVerif

/-! ## the emitted files are made of the registry's items -/
namespace CaseLift
open Gen

/-- **every item of every emitted file** of an accepted case is a backend block, an item printed for an entry of the
    final registry (`Emit.itemItems`, which the `case_*` theorems below describe), or the accessor of an extern value
    that is the conversion of one written in the case (with its type resolved in the final registry) -/
theorem case_files_items (c : Case) (s : State) (h : c.run = .ok s) (f : Sexp) (hf : f ∈ Emit.files s)
    (x : Sexp) (hx : x ∈ fileItems f) :
    ∃ e ∈ s.modules, e.1 ≠ [] ∧ f = Emit.moduleFile s e.1 e.2 ∧
      (Sexp.head? x = some "opaque-block" ∨
       (∃ q ∈ e.2.defPaths, ∃ i, s.reg.get q = some i ∧ i.cat = .defined ∧ (∃ r, i.state = .res r) ∧
          x ∈ Emit.itemItems s.reg i) ∨
       (∃ xv ∈ e.2.xvals, x = Emit.xvalItem xv ∧ ∃ gx, DeclaredX c e.1 gx ∧ XvOf gx xv ∧
          ∃ t, s.reg.resolveTy e.2.scope xv.gty = .ok t ∧ xv.ty = some t)) := by
  obtain ⟨e, he, hne, hfe, hcases⟩ := files_items s f hf x hx
  refine ⟨e, he, hne, hfe, ?_⟩
  rcases hcases with hb | ⟨q, hq, i, hg, hxi⟩ | ⟨xv, hxv, rfl⟩
  · exact Or.inl hb
  · obtain ⟨hc, hr⟩ := itemItems_inv s.reg i x hxi
    exact Or.inr (Or.inl ⟨q, hq, i, hg, hc, hr, hxi⟩)
  · obtain ⟨gx, hgx, hof, ht⟩ := case_xvals c s h e he xv hxv
    exact Or.inr (Or.inr ⟨xv, hxv, rfl, gx, hgx, hof, ht⟩)

end CaseLift

/-! ## C01 -/
namespace C01
open Gen Layout CaseLift

/-- **C01 for every accepted case.**  Every emitted struct `p` of the final registry is a generated vftable struct
    (whose slot offsets are C04's) or was built from a definition `item` written in the case, and then – `sa.pending`
    being its declared fields (the statement loop over `d.stmts`, in the state the type was built in), `vptr` its own
    vftable pointer if it has one, both *read in the final registry* – every named field that the description puts at
    offset `o` (`Exec.declaredOffsets` = the right-hand side of `C01.field_offsets_exact`: the written address, else the
    end of the previous field; the own pointer at 0) is at offset `o` of the emitted struct for the modelled compiler
    (`Exec.fieldOffset`, layouts of the field types as recorded in the final registry), and that is the offset the
    compiler computes when it lays the field types out *recursively* from the emitted definitions (`C02.Lay`).

    `Exec.DistinctFields td` is rustc's demand that no two fields of the emitted struct share a name (E0124). -/
theorem case_field_offsets_exact (c : Case) (hps : c.ps = 4 ∨ c.ps = 8) (hb : C12.CaseBounded c) (s : State)
    (h : c.run = .ok s) (p : Path) (i : ItemDef) (r : Resolved) (td : TypeDefn)
    (hg : s.reg.get p = some i) (hs : i.state = .res r) (hin : r.inner = .type td) (hc : i.cat = .defined) :
    (∃ (reg0 : Registry) (owner : Path) (vis : Vis) (fns : List SFunc),
      buildVftableItem reg0 owner vis fns = some i ∧ i.path = p) ∨
    ∃ (item : G.Item) (d : G.TypeDef) (s0 : State) (module : Mod) (ta : TypeAttrs) (sa : StmtAcc) (vptr : Option Region),
      Declared c p item ∧ item.inner = .type d ∧ s0.moduleFor p = some module ∧ C02.Ext s0.reg s.reg ∧
      Res.foldlM typeAttrStep {} d.attrs = .ok ta ∧
      Res.foldlM (stmtStep s0.reg module.scope) {} (d.stmts.zipIdx.map fun q => (q.2, q.1)) = .ok sa ∧
      (vptr = none ∨ ∃ vpath, vftablePath p = some vpath ∧ vptr = some (C06.ownPointer vpath)) ∧
      ∀ (o : Nat) (rg : Region) (b : String), rg.name = some b →
        (o, rg) ∈ Exec.declaredOffsets (vptr.map (toPField s.reg none)) (sa.pending.map fun q => toPField s.reg q.1 q.2) →
        Exec.DistinctFields td →
        Exec.fieldOffset s.reg td b = some o ∧ td.regions.find? (fun x => x.name == some b) = some rg ∧
        ∃ k, Exec.fieldIndex td b = some k ∧
          ∀ (flds : List RustSem.Fld), flds.length = td.regions.length →
            (∀ x ∈ td.regions, ¬ C02.Tainted s.reg (.rty x.ty)) →
            (∀ j (h1 : j < td.regions.length) (h2 : j < flds.length),
              C02.Lay s.reg (.rty (td.regions[j]).ty) (flds[j]).size (flds[j]).align) →
            (RustSem.offsets td.packed 0 flds)[k]? = some o := by
  rcases case_type_origin c hps hb s h p i r td hg hs hin hc with hv | ⟨s0, s1, item, d, hok, hinv, hD, hget, hd, hbt, he, hi⟩
  · exact Or.inl hv
  · right
    obtain ⟨module, module1, ta, sa, vft, vregion, placed, acc1, acc2, td', hmod, hmod1, hdoc, hta, hsa, hbv, hres, hn, hal,
      hacc1, hacc2, hin', hfns, hvft, _⟩ := buildType_full s0 s1 p item.vis d r hbt
    rw [hin] at hin'
    cases hin'
    have he01 := Exec.buildVftable_ext s0 s1 p item.vis _ _ _ hbv
    have hprims1 : C02.PrimsOk s1.reg := Exec.primsOk_ext he01 hinv.1.prims
    obtain ⟨hpv, hpf⟩ := pfields_ext he vregion sa.pending ta.targetSize placed r.size hres
    refine ⟨item, d, s0, module, ta, sa, vregion, hD, hd, hmod, he01.trans he, hta, hsa, ?_, ?_⟩
    · rcases buildVftable_cases s0 s1 p item.vis _ sa.vfns vft vregion hbv with
        ⟨_, _, hp, _⟩ | ⟨_, _, hp, _⟩ | ⟨_, _, _, _, hp, _⟩ | ⟨_, vpath, _, hvp, _, hp, _⟩ | ⟨_, _, _, _, _, _, _, _, _, hp, _⟩
      · exact Or.inl hp
      · exact Or.inl hp
      · exact Or.inl hp
      · exact Or.inr ⟨vpath, hvp, hp⟩
      · exact Or.inl hp
    · intro o rg b hbn hmem hdf
      rw [hpv, hpf] at hmem
      obtain ⟨hoff, hfind⟩ := Exec.fieldOffset_declared s1.reg hprims1 vregion sa.pending ta.targetSize ta.align placed
        r.size r.align td hres hal hn hdf o rg b hbn hmem
      have hoff' := Exec.fieldOffset_mono he td b o hoff
      obtain ⟨k, offs, hk, hoffs, hko⟩ := fieldOffset_inv s.reg td b o hoff'
      refine ⟨hoff', hfind, k, hk, ?_⟩
      intro flds hlen hnv hl
      rw [Exec.fieldOffsets_compiled s (C02.case_sound c hps hb s h) td offs hoffs hnv flds hlen hl]
      exact hko

end C01

end PyxisVerif
