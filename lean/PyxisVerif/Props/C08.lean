import PyxisVerif.Spec.C08
import PyxisVerif.Lemmas.C08
/-!
# C08 – enum discriminants, representation and default variant are as declared
-/
namespace PyxisVerif.C08
open Gen

/-- **values**: an accepted enum has exactly the discriminants the description says -/
theorem values (s : State) (p : Path) (d : G.EnumDef) (r : Resolved) (h : buildEnum s p d = .ok r) :
    ∃ ed, r.inner = .enum ed ∧ ed.fields = specValues 0 d.stmts :=
  values' s p d r h

/-- **representation**: the base is one of the built-in integer types, the emitted `repr` names it, and
    the resolved size and alignment are that type's (bits / 8, as the predefined table says) -/
theorem repr (s : State) (p : Path) (d : G.EnumDef) (r : Resolved) (h : buildEnum s p d = .ok r) :
    ∃ ed name signed bits, r.inner = .enum ed ∧ ed.ty = .raw [name] ∧ (name, signed, bits) ∈ intTypes
      ∧ DTy.size s.reg ed.ty = .ok (some r.size) ∧ DTy.align s.reg ed.ty = some r.align :=
  repr' s p d r h

/-- the emitted enum item carries `repr(<base>)`, the variants in source order with their values,
    and `#[default]` exactly on the variant whose index is `defaultIdx` -/
theorem emitted (path : Path) (size : Nat) (vis : Vis) (ed : EnumDefn) :
    ∃ docs derives tl, Emit.enumItems path size vis ed =
      Sexp.mk "enum" ([docs, derives, Sexp.mk "repr" [.str (Emit.tyStr ed.ty)], Emit.visS vis,
          .str (path.getLast?.getD "")] ++
        ed.fields.zipIdx.map fun ((n, v), idx) =>
          Sexp.mk "var" [.str n, Sexp.ofOpt .int (some v), Sexp.ofBool (ed.defaultIdx == some idx)]) :: tl :=
  emitted' path size vis ed

/-- **default**: an accepted enum is defaultable iff it is declared so, has a default variant iff it
    is defaultable, and that variant is the (single) one whose source statement carries the marker -/
theorem default_marker (s : State) (p : Path) (d : G.EnumDef) (r : Resolved) (h : buildEnum s p d = .ok r) :
    ∃ ed, r.inner = .enum ed ∧ ed.defaultable = isDefaultable d.attrs ∧
      (match ed.defaultIdx with
       | some i => markerIdxs d.stmts = [i] ∧ ed.defaultable = true
       | none => markerIdxs d.stmts = [] ∧ ed.defaultable = false) :=
  default_marker' s p d r h

/-- marker without `defaultable`, `defaultable` without marker, or two markers: rejected -/
theorem marker_inconsistency_rejected (s : State) (p : Path) (d : G.EnumDef)
    (h : (markerIdxs d.stmts).length ≥ 2 ∨ (isDefaultable d.attrs = true ∧ markerIdxs d.stmts = [])
       ∨ (isDefaultable d.attrs = false ∧ markerIdxs d.stmts ≠ [])) :
    (buildEnum s p d).isOk = false := by
  cases hb : buildEnum s p d with
  | ok r => exact (marker_consistent s p d r hb h).elim
  | _ => rfl

/-- every accepted value fits the *width* of the base type (so `v as _` loses no bits) and, for a
    signed base type, fits the type -/
theorem values_fit_width (s : State) (p : Path) (d : G.EnumDef) (r : Resolved) (h : buildEnum s p d = .ok r) :
    ∃ ed name signed bits, r.inner = .enum ed ∧ ed.ty = .raw [name] ∧ (name, signed, bits) ∈ intTypes ∧
      ∀ nv ∈ ed.fields, -(2 ^ (bits - 1)) ≤ nv.2 ∧ nv.2 < 2 ^ bits ∧ (signed = true → Fits signed bits nv.2) := by
  obtain ⟨ed, name, signed, bits, hr, hty, hmem, _, hall⟩ := fit_facts s p d r h
  exact ⟨ed, name, signed, bits, hr, hty, hmem, hall⟩

/-- **discriminant is the value** (modelled rustc): `v as T` is `v` whenever `v` fits `T` -/
theorem cast_of_fits (signed : Bool) (bits : Nat) (hb : 0 < bits) (v : Int) (h : Fits signed bits v) :
    cast signed bits v = v :=
  cast_of_fits' signed bits hb v h

/-- hence for signed base types, and for non-negative values of unsigned ones, the compiled
    discriminant is the declared value.  (`_partial`: the full statement – "a discriminant that does
    not fit the base type is rejected" – fails for negative values of unsigned base types, which the
    pinned test `can_resolve_enum` requires to be accepted; see `negative_in_unsigned_accepted`.) -/
theorem discriminant_is_value_partial (s : State) (p : Path) (d : G.EnumDef) (r : Resolved)
    (h : buildEnum s p d = .ok r) :
    ∃ ed name signed bits, r.inner = .enum ed ∧ ed.ty = .raw [name] ∧ (name, signed, bits) ∈ intTypes ∧
      ∀ nv ∈ ed.fields, (signed = true ∨ 0 ≤ nv.2) → cast signed bits nv.2 = nv.2 :=
  discriminant' s p d r h

/-- the refutation of the full statement, with the witness `enum E: u8 { A = -2 }`: accepted, and the
    compiler gives `A` the discriminant 254 -/
theorem negative_in_unsigned_accepted :
    intTypeRange (.raw ["u8"]) = some (-128, 255) ∧ cast false 8 (-2) = 254 ∧ ¬ Fits false 8 (-2) :=
  negative_in_unsigned'

/-! ## non-vacuity -/

def exEnum : G.EnumDef :=
  { ty := .ident "i16",
    stmts := [⟨"A", some (.int (-2)), []⟩, ⟨"B", none, [.ident "default"]⟩, ⟨"C", some (.int 10), []⟩, ⟨"D", none, []⟩],
    attrs := [.ident "defaultable"] }

def exState : State :=
  match (State.new 4).addModule { defs := [⟨.pub, "E", .enum exEnum⟩] } ["m"] with
  | .ok s => s
  | _ => State.new 4

example : (buildEnum exState ["m", "E"] exEnum).isOk = true := by decide
example : specValues 0 exEnum.stmts = [("A", -2), ("B", -1), ("C", 10), ("D", 11)] := by decide
example : markerIdxs exEnum.stmts = [1] := by decide

end PyxisVerif.C08
