import PyxisVerif.Spec.C05
import PyxisVerif.Lemmas.C05
/-!
# C05 – address-bound wrappers call the declared address with the declared signature (shape part)

What executing the emitted wrapper does (one call, to that address, with those arguments) is
checked on the implementation by executing the emitted code (O4); the theorems here say that the
*emitted wrapper is the one the description asks for*.
-/
namespace PyxisVerif.C05
open Gen

/-- **emitted shape**: an accepted impl function has the declared (non-negative) address, the declared
    parameters in declared order with their types resolved, and the declared return type resolved -/
theorem built_shape (reg : Registry) (scope : List Path) (f : G.Func) (sf : SFunc)
    (h : buildFunction reg scope false f = .ok sf) :
    (∃ a : Int, declAddress f = some a ∧ 0 ≤ a ∧ sf.body = .addr a.toNat)
    ∧ specArgs reg scope f.args = some sf.args
    ∧ (match f.ret with
       | none => sf.ret = none
       | some t => ∃ t', reg.resolveTy scope t = .ok t' ∧ sf.ret = some t')
    ∧ sf.name = f.name ∧ sf.vis = f.vis := by
  exact built_shape_main reg scope f sf h

/-- **rejections**: no address, a negative address, an unresolvable parameter or return type -/
theorem no_address_rejected (reg : Registry) (scope : List Path) (f : G.Func) (h : declAddress f = none) :
    (buildFunction reg scope false f).isOk = false := by
  refine not_ok_of _ (fun sf hsf => ?_)
  obtain ⟨⟨a, ha, _⟩, _⟩ := built_shape_main reg scope f sf hsf
  rw [h] at ha; cases ha

theorem negative_address_rejected (reg : Registry) (scope : List Path) (f : G.Func) (a : Int)
    (h : declAddress f = some a) (ha : a < 0) : (buildFunction reg scope false f).isOk = false := by
  refine not_ok_of _ (fun sf hsf => ?_)
  obtain ⟨⟨a', ha', h0, _⟩, _⟩ := built_shape_main reg scope f sf hsf
  rw [h] at ha'; cases ha'; omega

theorem unresolved_param_rejected (reg : Registry) (scope : List Path) (f : G.Func)
    (h : specArgs reg scope f.args = none) : (buildFunction reg scope false f).isOk = false := by
  refine not_ok_of _ (fun sf hsf => ?_)
  obtain ⟨_, ha, _⟩ := built_shape_main reg scope f sf hsf
  rw [h] at ha; cases ha

theorem unresolved_return_rejected (reg : Registry) (scope : List Path) (f : G.Func) (t : G.Ty)
    (h : f.ret = some t) (hr : ∀ t', reg.resolveTy scope t ≠ .ok t') :
    (buildFunction reg scope false f).isOk = false := by
  refine not_ok_of _ (fun sf hsf => ?_)
  obtain ⟨_, _, hret, _⟩ := built_shape_main reg scope f sf hsf
  rw [h] at hret
  obtain ⟨t', ht', _⟩ := hret
  exact hr t' ht'

/-- the wrapper printed for an address-bound function: transmute of *that* address to a function
    pointer whose parameters are the receiver pointer (iff declared) followed by the declared
    parameters in order, called with the receiver followed by the arguments in order -/
theorem wrapper_shape (f : SFunc) (a : Nat) (h : f.body = .addr a) :
    Emit.methodS f = Sexp.mk "method" [Emit.docsS f.doc, Emit.visS f.vis, .str f.name,
      Sexp.mk "params" (f.args.map Emit.paramS), Emit.optTyS f.ret,
      Sexp.mk "call-addr" [.int a, .str f.cc.asStr, Sexp.mk "sig" (f.args.map Emit.sigArgS), Emit.optTyS f.ret,
        Sexp.mk "args" (f.args.map Emit.callArgS)]] := by
  simp only [Emit.methodS, h]

/-- every function of the (merged) impl block of a type is built, in source order, after the
    functions inherited from bases -/
theorem impl_functions_all_present (reg : Registry) (scope : List Path) (im : G.Impl) (acc acc' : InjAcc)
    (h : addImplFns reg scope (some im) acc = .ok acc') :
    ∃ built, Res.mapM' (buildFunction reg scope false) im.fns = .ok built ∧ acc'.fns = acc.fns ++ built := by
  exact addImplFns_fold reg scope im.fns acc acc' h

/-- several `impl` blocks for one type contribute all their functions -/
theorem impl_blocks_merged (m : Mod) (p : Path) :
    ((m.implFor p).map (·.fns)).getD [] = ((m.impls.filter (fun e => e.1 == p)).map (·.2)).flatMap (·.fns) := by
  unfold Mod.implFor
  split <;> simp [*]

/-- **the address in the text is the declared number**: pyxis prints the address as `0x` followed by
    `{:X}`; reading those digits back gives the number -/
theorem hex_roundtrip (n : Nat) : readHex (toHexUpper n).toList = some n := by
  simp only [toHexUpper, String.toList_ofList]
  exact readHex_toDigits n

/-! ## non-vacuity -/
def exFn : G.Func :=
  { vis := .pub, name := "f", attrs := [.fn "address" [.int 0x10800123]],
    args := [.mutSelf, .named "x" (.mptr (.ident "u32")), .named "y" (.ident "i32")], ret := some (.ident "u64") }

example : (buildFunction (State.new 4).reg [] false exFn).isOk = true := by decide
example : declAddress exFn = some 0x10800123 := by decide

end PyxisVerif.C05
