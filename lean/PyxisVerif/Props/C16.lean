import PyxisVerif.Spec.C16
import PyxisVerif.Lemmas.C16
/-!
# C16 – calling conventions are the declared ones, or the documented defaults

`CC`, `CC.asStr`, `CC.fromStr`, `ccDefaultSelf`, `ccDefaultNoSelf`, `ccPlaceholder` are
*regenerated from /repo/src on every run* (`Generated/Tables.lean`), so an edit to either match
block or to the default rule in the Rust source changes the statements below.
-/
namespace PyxisVerif.C16
open Gen

/-- the tables in the source are the seven documented conventions -/
theorem table_is_documented (s : String) : CC.fromStr s = documented.lookup s :=
  fromStr_eq_lookup s

theorem fromStr_asStr (c : CC) : CC.fromStr (CC.asStr c) = some c :=
  fromStr_asStr' c

theorem asStr_injective (a b : CC) (h : a.asStr = b.asStr) : a = b :=
  asStr_inj a b h

/-- the documented defaults: thiscall with a receiver, system without, thiscall for placeholders -/
theorem defaults_are_documented :
    ccDefaultSelf = .Thiscall ∧ ccDefaultNoSelf = .System ∧ ccPlaceholder = .Thiscall :=
  ⟨rfl, rfl, rfl⟩

/-- **declared wins, default by receiver, unknown rejected**: whenever `function::build` accepts a
    function (impl or vftable), its convention is the one the property prescribes; in particular a
    function whose `calling_convention` names none of the seven is never accepted -/
theorem built_cc (reg : Registry) (scope : List Path) (isVfunc : Bool) (f : G.Func) (sf : SFunc)
    (h : buildFunction reg scope isVfunc f = .ok sf) : specCC f = some sf.cc :=
  buildFunction_cc reg scope isVfunc f sf h

theorem unknown_rejected (reg : Registry) (scope : List Path) (isVfunc : Bool) (f : G.Func)
    (h : specCC f = none) : (buildFunction reg scope isVfunc f).isOk = false := by
  cases hb : buildFunction reg scope isVfunc f with
  | ok sf => rw [buildFunction_cc reg scope isVfunc f sf hb] at h; cases h
  | _ => rfl

/-- placeholder slots are thiscall -/
theorem placeholder_thiscall (i : Nat) : (placeholderFn i).cc = .Thiscall :=
  rfl

/-- the vftable slot of a function carries the function's convention -/
theorem slot_carries_cc (owner : Path) (f : SFunc) :
    ∃ args, (functionToRegion owner f).ty = .fn f.cc args f.ret :=
  ⟨_, rfl⟩

/-- printer 1 (vftable slot types): the ABI string is `asStr` of the convention -/
theorem slot_printer (cc : CC) (args : List (String × DTy)) (ret : Option DTy) :
    ∃ rest, Emit.rtyStr (.fn cc args ret) = "unsafe extern \"" ++ cc.asStr ++ "\" fn(" ++ rest :=
  rtyStr_fn cc args ret

/-- printer 2 (address-bound wrappers): the ABI string is `asStr` of the convention -/
theorem wrapper_printer (f : SFunc) (a : Nat) (h : f.body = .addr a) :
    ∃ hd sig ret args, Emit.methodS f =
      Sexp.mk "method" (hd ++ [Sexp.mk "call-addr" [.int a, .str f.cc.asStr, sig, ret, args]]) := by
  unfold Emit.methodS
  rw [h]
  exact ⟨[_, _, _, _, _], _, _, _, rfl⟩

/-- both printers therefore print the same ABI string for the same function, and two functions
    print the same string only if they have the same convention -/
theorem printers_agree_iff (f g : SFunc) : f.cc.asStr = g.cc.asStr ↔ f.cc = g.cc :=
  ⟨asStr_inj _ _, fun h => by rw [h]⟩

/-- a derived vftable that is accepted repeats every base slot *as a whole value*, so each
    inherited slot has the same convention in the derived table -/
theorem inherited_same (s s1 : State) (owner : Path) (vis : Vis) (fb : Option Region) (fns : List SFunc)
    (v : Vft) (ptr : Option Region) (bn : String) (bv : Vft)
    (h : buildVftable s owner vis fb (some fns) = (s1, .ok (some v, ptr)))
    (hb : baseVftable s1.reg fb = .ok (some (bn, bv))) :
    ∀ i (hi : i < bv.fns.length), ∃ (hj : i < v.fns.length), v.fns[i].cc = bv.fns[i].cc := by
  intro i hi
  obtain ⟨hj, he⟩ := buildVftable_inherited s s1 owner vis fb fns v ptr bn bv h hb i hi
  exact ⟨hj, by rw [he]⟩

/-! ## non-vacuity -/

def exFn : G.Func :=
  { vis := .pub, name := "f", attrs := [.fn "address" [.int 4096], .fn "calling_convention" [.str "fastcall"]],
    args := [.mutSelf, .named "x" (.ident "u32")], ret := none }

example : (buildFunction (State.new 4).reg [] false exFn).isOk = true := by decide
example : specCC exFn = some .Fastcall := by decide
example : specCC { exFn with attrs := [.fn "calling_convention" [.str "pascal"]] } = none := by decide

end PyxisVerif.C16
