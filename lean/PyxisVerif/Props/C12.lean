import PyxisVerif.Spec.C12
import PyxisVerif.Lemmas.C12
/-!
# C12 – every input yields a result: builds never panic or hang

Termination: the parser and lexer models are total functions (structural recursion / fuel equal to
the input length), the resolution loop ends within its rounds bound (`C10.rounds_bound_suffices`),
and every other loop of the model is a fold over a finite list.  No panic: under the registry
invariant `RegOk` – which `SemanticState::new` establishes and `add_module` and every attempt
preserve – the only `panic` outcome of the model is the modelled allocation limit `allocSite`.

Partial by nature: stack depth, the allocator, and panics inside syn / proc_macro2 / prettyplease /
quote are runtime behaviour no executable model of pyxis can exhibit; the fuzzing part of the check
is the only thing that looks at them.
-/
namespace PyxisVerif.C12
open C09

/-- `SemanticState::new` establishes the invariant (pointer widths 4 and 8) -/
theorem new_ok (ps : Nat) (h : ps = 4 ∨ ps = 8) : StateOk (State.new ps) := by
  sorry

/-- `add_module` preserves it – and never panics -/
theorem addModule_ok (s s' : State) (m : G.Module) (path : Path) (hs : StateOk s)
    (h : s.addModule m path = .ok s') : StateOk s' := by
  sorry

theorem addModule_no_panic (s : State) (m : G.Module) (path : Path) (site : String) :
    s.addModule m path ≠ .panic site := by
  sorry

/-- one resolution attempt preserves the invariant -/
theorem attempt_ok (s : State) (p : Path) (hs : StateOk s) : StateOk (attemptItem s p).1 := by
  sorry

/-- **no panic in an attempt**: under the invariant the only panic an attempt can end in is the
    modelled allocation limit -/
theorem attempt_no_panic (s : State) (p : Path) (hs : StateOk s) (site : String)
    (h : (attemptItem s p).2 = .panic site) : site = allocSite := by
  sorry

/-- **no panic, no hang in a whole build**: from a state satisfying the invariant, `build` ends in
    success, an error, the non-termination report, or the modelled allocation limit – never in another
    panic and never by running out of fuel -/
theorem build_total (s : State) (prio : List Path) (hs : StateOk s) :
    (match s.build prio with
     | .ok _ => True
     | .nonterm _ => True
     | .err _ => True
     | .panic site => site = allocSite
     | .fuel => False) := by
  sorry

/-- … in particular for every case: any pointer width 4 or 8, any modules, any priority -/
theorem run_total (c : Case) (hps : c.ps = 4 ∨ c.ps = 8) :
    (match c.run with
     | .panic site => site = allocSite
     | .fuel => False
     | _ => True) := by
  sorry

/-- the modelled allocation limit is only reached by descriptions that ask for a vftable of more
    than `paddingLoopBound` (4 194 304) slots -/
theorem alloc_only_for_huge_tables (out : List SFunc) (target : Nat) (site : String)
    (h : makePadding out target = .panic site) : site = allocSite ∧ target > paddingLoopBound := by
  sorry

end PyxisVerif.C12
