import PyxisVerif.Spec.C12
import PyxisVerif.Lemmas.C12
import PyxisVerif.Model.Full
import PyxisVerif.Lemmas.C12Parse
/-!
# C12 – every input yields a result: builds never panic or hang

Termination: the parser and lexer models are total functions (structural recursion / fuel equal to
the input length), the resolution loop ends within its rounds bound (`C10.rounds_bound_suffices`),
and every other loop of the model is a fold over a finite list.  No panic: under the registry
invariant `RegOk` – which `SemanticState::new` establishes and `add_module` and every attempt
preserve – the only `panic` outcome of the model is the modelled allocation limit `allocSite`.

Partial by nature: stack depth, the allocator, and panics inside syn / proc_macro2 / prettyplease /
quote are runtime behaviour no executable model of pyxis can exhibit; the fuzzing part of the check
is the only thing that looks at them.

## The literal bound

The model keeps integer literals as unbounded `Int`s.  pyxis reads them as `isize`, and so does the
parser model (`Parser.lean:213`).  `RegOk.aligns` asks every resolved alignment to be `≤ 2 ^ 63`; for
the alignments written in `#[align(N)]` attributes (type definitions and extern types) that bound is
only true when `N` is an `isize`.  With a literal `2 ^ 64` in the AST the invariant is lost and
`util::lcm` overflows (`ceCase` in `Lemmas/C12.lean`: the model answers `panic "util::lcm: acc / gcd * x"`).  This is
an artefact of the model's unbounded literals, not a reachable panic of pyxis: no source text parses
to such an AST.  The statements that depend on the bound are therefore proved under it
(`ModuleBounded`, `StateOkB`, `CaseBounded` in `Lemmas/C12.lean`: the literals of the attributes of
type definitions and extern types are in `isize` range) as `…_partial`, the unrestricted statements
are kept in comments marked REFUTED, each with its counterexample.
-/
namespace PyxisVerif.C12
open C09

/-- `SemanticState::new` establishes the invariant (pointer widths 4 and 8) -/
theorem new_ok (ps : Nat) (h : ps = 4 ∨ ps = 8) : StateOk (State.new ps) :=
  (new_okB ps h).ok

/-- … and there is nothing unresolved in it, so the literal bound holds too -/
theorem new_ok_bounded (ps : Nat) (h : ps = 4 ∨ ps = 8) : StateOkB (State.new ps) :=
  new_okB ps h

/- REFUTED (model artefact, see "The literal bound"): an extern type `#[size(0), align(2^64)] extern type X;`
   is accepted (`2^64` is a power of two) and registered as resolved with alignment `2^64 > 2^63`, so
   `RegOk.aligns` fails for the new state.  Checked below as `addModule_ok_refuted`.

/-- `add_module` preserves it – and never panics -/
theorem addModule_ok (s s' : State) (m : G.Module) (path : Path) (hs : StateOk s)
    (h : s.addModule m path = .ok s') : StateOk s'
  (no proof: the statement is false in the model, see `addModule_ok_refuted`)
-/

/-- the counterexample to the unrestricted statement: `ceExtern` added to `State.new 8` -/
theorem addModule_ok_refuted :
    ¬ ∀ (s s' : State) (m : G.Module) (path : Path), StateOk s → s.addModule m path = .ok s' → StateOk s' := by
  intro h
  have hok : ((State.new 8).addModule ceExtern []).isOk = true := by decide +kernel
  have hs' := h _ _ ceExtern [] (new_okB 8 (Or.inr rfl)).ok (eq_ok_stateOf _ hok)
  have ha : alignAt (stateOf ((State.new 8).addModule ceExtern [])) ["X"] = some (2 ^ 64) := by decide +kernel
  exact absurd (alignAt_le hs' _ _ ha) (by decide)

/-- `add_module` preserves the invariant when the attributes of the module's extern types carry
    `isize` literals (the definitions of the module do not matter for `StateOk`) -/
theorem addModule_ok_partial (s s' : State) (m : G.Module) (path : Path) (hs : StateOk s)
    (hbound : ∀ xt ∈ m.xtypes, AttrsBounded xt.2)
    (h : s.addModule m path = .ok s') : StateOk s' :=
  addModule_ok' s s' m path hs hbound h

/-- `add_module` preserves the invariant together with the literal bound on the unresolved definitions -/
theorem addModule_ok_partial_bounded (s s' : State) (m : G.Module) (path : Path) (hs : StateOkB s)
    (hbound : ModuleBounded m) (h : s.addModule m path = .ok s') : StateOkB s' :=
  addModule_okB s s' m path hs hbound h

theorem addModule_no_panic (s : State) (m : G.Module) (path : Path) (site : String) :
    s.addModule m path ≠ .panic site :=
  fun h => addModule_np s m path site h

/- REFUTED (model artefact, see "The literal bound"): in `State.new 8` plus the module
   `#[align(2^64)] type V {}` (a state satisfying `StateOk`), the attempt on `V` succeeds – size 0 is a
   multiple of every alignment – and stores `V` as resolved with alignment `2^64 > 2^63`.
   Checked below as `attempt_ok_refuted`.

/-- one resolution attempt preserves the invariant -/
theorem attempt_ok (s : State) (p : Path) (hs : StateOk s) : StateOk (attemptItem s p).1
  (no proof: the statement is false in the model, see `attempt_ok_refuted`)
-/

/-- the counterexample to the unrestricted statement: the attempt on `V` of `ceV` -/
theorem attempt_ok_refuted : ¬ ∀ (s : State) (p : Path), StateOk s → StateOk (attemptItem s p).1 := by
  intro h
  have hok : ((State.new 8).addModule { defs := [ceV] } []).isOk = true := by decide +kernel
  have hs : StateOk (stateOf ((State.new 8).addModule { defs := [ceV] } [])) :=
    addModule_ok' _ _ { defs := [ceV] } [] (new_okB 8 (Or.inr rfl)).ok (fun _ hx => by cases hx)
      (eq_ok_stateOf _ hok)
  have hs' := h _ ["V"] hs
  have ha : alignAt (attemptItem (stateOf ((State.new 8).addModule { defs := [ceV] } [])) ["V"]).1 ["V"]
      = some (2 ^ 64) := by decide +kernel
  exact absurd (alignAt_le hs' _ _ ha) (by decide)

/-- one resolution attempt preserves the invariant when the unresolved definitions carry `isize` literals -/
theorem attempt_ok_partial (s : State) (p : Path) (hs : StateOkB s) : StateOkB (attemptItem s p).1 :=
  attemptItem_ok s p hs

/-- **no panic in an attempt**: under the invariant the only panic an attempt can end in is the
    modelled allocation limit -/
theorem attempt_no_panic (s : State) (p : Path) (hs : StateOk s) (site : String)
    (h : (attemptItem s p).2 = .panic site) : site = allocSite :=
  attemptItem_po s p hs site h

/- REFUTED (model artefact, see "The literal bound"): `ceState` – `State.new 8` plus the module
   `#[align(2^64)] type V {}  type A { v: V }`.  It satisfies `StateOk` (`ce_ok`); the build resolves
   `V` with alignment `2^64` in the first round and panics in `util::lcm` when `A` is laid out in the
   second: `ceState.build [] = .panic "util::lcm: acc / gcd * x"` (`ce_build`).  Checked below as
   `build_total_refuted`.

/-- **no panic, no hang in a whole build** … -/
theorem build_total (s : State) (prio : List Path) (hs : StateOk s) :
    (match s.build prio with
     | .ok _ => True
     | .nonterm _ => True
     | .err _ => True
     | .panic site => site = allocSite
     | .fuel => False)
  (no proof: the statement is false in the model, see `build_total_refuted`)
-/

/-- the counterexample to the unrestricted statement -/
theorem build_total_refuted :
    ¬ ∀ (s : State) (prio : List Path), StateOk s →
      (match s.build prio with
       | .ok _ => True
       | .nonterm _ => True
       | .err _ => True
       | .panic site => site = allocSite
       | .fuel => False) := by
  intro h
  have := h ceState [] ce_ok
  rw [ce_build] at this
  exact ceSite_ne this

/-- **no panic, no hang in a whole build**: from a state satisfying the invariant whose unresolved
    definitions carry `isize` literals, `build` ends in success, an error, the non-termination report, or
    the modelled allocation limit – never in another panic and never by running out of fuel -/
theorem build_total_partial (s : State) (prio : List Path) (hs : StateOkB s) :
    (match s.build prio with
     | .ok _ => True
     | .nonterm _ => True
     | .err _ => True
     | .panic site => site = allocSite
     | .fuel => False) := by
  have h := build_shape s prio hs
  cases hb : s.build prio <;> rw [hb] at h <;> first | trivial | exact h

/- REFUTED (model artefact, see "The literal bound"): `ceCase` (pointer width 8, one root module
   `#[align(2^64)] type V {}  type A { v: V }`), for which the model answers
   `panic "util::lcm: acc / gcd * x"` (`ce_run`).  Checked below as `run_total_refuted`.

/-- … in particular for every case: any pointer width 4 or 8, any modules, any priority -/
theorem run_total (c : Case) (hps : c.ps = 4 ∨ c.ps = 8) :
    (match c.run with
     | .panic site => site = allocSite
     | .fuel => False
     | _ => True)
  (no proof: the statement is false in the model, see `run_total_refuted`)
-/

/-- the counterexample to the unrestricted statement -/
theorem run_total_refuted :
    ¬ ∀ (c : Case), (c.ps = 4 ∨ c.ps = 8) →
      (match c.run with
       | .panic site => site = allocSite
       | .fuel => False
       | _ => True) := by
  intro h
  have := h ceCase (Or.inr rfl)
  rw [ce_run] at this
  exact ceSite_ne this

/-- … in particular for every case whose modules carry `isize` literals: any pointer width 4 or 8,
    any modules, any priority -/
theorem run_total_partial (c : Case) (hps : c.ps = 4 ∨ c.ps = 8) (hbound : CaseBounded c) :
    (match c.run with
     | .panic site => site = allocSite
     | .fuel => False
     | _ => True) := by
  have h := run_shape c hps hbound
  cases hb : c.run <;> rw [hb] at h <;> first | trivial | exact h

/-- the modelled allocation limit is only reached by descriptions that ask for a vftable of more
    than `paddingLoopBound` (4 194 304) slots -/
theorem alloc_only_for_huge_tables (out : List SFunc) (target : Nat) (site : String)
    (h : makePadding out target = .panic site) : site = allocSite ∧ target > paddingLoopBound :=
  makePadding_panic out target site h

/-- the parser only produces `isize` literals (`LitInt::base10_parse::<isize>`), so every module that
    comes out of the parser satisfies the literal bound the no-panic theorems need -/
theorem parsed_module_bounded (s : String) (m : G.Module) (h : Parse.parseStr s = .ok m) : ModuleBounded m :=
  parseStr_bounded s m h

/-- **C12 for `pyxis::build`**: for ANY input texts (any bytes, any number of files) and pointer width 4 or
    8: parsing either fails with a position or yields modules on which the whole build – adding the
    modules, the resolution loop, resolving extern values – ends in success, an error or the
    non-termination report; never in a panic other than the modelled allocation limit, never by
    running out of rounds -/
theorem text_build_total (c c' : Case) (hps : c.ps = 4 ∨ c.ps = 8) (ht : c.allText = true)
    (h : resolveTexts c = .ok c') :
    (match c'.run with
     | .panic site => site = allocSite
     | .fuel => False
     | _ => True) := by
  obtain ⟨hb, hp⟩ := resolveTexts_bounded c c' ht h
  exact run_total_partial c' (by rw [hp]; exact hps) hb

end PyxisVerif.C12
