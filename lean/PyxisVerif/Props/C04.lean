import PyxisVerif.Spec.C04
import PyxisVerif.Lemmas.C04
/-!
# C04 – virtual functions occupy the declared vftable slots (table part)

The dispatch part of the property (what executing an emitted wrapper does) is checked on the
implementation by executing the emitted code (O4) and is not covered by a theorem here.
-/
namespace PyxisVerif.C04
open Gen

/-- **slots**: when the vftable block is accepted, function `k` sits in slot `pos[k]` (its written
    index, else predecessor + 1, else 0), every other slot holds the placeholder named after its own
    position, and the table has the declared size (else exactly the slots needed) -/
theorem slots (reg : Registry) (scope : List Path) (size : Option Nat) (fns : List G.Func) (out : List SFunc)
    (h : convertVfuncs reg scope size fns = .ok out) :
    ∃ pos built len,
      specPositions 0 (fns.map declIndex) = some pos
      ∧ Res.mapM' (buildFunction reg scope true) fns = .ok built
      ∧ pos.length = built.length
      ∧ specLength size pos = some len ∧ out.length = len
      ∧ (∀ pb ∈ pos.zip built, out[pb.1]? = some pb.2)
      ∧ (∀ j, j < out.length → j ∉ pos → out[j]? = some (placeholderFn j)) := by
  exact slots_main reg scope size fns out h

/-- **contradictions are rejected**: a negative index, an index below the slots already taken, or a
    declared size smaller than the slots needed -/
theorem contradiction_rejected (reg : Registry) (scope : List Path) (size : Option Nat) (fns : List G.Func)
    (h : specPositions 0 (fns.map declIndex) = none ∨
         ∃ pos, specPositions 0 (fns.map declIndex) = some pos ∧ specLength size pos = none) :
    (convertVfuncs reg scope size fns).isOk = false := by
  exact contradiction_main reg scope size fns h

/-- a placeholder is private, takes `&mut self`, returns nothing, is thiscall and is named `_vfunc_<slot>` -/
theorem placeholder_shape (j : Nat) :
    placeholderFn j = { vis := .priv, name := "_vfunc_" ++ toString j, doc := none,
                        body := .vft ("_vfunc_" ++ toString j), args := [.mutSelf], ret := none, cc := .Thiscall } := by
  exact placeholder_main j

/-- the generated `<T>Vftable` item has one pointer-sized region per slot, in slot order, named after
    the function in that slot, and its resolved size is `slots * pointer size` -/
theorem vftable_item (reg : Registry) (owner : Path) (vis : Vis) (fns : List SFunc) (item : ItemDef)
    (h : buildVftableItem reg owner vis fns = some item) :
    ∃ td, item.state = .res { size := fns.length * reg.ps, align := reg.ps, inner := .type td }
      ∧ td.regions = fns.map (functionToRegion owner)
      ∧ (∀ r ∈ td.regions, r.ty.size reg = .ok (some reg.ps) ∧ r.ty.align reg = some reg.ps) := by
  exact vftable_item_main reg owner vis fns item h

/-- **slot offset** (modelled rustc): in a `repr(C)` struct of `n` pointer-sized, pointer-aligned fields,
    field `k` is at byte `k * ps` -/
theorem slot_offset (ps n : Nat) (hps : 0 < ps) :
    RustSem.offsets false 0 (List.replicate n ⟨ps, ps⟩) = (List.range n).map (· * ps) := by
  exact slot_offset_main ps n hps

/-- the wrapper emitted for a virtual function reads the slot *by the name of that function's own
    field* and forwards the receiver followed by the arguments in declared order -/
theorem wrapper_shape (f : SFunc) (fn : String) (h : f.body = .vft fn) :
    ∃ hd, Emit.methodS f = Sexp.mk "method" (hd ++
      [Sexp.mk "call-slot" [.str fn, Sexp.mk "args" (f.args.map Emit.callArgS)]]) := by
  exact wrapper_main f fn h

/-- a built virtual function reads the slot named after itself -/
theorem vfunc_body (reg : Registry) (scope : List Path) (f : G.Func) (sf : SFunc)
    (h : buildFunction reg scope true f = .ok sf) : sf.body = .vft f.name ∧ sf.name = f.name := by
  exact vfunc_body_main reg scope f sf h

/-! ## non-vacuity -/
def exFns : List G.Func :=
  [{ vis := .pub, name := "a", attrs := [], args := [.mutSelf], ret := none },
   { vis := .pub, name := "b", attrs := [.fn "index" [.int 3]], args := [.constSelf, .named "x" (.ident "u32")], ret := some (.ident "i32") },
   { vis := .pub, name := "c", attrs := [], args := [.mutSelf], ret := none }]

example : specPositions 0 (exFns.map declIndex) = some [0, 3, 4] := by decide
example : (convertVfuncs (State.new 4).reg [] (some 6) exFns).isOk = true := by decide
example : specPositions 0 [none, some 0] = none := by decide
example : (convertVfuncs (State.new 4).reg [] (some 2) exFns).isOk = false := by decide

end PyxisVerif.C04
