import PyxisVerif.Spec.C09
import PyxisVerif.Lemmas.C10
import PyxisVerif.Props.C10Global
import PyxisVerif.Props.C10GlobalVft
/-!
# C10 – resolution succeeds exactly when names exist and by-value embedding is acyclic

What is proved: the loop always ends with a verdict within the rounds bound (never by running out
of fuel); a round that does not stop the build made progress; the error of a stuck build lists
exactly the items still unresolved; pointers never wait for their pointee; a size is known as soon
as the by-value dependencies are resolved; an unknown name or an unresolved by-value dependency
defers (never resolves) an item.  The global statement – "acyclic and all names defined ⇒ every
schedule resolves everything" – is the abstract `stuck_is_top` plus these facts and is checked on
the implementation against an independent graph analysis of the input (Tarjan) on every run.
-/
namespace PyxisVerif.C10
open C09

/-- the outcome of the resolution loop is a verdict, never "out of fuel": the rounds bound suffices -/
theorem rounds_bound_suffices (s : State) (prio : List Path)
    (hk : ∀ q j, s.reg.get q = some j → j.path = q) (hn : (s.reg.types.map (·.1)).Nodup) :
    (match resolveLoop prio (roundsBound s) s with | .fuel => False | _ => True) := by
  have _ := hk
  have hne : resolveLoop prio (roundsBound s) s ≠ .fuel :=
    resolveLoop_ne_fuel prio (roundsBound s) s hn (by
      have := mu_le s.reg
      unfold roundsBound; omega)
  split
  · next h => exact hne h
  · trivial

/-- **a round that does not stop the build made progress**: the measure `mu` (unresolved items + unresolved
    items whose generated vftable item is not registered yet) drops strictly -/
theorem rounds_progress (s s1 : State) (prio : List Path) (hn : (s.reg.types.map (·.1)).Nodup) (res : Res Unit)
    (hr : runRound s (s.reg.unresolved prio) = (s1, res))
    (hc : ¬ (s.reg.unresolved prio = s1.reg.unresolved prio ∧ s.reg.types.length = s1.reg.types.length)) :
    mu s1.reg < mu s.reg ∧ (s1.reg.types.map (·.1)).Nodup := by
  have hp := runRound_prog (s.reg.unresolved prio) s hn
  rw [hr] at hp
  exact ⟨round_progress prio s.reg s1.reg hn hp hc, hp.nodup⟩

/-- **the error names exactly the unresolved items**: when the loop gives up, the list in the error is
    the list of unresolved items of the registry at that moment -/
theorem nonterm_lists_unresolved (prio : List Path) (fuel : Nat) (s : State) (failed : List Path)
    (h : resolveLoop prio fuel s = .nonterm failed) :
    ∃ s' : State, failed = s'.reg.unresolved prio ∧ failed ≠ [] := by
  induction fuel generalizing s with
  | zero => simp [resolveLoop] at h
  | succ n ih =>
    unfold resolveLoop at h
    simp only [] at h
    split at h
    · cases h
    · next hne =>
      split at h
      · split at h
        · cases h
          refine ⟨s, rfl, ?_⟩
          intro he; rw [he] at hne; simp at hne
        · exact ih _ h
      all_goals cases h

/-- **success leaves nothing out**: when the loop succeeds no non-predefined item is unresolved -/
theorem success_resolves_everything (prio : List Path) (fuel : Nat) (s s' : State)
    (h : resolveLoop prio fuel s = .ok s') : s'.reg.unresolved prio = [] := by
  induction fuel generalizing s with
  | zero => simp [resolveLoop] at h
  | succ n ih =>
    unfold resolveLoop at h
    simp only [] at h
    split at h
    · next he => cases h; exact List.isEmpty_iff.mp he
    · split at h
      · split at h
        · cases h
        · exact ih _ h
      all_goals cases h

/-- **by-value dependencies decide**: the size of a type expression is known exactly when all the
    items it embeds by value are resolved (and the product fits) – pointers contribute nothing -/
theorem size_known_iff (r : Registry) (t : DTy) :
    (∃ s, t.size r = .ok (some s)) → ∀ p ∈ byValue t, ∃ i, r.get p = some i ∧ i.isResolved = true := by
  intro h
  induction t with
  | raw q =>
    obtain ⟨sz, h⟩ := h
    intro p hp
    simp only [byValue, List.mem_singleton] at hp
    subst hp
    simp only [DTy.size, Res.ok.injEq] at h
    cases hg : r.get p with
    | none => rw [hg] at h; simp at h
    | some i =>
      rw [hg] at h
      refine ⟨i, rfl, ?_⟩
      simp only [Option.bind_some, Option.map_eq_some_iff] at h
      obtain ⟨x, hx, _⟩ := h
      simp [ItemDef.isResolved, hx]
  | cptr t _ => intro p hp; simp [byValue] at hp
  | mptr t _ => intro p hp; simp [byValue] at hp
  | arr t n ih =>
    obtain ⟨sz, h⟩ := h
    simp only [byValue]
    apply ih
    simp only [DTy.size] at h
    split at h
    · next s hs => exact ⟨s, hs⟩
    · next hne => exact absurd h (hne sz)

theorem size_unknown_defers (r : Registry) (t : DTy) (p : Path) (hp : p ∈ byValue t)
    (hu : ∀ i, r.get p = some i → i.isResolved = false) : t.size r = .ok none := by
  induction t with
  | raw q =>
    simp only [byValue, List.mem_singleton] at hp
    subst hp
    simp only [DTy.size, Res.ok.injEq]
    cases hg : r.get p with
    | none => rfl
    | some i =>
      have := hu i hg
      simp only [ItemDef.isResolved, Option.isSome_eq_false_iff, Option.isNone_iff_eq_none] at this
      simp [this]
  | cptr t _ => simp [byValue] at hp
  | mptr t _ => simp [byValue] at hp
  | arr t n ih =>
    simp only [byValue] at hp
    simp only [DTy.size, ih hp]

/-- an undefined name in a field defers the type (it is retried, and finally reported), it never
    produces a type with the field dropped -/
theorem unknown_field_name_defers (s : State) (path : Path) (vis : Vis) (d : G.TypeDef) (m : Mod)
    (hm : s.moduleFor path = some m) (st : G.Stmt) (hst : st ∈ d.stmts)
    (v : Vis) (n : String) (t : G.Ty) (hf : st.field = .field v n t)
    (hu : s.reg.resolveTy m.scope t = .defer) :
    ∀ r, (buildType s path vis d).2 ≠ .ok r := by
  intro r
  unfold buildType
  simp only [hm]
  split
  · simp
  · split
    · split
      · next sa hsa =>
        exact (stmts_fold_field_defer s.reg m.scope d.stmts st hst v n t hf hu sa hsa).elim
      · exact fun h => C14.cast_ne_ok _ _ h
    · exact fun h => C14.cast_ne_ok _ _ h

/-- an undefined enum base defers the enum -/
theorem unknown_enum_base_defers (s : State) (path : Path) (d : G.EnumDef) (m : Mod)
    (hm : s.moduleFor path = some m) (hu : s.reg.resolveTy m.scope d.ty = .defer) :
    buildEnum s path d = .defer := by
  unfold buildEnum
  simp only [hm, hu]
  rfl

/- REFUTED: an *earlier* extern value whose type is an `unknown<N>` makes `padding_type` panic when
   `u8` is not registered, and `collect` stops at that element.  Counterexample (checked below as
   `unknown_extern_value_type_rejected_refuted`): `reg := { types := [], ps := 8 }`,
   `m.xvals := [a : unknown<1>, b : nope]`, `x := b`; then `resolveXVals reg m = .panic "padding_type: u8 missing"`,
   which is not `.err msg`.

/-- an undefined name in an extern value is an error of the build -/
theorem unknown_extern_value_type_rejected (reg : Registry) (m : Mod) (x : XValue) (hx : x ∈ m.xvals)
    (hu : reg.resolveTy m.scope x.gty = .defer) : ∃ msg, resolveXVals reg m = .err msg
  (no proof: the statement is false, see `unknown_extern_value_type_rejected_refuted`)
-/

/-- the counterexample to the unrestricted statement -/
theorem unknown_extern_value_type_rejected_refuted :
    ¬ ∀ (reg : Registry) (m : Mod) (x : XValue), x ∈ m.xvals → reg.resolveTy m.scope x.gty = .defer →
      ∃ msg, resolveXVals reg m = .err msg := by
  intro h
  obtain ⟨msg, hmsg⟩ := h { types := [], ps := 8 }
    { xvals := [⟨.pub, "a", .unk 1, none, 0⟩, ⟨.pub, "b", .ident "nope", none, 0⟩] }
    ⟨.pub, "b", .ident "nope", none, 0⟩ (by simp) rfl
  have : resolveXVals { types := [], ps := 8 }
      { xvals := [⟨.pub, "a", .unk 1, none, 0⟩, ⟨.pub, "b", .ident "nope", none, 0⟩] }
      = .panic "padding_type: u8 missing" := rfl
  rw [this] at hmsg
  cases hmsg

/-- an undefined name in an extern value: the build does not succeed (it is an error, or the panic of an
    earlier extern value) -/
theorem unknown_extern_value_type_rejected_partial (reg : Registry) (m : Mod) (x : XValue) (hx : x ∈ m.xvals)
    (hu : reg.resolveTy m.scope x.gty = .defer) : (resolveXVals reg m).isOk = false :=
  resolveXVals_not_ok reg m x hx hu

/-- … and it is an error with a message whenever no extern value of the module makes `padding_type` panic -/
theorem unknown_extern_value_type_rejected_partial_err (reg : Registry) (m : Mod) (x : XValue) (hx : x ∈ m.xvals)
    (hu : reg.resolveTy m.scope x.gty = .defer)
    (hnp : ∀ y ∈ m.xvals, ∀ site, reg.resolveTy m.scope y.gty ≠ .panic site) :
    ∃ msg, resolveXVals reg m = .err msg :=
  resolveXVals_err reg m x hx hu hnp

end PyxisVerif.C10
