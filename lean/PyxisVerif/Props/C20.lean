import PyxisVerif.Spec.C20
import PyxisVerif.Lemmas.C20
import PyxisVerif.Props.C20E2E
import PyxisVerif.Props.C20Gap
/-!
# C20 – equivalent descriptions produce identical bindings

One theorem per rewrite of the property's list, each at the place in the model where the two
spellings meet: the rewritten input drives the layout / slot / enum code into *the same state*,
so everything downstream (and the emitted text) is the same.  Spelling a number in another base
is C18's `int_value` (the parser yields the same abstract module).
-/
namespace PyxisVerif.C20
open Layout Gen

/-- **giving a field the explicit address it already had**: with the placement loop at offset `st.2`,
    a field written `#[address(st.2)]` is placed exactly like the same field without an address
    (the padding is a zero-length array, which `Regions::push` drops) -/
theorem explicit_address_noop {β} (st : St β) (f : PField β) (fs : List (PField β)) :
    place st ({ f with addr := some st.2 } :: fs) = place st ({ f with addr := none } :: fs) :=
  explicit_address_noop_lem st f fs

/-- … at any position of the field list -/
theorem explicit_address_noop_at {β} (st st1 : St β) (pre : List (PField β)) (f : PField β) (post : List (PField β))
    (h : place st pre = .ok st1) :
    place st (pre ++ { f with addr := some st1.2 } :: post) = place st (pre ++ { f with addr := none } :: post) :=
  explicit_address_noop_at_lem st st1 pre f post h

/-- **replacing an `unknown<N>` gap by an address on the following field** (and the reverse): the placed
    lists agree region for region in size and alignment, and differ only in that the gap region is
    a source region in one and generated padding in the other … -/
theorem gap_vs_address (st : St Region) (r : Region) (n : Nat) (g : PField Region) (fs : List (PField Region))
    (hg : g.addr = none) :
    (place st (gapField r n :: g :: fs)).isOk = (place st ({ g with addr := some (st.2 + n) } :: fs)).isOk
    ∧ ∀ st1 st2, place st (gapField r n :: g :: fs) = .ok st1 →
        place st ({ g with addr := some (st.2 + n) } :: fs) = .ok st2 →
        st1.2 = st2.2 ∧ st1.1.map (fun p => (p.size, p.align)) = st2.1.map (fun p => (p.size, p.align))
        ∧ st1.1.length = st2.1.length
        ∧ ∀ k (h1 : k < st1.1.length) (h2 : k < st2.1.length),
            st1.1[k] = st2.1[k] ∨ (st1.1[k].src = some r ∧ st2.1[k].src = none ∧ st1.1[k].size = n) :=
  gap_vs_address_lem st r n g fs hg

/-- … and the naming pass turns both into the same private, undocumented `_field_<offset>` field -/
theorem gap_region_named_like_padding (reg : Registry) (off : Nat) (r : Region) (n : Nat)
    (rest : List (Placed Region)) (hr : IsGapRegion reg r n) :
    nameRegions reg off (⟨n, some 1, some r⟩ :: rest) = nameRegions reg off (⟨n, some 1, none⟩ :: rest) :=
  gap_region_named_lem reg off r n rest hr

/-- **adding a size attribute equal to the natural size** -/
theorem natural_size_noop {β} (vptr : Option (PField β)) (fields : List (PField β))
    (placed : List (Placed β)) (size : Nat) (h : resolve vptr fields none = .ok (placed, size)) :
    resolve vptr fields (some size) = .ok (placed, size) :=
  natural_size_noop_lem vptr fields placed size h

/-- **giving a virtual function the index it already had**: with `out.length` slots filled, a function
    written `#[index(out.length)]` takes the same slot and leaves the same table as without the attribute -/
theorem natural_index_noop (reg : Registry) (scope : List Path) (out : List SFunc) (f : G.Func)
    (hf : C04.declIndex f = none) :
    slotStep reg scope out (withIndex f out.length) = slotStep reg scope out f :=
  natural_index_noop_lem reg scope out f hf

/-- `slotStep` is the body of the loop in `convertVfuncs` -/
theorem convertVfuncs_is_slotStep_fold (reg : Registry) (scope : List Path) (size : Option Nat) (fns : List G.Func) :
    convertVfuncs reg scope size fns =
      (match Res.foldlM (slotStep reg scope) [] fns with
       | .ok out => (match size with
          | some n => if n < out.length then .err "vftable is declared with a size smaller than the slots its functions occupy" else makePadding out n
          | none => .ok out)
       | e => e) :=
  convertVfuncs_fold_lem reg scope size fns

/-- **writing an enum value that equals the implicit one** -/
theorem implicit_enum_value_noop (range : Int × Int) (acc : EnumAcc) (st : G.EnumStmt) (v : Int)
    (hl : acc.last = some v) (he : st.expr = none) :
    enumStmtStep range acc { st with expr := some (.int v) } = enumStmtStep range acc st :=
  implicit_enum_value_lem range acc st v hl he

/-- **reordering the type definitions of a module**: the file lists a module's items sorted by path, so
    it depends on the *set* of definition paths only (paths are unique per item) -/
theorem reorder_definitions (s : State) (key : Path) (m m' : Mod)
    (hp : m'.defPaths.Perm m.defPaths) (hn : m.defPaths.Nodup)
    (hk : ∀ p i, s.reg.get p = some i → i.path = p)
    (hrest : m' = { m with defPaths := m'.defPaths }) :
    Emit.moduleFile s key m' = Emit.moduleFile s key m := by
  have _ := hn
  exact reorder_definitions_lem s key m m' hp hk hrest

/-- … and the order in which unresolved items are attempted does not depend on the order in which
    they were registered -/
theorem unresolved_order_independent (r r' : Registry) (prio : List Path)
    (hp : r'.types.Perm r.types) (hn : (r.types.map (·.1)).Nodup) :
    r'.unresolved prio = r.unresolved prio := by
  have _ := hn
  exact unresolved_order_lem r r' prio hp

end PyxisVerif.C20
