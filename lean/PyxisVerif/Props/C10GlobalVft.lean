import PyxisVerif.Lemmas.C10GlobalVft
import PyxisVerif.Props.C10Global
import PyxisVerif.Props.C09Vft
/-!
# C10, global – the converse statements for descriptions WITH vftable blocks, under `NoGenRefs`

`Props/C10Global.lean` proves `stuck_has_cause` in general, and the converse statements

* names defined ∧ by-value embedding acyclic ⇒ a build that gives up does so for a size beyond `usize::MAX`
  (`acyclic_defined_not_stuck_novft_partial`, `acyclic_defined_not_stuck_novft`),
* accepted ⇒ names defined ∧ acyclic (`accepted_defined_acyclic_novft`)

for descriptions without `vftable` blocks only (finding 4 there: with vftable blocks the key set grows during the run and
`resolve_string` is not monotone in the key set).  Here they are proved for descriptions WITH `vftable` blocks in which
nothing mentions a generated `<T>Vftable` item by name (`C09.NoGenRefs` for states, `C09.CaseNoGenRefs` for cases,
`Lemmas/MonoVft.lean`), with the same `AllDefined` / `Acyclic` / `Overflow` (`Props/C10Global.lean`, `Lemmas/C10Global.lean`).

Two things make this work (`Lemmas/C10GlobalVft.lean`).  Every state the rounds reach is the abstract registry of a
run over the initial state plus generated items (`C09.Rep`); generated items are registered RESOLVED, so an unresolved
entry of a later state is an unresolved entry of the initial state, and nothing waits for a generated item.  And under
`NoGenRefs` no type expression of an unresolved definition names a generated item, so the lookups the relation `WaitsOn`
is read off (`usedTys`: field types, enum bases – NOT function signatures) answer in every later state what they
answer in the initial state: `AllDefined` is about user names only, as in the model.  The subtlety of
`resolve_regions` – a type whose FIRST `#[base]` field has no size yet defers BEFORE `vftable::build`, its generated item
not yet registered (`VftExample` of `Props/C09Vft.lean`: `D` in round 1) – needs no special treatment: the cause of that
deferral is `waitsFor base`, an old key, and whether the generated item is registered or not changes no lookup.

Finding 1 of `Props/C10Global.lean` (a third cause: sizes beyond `usize::MAX`) is there with vftable blocks too; the
example below is a type WITH a vftable block and an oversized array.
-/
namespace PyxisVerif.C10
open C09

/-- **names defined, by-value embedding acyclic ⇒ if the build still gives up, it is for a size beyond
    `usize::MAX`** (with `vftable` blocks, nothing mentioning a generated name): some listed item has an `Overflow` in
    the stuck state -/
theorem acyclic_defined_not_stuck_nogenref_partial (s : State) (prio : List Path) (hs : C12.StateOkB s)
    (hp : PredefResolved s) (hg : C09.NoGenRefs s) (hdef : AllDefined s) (hacyc : Acyclic s)
    (l : List Path) (h : s.build prio = .nonterm l) :
    ∃ s', Rounds prio s s' ∧ StuckAt prio s' l ∧ ∃ p ∈ l, Overflow s' p := by
  obtain ⟨rank, hrank⟩ := hacyc
  exact acyclic_defined_stuck_overflowV s prio hs hp hg hdef rank (fun p q h1 h2 => hrank p q ⟨h1, h2⟩) l h

/-- … hence: names defined, acyclic and no size overflow in any state the rounds reach ⇒ the build does not end in
    `nonterm` -/
theorem acyclic_defined_not_stuck_nogenref (s : State) (prio : List Path) (hs : C12.StateOkB s)
    (hp : PredefResolved s) (hg : C09.NoGenRefs s) (hdef : AllDefined s) (hacyc : Acyclic s)
    (hsmall : ∀ s', Rounds prio s s' → ∀ p, ¬ Overflow s' p) :
    ∀ l, s.build prio ≠ .nonterm l := by
  intro l h
  obtain ⟨s', hr, _, p, _, ho⟩ := acyclic_defined_not_stuck_nogenref_partial s prio hs hp hg hdef hacyc l h
  exact hsmall s' hr p ho

/-- … for whole cases (syntactic condition `CaseNoGenRefs` on the modules) -/
theorem case_acyclic_defined_not_stuck_nogenref_partial (c : Case) (hps : c.ps = 4 ∨ c.ps = 8)
    (hb : C12.CaseBounded c) (hg : C09.CaseNoGenRefs c) (s0 : State) (hi : c.initialState = .ok s0)
    (hdef : AllDefined s0) (hacyc : Acyclic s0) (l : List Path) (h : c.run = .nonterm l) :
    ∃ s', Rounds c.prio s0 s' ∧ StuckAt c.prio s' l ∧ ∃ p ∈ l, Overflow s' p := by
  obtain ⟨s0', hi', hbuild⟩ := run_nonterm_inv c l h
  rw [hi] at hi'; cases hi'
  exact acyclic_defined_not_stuck_nogenref_partial s0 c.prio ((C12.initialState_shape c hps hb).2 s0 hi)
    (initialState_predef c s0 hi) (initial_noGenRefs c hps hb hg s0 hi) hdef hacyc l hbuild

theorem case_acyclic_defined_not_stuck_nogenref (c : Case) (hps : c.ps = 4 ∨ c.ps = 8)
    (hb : C12.CaseBounded c) (hg : C09.CaseNoGenRefs c) (s0 : State) (hi : c.initialState = .ok s0)
    (hdef : AllDefined s0) (hacyc : Acyclic s0)
    (hsmall : ∀ s', Rounds c.prio s0 s' → ∀ p, ¬ Overflow s' p) : ∀ l, c.run ≠ .nonterm l := by
  intro l h
  obtain ⟨s', hr, _, p, _, ho⟩ := case_acyclic_defined_not_stuck_nogenref_partial c hps hb hg s0 hi hdef hacyc l h
  exact hsmall s' hr p ho

/-- **accepted ⇒ every used name is defined and by-value embedding among the unresolved items is acyclic** (with
    `vftable` blocks, nothing mentioning a generated name): the order in which the run resolved the items is a rank -/
theorem accepted_defined_acyclic_nogenref (s : State) (prio : List Path) (hs : C12.StateOkB s)
    (hp : PredefResolved s) (hg : C09.NoGenRefs s) (s1 : State) (h : s.build prio = .ok s1) :
    AllDefined s ∧ Acyclic s := by
  obtain ⟨s', hl, _⟩ := C09.build_ok_inv s prio s1 h
  obtain ⟨h1, rank, h2⟩ := accepted_defined_acyclic_lemV s prio hs hp hg _ s' hl
  exact ⟨h1, rank, fun p q hw => h2 p q hw.1 hw.2⟩

/-- … for whole cases -/
theorem case_accepted_defined_acyclic_nogenref (c : Case) (hps : c.ps = 4 ∨ c.ps = 8) (hb : C12.CaseBounded c)
    (hg : C09.CaseNoGenRefs c) (s0 s1 : State) (hi : c.initialState = .ok s0) (h : c.run = .ok s1) :
    AllDefined s0 ∧ Acyclic s0 := by
  unfold Case.run at h
  rw [hi] at h
  exact accepted_defined_acyclic_nogenref s0 c.prio ((C12.initialState_shape c hps hb).2 s0 hi)
    (initialState_predef c s0 hi) (initial_noGenRefs c hps hb hg s0 hi) s1 h

/-! ## non-vacuity -/

/-! ### an accepted description with vftable blocks: `C09.VftExample` (a base `B` with a vftable block, a derived `D`
    extending it, a type `P` with a pointer to `D`) -/
namespace AcceptedVftExample

/-- the theorem applies to the accepted case of `Props/C09Vft.lean` … -/
theorem defined_acyclic : AllDefined C09.VftExample.s0 ∧ Acyclic C09.VftExample.s0 := by
  obtain ⟨s1, h1⟩ := (C09.isOkB_iff _).mp C09.VftExample.run_ok
  exact case_accepted_defined_acyclic_nogenref C09.VftExample.case (Or.inr rfl) C09.VftExample.bounded
    C09.VftExample.noGenRefs C09.VftExample.s0 s1 C09.VftExample.init h1

/-- … whose dependency relation is not empty: `D` statically waits for its base `B` (and in round 1 defers for it BEFORE
    `vftable::build`), `B` and `P` wait for nothing (the pointer from `P` to `D` is not a dependency) -/
example : activeCauses C09.VftExample.s0 ["m", "D"] = [.waitsFor ["m", "B"]] := by decide +kernel
example : activeCauses C09.VftExample.s0 ["m", "B"] = [] := by decide +kernel
example : activeCauses C09.VftExample.s0 ["m", "P"] = [] := by decide +kernel
/-- after round 1 `D` is the only unresolved item, its base is resolved, nothing blocks it, and its generated item is
    not registered yet while the one of `B` is -/
example : activeCauses C09.VftExample.s1 ["m", "D"] = [] := by decide +kernel
example : C09.VftExample.s1.reg.contains ["m", "BVftable"] = true ∧
    C09.VftExample.s1.reg.contains ["m", "DVftable"] = false := by decide +kernel

end AcceptedVftExample

/-! ### the stuck description with a `vftable` block of `Props/C10Global.lean` (`VftExample`: a by-value cycle `V → W → V`)
    satisfies `NoGenRefs`: the theorems are applicable to it, and `stuck_has_cause` names the cycle -/
namespace StuckVftExample

theorem noGenRefs : CaseNoGenRefs VftExample.case := by decide +kernel

theorem noGenRefs_s0 : NoGenRefs VftExample.s0 :=
  initial_noGenRefs VftExample.case (Or.inr rfl) VftExample.bounded noGenRefs VftExample.s0 VftExample.init

/-- the causes of the stuck state `s1` (where `VVftable` is registered) are causes of the initial state `s0` (where it
    is not): `Lemmas/C10GlobalVft.lean: rep_waitsOn / rep_active`, here computed -/
example : activeCauses VftExample.s0 ["V"] = [.waitsFor ["W"]] ∧ activeCauses VftExample.s0 ["W"] = [.waitsFor ["V"]] := by
  decide +kernel

/-- the cycle: by-value embedding among the unresolved items of the initial state has no rank -/
theorem not_acyclic : ¬ Acyclic VftExample.s0 := by
  rintro ⟨rank, h⟩
  have hvw : StaticWaits VftExample.s0 ["V"] ["W"] :=
    (mem_activeCauses VftExample.s0 ["V"] (.waitsFor ["W"])).mp (by decide +kernel)
  have hwv : StaticWaits VftExample.s0 ["W"] ["V"] :=
    (mem_activeCauses VftExample.s0 ["W"] (.waitsFor ["V"])).mp (by decide +kernel)
  have h1 := h _ _ hvw
  have h2 := h _ _ hwv
  omega

end StuckVftExample

/-! ### finding 1 with a `vftable` block: every hypothesis of the converse holds, the build gives up, and the theorem
    exhibits the overflow

```text
pub type T { vftable { pub fn f(&self); }  pub a: [u64; 2305843009213693952] }     // 8 * 2^61 = 2^64 > usize::MAX
```

Round 1: `T` has no `#[base]` field, `vftable::build` registers `TVftable`, the placement loop finds no size for `a` and
defers.  The registry grew, so the loop goes on; round 2 re-inserts `TVftable`, defers again, nothing changed: the build
gives up with `[T]`. -/
namespace OverflowVftExample

def mod : G.Module :=
  { defs := [{ vis := .pub, name := "T",
               inner := .type { stmts := [{ field := .vftable [{ vis := .pub, name := "f", attrs := [], args := [.constSelf],
                                                                    ret := none }], attrs := [] },
                                          { field := .field .pub "a" (.arr (.ident "u64") (2 ^ 61)), attrs := [] }],
                                attrs := [] } }] }

def l : List Path := [["T"]]
def case : Case := { id := "c10-overflow-vft", ps := 8, prio := [], modules := [.ast [] "big.pyxis" mod], extras := [] }

def s0 : State := C12.stateOf case.initialState
def s1 : State := (runRound s0 l).1
def s2 : State := (runRound s1 l).1

theorem init : case.initialState = .ok s0 := C12.eq_ok_stateOf _ (by decide +kernel)
theorem u0 : s0.reg.unresolved [] = l := unresolved_of_sorted _ _ _ (by decide +kernel) (by decide +kernel)
theorem r0 : runRound s0 l = (s1, .ok ()) := by
  have : (runRound s0 l).2 = .ok () := by decide +kernel
  rw [← this]; rfl
theorem u1 : s1.reg.unresolved [] = l := unresolved_of_sorted _ _ _ (by decide +kernel) (by decide +kernel)
theorem r1 : runRound s1 l = (s2, .ok ()) := by
  have : (runRound s1 l).2 = .ok () := by decide +kernel
  rw [← this]; rfl
theorem u2 : s2.reg.unresolved [] = l := unresolved_of_sorted _ _ _ (by decide +kernel) (by decide +kernel)
/-- the first round registered the generated item … -/
theorem len01 : (s0.reg.types.length == s1.reg.types.length) = false := by decide +kernel
/-- … the second registered nothing new -/
theorem len12 : s1.reg.types.length = s2.reg.types.length := by decide +kernel

theorem loop (n : Nat) : resolveLoop [] (n + 2) s0 = .nonterm l := by
  rw [resolveLoop_step _ (n + 1) s0 s1 l u0 rfl r0 (by rw [u1, len01]; simp)]
  unfold resolveLoop
  simp only [u1, r1, u2, len12]
  rfl

theorem build : s0.build [] = .nonterm l := by
  unfold State.build
  simp only []
  rw [(by decide +kernel : (s0.reg.types.filter fun e => !e.2.isResolved).length = 1)]
  rw [loop 2]

theorem run : case.run = .nonterm l := by
  unfold Case.run
  rw [init]
  exact build

theorem bounded : C12.CaseBounded case := by
  intro path file m hm
  simp only [case, List.mem_cons, List.not_mem_nil, or_false, ModEnt.ast.injEq] at hm
  obtain ⟨_, _, rfl⟩ := hm
  refine ⟨?_, ?_⟩
  · intro d hd
    simp only [mod, List.mem_cons, List.not_mem_nil, or_false] at hd
    subst hd
    intro n args z ha; cases ha
  · intro xt hx; cases hx

/-- the generated path is `TVftable`, and nothing mentions it -/
example : caseGenPaths case = [["TVftable"]] := by decide +kernel
theorem noGenRefs : CaseNoGenRefs case := by decide +kernel

theorem ok : C12.StateOkB s0 := (C12.initialState_shape case (Or.inr rfl) bounded).2 s0 init
theorem predef : PredefResolved s0 := initialState_predef case s0 init
theorem noGenRefs_s0 : NoGenRefs s0 := initial_noGenRefs case (Or.inr rfl) bounded noGenRefs s0 init

/-- the only active cause of `T` is the overflow -/
theorem causes_T : activeCauses s0 ["T"] = [.overflow] := by decide +kernel

theorem unres_keys : (s0.reg.types.filter (fun e => !e.2.isResolved)).map (·.1) = [["T"]] := by decide +kernel

/-- in the initial state: whatever waits on something is `T`, and what is active for it is the overflow -/
theorem only_overflow (p : Path) (c : Cause) (hw : WaitsOn s0 p c) (ha : Active s0 p c) : c = .overflow := by
  have hp := hw.unres_key
  rw [unres_keys, List.mem_singleton] at hp
  subst hp
  have := (mem_activeCauses s0 ["T"] c).mpr ⟨hw, ha⟩
  rw [causes_T, List.mem_singleton] at this
  exact this

theorem allDefined : AllDefined s0 := fun p n hw ha => by cases only_overflow p _ hw ha
theorem acyclic : Acyclic s0 := ⟨fun _ => 0, fun p q h => by cases only_overflow p _ h.1 h.2⟩

/-- the hypotheses of the converse hold, the build gives up, and the theorem exhibits the overflow -/
example : ∃ s', Rounds [] s0 s' ∧ StuckAt [] s' l ∧ ∃ p ∈ l, Overflow s' p :=
  acyclic_defined_not_stuck_nogenref_partial s0 [] ok predef noGenRefs_s0 allDefined acyclic l build

example : ∃ s', Rounds case.prio s0 s' ∧ StuckAt case.prio s' l ∧ ∃ p ∈ l, Overflow s' p :=
  case_acyclic_defined_not_stuck_nogenref_partial case (Or.inr rfl) bounded noGenRefs s0 init allDefined acyclic l run

/-- it is the array, in the stuck state `s1` (where `TVftable` is registered): `u64` is resolved and `[u64; 2^61]` has no
    size -/
example : Overflow s1 ["T"] ∧ s1.reg.contains ["TVftable"] = true :=
  ⟨(overflow_iff s1 ["T"]).mpr (by decide +kernel), by decide +kernel⟩

end OverflowVftExample

/-- finding 1 stands with vftable blocks under `NoGenRefs`: names defined and by-value embedding acyclic do not exclude
    `nonterm` (which is why the statement has the `Overflow` disjunct / the `hsmall` hypothesis) -/
theorem acyclic_defined_not_stuck_nogenref_refuted :
    ¬ ∀ (s : State) (prio : List Path), C12.StateOkB s → PredefResolved s → C09.NoGenRefs s →
      AllDefined s → Acyclic s → ∀ l, s.build prio ≠ .nonterm l := by
  intro h
  exact h OverflowVftExample.s0 [] OverflowVftExample.ok OverflowVftExample.predef OverflowVftExample.noGenRefs_s0
    OverflowVftExample.allDefined OverflowVftExample.acyclic OverflowVftExample.l OverflowVftExample.build

end PyxisVerif.C10
