import PyxisVerif.Spec.C01
import PyxisVerif.Lemmas.C01
/-!
# C01 – declared field addresses are the real field offsets in the emitted struct

Three links, each a theorem: (1) the placement loop puts every source field at the offset the
description says (`placed_at_spec`); (2) whenever pyxis's alignment block accepts, the compiler's
`repr(C)` algorithm (modelled in `RustSem`) inserts no padding of its own, so its offsets are
pyxis's running sums (`rustc_offsets`); (3) the emitted struct lists exactly the placed regions, in
order, under `repr(C, align(a))` / `repr(C, packed)` (`emitted_fields`).  `field_offsets_exact`
composes them.
-/
namespace PyxisVerif.C01
open Layout

/-- (1) **placement**: after `resolve_regions`, the source fields that are emitted sit, in source
    order, exactly at `specOffsets` (the vftable pointer, if the type owns one, at 0 and the first
    field right after it) -/
theorem placed_at_spec {β} (vptr : Option (PField β)) (fields : List (PField β)) (target : Option Nat)
    (placed : List (Placed β)) (size : Nat)
    (h : resolve vptr fields target = .ok (placed, size)) :
    let start := match vptr with | some v => (if emitted v then fsize v else 0) | none => 0
    sourceOffsets placed =
      (match vptr with | some v => (if emitted v then [(0, v.val)] else []) | none => []) ++
      ((fields.zip (specOffsets start fields)).filter (fun p => emitted p.1)).map (fun p => (p.2, p.1.val))
    ∧ size = sumSizes placed := by
  cases vptr <;> exact resolve_spec _ fields target placed size h

/-- (2) **the compiler adds no padding** (modelled rustc): if the alignment block accepts, the
    `repr(C)` offsets of the emitted fields are pyxis's running offsets, the compiled size is the
    resolved size and the compiled alignment is the resolved alignment -/
theorem rustc_offsets {β} (ps : Nat) (packed : Bool) (align? : Option Nat) (rs : List (Placed β)) (size a : Nat)
    (hs : size = sumSizes rs) (h : alignCheck ps packed align? rs size = .ok a) :
    RustSem.offsets packed 0 (rs.map toFld) = (offsets 0 rs).map (·.1)
    ∧ RustSem.structSize packed (if packed then none else some a) (rs.map toFld) = size
    ∧ RustSem.structAlign packed (if packed then none else some a) (rs.map toFld) = a := by
  exact rustc_offsets_lem ps packed align? rs size a hs h

/-- (3) **emission**: the struct emitted for a type lists its regions in order, with `repr(C, packed)`
    for packed types and `repr(C, align(<resolved alignment>))` otherwise -/
theorem emitted_fields (reg : Registry) (path : Path) (size align : Nat) (vis : Vis) (td : TypeDefn) :
    ∃ docs derives tl, Emit.typeItems reg path size align vis td =
      Sexp.mk "struct" ([docs, derives,
          Sexp.mk "repr" (if td.packed then [.str "C", .str "packed"] else [.str "C", .str ("align(" ++ toString align ++ ")")]),
          Emit.visS vis, .str (path.getLast?.getD "")] ++
        td.regions.map fun r => Sexp.mk "fld" [Emit.docsS r.doc, Emit.visS r.vis, .str (r.name.getD ""), .str (Emit.rtyStr r.ty)])
      :: tl := by
  exact ⟨_, _, _, rfl⟩

/-- the decomposition of `type_definition::build`: an accepted type went through the layout core –
    its regions are the placed regions (named), its size their sum, its alignment the verdict of
    the alignment block -/
theorem buildType_layout (s s1 : State) (path : Path) (vis : Vis) (d : G.TypeDef) (r : Resolved)
    (h : buildType s path vis d = (s1, .ok r)) :
    ∃ (td : TypeDefn) (vptr : Option (PField Region)) (fields : List (PField Region)) (target align? : Option Nat)
      (placed : List (Placed Region)),
      r.inner = .type td
      ∧ resolve vptr fields target = .ok (placed, r.size)
      ∧ alignCheck s1.reg.ps td.packed align? placed r.size = .ok r.align
      ∧ nameRegions s1.reg 0 placed = .ok td.regions
      ∧ fields.length = (d.stmts.filter fun st => match st.field with | .field .. => true | .vftable _ => false).length := by
  exact buildType_layout_lem s s1 path vis d r h

/-- naming does not reorder or drop: region `k` of the type is placed region `k`, with its own
    type (padding regions are `[u8; n]`), so the emitted field list is the placed list -/
theorem nameRegions_types (reg : Registry) (off : Nat) (placed : List (Placed Region)) (regions : List Region)
    (h : nameRegions reg off placed = .ok regions) :
    regions.length = placed.length ∧
    ∀ k (hk : k < placed.length) (hk' : k < regions.length),
      (match placed[k].src with
       | some r => regions[k].ty = r.ty ∧ (r.name.isSome → regions[k] = r)
       | none => ∃ t, reg.paddingType placed[k].size = .ok t ∧ regions[k].ty = .data t ∧ regions[k].vis = .priv) := by
  exact nameRegions_types_lem reg off placed regions h

/-- **C01**, composed: for an accepted type, the compiler places every source field that is emitted at
    the offset the description says -/
theorem field_offsets_exact {β} (ps : Nat) (packed : Bool) (align? : Option Nat)
    (vptr : Option (PField β)) (fields : List (PField β)) (target : Option Nat)
    (placed : List (Placed β)) (size a : Nat)
    (h : resolve vptr fields target = .ok (placed, size))
    (ha : alignCheck ps packed align? placed size = .ok a) :
    let start := match vptr with | some v => (if emitted v then fsize v else 0) | none => 0
    ((RustSem.offsets packed 0 (placed.map toFld)).zip placed).filterMap (fun p => p.2.src.map fun v => (p.1, v)) =
      (match vptr with | some v => (if emitted v then [(0, v.val)] else []) | none => []) ++
      ((fields.zip (specOffsets start fields)).filter (fun p => emitted p.1)).map (fun p => (p.2, p.1.val)) := by
  intro start
  have h1 := (rustc_offsets ps packed align? placed size a (placed_at_spec vptr fields target placed size h).2 ha).1
  rw [h1, offsets_zip]
  exact (placed_at_spec vptr fields target placed size h).1

/-! ## non-vacuity: `type T { a: u32, #[address(8)] b: u64, c: u8 }` with `#[size(24), align(8)]` -/
def exFields : List (PField String) :=
  [⟨none, .ok (some 4), some 4, false, "a"⟩, ⟨some 8, .ok (some 8), some 8, false, "b"⟩, ⟨none, .ok (some 1), some 1, false, "c"⟩]

example : specOffsets 0 exFields = [0, 8, 16] := by decide
def exPlaced : List (Placed String) :=
  [⟨4, some 4, some "a"⟩, ⟨4, some 1, none⟩, ⟨8, some 8, some "b"⟩, ⟨1, some 1, some "c"⟩, ⟨7, some 1, none⟩]
example : resolve none exFields (some 24) = .ok (exPlaced, 24) := by decide
example : alignCheck 4 false (some 8) exPlaced 24 = .ok 8 := by decide

end PyxisVerif.C01
