import PyxisVerif.Spec.C03
import PyxisVerif.Lemmas.Layout
/-!
# C03 – a type description is accepted exactly when it is realisable

Property theorems only; helper lemmas live in `Lemmas/Layout.lean`.

`verdict` is the model's own layout code (`Layout.resolve` + `Layout.alignCheck`, the functions
`Model/Build.lean` runs for every type) applied to a `TypeSpec`; `Realisable` is the text of
the property (`Spec/C03.lean`).
-/
namespace PyxisVerif.C03
open Layout

/-- crude size of the numbers in a description -/
def bound (ps : Nat) (t : TypeSpec) : Nat :=
  ps + (t.fields.map fun f => f.addr.getD 0 + f.size).sum + t.size?.getD 0 + t.align?.getD 0

/-- C03's quantifier: pointer width 4 or 8; field types are built-in scalars, pointers, arrays of
    those and `unknown<N>` gaps, whose alignments are 1, 2, 4, 8 or 16; numbers small enough that
    no `usize` arithmetic can overflow (overflow is C12's subject) -/
structure InDomain (ps : Nat) (t : TypeSpec) : Prop where
  ps_ok : ps = 4 ∨ ps = 8
  aligns : ∀ f ∈ t.fields, f.align = 1 ∨ f.align = 2 ∨ f.align = 4 ∨ f.align = 8 ∨ f.align = 16
  small : bound ps t < 2 ^ 32

/-- **C03.**  A description in the domain is accepted if and only if it is realisable. -/
theorem accepts_iff_realisable (ps : Nat) (t : TypeSpec) (h : InDomain ps t) :
    (verdict ps t).isOk = true ↔ Realisable ps t := by
  refine ⟨fun hv => Classical.byContradiction fun hn => ?_, fun hr => ?_⟩
  · obtain ⟨m, hm⟩ := (verdict_spec_of_small ps t h.ps_ok h.aligns h.small).2 hn
    rw [hm] at hv
    cases hv
  · rw [(verdict_spec_of_small ps t h.ps_ok h.aligns h.small).1 hr]
    rfl

/-- every other description fails with an *error* (never a panic, never "try again later") -/
theorem rejects_with_error (ps : Nat) (t : TypeSpec) (h : InDomain ps t) (hn : ¬ Realisable ps t) :
    ∃ m, verdict ps t = .err m :=
  (verdict_spec_of_small ps t h.ps_ok h.aligns h.small).2 hn

/-- an accepted description gets the declared (or natural) size and the effective alignment -/
theorem accepted_size_align (ps : Nat) (t : TypeSpec) (h : InDomain ps t) (s a : Nat)
    (hv : verdict ps t = .ok (s, a)) :
    s = totalSize ps t ∧ a = (if t.packed then 1 else effAlign ps t) := by
  have hr : Realisable ps t := Classical.byContradiction fun hn => by
    obtain ⟨m, hm⟩ := (verdict_spec_of_small ps t h.ps_ok h.aligns h.small).2 hn
    rw [hm] at hv
    cases hv
  rw [(verdict_spec_of_small ps t h.ps_ok h.aligns h.small).1 hr] at hv
  cases hv
  exact ⟨rfl, rfl⟩

/-- the executable oracle used on the implementation's verdicts decides the property -/
theorem realisableB_iff (ps : Nat) (t : TypeSpec) :
    realisableB ps t = true ↔ Realisable ps t :=
  Layout.realisableB_spec ps t

/-! ## non-vacuity: concrete descriptions in the domain on both sides of the iff -/

/-- `type T { a: u32, #[address(8)] b: u64 }` with `#[size(16), align(8)]` -/
def exAccepted : TypeSpec :=
  { vft := false, fields := [⟨none, 4, 4, false⟩, ⟨some 8, 8, 8, false⟩], size? := some 16, align? := some 8, packed := false }

/-- `#[align(3)] type T { a: u8, b: u8, c: u8 }` – was accepted before the `fix:` commit -/
def exAlign3 : TypeSpec :=
  { vft := false, fields := [⟨none, 1, 1, false⟩, ⟨none, 1, 1, false⟩, ⟨none, 1, 1, false⟩], size? := none, align? := some 3, packed := false }

example : InDomain 8 exAccepted := ⟨by decide, by decide, by decide⟩
example : verdict 8 exAccepted = .ok (16, 8) := by decide
example : InDomain 4 exAlign3 := ⟨by decide, by decide, by decide⟩
example : (verdict 4 exAlign3).isOk = false := by decide

end PyxisVerif.C03
