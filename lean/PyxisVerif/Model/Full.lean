import PyxisVerif.Model.Obs
import PyxisVerif.Model.ParseObs
/-!
# The whole pipeline on text: `pyxis::build` = parse every file (`SemanticState::add_file`), add the
modules, resolve, emit
-/
namespace PyxisVerif

/-- `ItemPath::from_path(rel)`: `with_extension("")` (drop what follows the last dot of the file name,
    unless that dot is its first character), then one segment per path component -/
def pathOfFile (file : String) : Path :=
  let comps := (file.splitOn "/").filter (· != "")
  match comps.reverse with
  | [] => []
  | last :: revInit =>
    let cs := last.toList
    let stem :=
      match cs.reverse.dropWhile (· != '.') with
      | [] => last
      | _ :: revStem => if revStem.isEmpty then last else String.ofList revStem.reverse
    revInit.reverse ++ [stem]

/-- text modules are parsed with the parser model first (as `SemanticState::add_file` does);
    a parse error is the error of the whole build, with file:line:column -/
def resolveTexts (c : Case) : Except String Case := do
  let mods ← c.modules.mapM fun me =>
    match me with
    | .ast .. => pure me
    | .text file text =>
      match Parse.parseStr text with
      | .ok m => pure (ModEnt.ast (pathOfFile file) file m)
      | .error (l, col) => throw s!"failed to parse {file}:{l}:{col + 1}"
  pure { c with modules := mods }

/-- every module of the case is given as text (what `pyxis::build` sees: files) -/
def Case.allText (c : Case) : Bool := c.modules.all fun me => match me with | .text .. => true | .ast .. => false

end PyxisVerif
