import PyxisVerif.Model.Emit
/-!
# Observations of the model, in the syntax of PROTOCOL.md §3
-/
namespace PyxisVerif
open Sexp Gen

namespace Obs

def pathS (p : Path) : Sexp := G.pathToSexp p
def visS (v : Vis) : Sexp := G.visToSexp v
def optStrS (o : Option String) : Sexp := ofOpt .str o
def optNatS (o : Option Nat) : Sexp := ofOpt (fun n => .int n) o

def dtyS : DTy → Sexp
  | .raw p => mk "raw" [pathS p]
  | .cptr t => mk "cptr" [dtyS t]
  | .mptr t => mk "mptr" [dtyS t]
  | .arr t n => mk "arr" [dtyS t, .int n]

def rtyS : RTy → Sexp
  | .data t => dtyS t
  | .fn cc args ret => mk "fnp" [.str cc.asStr, mk "args" (args.map fun a => mk "a" [.str a.1, dtyS a.2]),
      ofOpt dtyS ret]

def argS : SArg → Sexp
  | .constSelf => .sym "self"
  | .mutSelf => .sym "mutself"
  | .field n t => mk "arg" [.str n, dtyS t]

def bodyS : FBody → Sexp
  | .addr a => mk "addr" [.int a]
  | .field f fn => mk "field" [.str f, .str fn]
  | .vft fn => mk "slot" [.str fn]

def funcS (f : SFunc) : Sexp :=
  mk "f" [visS f.vis, .str f.name, optStrS f.doc, .str f.cc.asStr, mk "args" (f.args.map argS),
    ofOpt dtyS f.ret, bodyS f.body]

def regionS (r : Region) : Sexp :=
  mk "r" [visS r.vis, optStrS r.name, optStrS r.doc, rtyS r.ty, ofBool r.isBase]

def vftS (v : Vft) : Sexp := mk "vft" [mk "fns" (v.fns.map funcS), optStrS v.baseField, dtyS v.ty]

def innerS : SInner → Sexp
  | .type d => mk "ty" [mk "regions" (d.regions.map regionS), optStrS d.doc, mk "fns" (d.fns.map funcS),
      ofOpt vftS d.vft, optNatS d.singleton,
      mk "flags" [ofBool d.copyable, ofBool d.cloneable, ofBool d.defaultable, ofBool d.packed]]
  | .enum d => mk "en" [dtyS d.ty, optStrS d.doc, mk "vals" (d.fields.map fun f => mk "v" [.str f.1, .int f.2]),
      optNatS d.defaultIdx, optNatS d.singleton,
      mk "flags" [ofBool d.copyable, ofBool d.cloneable, ofBool d.defaultable]]

def catS : Cat → Sexp | .defined => .sym "defined" | .predefined => .sym "predefined" | .extern => .sym "extern"

def itemS (i : ItemDef) : Sexp :=
  match i.state with
  | .res r => mk "item" [pathS i.path, visS i.vis, catS i.cat, .int r.size, .int r.align, innerS r.inner]
  | .unres _ => mk "item" [pathS i.path, visS i.vis, catS i.cat, .sym "unresolved"]

/-- the O2 observation of a successfully built state -/
def resolvedS (s : State) : Sexp :=
  let items := (s.modules.flatMap fun e => e.2.defPaths.filterMap s.reg.get).filter (!·.isPredefined)
  let items := Emit.sortBy (fun (a b : ItemDef) => Path.le a.path b.path) items
  let xvs := s.modules.flatMap fun e => e.2.xvals.map fun x => (e.1, x)
  let xvs := Emit.sortBy (fun (a b : Path × XValue) =>
      if Path.lt a.1 b.1 then true else if Path.lt b.1 a.1 then false else a.2.name ≤ b.2.name) xvs
  mk "resolved" [mk "items" (items.map itemS),
    mk "xvals" (xvs.map fun (p, x) => mk "xvr" [pathS p, visS x.vis, .str x.name,
      (match x.ty with | some t => dtyS t | none => mk "unresolved" []), .int x.addr])]

def outcomeS : BuildOutcome → Sexp
  | .ok s => resolvedS s
  | .nonterm failed => mk "err" [mk "nonterm" ((Emit.sortBy Path.le failed).map pathS)]
  | .err m => mk "err" [mk "other" [.str m]]
  | .panic m => mk "panic" [.str m]
  | .fuel => mk "fuel" []

end Obs

/-! ## running a case through the model -/

/-- result of adding all (AST) modules of a case -/
def Case.initialState (c : Case) : Res State :=
  Res.foldlM (fun (s : State) (me : ModEnt) =>
    match me with
    | .ast path _ m => s.addModule m path
    | .text _ _ => .err "tmodule: text modules are handled by the parser model") (State.new c.ps) c.modules

def Case.run (c : Case) : BuildOutcome :=
  match c.initialState with
  | .ok s => s.build c.prio
  | .err m => .err m
  | .panic m => .panic m
  | .defer => .err "unreachable"

def Case.o2 (c : Case) : Sexp := Obs.outcomeS c.run

def Case.o3 (c : Case) : Sexp :=
  match c.run with
  | .ok s => Sexp.mk "files" (Emit.files s)
  | .nonterm _ => Sexp.mk "err" [.str "nonterm"]
  | .err m => Sexp.mk "err" [.str m]
  | .panic m => Sexp.mk "panic" [.str m]
  | .fuel => Sexp.mk "fuel" []

end PyxisVerif
