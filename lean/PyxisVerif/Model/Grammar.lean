import PyxisVerif.Sexp
/-!
# `src/grammar.rs` – the abstract syntax, plus its S-expression form (PROTOCOL.md §2)
-/
namespace PyxisVerif

/-- `ItemPath`: a list of segments; `[]` is the root module. -/
abbrev Path := List String

namespace Path
/-- `ItemPath::parent` -/
def parent? (p : Path) : Option Path := if p.isEmpty then none else some p.dropLast
/-- `impl Display for ItemPath` -/
def display (p : Path) : String := "::".intercalate p
/-- derived `Ord` on `Vec<ItemPathSegment>`: lexicographic on the segments (byte order) -/
def lt : Path → Path → Bool
  | [], [] => false
  | [], _ :: _ => true
  | _ :: _, [] => false
  | a :: as, b :: bs => if a < b then true else if b < a then false else lt as bs
def le (a b : Path) : Bool := !(lt b a)
end Path

namespace G

inductive Ty where
  | cptr (t : Ty)
  | mptr (t : Ty)
  | arr (t : Ty) (n : Nat)
  | ident (s : String)
  | unk (n : Nat)
deriving Repr, DecidableEq, Inhabited

inductive Expr where
  | int (z : Int)
  | str (s : String)
  | ident (s : String)
deriving Repr, DecidableEq, Inhabited

inductive Attr where
  | ident (n : String)
  | fn (n : String) (args : List Expr)
  | assign (n : String) (e : Expr)
deriving Repr, DecidableEq, Inhabited

inductive Vis where | pub | priv
deriving Repr, DecidableEq, Inhabited

inductive Arg where
  | constSelf | mutSelf
  | named (n : String) (t : Ty)
deriving Repr, DecidableEq, Inhabited

structure Func where
  vis : Vis
  name : String
  attrs : List Attr
  args : List Arg
  ret : Option Ty
deriving Repr, DecidableEq, Inhabited

inductive Field where
  | field (vis : Vis) (name : String) (ty : Ty)
  | vftable (fns : List Func)
deriving Repr, DecidableEq, Inhabited

structure Stmt where
  field : Field
  attrs : List Attr
deriving Repr, DecidableEq, Inhabited

structure TypeDef where
  stmts : List Stmt
  attrs : List Attr
deriving Repr, DecidableEq, Inhabited

structure EnumStmt where
  name : String
  expr : Option Expr
  attrs : List Attr
deriving Repr, DecidableEq, Inhabited

structure EnumDef where
  ty : Ty
  stmts : List EnumStmt
  attrs : List Attr
deriving Repr, DecidableEq, Inhabited

inductive Inner where
  | type (d : TypeDef)
  | enum (d : EnumDef)
deriving Repr, DecidableEq, Inhabited

structure Item where
  vis : Vis
  name : String
  inner : Inner
deriving Repr, DecidableEq, Inhabited

structure Impl where
  name : String
  fns : List Func
  attrs : List Attr
deriving Repr, DecidableEq, Inhabited

structure Backend where
  name : String
  prologue : Option String
  epilogue : Option String
deriving Repr, DecidableEq, Inhabited

structure XVal where
  vis : Vis
  name : String
  ty : Ty
  attrs : List Attr
deriving Repr, DecidableEq, Inhabited

structure Module where
  uses : List Path := []
  xtypes : List (String × List Attr) := []
  xvals : List XVal := []
  defs : List Item := []
  impls : List Impl := []
  backends : List Backend := []
  attrs : List Attr := []
deriving Repr, DecidableEq, Inhabited

/-- `Attributes::doc` (grammar.rs:310-331).  `none` in the outer option = the
    "doc attribute must be a string literal" error. -/
def docOf (attrs : List Attr) : Option (Option String) :=
  attrs.foldl (fun acc a =>
    match acc with
    | none => none
    | some doc =>
      match a with
      | .assign "doc" (.str v) =>
        match doc with
        | none => some (some v)
        | some d => some (some (d ++ "\n" ++ v))
      | .assign "doc" _ => none
      | _ => some doc) (some none)

end G

/-! ## S-expression decoding / encoding -/
open Sexp

namespace G

def pathOfSexp : Sexp → Option Path
  | .list (.sym "p" :: segs) => segs.mapM asStr?
  | _ => none

def pathToSexp (p : Path) : Sexp := mk "p" (p.map .str)

def tyOfSexp : Sexp → Option Ty
  | .list [.sym "cptr", t] => (tyOfSexp t).map .cptr
  | .list [.sym "mptr", t] => (tyOfSexp t).map .mptr
  | .list [.sym "arr", t, .int n] => if 0 ≤ n then (tyOfSexp t).map (.arr · n.toNat) else none
  | .list [.sym "id", .str s] => some (.ident s)
  | .list [.sym "unk", .int n] => if 0 ≤ n then some (.unk n.toNat) else none
  | _ => none

def tyToSexp : Ty → Sexp
  | .cptr t => mk "cptr" [tyToSexp t]
  | .mptr t => mk "mptr" [tyToSexp t]
  | .arr t n => mk "arr" [tyToSexp t, .int n]
  | .ident s => mk "id" [.str s]
  | .unk n => mk "unk" [.int n]

def exprOfSexp : Sexp → Option Expr
  | .list [.sym "int", .int z] => some (.int z)
  | .list [.sym "str", .str s] => some (.str s)
  | .list [.sym "ident", .str s] => some (.ident s)
  | _ => none

def exprToSexp : Expr → Sexp
  | .int z => mk "int" [.int z]
  | .str s => mk "str" [.str s]
  | .ident s => mk "ident" [.str s]

def attrOfSexp : Sexp → Option Attr
  | .list [.sym "ai", .str n] => some (.ident n)
  | .list (.sym "af" :: .str n :: es) => (es.mapM exprOfSexp).map (.fn n)
  | .list [.sym "aa", .str n, e] => (exprOfSexp e).map (.assign n)
  | _ => none

def attrToSexp : Attr → Sexp
  | .ident n => mk "ai" [.str n]
  | .fn n es => mk "af" (.str n :: es.map exprToSexp)
  | .assign n e => mk "aa" [.str n, exprToSexp e]

def attrsOfSexp (s : Sexp) : Option (List Attr) :=
  (tagged? "attrs" s).bind (·.mapM attrOfSexp)

def attrsToSexp (as : List Attr) : Sexp := mk "attrs" (as.map attrToSexp)

def visOfSexp : Sexp → Option Vis
  | .sym "pub" => some .pub
  | .sym "priv" => some .priv
  | _ => none

def visToSexp : Vis → Sexp | .pub => .sym "pub" | .priv => .sym "priv"

def argOfSexp : Sexp → Option Arg
  | .sym "self" => some .constSelf
  | .sym "mutself" => some .mutSelf
  | .list [.sym "arg", .str n, t] => (tyOfSexp t).map (.named n)
  | _ => none

def argToSexp : Arg → Sexp
  | .constSelf => .sym "self"
  | .mutSelf => .sym "mutself"
  | .named n t => mk "arg" [.str n, tyToSexp t]

def funcOfSexp : Sexp → Option Func
  | .list [.sym "fn", v, .str n, as, .list (.sym "args" :: args), r] => do
    let vis ← visOfSexp v
    let attrs ← attrsOfSexp as
    let args ← args.mapM argOfSexp
    let ret ← toOpt? tyOfSexp r
    pure { vis, name := n, attrs, args, ret }
  | _ => none

def funcToSexp (f : Func) : Sexp :=
  mk "fn" [visToSexp f.vis, .str f.name, attrsToSexp f.attrs, mk "args" (f.args.map argToSexp),
    ofOpt tyToSexp f.ret]

def stmtOfSexp : Sexp → Option Stmt
  | .list [.sym "field", v, .str n, t, as] => do
    let vis ← visOfSexp v
    let ty ← tyOfSexp t
    let attrs ← attrsOfSexp as
    pure { field := .field vis n ty, attrs }
  | .list (.sym "vftable" :: as :: fns) => do
    let attrs ← attrsOfSexp as
    let fns ← fns.mapM funcOfSexp
    pure { field := .vftable fns, attrs }
  | _ => none

def stmtToSexp (s : Stmt) : Sexp :=
  match s.field with
  | .field v n t => mk "field" [visToSexp v, .str n, tyToSexp t, attrsToSexp s.attrs]
  | .vftable fns => mk "vftable" (attrsToSexp s.attrs :: fns.map funcToSexp)

def enumStmtOfSexp : Sexp → Option EnumStmt
  | .list [.sym "es", .str n, e, as] => do
    let expr ← toOpt? exprOfSexp e
    let attrs ← attrsOfSexp as
    pure { name := n, expr, attrs }
  | _ => none

def enumStmtToSexp (s : EnumStmt) : Sexp :=
  mk "es" [.str s.name, ofOpt exprToSexp s.expr, attrsToSexp s.attrs]

def itemOfSexp : Sexp → Option Item
  | .list [.sym "def", v, .str n, .list (.sym "type" :: as :: stmts)] => do
    let vis ← visOfSexp v
    let attrs ← attrsOfSexp as
    let stmts ← stmts.mapM stmtOfSexp
    pure { vis, name := n, inner := .type { stmts, attrs } }
  | .list [.sym "def", v, .str n, .list (.sym "enum" :: t :: as :: stmts)] => do
    let vis ← visOfSexp v
    let ty ← tyOfSexp t
    let attrs ← attrsOfSexp as
    let stmts ← stmts.mapM enumStmtOfSexp
    pure { vis, name := n, inner := .enum { ty, stmts, attrs } }
  | _ => none

def itemToSexp (i : Item) : Sexp :=
  match i.inner with
  | .type d => mk "def" [visToSexp i.vis, .str i.name,
      mk "type" (attrsToSexp d.attrs :: d.stmts.map stmtToSexp)]
  | .enum d => mk "def" [visToSexp i.vis, .str i.name,
      mk "enum" (tyToSexp d.ty :: attrsToSexp d.attrs :: d.stmts.map enumStmtToSexp)]

def implOfSexp : Sexp → Option Impl
  | .list (.sym "impl" :: .str n :: as :: fns) => do
    let attrs ← attrsOfSexp as
    let fns ← fns.mapM funcOfSexp
    pure { name := n, fns, attrs }
  | _ => none

def implToSexp (i : Impl) : Sexp := mk "impl" (.str i.name :: attrsToSexp i.attrs :: i.fns.map funcToSexp)

def backendOfSexp : Sexp → Option Backend
  | .list [.sym "be", .str n, p, e] => do
    let prologue ← toOpt? asStr? p
    let epilogue ← toOpt? asStr? e
    pure { name := n, prologue, epilogue }
  | _ => none

def backendToSexp (b : Backend) : Sexp :=
  mk "be" [.str b.name, ofOpt .str b.prologue, ofOpt .str b.epilogue]

def xtypeOfSexp : Sexp → Option (String × List Attr)
  | .list [.sym "xt", .str n, as] => (attrsOfSexp as).map (n, ·)
  | _ => none

def xvalOfSexp : Sexp → Option XVal
  | .list [.sym "xv", v, .str n, t, as] => do
    let vis ← visOfSexp v
    let ty ← tyOfSexp t
    let attrs ← attrsOfSexp as
    pure { vis, name := n, ty, attrs }
  | _ => none

def moduleOfSexp : Sexp → Option Module
  | .list [.sym "m", as, .list (.sym "uses" :: us), .list (.sym "xtypes" :: xts),
      .list (.sym "xvals" :: xvs), .list (.sym "defs" :: ds), .list (.sym "impls" :: is),
      .list (.sym "backends" :: bs)] => do
    let attrs ← attrsOfSexp as
    let uses ← us.mapM pathOfSexp
    let xtypes ← xts.mapM xtypeOfSexp
    let xvals ← xvs.mapM xvalOfSexp
    let defs ← ds.mapM itemOfSexp
    let impls ← is.mapM implOfSexp
    let backends ← bs.mapM backendOfSexp
    pure { uses, xtypes, xvals, defs, impls, backends, attrs }
  | _ => none

def moduleToSexp (m : Module) : Sexp :=
  mk "m" [attrsToSexp m.attrs, mk "uses" (m.uses.map pathToSexp),
    mk "xtypes" (m.xtypes.map fun (n, as) => mk "xt" [.str n, attrsToSexp as]),
    mk "xvals" (m.xvals.map fun x => mk "xv" [visToSexp x.vis, .str x.name, tyToSexp x.ty, attrsToSexp x.attrs]),
    mk "defs" (m.defs.map itemToSexp), mk "impls" (m.impls.map implToSexp),
    mk "backends" (m.backends.map backendToSexp)]

end G

/-! ## cases -/

inductive ModEnt where
  | ast (path : Path) (file : String) (m : G.Module)
  | text (file : String) (text : String)
deriving Inhabited

structure Case where
  id : String
  ps : Nat
  prio : List Path
  modules : List ModEnt
  extras : List Sexp
deriving Inhabited

def modEntOfSexp : Sexp → Option ModEnt
  | .list [.sym "module", p, .str f, m] => do
    let path ← G.pathOfSexp p
    let m ← G.moduleOfSexp m
    pure (.ast path f m)
  | .list [.sym "tmodule", .str f, .str t] => some (.text f t)
  | _ => none

def caseOfSexp : Sexp → Option Case
  | .list (.sym "case" :: .str id :: .list [.sym "ps", .int ps] :: .list (.sym "prio" :: prio) ::
      .list (.sym "modules" :: ms) :: extras) => do
    let prio ← prio.mapM G.pathOfSexp
    let modules ← ms.mapM modEntOfSexp
    if ps < 0 then none else
    pure { id, ps := ps.toNat, prio, modules, extras }
  | _ => none

def Case.hasExtra (c : Case) (tag : String) : Bool :=
  c.extras.any fun e => (Sexp.head? e) == some tag

def Case.extra? (c : Case) (tag : String) : Option (List Sexp) :=
  c.extras.findSome? (Sexp.tagged? tag)

end PyxisVerif
