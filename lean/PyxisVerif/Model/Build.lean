import PyxisVerif.Model.Sem
import PyxisVerif.Model.Layout
/-!
# `function.rs`, `type_definition/{mod,vftable}.rs`, `enum_definition.rs`, `semantic_state.rs`

One Lean function per Rust function that carries logic, same order of checks.
-/
namespace PyxisVerif
open Gen

/-- iterations beyond which the model reports the padding loop of `make_padding_functions`
    as not terminating in practice (the Rust loop would allocate this many `Function`s) -/
def paddingLoopBound : Nat := 2 ^ 22

/-! ## function.rs -/

/-- state threaded through the attribute loop of `function::build` -/
structure FnAttrSt where
  body : Option FBody
  cc : Option CC

def fnAttrStep (isVfunc : Bool) (st : FnAttrSt) (a : G.Attr) : Res FnAttrSt :=
  match a with
  | .fn "address" [.int addr] =>
    if isVfunc then .err "address attribute is not supported for virtual function"
    else match tryUsize addr with
      | some v => .ok { st with body := some (.addr v) }
      | none => .err "failed to convert `address` attribute into usize"
  | .fn "index" _ =>
    if !isVfunc then .err "index attribute is only supported for virtual functions" else .ok st
  | .fn "calling_convention" [.str cc] =>
    match CC.fromStr cc with
    | some c => .ok { st with cc := some c }
    | none => .err "invalid calling convention"
  | _ => .ok st

def buildArg (reg : Registry) (scope : List Path) : G.Arg → Res SArg
  | .constSelf => .ok .constSelf
  | .mutSelf => .ok .mutSelf
  | .named n t =>
    match reg.resolveTy scope t with
    | .ok t => .ok (.field n t)
    | .defer => .err "failed to resolve type of field"
    | .err m => .err m
    | .panic s => .panic s

/-- `function::build` (function.rs:206-327) -/
def buildFunction (reg : Registry) (scope : List Path) (isVfunc : Bool) (f : G.Func) : Res SFunc :=
  match G.docOf f.attrs with
  | none => .err "doc attribute must be a string literal"
  | some doc =>
    match Res.foldlM (fnAttrStep isVfunc) ⟨if isVfunc then some (.vft f.name) else none, none⟩ f.attrs with
    | .ok st =>
      match st.body with
      | none =>
        -- `!is_vfunc && body.is_none()`; the `panic!` after it is unreachable
        .err "function has no implementation available"
      | some body =>
        match Res.mapM' (buildArg reg scope) f.args with
        | .ok args =>
          -- `return_type.map(resolve .ok_or_else(..)).transpose()?`
          let retR : Res (Option DTy) :=
            match f.ret with
            | none => .ok none
            | some t => match reg.resolveTy scope t with
              | .ok t => .ok (some t)
              | .defer => .err "failed to resolve return type of function"
              | .err m => .err m
              | .panic s => .panic s
          match retR with
          | .ok ret =>
            let cc := match st.cc with
              | some c => c
              | none => if args.any SArg.isSelf then ccDefaultSelf else ccDefaultNoSelf
            .ok { vis := f.vis, name := f.name, doc, body, args, ret, cc }
          | e => e.cast
        | e => e.cast
    | e => e.cast

/-! ## type_definition/vftable.rs -/

def placeholderFn (idx : Nat) : SFunc :=
  let name := fmtPlaceholderFn (toString idx)
  { vis := .priv, name, doc := none, body := .vft name, args := [.mutSelf], ret := none, cc := ccPlaceholder }

/-- `make_padding_functions` -/
def makePadding (out : List SFunc) (target : Nat) : Res (List SFunc) :=
  let n := target - out.length
  if n > paddingLoopBound then .panic "make_padding_functions: unbounded padding loop"
  else .ok (out ++ (List.range n).map fun j => placeholderFn (out.length + j))

/-- last `#[index(N)]` attribute, `usize::try_from`; a negative one is an error -/
def indexAttr (attrs : List G.Attr) : Res (Option Nat) :=
  Res.foldlM (fun acc a => match a with
    | .fn "index" [.int i] => match tryUsize i with
      | some v => .ok (some v)
      | none => .err "failed to convert `index` attribute into usize"
    | _ => .ok acc) none attrs

/-- `convert_grammar_functions_to_semantic_functions` -/
def convertVfuncs (reg : Registry) (scope : List Path) (size : Option Nat) (fns : List G.Func) :
    Res (List SFunc) :=
  match Res.foldlM (fun (out : List SFunc) (f : G.Func) =>
      match indexAttr f.attrs with
      | .ok idx =>
        match (match idx with
          | some i =>
            if i < out.length then Res.err "vftable function is declared at an index that is already occupied"
            else makePadding out i
          | none => .ok out) with
        | .ok out1 =>
          match buildFunction reg scope true f with
          | .ok sf => .ok (out1 ++ [sf])
          | e => e.cast
        | e => e
      | e => e.cast) [] fns with
  | .ok out => match size with
    | some n =>
      if n < out.length then .err "vftable is declared with a size smaller than the slots its functions occupy"
      else makePadding out n
    | none => .ok out
  | e => e

/-- `function_to_region` -/
def functionToRegion (owner : Path) (f : SFunc) : Region :=
  let args := f.args.map fun a => match a with
    | .constSelf => (thisArgName, DTy.cptr (.raw owner))
    | .mutSelf => (thisArgName, DTy.mptr (.raw owner))
    | .field n t => (n, t)
  { vis := f.vis, name := some f.name, doc := f.doc, ty := .fn f.cc args f.ret, isBase := false }

/-- path of the generated vftable struct: `<parent>::<Name>Vftable` -/
def vftablePath (owner : Path) : Option Path :=
  match owner.getLast?, Path.parent? owner with
  | some name, some parent => some (parent ++ [fmtVftableType name])
  | _, _ => none

/-- `vftable::build_type` -/
def buildVftableItem (reg : Registry) (owner : Path) (vis : Vis) (fns : List SFunc) : Option ItemDef :=
  (vftablePath owner).map fun p =>
    let regions := fns.map (functionToRegion owner)
    { vis, path := p,
      state := .res { size := regions.length * reg.ps, align := reg.ps,
                      inner := .type { regions } },
      cat := .defined }

/-- `get_region_name_and_type_definition` (mod.rs:629-666); `ok none` = base not resolved yet -/
def regionNameAndTypeDef (reg : Registry) (r : Region) : Res (Option (String × TypeDefn)) :=
  match r.name with
  | none => .panic "region had no name, this shouldn't be possible"
  | some name =>
    match r.ty with
    | .data (.raw p) =>
      match reg.get p with
      | none => .err "failed to get region type"
      | some item =>
        match item.resolved? with
        | none => .ok none
        | some res =>
          match res.inner with
          | .type td => .ok (some (name, td))
          | .enum _ => .err "expected region field to be a type, but it was an enum"
    | _ => .err "expected region field to be a raw type"

/-- `get_optional_region_name_and_vftable` -/
def baseVftable (reg : Registry) (firstBase : Option Region) : Res (Option (String × Vft)) :=
  match firstBase with
  | none => .ok none
  | some b =>
    match regionNameAndTypeDef reg b with
    | .ok (some (name, td)) => .ok (td.vft.map fun v => (name, v))
    | .ok none => .ok none
    | e => e.cast

/-- `vftable::build` (vftable.rs:95-195).  Returns the new state (the generated item is added
    *before* the base checks), the type's vftable, and the pointer region to push first. -/
def buildVftable (s : State) (owner : Path) (vis : Vis) (firstBase : Option Region)
    (vfns : Option (List SFunc)) : State × Res (Option Vft × Option Region) :=
  match vfns with
  | some fns =>
    match buildVftableItem s.reg owner vis fns with
    | none => (s, .ok (none, none))
    | some item =>
      let ptrTy : DTy := .cptr (.raw item.path)
      if (match s.reg.get item.path with | some existing => existing != item | none => false) then
        (s, .err "generated vftable type conflicts with another definition of that name")
      else
      match s.addItem item with
      | .ok s1 =>
        (s1,
          match baseVftable s1.reg firstBase with
          | .ok (some (baseName, bv)) =>
            if fns.length < bv.fns.length then .err "vftable is missing functions from base class"
            else if (bv.fns.zip fns).any (fun p => p.1 != p.2) then
              .err "vftable has a function that differs from the base class"
            else .ok (some { fns, baseField := some baseName, ty := ptrTy }, none)
          | .ok none =>
            .ok (some { fns, baseField := none, ty := ptrTy },
                 some { vis := .priv, name := some vftableFieldName, doc := none,
                        ty := .data ptrTy, isBase := false })
          | e => e.cast)
      | e => (s, e.cast)
  | none =>
    (s,
      match baseVftable s.reg firstBase with
      | .ok (some (baseName, bv)) => .ok (some { fns := bv.fns, baseField := some baseName, ty := bv.ty }, none)
      | .ok none => .ok (none, none)
      | e => e.cast)

/-! ## type_definition/mod.rs -/

structure TypeAttrs where
  targetSize : Option Nat := none
  singleton : Option Nat := none
  copyable : Bool := false
  cloneable : Bool := false
  defaultable : Bool := false
  packed : Bool := false
  align : Option Nat := none

def typeAttrStep (st : TypeAttrs) (a : G.Attr) : Res TypeAttrs :=
  match a with
  | .fn "size" [.int v] =>
    match tryUsize v with
    | some n => .ok { st with targetSize := some n }
    | none => .err "failed to convert `size` attribute into usize"
  | .fn "singleton" [.int v] =>
    match tryUsize v with
    | some n => .ok { st with singleton := some n }
    | none => .err "failed to convert `singleton` attribute into usize"
  | .fn "align" [.int v] =>
    match tryUsize v with
    | some n => .ok { st with align := some n }
    | none => .err "failed to convert `align` attribute into usize"
  | .ident "copyable" => .ok { st with copyable := true, cloneable := true }
  | .ident "cloneable" => .ok { st with cloneable := true }
  | .ident "defaultable" => .ok { st with defaultable := true }
  | .ident "packed" => .ok { st with packed := true }
  | _ => .ok st

structure FieldAttrs where
  address : Option Nat := none
  isBase : Bool := false

def fieldAttrStep (st : FieldAttrs) (a : G.Attr) : Res FieldAttrs :=
  match a with
  | .ident "base" => .ok { st with isBase := true }
  | .fn "address" [.int v] =>
    match tryUsize v with
    | some n => .ok { st with address := some n }
    | none => .err "failed to convert `address` attribute into usize"
  | _ => .ok st

/-- last `#[size(N)]` attribute of the vftable statement, `usize::try_from` -/
def vftableSizeAttr (attrs : List G.Attr) : Res (Option Nat) :=
  Res.foldlM (fun acc a => match a with
    | .fn "size" [.int i] => match tryUsize i with
      | some v => .ok (some v)
      | none => .err "failed to convert `size` attribute into usize for vftable"
    | _ => .ok acc) none attrs

structure StmtAcc where
  pending : List (Option Nat × Region) := []
  vfns : Option (List SFunc) := none

/-- one iteration of the statement loop (mod.rs:212-297) -/
def stmtStep (reg : Registry) (scope : List Path) (acc : StmtAcc) (ist : Nat × G.Stmt) : Res StmtAcc :=
  let (idx, st) := ist
  match st.field with
  | .field vis name ty =>
    match G.docOf st.attrs with
    | none => .err "doc attribute must be a string literal"
    | some doc =>
      match Res.foldlM fieldAttrStep {} st.attrs with
      | .ok fa =>
        if fa.isBase && name == "_" then .err "a `#[base]` field has no name" else
        match reg.resolveTy scope ty with
        | .ok t =>
          let ident : Option String := if name != "_" then some name else none
          if ident.isSome && acc.pending.any (fun p => p.2.name == ident) then
            .err "type has more than one field of that name"
          else
          .ok { acc with pending := acc.pending ++
            [(fa.address, { vis, name := ident, doc, ty := .data t, isBase := fa.isBase })] }
        | e => e.cast
      | e => e.cast
  | .vftable fns =>
    if idx != 0 then .err "vftable field must be the first field"
    else if fns.any (fun f => !(f.args.any fun a => match a with | .named .. => false | _ => true)) then
      .err "virtual function has no `&self` or `&mut self` argument"
    else
      match vftableSizeAttr st.attrs with
      | .ok size =>
        match convertVfuncs reg scope size fns with
        | .ok sfs => .ok { acc with vfns := some sfs }
        | e => e.cast
      | e => e.cast

def toPField (reg : Registry) (addr : Option Nat) (r : Region) : Layout.PField Region :=
  { addr, size := r.ty.size reg, align := r.ty.align reg, isArr := r.ty.isArray, val := r }

/-- names for unnamed regions: `_field_{offset:x}`, private, no doc (mod.rs:589-614) -/
def nameRegions (reg : Registry) : Nat → List (Layout.Placed Region) → Res (List Region)
  | _, [] => .ok []
  | off, p :: ps =>
    match (match p.src with
      | some r => Res.ok r
      | none => match reg.paddingType p.size with
        | .ok t => Res.ok ({ vis := .priv, name := none, doc := none, ty := .data t, isBase := false } : Region)
        | e => e.cast) with
    | .ok r =>
      let r' : Region := match r.name with
        | some _ => r
        | none => { vis := .priv, name := some (fmtPaddingField (toHexLower off)), doc := none,
                    ty := r.ty, isBase := false }
      match nameRegions reg (off + p.size) ps with
      | .ok rs => .ok (r' :: rs)
      | e => e
    | e => e.cast

/-- `resolve_regions` (mod.rs:495-626) -/
def resolveRegions (s : State) (owner : Path) (vis : Vis) (target : Option Nat)
    (pending : List (Option Nat × Region)) (vfns : Option (List SFunc)) :
    State × Res (List Region × Option Vft × Nat × List (Layout.Placed Region)) :=
  let firstBase := (pending.map (·.2)).find? (·.isBase)
  -- nothing can be laid out before the first base is resolved
  match (match firstBase with | some b => b.ty.size s.reg | none => .ok (some 0)) with
  | .ok none => (s, .defer)
  | .defer => (s, .defer)
  | .err m => (s, .err m)
  | .panic m => (s, .panic m)
  | .ok (some _) =>
  match buildVftable s owner vis firstBase vfns with
  | (s1, .ok (vft, vregion)) =>
    let reg := s1.reg
    (s1,
      match Layout.resolve (vregion.map (toPField reg none)) (pending.map fun p => toPField reg p.1 p.2) target with
      | .ok (placed, size) =>
        match nameRegions reg 0 placed with
        | .ok regions => .ok (regions, vft, size, placed)
        | e => e.cast
      | e => e.cast)
  | (s1, e) => (s1, e.cast)

/-- state of the base-function injection loop -/
structure InjAcc where
  fns : List SFunc := []
  used : List String := []

def addFunctions (baseName : String) (acc : InjAcc) (fs : List SFunc) : InjAcc :=
  (fs.filter fun f => f.isPublic && !f.isInternal).foldl (fun acc f =>
    let name := if acc.used.contains f.name then fmtRenamed baseName f.name else f.name
    let f' := { f with name, body := .field baseName f.name }
    { fns := acc.fns ++ [f'], used := name :: acc.used }) acc

/-- injection of base functions (mod.rs:321-354) -/
def injectBases (reg : Registry) (regions : List Region) (acc : InjAcc) : Res InjAcc :=
  Res.foldlM (fun (acc : InjAcc) (ib : Nat × Region) =>
    match regionNameAndTypeDef reg ib.2 with
    | .ok none => .ok acc
    | .ok (some (baseName, td)) =>
      let acc1 := addFunctions baseName acc td.fns
      .ok (if ib.1 > 0 then
            match td.vft with
            | some v => addFunctions baseName acc1 v.fns
            | none => acc1
          else acc1)
    | e => e.cast) acc ((regions.filter (·.isBase)).zipIdx.map fun p => (p.2, p.1))

/-- impl functions (mod.rs:355-376) -/
def addImplFns (reg : Registry) (scope : List Path) (impl : Option G.Impl) (acc : InjAcc) : Res InjAcc :=
  match impl with
  | none => .ok acc
  | some im =>
    Res.foldlM (fun (acc : InjAcc) (f : G.Func) =>
      if acc.used.contains f.name then .err "function is already defined in type (or a base type)"
      else match buildFunction reg scope false f with
        | .ok sf => .ok { fns := acc.fns ++ [sf], used := sf.name :: acc.used }
        | e => e.cast) acc im.fns

def DTy.defaultablePath : DTy → Option Path
  | .raw p => some p
  | .arr t _ => DTy.defaultablePath t
  | _ => none

def defaultablePath : RTy → Option Path
  | .data t => t.defaultablePath
  | .fn .. => none

/-- the defaultable check (mod.rs:378-420) -/
def checkDefaultable (reg : Registry) (regions : List Region) : Res Unit :=
  Res.foldlM (fun (_ : Unit) (r : Region) =>
    match defaultablePath r.ty with
    | none => .err "field is not a defaultable type (pointer or function?)"
    | some p =>
      match reg.get p with
      | none => .err "failed to get type for field"
      | some item =>
        match item.resolved? with
        | none => .ok ()
        | some res => if !res.inner.defaultable then .err "field is not a defaultable type" else .ok ()) () regions

/-- `type_definition::build` (mod.rs:150-492) -/
def buildType (s : State) (path : Path) (vis : Vis) (d : G.TypeDef) : State × Res Resolved :=
  match s.moduleFor path with
  | none => (s, .err "failed to get module for path")
  | some module =>
    match G.docOf d.attrs with
    | none => (s, .err "doc attribute must be a string literal")
    | some doc =>
      match Res.foldlM typeAttrStep {} d.attrs with
      | .ok ta =>
        match Res.foldlM (stmtStep s.reg module.scope) {} (d.stmts.zipIdx.map fun p => (p.2, p.1)) with
        | .ok sa =>
          match resolveRegions s path vis ta.targetSize sa.pending sa.vfns with
          | (s1, .ok (regions, vft, size, placed)) =>
            (s1,
              match s1.moduleFor path with
              | none => .panic "get_module_for_path(..).unwrap()"
              | some module1 =>
                let used0 : List String := match vft with | some v => v.fns.map (·.name) | none => []
                match injectBases s1.reg regions { fns := [], used := used0 } with
                | .ok acc1 =>
                  match addImplFns s1.reg module1.scope (module1.implFor path) acc1 with
                  | .ok acc2 =>
                    match (if ta.defaultable then checkDefaultable s1.reg regions else .ok ()) with
                    | .ok () =>
                      match Layout.alignCheck s1.reg.ps ta.packed ta.align placed size with
                      | .ok alignment =>
                        .ok { size, align := alignment,
                              inner := .type { regions, doc, fns := acc2.fns, vft, singleton := ta.singleton,
                                               copyable := ta.copyable, cloneable := ta.cloneable,
                                               defaultable := ta.defaultable, packed := ta.packed } }
                      | e => e.cast
                    | e => e.cast
                  | e => e.cast
                | e => e.cast)
          | (s1, e) => (s1, e.cast)
        | e => (s, e.cast)
      | e => (s, e.cast)

/-! ## enum_definition.rs -/

structure EnumAcc where
  fields : List (String × Int) := []
  /-- value of the next case if not written; `none` after `isize::MAX` -/
  last : Option Int := some 0
  defaultIdx : Option Nat := none

/-- `integer_type_range`: accepted value range of a built-in integer base type -/
def intTypeRange (ty : DTy) : Option (Int × Int) :=
  match ty with
  | .raw [name] =>
    let r (signed : Bool) (bits : Nat) : Option (Int × Int) :=
      if bits = 128 then some (-(2 ^ 127), 2 ^ 127 - 1)
      else if signed then some (-(2 ^ (bits - 1)), 2 ^ (bits - 1) - 1)
      else some (-(2 ^ (bits - 1)), 2 ^ bits - 1)
    if name = "u8" then r false 8 else if name = "u16" then r false 16
    else if name = "u32" then r false 32 else if name = "u64" then r false 64
    else if name = "u128" then r false 128
    else if name = "i8" then r true 8 else if name = "i16" then r true 16
    else if name = "i32" then r true 32 else if name = "i64" then r true 64
    else if name = "i128" then r true 128
    else none
  | _ => none

def enumStmtStep (range : Int × Int) (acc : EnumAcc) (st : G.EnumStmt) : Res EnumAcc :=
  match (match st.expr with
    | some (.int v) => Res.ok v
    | some _ => .err "unsupported enum value"
    | none => match acc.last with
      | some v => .ok v
      | none => .err "value for case does not fit in an isize") with
  | .ok value =>
    if value < range.1 || value > range.2 then .err "value does not fit in the enum's base type" else
    if acc.fields.any (fun nv => nv.1 == st.name || nv.2 == value) then
      .err "case has the same name or value as an earlier case" else
    let fields := acc.fields ++ [(st.name, value)]
    match Res.foldlM (fun (di : Option Nat) (a : G.Attr) =>
        match a with
        | .ident "default" => if di.isSome then .err "enum has multiple default variants" else .ok (some (fields.length - 1))
        | _ => .ok di) acc.defaultIdx st.attrs with
    | .ok di =>
      .ok { fields, last := if value + 1 > isizeMax then none else some (value + 1), defaultIdx := di }
    | e => e.cast
  | e => e.cast

structure EnumAttrs where
  singleton : Option Nat := none
  copyable : Bool := false
  cloneable : Bool := false
  defaultable : Bool := false

def enumAttrStep (st : EnumAttrs) (a : G.Attr) : Res EnumAttrs :=
  match a with
  | .ident "copyable" => .ok { st with copyable := true, cloneable := true }
  | .ident "cloneable" => .ok { st with cloneable := true }
  | .ident "defaultable" => .ok { st with defaultable := true }
  | .fn "singleton" [.int v] =>
    match tryUsize v with
    | some n => .ok { st with singleton := some n }
    | none => .err "failed to convert `singleton` attribute into usize for enum"
  | _ => .ok st

/-- `enum_definition::build` -/
def buildEnum (s : State) (path : Path) (d : G.EnumDef) : Res Resolved :=
  match s.moduleFor path with
  | none => .err "failed to get module for path"
  | some module =>
    match s.reg.resolveTy module.scope d.ty with
    | .ok ty =>
      match ty.size s.reg with
      | .ok none => .defer
      | .ok (some size) =>
        match intTypeRange ty with
        | none => .err "the base type of the enum is not a built-in integer type"
        | some range =>
        if d.stmts.isEmpty then .err "enum has no cases" else
        match Res.foldlM (enumStmtStep range) {} d.stmts with
        | .ok acc =>
          match G.docOf d.attrs with
          | none => .err "doc attribute must be a string literal"
          | some doc =>
            match Res.foldlM enumAttrStep {} d.attrs with
            | .ok ea =>
            if ea.defaultable && acc.defaultIdx.isNone then
              .err "enum is marked as defaultable but has no default variant set"
            else if !ea.defaultable && acc.defaultIdx.isSome then
              .err "enum has a default variant set but is not marked as defaultable"
            else
              match ty.align s.reg with
              | none => .err "failed to get alignment for base type of enum"
              | some al =>
                .ok { size, align := al,
                      inner := .enum { ty, doc, fields := acc.fields, singleton := ea.singleton,
                                       copyable := ea.copyable, cloneable := ea.cloneable,
                                       defaultable := ea.defaultable, defaultIdx := acc.defaultIdx } }
            | e => e.cast
        | e => e.cast
      | e => e.cast
    | e => e.cast

/-! ## semantic_state.rs -/

/-- `SemanticState::new` -/
def State.new (ps : Nat) : State :=
  let s0 : State := { modules := [([], ({} : Mod))], reg := { ps := ps } }
  predefinedTypes.foldl (fun s (nm : String × Nat) =>
    let item : ItemDef :=
      { vis := G.Vis.pub, path := [nm.1],
        state := IState.res { size := nm.2, align := predefinedAlign nm.2,
                              inner := SInner.type { cloneable := true, copyable := true, defaultable := true } },
        cat := Cat.predefined }
    match s.addItem item with
    | .ok s' => s'
    | _ => s) s0

/-- last `#[address(N)]` of an extern value, `usize::try_from` -/
def xvalAddress (attrs : List G.Attr) : Res (Option Nat) :=
  Res.foldlM (fun acc a => match a with
    | .fn "address" [.int v] => match tryUsize v with
      | some n => .ok (some n)
      | none => .err "failed to convert `address` attribute into usize for extern value"
    | _ => .ok acc) none attrs

structure XTypeAttrs where
  size : Option Nat := none
  align : Option Nat := none

def xtypeAttrStep (st : XTypeAttrs) (a : G.Attr) : Res XTypeAttrs :=
  match a with
  | .fn "size" [.int v] => match tryUsize v with
    | some n => .ok { st with size := some n }
    | none => .err "failed to convert `size` attribute into usize for extern type"
  | .fn "align" [.int v] => match tryUsize v with
    | some n => .ok { st with align := some n }
    | none => .err "failed to convert `align` attribute into usize for extern type"
  | _ => .ok st

/-- `SemanticState::add_module` -/
def State.addModule (s : State) (m : G.Module) (path : Path) : Res State :=
  match Res.mapM' (fun (ev : G.XVal) =>
      match xvalAddress ev.attrs with
      | .ok none => Res.err "failed to find `address` attribute for extern value"
      | .ok (some a) => .ok ({ vis := ev.vis, name := ev.name, gty := ev.ty, ty := none, addr := a } : XValue)
      | e => e.cast) m.xvals with
  | .ok xvals =>
    match G.docOf m.attrs with
    | none => .err "doc attribute must be a string literal"
    | some doc =>
      let mod : Mod :=
        { path, uses := m.uses, defPaths := [], xvals,
          impls := m.impls.map (fun f => (path ++ [f.name], f)),
          backends := m.backends.map (fun b => (b.name, { prologue := b.prologue, epilogue := b.epilogue })),
          doc }
      let s1 := s.putModule path mod
      -- every `impl` block must belong to a type defined in this module
      if m.impls.any (fun b => !(m.defs.any fun d =>
          d.name == b.name && (match d.inner with | .type _ => true | .enum _ => false))) then
        .err "impl block does not belong to a type defined in that module"
      else
      match Res.foldlM (fun (s : State) (d : G.Item) =>
          if s.reg.contains (path ++ [d.name]) then .err "item is defined more than once"
          else s.addItem { vis := d.vis, path := path ++ [d.name], state := .unres d, cat := .defined }) s1 m.defs with
      | .ok s2 =>
        Res.foldlM (fun (s : State) (xt : String × List G.Attr) =>
          match Res.foldlM xtypeAttrStep {} xt.2 with
          | .ok xa =>
            match xa.size with
            | none => .err "failed to find `size` attribute for extern type"
            | some size =>
              match xa.align with
              | none => .err "failed to find `align` attribute for extern type"
              | some align =>
                if !Layout.isPow2 align then .err "alignment of extern type is not a power of two"
                else if s.reg.contains (path ++ [xt.1]) then .err "item is defined more than once"
                else
                s.addItem { vis := .pub, path := path ++ [xt.1],
                            state := .res { size, align, inner := .type {} }, cat := .extern }
          | e => e.cast) s2 m.xtypes
      | e => e
  | e => e.cast

/-- position of a path in the priority list (not listed = after all listed) -/
def prioIndex (prio : List Path) (p : Path) : Nat :=
  match prio.findIdx? (· == p) with | some i => i | none => prio.length

/-- ordering used by the `pyxis_verif` hook: `(position in prio, path)` -/
def prioLe (prio : List Path) (a b : Path) : Bool :=
  let ia := prioIndex prio a
  let ib := prioIndex prio b
  if ia < ib then true else if ib < ia then false else Path.le a b

/-- `TypeRegistry::unresolved` under the hook -/
def Registry.unresolved (r : Registry) (prio : List Path) : List Path :=
  ((r.types.filter fun e => !e.2.isPredefined && !e.2.isResolved).map (·.1)).mergeSort (prioLe prio)

/-- the body of the `for resolvee_path in &to_resolve` loop -/
def attemptItem (s : State) (p : Path) : State × Res Unit :=
  match s.reg.get p with
  | none => (s, .err "failed to get type")
  | some item =>
    match item.state with
    | .res _ => (s, .ok ())
    | .unres d =>
      match d.inner with
      | .type td =>
        match buildType s p d.vis td with
        | (s1, .ok r) => ({ s1 with reg := s1.reg.setState p (.res r) }, .ok ())
        | (s1, .defer) => (s1, .ok ())
        | (s1, .err m) => (s1, .err m)
        | (s1, .panic m) => (s1, .panic m)
      | .enum ed =>
        match buildEnum s p ed with
        | .ok r => ({ s with reg := s.reg.setState p (.res r) }, .ok ())
        | .defer => (s, .ok ())
        | .err m => (s, .err m)
        | .panic m => (s, .panic m)

def runRound (s : State) : List Path → State × Res Unit
  | [] => (s, .ok ())
  | p :: ps =>
    match attemptItem s p with
    | (s1, .ok ()) => runRound s1 ps
    | (s1, e) => (s1, e)

inductive BuildOutcome where
  | ok (s : State)
  | nonterm (failed : List Path)
  | err (msg : String)
  | panic (site : String)
  | fuel
deriving Inhabited

/-- the resolution loop of `SemanticState::build`, with the termination test as written
    (`to_resolve == unresolved()` on `Vec`s) -/
def resolveLoop (prio : List Path) : Nat → State → BuildOutcome
  | 0, _ => .fuel
  | fuel+1, s =>
    let toResolve := s.reg.unresolved prio
    if toResolve.isEmpty then .ok s
    else
      match runRound s toResolve with
      | (s1, .ok ()) =>
        if toResolve == s1.reg.unresolved prio && s.reg.types.length == s1.reg.types.length then .nonterm toResolve
        else resolveLoop prio fuel s1
      | (_, .err m) => .err m
      | (_, .panic m) => .panic m
      | (_, .defer) => .err "unreachable"

/-- `Module::resolve_extern_values` -/
def resolveXVals (reg : Registry) (m : Mod) : Res Mod :=
  match Res.mapM' (fun (ev : XValue) =>
      match reg.resolveTy m.scope ev.gty with
      | .ok t => Res.ok { ev with ty := some t }
      | .defer => .err "failed to resolve type for extern value"
      | e => e.cast) m.xvals with
  | .ok xvals => .ok { m with xvals }
  | e => e.cast

/-- `SemanticState::build` -/
def State.build (s : State) (prio : List Path) : BuildOutcome :=
  -- every round that continues resolves an item or registers a generated vftable item (at most one
  -- per unresolved type), so `2 * unresolved + 2` rounds are always enough
  let nItems := (s.reg.types.filter fun e => !e.2.isResolved).length
  match resolveLoop prio (2 * nItems + 2) s with
  | .ok s1 =>
    match Res.mapM' (fun (e : Path × Mod) =>
        match resolveXVals s1.reg e.2 with
        | .ok m => Res.ok (e.1, m)
        | x => x.cast) s1.modules with
    | .ok ms => .ok { s1 with modules := ms }
    | .err m => .err m
    | .panic m => .panic m
    | .defer => .err "unreachable"
  | other => other

end PyxisVerif
