import PyxisVerif.Model.Grammar
import PyxisVerif.Model.Lexer
/-!
# `src/parser/mod.rs`, node for node, over the flat token list of `Model/Lexer`

`syn`'s nested `ParseBuffer`s are flattened: the content of a group ends at its `cl` token,
so `input.is_empty()` is "`[]` or the next token is a `cl`" (`atEnd`).

**Errors.**  Every `syn::Error` pyxis can produce is located at the *current cursor* (or at a
cursor saved a moment earlier: the start of an integer literal), and `unexpected end of
input` inside a group is located at the group's closing delimiter – which is exactly the token
the flat parser is looking at.  The core parser therefore reports *the number of tokens that
remained* at the offending cursor; `parseModule` turns that into the position carried by
that token, and into line 1, column 0 (`Span::call_site()`) when nothing remained.

**Unconsumed group content.**  `syn` reports content left in a dropped `ParseBuffer` only at
the very end (`ParseBuffer::drop` → `check_unexpected` in `parse2`): the first such span is
remembered, and any error raised later wins.  In pyxis only the array type `[T; N ...]`
can leave content behind.  The third component `Option Nat` threaded through the type-carrying
parsers is that memory.

Fuel: every loop gets the same `fuel` (number of tokens + 1) and uses one unit per iteration.
-/
namespace PyxisVerif
namespace Parse
open Lex (K Delim Tok Pos)

/-- result with the `unexpected` memory -/
abbrev R (α : Type) := Except Nat (α × List K × Option Nat)
/-- result of the parsers that never meet an array type -/
abbrev R0 (α : Type) := Except Nat (α × List K)

/-- `accept_as_ident` is false (syn `ident.rs`): strict + reserved keywords and `_` -/
def kwList : List String :=
  ["_", "abstract", "as", "async", "await", "become", "box", "break", "const", "continue",
   "crate", "do", "dyn", "else", "enum", "extern", "false", "final", "fn", "for", "if", "impl",
   "in", "let", "loop", "macro", "match", "mod", "move", "mut", "override", "priv", "pub", "ref",
   "return", "Self", "self", "static", "struct", "super", "trait", "true", "try", "type",
   "typeof", "unsafe", "unsized", "use", "virtual", "where", "while", "yield"]

def isKw (s : String) : Bool := kwList.contains s

/-- `ParseBuffer::is_empty` -/
def atEnd : List K → Bool
  | [] => true
  | .cl _ :: _ => true
  | _ => false

def expectPunct (c : Char) : List K → Except Nat (List K)
  | .punct c' j :: r => if c' = c then .ok r else .error (K.punct c' j :: r).length
  | ts => .error ts.length

def expectKw (s : String) : List K → Except Nat (List K)
  | .ident s' :: r => if s' = s then .ok r else .error (K.ident s' :: r).length
  | ts => .error ts.length

def expectOpen (d : Delim) : List K → Except Nat (List K)
  | .op d' :: r => if d' = d then .ok r else .error (K.op d' :: r).length
  | ts => .error ts.length

def expectClose (d : Delim) : List K → Except Nat (List K)
  | .cl d' :: r => if d' = d then .ok r else .error (K.cl d' :: r).length
  | ts => .error ts.length

def lift {α} (p : List K → R0 α) : List K → Option Nat → R α := fun ts u =>
  match p ts with
  | .ok (x, r) => .ok (x, r, u)
  | .error e => .error e

/-- `impl Parse for Ident` (mod.rs:23) -/
def pIdent : List K → R0 String
  | .ident s :: r =>
    if s = "_" then .ok ("_", r)
    else if isKw s then .error (K.ident s :: r).length
    else .ok (s, r)
  | ts => .error ts.length

/-- the loop of `parse_type_ident` (mod.rs:41) -/
def identTail : Nat → String → List K → String × List K
  | 0, acc, ts => (acc, ts)
  | f + 1, acc, ts =>
    match ts with
    | .punct c j :: r =>
      if c = '<' then identTail f (acc ++ "<") r
      else if c = '>' then identTail f (acc ++ ">") r
      else (acc, .punct c j :: r)
    | .ident s :: r => if isKw s then (acc, .ident s :: r) else identTail f (acc ++ s) r
    | _ => (acc, ts)

/-- `parse_type_ident` (mod.rs:36) -/
def pTypeIdent (f : Nat) : List K → R0 String
  | .ident s :: r => if isKw s then .error (K.ident s :: r).length else .ok (identTail f s r)
  | ts => .error ts.length

/-- `peek(Token![::])` / `peek(Token![->])`: the first character must be `Joint`; gives the
    rest after the two characters -/
def peek2 (a b : Char) : List K → Option (List K)
  | .punct c true :: .punct c' _ :: r => if c = a ∧ c' = b then some r else none
  | _ => none

/-- `impl Parse for ItemPath` (mod.rs:57) -/
def pPath : Nat → List K → R0 Path
  | 0, ts => .error ts.length
  | f + 1, ts =>
    match ts with
    | .ident s :: r =>
      if s = "super" then .error (K.ident s :: r).length
      else if isKw s then .ok ([], .ident s :: r)
      else
        let p := identTail f s r
        match pPath f p.2 with
        | .ok (segs, r') => .ok (p.1 :: segs, r')
        | .error e => .error e
    | _ =>
      match peek2 ':' ':' ts with
      | some r => pPath f r
      | none => .ok ([], ts)

/-- `syn::LitInt::parse`: an integer literal with an optional leading `-` -/
def pLitInt : List K → R0 (Bool × Nat)
  | .int v :: r => .ok ((false, v), r)
  | .punct c j :: .int v :: r =>
    if c = '-' then .ok ((true, v), r) else .error (K.punct c j :: K.int v :: r).length
  | ts => .error ts.length

def usizeMax : Nat := 2 ^ 64
def isizeMax : Nat := 2 ^ 63

/-- `LitInt` then `base10_parse::<usize>()`; both errors sit at the start of the literal -/
def pUsize (ts : List K) : R0 Nat :=
  match pLitInt ts with
  | .ok ((neg, v), r) => if !neg && v < usizeMax then .ok (v, r) else .error ts.length
  | .error e => .error e

/-- skip to the `cl` that closes the current group: the rest after it -/
def skipGroup : Nat → List K → Option (List K)
  | _, [] => none
  | d, .op _ :: r => skipGroup (d + 1) r
  | 0, .cl _ :: r => some r
  | d + 1, .cl _ :: r => skipGroup d r
  | d, _ :: r => skipGroup d r

/-- the end of a `bracketed!` content buffer that is dropped without having been read to
    its end: remember the first leftover token -/
def closeLeftover (ts : List K) (u : Option Nat) : Except Nat (List K × Option Nat) :=
  match ts with
  | .cl .bracket :: r => .ok (r, u)
  | _ =>
    match skipGroup 0 ts with
    | some r => .ok (r, match u with | some n => some n | none => some ts.length)
    | none => .error ts.length

/-- `impl Parse for Type` (mod.rs:80) -/
def pType : Nat → List K → Option Nat → R G.Ty
  | 0, ts, _ => .error ts.length
  | f + 1, ts, u =>
    match ts with
    | .ident s :: r =>
      if s = "unknown" then
        match expectPunct '<' r with
        | .error e => .error e
        | .ok r1 =>
          match pUsize r1 with
          | .error e => .error e
          | .ok (n, r2) =>
            match expectPunct '>' r2 with
            | .error e => .error e
            | .ok r3 => .ok (.unk n, r3, u)
      else if isKw s then .error (K.ident s :: r).length
      else
        let p := identTail f s r
        .ok (.ident p.1, p.2, u)
    | .punct c j :: r =>
      if c = '*' then
        match r with
        | .ident s :: r' =>
          if s = "const" then
            match pType f r' u with
            | .ok (t, r'', u') => .ok (.cptr t, r'', u')
            | .error e => .error e
          else if s = "mut" then
            match pType f r' u with
            | .ok (t, r'', u') => .ok (.mptr t, r'', u')
            | .error e => .error e
          else .error r.length
        | _ => .error r.length
      else .error (K.punct c j :: r).length
    | .op d :: r =>
      if d = .bracket then
        match pType f r u with
        | .error e => .error e
        | .ok (t, r1, u1) =>
          match expectPunct ';' r1 with
          | .error e => .error e
          | .ok r2 =>
            match pUsize r2 with
            | .error e => .error e
            | .ok (n, r3) =>
              match closeLeftover r3 u1 with
              | .error e => .error e
              | .ok (r4, u2) => .ok (.arr t n, r4, u2)
      else .error (K.op d :: r).length
    | _ => .error ts.length

/-- `impl Parse for Expr` (mod.rs:120) -/
def pExpr (ts : List K) : R0 G.Expr :=
  match ts with
  | .ident s :: r => if isKw s then .error ts.length else .ok (.ident s, r)
  | .str s :: r => .ok (.str s, r)
  | _ =>
    match pLitInt ts with
    | .ok ((neg, v), r) =>
      if neg then (if v ≤ isizeMax then .ok (.int (-(v : Int)), r) else .error ts.length)
      else (if v < isizeMax then .ok (.int (v : Int), r) else .error ts.length)
    | .error e => .error e

/-- `Punctuated::parse_terminated_with` inside a group -/
def pTerm {α : Type} (p : List K → Option Nat → R α) (sep : Char) :
    Nat → List K → Option Nat → R (List α)
  | 0, ts, _ => .error ts.length
  | f + 1, ts, u =>
    if atEnd ts then .ok ([], ts, u) else
    match p ts u with
    | .error e => .error e
    | .ok (x, r, u') =>
      if atEnd r then .ok ([x], r, u') else
      match expectPunct sep r with
      | .error e => .error e
      | .ok r' =>
        match pTerm p sep f r' u' with
        | .error e => .error e
        | .ok (xs, r'', u'') => .ok (x :: xs, r'', u'')

/-- a delimited group whose content is a terminated list -/
def pGroup {α : Type} (d : Delim) (p : List K → Option Nat → R α) (sep : Char)
    (f : Nat) (ts : List K) (u : Option Nat) : R (List α) :=
  match expectOpen d ts with
  | .error e => .error e
  | .ok r =>
    match pTerm p sep f r u with
    | .error e => .error e
    | .ok (xs, r', u') =>
      match expectClose d r' with
      | .error e => .error e
      | .ok r'' => .ok (xs, r'', u')

/-- `AttributePart` (mod.rs:146) -/
def pAttrPart (f : Nat) (ts : List K) : R0 G.Attr :=
  match pIdent ts with
  | .error e => .error e
  | .ok (name, r) =>
    match r with
    | .op .paren :: _ =>
      match pGroup .paren (lift pExpr) ',' f r none with
      | .ok (args, r', _) => .ok (.fn name args, r')
      | .error e => .error e
    | .punct c j :: r' =>
      if c = '=' then
        match pExpr r' with
        | .ok (e, r'') => .ok (.assign name e, r'')
        | .error e => .error e
      else .ok (.ident name, .punct c j :: r')
    | _ => .ok (.ident name, r)

/-- `parse_attribute_body` (mod.rs:185) -/
def pAttrBody (f : Nat) (ts : List K) : R0 (List G.Attr) :=
  match pGroup .bracket (lift (pAttrPart f)) ',' f ts none with
  | .ok (as, r, _) => .ok (as, r)
  | .error e => .error e

/-- `Attribute::parse_many` (mod.rs:140); `inner` = `expect_module_attributes` -/
def pAttrs (inner : Bool) : Nat → List K → R0 (List G.Attr)
  | 0, ts => .error ts.length
  | f + 1, ts =>
    match ts with
    | .punct c j :: r =>
      if c = '#' then
        if inner then
          match r with
          | .punct c' j' :: r' =>
            if c' = '!' then
              match pAttrBody f r' with
              | .error e => .error e
              | .ok (as, r1) =>
                match pAttrs inner f r1 with
                | .error e => .error e
                | .ok (bs, r2) => .ok (as ++ bs, r2)
            else .ok ([], .punct c j :: .punct c' j' :: r')
          | _ => .ok ([], ts)
        else
          match pAttrBody f r with
          | .error e => .error e
          | .ok (as, r1) =>
            match pAttrs inner f r1 with
            | .error e => .error e
            | .ok (bs, r2) => .ok (as ++ bs, r2)
      else .ok ([], ts)
    | _ => .ok ([], ts)

/-- `impl Parse for Visibility` (mod.rs:211) -/
def pVis : List K → G.Vis × List K
  | .ident s :: r => if s = "pub" then (.pub, r) else (.priv, .ident s :: r)
  | ts => (.priv, ts)

/-- `impl Parse for Argument` (mod.rs:222) -/
def pArg (f : Nat) (ts : List K) (u : Option Nat) : R G.Arg :=
  match ts with
  | .punct c _ :: r =>
    if c = '&' then
      match r with
      | .ident s :: r' =>
        if s = "mut" then
          match expectKw "self" r' with
          | .ok r'' => .ok (.mutSelf, r'', u)
          | .error e => .error e
        else if s = "self" then .ok (.constSelf, r', u)
        else .error r.length
      | _ => .error r.length
    else .error ts.length
  | .ident s :: r =>
    if isKw s then .error ts.length
    else
      match expectPunct ':' r with
      | .error e => .error e
      | .ok r' =>
        match pType f r' u with
        | .ok (t, r'', u') => .ok (.named s t, r'', u')
        | .error e => .error e
  | _ => .error ts.length

/-- `impl Parse for Function` (mod.rs:251) -/
def pFunc (f : Nat) (ts : List K) (u : Option Nat) : R G.Func :=
  match pAttrs false f ts with
  | .error e => .error e
  | .ok (attrs, r1) =>
    let v := pVis r1
    match expectKw "fn" v.2 with
    | .error e => .error e
    | .ok r3 =>
      match pIdent r3 with
      | .error e => .error e
      | .ok (name, r4) =>
        match pGroup .paren (pArg f) ',' f r4 u with
        | .error e => .error e
        | .ok (args, r5, u1) =>
          match peek2 '-' '>' r5 with
          | some r6 =>
            match pType f r6 u1 with
            | .ok (t, r7, u2) =>
              .ok ({ vis := v.1, name, attrs, args, ret := some t }, r7, u2)
            | .error e => .error e
          | none => .ok ({ vis := v.1, name, attrs, args, ret := none }, r5, u1)

/-- `peek` of an identifier-like keyword (`Token![type]`, `kw::vftable`, …): the rest after it -/
def peekKw (kw : String) : List K → Option (List K)
  | .ident s :: r => if s = kw then some r else none
  | _ => none

/-- the non-`vftable` branch of `TypeField::parse` -/
def pPlainField (f : Nat) (ts : List K) (u : Option Nat) : R G.Field :=
  let v := pVis ts
  match pIdent v.2 with
  | .error e => .error e
  | .ok (name, r1) =>
    match expectPunct ':' r1 with
    | .error e => .error e
    | .ok r2 =>
      match pType f r2 u with
      | .ok (t, r3, u') => .ok (.field v.1 name t, r3, u')
      | .error e => .error e

/-- `impl Parse for TypeField` (mod.rs:292) -/
def pField (f : Nat) (ts : List K) (u : Option Nat) : R G.Field :=
  match peekKw "vftable" ts with
  | some r =>
    match pGroup .brace (pFunc f) ';' f r u with
    | .ok (fns, r', u') => .ok (.vftable fns, r', u')
    | .error e => .error e
  | none => pPlainField f ts u

/-- `impl Parse for TypeStatement` (mod.rs:314) -/
def pStmt (f : Nat) (ts : List K) (u : Option Nat) : R G.Stmt :=
  match pAttrs false f ts with
  | .error e => .error e
  | .ok (attrs, r) =>
    match pField f r u with
    | .ok (field, r', u') => .ok ({ field, attrs }, r', u')
    | .error e => .error e

/-- `peek` of a one-character punctuation token (any spacing): the rest after it -/
def peekPunct (c : Char) : List K → Option (List K)
  | .punct c' _ :: r => if c' = c then some r else none
  | _ => none

/-- `parse_type_definition` (mod.rs:324) -/
def pTypeDef (f : Nat) (attrs : List G.Attr) (ts : List K) (u : Option Nat) : R G.TypeDef :=
  match peekPunct ';' ts with
  | some r => .ok ({ stmts := [], attrs }, r, u)
  | none =>
    match pGroup .brace (pStmt f) ',' f ts u with
    | .ok (stmts, r, u') => .ok ({ stmts, attrs }, r, u')
    | .error e => .error e

/-- `impl Parse for EnumStatement` (mod.rs:343) -/
def pEnumStmt (f : Nat) (ts : List K) : R0 G.EnumStmt :=
  match pAttrs false f ts with
  | .error e => .error e
  | .ok (attrs, r) =>
    match pIdent r with
    | .error e => .error e
    | .ok (name, r1) =>
      match peekPunct '=' r1 with
      | some r2 =>
        match pExpr r2 with
        | .ok (e, r3) => .ok ({ name, expr := some e, attrs }, r3)
        | .error e => .error e
      | none => .ok ({ name, expr := none, attrs }, r1)

/-- `parse_enum_definition` (mod.rs:359) -/
def pEnumDef (f : Nat) (attrs : List G.Attr) (ts : List K) (u : Option Nat) : R G.EnumDef :=
  match expectPunct ':' ts with
  | .error e => .error e
  | .ok r =>
    match pType f r u with
    | .error e => .error e
    | .ok (ty, r1, u1) =>
      match pGroup .brace (lift (pEnumStmt f)) ',' f r1 u1 with
      | .ok (stmts, r2, u2) => .ok ({ ty, stmts, attrs }, r2, u2)
      | .error e => .error e

/-- `parse_item_definition` (mod.rs:379) -/
def pItemDef (f : Nat) (vis : G.Vis) (attrs : List G.Attr) (ts : List K) (u : Option Nat) :
    R G.Item :=
  match peekKw "type" ts with
  | some r =>
    match pIdent r with
    | .error e => .error e
    | .ok (name, r1) =>
      match pTypeDef f attrs r1 u with
      | .ok (d, r2, u') => .ok ({ vis, name, inner := .type d }, r2, u')
      | .error e => .error e
  | none =>
    match peekKw "enum" ts with
    | some r =>
      match pIdent r with
      | .error e => .error e
      | .ok (name, r1) =>
        match pEnumDef f attrs r1 u with
        | .ok (d, r2, u') => .ok ({ vis, name, inner := .enum d }, r2, u')
        | .error e => .error e
    | none => .error ts.length

/-! ### backends -/

def trimL (cs : List Char) : List Char :=
  ((cs.dropWhile Lex.isRustWs).reverse.dropWhile Lex.isRustWs).reverse

/-- `str::trim` -/
def trim (s : String) : String := String.ofList (trimL s.toList)

/-- `parse_block` (mod.rs:447) for the keyword `kw`: `none` = the keyword is not there -/
def pBlock (kw : String) (ts : List K) : R0 (Option String) :=
  match peekKw kw ts with
  | some r =>
    match r with
    | .str v :: r1 =>
      match expectPunct ';' r1 with
      | .ok r2 => .ok (some (trim v), r2)
      | .error e => .error e
    | _ => .error r.length
  | none => .ok (none, ts)

/-- the `while !content.is_empty()` loop of `parse_backend` -/
def pBackendBody : Nat → Option String → Option String → List K →
    R0 (Option String × Option String)
  | 0, _, _, ts => .error ts.length
  | f + 1, pro, epi, ts =>
    if atEnd ts then .ok ((pro, epi), ts) else
    match pBlock "prologue" ts with
    | .error e => .error e
    | .ok (some p, r) => pBackendBody f (some p) epi r
    | .ok (none, _) =>
      match pBlock "epilogue" ts with
      | .error e => .error e
      | .ok (some e, r) => pBackendBody f pro (some e) r
      | .ok (none, _) => .error ts.length

/-- `parse_backend` (mod.rs:413) -/
def pBackend (f : Nat) (ts : List K) : R0 G.Backend :=
  match expectKw "backend" ts with
  | .error e => .error e
  | .ok r =>
    match pIdent r with
    | .error e => .error e
    | .ok (name, r1) =>
      match pBlock "prologue" r1 with
      | .error e => .error e
      | .ok (some p, r2) => .ok ({ name, prologue := some p, epilogue := none }, r2)
      | .ok (none, _) =>
        match pBlock "epilogue" r1 with
        | .error e => .error e
        | .ok (some e, r2) => .ok ({ name, prologue := none, epilogue := some e }, r2)
        | .ok (none, _) =>
          match expectOpen .brace r1 with
          | .error e => .error e
          | .ok r2 =>
            match pBackendBody f none none r2 with
            | .error e => .error e
            | .ok ((pro, epi), r3) =>
              match expectClose .brace r3 with
              | .error e => .error e
              | .ok r4 => .ok ({ name, prologue := pro, epilogue := epi }, r4)

/-! ### modules -/

/-- one iteration of the `while !input.is_empty()` loop of `Module::parse` -/
inductive ModItem where
  | use (p : Path)
  | xtype (n : String) (attrs : List G.Attr)
  | xval (x : G.XVal)
  | defn (i : G.Item)
  | impl (i : G.Impl)
  | backend (b : G.Backend)
deriving Repr, DecidableEq

/-- `Module::parse`, an item after its attributes and visibility: extern value or definition -/
def pVisItem (f : Nat) (attrs : List G.Attr) (vis : G.Vis) (ts : List K) (u : Option Nat) :
    R ModItem :=
  match peekKw "extern" ts with
  | some r3 =>
    match pIdent r3 with
    | .error e => .error e
    | .ok (name, r4) =>
      match expectPunct ':' r4 with
      | .error e => .error e
      | .ok r5 =>
        match pType f r5 u with
        | .error e => .error e
        | .ok (ty, r6, u') =>
          match expectPunct ';' r6 with
          | .ok r7 => .ok (.xval { vis, name, ty, attrs }, r7, u')
          | .error e => .error e
  | none =>
    match pItemDef f vis attrs ts u with
    | .ok (i, r, u') => .ok (.defn i, r, u')
    | .error e => .error e

/-- `Module::parse`, an item after its attributes -/
def pAttrItem (f : Nat) (attrs : List G.Attr) (ts : List K) (u : Option Nat) : R ModItem :=
  match (peekKw "extern" ts).bind (peekKw "type") with
  | some r2 =>
    match pTypeIdent f r2 with
    | .error e => .error e
    | .ok (name, r3) =>
      match expectPunct ';' r3 with
      | .ok r4 => .ok (.xtype name attrs, r4, u)
      | .error e => .error e
  | none =>
    match peekKw "impl" ts with
    | some r2 =>
      match pIdent r2 with
      | .error e => .error e
      | .ok (name, r3) =>
        match pGroup .brace (pFunc f) ';' f r3 u with
        | .ok (fns, r4, u') => .ok (.impl { name, fns, attrs }, r4, u')
        | .error e => .error e
    | none =>
      let v := pVis ts
      pVisItem f attrs v.1 v.2 u

/-- the body of the loop in `Module::parse` (mod.rs:481-543) -/
def pItem (f : Nat) (ts : List K) (u : Option Nat) : R ModItem :=
  match peekKw "use" ts with
  | some r =>
    match pPath f r with
    | .error e => .error e
    | .ok (p, r1) =>
      match expectPunct ';' r1 with
      | .ok r2 => .ok (.use p, r2, u)
      | .error e => .error e
  | none =>
    match peekKw "backend" ts with
    | some _ =>
      match pBackend f ts with
      | .ok (b, r) => .ok (.backend b, r, u)
      | .error e => .error e
    | none =>
      match pAttrs false f ts with
      | .error e => .error e
      | .ok (attrs, r1) => pAttrItem f attrs r1 u

/-- the loop of `Module::parse` -/
def pItems (fuel : Nat) : Nat → List K → Option Nat → R (List ModItem)
  | 0, ts, _ => .error ts.length
  | f + 1, ts, u =>
    if ts.isEmpty then .ok ([], [], u) else
    match pItem fuel ts u with
    | .error e => .error e
    | .ok (x, r, u') =>
      match pItems fuel f r u' with
      | .error e => .error e
      | .ok (xs, r', u'') => .ok (x :: xs, r', u'')

def selUse : ModItem → Option Path | .use p => some p | _ => none
def selXType : ModItem → Option (String × List G.Attr) | .xtype n a => some (n, a) | _ => none
def selXVal : ModItem → Option G.XVal | .xval x => some x | _ => none
def selDef : ModItem → Option G.Item | .defn i => some i | _ => none
def selImpl : ModItem → Option G.Impl | .impl i => some i | _ => none
def selBackend : ModItem → Option G.Backend | .backend b => some b | _ => none

/-- the six `Vec`s of `Module::parse` -/
def assemble (attrs : List G.Attr) (items : List ModItem) : G.Module :=
  { attrs
    uses := items.filterMap selUse
    xtypes := items.filterMap selXType
    xvals := items.filterMap selXVal
    defs := items.filterMap selDef
    impls := items.filterMap selImpl
    backends := items.filterMap selBackend }

/-- `impl Parse for Module` + `syn::parse::Parser::parse2`; the error is the number of tokens
    that remained at the offending token -/
def parseK (ts : List K) : Except Nat G.Module :=
  let fuel := ts.length + 1
  match pAttrs true fuel ts with
  | .error e => .error e
  | .ok (attrs, r) =>
    match pItems fuel fuel r none with
    | .error e => .error e
    | .ok (_, _, some n) => .error n
    | .ok (items, _, none) => .ok (assemble attrs items)

/-- the span start of the token at which `n` tokens remained -/
def posOfRem (ts : List Tok) (n : Nat) : Pos :=
  match ts.drop (ts.length - n) with
  | [] => (1, 0)
  | t :: _ => t.pos

/-- `syn::parse2::<Module>` on the tokens; the error is `span().start()` -/
def parseModule (ts : List Tok) : Except Pos G.Module :=
  match parseK (ts.map (·.k)) with
  | .ok m => .ok m
  | .error n => .error (posOfRem ts n)

/-- `parser::parse_str` -/
def parseStr (s : String) : Except Pos G.Module :=
  match Lex.lex s with
  | .error p => .error p
  | .ok ts => parseModule ts

/-- `parseStr` as it is executed: the positions of the tokens are not computed, only the one
    position an error needs (this keeps parsing linear in the length of the text) -/
def parseStrFast (s : String) : Except Pos G.Module :=
  let cs := s.toList
  match Lex.lexCore (cs.length + 1) (Lex.stripBom cs) [] with
  | .error m => .error (Lex.posOfRem cs m.rem)
  | .ok r =>
    match parseK (r.map (·.1)) with
    | .ok m => .ok m
    | .error n =>
      .error (match r.drop (r.length - n) with
              | [] => (1, 0)
              | p :: _ => Lex.posOfRem cs p.2.rem)

@[csimp] theorem parseStr_eq_fast : @parseStr = @parseStrFast := by
  funext s
  simp only [parseStr, parseStrFast, Lex.lex, Lex.lexL]
  cases Lex.lexCore (s.toList.length + 1) (Lex.stripBom s.toList) [] with
  | error m => rfl
  | ok r =>
    simp only [parseModule, List.map_map, Function.comp_def]
    cases parseK (r.map fun x => x.1) with
    | ok m => rfl
    | error n =>
      simp only [posOfRem, List.length_map, ← List.map_drop]
      cases r.drop (r.length - n) <;> rfl

end Parse
end PyxisVerif
