import PyxisVerif.Model.Build
/-!
# `backends/rust.rs` up to an abstract Rust file

The backend is modelled up to the *shape* of what it prints: the abstract items of
PROTOCOL.md §3 (O3).  `quote!`, `prettyplease` and the concrete token spelling are outside
the model; the harness re-parses the real output into the same shapes.
-/
namespace PyxisVerif
open Gen

namespace Emit

/-- `fully_qualified_type_ref` + canonical printing of the resulting `syn::Type` -/
def tyStr : DTy → String
  | .raw p =>
    if p.length == 1 && p.getLast? == some "void" then "::std::ffi::c_void"
    else if p.length > 1 then "crate::" ++ Path.display p
    else Path.display p
  | .cptr t => "*const " ++ tyStr t
  | .mptr t => "*mut " ++ tyStr t
  | .arr t n => "[" ++ tyStr t ++ ";" ++ toString n ++ "]"

def rtyStr : RTy → String
  | .data t => tyStr t
  | .fn cc args ret =>
    "unsafe extern \"" ++ cc.asStr ++ "\" fn(" ++
      ",".intercalate (args.map fun a => a.1 ++ ":" ++ tyStr a.2) ++ ")" ++
      (match ret with | some r => "->" ++ tyStr r | none => "")

/-- split a character list at every `'\n'` (always at least one piece) -/
def splitNl : List Char → List (List Char)
  | [] => [[]]
  | c :: cs =>
    if c = '\n' then [] :: splitNl cs
    else match splitNl cs with
      | [] => [[c]]
      | l :: ls => (c :: l) :: ls

/-- `str::split('\n')` on a doc string -/
def strLines (s : String) : List String := (splitNl s.toList).map String.ofList

def docLines (doc : Option String) : List String :=
  match doc with | some d => strLines d | none => []

/-! abstract emitted items, as S-expressions (PROTOCOL.md §3 O3) -/
open Sexp

def visS (v : Vis) : Sexp := G.visToSexp v
def docsS (doc : Option String) : Sexp := mk "docs" ((docLines doc).map .str)

def derivesOf (copyable cloneable defaultable : Bool) : List String :=
  (if copyable then ["Copy"] else []) ++ (if cloneable then ["Clone"] else []) ++
    (if defaultable then ["Default"] else [])

def paramS : SArg → Sexp
  | .constSelf => .sym "self"
  | .mutSelf => .sym "mutself"
  | .field n t => mk "arg" [.str n, .str (tyStr t)]

def sigArgS : SArg → Sexp
  | .constSelf => mk "this" [.sym "const"]
  | .mutSelf => mk "this" [.sym "mut"]
  | .field n t => mk "arg" [.str n, .str (tyStr t)]

def callArgS : SArg → Sexp
  | .constSelf => .sym "selfconst"
  | .mutSelf => .sym "selfmut"
  | .field n _ => mk "v" [.str n]

def optTyS (t : Option DTy) : Sexp := ofOpt (fun t => .str (tyStr t)) t

/-- `build_function` -/
def methodS (f : SFunc) : Sexp :=
  let body :=
    match f.body with
    | .addr a => mk "call-addr" [.int a, .str f.cc.asStr, mk "sig" (f.args.map sigArgS), optTyS f.ret,
        mk "args" (f.args.map callArgS)]
    | .field fld fn => mk "call-field" [.str fld, .str fn,
        mk "args" ((f.args.filter (!·.isSelf)).map callArgS)]
    | .vft fn => mk "call-slot" [.str fn, mk "args" (f.args.map callArgS)]
  mk "method" [docsS f.doc, visS f.vis, .str f.name, mk "params" (f.args.map paramS), optTyS f.ret, body]

/-- `TypeDefinition::dfs_hierarchy`; fuel bounds the depth (a resolved hierarchy is acyclic) -/
def dfsHierarchy (reg : Registry) : Nat → TypeDefn → List String → List (List String × RTy)
  | 0, _, _ => []
  | fuel+1, td, fields =>
    (td.regions.filter (·.isBase)).flatMap fun r =>
      match regionNameAndTypeDef reg r with
      | .ok (some (name, btd)) =>
        let fp := fields ++ [name]
        (fp, r.ty) :: dfsHierarchy reg fuel btd fp
      | _ => []

def upper (s : String) : String := s.map Char.toUpper

/-- `build_type` -/
def typeItems (reg : Registry) (path : Path) (size align : Nat) (vis : Vis) (td : TypeDefn) : List Sexp :=
  let name := path.getLast?.getD ""
  let structS := mk "struct" ([docsS td.doc,
      mk "derives" ((derivesOf td.copyable td.cloneable td.defaultable).map .str),
      mk "repr" (if td.packed then [.str "C", .str "packed"] else [.str "C", .str ("align(" ++ toString align ++ ")")]),
      visS vis, .str name] ++
    td.regions.map fun r => mk "fld" [docsS r.doc, visS r.vis, .str (r.name.getD ""), .str (rtyStr r.ty)])
  let sizeCheck := if size > 0 then [mk "sizecheck" [.str (fmtSizeCheck name), .str name, .int size]] else []
  let singleton := match td.singleton with
    | some a => [mk "singleton-struct" [.str name, visS vis, .int a]]
    | none => []
  let acc := ofOpt (fun (v : Vft) => mk "vftacc" [.str (tyStr v.ty), ofOpt .str v.baseField]) td.vft
  let methods := (td.fns.filter (!·.isInternal)).map methodS ++
    (match td.vft with | some v => (v.fns.filter (!·.isInternal)).map methodS | none => [])
  let implS := mk "impl" (.str name :: acc :: methods)
  let hier := dfsHierarchy reg (reg.types.length + 1) td []
  let conv := hier.flatMap fun (fp, ty) =>
    let n := (hier.filter fun e => rtyStr e.2 == rtyStr ty).length
    if n > 1 then
      [mk "conflict" [.str ("_CONFLICTING_" ++ upper (unraw name) ++ "_" ++ "_".intercalate (fp.map fun s => upper (unraw s)))]]
    else
      [mk "asref" [.str name, .str (rtyStr ty), mk "fp" (fp.map .str)],
       mk "asmut" [.str name, .str (rtyStr ty), mk "fp" (fp.map .str)]]
  let selfConv := [mk "asref" [.str name, .str name, mk "fp" []], mk "asmut" [.str name, .str name, mk "fp" []]]
  [structS] ++ sizeCheck ++ singleton ++ [implS] ++ conv ++ selfConv

/-- `build_enum` -/
def enumItems (path : Path) (size : Nat) (vis : Vis) (ed : EnumDefn) : List Sexp :=
  let name := path.getLast?.getD ""
  let enumS := mk "enum" ([docsS ed.doc,
      mk "derives" ((["PartialEq", "Eq", "PartialOrd", "Ord", "Debug"] ++
        derivesOf ed.copyable ed.cloneable ed.defaultable).map .str),
      mk "repr" [.str (tyStr ed.ty)], visS vis, .str name] ++
    ed.fields.zipIdx.map fun ((n, v), idx) =>
      mk "var" [.str n, ofOpt .int (some v), ofBool (ed.defaultIdx == some idx)])
  let sizeCheck := if size > 0 then [mk "sizecheck" [.str (fmtSizeCheck name), .str name, .int size]] else []
  let singleton := match ed.singleton with
    | some a => [mk "singleton-enum" [.str name, visS vis, .int a]]
    | none => []
  [enumS] ++ sizeCheck ++ singleton

/-- `build_item` -/
def itemItems (reg : Registry) (i : ItemDef) : List Sexp :=
  match i.cat, i.resolved? with
  | .defined, some r =>
    match r.inner with
    | .type td => typeItems reg i.path r.size r.align i.vis td
    | .enum ed => enumItems i.path r.size i.vis ed
  | _, _ => []

/-- `build_extern_value` -/
def xvalItem (x : XValue) : Sexp :=
  mk "xaccessor" [visS x.vis, .str (fmtExternGetter x.name),
    .str (match x.ty with | some t => tyStr t | none => "?unresolved"), .int x.addr]

/-- `path.as_mut_os_string().push(".rs")` on the last component -/
def setExtRs (last : String) : String := last ++ ".rs"

def relFile (key : Path) : String :=
  match key.getLast? with
  | none => ""
  | some last => "/".intercalate (key.dropLast ++ [setExtRs last])

def insertSorted {α} (le : α → α → Bool) (a : α) : List α → List α
  | [] => [a]
  | b :: bs => if le a b then a :: b :: bs else b :: insertSorted le a bs

/-- stable sort used for `sort_by_key` -/
def sortBy {α} (le : α → α → Bool) (l : List α) : List α := l.mergeSort le

/-- `write_module`: the abstract file of one module -/
def moduleFile (s : State) (key : Path) (m : Mod) : Sexp :=
  let backends := m.backendsFor "rust"
  let prologues := backends.filterMap (·.prologue)
  let epilogues := backends.filterMap (·.epilogue)
  let defs := sortBy (fun (a b : ItemDef) => Path.le a.path b.path) (m.defPaths.filterMap s.reg.get)
  let xvals := sortBy (fun (a b : XValue) => a.name ≤ b.name) m.xvals
  let items := (if prologues.isEmpty then [] else [mk "opaque-block" [.str ("\n".intercalate prologues)]]) ++
    defs.flatMap (itemItems s.reg) ++ xvals.map xvalItem ++
    (if epilogues.isEmpty then [] else [mk "opaque-block" [.str ("\n".intercalate epilogues)]])
  mk "file" [.str (relFile key), mk "rs" (mk "inner" ((docLines m.doc).map fun l => mk "doc" [.str l]) :: items)]

/-- all files of a resolved state, sorted by path -/
def files (s : State) : List Sexp :=
  let ms := sortBy (fun (a b : Path × Mod) => relFile a.1 ≤ relFile b.1) (s.modules.filter fun e => !e.1.isEmpty)
  ms.map fun e => moduleFile s e.1 e.2

end Emit
end PyxisVerif
