import PyxisVerif.Model.Parser
import PyxisVerif.Model.Printer
/-!
# O1 (PROTOCOL.md §3): the parse observation of the model

`(o1 R*)` with `R := (parsed "file" MODULE) | (perr "file" LINE COL)`.
A `tmodule` entry is parsed with `parseStr`; a `module` (AST) entry is printed with
`printText` and the text is parsed.
-/
namespace PyxisVerif

def o1Result (file : String) (src : String) : Sexp :=
  match Parse.parseStr src with
  | .ok m => Sexp.mk "parsed" [.str file, G.moduleToSexp m]
  | .error (l, c) => Sexp.mk "perr" [.str file, .int l, .int c]

def ModEnt.o1 : ModEnt → Sexp
  | .text file src => o1Result file src
  | .ast _ file m => o1Result file (Print.printText m)

def Case.o1 (c : Case) : Sexp := Sexp.mk "o1" (c.modules.map ModEnt.o1)

/-- the integer of the case extra `(seed N)`, 0 when absent -/
def Case.seed (c : Case) : Nat :=
  match c.extra? "seed" with
  | some [.int z] => z.toNat
  | _ => 0

/-- `(o1text (text "file" "TEXT")*)`: every `module` (AST) entry rendered with the lay-out
    `Trivia.ofSeed` derived from the case's `(seed N)` extra and the entry's index;
    `tmodule` entries pass through unchanged -/
def Case.o1text (c : Case) : Sexp :=
  let seed := c.seed
  Sexp.mk "o1text" (c.modules.zipIdx.map fun (e, i) =>
    match e with
    | .text file src => Sexp.mk "text" [.str file, .str src]
    | .ast _ file m =>
      Sexp.mk "text" [.str file,
        .str (Print.render (Print.printModule m) (Print.Trivia.ofSeed (Print.mix seed i)))])

end PyxisVerif
