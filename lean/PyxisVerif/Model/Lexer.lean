/-!
# The lexer pyxis reaches through `syn::parse_str`: `proc_macro2`'s *fallback* lexer
(`proc-macro2-1.0.84/src/parse.rs`) followed by `syn::Lit::new` (`syn-2.0.66/src/lit.rs`)

The text is a `List Char`.  The core (`lexCore`) is a total function with fuel that returns the
token kinds together with a `Mark` = *the remaining input at the start of the token*; the
API function `lex` turns these into 1-based line / 0-based column pairs, which is what
`proc_macro2::Span::start()` reports (columns count characters, a line ends at `'\n'` only).

Token kinds are what `syn` sees:

* `ident s` – any identifier, keyword or `_` (`_` is an `Ident` for the fallback lexer); a raw
  identifier `r#x` is `ident "r#x"` (that is what `Ident::to_string` gives and what
  `Ident == "kw"` compares against);
* `int v` – a literal that `syn::lit::value::parse_lit_int` accepts; `v` is its value, the
  suffix is dropped (`base10_parse` never looks at it);
* `str s` – a string literal (cooked or raw, any suffix); `s` is `LitStr::value()`;
* `lit` – any other literal (float, char, byte, byte string, C string, `(/*ERROR*/)`);
* `punct c joint` – `joint = true` iff the next character continues a punctuation sequence
  (`Spacing::Joint`);
* `op d` / `cl d` – the delimiters of a `Group`, explicit and balanced.

Doc comments become the tokens of `#[doc = "text"]` / `#![doc = "text"]`.

**Not modelled** (the model rejects, the real lexer accepts): identifiers with characters
outside ASCII (Unicode XID).  Inside literals and comments every character is allowed;
Unicode white space and a leading byte-order mark are handled.
-/
namespace PyxisVerif
namespace Lex

/-- 1-based line, 0-based column (in characters) -/
abbrev Pos := Nat × Nat

inductive Delim where
  | paren | bracket | brace
deriving DecidableEq, Repr, Inhabited

inductive K where
  | ident (s : String)
  | int (v : Nat)
  | str (s : String)
  | lit
  | punct (c : Char) (joint : Bool)
  | op (d : Delim)
  | cl (d : Delim)
deriving DecidableEq, Repr, Inhabited

structure Tok where
  k : K
  pos : Pos
deriving DecidableEq, Repr, Inhabited

/-! ## character classes -/

/-- Unicode `White_Space` = `char::is_whitespace`, also what `str::trim` removes -/
def isRustWs (c : Char) : Bool :=
  let n := c.toNat
  (9 ≤ n && n ≤ 13) || n == 0x20 || n == 0x85 || n == 0xA0 || n == 0x1680 ||
  (0x2000 ≤ n && n ≤ 0x200A) || n == 0x2028 || n == 0x2029 || n == 0x202F || n == 0x205F ||
  n == 0x3000

/-- `skip_whitespace`: `b' ' | 0x09..=0x0d`, and beyond ASCII `is_whitespace`
    (`White_Space`, left-to-right mark, right-to-left mark) -/
def isWs (c : Char) : Bool := isRustWs c || c.toNat == 0x200E || c.toNat == 0x200F
/-- `is_ident_start`, ASCII part -/
def isIdStart (c : Char) : Bool := c.isAlpha || c == '_'
/-- `is_ident_continue`, ASCII part -/
def isIdCont (c : Char) : Bool := c.isAlphanum || c == '_'
/-- `punct_char`: the characters in `"~!@#$%^&*-=+|;:,<.>/?'"` -/
def isPunctCh (c : Char) : Bool :=
  c == '~' || c == '!' || c == '@' || c == '#' || c == '$' || c == '%' || c == '^' || c == '&' ||
  c == '*' || c == '-' || c == '=' || c == '+' || c == '|' || c == ';' || c == ':' || c == ',' ||
  c == '<' || c == '.' || c == '>' || c == '/' || c == '?' || c == '\''

def hexVal (c : Char) : Option Nat :=
  if '0' ≤ c ∧ c ≤ '9' then some (c.toNat - 48)
  else if 'a' ≤ c ∧ c ≤ 'f' then some (c.toNat - 87)
  else if 'A' ≤ c ∧ c ≤ 'F' then some (c.toNat - 55)
  else none

/-- `punct_char(rest)` succeeds: used for the spacing of the preceding punct -/
def punctNext : List Char → Bool
  | '/' :: '/' :: _ => false
  | '/' :: '*' :: _ => false
  | c :: _ => isPunctCh c
  | [] => false

/-! ## comments -/

/-- `take_until_newline_or_eof`: (text, rest); the rest starts at the `'\n'` -/
def untilNl : List Char → List Char × List Char
  | [] => ([], [])
  | '\n' :: r => ([], '\n' :: r)
  | '\r' :: '\n' :: r => ([], '\n' :: r)
  | c :: r => let p := untilNl r; (c :: p.1, p.2)

/-- a `'\r'` that is not followed by `'\n'` -/
def hasBareCR : List Char → Bool
  | [] => false
  | '\r' :: '\n' :: r => hasBareCR r
  | '\r' :: _ => true
  | _ :: r => hasBareCR r

/-- `block_comment`, called on the text after the opening `/*` with `d` = nesting depth - 1;
    returns the text after the closing `*/` -/
def blockEnd : Nat → List Char → Option (List Char)
  | _, [] => none
  | d, '/' :: '*' :: r => blockEnd (d + 1) r
  | 0, '*' :: '/' :: r => some r
  | d + 1, '*' :: '/' :: r => blockEnd d r
  | d, _ :: r => blockEnd d r

inductive Slash where
  /-- an ordinary comment; lexing goes on with `rest` -/
  | skip (rest : List Char)
  /-- a doc comment: `inner` = `//!` / `/*!` -/
  | doc (inner : Bool) (text : List Char) (rest : List Char)
  /-- unterminated block comment, or a doc comment with a bare CR: lex error here -/
  | bad
  /-- not a comment -/
  | none

def docLine (inner : Bool) (r : List Char) : Slash :=
  let p := untilNl r
  if hasBareCR p.1 then .bad else .doc inner p.1 p.2

/-- `r` = the text after `/*`; the doc text is what lies between `/**` (`/*!`) and `*/` -/
def docBlock (inner : Bool) (r : List Char) : Slash :=
  match blockEnd 0 r with
  | some rest =>
    let body := r.take (r.length - rest.length)
    let text := (body.drop 1).take (body.length - 3)
    if hasBareCR text then .bad else .doc inner text rest
  | Option.none => .bad

/-! `docBlock` is executed as `docBlockFast`: `blockEndN` counts the characters it passes, so
    that no length has to be computed. -/

def blockEndN : Nat → List Char → Nat → Option (List Char × Nat)
  | _, [], _ => none
  | d, '/' :: '*' :: r, k => blockEndN (d + 1) r (k + 2)
  | 0, '*' :: '/' :: r, k => some (r, k + 2)
  | d + 1, '*' :: '/' :: r, k => blockEndN d r (k + 2)
  | d, _ :: r, k => blockEndN d r (k + 1)

theorem blockEnd_length_le (d : Nat) (xs ys : List Char) (h : blockEnd d xs = some ys) :
    ys.length ≤ xs.length := by
  fun_induction blockEnd d xs with
  | case1 d => cases h
  | case2 d r ih => have := ih h; simp only [List.length_cons]; omega
  | case3 r => cases h; simp only [List.length_cons]; omega
  | case4 d r ih => have := ih h; simp only [List.length_cons]; omega
  | case5 d c r h1 h2 h3 ih => have := ih h; simp only [List.length_cons]; omega

theorem blockEndN_eq (d : Nat) (xs : List Char) (k : Nat) :
    blockEndN d xs k = (blockEnd d xs).map fun r => (r, k + (xs.length - r.length)) := by
  fun_induction blockEnd d xs generalizing k with
  | case1 d => rfl
  | case2 d r ih =>
    rw [blockEndN, ih]
    cases h : blockEnd (d + 1) r with
    | none => rfl
    | some ys =>
      have := blockEnd_length_le _ _ _ h
      simp only [Option.map_some, List.length_cons, Option.some.injEq, Prod.mk.injEq, true_and]
      omega
  | case3 r => simp only [blockEndN, Option.map_some, List.length_cons, Option.some.injEq,
      Prod.mk.injEq, true_and]; omega
  | case4 d r ih =>
    rw [blockEndN, ih]
    cases h : blockEnd d r with
    | none => rfl
    | some ys =>
      have := blockEnd_length_le _ _ _ h
      simp only [Option.map_some, List.length_cons, Option.some.injEq, Prod.mk.injEq, true_and]
      omega
  | case5 d c r h1 h2 h3 ih =>
    have e : blockEndN d (c :: r) k = blockEndN d r (k + 1) := by
      rw [blockEndN]
      · exact h1
      · exact h2
      · exact h3
    rw [e, ih]
    cases h : blockEnd d r with
    | none => rfl
    | some ys =>
      have := blockEnd_length_le _ _ _ h
      simp only [Option.map_some, List.length_cons, Option.some.injEq, Prod.mk.injEq, true_and]
      omega

def docBlockFast (inner : Bool) (r : List Char) : Slash :=
  match blockEndN 0 r 0 with
  | some (rest, k) =>
    let body := r.take k
    let text := (body.drop 1).take (body.length - 3)
    if hasBareCR text then .bad else .doc inner text rest
  | Option.none => .bad

@[csimp] theorem docBlock_eq_fast : @docBlock = @docBlockFast := by
  funext inner r
  simp only [docBlock, docBlockFast, blockEndN_eq, Nat.zero_add]
  cases blockEnd 0 r <;> rfl

def plainBlock (r : List Char) : Slash :=
  match blockEnd 0 r with
  | some rest => .skip rest
  | Option.none => .bad

/-- `skip_whitespace`'s comment cases and `doc_comment_contents`, for a text starting with `/`:
    `//!` and `///` (but not `////`) are doc comments, `/**/` is an empty comment, `/*!` and
    `/**` (but not `/***`) are doc comments -/
def scanSlash : List Char → Slash
  | '/' :: '/' :: r =>
    match r with
    | '!' :: r' => docLine true r'
    | '/' :: r' =>
      (match r' with
       | '/' :: r'' => .skip (untilNl r'').2
       | _ => docLine false r')
    | _ => .skip (untilNl r).2
  | '/' :: '*' :: r =>
    match r with
    | '!' :: _ => docBlock true r
    | '*' :: r' =>
      (match r' with
       | '/' :: r'' => .skip r''
       | '*' :: _ => plainBlock r
       | _ => docBlock false r)
    | _ => plainBlock r
  | _ => .none

/-! ## literals -/

/-- `literal_suffix` / the identifier tail of a number: drop an identifier if one starts here -/
def dropSuffix : List Char → List Char
  | c :: r => if isIdStart c then r.dropWhile isIdCont else c :: r
  | [] => []

inductive StrMode where
  | str | bytes | cstr
deriving DecidableEq, Repr

/-- `backslash_u` (lexer) = `backslash_u` (syn): the text after `\u`; returns the code point -/
def uDigits : Nat → Nat → List Char → Option (Nat × List Char)
  | _, _, [] => none
  | v, len, c :: r =>
    match hexVal c with
    | some d => if len == 6 then none else uDigits (v * 16 + d) (len + 1) r
    | none =>
      if c == '_' ∧ 0 < len then uDigits v len r
      else if c == '}' ∧ 0 < len then some (v, r)
      else none

def uEsc : List Char → Option (Char × List Char)
  | '{' :: r =>
    match uDigits 0 0 r with
    | some (v, r') =>
      if h : v.isValidChar then some (Char.ofNatAux v h, r') else none
    | none => none
  | _ => none

/-- `trailing_backslash`: skip the white space after a `\`-newline; `last` = the previous byte -/
def trailingBs : Nat → Char → List Char → Option (List Char)
  | 0, _, _ => none
  | f + 1, last, cs =>
    let cs? : Option (List Char) :=
      if last == '\r' then (match cs with | '\n' :: r => some r | _ => none) else some cs
    match cs? with
    | none => none
    | some [] => none
    | some (b :: r) =>
      if b == ' ' || b == '\t' || b == '\n' || b == '\r' then trailingBs f b r else some (b :: r)

/-- one escape sequence, the text after the backslash (lexer validation fused with syn's
    decoding): `some (some ch, rest)` = the character `ch`; `some (none, rest)` = a line
    continuation (backslash, newline and the following white space are dropped);
    `none` = reject -/
def escapeWith (tb : Char → List Char → Option (List Char)) (m : StrMode) :
    List Char → Option (Option Char × List Char)
  | 'x' :: a :: b :: r' =>
    match hexVal a, hexVal b with
    | some x, some y =>
      let v := x * 16 + y
      if (m == .str && 8 ≤ x) || (m == .cstr && v == 0) then none
      else some (some (Char.ofNat v), r')
    | _, _ => none
  | 'n' :: r' => some (some '\n', r')
  | 'r' :: r' => some (some '\r', r')
  | 't' :: r' => some (some '\t', r')
  | '\\' :: r' => some (some '\\', r')
  | '\'' :: r' => some (some '\'', r')
  | '"' :: r' => some (some '"', r')
  | '0' :: r' => if m == .cstr then none else some (some '\x00', r')
  | 'u' :: r' =>
    if m == .bytes then none else
    match uEsc r' with
    | some (ch, r'') => if m == .cstr && ch == '\x00' then none else some (some ch, r'')
    | none => none
  | '\n' :: r' => (tb '\n' r').map fun r'' => (none, r'')
  | '\r' :: r' => (tb '\r' r').map fun r'' => (none, r'')
  | _ => none

/-- `escapeWith` with `trailing_backslash` bounded by the fuel `f` -/
def escape (m : StrMode) (f : Nat) : List Char → Option (Option Char × List Char) :=
  escapeWith (trailingBs f) m

/-- `cooked_string` / `cooked_byte_string` / `cooked_c_string` (validation, lexer) fused with
    `parse_lit_str_cooked` (decoding, syn).  Input: the text after the opening quote; `acc` =
    the decoded characters so far, reversed.  Output: decoded value and the text after the
    closing quote. -/
def cooked (m : StrMode) : Nat → List Char → List Char → Option (List Char × List Char)
  | 0, _, _ => none
  | _ + 1, [], _ => none
  | f + 1, c :: r, acc =>
    if c == '"' then some (acc.reverse, r)
    else if c == '\r' then
      (if r.head? = some '\n' then cooked m f (r.drop 1) ('\n' :: acc) else none)
    else if c == '\\' then
      match escape m f r with
      | some (some ch, r') => cooked m f r' (ch :: acc)
      | some (none, r') => cooked m f r' acc
      | none => none
    else if (m == .bytes && 128 ≤ c.toNat) || (m == .cstr && c == '\x00') then none
    else cooked m f r (c :: acc)

/-- a whole cooked literal: the text after the opening quote, with enough fuel -/
def cookedAll (m : StrMode) (r : List Char) : Option (List Char × List Char) :=
  cooked m (r.length + 1) r []

/-! The same functions with a *list* as fuel (one element per unit): `cookedAll` is executed
    as `cookedAllFast`, which uses the text itself as fuel and so never computes a length. -/

def trailingBsL : List Char → Char → List Char → Option (List Char)
  | [], _, _ => none
  | _ :: fl, last, cs =>
    let cs? : Option (List Char) :=
      if last == '\r' then (match cs with | '\n' :: r => some r | _ => none) else some cs
    match cs? with
    | none => none
    | some [] => none
    | some (b :: r) =>
      if b == ' ' || b == '\t' || b == '\n' || b == '\r' then trailingBsL fl b r else some (b :: r)

theorem trailingBsL_eq (fl : List Char) (last : Char) (cs : List Char) :
    trailingBsL fl last cs = trailingBs fl.length last cs := by
  induction fl generalizing last cs with
  | nil => rfl
  | cons x fl ih => simp only [trailingBsL, trailingBs, List.length_cons, ih]

def cookedL (m : StrMode) : List Char → List Char → List Char → Option (List Char × List Char)
  | [], _, _ => none
  | _ :: _, [], _ => none
  | _ :: fl, c :: r, acc =>
    if c == '"' then some (acc.reverse, r)
    else if c == '\r' then
      (if r.head? = some '\n' then cookedL m fl (r.drop 1) ('\n' :: acc) else none)
    else if c == '\\' then
      match escapeWith (trailingBsL fl) m r with
      | some (some ch, r') => cookedL m fl r' (ch :: acc)
      | some (none, r') => cookedL m fl r' acc
      | none => none
    else if (m == .bytes && 128 ≤ c.toNat) || (m == .cstr && c == '\x00') then none
    else cookedL m fl r (c :: acc)

theorem cookedL_eq (m : StrMode) (fl r acc : List Char) :
    cookedL m fl r acc = cooked m fl.length r acc := by
  induction fl generalizing r acc with
  | nil => cases r <;> rfl
  | cons x fl ih =>
    cases r with
    | nil => rfl
    | cons c r =>
      have he : escapeWith (trailingBsL fl) m = escape m fl.length := by
        unfold escape
        congr 1
        funext last cs
        exact trailingBsL_eq fl last cs
      simp only [cookedL, cooked, List.length_cons, ih, he]

def cookedAllFast (m : StrMode) (r : List Char) : Option (List Char × List Char) :=
  cookedL m ('"' :: r) r []

@[csimp] theorem cookedAll_eq_fast : @cookedAll = @cookedAllFast := by
  funext m r
  simp only [cookedAll, cookedAllFast, cookedL_eq, List.length_cons]

/-- the `#`s of a raw string: count and the text after the opening quote -/
def rawDelim : Nat → List Char → Option (Nat × List Char)
  | n, '#' :: r => rawDelim (n + 1) r
  | n, '"' :: r => if 255 < n then none else some (n, r)
  | _, _ => none

/-- `raw_string` / `raw_byte_string` / `raw_c_string` after the opening quote -/
def rawBody (m : StrMode) (n : Nat) : List Char → List Char → Option (List Char × List Char)
  | [], _ => none
  | '"' :: r, acc =>
    if r.take n == List.replicate n '#' then some (acc.reverse, r.drop n)
    else rawBody m n r ('"' :: acc)
  | '\r' :: '\n' :: r, acc => rawBody m n r ('\n' :: '\r' :: acc)
  | '\r' :: _, _ => none
  | c :: r, acc =>
    if (m == .bytes && 128 ≤ c.toNat) || (m == .cstr && c == '\x00') then none
    else rawBody m n r (c :: acc)

/-- the text after the `r` of `r"…"`, `r#"…"#` -/
def rawStr (m : StrMode) (cs : List Char) : Option (List Char × List Char) :=
  match rawDelim 0 cs with
  | some (n, r) => rawBody m n r []
  | none => none

/-- one escape or one character of a `'…'` / `b'…'` literal; returns the rest -/
def charBody (byte : Bool) : List Char → Option (List Char)
  | '\\' :: 'x' :: a :: b :: r =>
    match hexVal a, hexVal b with
    | some x, some _ => if !byte && 8 ≤ x then none else some r
    | _, _ => none
  | '\\' :: 'u' :: r => if byte then none else (uEsc r).map (·.2)
  | '\\' :: c :: r =>
    if c == 'n' || c == 'r' || c == 't' || c == '\\' || c == '0' || c == '\'' || c == '"' then some r
    else none
  | '\\' :: [] => none
  | c :: r => if byte && 128 ≤ c.toNat then none else some r
  | [] => none

/-- `character` / `byte` after the opening quote: the rest after the closing quote and suffix -/
def charLit (byte : Bool) (cs : List Char) : Option (List Char) :=
  match charBody byte cs with
  | some ('\'' :: r) => some (dropSuffix r)
  | _ => none

/-! ### numbers -/

inductive Mant where
  | reject
  | noexp (hasDot : Bool) (rest : List Char)
  | exp (hasDot : Bool) (beforeE afterE : List Char)

/-- the mantissa loop of `float_digits`, after the first digit -/
def mant : Bool → List Char → Mant
  | hd, [] => .noexp hd []
  | hd, c :: r =>
    if c.isDigit || c == '_' then mant hd r
    else if c == '.' then
      if hd then .noexp hd (c :: r)
      else match r with
        | d :: _ => if d == '.' || isIdStart d then .reject else mant true r
        | [] => mant true r
    else if c == 'e' || c == 'E' then .exp hd (c :: r) r
    else .noexp hd (c :: r)

/-- the exponent loop of `float_digits`; `none` = "return token_before_exp" -/
def expo : Bool → Bool → List Char → Option (List Char)
  | _, hv, [] => if hv then some [] else none
  | hs, hv, c :: r =>
    if c == '+' || c == '-' then
      if hv then some (c :: r) else if hs then none else expo true hv r
    else if c.isDigit then expo hs true r
    else if c == '_' then expo hs hv r
    else if hv then some (c :: r) else none

/-- `float_digits` on a text whose first character is a digit: the rest after the digits -/
def floatDigits : List Char → Option (List Char)
  | [] => none
  | _ :: r =>
    match mant false r with
    | .reject => none
    | .noexp hd rest => if hd then some rest else none
    | .exp hd before after =>
      match expo false false after with
      | some rest => some rest
      | none => if hd then some before else none

/-- the digit loop of `digits` (extent) and of `parse_lit_int` (value): `none` = reject -/
def intLoop (base : Nat) : Bool → Nat → List Char → Option (Nat × List Char)
  | empty, v, [] => if empty then none else some (v, [])
  | empty, v, c :: r =>
    if c == '_' then intLoop base empty v r
    else match hexVal c with
      | some d =>
        if d < base then intLoop base false (v * base + d) r
        else if d < 10 then none
        else if empty then none else some (v, c :: r)
      | none => if empty then none else some (v, c :: r)

/-- `digits` on a text whose first character is a digit: value and the rest after the digits -/
def intDigits : List Char → Option (Nat × List Char)
  | '0' :: 'x' :: r => intLoop 16 true 0 r
  | '0' :: 'o' :: r => intLoop 8 true 0 r
  | '0' :: 'b' :: r => intLoop 2 true 0 r
  | cs => intLoop 10 true 0 cs

/-- `float` then `int` on a text whose first character is a digit -/
def lexNumber (cs : List Char) : Option (K × List Char) :=
  match floatDigits cs with
  | some rest => some (.lit, dropSuffix rest)
  | none =>
    match intDigits cs with
    | some (v, rest) => some (.int v, dropSuffix rest)
    | none => none

/-! ### identifiers -/

/-- the text starts with `(/*ERROR*/)`, which the fallback lexer reads as one literal -/
def isERROR (cs : List Char) : Bool :=
  ['(', '/', '*', 'E', 'R', 'R', 'O', 'R', '*', '/', ')'].isPrefixOf cs

/-- `ident_any` on a text whose first character is an identifier start -/
def lexIdent (cs : List Char) : Option (K × List Char) :=
  match cs with
  | 'r' :: '#' :: r =>
    match r with
    | c :: _ =>
      if isIdStart c then
        let w := r.takeWhile isIdCont
        let s := String.ofList w
        if s == "_" || s == "super" || s == "self" || s == "Self" || s == "crate" then none
        else some (.ident (String.ofList ('r' :: '#' :: w)), r.dropWhile isIdCont)
      else none
    | [] => none
  | _ => some (.ident (String.ofList (cs.takeWhile isIdCont)), cs.dropWhile isIdCont)

def strTok (p : Option (List Char × List Char)) : Option (K × List Char) :=
  p.map fun (v, r) => (.str (String.ofList v), dropSuffix r)

def litTok (p : Option (List Char × List Char)) : Option (K × List Char) :=
  p.map fun (_, r) => (.lit, dropSuffix r)

/-- the literal prefixes for which `ident` rejects (`"r\"", "r#\"", "r##", "b\"", "b'", "br\"",
    "br#", "c\"", "cr\"", "cr#"`): such a text is that kind of literal or a lex error -/
inductive LitPrefix where
  | rawStr | byteStr | byteChar | rawByteStr | cStr | rawCStr
deriving DecidableEq, Repr

def litPrefix : List Char → Option LitPrefix
  | 'r' :: '"' :: _ => some .rawStr
  | 'r' :: '#' :: '"' :: _ => some .rawStr
  | 'r' :: '#' :: '#' :: _ => some .rawStr
  | 'b' :: '"' :: _ => some .byteStr
  | 'b' :: '\'' :: _ => some .byteChar
  | 'b' :: 'r' :: '"' :: _ => some .rawByteStr
  | 'b' :: 'r' :: '#' :: _ => some .rawByteStr
  | 'c' :: '"' :: _ => some .cStr
  | 'c' :: 'r' :: '"' :: _ => some .rawCStr
  | 'c' :: 'r' :: '#' :: _ => some .rawCStr
  | _ => none

def lexPrefixed (p : LitPrefix) (cs : List Char) : Option (K × List Char) :=
  match p with
  | .rawStr => strTok (rawStr .str (cs.drop 1))
  | .byteStr => litTok (cookedAll .bytes (cs.drop 2))
  | .byteChar => (charLit true (cs.drop 2)).map fun r' => (.lit, r')
  | .rawByteStr => litTok (rawStr .bytes (cs.drop 2))
  | .cStr => litTok (cookedAll .cstr (cs.drop 2))
  | .rawCStr => litTok (rawStr .cstr (cs.drop 2))

/-- the text after a `'`: a character literal, or a lifetime (`'` must be followed by an
    identifier that is not followed by `'`) -/
def lexQuote (r : List Char) : Option (K × List Char) :=
  match charLit false r with
  | some r' => some (.lit, r')
  | none =>
    match r with
    | c :: _ =>
      if isIdStart c then
        match lexIdent r with
        | some (_, '\'' :: _) => none
        | some _ => some (.punct '\'' true, r)
        | none => none
      else none
    | [] => none

/-- `leaf_token` on a text whose first character is not white space, not a comment start
    that was consumed, and not a delimiter.  (`literal`, then `punct`, then `ident`; the
    first character decides which of them can apply.) -/
def lexLeaf (cs : List Char) : Option (K × List Char) :=
  match cs with
  | [] => none
  | c :: r =>
    if c = '"' then strTok (cookedAll .str r)
    else if c = '\'' then lexQuote r
    else if c.isDigit then lexNumber cs
    else if isPunctCh c then
      (if c = '/' ∧ (r.head? = some '/' ∨ r.head? = some '*') then none
       else some (.punct c (punctNext r), r))
    else if isIdStart c then
      (match litPrefix cs with
       | some p => lexPrefixed p cs
       | none => lexIdent cs)
    else none

/-! ## the token stream -/

def delimOpen (c : Char) : Option Delim :=
  if c == '(' then some .paren else if c == '[' then some .bracket
  else if c == '{' then some .brace else none

def delimClose (c : Char) : Option Delim :=
  if c == ')' then some .paren else if c == ']' then some .bracket
  else if c == '}' then some .brace else none

/-- where a token (or an error) starts: the text that remained at that point, plus a number
    of characters to add (`rem` = the remaining length).  Keeping the suffix instead of its
    length makes `lexCore` linear: the length is only computed when a position is asked for. -/
abbrev Mark := List Char × Nat

/-- the number of characters that remained at the mark -/
def Mark.rem (m : Mark) : Nat := m.1.length + m.2

/-- the mark of "here": the remaining text itself -/
def here (cs : List Char) : Mark := (cs, 0)

/-- the tokens of a doc comment; `n` = mark of its start, `m` = mark of the text after it
    (the closing bracket carries the span of the comment's last character) -/
def docToks (inner : Bool) (text : List Char) (n m : Mark) : List (K × Mark) :=
  (K.punct '#' false, n) :: (if inner then [(K.punct '!' false, n)] else []) ++
  [(K.op .bracket, n), (K.ident "doc", n), (K.punct '=' false, n),
   (K.str (String.ofList text), n), (K.cl .bracket, (m.1, m.2 + 1))]

/-- `token_stream`.  Every token and every error carries the mark of the input that
    remained when the token started.  `st` = the open delimiters. -/
def lexCore : Nat → List Char → List (Delim × Mark) → Except Mark (List (K × Mark))
  | 0, cs, _ => .error (here cs)
  | f + 1, cs, st =>
    match cs with
    | [] =>
      match st with
      | [] => .ok []
      | (_, n) :: _ => .error n
    | c :: r =>
      if isWs c then lexCore f r st
      else
        match scanSlash cs with
        | .skip rest => lexCore f rest st
        | .bad => .error (here cs)
        | .doc inner text rest =>
          (lexCore f rest st).map (docToks inner text (here cs) (here rest) ++ ·)
        | .none =>
          match delimOpen c with
          | some d =>
            if d == .paren && isERROR cs then
              (lexCore f (cs.drop 11) st).map ((K.lit, here cs) :: ·)
            else (lexCore f r ((d, here cs) :: st)).map ((K.op d, here cs) :: ·)
          | none =>
            match delimClose c with
            | some d =>
              match st with
              | [] => .error (here cs)
              | (d', _) :: st' =>
                if d' == d then (lexCore f r st').map ((K.cl d, here cs) :: ·)
                else .error (here cs)
            | none =>
              match lexLeaf cs with
              | some (k, rest) => (lexCore f rest st).map ((k, here cs) :: ·)
              | none => .error (here cs)

/-! ## positions -/

/-- line/column after reading `cs` starting from `p` -/
def advance : Pos → List Char → Pos
  | p, [] => p
  | (l, _), '\n' :: r => advance (l + 1, 0) r
  | (l, c), _ :: r => advance (l, c + 1) r

/-- the position of the character at offset `off` -/
def posAt (cs : List Char) (off : Nat) : Pos := advance (1, 0) (cs.take off)

/-- the position at which `n` characters remain -/
def posOfRem (cs : List Char) (n : Nat) : Pos := posAt cs (cs.length - n)

/-- `fallback::TokenStream::from_str` strips a byte order mark -/
def stripBom : List Char → List Char
  | c :: r => if c.toNat == 0xFEFF then r else c :: r
  | [] => []

def lexL (cs : List Char) : Except Pos (List Tok) :=
  match lexCore (cs.length + 1) (stripBom cs) [] with
  | .ok r => .ok (r.map fun p => ⟨p.1, posOfRem cs p.2.rem⟩)
  | .error n => .error (posOfRem cs n.rem)

/-- `proc_macro2::TokenStream::from_str`; the error is `LexError::span().start()` -/
def lex (s : String) : Except Pos (List Tok) := lexL s.toList

end Lex
end PyxisVerif
