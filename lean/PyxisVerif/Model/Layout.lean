import PyxisVerif.Model.Basic
/-!
# The layout core of `type_definition/mod.rs`

`resolve_regions` (placement, gap padding, trailing padding, declared-size check) and the
alignment block of `type_definition::build`, written over an arbitrary payload `β` so that
the very same functions are (a) what `Model/Build.lean` executes with `β = Region` and
(b) what the layout theorems (C01, C02, C03, C20) are stated about.

A pending field arrives with the results of the (pure) registry lookups the Rust code
would make for it; they are inspected lazily, in program order, exactly where the Rust
code inspects them, so the order of `defer` / `err` / `panic` is preserved.
-/
namespace PyxisVerif.Layout

/-- a pending region: `(Option<usize>, Region)` plus what `Region::size` /
    `Type::alignment` / `Type::is_array` answer for it in the current registry -/
structure PField (β : Type) where
  addr : Option Nat
  /-- `region.size(type_registry)`: `ok none` = not known yet, `panic` = overflow in `s * count` -/
  size : Res (Option Nat)
  align : Option Nat
  isArr : Bool
  val : β
deriving Repr

/-- a placed region; `src = none` is a generated `[u8; size]` padding region -/
structure Placed (β : Type) where
  size : Nat
  align : Option Nat
  src : Option β
deriving Repr, DecidableEq

/-- the local `struct Regions { regions, last_address }` -/
abbrev St (β : Type) := List (Placed β) × Nat

/-- `Regions::push` (mod.rs:511-521) for a region whose size lookup answered `sz` -/
def push {β} (st : St β) (sz : Res (Option Nat)) (align : Option Nat) (isArr : Bool) (src : Option β) :
    Res (St β) :=
  match sz with
  | .ok none => .defer
  | .ok (some s) =>
    if s = 0 ∧ isArr = true then .ok st
    else if st.2 + s ≤ usizeMax then .ok (st.1 ++ [⟨s, align, src⟩], st.2 + s)
    else .defer   -- `last_address.checked_add(size)?`: an unrepresentable size counts as unknown
  | .defer => .defer
  | .err m => .err m
  | .panic s => .panic s

/-- a padding region `[u8; n]`: size `n * 1`, alignment 1, an array -/
def pushPad {β} (st : St β) (n : Nat) : Res (St β) :=
  push st (.ok (some n)) (some 1) true none

def pushField {β} (st : St β) (f : PField β) : Res (St β) :=
  push st f.size f.align f.isArr (some f.val)

/-- the placement loop (mod.rs:543-570) -/
def place {β} : St β → List (PField β) → Res (St β)
  | st, [] => .ok st
  | st, f :: fs =>
    match f.addr with
    | some a =>
      if a < st.2 then .err "attempted to insert padding, but overlapped with existing region"
      else
        match pushPad st (a - st.2) with
        | .ok st1 =>
          match pushField st1 f with
          | .ok st2 => place st2 fs
          | .defer => .defer
          | .err m => .err m
          | .panic s => .panic s
        | .defer => .defer
        | .err m => .err m
        | .panic s => .panic s
    | none =>
      match pushField st f with
      | .ok st2 => place st2 fs
      | .defer => .defer
      | .err m => .err m
      | .panic s => .panic s

/-- trailing padding up to `#[size]` (mod.rs:572-587) -/
def padTail {β} (st : St β) (target : Option Nat) : Res (St β) :=
  match target with
  | some t => if st.2 < t then pushPad st (t - st.2) else .ok st
  | none => .ok st

def sumSizes {β} (rs : List (Placed β)) : Nat := (rs.map (·.size)).sum

/-- `resolve_regions` from the vftable-pointer push to the declared-size check.
    `vptr` is the vftable pointer region when the type owns one (size and alignment = pointer size). -/
def resolve {β} (vptr : Option (PField β)) (fields : List (PField β)) (target : Option Nat) :
    Res (List (Placed β) × Nat) :=
  match (match vptr with | some v => pushField ([], 0) v | none => .ok ([], 0)) with
  | .ok st0 =>
    match place st0 fields with
    | .ok st1 =>
      match padTail st1 target with
      | .ok st2 =>
        let size := sumSizes st2.1
        match target with
        | some t => if size ≠ t then .err "calculated size does not match target size" else .ok (st2.1, size)
        | none => .ok (st2.1, size)
      | .defer => .defer
      | .err m => .err m
      | .panic s => .panic s
    | .defer => .defer
    | .err m => .err m
    | .panic s => .panic s
  | .defer => .defer
  | .err m => .err m
  | .panic s => .panic s

/-! ## the alignment block (mod.rs:422-474) -/

/-- `util::gcd` -/
def gcd (a b : Nat) : Nat := Nat.gcd a b

/-- one step of `util::lcm`'s fold: `acc / gcd(acc, x) * x` with overflow and zero-division checks -/
def lcmStep (acc x : Nat) : Res Nat :=
  if Nat.gcd acc x = 0 then .panic "util::lcm: division by zero"
  else if acc / Nat.gcd acc x * x > usizeMax then .panic "util::lcm: acc / gcd * x"
  else .ok (acc / Nat.gcd acc x * x)

/-- `util::lcm(regions.flat_map(alignment))` -/
def lcmAll {β} (rs : List (Placed β)) : Res Nat :=
  Res.foldlM (fun acc (r : Placed β) => match r.align with | some a => lcmStep acc a | none => .ok acc) 1 rs

/-- "Ensure that all fields are aligned" (mod.rs:453-466) -/
def fieldsAligned {β} : Nat → List (Placed β) → Res Unit
  | _, [] => .ok ()
  | off, r :: rs =>
    match r.align with
    | none => .panic "alignment().unwrap()"
    | some a =>
      if a = 0 then .panic "last_address % alignment: division by zero"
      else if off % a ≠ 0 then .err "field is located at an address not divisible by its alignment"
      else if off + r.size > usizeMax then .panic "last_address += size"
      else fieldsAligned (off + r.size) rs

/-- the requested alignment: explicit, sole region's, or pointer size (mod.rs:433-437) -/
def requestedAlign {β} (ps : Nat) (align? : Option Nat) (rs : List (Placed β)) : Nat :=
  match align? with
  | some a => a
  | none =>
    match rs with
    | [r] => match r.align with | some a => a | none => ps
    | _ => ps

/-- `usize::is_power_of_two` -/
def isPow2 (n : Nat) : Bool := n != 0 && 2 ^ n.log2 == n

/-- the whole block; returns the alignment of the type -/
def alignCheck {β} (ps : Nat) (packed : Bool) (align? : Option Nat) (rs : List (Placed β)) (size : Nat) :
    Res Nat :=
  if packed then
    if align?.isSome then .err "cannot specify both packed and align" else .ok 1
  else
    let alignment := requestedAlign ps align? rs
    if !isPow2 alignment then .err "alignment is not a power of two" else
    match lcmAll rs with
    | .ok required =>
      if required > alignment then .err "alignment is less than minimum required alignment"
      else
        match fieldsAligned 0 rs with
        | .ok () =>
          if alignment = 0 then .panic "size % alignment: division by zero"
          else if size % alignment ≠ 0 then .err "size is not a multiple of alignment"
          else .ok alignment
        | .defer => .defer
        | .err m => .err m
        | .panic s => .panic s
    | .defer => .defer
    | .err m => .err m
    | .panic s => .panic s

/-- byte offset of every placed region (running sum), paired with the region -/
def offsets {β} : Nat → List (Placed β) → List (Nat × Placed β)
  | _, [] => []
  | o, r :: rs => (o, r) :: offsets (o + r.size) rs

end PyxisVerif.Layout
