import PyxisVerif.Model.Grammar
import PyxisVerif.Model.Lexer
/-!
# Printing a module: abstract syntax → tokens → text

`printK` is the token-level printer (the inverse of `Parse.parseK` on well-formed modules,
`Props/C18.lean`); `tr` chooses the optional spellings: whether the `,`/`;`-terminated lists end
with their separator, and whether a type definition without statements is written `type T;`
(`tr = true`) or `type T { }` (`tr = false`).  `spell` writes one token; `printText` puts one blank after every token, except
after a punctuation character that is marked `joint` (`::`, `->`).  `render ts τ` (second half
of the file) writes tokens under an arbitrary lay-out `τ : Trivia`; `Trivia.ofSeed` is a
deterministic pseudo-random lay-out for the checks.
-/
namespace PyxisVerif
namespace Print
open Lex (K Delim Tok Pos)

/-- `x₁ sep x₂ sep … xₙ [sep]` -/
def pTerm {α : Type} (pr : α → List K) (sep : Char) (tr : Bool) : List α → List K
  | [] => []
  | [x] => pr x ++ (if tr then [K.punct sep false] else [])
  | x :: y :: r => pr x ++ K.punct sep false :: pTerm pr sep tr (y :: r)

def pGroup {α : Type} (d : Delim) (pr : α → List K) (sep : Char) (tr : Bool) (xs : List α) :
    List K :=
  K.op d :: pTerm pr sep tr xs ++ [K.cl d]

def pTy : G.Ty → List K
  | .cptr t => .punct '*' false :: .ident "const" :: pTy t
  | .mptr t => .punct '*' false :: .ident "mut" :: pTy t
  | .arr t n => .op .bracket :: pTy t ++ [.punct ';' false, .int n, .cl .bracket]
  | .ident s => [.ident s]
  | .unk n => [.ident "unknown", .punct '<' false, .int n, .punct '>' false]

def pExpr : G.Expr → List K
  | .int z => if z < 0 then [.punct '-' false, .int z.natAbs] else [.int z.toNat]
  | .str s => [.str s]
  | .ident s => [.ident s]

def pAttrPart (tr : Bool) : G.Attr → List K
  | .ident n => [.ident n]
  | .fn n args => .ident n :: pGroup .paren pExpr ',' tr args
  | .assign n e => .ident n :: .punct '=' false :: pExpr e

/-- one attribute per bracket: `#[a]` / `#![a]` -/
def pAttr (inner : Bool) (tr : Bool) (a : G.Attr) : List K :=
  .punct '#' false :: (if inner then [K.punct '!' false] else []) ++
    pGroup .bracket (pAttrPart tr) ',' false [a]

def pAttrs (inner : Bool) (tr : Bool) (as : List G.Attr) : List K := as.flatMap (pAttr inner tr)

def pVis : G.Vis → List K
  | .pub => [.ident "pub"]
  | .priv => []

def pArg : G.Arg → List K
  | .constSelf => [.punct '&' false, .ident "self"]
  | .mutSelf => [.punct '&' false, .ident "mut", .ident "self"]
  | .named n t => .ident n :: .punct ':' false :: pTy t

def pRet : Option G.Ty → List K
  | none => []
  | some t => .punct '-' true :: .punct '>' false :: pTy t

def pFunc (tr : Bool) (f : G.Func) : List K :=
  pAttrs false tr f.attrs ++ pVis f.vis ++
    (.ident "fn" :: .ident f.name :: pGroup .paren pArg ',' tr f.args ++ pRet f.ret)

def pField (tr : Bool) : G.Field → List K
  | .field v n t => pVis v ++ (.ident n :: .punct ':' false :: pTy t)
  | .vftable fns => .ident "vftable" :: pGroup .brace (pFunc tr) ';' tr fns

def pStmt (tr : Bool) (s : G.Stmt) : List K := pAttrs false tr s.attrs ++ pField tr s.field

def pOptExpr : Option G.Expr → List K
  | none => []
  | some e => .punct '=' false :: pExpr e

def pEnumStmt (tr : Bool) (s : G.EnumStmt) : List K :=
  pAttrs false tr s.attrs ++ (.ident s.name :: pOptExpr s.expr)

/-- the body of a type definition: `{ stmt, … }`; a definition without statements has the
    second spelling `;` (`parse_type_definition` peeks `Token![;]`), which is written when the
    optional spellings are switched on (`tr`) -/
def pTypeBody (tr : Bool) (ss : List G.Stmt) : List K :=
  if tr && ss.isEmpty then [.punct ';' false] else pGroup .brace (pStmt tr) ',' tr ss

def pItemDef (tr : Bool) (i : G.Item) : List K :=
  match i.inner with
  | .type d => pAttrs false tr d.attrs ++ pVis i.vis ++
      (.ident "type" :: .ident i.name :: pTypeBody tr d.stmts)
  | .enum d => pAttrs false tr d.attrs ++ pVis i.vis ++
      (.ident "enum" :: .ident i.name :: .punct ':' false :: pTy d.ty ++
        pGroup .brace (pEnumStmt tr) ',' tr d.stmts)

def pImpl (tr : Bool) (i : G.Impl) : List K :=
  pAttrs false tr i.attrs ++ (.ident "impl" :: .ident i.name :: pGroup .brace (pFunc tr) ';' tr i.fns)

def pXType (tr : Bool) (x : String × List G.Attr) : List K :=
  pAttrs false tr x.2 ++ [.ident "extern", .ident "type", .ident x.1, .punct ';' false]

def pXVal (tr : Bool) (x : G.XVal) : List K :=
  pAttrs false tr x.attrs ++ pVis x.vis ++
    (.ident "extern" :: .ident x.name :: .punct ':' false :: pTy x.ty ++ [.punct ';' false])

def pPath : Path → List K
  | [] => []
  | [s] => [.ident s]
  | s :: t :: r => .ident s :: .punct ':' true :: .punct ':' false :: pPath (t :: r)

def pUse (p : Path) : List K := .ident "use" :: pPath p ++ [.punct ';' false]

def pBlock (kw : String) : Option String → List K
  | none => []
  | some s => [.ident kw, .str s, .punct ';' false]

def pBackend (b : G.Backend) : List K :=
  .ident "backend" :: .ident b.name :: .op .brace ::
    pBlock "prologue" b.prologue ++ pBlock "epilogue" b.epilogue ++ [.cl .brace]

/-- the module as tokens: module attributes, then uses, extern types, extern values,
    definitions, impl blocks, backends -/
def printK (tr : Bool) (m : G.Module) : List K :=
  pAttrs true tr m.attrs ++ m.uses.flatMap pUse ++ m.xtypes.flatMap (pXType tr) ++
    m.xvals.flatMap (pXVal tr) ++ m.defs.flatMap (pItemDef tr) ++ m.impls.flatMap (pImpl tr) ++
    m.backends.flatMap pBackend

/-- token-level printer of the deliverable: positions are not meaningful (all `(0,0)`) -/
def printModule (m : G.Module) : List Tok := (printK true m).map fun k => ⟨k, (0, 0)⟩

/-! ## spelling -/

/-- little-endian digits in base `b ≥ 2` -/
def digitsLE (b n : Nat) : List Nat :=
  if _h : b < 2 then [n] else if n < b then [n] else (n % b) :: digitsLE b (n / b)
termination_by n
decreasing_by
  have : 0 < n := by omega
  exact Nat.div_lt_self this (by omega)

def digitChar (d : Nat) : Char :=
  if d < 10 then Char.ofNat (48 + d) else Char.ofNat (55 + d)

def decChars (n : Nat) : List Char := ((digitsLE 10 n).reverse).map digitChar

def escChar (c : Char) : List Char :=
  if c = '"' then ['\\', '"'] else if c = '\\' then ['\\', '\\']
  else if c = '\n' then ['\\', 'n'] else if c = '\r' then ['\\', 'r']
  else if c = '\t' then ['\\', 't'] else if c = '\x00' then ['\\', '0'] else [c]

def spellStr (s : List Char) : List Char := '"' :: s.flatMap escChar ++ ['"']

def openCh : Delim → Char | .paren => '(' | .bracket => '[' | .brace => '{'
def closeCh : Delim → Char | .paren => ')' | .bracket => ']' | .brace => '}'

/-- canonical spelling of one token -/
def spell : K → List Char
  | .ident s => s.toList
  | .int v => decChars v
  | .str s => spellStr s.toList
  | .lit => ['0', '.', '0']
  | .punct c _ => [c]
  | .op d => [openCh d]
  | .cl d => [closeCh d]

/-- what follows a token in canonical text: nothing after a joint punct, one blank otherwise -/
def sepAfter : K → List Char
  | .punct _ true => []
  | _ => [' ']

/-- canonical text of a token list -/
def renderCanon : List K → List Char
  | [] => []
  | k :: ks => spell k ++ sepAfter k ++ renderCanon ks

/-- the module as text, canonical single-space trivia -/
def printText (m : G.Module) : String := String.ofList (renderCanon (printK true m))

/-! ## rendering with trivia

`render ts τ` writes the tokens `ts` with the lay-out choices `τ`: what stands in the gap after
each token (white space, `//` comments, nested `/* */` comments), how each integer is spelled
(base, `_` separators, letter case) and whether a `doc` attribute is written as a doc comment.
`render` is total and *repairs* inadmissible choices instead of producing text that reads
differently: an invalid trivia piece becomes a blank, a blank is inserted where two tokens
would otherwise glue together, a doc comment style that cannot express the text falls back to
`#[doc = "…"]`.  Nothing is ever put after a `joint` punctuation character. -/

/-- one piece of trivia -/
inductive Piece where
  /-- a white-space character (ASCII: blank, tab, line feed, vertical tab, form feed, CR) -/
  | ws (c : Char)
  /-- `//text` followed by a line feed; `text` has no line feed and does not start with `/`, `!` -/
  | line (text : List Char)
  /-- `/*body*/`; `body` is balanced, and does not start with `*` or `!` -/
  | block (body : List Char)
deriving Repr, DecidableEq

def Piece.valid : Piece → Bool
  | .ws c => Lex.isWs c && c.toNat < 128
  | .line t => !t.contains '\n' && (match t with | c :: _ => c != '/' && c != '!' | [] => true)
  | .block b =>
    (match b with | c :: _ => c != '*' && c != '!' | [] => true) &&
    Lex.blockEnd 0 (b ++ ['*', '/']) == some []

def Piece.text (p : Piece) : List Char :=
  if p.valid then
    match p with
    | .ws c => [c]
    | .line t => '/' :: '/' :: t ++ ['\n']
    | .block b => '/' :: '*' :: b ++ ['*', '/']
  else [' ']

inductive Base where
  | dec | hex | oct | bin
deriving Repr, DecidableEq

def Base.radix : Base → Nat | .dec => 10 | .hex => 16 | .oct => 8 | .bin => 2
def Base.pre : Base → List Char
  | .dec => [] | .hex => ['0', 'x'] | .oct => ['0', 'o'] | .bin => ['0', 'b']

/-- how to spell an integer: base, lower-case hex letters, `_`s before the first digit (ignored
    for decimal) and after each digit -/
structure IntSpell where
  base : Base := .dec
  lower : Bool := false
  lead : Nat := 0
  after : List Nat := []
deriving Repr

def lowerCh (c : Char) : Char := if 'A' ≤ c ∧ c ≤ 'F' then Char.ofNat (c.toNat + 32) else c

def weave : List Char → List Nat → List Char
  | [], _ => []
  | d :: ds, [] => d :: weave ds []
  | d :: ds, n :: ns => d :: List.replicate n '_' ++ weave ds ns

def spellInt (sp : IntSpell) (v : Nat) : List Char :=
  let ds := ((digitsLE sp.base.radix v).reverse).map digitChar
  let ds := if sp.lower then ds.map lowerCh else ds
  sp.base.pre ++ (if sp.base = .dec then [] else List.replicate sp.lead '_') ++ weave ds sp.after

inductive DocStyle where
  | attr | line | block
deriving Repr, DecidableEq

/-- the lay-out choices, indexed by the position of the token in the list -/
structure Trivia where
  /-- before the first token -/
  lead : List Piece := []
  /-- in the gap after token `i` -/
  gap : Nat → List Piece := fun _ => [.ws ' ']
  /-- the spelling of token `i` when it is an integer -/
  int : Nat → IntSpell := fun _ => {}
  /-- the spelling of the `doc` attribute whose `#` is token `i` -/
  doc : Nat → DocStyle := fun _ => .attr

def piecesText (ps : List Piece) : List Char := ps.flatMap Piece.text

def isWordy : K → Bool
  | .ident _ | .int _ | .str _ | .lit => true
  | _ => false

def isPunctK : K → Bool
  | .punct _ _ => true
  | _ => false

/-- the two tokens may not stand side by side without trivia -/
def glues (a b : K) : Bool :=
  (isWordy a && isWordy b) || (isPunctK a && isPunctK b) ||
  (match a, b with | .ident _, .punct _ _ => true | _, _ => false)

/-- the text in the gap after `a` (before `b`, if there is a next token) -/
def gapText (a : K) (b : Option K) (ps : List Piece) : List Char :=
  match a with
  | .punct _ true => []
  | _ =>
    let t := piecesText ps
    match b with
    | none => t
    | some b =>
      if t.isEmpty && glues a b then [' ']
      else if a == .op .paren && b == .cl .paren && t == "/*ERROR*/".toList then ' ' :: t
      else t

/-- can the text be written as a `///` (`//!`) comment? -/
def lineDocOk (inner : Bool) (t : List Char) : Bool :=
  !t.contains '\n' && !t.contains '\r' && (inner || (match t with | c :: _ => c != '/' | [] => true))

/-- can the text be written as a `/** */` (`/*! */`) comment? -/
def blockDocOk (inner : Bool) (t : List Char) : Bool :=
  !Lex.hasBareCR t &&
  (inner || (match t with | c :: _ => c != '*' && c != '/' | [] => false)) &&
  Lex.blockEnd 0 ((if inner then '!' else '*') :: t ++ ['*', '/']) == some []

/-- the doc attribute starting at the head of the list, if there is one:
    (inner, text, number of tokens, rest) -/
def docAttr? : List K → Option (Bool × String × Nat × List K)
  | .punct '#' false :: .op .bracket :: .ident "doc" :: .punct '=' false :: .str s :: .cl .bracket ::
      r => some (false, s, 6, r)
  | .punct '#' false :: .punct '!' false :: .op .bracket :: .ident "doc" :: .punct '=' false ::
      .str s :: .cl .bracket :: r => some (true, s, 7, r)
  | _ => none

def spellWith (τ : Trivia) (i : Nat) : K → List Char
  | .int v => spellInt (τ.int i) v
  | k => spell k

/-- the doc comment to write for the doc attribute at the head of the list, when the lay-out
    asks for one and the text allows it: (inner, text, block?, number of tokens, rest) -/
def docChoice (τ : Trivia) (i : Nat) (ks : List K) : Option (Bool × List Char × Bool × Nat × List K) :=
  match docAttr? ks with
  | some (inner, s, n, rest) =>
    match τ.doc i with
    | .line => if lineDocOk inner s.toList then some (inner, s.toList, false, n, rest) else none
    | .block => if blockDocOk inner s.toList then some (inner, s.toList, true, n, rest) else none
    | .attr => none
  | none => none

/-- `///text` + line feed, `//!text` + line feed, `/**text*/`, `/*!text*/` -/
def docText (inner : Bool) (t : List Char) (block : Bool) : List Char :=
  if block then '/' :: '*' :: (if inner then '!' else '*') :: t ++ ['*', '/']
  else '/' :: '/' :: (if inner then '!' else '/') :: t ++ ['\n']

/-- `fuel` = number of tokens -/
def renderK (τ : Trivia) : Nat → Nat → List K → List Char
  | 0, _, _ => []
  | _ + 1, _, [] => []
  | f + 1, i, k :: ks =>
    match docChoice τ i (k :: ks) with
    | some (inner, t, block, n, rest) =>
      docText inner t block ++ gapText (.cl .bracket) rest.head? (τ.gap (i + n - 1)) ++
        renderK τ f (i + n) rest
    | none => spellWith τ i k ++ gapText k ks.head? (τ.gap i) ++ renderK τ f (i + 1) ks

/-- the text of a token list under the lay-out choices `τ` -/
def render (ts : List Tok) (τ : Trivia) : String :=
  String.ofList (piecesText τ.lead ++ renderK τ ts.length 0 (ts.map (·.k)))

/-! ### a deterministic pseudo-random lay-out (for the checks) -/

/-- 64-bit mixing of a seed and an index -/
def mix (a b : Nat) : Nat :=
  let x := (a * 6364136223846793005 + b * 1442695040888963407 + 1013904223) % 18446744073709551616
  let x := ((x ^^^ (x >>> 29)) * 0xBF58476D1CE4E5B9) % 18446744073709551616
  x ^^^ (x >>> 32)

/-- the gaps `Trivia.ofSeed` draws from: nothing, blanks, tabs, line breaks, `//` comments,
    (nested) block comments and mixtures – all of them valid pieces -/
def gapChoices : List (List Piece) := [
  [], [], [.ws ' '], [.ws ' '], [.ws ' '], [.ws ' ', .ws ' '], [.ws '\n'], [.ws '\t'],
  [.ws '\n', .ws ' ', .ws ' ', .ws ' ', .ws ' '], [.ws '\r', .ws '\n'], [.ws ' ', .ws '\t', .ws '\n'],
  [.line " comment".toList], [.ws ' ', .line "".toList], [.line " a // b /* c".toList, .ws ' '],
  [.block " b ".toList], [.block "".toList], [.ws ' ', .block " a /* b */ c ".toList, .ws ' '],
  [.block " two\nlines ".toList, .ws '\n'], [.block "ERROR".toList],
  [.ws ' ', .block "x".toList, .ws ' ', .line " y".toList, .ws ' '] ]

/-- a lay-out derived from `seed` and the token index: gaps from `gapChoices`, integers in
    decimal / hex / octal / binary with `_` separators and either letter case, doc attributes
    as attribute / `///` / `/** */`, sometimes a leading comment -/
def Trivia.ofSeed (seed : Nat) : Trivia :=
  { lead := if mix seed 1 % 3 = 0 then gapChoices.getD (mix seed 2 % gapChoices.length) [] else []
    gap := fun i => gapChoices.getD (mix seed (3 * i + 100) % gapChoices.length) []
    int := fun i =>
      let h := mix seed (3 * i + 101)
      { base := [Base.dec, .dec, .hex, .hex, .oct, .bin].getD (h % 6) .dec
        lower := (h / 8) % 2 = 0
        lead := if (h / 16) % 4 = 0 then 1 else 0
        after := [(h / 64) % 4 / 3, (h / 256) % 3 / 2, (h / 1024) % 2, 0, (h / 4096) % 2] }
    doc := fun i => [DocStyle.attr, .line, .block].getD (mix seed (3 * i + 102) % 3) .attr }

end Print
end PyxisVerif
