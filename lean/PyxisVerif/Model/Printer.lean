import PyxisVerif.Model.Grammar
import PyxisVerif.Model.Lexer
/-!
# Printing a module: abstract syntax → tokens → text

`printK` is the token-level printer (the inverse of `Parse.parseK` on well-formed modules,
`Props/C18.lean`); `tr` chooses whether the `,`/`;`-terminated lists end with their
separator.  `spell` writes one token; `printText` puts one blank after every token, except
after a punctuation character that is marked `joint` (`::`, `->`).
-/
namespace PyxisVerif
namespace Print
open Lex (K Delim Tok Pos)

/-- `x₁ sep x₂ sep … xₙ [sep]` -/
def pTerm {α : Type} (pr : α → List K) (sep : Char) (tr : Bool) : List α → List K
  | [] => []
  | [x] => pr x ++ (if tr then [K.punct sep false] else [])
  | x :: y :: r => pr x ++ K.punct sep false :: pTerm pr sep tr (y :: r)

def pGroup {α : Type} (d : Delim) (pr : α → List K) (sep : Char) (tr : Bool) (xs : List α) :
    List K :=
  K.op d :: pTerm pr sep tr xs ++ [K.cl d]

def pTy : G.Ty → List K
  | .cptr t => .punct '*' false :: .ident "const" :: pTy t
  | .mptr t => .punct '*' false :: .ident "mut" :: pTy t
  | .arr t n => .op .bracket :: pTy t ++ [.punct ';' false, .int n, .cl .bracket]
  | .ident s => [.ident s]
  | .unk n => [.ident "unknown", .punct '<' false, .int n, .punct '>' false]

def pExpr : G.Expr → List K
  | .int z => if z < 0 then [.punct '-' false, .int z.natAbs] else [.int z.toNat]
  | .str s => [.str s]
  | .ident s => [.ident s]

def pAttrPart (tr : Bool) : G.Attr → List K
  | .ident n => [.ident n]
  | .fn n args => .ident n :: pGroup .paren pExpr ',' tr args
  | .assign n e => .ident n :: .punct '=' false :: pExpr e

/-- one attribute per bracket: `#[a]` / `#![a]` -/
def pAttr (inner : Bool) (tr : Bool) (a : G.Attr) : List K :=
  .punct '#' false :: (if inner then [K.punct '!' false] else []) ++
    pGroup .bracket (pAttrPart tr) ',' false [a]

def pAttrs (inner : Bool) (tr : Bool) (as : List G.Attr) : List K := as.flatMap (pAttr inner tr)

def pVis : G.Vis → List K
  | .pub => [.ident "pub"]
  | .priv => []

def pArg : G.Arg → List K
  | .constSelf => [.punct '&' false, .ident "self"]
  | .mutSelf => [.punct '&' false, .ident "mut", .ident "self"]
  | .named n t => .ident n :: .punct ':' false :: pTy t

def pRet : Option G.Ty → List K
  | none => []
  | some t => .punct '-' true :: .punct '>' false :: pTy t

def pFunc (tr : Bool) (f : G.Func) : List K :=
  pAttrs false tr f.attrs ++ pVis f.vis ++
    (.ident "fn" :: .ident f.name :: pGroup .paren pArg ',' tr f.args ++ pRet f.ret)

def pField (tr : Bool) : G.Field → List K
  | .field v n t => pVis v ++ (.ident n :: .punct ':' false :: pTy t)
  | .vftable fns => .ident "vftable" :: pGroup .brace (pFunc tr) ';' tr fns

def pStmt (tr : Bool) (s : G.Stmt) : List K := pAttrs false tr s.attrs ++ pField tr s.field

def pOptExpr : Option G.Expr → List K
  | none => []
  | some e => .punct '=' false :: pExpr e

def pEnumStmt (tr : Bool) (s : G.EnumStmt) : List K :=
  pAttrs false tr s.attrs ++ (.ident s.name :: pOptExpr s.expr)

def pItemDef (tr : Bool) (i : G.Item) : List K :=
  match i.inner with
  | .type d => pAttrs false tr d.attrs ++ pVis i.vis ++
      (.ident "type" :: .ident i.name :: pGroup .brace (pStmt tr) ',' tr d.stmts)
  | .enum d => pAttrs false tr d.attrs ++ pVis i.vis ++
      (.ident "enum" :: .ident i.name :: .punct ':' false :: pTy d.ty ++
        pGroup .brace (pEnumStmt tr) ',' tr d.stmts)

def pImpl (tr : Bool) (i : G.Impl) : List K :=
  pAttrs false tr i.attrs ++ (.ident "impl" :: .ident i.name :: pGroup .brace (pFunc tr) ';' tr i.fns)

def pXType (tr : Bool) (x : String × List G.Attr) : List K :=
  pAttrs false tr x.2 ++ [.ident "extern", .ident "type", .ident x.1, .punct ';' false]

def pXVal (tr : Bool) (x : G.XVal) : List K :=
  pAttrs false tr x.attrs ++ pVis x.vis ++
    (.ident "extern" :: .ident x.name :: .punct ':' false :: pTy x.ty ++ [.punct ';' false])

def pPath : Path → List K
  | [] => []
  | [s] => [.ident s]
  | s :: t :: r => .ident s :: .punct ':' true :: .punct ':' false :: pPath (t :: r)

def pUse (p : Path) : List K := .ident "use" :: pPath p ++ [.punct ';' false]

def pBlock (kw : String) : Option String → List K
  | none => []
  | some s => [.ident kw, .str s, .punct ';' false]

def pBackend (b : G.Backend) : List K :=
  .ident "backend" :: .ident b.name :: .op .brace ::
    pBlock "prologue" b.prologue ++ pBlock "epilogue" b.epilogue ++ [.cl .brace]

/-- the module as tokens: module attributes, then uses, extern types, extern values,
    definitions, impl blocks, backends -/
def printK (tr : Bool) (m : G.Module) : List K :=
  pAttrs true tr m.attrs ++ m.uses.flatMap pUse ++ m.xtypes.flatMap (pXType tr) ++
    m.xvals.flatMap (pXVal tr) ++ m.defs.flatMap (pItemDef tr) ++ m.impls.flatMap (pImpl tr) ++
    m.backends.flatMap pBackend

/-- token-level printer of the deliverable: positions are not meaningful (all `(0,0)`) -/
def printModule (m : G.Module) : List Tok := (printK true m).map fun k => ⟨k, (0, 0)⟩

/-! ## spelling -/

/-- little-endian digits in base `b ≥ 2` -/
def digitsLE (b n : Nat) : List Nat :=
  if _h : b < 2 then [n] else if n < b then [n] else (n % b) :: digitsLE b (n / b)
termination_by n
decreasing_by
  have : 0 < n := by omega
  exact Nat.div_lt_self this (by omega)

def digitChar (d : Nat) : Char :=
  if d < 10 then Char.ofNat (48 + d) else Char.ofNat (55 + d)

def decChars (n : Nat) : List Char := ((digitsLE 10 n).reverse).map digitChar

def escChar (c : Char) : List Char :=
  if c = '"' then ['\\', '"'] else if c = '\\' then ['\\', '\\']
  else if c = '\n' then ['\\', 'n'] else if c = '\r' then ['\\', 'r']
  else if c = '\t' then ['\\', 't'] else if c = '\x00' then ['\\', '0'] else [c]

def spellStr (s : List Char) : List Char := '"' :: s.flatMap escChar ++ ['"']

def openCh : Delim → Char | .paren => '(' | .bracket => '[' | .brace => '{'
def closeCh : Delim → Char | .paren => ')' | .bracket => ']' | .brace => '}'

/-- canonical spelling of one token -/
def spell : K → List Char
  | .ident s => s.toList
  | .int v => decChars v
  | .str s => spellStr s.toList
  | .lit => ['0', '.', '0']
  | .punct c _ => [c]
  | .op d => [openCh d]
  | .cl d => [closeCh d]

/-- what follows a token in canonical text: nothing after a joint punct, one blank otherwise -/
def sepAfter : K → List Char
  | .punct _ true => []
  | _ => [' ']

/-- canonical text of a token list -/
def renderCanon : List K → List Char
  | [] => []
  | k :: ks => spell k ++ sepAfter k ++ renderCanon ks

/-- the module as text, canonical single-space trivia -/
def printText (m : G.Module) : String := String.ofList (renderCanon (printK true m))

end Print
end PyxisVerif
