import PyxisVerif.Model.Basic
import PyxisVerif.Model.Grammar
import PyxisVerif.Generated.Tables
/-!
# `src/semantic/types.rs`, `type_registry.rs`, `module.rs` – semantic data and name lookup
-/
namespace PyxisVerif
open Gen

/-- `semantic::types::Type` without the `Function` and `Unresolved` constructors: the types that
    `resolve_grammar_type` can return. -/
inductive DTy where
  | raw (p : Path)
  | cptr (t : DTy)
  | mptr (t : DTy)
  | arr (t : DTy) (n : Nat)
deriving Repr, DecidableEq, Inhabited

/-- a region's type: a data type or (only for generated vftable structs) a function pointer -/
inductive RTy where
  | data (t : DTy)
  | fn (cc : CC) (args : List (String × DTy)) (ret : Option DTy)
deriving Repr, DecidableEq, Inhabited

abbrev Vis := G.Vis

inductive SArg where
  | constSelf | mutSelf
  | field (n : String) (t : DTy)
deriving Repr, DecidableEq, Inhabited

def SArg.isSelf : SArg → Bool | .field .. => false | _ => true

inductive FBody where
  | addr (a : Nat)
  | field (field fn : String)
  | vft (fn : String)
deriving Repr, DecidableEq, Inhabited

structure SFunc where
  vis : Vis
  name : String
  doc : Option String
  body : FBody
  args : List SArg
  ret : Option DTy
  cc : CC
deriving Repr, DecidableEq, Inhabited

def SFunc.isPublic (f : SFunc) : Bool := f.vis == .pub
def SFunc.isInternal (f : SFunc) : Bool := f.name.startsWith "_"

structure Region where
  vis : Vis
  name : Option String
  doc : Option String
  ty : RTy
  isBase : Bool
deriving Repr, DecidableEq, Inhabited

structure Vft where
  fns : List SFunc
  baseField : Option String
  ty : DTy
deriving Repr, DecidableEq, Inhabited

structure TypeDefn where
  regions : List Region := []
  doc : Option String := none
  fns : List SFunc := []
  vft : Option Vft := none
  singleton : Option Nat := none
  copyable : Bool := false
  cloneable : Bool := false
  defaultable : Bool := false
  packed : Bool := false
deriving Repr, DecidableEq, Inhabited

structure EnumDefn where
  ty : DTy
  doc : Option String
  fields : List (String × Int)
  singleton : Option Nat
  copyable : Bool
  cloneable : Bool
  defaultable : Bool
  defaultIdx : Option Nat
deriving Repr, DecidableEq, Inhabited

inductive SInner where
  | type (d : TypeDefn)
  | enum (d : EnumDefn)
deriving Repr, DecidableEq, Inhabited

/-- `ItemDefinitionInner::defaultable` -/
def SInner.defaultable : SInner → Bool
  | .type d => d.defaultable
  | .enum d => d.defaultable && d.defaultIdx.isSome

structure Resolved where
  size : Nat
  align : Nat
  inner : SInner
deriving Repr, DecidableEq, Inhabited

inductive IState where
  | unres (d : G.Item)
  | res (r : Resolved)
deriving Repr, DecidableEq, Inhabited

inductive Cat where | defined | predefined | extern
deriving Repr, DecidableEq, Inhabited

structure ItemDef where
  vis : Vis
  path : Path
  state : IState
  cat : Cat
deriving Repr, DecidableEq, Inhabited

def ItemDef.resolved? (i : ItemDef) : Option Resolved :=
  match i.state with | .res r => some r | .unres _ => none
def ItemDef.isResolved (i : ItemDef) : Bool := i.resolved?.isSome
def ItemDef.isPredefined (i : ItemDef) : Bool := i.cat == .predefined

/-! ## registry: a finite map with a lookup-only interface -/

structure Registry where
  types : List (Path × ItemDef) := []
  ps : Nat
deriving Repr, Inhabited

namespace Registry

def get (r : Registry) (p : Path) : Option ItemDef := r.types.lookup p
def contains (r : Registry) (p : Path) : Bool := (r.get p).isSome

/-- `HashMap::insert`: replaces an existing entry -/
def add (r : Registry) (i : ItemDef) : Registry :=
  { r with types := (i.path, i) :: r.types.filter (fun e => e.1 != i.path) }

def setState (r : Registry) (p : Path) (s : IState) : Registry :=
  { r with types := r.types.map fun e => if e.1 == p then (e.1, { e.2 with state := s }) else e }

/-- `TypeRegistry::resolve_string` (type_registry.rs:54-74) -/
def resolveString (r : Registry) (scope : List Path) (name : String) : Option DTy :=
  let scopeTypes := scope.filter r.contains
  let scopeModules := scope.filter (fun p => !r.contains p)
  match scopeTypes.reverse.find? (fun p => p.getLast? == some name) with
  | some p => some (.raw p)
  | none =>
    match ((([] : Path) :: scopeModules).map (· ++ [name])).find? r.contains with
    | some p => some (.raw p)
    | none => none

/-- `padding_type`: `[u8; bytes]` (the lookup of `u8` with an empty scope; `unwrap` panics if absent) -/
def paddingType (r : Registry) (bytes : Nat) : Res DTy :=
  match r.resolveString [] "u8" with
  | some t => .ok (.arr t bytes)
  | none => .panic "padding_type: u8 missing"

/-- `resolve_grammar_type`; `defer` = `None`.  (The `unwrap` inside `padding_type` is kept.) -/
def resolveTy (r : Registry) (scope : List Path) : G.Ty → Res DTy
  | .cptr t => match resolveTy r scope t with | .ok t => .ok (.cptr t) | e => e
  | .mptr t => match resolveTy r scope t with | .ok t => .ok (.mptr t) | e => e
  | .arr t n => match resolveTy r scope t with | .ok t => .ok (.arr t n) | e => e
  | .ident s => match r.resolveString scope s with | some t => .ok t | none => .defer
  | .unk n => r.paddingType n

end Registry

/-- `Type::size` (types.rs:62-73); `ok none` = `None` (not known yet) -/
def DTy.size (r : Registry) : DTy → Res (Option Nat)
  | .raw p => .ok ((r.get p).bind fun i => i.resolved?.map (·.size))
  | .cptr _ => .ok (some r.ps)
  | .mptr _ => .ok (some r.ps)
  | .arr t n =>
    match DTy.size r t with
    | .ok (some s) =>
      -- `checked_mul`: a size that does not fit in a `usize` counts as unknown
      if s * n ≤ usizeMax then .ok (some (s * n)) else .ok none
    | other => other

/-- `Type::alignment` (types.rs:74-83) -/
def DTy.align (r : Registry) : DTy → Option Nat
  | .raw p => (r.get p).bind fun i => i.resolved?.map (·.align)
  | .cptr _ => some r.ps
  | .mptr _ => some r.ps
  | .arr t _ => DTy.align r t

def DTy.isArray : DTy → Bool | .arr .. => true | _ => false

def RTy.size (r : Registry) : RTy → Res (Option Nat)
  | .data t => t.size r
  | .fn .. => .ok (some r.ps)

def RTy.align (r : Registry) : RTy → Option Nat
  | .data t => t.align r
  | .fn .. => some r.ps

def RTy.isArray : RTy → Bool | .data t => t.isArray | .fn .. => false

/-! ## modules -/

structure XValue where
  vis : Vis
  name : String
  /-- `Type::Unresolved(grammar type)` until `resolve_extern_values` -/
  gty : G.Ty
  ty : Option DTy
  addr : Nat
deriving Repr, DecidableEq, Inhabited

structure SBackend where
  prologue : Option String
  epilogue : Option String
deriving Repr, DecidableEq, Inhabited

structure Mod where
  path : Path := []
  uses : List Path := []
  /-- `HashSet<ItemPath>`: kept duplicate-free, order irrelevant -/
  defPaths : List Path := []
  xvals : List XValue := []
  /-- `HashMap<ItemPath, FunctionBlock>`: all blocks in source order; `implFor` merges per type -/
  impls : List (Path × G.Impl) := []
  /-- `HashMap<String, Vec<Backend>>`: per name, in source order -/
  backends : List (String × SBackend) := []
  doc : Option String := none
deriving Repr, Inhabited

/-- `Module::scope` -/
def Mod.scope (m : Mod) : List Path := m.path :: m.uses

def Mod.implFor (m : Mod) (p : Path) : Option G.Impl :=
  -- several blocks for the same type are merged, in source order
  match (m.impls.filter (fun e => e.1 == p)).map (·.2) with
  | [] => none
  | b :: bs => some { name := b.name, fns := (b :: bs).flatMap (·.fns), attrs := (b :: bs).flatMap (·.attrs) }

def Mod.backendsFor (m : Mod) (name : String) : List SBackend :=
  (m.backends.filter (fun e => e.1 == name)).map (·.2)

structure State where
  modules : List (Path × Mod) := []
  reg : Registry
deriving Repr, Inhabited

namespace State

def getModule (s : State) (p : Path) : Option Mod := s.modules.lookup p

/-- `HashMap::insert` on modules -/
def putModule (s : State) (p : Path) (m : Mod) : State :=
  { s with modules := (p, m) :: s.modules.filter (fun e => e.1 != p) }

/-- `get_module_for_path` -/
def moduleFor (s : State) (p : Path) : Option Mod :=
  match Path.parent? p with
  | none => none
  | some parent => s.getModule parent

/-- `SemanticState::add_item` -/
def addItem (s : State) (i : ItemDef) : Res State :=
  match Path.parent? i.path with
  | none => .err "failed to get parent path"
  | some parent =>
    match s.getModule parent with
    | none => .err "failed to get module for path"
    | some m =>
      let m' := { m with defPaths := if m.defPaths.contains i.path then m.defPaths else i.path :: m.defPaths }
      .ok { modules := s.modules.map (fun e => if e.1 == parent then (e.1, m') else e),
            reg := s.reg.add i }

end State

end PyxisVerif
