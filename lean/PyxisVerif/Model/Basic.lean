/-!
# Outcomes and machine integers

`Res` is the outcome of every modelled Rust function that can fail:
`ok` – `Ok(Some(v))` / `Ok(v)`; `defer` – `Ok(None)` ("try this item again later");
`err` – an `anyhow` error; `panic` – any Rust panic (explicit, `unwrap`/`expect`,
checked-arithmetic overflow in a debug build, division by zero, unbounded allocation).
Nothing is silently totalised: every partial Rust operation has an explicit branch.
-/
namespace PyxisVerif

inductive Res (α : Type) where
  | ok (a : α)
  | defer
  | err (msg : String)
  | panic (site : String)
deriving Repr, DecidableEq, Inhabited

namespace Res

@[inline] def bind {α β} (r : Res α) (f : α → Res β) : Res β :=
  match r with
  | .ok a => f a
  | .defer => .defer
  | .err m => .err m
  | .panic s => .panic s

instance : Monad Res where
  pure := .ok
  bind := Res.bind

def isOk {α} : Res α → Bool | .ok _ => true | _ => false

/-- re-type a non-`ok` outcome -/
def cast {α β} : Res α → Res β
  | .ok _ => .panic "Res.cast of ok"
  | .defer => .defer
  | .err m => .err m
  | .panic s => .panic s

def ofOption {α} (o : Option α) (e : Res α) : Res α := match o with | some a => .ok a | none => e

/-- `for x in xs { acc = f(acc, x)? }` -/
def foldlM {α β} (f : β → α → Res β) : β → List α → Res β
  | b, [] => .ok b
  | b, a :: as => match f b a with
    | .ok b' => foldlM f b' as
    | .defer => .defer
    | .err m => .err m
    | .panic s => .panic s

/-- `xs.iter().map(f).collect::<Result<Vec<_>>>()` -/
def mapM' {α β} (f : α → Res β) : List α → Res (List β)
  | [] => .ok []
  | a :: as => match f a with
    | .ok b => match mapM' f as with
      | .ok bs => .ok (b :: bs)
      | .defer => .defer
      | .err m => .err m
      | .panic s => .panic s
    | .defer => .defer
    | .err m => .err m
    | .panic s => .panic s

@[simp] theorem bind_ok {α β} (a : α) (f : α → Res β) : (Res.ok a >>= f) = f a := rfl
@[simp] theorem bind_defer {α β} (f : α → Res β) : ((Res.defer : Res α) >>= f) = .defer := rfl
@[simp] theorem bind_err {α β} (m : String) (f : α → Res β) : ((Res.err m : Res α) >>= f) = .err m := rfl
@[simp] theorem bind_panic {α β} (s : String) (f : α → Res β) : ((Res.panic s : Res α) >>= f) = .panic s := rfl
@[simp] theorem pure_eq {α} (a : α) : (pure a : Res α) = .ok a := rfl

end Res

/-! ## `usize` / `isize` on the 64-bit build host -/

def usizeMax : Nat := 2 ^ 64 - 1
def isizeMax : Int := 2 ^ 63 - 1
def isizeMin : Int := -(2 ^ 63)

/-- `a + b` on `usize` in a build with overflow checks -/
def cadd (site : String) (a b : Nat) : Res Nat :=
  if a + b ≤ usizeMax then .ok (a + b) else .panic site

/-- `a * b` on `usize` in a build with overflow checks -/
def cmul (site : String) (a b : Nat) : Res Nat :=
  if a * b ≤ usizeMax then .ok (a * b) else .panic site

/-- `a % b` on `usize` -/
def cmod (site : String) (a b : Nat) : Res Nat :=
  if b = 0 then .panic site else .ok (a % b)

/-- `isize as usize` (two's complement reinterpretation) -/
def asUsize (z : Int) : Nat := if 0 ≤ z then z.toNat else (2 ^ 64 + z).toNat

/-- `usize::try_from(isize)` -/
def tryUsize (z : Int) : Option Nat := if 0 ≤ z then some z.toNat else none

/-- lower-case hexadecimal, `{:x}` -/
def toHexLower (n : Nat) : String := String.ofList (Nat.toDigits 16 n)

/-- upper-case hexadecimal, `{:X}` -/
def toHexUpper (n : Nat) : String := String.ofList ((Nat.toDigits 16 n).map Char.toUpper)

end PyxisVerif
