import PyxisVerif.Model.Basic
/-!
# Modelled, not pyxis code: what the Rust compiler does with the items pyxis emits

Layout of `#[repr(C)]`, `#[repr(C, align(N))]` and `#[repr(C, packed)]` structs as the Rust
reference defines it.  This file is *validated* against the real compiler by the O4 runs
(`size_of` / `align_of` / `offset_of!`), never proved about it.
-/
namespace PyxisVerif.RustSem

/-- size and alignment of a field's type -/
structure Fld where
  size : Nat
  align : Nat
deriving Repr, DecidableEq, Inhabited

/-- the next multiple of `a` at or after `o` -/
def alignUp (o a : Nat) : Nat := if a = 0 then o else (o + a - 1) / a * a

/-- byte offset of every field of a `repr(C)` struct, in declaration order: each field goes to the
    next multiple of its alignment (of 1 when the struct is packed) -/
def offsets (packed : Bool) : Nat → List Fld → List Nat
  | _, [] => []
  | o, f :: fs =>
    let o' := if packed then o else alignUp o f.align
    o' :: offsets packed (o' + f.size) fs

/-- where the last field ends -/
def endOf (packed : Bool) : Nat → List Fld → Nat
  | o, [] => o
  | o, f :: fs =>
    let o' := if packed then o else alignUp o f.align
    endOf packed (o' + f.size) fs

def maxAlign (fs : List Fld) : Nat := fs.foldl (fun m f => max m f.align) 1

/-- alignment of the struct: packed → 1; otherwise the largest field alignment, raised to `align(N)` -/
def structAlign (packed : Bool) (alignAttr : Option Nat) (fs : List Fld) : Nat :=
  if packed then 1 else max (maxAlign fs) (alignAttr.getD 1)

/-- size of the struct: the end of the last field rounded up to the struct's alignment -/
def structSize (packed : Bool) (alignAttr : Option Nat) (fs : List Fld) : Nat :=
  alignUp (endOf packed 0 fs) (structAlign packed alignAttr fs)

end PyxisVerif.RustSem
