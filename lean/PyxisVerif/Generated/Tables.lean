/-!
# Tables regenerated from /repo/src on every run by `tools/extract.py`

DO NOT EDIT BY HAND – this file is overwritten before every `lake build`.
Sources: `src/semantic/semantic_state.rs` (predefined types, alignment rule),
`src/semantic/function.rs` (CallingConvention, as_str, from_str, default rule),
`src/semantic/type_definition/vftable.rs` (placeholder slot), format templates.
-/
namespace PyxisVerif.Gen

/-- `enum CallingConvention` -/
inductive CC where
  | C | Cdecl | Stdcall | Fastcall | Thiscall | Vectorcall | System
deriving Repr, DecidableEq, Inhabited

/-- every constructor, in declaration order -/
def CC.all : List CC := [.C, .Cdecl, .Stdcall, .Fastcall, .Thiscall, .Vectorcall, .System]

/-- `CallingConvention::as_str` -/
def CC.asStr : CC → String
  | .C => "C"
  | .Cdecl => "cdecl"
  | .Stdcall => "stdcall"
  | .Fastcall => "fastcall"
  | .Thiscall => "thiscall"
  | .Vectorcall => "vectorcall"
  | .System => "system"

/-- `impl FromStr for CallingConvention` -/
def CC.fromStr (s : String) : Option CC :=
  if s = "C" then some .C
  else if s = "cdecl" then some .Cdecl
  else if s = "stdcall" then some .Stdcall
  else if s = "fastcall" then some .Fastcall
  else if s = "thiscall" then some .Thiscall
  else if s = "vectorcall" then some .Vectorcall
  else if s = "system" then some .System
  else none

/-- default convention in `function::build`: with a receiver / without -/
def ccDefaultSelf : CC := .Thiscall
def ccDefaultNoSelf : CC := .System
/-- convention of the placeholder slots made by `make_padding_functions` -/
def ccPlaceholder : CC := .Thiscall

/-- `predefined_types` in `SemanticState::new`: (name, size) -/
def predefinedTypes : List (String × Nat) :=
  [("void", 0), ("bool", 1), ("u8", 1), ("u16", 2), ("u32", 4), ("u64", 8), ("u128", 16), ("i8", 1), ("i16", 2), ("i32", 4), ("i64", 8), ("i128", 16), ("f32", 4), ("f64", 8)]

/-- `let alignment = size.max(1);` -/
def predefinedAlign (size : Nat) : Nat := max size 1

/-- format templates -/
def fmtPaddingField (offsetHexLower : String) : String := "_field_" ++ offsetHexLower
def fmtPlaceholderFn (index : String) : String := "_vfunc_" ++ index
def fmtVftableType (name : String) : String := name ++ "Vftable"
/-- `s.strip_prefix("r#").unwrap_or(s)`: a raw identifier without its prefix -/
def unraw (s : String) : String := match s.toList with | 'r' :: '#' :: rest => String.ofList rest | _ => s
def fmtRenamed (base fn : String) : String := unraw base ++ "_" ++ unraw fn
def fmtExternGetter (name : String) : String := "get_" ++ unraw name
def fmtSizeCheck (name : String) : String := "_" ++ unraw name ++ "_size_check"
def vftableFieldName : String := "vftable"
def thisArgName : String := "this"

end PyxisVerif.Gen
