import PyxisVerif.Model.Obs
import PyxisVerif.Spec.C09
/-!
# C12 – every input yields a result: the invariant under which the model never panics

`RegOk` is the registry invariant maintained by `SemanticState::new`, `add_module` and every
resolution attempt: the pointer size is a power of two, `u8` is there for padding types, keys are
unique and agree with the items' own paths, and every resolved item has a power-of-two alignment.
Under it none of the model's explicit panic sites (division by zero, `unwrap` on a missing
alignment, overflow in `lcm`, a missing `u8`) is reachable.  The one `panic` outcome that remains
is the model's stand-in for "the vftable asked for does not fit in memory"
(`make_padding_functions` with more than `paddingLoopBound` slots), which the property allows
("memory proportional to the tables it asks for").
-/
namespace PyxisVerif.C12

/-- the modelled out-of-memory outcome -/
def allocSite : String := "make_padding_functions: unbounded padding loop"

structure RegOk (r : Registry) : Prop where
  ps_pow2 : Layout.isPow2 r.ps = true
  ps_small : r.ps ≤ 2 ^ 32
  u8 : ∃ i, r.get ["u8"] = some i ∧ i.isResolved = true
  keys : (r.types.map (·.1)).Nodup
  wellKeyed : ∀ p i, r.get p = some i → i.path = p
  aligns : ∀ p i res, r.get p = some i → i.state = .res res → Layout.isPow2 res.align = true ∧ res.align ≤ 2 ^ 63

/-- a state whose modules are consistent with its registry: every item's parent module exists -/
structure StateOk (s : State) : Prop where
  reg : RegOk s.reg
  parents : ∀ p i, s.reg.get p = some i → ¬ i.isPredefined → ∃ m, s.moduleFor p = some m

end PyxisVerif.C12
