import PyxisVerif.Model.Obs
import PyxisVerif.Lemmas.Worklist
/-!
# C09 / C10 / C19 – resolution as a scheduled worklist: the declarative side

`RegLe r r'`: `r'` is `r` after some more items have been resolved (same keys, same
definitions; unresolved entries may have become resolved, resolved ones never change).
This is the order along which every attempt is monotone.
-/
namespace PyxisVerif.C09

/-- `r'` extends `r`: same pointer size, same keys, and every entry is either unchanged or went
    from unresolved to resolved -/
structure RegLe (r r' : Registry) : Prop where
  ps : r.ps = r'.ps
  keys : ∀ p, r'.contains p = r.contains p
  entries : ∀ p i, r.get p = some i → ∃ i', r'.get p = some i' ∧ i'.vis = i.vis ∧ i'.path = i.path ∧ i'.cat = i.cat ∧
    (i'.state = i.state ∨ (i.isResolved = false ∧ i'.isResolved = true))

/-- everything a lookup of `name` in `scope` may inspect -/
def candidates (scope : List Path) (name : String) : List Path :=
  scope ++ [[name]] ++ scope.map (· ++ [name])

/-- the by-value dependencies of a type expression: what `Type::size` reads -/
def byValue : DTy → List Path
  | .raw p => [p]
  | .cptr _ => []
  | .mptr _ => []
  | .arr t _ => byValue t

/-- the rounds bound used by the model for the resolution loop -/
def roundsBound (s : State) : Nat := 2 * (s.reg.types.filter fun e => !e.2.isResolved).length + 2

end PyxisVerif.C09
