import PyxisVerif.Model.Emit
/-!
# C16 – calling conventions: the declarative side
-/
namespace PyxisVerif.C16
open Gen

/-- the string of the last `#[calling_convention("…")]` attribute, if any -/
def declaredCC (attrs : List G.Attr) : Option String :=
  attrs.foldl (fun acc a => match a with | .fn "calling_convention" [.str s] => some s | _ => acc) none

/-- the function has a `&self` / `&mut self` receiver -/
def hasReceiver (f : G.Func) : Bool :=
  f.args.any fun a => match a with | .named .. => false | _ => true

/-- the seven supported conventions, as the property text names them -/
def documented : List (String × CC) :=
  [("C", .C), ("cdecl", .Cdecl), ("stdcall", .Stdcall), ("fastcall", .Fastcall),
   ("thiscall", .Thiscall), ("vectorcall", .Vectorcall), ("system", .System)]

/-- **the property**: the convention of a function – the declared one if it is one of the seven
    names, `none` (= must be rejected) for any other name, and without the attribute `thiscall`
    with a receiver, `system` without -/
def specCC (f : G.Func) : Option CC :=
  match declaredCC f.attrs with
  | some s => documented.lookup s
  | none => some (if hasReceiver f then .Thiscall else .System)

end PyxisVerif.C16
