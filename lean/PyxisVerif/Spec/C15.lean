import PyxisVerif.Model.Emit
/-!
# C15 – singleton and extern-value accessors: the declarative side, and the *modelled* meaning of
the three emitted accessor shapes (what rustc's code does when they run)
-/
namespace PyxisVerif.C15

/-- last `#[singleton(A)]` / `#[address(A)]`, as written -/
def declInt (name : String) (attrs : List G.Attr) : Option Int :=
  attrs.foldl (fun acc a => match a with | .fn n [.int v] => if n = name then some v else acc | _ => acc) none

/-- memory: pointer-sized cells by address -/
abbrev Mem := Nat → Nat

/-- **modelled**: `let ptr: *mut Self = *(A as *mut *mut Self); ptr.as_mut()` – reads one pointer-sized
    cell at `A`; `none` iff it is null, else a reference to the address stored there -/
def execSingletonStruct (mem : Mem) (a : Nat) : Option Nat := if mem a = 0 then none else some (mem a)

/-- **modelled**: `*(A as *const Self)` – the value stored at `A` -/
def execSingletonEnum (mem : Mem) (a : Nat) : Nat := mem a

/-- **modelled**: `&mut *(A as *mut T)` – a reference to address `A` itself -/
def execExternValue (a : Nat) : Nat := a

end PyxisVerif.C15
