import PyxisVerif.Model.Emit
/-!
# C07 – base members are re-exposed on derived types: the declarative side
-/
namespace PyxisVerif.C07
open Gen

/-- `<field>_<name>`, built from the identifiers without a raw-identifier prefix (`r#`) -/
def renamed (base name : String) : String := unraw base ++ "_" ++ unraw name

/-- a base function that can be forwarded: public, and not one of the `_`-prefixed internal functions, which get no
    wrapper on the base itself (see the open finding C05/…/underscore-name) -/
def reexposable (f : SFunc) : Bool := f.vis == .pub && !f.isInternal

/-- **the property**, injection clause: re-exposing the public functions `fs` of base field `base` on a
    type whose member names so far are `used`: each keeps its own name, or becomes `<base>_<name>` when
    that name is taken, and forwards to the original on the base field -/
def specInject (base : String) : List String → List SFunc → List SFunc
  | _, [] => []
  | used, f :: fs =>
    if reexposable f then
      let name := if used.contains f.name then renamed base f.name else f.name
      { f with name := name, body := .field base f.name } :: specInject base (name :: used) fs
    else specInject base used fs

/-- names taken after an injection -/
def usedAfter (base : String) : List String → List SFunc → List String
  | used, [] => used
  | used, f :: fs =>
    if reexposable f then
      usedAfter base ((if used.contains f.name then renamed base f.name else f.name) :: used) fs
    else usedAfter base used fs

/-- **the property**, conversion clause: for the list `hier` of (field path, base type) pairs of a type's
    direct and transitive bases, a base type that occurs once gets an AsRef/AsMut pair along its field
    path, one that occurs more than once gets none (a marker constant instead) -/
def occurrences (hier : List (List String × RTy)) (ty : RTy) : Nat :=
  (hier.filter fun e => Emit.rtyStr e.2 == Emit.rtyStr ty).length

end PyxisVerif.C07
