import PyxisVerif.Spec.C01
/-!
# C02 – resolved size and alignment equal the compiler's: the declarative side

`primLayout` is the *modelled* compiler's table of primitive layouts for the two targets the
property names (`i686-pc-windows-msvc`, `x86_64-pc-windows-msvc`); it does not depend on the
pointer width.  `void` is not in it: pyxis maps `void` to `c_void` (size 1) but resolves it with
size 0, so `void` by value is outside the property's quantifier.
-/
namespace PyxisVerif.C02
open Layout

/-- (size, alignment) of the Rust primitive types on `{i686,x86_64}-pc-windows-msvc` -/
def primLayout : List (String × Nat × Nat) :=
  [("bool", 1, 1), ("u8", 1, 1), ("u16", 2, 2), ("u32", 4, 4), ("u64", 8, 8), ("u128", 16, 16),
   ("i8", 1, 1), ("i16", 2, 2), ("i32", 4, 4), ("i64", 8, 8), ("i128", 16, 16), ("f32", 4, 4), ("f64", 8, 8)]

/-- **modelled rustc**: size and alignment of an emitted type expression, given the layouts `lay`
    of the named items it mentions (pointers and function pointers are pointer-sized; arrays
    multiply; a named type has its item's layout) -/
def tyLayout (ps : Nat) (lay : Path → Option (Nat × Nat)) : DTy → Option (Nat × Nat)
  | .raw p => lay p
  | .cptr _ => some (ps, ps)
  | .mptr _ => some (ps, ps)
  | .arr t n => (tyLayout ps lay t).map fun sa => (sa.1 * n, sa.2)

def rtyLayout (ps : Nat) (lay : Path → Option (Nat × Nat)) : RTy → Option (Nat × Nat)
  | .data t => tyLayout ps lay t
  | .fn .. => some (ps, ps)

/-- the layouts pyxis recorded: what `lay` is instantiated with -/
def regLayout (reg : Registry) (p : Path) : Option (Nat × Nat) :=
  (reg.get p).bind fun i => i.resolved?.map fun r => (r.size, r.align)

end PyxisVerif.C02
