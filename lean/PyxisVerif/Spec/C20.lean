import PyxisVerif.Model.Emit
import PyxisVerif.Spec.C04
/-!
# C20 – equivalent descriptions produce identical bindings: the rewrites, as functions on the
inputs of the model's layout / vftable / enum code
-/
namespace PyxisVerif.C20
open Layout

/-- the `_: unknown<N>` gap field as the layout core sees it: `N` bytes, alignment 1, an array, unnamed -/
def gapField (r : Region) (n : Nat) : PField Region :=
  { addr := none, size := .ok (some n), align := some 1, isArr := true, val := r }

/-- an unnamed, non-base region whose type is the padding type `[u8; n]` -/
def IsGapRegion (reg : Registry) (r : Region) (n : Nat) : Prop :=
  r.name = none ∧ r.isBase = false ∧ ∃ t, reg.paddingType n = .ok t ∧ r.ty = .data t

/-- a virtual function given the index it already has -/
def withIndex (f : G.Func) (i : Nat) : G.Func := { f with attrs := f.attrs ++ [.fn "index" [.int i]] }

/-- one iteration of the slot loop of `convert_grammar_functions_to_semantic_functions` -/
def slotStep (reg : Registry) (scope : List Path) (out : List SFunc) (f : G.Func) : Res (List SFunc) :=
  match indexAttr f.attrs with
  | .ok idx =>
    match (match idx with
      | some i => if i < out.length then Res.err "vftable function is declared at an index that is already occupied" else makePadding out i
      | none => .ok out) with
    | .ok out1 =>
      match buildFunction reg scope true f with
      | .ok sf => .ok (out1 ++ [sf])
      | e => e.cast
    | e => e
  | e => e.cast

end PyxisVerif.C20
