import PyxisVerif.Model.Emit
/-!
# C14 / C15 – which items land in which file; accessors: the declarative side
-/
namespace PyxisVerif.C14

/-- the output path of a module: same relative path, `.rs` appended to the last segment -/
def specFile (key : Path) : String :=
  match key.getLast? with
  | none => ""
  | some last => "/".intercalate (key.dropLast ++ [last ++ ".rs"])

/-- names of the definitions a grammar module declares -/
def declaredNames (m : G.Module) : List String := m.defs.map (·.name) ++ m.xtypes.map (·.1)

end PyxisVerif.C14
