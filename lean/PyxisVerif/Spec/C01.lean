import PyxisVerif.Model.Emit
import PyxisVerif.Model.RustSem
/-!
# C01 / C02 – layout: the declarative side

`specOffsets` is the text of C01: "every field written with an explicit address sits at exactly
that byte offset, and every field written without an address starts exactly where the previous
field ends".  `toFld` hands a placed region to the *modelled* compiler (`RustSem`).
-/
namespace PyxisVerif.C01
open Layout

/-- the size the registry reports for a pending field (0 when unknown – never used then) -/
def fsize {β} (f : PField β) : Nat := match f.size with | .ok (some s) => s | _ => 0

/-- a field that is emitted: everything but zero-length arrays -/
def emitted {β} (f : PField β) : Bool := !(fsize f == 0 && f.isArr)

/-- **the property**: the offset of each source field – its address if written, else where the
    previous source field ends (the first one starts at `start`: 0, or after the vftable pointer) -/
def specOffsets {β} : Nat → List (PField β) → List Nat
  | _, [] => []
  | e, f :: fs => f.addr.getD e :: specOffsets (f.addr.getD e + fsize f) fs

/-- what the compiler is told about a region: its type's size and alignment -/
def toFld {β} (r : Placed β) : RustSem.Fld := ⟨r.size, r.align.getD 1⟩

/-- the source regions of a placed list with pyxis's running offsets -/
def sourceOffsets {β} (rs : List (Placed β)) : List (Nat × β) :=
  (offsets 0 rs).filterMap fun p => p.2.src.map fun v => (p.1, v)

end PyxisVerif.C01
