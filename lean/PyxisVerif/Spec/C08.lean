import PyxisVerif.Model.Emit
/-!
# C08 – enum discriminants, representation and default variant: the declarative side

Also contains the *modelled* (not pyxis) piece of rustc behaviour that the property mentions:
what `N as <int type>` evaluates to (`RustSem.cast`).
-/
namespace PyxisVerif.C08
open Gen

/-- the discriminants the description *says*: the written literal, else predecessor + 1, else 0 -/
def specValues : Int → List G.EnumStmt → List (String × Int)
  | _, [] => []
  | nxt, st :: rest =>
    let v := match st.expr with | some (.int v) => v | _ => nxt
    (st.name, v) :: specValues (v + 1) rest

def hasMarker (st : G.EnumStmt) : Bool := st.attrs.any (· == .ident "default")

/-- indices of the variants whose source statement carries `#[default]` -/
def markerIdxs (stmts : List G.EnumStmt) : List Nat :=
  (stmts.zipIdx.filter fun p => hasMarker p.1).map (·.2)

def isDefaultable (attrs : List G.Attr) : Bool := attrs.any (· == .ident "defaultable")

/-- the built-in integer types: name, signedness, bits -/
def intTypes : List (String × Bool × Nat) :=
  [("u8", false, 8), ("u16", false, 16), ("u32", false, 32), ("u64", false, 64), ("u128", false, 128),
   ("i8", true, 8), ("i16", true, 16), ("i32", true, 32), ("i64", true, 64), ("i128", true, 128)]

/-- the value range of an integer type *as the Rust compiler defines it* -/
def rustRange (signed : Bool) (bits : Nat) : Int × Int :=
  if signed then (-(2 ^ (bits - 1)), 2 ^ (bits - 1) - 1) else (0, 2 ^ bits - 1)

/-- **modelled rustc**: `v as T` for an integer type `T` – wrap modulo 2^bits into `T`'s range -/
def cast (signed : Bool) (bits : Nat) (v : Int) : Int :=
  let m := v % (2 ^ bits)
  if signed && m ≥ 2 ^ (bits - 1) then m - 2 ^ bits else m

/-- a value is representable in the type -/
def Fits (signed : Bool) (bits : Nat) (v : Int) : Prop :=
  (rustRange signed bits).1 ≤ v ∧ v ≤ (rustRange signed bits).2

end PyxisVerif.C08
