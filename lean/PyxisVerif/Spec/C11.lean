import PyxisVerif.Model.Emit
/-!
# C11 – type names bind to the definition the scoping rules select: the declarative side
-/
namespace PyxisVerif.C11

/-- **the property**: what a type name used in module `own` (with `use` entries `uses`) denotes, in order
    of precedence: the last `use path::Type` import whose last segment is the name; a built-in (any item
    of the root module); the type of that name in the same module; the type of that name in a module
    imported with `use path`, earlier imports first -/
def specBinding (r : Registry) (own : Path) (uses : List Path) (name : String) : Option Path :=
  let typeImports := uses.filter r.contains
  let modImports := uses.filter fun p => !r.contains p
  match (typeImports.filter fun p => p.getLast? == some name).getLast? with
  | some p => some p
  | none =>
    if r.contains [name] then some [name]
    else if r.contains (own ++ [name]) then some (own ++ [name])
    else (modImports.map (· ++ [name])).find? r.contains

end PyxisVerif.C11
