import PyxisVerif.Model.Emit
/-!
# C06 – derived vftables: the declarative side
-/
namespace PyxisVerif.C06
open Gen

/-- the components of a slot that the property lists: name, receiver and parameter types, return
    type, calling convention (pyxis compares whole function values, which is stronger) -/
def slotSig (f : SFunc) : String × List SArg × Option DTy × CC := (f.name, f.args, f.ret, f.cc)

/-- the pointer field a type gets when it owns its vftable -/
def ownPointer (vpath : Path) : Region :=
  { vis := .priv, name := some "vftable", doc := none, ty := .data (.cptr (.raw vpath)), isBase := false }

end PyxisVerif.C06
