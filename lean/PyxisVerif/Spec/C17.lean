import PyxisVerif.Model.Emit
/-!
# C17 – visibility, derives, packing and documentation: the declarative side
-/
namespace PyxisVerif.C17

/-- the doc comment lines written on an item, in order (each `/// text` is one `doc = "text"` attribute) -/
def docStrings (attrs : List G.Attr) : List String :=
  attrs.filterMap fun a => match a with | .assign "doc" (.str s) => some s | _ => none

/-- every `doc` attribute is a string literal (otherwise pyxis reports an error) -/
def docsAreStrings (attrs : List G.Attr) : Bool :=
  attrs.all fun a => match a with | .assign "doc" (.str _) => true | .assign "doc" _ => false | _ => true

def hasIdent (attrs : List G.Attr) (n : String) : Bool := attrs.any (· == .ident n)

/-- **the property**, derives clause: copyable ↦ Copy and Clone, cloneable ↦ Clone only, defaultable ↦ Default -/
def specDerives (attrs : List G.Attr) : List String :=
  (if hasIdent attrs "copyable" then ["Copy"] else []) ++
  (if hasIdent attrs "copyable" || hasIdent attrs "cloneable" then ["Clone"] else []) ++
  (if hasIdent attrs "defaultable" then ["Default"] else [])

end PyxisVerif.C17
