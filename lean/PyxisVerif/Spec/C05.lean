import PyxisVerif.Model.Emit
/-!
# C05 – address-bound wrappers: the declarative side
-/
namespace PyxisVerif.C05
open Gen

/-- the last `#[address(A)]` of a function, as written -/
def declAddress (f : G.Func) : Option Int :=
  f.attrs.foldl (fun acc a => match a with | .fn "address" [.int v] => some v | _ => acc) none

/-- the declared parameters, resolved: receiver stays a receiver, `name: T` keeps its name and gets the
    binding of `T`; `none` if some parameter type does not resolve -/
def specArgs (reg : Registry) (scope : List Path) : List G.Arg → Option (List SArg)
  | [] => some []
  | .constSelf :: rest => (specArgs reg scope rest).map (SArg.constSelf :: ·)
  | .mutSelf :: rest => (specArgs reg scope rest).map (SArg.mutSelf :: ·)
  | .named n t :: rest =>
    match reg.resolveTy scope t with
    | .ok t' => (specArgs reg scope rest).map (SArg.field n t' :: ·)
    | _ => none

/-- reading a hexadecimal numeral (upper- or lower-case digits), most significant digit first -/
def hexDigit (c : Char) : Option Nat :=
  if '0' ≤ c ∧ c ≤ '9' then some (c.toNat - '0'.toNat)
  else if 'a' ≤ c ∧ c ≤ 'f' then some (c.toNat - 'a'.toNat + 10)
  else if 'A' ≤ c ∧ c ≤ 'F' then some (c.toNat - 'A'.toNat + 10)
  else none

def readHex (cs : List Char) : Option Nat :=
  cs.foldl (fun acc c => match acc, hexDigit c with | some a, some d => some (a * 16 + d) | _, _ => none) (some 0)

end PyxisVerif.C05
