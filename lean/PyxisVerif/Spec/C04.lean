import PyxisVerif.Model.Emit
import PyxisVerif.Model.RustSem
/-!
# C04 – vftable slots: the declarative side
-/
namespace PyxisVerif.C04
open Gen

/-- the last `#[index(N)]` of a virtual function, as written -/
def declIndex (f : G.Func) : Option Int :=
  f.attrs.foldl (fun acc a => match a with | .fn "index" [.int i] => some i | _ => acc) none

/-- **the property**: the slot of each declared function – its index if written, otherwise the slot
    after its predecessor (0 for the first); `none` when a written index is negative or lies below
    the slots already taken (a contradiction, to be rejected) -/
def specPositions : Nat → List (Option Int) → Option (List Nat)
  | _, [] => some []
  | cur, none :: rest => (specPositions (cur + 1) rest).map (cur :: ·)
  | cur, some i :: rest =>
    if i < 0 then none
    else if i.toNat < cur then none
    else (specPositions (i.toNat + 1) rest).map (i.toNat :: ·)

/-- slots needed by the declared functions -/
def needed (pos : List Nat) : Nat := match pos.getLast? with | some p => p + 1 | none => 0

/-- length of the table: the declared size if given (it must not be smaller than needed), else what is needed -/
def specLength (size : Option Nat) (pos : List Nat) : Option Nat :=
  match size with
  | some n => if n < needed pos then none else some n
  | none => some (needed pos)

end PyxisVerif.C04
