import PyxisVerif.Model.Obs
/-!
# C03 – a type description is accepted exactly when it is realisable: the declarative side

`TypeSpec` is a single-type description reduced to what the property talks about: per field
an optional address, the size and alignment of its type, and whether the type is an array
(pyxis does not emit zero-length arrays, so they occupy no offset and are exempt from the
divisibility clause); whether the type owns a vftable pointer; the `size`, `align`, `packed`
attributes.  `Realisable` is the text of the property.  `verdict` runs *the model's own*
`Layout.resolve` and `Layout.alignCheck` – the functions `Model/Build.lean` executes for
every type – on the spec.
-/
namespace PyxisVerif.C03
open Layout

structure FieldSpec where
  addr : Option Nat
  size : Nat
  align : Nat
  isArray : Bool
deriving Repr, DecidableEq, Inhabited

structure TypeSpec where
  /-- the type owns a vftable pointer: first region, size = alignment = pointer size -/
  vft : Bool
  fields : List FieldSpec
  size? : Option Nat
  align? : Option Nat
  packed : Bool
deriving Repr, DecidableEq, Inhabited

/-! ## the code: verdict through the layout core -/

def FieldSpec.toPField (i : Nat) (f : FieldSpec) : PField Nat :=
  { addr := f.addr, size := .ok (some f.size), align := some f.align, isArr := f.isArray, val := i }

def vptrField (ps : Nat) : PField Nat :=
  { addr := none, size := .ok (some ps), align := some ps, isArr := false, val := 0 }

def pfields (t : TypeSpec) : List (PField Nat) :=
  t.fields.zipIdx.map fun p => p.1.toPField (p.2 + 1)

/-- `some (size, alignment)` = accepted; this is `resolve_regions` followed by the alignment block -/
def verdict (ps : Nat) (t : TypeSpec) : Res (Nat × Nat) :=
  match resolve (if t.vft then some (vptrField ps) else none) (pfields t) t.size? with
  | .ok (rs, size) =>
    match alignCheck ps t.packed t.align? rs size with
    | .ok a => .ok (size, a)
    | .defer => .defer
    | .err m => .err m
    | .panic s => .panic s
  | .defer => .defer
  | .err m => .err m
  | .panic s => .panic s

/-! ## the property: declarative realisability -/

/-- where the fields start: after the vftable pointer if the type owns one -/
def start (ps : Nat) (t : TypeSpec) : Nat := if t.vft then ps else 0

/-- offset of a field: its address if written, else where the previous field ends -/
def fieldOffset (prevEnd : Nat) (f : FieldSpec) : Nat := f.addr.getD prevEnd

/-- offsets are non-decreasing and fields do not overlap: every written address is at or
    after the end of the preceding field -/
def NonOverlap : Nat → List FieldSpec → Prop
  | _, [] => True
  | e, f :: fs => (∀ a, f.addr = some a → e ≤ a) ∧ NonOverlap (fieldOffset e f + f.size) fs

/-- where the last field ends -/
def naturalEnd : Nat → List FieldSpec → Nat
  | e, [] => e
  | e, f :: fs => naturalEnd (fieldOffset e f + f.size) fs

/-- a field that is emitted (zero-length arrays are not) -/
def FieldSpec.emitted (f : FieldSpec) : Bool := !(f.size == 0 && f.isArray)

/-- every emitted field sits at a multiple of its type's alignment -/
def FieldsDivisible : Nat → List FieldSpec → Prop
  | _, [] => True
  | e, f :: fs => (f.emitted = false ∨ fieldOffset e f % f.align = 0)
      ∧ FieldsDivisible (fieldOffset e f + f.size) fs

def totalSize (ps : Nat) (t : TypeSpec) : Nat := t.size?.getD (naturalEnd (start ps t) t.fields)

/-- number of regions the emitted struct has: vftable pointer, emitted fields, one padding
    region per non-empty gap, and the tail padding -/
def gapCount : Nat → List FieldSpec → Nat
  | _, [] => 0
  | e, f :: fs => (if e < fieldOffset e f then 1 else 0) + gapCount (fieldOffset e f + f.size) fs

def regionCount (ps : Nat) (t : TypeSpec) : Nat :=
  (if t.vft then 1 else 0) + (t.fields.filter (·.emitted)).length + gapCount (start ps t) t.fields +
    (if naturalEnd (start ps t) t.fields < totalSize ps t then 1 else 0)

/-- alignments of everything emitted besides padding -/
def emittedAligns (ps : Nat) (t : TypeSpec) : List Nat :=
  (if t.vft then [ps] else []) ++ (t.fields.filter (·.emitted)).map (·.align)

/-- the effective alignment: the `align` attribute, else the alignment of the sole member of a
    one-member struct (a lone padding region has alignment 1), else the pointer size -/
def effAlign (ps : Nat) (t : TypeSpec) : Nat :=
  match t.align? with
  | some a => a
  | none =>
    if regionCount ps t = 1 then
      match emittedAligns ps t with
      | [a] => a
      | _ => 1
    else ps

def IsPow2 (n : Nat) : Prop := ∃ k, n = 2 ^ k

/-- **The property.**  Non-overlapping non-decreasing offsets; declared size not exceeded (and
    then equal, by padding); packed types: no `align`; otherwise every emitted field at a
    multiple of its alignment, effective alignment a power of two not smaller than any
    member's alignment, total size a multiple of it. -/
def Realisable (ps : Nat) (t : TypeSpec) : Prop :=
  NonOverlap (start ps t) t.fields ∧
  (∀ ts, t.size? = some ts → naturalEnd (start ps t) t.fields ≤ ts) ∧
  (if t.packed then t.align? = none
   else FieldsDivisible (start ps t) t.fields
      ∧ IsPow2 (effAlign ps t)
      ∧ (∀ a ∈ emittedAligns ps t, a ≤ effAlign ps t)
      ∧ totalSize ps t % effAlign ps t = 0)

/-! ## executable version of the property (used as the oracle on the implementation) -/

def nonOverlapB : Nat → List FieldSpec → Bool
  | _, [] => true
  | e, f :: fs => (match f.addr with | some a => decide (e ≤ a) | none => true)
      && nonOverlapB (fieldOffset e f + f.size) fs

def fieldsDivisibleB : Nat → List FieldSpec → Bool
  | _, [] => true
  | e, f :: fs => (f.emitted == false || fieldOffset e f % f.align == 0)
      && fieldsDivisibleB (fieldOffset e f + f.size) fs

/-- `n` is a power of two -/
def isPow2B (n : Nat) : Bool := Layout.isPow2 n

def realisableB (ps : Nat) (t : TypeSpec) : Bool :=
  nonOverlapB (start ps t) t.fields &&
  (match t.size? with | some ts => decide (naturalEnd (start ps t) t.fields ≤ ts) | none => true) &&
  (if t.packed then t.align?.isNone
   else fieldsDivisibleB (start ps t) t.fields
      && isPow2B (effAlign ps t)
      && (emittedAligns ps t).all (fun a => decide (a ≤ effAlign ps t))
      && totalSize ps t % effAlign ps t == 0)

/-! ## reading a `TypeSpec` off a case (single module, one type, no bases / impls) -/

/-- the field view of a grammar statement in the registry of built-ins -/
def fieldSpecOf (reg : Registry) (scope : List Path) (st : G.Stmt) : Option FieldSpec :=
  match st.field with
  | .field _ _ ty =>
    match reg.resolveTy scope ty with
    | .ok t =>
      match t.size reg, t.align reg with
      | .ok (some s), some a =>
        let addr := st.attrs.foldl (fun acc att => match att with
          | .fn "address" [.int v] => if 0 ≤ v then some v.toNat else acc
          | _ => acc) none
        some { addr, size := s, align := a, isArray := t.isArray }
      | _, _ => none
    | _ => none
  | .vftable _ => none

def natAttr (name : String) (attrs : List G.Attr) : Option Nat :=
  attrs.foldl (fun acc att => match att with
    | .fn n [.int v] => if n == name && 0 ≤ v then some v.toNat else acc
    | _ => acc) none

/-- `some spec` when the case is in C03's fragment: one module, one type definition, fields over
    built-ins / pointers / arrays / `unknown<N>`, an optional *empty* vftable block first, only the
    attributes `size`, `align`, `packed`, `address`, all non-negative -/
def specOfCase (c : Case) : Option (Nat × TypeSpec) :=
  match c.modules with
  | [.ast path _ m] =>
    match m.defs, m.impls, m.xtypes with
    | [d], [], [] =>
      match d.inner with
      | .type td =>
        let reg := (State.new c.ps).reg
        let scope := [path]
        let (vft, stmts) := match td.stmts with
          | { field := .vftable [], attrs := [] } :: rest => (true, rest)
          | all => (false, all)
        match stmts.mapM (fieldSpecOf reg scope) with
        | some fields =>
          some (c.ps, { vft, fields, size? := natAttr "size" td.attrs, align? := natAttr "align" td.attrs,
                        packed := td.attrs.any (· == .ident "packed") })
        | none => none
      | .enum _ => none
    | _, _, _ => none
  | _ => none

end PyxisVerif.C03
