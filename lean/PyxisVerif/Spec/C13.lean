import PyxisVerif.Model.Emit
import PyxisVerif.Spec.C17
/-!
# C13 – the emitted files form a crate that type-checks: the conditions rustc imposes on what
pyxis emits, as far as they are consequences of pyxis's own acceptance checks

Whether rustc accepts a crate is decided by rustc (the check compiles the implementation's output
with the real compiler on every run).  What can be proved about pyxis is that acceptance implies
the *preconditions* of the compiler errors that pyxis's output could otherwise run into:
E0124 (duplicate field), E0081 / E0084 / E0428 (enum cases), E0589 (alignment not a power of two),
E0204 / E0277 (derive not satisfiable), E0412 / E0433 (unresolved path), E0424 (wrapper without
receiver), E0512 (size check; C02).
-/
namespace PyxisVerif.C13

/-- the item paths a resolved type expression mentions -/
def rawPaths : DTy → List Path
  | .raw p => [p]
  | .cptr t => rawPaths t
  | .mptr t => rawPaths t
  | .arr t _ => rawPaths t

def hasReceiver (f : G.Func) : Bool := f.args.any fun a => match a with | .named .. => false | _ => true

end PyxisVerif.C13
