/-!
# S-expressions (PROTOCOL.md §1)

Reader and writer shared by the model driver.  Import-free (core only) so that the
driver links as a `lean_exe`.
-/
namespace PyxisVerif

inductive Sexp where
  | int (z : Int)
  | sym (s : String)
  | str (s : String)
  | list (xs : List Sexp)
deriving Repr, Inhabited

namespace Sexp

/-! ## writer -/

def hexDigit (n : Nat) : Char :=
  if n < 10 then Char.ofNat (48 + n) else Char.ofNat (55 + n)

def escapeByte (b : UInt8) : List Char :=
  let n := b.toNat
  if n = 34 then ['\\', '"']
  else if n = 92 then ['\\', '\\']
  else if 32 ≤ n ∧ n ≤ 126 then [Char.ofNat n]
  else ['\\', 'x', hexDigit (n / 16), hexDigit (n % 16)]

def escapeString (s : String) : String :=
  String.ofList (s.toUTF8.toList.flatMap escapeByte)

mutual
  partial def toStringAux : Sexp → String
    | .int z => toString z
    | .sym s => s
    | .str s => "\"" ++ escapeString s ++ "\""
    | .list xs => "(" ++ joinAux xs ++ ")"
  partial def joinAux : List Sexp → String
    | [] => ""
    | [x] => toStringAux x
    | x :: xs => toStringAux x ++ " " ++ joinAux xs
end

instance : ToString Sexp := ⟨toStringAux⟩

/-! ## reader -/

inductive Tok where
  | lp | rp
  | atom (s : Sexp)
deriving Inhabited

def hexVal (c : Char) : Option Nat :=
  if '0' ≤ c ∧ c ≤ '9' then some (c.toNat - 48)
  else if 'a' ≤ c ∧ c ≤ 'f' then some (c.toNat - 87)
  else if 'A' ≤ c ∧ c ≤ 'F' then some (c.toNat - 55)
  else none

/-- read the body of a string literal (after the opening quote); returns bytes and the rest -/
def readStr : List Char → List UInt8 → Option (List UInt8 × List Char)
  | [], _ => none
  | '"' :: rest, acc => some (acc.reverse, rest)
  | '\\' :: '"' :: rest, acc => readStr rest (34 :: acc)
  | '\\' :: '\\' :: rest, acc => readStr rest (92 :: acc)
  | '\\' :: 'n' :: rest, acc => readStr rest (10 :: acc)
  | '\\' :: 'r' :: rest, acc => readStr rest (13 :: acc)
  | '\\' :: 't' :: rest, acc => readStr rest (9 :: acc)
  | '\\' :: 'x' :: a :: b :: rest, acc =>
    match hexVal a, hexVal b with
    | some x, some y => readStr rest (UInt8.ofNat (x * 16 + y) :: acc)
    | _, _ => none
  | '\\' :: _, _ => none
  | c :: rest, acc => readStr rest ((String.singleton c).toUTF8.toList.reverse ++ acc)

def bytesToString (bs : List UInt8) : String :=
  match String.fromUTF8? (ByteArray.mk bs.toArray) with
  | some s => s
  | none => String.ofList (bs.map fun b => Char.ofNat b.toNat)

def isSymStart (c : Char) : Bool := c.isAlpha || c == '_'
def isSymCont (c : Char) : Bool := c.isAlphanum || c == '_' || c == '-'

def digitsVal (cs : List Char) : Nat := cs.foldl (fun acc c => acc * 10 + (c.toNat - 48)) 0

def tokenize : Nat → List Char → List Tok → Option (List Tok)
  | 0, _, _ => none
  | _, [], acc => some acc.reverse
  | fuel+1, c :: cs, acc =>
    if c == ' ' || c == '\t' || c == '\n' || c == '\r' then tokenize fuel cs acc
    else if c == '(' then tokenize fuel cs (.lp :: acc)
    else if c == ')' then tokenize fuel cs (.rp :: acc)
    else if c == '"' then
      match readStr cs [] with
      | some (bs, rest) => tokenize fuel rest (.atom (.str (bytesToString bs)) :: acc)
      | none => none
    else if c == '-' then
      let ds := cs.takeWhile Char.isDigit
      if ds.isEmpty then none
      else tokenize fuel (cs.dropWhile Char.isDigit) (.atom (.int (-(digitsVal ds : Int))) :: acc)
    else if c.isDigit then
      let ds := (c :: cs).takeWhile Char.isDigit
      tokenize fuel ((c :: cs).dropWhile Char.isDigit) (.atom (.int (digitsVal ds)) :: acc)
    else if isSymStart c then
      let w := (c :: cs).takeWhile isSymCont
      tokenize fuel ((c :: cs).dropWhile isSymCont) (.atom (.sym (String.ofList w)) :: acc)
    else none

/-- stack-based parser: `stack` holds the reversed contents of the open lists -/
def parseToks : List Tok → List (List Sexp) → List Sexp → Option (List Sexp)
  | [], [], top => some top.reverse
  | [], _ :: _, _ => none
  | .lp :: ts, stack, top => parseToks ts (top :: stack) []
  | .rp :: ts, parent :: stack, top => parseToks ts stack (.list top.reverse :: parent)
  | .rp :: _, [], _ => none
  | .atom a :: ts, stack, top => parseToks ts stack (a :: top)

/-- parse one line holding exactly one S-expression -/
def parse (line : String) : Option Sexp :=
  let cs := line.toList
  match tokenize (cs.length + 1) cs [] with
  | none => none
  | some toks =>
    match parseToks toks [] [] with
    | some [x] => some x
    | _ => none

/-! ## accessors used by decoders -/

def asList? : Sexp → Option (List Sexp) | .list xs => some xs | _ => none
def asStr? : Sexp → Option String | .str s => some s | _ => none
def asSym? : Sexp → Option String | .sym s => some s | _ => none
def asInt? : Sexp → Option Int | .int z => some z | _ => none
def asNat? : Sexp → Option Nat | .int z => if 0 ≤ z then some z.toNat else none | _ => none

/-- `(tag a b c)` → `some [a,b,c]` when the head symbol is `tag` -/
def tagged? (tag : String) : Sexp → Option (List Sexp)
  | .list (.sym t :: rest) => if t == tag then some rest else none
  | _ => none

def head? : Sexp → Option String
  | .list (.sym t :: _) => some t
  | .sym t => some t
  | _ => none

/-- constructors -/
def mk (tag : String) (xs : List Sexp) : Sexp := .list (.sym tag :: xs)
def ofNat (n : Nat) : Sexp := .int n
def ofBool (b : Bool) : Sexp := .int (if b then 1 else 0)
def ofOpt {α} (f : α → Sexp) : Option α → Sexp
  | none => .sym "none"
  | some a => .list [.sym "some", f a]

def toOpt? {α} (f : Sexp → Option α) : Sexp → Option (Option α)
  | .sym "none" => some none
  | .list [.sym "some", x] => (f x).map some
  | _ => none

end Sexp
end PyxisVerif
