import PyxisVerif.Spec.C09
import PyxisVerif.Lemmas.C05
import PyxisVerif.Lemmas.C06
import PyxisVerif.Lemmas.C14
import PyxisVerif.Lemmas.C20
/-! helper lemmas for C10 -/
namespace PyxisVerif.C10
open C09

/-! ## lists -/

theorem nodup_subset_length {α} [DecidableEq α] (l1 l2 : List α) (hn : l1.Nodup) (hs : ∀ x ∈ l1, x ∈ l2) :
    l1.length ≤ l2.length := by
  induction l1 generalizing l2 with
  | nil => simp
  | cons a t ih =>
    rw [List.nodup_cons] at hn
    have ha : a ∈ l2 := hs a List.mem_cons_self
    have := ih (l2.erase a) hn.2 (fun x hx => by
      have hne : x ≠ a := fun e => hn.1 (e ▸ hx)
      exact (List.mem_erase_of_ne hne).mpr (hs x (List.mem_cons_of_mem _ hx)))
    rw [List.length_erase_of_mem ha] at this
    have : 0 < l2.length := List.length_pos_of_mem ha
    simp only [List.length_cons]; omega

theorem nodup_subset_perm {α} [DecidableEq α] (l1 l2 : List α) (hn : l1.Nodup) (hs : ∀ x ∈ l1, x ∈ l2)
    (hl : l2.length ≤ l1.length) : l1.Perm l2 := by
  induction l1 generalizing l2 with
  | nil =>
    have : l2 = [] := by simpa using hl
    subst this; exact List.Perm.refl _
  | cons a t ih =>
    rw [List.nodup_cons] at hn
    have ha : a ∈ l2 := hs a List.mem_cons_self
    have hpos : 0 < l2.length := List.length_pos_of_mem ha
    have := ih (l2.erase a) hn.2 (fun x hx => by
      have hne : x ≠ a := fun e => hn.1 (e ▸ hx)
      exact (List.mem_erase_of_ne hne).mpr (hs x (List.mem_cons_of_mem _ hx)))
      (by rw [List.length_erase_of_mem ha]; simp only [List.length_cons] at hl; omega)
    exact (List.Perm.cons a this).trans (List.perm_cons_erase ha).symm

theorem nodup_subset_lt {α} [DecidableEq α] (l1 l2 : List α) (hn : l1.Nodup) (hs : ∀ x ∈ l1, x ∈ l2)
    (o : α) (ho : o ∈ l2) (hno : o ∉ l1) : l1.length < l2.length := by
  have := nodup_subset_length (o :: l1) l2 (List.nodup_cons.mpr ⟨hno, hn⟩) (by
    intro x hx; rcases List.mem_cons.mp hx with rfl | hx
    · exact ho
    · exact hs x hx)
  simp only [List.length_cons] at this; omega

/-! ## outcomes -/

/-- a successful fold ran its step successfully on every element -/
theorem foldlM_ok_all {α β} (f : β → α → Res β) (l : List α) (b b' : β) (h : Res.foldlM f b l = .ok b') :
    ∀ x ∈ l, ∃ a a', f a x = .ok a' := by
  induction l generalizing b with
  | nil => intro x hx; cases hx
  | cons y l ih =>
    obtain ⟨b1, h1, h2⟩ := C14.foldlM_cons_ok f b b' y l h
    intro x hx
    rcases List.mem_cons.mp hx with rfl | hx
    · exact ⟨b, b1, h1⟩
    · exact ih b1 h2 x hx

/-- a successful `collect` mapped every element successfully -/
theorem mapM'_ok_all {α β} (f : α → Res β) (l : List α) (l' : List β) (h : Res.mapM' f l = .ok l') :
    ∀ x ∈ l, ∃ y, f x = .ok y := by
  induction l generalizing l' with
  | nil => intro x hx; cases hx
  | cons a as ih =>
    unfold Res.mapM' at h
    split at h
    · next b hb =>
      split at h
      · next bs hbs =>
        intro x hx
        rcases List.mem_cons.mp hx with rfl | hx
        · exact ⟨b, hb⟩
        · exact ih bs hbs x hx
      all_goals cases h
    all_goals cases h

/-- if no element panics or defers and one is an error, the `collect` is an error -/
theorem mapM'_err {α β} (f : α → Res β) (l : List α)
    (hnp : ∀ y ∈ l, (∃ b, f y = .ok b) ∨ ∃ m, f y = .err m)
    (x : α) (hx : x ∈ l) (hxe : ∃ m, f x = .err m) : ∃ m, Res.mapM' f l = .err m := by
  induction l with
  | nil => cases hx
  | cons a as ih =>
    unfold Res.mapM'
    rcases hnp a List.mem_cons_self with ⟨b, hb⟩ | ⟨m, hm⟩
    · rw [hb]
      simp only
      rcases List.mem_cons.mp hx with rfl | hx'
      · obtain ⟨m, hm⟩ := hxe; rw [hb] at hm; cases hm
      · obtain ⟨m, hm⟩ := ih (fun y hy => hnp y (List.mem_cons_of_mem _ hy)) hx'
        rw [hm]; exact ⟨m, rfl⟩
    · rw [hm]; exact ⟨m, rfl⟩

/-! ## the statement loop of `type_definition::build` -/

theorem mem_swapped_zipIdx {α} (l : List α) (x : α) (hx : x ∈ l) :
    ∃ idx, (idx, x) ∈ l.zipIdx.map fun p => (p.2, p.1) := by
  obtain ⟨i, hi⟩ := List.mem_iff_getElem?.mp hx
  refine ⟨i, List.mem_map.mpr ⟨(x, i), ?_, rfl⟩⟩
  rw [List.mem_zipIdx_iff_getElem?]
  exact hi

/-- a field whose type does not resolve never lets the statement step succeed -/
theorem stmtStep_field_defer (reg : Registry) (scope : List Path) (acc acc' : StmtAcc) (idx : Nat) (st : G.Stmt)
    (v : Vis) (n : String) (t : G.Ty) (hf : st.field = .field v n t) (hu : reg.resolveTy scope t = .defer)
    (h : stmtStep reg scope acc (idx, st) = .ok acc') : False := by
  unfold stmtStep at h
  simp only [hf, hu] at h
  split at h
  · cases h
  · split at h
    · split at h
      · cases h
      · simp [Res.cast] at h
    · exact C14.cast_ne_ok _ _ h

theorem stmts_fold_field_defer (reg : Registry) (scope : List Path) (stmts : List G.Stmt) (st : G.Stmt)
    (hst : st ∈ stmts) (v : Vis) (n : String) (t : G.Ty) (hf : st.field = .field v n t)
    (hu : reg.resolveTy scope t = .defer) (sa : StmtAcc)
    (hsa : Res.foldlM (stmtStep reg scope) {} (stmts.zipIdx.map fun p => (p.2, p.1)) = .ok sa) : False := by
  obtain ⟨idx, hidx⟩ := mem_swapped_zipIdx stmts st hst
  obtain ⟨a, a', ha⟩ := foldlM_ok_all _ _ _ _ hsa _ hidx
  exact stmtStep_field_defer reg scope a a' idx st v n t hf hu ha

/-! ## extern values -/

/-- the conversion applied to every extern value by `resolve_extern_values` -/
def xvStep (reg : Registry) (m : Mod) (ev : XValue) : Res XValue :=
  match reg.resolveTy m.scope ev.gty with
  | .ok t => Res.ok { ev with ty := some t }
  | .defer => .err "failed to resolve type for extern value"
  | e => e.cast

theorem resolveXVals_eq (reg : Registry) (m : Mod) :
    resolveXVals reg m = (match Res.mapM' (xvStep reg m) m.xvals with
      | .ok xvals => .ok { m with xvals }
      | e => e.cast) := rfl

theorem cast_isOk {α β} (e : Res α) : (e.cast : Res β).isOk = false := by
  cases e <;> rfl

theorem resolveXVals_not_ok (reg : Registry) (m : Mod) (x : XValue) (hx : x ∈ m.xvals)
    (hu : reg.resolveTy m.scope x.gty = .defer) : (resolveXVals reg m).isOk = false := by
  rw [resolveXVals_eq]
  split
  · next xvals h =>
    obtain ⟨y, hy⟩ := mapM'_ok_all _ _ _ h x hx
    simp [xvStep, hu] at hy
  · exact cast_isOk _

theorem resolveXVals_err (reg : Registry) (m : Mod) (x : XValue) (hx : x ∈ m.xvals)
    (hu : reg.resolveTy m.scope x.gty = .defer)
    (hnp : ∀ y ∈ m.xvals, ∀ site, reg.resolveTy m.scope y.gty ≠ .panic site) :
    ∃ msg, resolveXVals reg m = .err msg := by
  rw [resolveXVals_eq]
  obtain ⟨msg, hmsg⟩ := mapM'_err (xvStep reg m) m.xvals (by
    intro y hy
    unfold xvStep
    cases hr : reg.resolveTy m.scope y.gty with
    | ok t => exact Or.inl ⟨_, rfl⟩
    | defer => exact Or.inr ⟨_, rfl⟩
    | err e => exact Or.inr ⟨e, rfl⟩
    | panic site => exact absurd hr (hnp y hy site)) x hx
    ⟨"failed to resolve type for extern value", by simp [xvStep, hu]⟩
  rw [hmsg]
  exact ⟨msg, rfl⟩

/-! ## the registry along a round -/

theorem lookup_isSome_iff {α β} [BEq α] [LawfulBEq α] (l : List (α × β)) (q : α) :
    (List.lookup q l).isSome = true ↔ q ∈ l.map (·.1) := by
  induction l with
  | nil => simp
  | cons e l ih =>
    obtain ⟨k, v⟩ := e
    rw [List.lookup_cons]
    by_cases h : q = k
    · subst h; simp
    · have : (q == k) = false := by simpa using h
      simp [this, ih, h]

/-- removing the entries of one key from a duplicate-free association list removes exactly one entry -/
theorem filter_ne_length {α β} [BEq α] [LawfulBEq α] (l : List (α × β)) (k : α)
    (hn : (l.map (·.1)).Nodup) (hk : k ∈ l.map (·.1)) :
    (l.filter fun e => e.1 != k).length + 1 = l.length := by
  induction l with
  | nil => simp at hk
  | cons e l ih =>
    obtain ⟨k', v⟩ := e
    simp only [List.map_cons, List.nodup_cons] at hn
    by_cases h : k' = k
    · subst h
      have hall : ∀ a ∈ l, (a.1 != k') = true := by
        intro a ha
        have : a.1 ≠ k' := fun e => hn.1 (e ▸ List.mem_map.mpr ⟨a, ha, rfl⟩)
        simpa using this
      simp [List.filter_eq_self.mpr hall]
    · have hk' : k ∈ l.map (·.1) := by
        simp only [List.map_cons, List.mem_cons] at hk
        rcases hk with hk | hk
        · exact absurd hk.symm h
        · exact hk
      have hne : (k' != k) = true := by simpa using h
      simp only [List.filter_cons, hne, if_true, List.length_cons]
      have := ih hn.2 hk'
      omega

/-- the keys of the registry, in registry order -/
def keys (r : Registry) : List Path := r.types.map (·.1)

/-- the unresolved, not predefined entries, in registry order -/
def ulist (r : Registry) : List Path :=
  (r.types.filter fun e => !e.2.isPredefined && !e.2.isResolved).map (·.1)

theorem unresolved_eq (r : Registry) (prio : List Path) :
    r.unresolved prio = (ulist r).mergeSort (prioLe prio) := rfl

theorem contains_iff_mem_keys (r : Registry) (q : Path) : r.contains q = true ↔ q ∈ keys r :=
  lookup_isSome_iff r.types q

theorem ulist_nodup (r : Registry) (hn : (keys r).Nodup) : (ulist r).Nodup :=
  List.Nodup.sublist (List.filter_sublist.map _) hn

/-- what one attempt (and hence a round over the items `l`) does to the registry: keys stay
    duplicate-free and are never removed, no entry becomes unresolved, and if the number of entries
    changed then the generated vftable item of one of the attempted items was registered under a new key -/
structure Prog (r r' : Registry) (l : List Path) : Prop where
  nodup : (keys r').Nodup
  mono : ∀ q, r.contains q = true → r'.contains q = true
  sub : ∀ q, q ∈ ulist r' → q ∈ ulist r
  len : r'.types.length = r.types.length ∨
    ∃ o ∈ l, ∃ q, vftablePath o = some q ∧ r.contains q = false ∧ r'.contains q = true

theorem Prog.refl (r : Registry) (l : List Path) (hn : (keys r).Nodup) : Prog r r l :=
  ⟨hn, fun _ h => h, fun _ h => h, Or.inl rfl⟩

theorem Prog.weaken {r r' : Registry} {l l' : List Path} (h : Prog r r' l) (hl : ∀ o ∈ l, o ∈ l') :
    Prog r r' l' := by
  refine ⟨h.nodup, h.mono, h.sub, ?_⟩
  rcases h.len with h | ⟨o, ho, q, hq⟩
  · exact Or.inl h
  · exact Or.inr ⟨o, hl o ho, q, hq⟩

theorem Prog.trans {r r1 r2 : Registry} {l : List Path} (h1 : Prog r r1 l) (h2 : Prog r1 r2 l) :
    Prog r r2 l := by
  refine ⟨h2.nodup, fun q h => h2.mono q (h1.mono q h), fun q h => h1.sub q (h2.sub q h), ?_⟩
  rcases h1.len with e1 | ⟨o, ho, q, hq, hc, hc1⟩
  · rcases h2.len with e2 | ⟨o, ho, q, hq, hc, hc2⟩
    · exact Or.inl (e2.trans e1)
    · refine Or.inr ⟨o, ho, q, hq, ?_, hc2⟩
      cases hr : r.contains q with
      | false => rfl
      | true => rw [h1.mono q hr] at hc; cases hc
  · exact Or.inr ⟨o, ho, q, hq, hc, h2.mono q hc1⟩

theorem keys_add (r : Registry) (i : ItemDef) :
    keys (r.add i) = i.path :: (keys r).filter (· != i.path) := by
  simp only [keys, Registry.add, List.map_cons, List.filter_map]
  rfl

theorem add_prog (r : Registry) (item : ItemDef) (p : Path) (hn : (keys r).Nodup)
    (hres : item.isResolved = true) (hp : vftablePath p = some item.path)
    (hex : r.get item.path = none ∨ r.get item.path = some item) : Prog r (r.add item) [p] := by
  refine ⟨?_, ?_, ?_, ?_⟩
  · rw [keys_add, List.nodup_cons]
    refine ⟨by simp, List.Nodup.sublist List.filter_sublist hn⟩
  · intro q hq
    exact (C14.contains_add r item q).mpr (Or.inl hq)
  · intro q hq
    simp only [ulist, Registry.add, List.filter_cons, hres, Bool.not_true, Bool.and_false,
      Bool.false_eq_true, if_false, List.mem_map, List.mem_filter] at hq ⊢
    obtain ⟨e, ⟨⟨he, _⟩, hf⟩, rfl⟩ := hq
    exact ⟨e, ⟨he, hf⟩, rfl⟩
  · rcases hex with hnone | hsome
    · refine Or.inr ⟨p, List.mem_singleton.mpr rfl, item.path, hp, ?_, ?_⟩
      · simp [Registry.contains, hnone]
      · exact (C14.contains_add r item item.path).mpr (Or.inr rfl)
    · left
      have hk : item.path ∈ keys r := (contains_iff_mem_keys r item.path).mp (by simp [Registry.contains, hsome])
      have := filter_ne_length r.types item.path hn hk
      simp only [Registry.add, List.length_cons]
      exact this

theorem keys_setState (r : Registry) (p : Path) (x : IState) : keys (r.setState p x) = keys r := by
  simp only [keys, Registry.setState, List.map_map]
  apply List.map_congr_left
  intro e _
  simp only [Function.comp]
  split <;> rfl

theorem setState_prog (r : Registry) (p : Path) (x : Resolved) (l : List Path) (hn : (keys r).Nodup) :
    Prog r (r.setState p (.res x)) l := by
  refine ⟨by rw [keys_setState]; exact hn, ?_, ?_, Or.inl (by simp [Registry.setState])⟩
  · intro q hq
    rw [contains_iff_mem_keys] at hq ⊢
    rw [keys_setState]; exact hq
  · intro q hq
    simp only [ulist, Registry.setState, List.mem_map, List.mem_filter] at hq ⊢
    obtain ⟨e', ⟨⟨e, he, rfl⟩, hf⟩, rfl⟩ := hq
    by_cases hk : (e.1 == p) = true
    · simp [hk, ItemDef.isResolved, ItemDef.resolved?] at hf
    · simp only [hk] at hf ⊢
      exact ⟨e, ⟨he, hf⟩, rfl⟩

/-! ## which states an attempt can reach -/

/-- the only way a build step changes the state: the generated vftable item of `owner` is added, and
    the key it is added under was free or already held that very item -/
def Reach (s s1 : State) (owner : Path) : Prop :=
  s1 = s ∨ ∃ item, vftablePath owner = some item.path ∧ item.isResolved = true ∧
    (s.reg.get item.path = none ∨ s.reg.get item.path = some item) ∧ s.addItem item = .ok s1

theorem buildVftable_reach (s : State) (owner : Path) (vis : Vis) (fb : Option Region)
    (vfns : Option (List SFunc)) : Reach s (buildVftable s owner vis fb vfns).1 owner := by
  cases vfns with
  | none => exact Or.inl rfl
  | some fns =>
    cases hi : buildVftableItem s.reg owner vis fns with
    | none => left; unfold buildVftable; simp only [hi]
    | some item =>
      have hitem : vftablePath owner = some item.path ∧ item.isResolved = true := by
        unfold buildVftableItem at hi
        obtain ⟨q, hq, rfl⟩ := Option.map_eq_some_iff.mp hi
        exact ⟨hq, rfl⟩
      cases hc : (match s.reg.get item.path with | some e => e != item | none => false) with
      | true =>
        left; unfold buildVftable; simp only [hi]
        rw [if_pos (by exact hc)]
      | false =>
        cases ha : s.addItem item with
        | ok s1 =>
          rw [C06.buildVftable_eq s s1 owner vis fb fns item hi hc ha]
          refine Or.inr ⟨item, hitem.1, hitem.2, ?_, ha⟩
          cases hg : s.reg.get item.path with
          | none => exact Or.inl rfl
          | some ex =>
            rw [hg] at hc
            simp only [bne_eq_false_iff_eq] at hc
            exact Or.inr (by rw [hc])
        | defer =>
          left; unfold buildVftable; simp only [hi, ha]
          rw [if_neg (by rw [Bool.not_eq_true]; exact hc)]
        | err m =>
          left; unfold buildVftable; simp only [hi, ha]
          rw [if_neg (by rw [Bool.not_eq_true]; exact hc)]
        | panic m =>
          left; unfold buildVftable; simp only [hi, ha]
          rw [if_neg (by rw [Bool.not_eq_true]; exact hc)]

theorem resolveRegions_reach (s : State) (owner : Path) (vis : Vis) (target : Option Nat)
    (pending : List (Option Nat × Region)) (vfns : Option (List SFunc)) :
    Reach s (resolveRegions s owner vis target pending vfns).1 owner := by
  unfold resolveRegions
  simp only []
  split
  · exact Or.inl rfl
  · exact Or.inl rfl
  · exact Or.inl rfl
  · exact Or.inl rfl
  · split
    · next s1 vft vregion hb =>
      have := buildVftable_reach s owner vis ((pending.map (·.2)).find? (·.isBase)) vfns
      rw [hb] at this; exact this
    · next s1 e _ hb =>
      have := buildVftable_reach s owner vis ((pending.map (·.2)).find? (·.isBase)) vfns
      rw [hb] at this; exact this

theorem buildType_reach (s : State) (path : Path) (vis : Vis) (d : G.TypeDef) :
    Reach s (buildType s path vis d).1 path := by
  unfold buildType
  split
  · exact Or.inl rfl
  · split
    · exact Or.inl rfl
    · split
      · next ta _ =>
        split
        · next sa _ =>
          split
          · next s1 regions vft size placed hrr =>
            have := resolveRegions_reach s path vis ta.targetSize sa.pending sa.vfns
            rw [hrr] at this; exact this
          · next s1 e _ hrr =>
            have := resolveRegions_reach s path vis ta.targetSize sa.pending sa.vfns
            rw [hrr] at this; exact this
        · exact Or.inl rfl
      · exact Or.inl rfl

theorem Reach.prog {s s1 : State} {p : Path} (h : Reach s s1 p) (hn : (keys s.reg).Nodup) :
    Prog s.reg s1.reg [p] := by
  rcases h with rfl | ⟨item, hp, hres, hex, ha⟩
  · exact Prog.refl _ _ hn
  · rw [C14.addItem_reg s s1 item ha]
    exact add_prog s.reg item p hn hres hp hex

theorem attemptItem_prog (s : State) (p : Path) (hn : (keys s.reg).Nodup) :
    Prog s.reg (attemptItem s p).1.reg [p] := by
  unfold attemptItem
  split
  · exact Prog.refl _ _ hn
  · split
    · exact Prog.refl _ _ hn
    · next item _ d _ =>
      split
      · next td _ =>
        have hr := (buildType_reach s p d.vis td).prog hn
        split
        · next s1 r hb =>
          rw [hb] at hr
          exact hr.trans (setState_prog _ _ _ _ hr.nodup)
        · next s1 hb => rw [hb] at hr; exact hr
        · next s1 m hb => rw [hb] at hr; exact hr
        · next s1 m hb => rw [hb] at hr; exact hr
      · split
        · exact setState_prog _ _ _ _ hn
        · exact Prog.refl _ _ hn
        · exact Prog.refl _ _ hn
        · exact Prog.refl _ _ hn

theorem runRound_prog (l : List Path) (s : State) (hn : (keys s.reg).Nodup) :
    Prog s.reg (runRound s l).1.reg l := by
  induction l generalizing s with
  | nil => exact Prog.refl _ _ hn
  | cons p ps ih =>
    have h1 := (attemptItem_prog s p hn).weaken (l' := p :: ps) (by simp)
    unfold runRound
    split
    · next s1 ha =>
      rw [ha] at h1
      exact h1.trans ((ih s1 h1.nodup).weaken (fun o ho => List.mem_cons_of_mem _ ho))
    · next s1 e _ ha =>
      rw [ha] at h1
      exact h1

/-! ## the measure that drops in every round that continues -/

/-- the generated vftable item of `o` is not registered yet -/
def missing (r : Registry) (o : Path) : Bool :=
  match vftablePath o with
  | some q => !r.contains q
  | none => false

/-- the unresolved items whose generated vftable item is not registered yet -/
def glist (r : Registry) : List Path := (ulist r).filter (missing r)

/-- unresolved items + unresolved items that may still register a generated item -/
def mu (r : Registry) : Nat := (ulist r).length + (glist r).length

theorem mu_le (r : Registry) : mu r ≤ 2 * (r.types.filter fun e => !e.2.isResolved).length := by
  have h1 : (ulist r).length ≤ (r.types.filter fun e => !e.2.isResolved).length := by
    simp only [ulist, List.length_map]
    rw [← List.filter_filter]
    exact List.length_filter_le _ _
  have h2 : (glist r).length ≤ (ulist r).length := List.length_filter_le _ _
  unfold mu; omega

theorem glist_sub {r r1 : Registry} {l : List Path} (hp : Prog r r1 l) : ∀ o ∈ glist r1, o ∈ glist r := by
  intro o ho
  simp only [glist, List.mem_filter] at ho ⊢
  refine ⟨hp.sub o ho.1, ?_⟩
  have hm := ho.2
  unfold missing at hm ⊢
  split
  · next q hq =>
    rw [hq] at hm
    simp only [Bool.not_eq_eq_eq_not, Bool.not_true] at hm ⊢
    cases hc : r.contains q with
    | false => rfl
    | true => rw [hp.mono q hc] at hm; cases hm
  · next hq => rw [hq] at hm; cases hm

theorem round_progress (prio : List Path) (r r1 : Registry) (hn : (keys r).Nodup)
    (hp : Prog r r1 (r.unresolved prio))
    (hc : ¬ (r.unresolved prio = r1.unresolved prio ∧ r.types.length = r1.types.length)) :
    mu r1 < mu r := by
  have hu := ulist_nodup r hn
  have hu1 := ulist_nodup r1 hp.nodup
  have hg1 : (glist r1).Nodup := List.Nodup.sublist List.filter_sublist hu1
  have hgl : (glist r1).length ≤ (glist r).length :=
    nodup_subset_length _ _ hg1 (glist_sub hp)
  have hul : (ulist r1).length ≤ (ulist r).length := nodup_subset_length _ _ hu1 hp.sub
  by_cases he : r.unresolved prio = r1.unresolved prio
  · -- the list of unresolved items did not change: a generated item was registered
    have hlen : r1.types.length ≠ r.types.length := fun e => hc ⟨he, e.symm⟩
    rcases hp.len with e | ⟨o, ho, q, hq, hcq, hcq1⟩
    · exact absurd e hlen
    · have ho' : o ∈ ulist r := by
        rw [unresolved_eq, List.mem_mergeSort] at ho; exact ho
      have hog : o ∈ glist r := by
        simp only [glist, List.mem_filter, missing, hq, hcq]
        exact ⟨ho', rfl⟩
      have hog1 : o ∉ glist r1 := by
        simp only [glist, List.mem_filter, missing, hq, hcq1]
        simp
      have := nodup_subset_lt _ _ hg1 (glist_sub hp) o hog hog1
      unfold mu; omega
  · -- the list changed: it lost an item
    have : (ulist r1).length < (ulist r).length := by
      apply Nat.lt_of_not_le
      intro hle
      have hperm := nodup_subset_perm _ _ hu1 hp.sub hle
      apply he
      rw [unresolved_eq, unresolved_eq]
      exact (C20.mergeSort_perm_eq (prioLe prio) (C20.prioLe_trans prio) (C20.prioLe_total prio) _ _ hperm
        (fun a b _ _ h1 h2 => C20.prioLe_antisymm prio a b h1 h2)).symm
    unfold mu; omega

theorem resolveLoop_ne_fuel (prio : List Path) (fuel : Nat) (s : State) (hn : (keys s.reg).Nodup)
    (hf : mu s.reg < fuel) : resolveLoop prio fuel s ≠ .fuel := by
  induction fuel generalizing s with
  | zero => omega
  | succ n ih =>
    unfold resolveLoop
    simp only []
    split
    · intro h; cases h
    · have hp := runRound_prog (s.reg.unresolved prio) s hn
      split
      · next s1 hr =>
        rw [hr] at hp
        split
        · intro h; cases h
        · next hcond =>
          have hlt := round_progress prio s.reg s1.reg hn hp (by
            intro ⟨h1, h2⟩
            apply hcond
            simp [← h1, h2])
          exact ih s1 hp.nodup (by omega)
      all_goals (intro h; cases h)

end PyxisVerif.C10
