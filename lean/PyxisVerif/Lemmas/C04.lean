import PyxisVerif.Spec.C04
import PyxisVerif.Lemmas.C05
/-! helper lemmas for C04 (uses `buildFunction_ok`, `Res.cast_ne_ok` from `Lemmas/C05`) -/
namespace PyxisVerif.C04
open Gen

/-! ## small facts -/

theorem placeholder_main (j : Nat) :
    placeholderFn j = { vis := .priv, name := "_vfunc_" ++ toString j, doc := none,
                        body := .vft ("_vfunc_" ++ toString j), args := [.mutSelf], ret := none, cc := .Thiscall } := rfl

theorem vftable_item_main (reg : Registry) (owner : Path) (vis : Vis) (fns : List SFunc) (item : ItemDef)
    (h : buildVftableItem reg owner vis fns = some item) :
    ∃ td, item.state = .res { size := fns.length * reg.ps, align := reg.ps, inner := .type td }
      ∧ td.regions = fns.map (functionToRegion owner)
      ∧ (∀ r ∈ td.regions, r.ty.size reg = .ok (some reg.ps) ∧ r.ty.align reg = some reg.ps) := by
  unfold buildVftableItem at h
  cases hp : vftablePath owner with
  | none => rw [hp] at h; cases h
  | some p =>
    rw [hp] at h
    simp only [Option.map_some, Option.some.injEq] at h
    subst h
    refine ⟨{ regions := fns.map (functionToRegion owner) }, by simp, rfl, ?_⟩
    intro r hr
    simp only [List.mem_map] at hr
    obtain ⟨f, _, rfl⟩ := hr
    exact ⟨rfl, rfl⟩

/-! ## modelled rustc layout of the table -/

theorem alignUp_mul (k ps : Nat) (hps : 0 < ps) : RustSem.alignUp (k * ps) ps = k * ps := by
  unfold RustSem.alignUp
  rw [if_neg (by omega)]
  have : (k * ps + ps - 1) / ps = k := by
    rw [Nat.add_sub_assoc (by omega), Nat.mul_comm k ps, Nat.mul_add_div hps,
      Nat.div_eq_of_lt (by omega)]
    simp
  rw [this]

theorem offsets_replicate (ps n k : Nat) (hps : 0 < ps) :
    RustSem.offsets false (k * ps) (List.replicate n ⟨ps, ps⟩) = (List.range' k n).map (· * ps) := by
  induction n generalizing k with
  | zero => rfl
  | succ n ih =>
    simp only [List.replicate_succ, RustSem.offsets, Bool.false_eq_true, if_false, alignUp_mul k ps hps,
      List.range'_succ, List.map_cons]
    have : k * ps + ps = (k + 1) * ps := by rw [Nat.add_mul]; simp
    rw [this, ih]

theorem slot_offset_main (ps n : Nat) (hps : 0 < ps) :
    RustSem.offsets false 0 (List.replicate n ⟨ps, ps⟩) = (List.range n).map (· * ps) := by
  have := offsets_replicate ps n 0 hps
  simp only [Nat.zero_mul] at this
  rw [this, List.range_eq_range']

/-! ## a virtual function keeps the body it starts with -/

theorem fnAttrStep_true_body (st st1 : FnAttrSt) (a : G.Attr) (h : fnAttrStep true st a = .ok st1) :
    st1.body = st.body := by
  revert h
  fun_cases fnAttrStep true st a
  all_goals intro h
  all_goals first | (cases h; done) | (cases h; rfl) | skip
  all_goals simp_all

theorem fnAttr_true_fold (attrs : List G.Attr) (st st' : FnAttrSt)
    (h : Res.foldlM (fnAttrStep true) st attrs = .ok st') : st'.body = st.body := by
  induction attrs generalizing st with
  | nil => simp [Res.foldlM] at h; subst h; rfl
  | cons a as ih =>
    simp only [Res.foldlM] at h
    split at h
    · next st1 h1 => rw [ih st1 h, fnAttrStep_true_body st st1 a h1]
    all_goals cases h

theorem vfunc_body_main (reg : Registry) (scope : List Path) (f : G.Func) (sf : SFunc)
    (h : buildFunction reg scope true f = .ok sf) : sf.body = .vft f.name ∧ sf.name = f.name := by
  obtain ⟨doc, st, body, args, ret, _, hst, hbody, _, _, _, hn, _, hb, _, _⟩ :=
    buildFunction_ok reg scope true f sf h
  have := fnAttr_true_fold f.attrs _ st hst
  rw [hbody] at this
  simp only [if_true, Option.some.injEq] at this
  exact ⟨by rw [hb, this], hn⟩


/-! ## the emitted wrapper -/

theorem wrapper_main (f : SFunc) (fn : String) (h : f.body = .vft fn) :
    ∃ hd, Emit.methodS f = Sexp.mk "method" (hd ++
      [Sexp.mk "call-slot" [.str fn, Sexp.mk "args" (f.args.map Emit.callArgS)]]) :=
  ⟨[Emit.docsS f.doc, Emit.visS f.vis, .str f.name, Sexp.mk "params" (f.args.map Emit.paramS), Emit.optTyS f.ret],
    by simp only [Emit.methodS, h]; rfl⟩

/-! ## `indexAttr` against `declIndex` -/

def idxStep (acc : Option Int) (a : G.Attr) : Option Int :=
  match a with | .fn "index" [.int i] => some i | _ => acc

def idxAttrStep (acc : Option Nat) (a : G.Attr) : Res (Option Nat) :=
  match a with
  | .fn "index" [.int i] => match tryUsize i with
    | some v => .ok (some v)
    | none => .err "failed to convert `index` attribute into usize"
  | _ => .ok acc

theorem indexAttr_eq (attrs : List G.Attr) : indexAttr attrs = Res.foldlM idxAttrStep none attrs := rfl
theorem declIndex_eq (f : G.Func) : declIndex f = f.attrs.foldl idxStep none := rfl

def IdxInv (n : Option Nat) (acc : Option Int) : Prop :=
  n = acc.map Int.toNat ∧ ∀ a, acc = some a → 0 ≤ a

theorem idxStep_other (acc : Option Int) (a : G.Attr)
    (h : ∀ (i : Int), a = G.Attr.fn "index" [G.Expr.int i] → False) : idxStep acc a = acc := by
  unfold idxStep
  split
  · next v => exact (h v rfl).elim
  · rfl

theorem idxAttrStep_inv (n n1 : Option Nat) (acc : Option Int) (a : G.Attr)
    (hinv : IdxInv n acc) (h : idxAttrStep n a = .ok n1) : IdxInv n1 (idxStep acc a) := by
  revert h
  fun_cases idxAttrStep n a
  all_goals intro h
  · next i v hv =>
    cases h
    unfold tryUsize at hv
    split at hv
    · next h0 => cases hv; exact ⟨rfl, by intro a ha; cases ha; exact h0⟩
    · cases hv
  · cases h
  · next h1 => cases h; rw [idxStep_other _ _ h1]; exact hinv

theorem idxAttr_fold (attrs : List G.Attr) (n n' : Option Nat) (acc : Option Int)
    (hinv : IdxInv n acc) (h : Res.foldlM idxAttrStep n attrs = .ok n') :
    IdxInv n' (attrs.foldl idxStep acc) := by
  induction attrs generalizing n acc with
  | nil => simp [Res.foldlM] at h; subst h; exact hinv
  | cons a as ih =>
    simp only [Res.foldlM] at h
    split at h
    · next n1 h1 => exact ih n1 _ (idxAttrStep_inv n n1 acc a hinv h1) h
    all_goals cases h

theorem indexAttr_ok (f : G.Func) (idx : Option Nat) (h : indexAttr f.attrs = .ok idx) :
    IdxInv idx (declIndex f) := by
  rw [declIndex_eq]
  exact idxAttr_fold f.attrs none idx none ⟨rfl, by intro a h; cases h⟩ (by rw [← indexAttr_eq]; exact h)

/-! ## `make_padding_functions` -/

theorem makePadding_spec (out o1 : List SFunc) (t : Nat) (hle : out.length ≤ t)
    (h : makePadding out t = .ok o1) :
    o1.length = t ∧ (∀ j, j < out.length → o1[j]? = out[j]?)
      ∧ (∀ j, out.length ≤ j → j < t → o1[j]? = some (placeholderFn j)) := by
  unfold makePadding at h
  simp only at h
  split at h
  · cases h
  · cases h
    refine ⟨by simp; omega, ?_, ?_⟩
    · intro j hj; exact List.getElem?_append_left hj
    · intro j h1 h2
      rw [List.getElem?_append_right h1]
      have hlt : j - out.length < t - out.length := by omega
      simp only [List.getElem?_map, List.getElem?_range hlt, Option.map_some, Option.some.injEq]
      congr 1; omega

/-! ## one iteration of the slot loop -/

def slotStep (reg : Registry) (scope : List Path) (out : List SFunc) (f : G.Func) : Res (List SFunc) :=
  match indexAttr f.attrs with
  | .ok idx =>
    match (match idx with
      | some i =>
        if i < out.length then Res.err "vftable function is declared at an index that is already occupied"
        else makePadding out i
      | none => .ok out) with
    | .ok out1 =>
      match buildFunction reg scope true f with
      | .ok sf => .ok (out1 ++ [sf])
      | e => e.cast
    | e => e
  | e => e.cast

theorem convertVfuncs_eq (reg : Registry) (scope : List Path) (size : Option Nat) (fns : List G.Func) :
    convertVfuncs reg scope size fns =
      match Res.foldlM (slotStep reg scope) [] fns with
      | .ok out => (match size with
        | some n =>
          if n < out.length then .err "vftable is declared with a size smaller than the slots its functions occupy"
          else makePadding out n
        | none => .ok out)
      | e => e := rfl

theorem slotStep_spec (reg : Registry) (scope : List Path) (out o2 : List SFunc) (f : G.Func)
    (h : slotStep reg scope out f = .ok o2) :
    ∃ p sf o1, buildFunction reg scope true f = .ok sf ∧ o2 = o1 ++ [sf] ∧ o1.length = p ∧ out.length ≤ p
      ∧ (∀ j, j < out.length → o1[j]? = out[j]?)
      ∧ (∀ j, out.length ≤ j → j < p → o1[j]? = some (placeholderFn j))
      ∧ (∀ rest, specPositions out.length (declIndex f :: rest) = (specPositions (p + 1) rest).map (p :: ·)) := by
  unfold slotStep at h
  split at h
  · next idx hidx =>
    have hinv := indexAttr_ok f idx hidx
    split at h
    · next o1 ho1 =>
      split at h
      · next sf hsf =>
        cases h
        refine ⟨o1.length, sf, o1, hsf, rfl, rfl, ?_⟩
        cases idx with
        | none =>
          simp only [Res.ok.injEq] at ho1
          subst ho1
          refine ⟨Nat.le_refl _, fun _ _ => rfl, fun j h1 h2 => by omega, ?_⟩
          intro rest
          obtain ⟨h1, _⟩ := hinv
          cases hd : declIndex f with
          | none => simp [specPositions]
          | some z => rw [hd] at h1; cases h1
        | some i =>
          simp only at ho1
          split at ho1
          · cases ho1
          · next hlt =>
            obtain ⟨hl, hold, hnew⟩ := makePadding_spec out o1 i (by omega) ho1
            rw [hl]
            refine ⟨by omega, hold, hnew, ?_⟩
            intro rest
            obtain ⟨h1, h2⟩ := hinv
            cases hd : declIndex f with
            | none => rw [hd] at h1; cases h1
            | some z =>
              rw [hd] at h1 h2
              simp only [Option.map_some, Option.some.injEq] at h1
              have hz := h2 z rfl
              simp only [specPositions]
              rw [if_neg (by omega), ← h1, if_neg hlt]
      · next e hne => exact absurd h (Res.cast_ne_ok _ _ (fun a ha => hne a ha))
    · next e hne => exact absurd h (fun hh => hne _ hh)
  · next e hne => exact absurd h (Res.cast_ne_ok _ _ (fun a ha => hne a ha))


/-! ## the whole loop -/

theorem loop_spec (reg : Registry) (scope : List Path) (fns : List G.Func) (out out' : List SFunc)
    (h : Res.foldlM (slotStep reg scope) out fns = .ok out') :
    ∃ ps bs, specPositions out.length (fns.map declIndex) = some ps
      ∧ Res.mapM' (buildFunction reg scope true) fns = .ok bs
      ∧ ps.length = bs.length
      ∧ out'.length = (match ps.getLast? with | some p => p + 1 | none => out.length)
      ∧ (∀ j, j < out.length → out'[j]? = out[j]?)
      ∧ (∀ pb ∈ ps.zip bs, out'[pb.1]? = some pb.2)
      ∧ (∀ j, out.length ≤ j → j < out'.length → j ∉ ps → out'[j]? = some (placeholderFn j)) := by
  induction fns generalizing out with
  | nil =>
    simp only [Res.foldlM, Res.ok.injEq] at h
    subst h
    exact ⟨[], [], rfl, rfl, rfl, rfl, fun _ _ => rfl, by simp, fun j h1 h2 => by omega⟩
  | cons f fs ih =>
    simp only [Res.foldlM] at h
    split at h
    · next o2 hstep =>
      obtain ⟨p, sf, o1, hsf, rfl, hlen, hle, hold, hnew, hspec⟩ := slotStep_spec reg scope out o2 f hstep
      obtain ⟨ps', bs', hps, hbs, hl, hlen', hold', hzip', hpad'⟩ := ih _ h
      have hl2 : (o1 ++ [sf]).length = p + 1 := by simp [hlen]
      rw [hl2] at hps hlen' hold' hpad'
      refine ⟨p :: ps', sf :: bs', ?_, ?_, ?_, ?_, ?_, ?_, ?_⟩
      · simp only [List.map_cons]; rw [hspec, hps]; rfl
      · simp only [Res.mapM', hsf, hbs]
      · simp [hl]
      · rw [hlen']
        cases hg : ps'.getLast? with
        | none =>
          have : ps' = [] := List.getLast?_eq_none_iff.mp hg
          subst this; rfl
        | some q => simp [List.getLast?_cons, hg]
      · intro j hj
        rw [hold' j (by omega), List.getElem?_append_left (by omega), hold j hj]
      · intro pb hpb
        simp only [List.zip_cons_cons, List.mem_cons] at hpb
        cases hpb with
        | inl e =>
          subst e
          simp only
          rw [hold' p (by omega), List.getElem?_append_right (by omega)]
          simp [hlen]
        | inr e => exact hzip' pb e
      · intro j h1 h2 h3
        simp only [List.mem_cons, not_or] at h3
        by_cases hjp : j < p
        · rw [hold' j (by omega), List.getElem?_append_left (by omega)]
          exact hnew j h1 hjp
        · exact hpad' j (by omega) h2 h3.2
    all_goals cases h

theorem slots_main (reg : Registry) (scope : List Path) (size : Option Nat) (fns : List G.Func) (out : List SFunc)
    (h : convertVfuncs reg scope size fns = .ok out) :
    ∃ pos built len,
      specPositions 0 (fns.map declIndex) = some pos
      ∧ Res.mapM' (buildFunction reg scope true) fns = .ok built
      ∧ pos.length = built.length
      ∧ specLength size pos = some len ∧ out.length = len
      ∧ (∀ pb ∈ pos.zip built, out[pb.1]? = some pb.2)
      ∧ (∀ j, j < out.length → j ∉ pos → out[j]? = some (placeholderFn j)) := by
  rw [convertVfuncs_eq] at h
  split at h
  · next lo hlo =>
    obtain ⟨ps, bs, hps, hbs, hl, hlen, _, hzip, hpad⟩ := loop_spec reg scope fns [] lo hlo
    have hneed : needed ps = lo.length := by rw [hlen]; rfl
    simp only [List.length_nil] at hps hpad
    cases size with
    | none =>
      simp only [Res.ok.injEq] at h
      subst h
      exact ⟨ps, bs, _, hps, hbs, hl, rfl, hneed.symm, hzip, fun j hj hn => hpad j (Nat.zero_le _) hj hn⟩
    | some n =>
      simp only at h
      split at h
      · cases h
      · next hlt =>
        obtain ⟨hl', hold, hnew⟩ := makePadding_spec lo out n (by omega) h
        refine ⟨ps, bs, n, hps, hbs, hl, ?_, hl', ?_, ?_⟩
        · simp only [specLength, hneed]; rw [if_neg hlt]
        · intro pb hpb
          have := hzip pb hpb
          have hlt' : pb.1 < lo.length := (List.getElem?_eq_some_iff.mp this).1
          rw [hold _ hlt', this]
        · intro j hj hn
          by_cases hjl : j < lo.length
          · rw [hold j hjl]; exact hpad j (Nat.zero_le _) hjl hn
          · exact hnew j (by omega) (by omega)
  · next e hne => exact absurd h (fun hh => hne _ hh)

theorem contradiction_main (reg : Registry) (scope : List Path) (size : Option Nat) (fns : List G.Func)
    (h : specPositions 0 (fns.map declIndex) = none ∨
         ∃ pos, specPositions 0 (fns.map declIndex) = some pos ∧ specLength size pos = none) :
    (convertVfuncs reg scope size fns).isOk = false := by
  apply Res.isOk_eq_false_of_ne
  intro out hout
  obtain ⟨pos, _, len, hpos, _, _, hlen, _⟩ := slots_main reg scope size fns out hout
  cases h with
  | inl h => rw [h] at hpos; cases hpos
  | inr h =>
    obtain ⟨pos', h1, h2⟩ := h
    rw [h1] at hpos; cases hpos
    rw [h2] at hlen; cases hlen

end PyxisVerif.C04
