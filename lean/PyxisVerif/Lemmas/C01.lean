import PyxisVerif.Spec.C01
/-! helper lemmas for C01 / C02 -/
namespace PyxisVerif.C01
open Layout

/-! ## `push` in closed form -/

/-- what one `push` appends -/
def reg {β} (s : Nat) (al : Option Nat) (arr : Bool) (src : Option β) : List (Placed β) :=
  if s = 0 ∧ arr = true then [] else [⟨s, al, src⟩]

theorem push_ok_inv {β} (st st' : St β) (sz : Res (Option Nat)) (al : Option Nat) (arr : Bool)
    (src : Option β) (h : push st sz al arr src = .ok st') :
    ∃ s, sz = .ok (some s) ∧ st' = (st.1 ++ reg s al arr src, st.2 + s) := by
  unfold push at h
  split at h
  · cases h
  · rename_i s
    refine ⟨s, rfl, ?_⟩
    unfold reg
    by_cases c : s = 0 ∧ arr = true
    · simp only [c, and_self, if_true] at h
      cases h
      obtain ⟨rfl, rfl⟩ := c
      simp
    · simp only [c, if_false] at h
      split at h
      · cases h; simp [c]
      · cases h
  · cases h
  · cases h
  · cases h

theorem sumSizes_nil {β} : sumSizes ([] : List (Placed β)) = 0 := rfl

theorem sumSizes_cons {β} (r : Placed β) (rs : List (Placed β)) :
    sumSizes (r :: rs) = r.size + sumSizes rs := by
  simp [sumSizes]

theorem sumSizes_append {β} (a b : List (Placed β)) : sumSizes (a ++ b) = sumSizes a + sumSizes b := by
  simp [sumSizes]

theorem sumSizes_reg {β} (s : Nat) (al : Option Nat) (arr : Bool) (src : Option β) :
    sumSizes (reg s al arr src) = s := by
  unfold reg
  by_cases c : s = 0 ∧ arr = true
  · simp [c, sumSizes]
  · simp [c, sumSizes]

/-! ## running offsets -/

theorem offsets_append {β} (o : Nat) (a b : List (Placed β)) :
    offsets o (a ++ b) = offsets o a ++ offsets (o + sumSizes a) b := by
  induction a generalizing o with
  | nil => simp [offsets, sumSizes]
  | cons r a ih =>
    simp only [List.cons_append, offsets, ih, List.cons.injEq, true_and, sumSizes_cons]
    simp [Nat.add_assoc]

/-- the source regions of a placed list with running offsets from `o` -/
def srcOffs {β} (o : Nat) (rs : List (Placed β)) : List (Nat × β) :=
  (offsets o rs).filterMap fun p => p.2.src.map fun v => (p.1, v)

theorem sourceOffsets_eq {β} (rs : List (Placed β)) : sourceOffsets rs = srcOffs 0 rs := rfl

theorem srcOffs_append {β} (o : Nat) (a b : List (Placed β)) :
    srcOffs o (a ++ b) = srcOffs o a ++ srcOffs (o + sumSizes a) b := by
  simp [srcOffs, offsets_append]

theorem srcOffs_reg_none {β} (o s : Nat) (al : Option Nat) (arr : Bool) :
    srcOffs o (reg s al arr (none : Option β)) = [] := by
  unfold reg srcOffs
  split <;> simp [offsets]

theorem srcOffs_reg_some {β} (o s : Nat) (al : Option Nat) (arr : Bool) (v : β) :
    srcOffs o (reg s al arr (some v)) = if s = 0 ∧ arr = true then [] else [(o, v)] := by
  unfold reg srcOffs
  split <;> simp [offsets]

/-! ## the declarative list -/

/-- the right-hand side of `placed_at_spec` for the fields -/
def specSrc {β} (e : Nat) (fields : List (PField β)) : List (Nat × β) :=
  ((fields.zip (specOffsets e fields)).filter (fun p => emitted p.1)).map (fun p => (p.2, p.1.val))

theorem specSrc_nil {β} (e : Nat) : specSrc e ([] : List (PField β)) = [] := rfl

theorem specSrc_cons {β} (e : Nat) (f : PField β) (fs : List (PField β)) :
    specSrc e (f :: fs) =
      (if emitted f then [(f.addr.getD e, f.val)] else []) ++ specSrc (f.addr.getD e + fsize f) fs := by
  unfold specSrc
  simp only [specOffsets, List.zip_cons_cons, List.filter_cons]
  cases emitted f <;> simp

theorem emitted_of_size {β} (f : PField β) (s : Nat) (h : f.size = .ok (some s)) :
    fsize f = s ∧ (emitted f = true ↔ ¬ (s = 0 ∧ f.isArr = true)) := by
  unfold emitted fsize
  rw [h]
  refine ⟨rfl, ?_⟩
  cases f.isArr <;> simp

/-! ## one step of the loop -/

theorem pushField_step {β} (st st2 : St β) (f : PField β) (hinv : sumSizes st.1 = st.2)
    (h : pushField st f = .ok st2) :
    sumSizes st2.1 = st2.2 ∧ st2.2 = st.2 + fsize f ∧
      srcOffs 0 st2.1 = srcOffs 0 st.1 ++ (if emitted f then [(st.2, f.val)] else []) := by
  unfold pushField at h
  obtain ⟨s, hs, rfl⟩ := push_ok_inv _ _ _ _ _ _ h
  obtain ⟨h1, h2⟩ := emitted_of_size f s hs
  refine ⟨by simp [sumSizes_append, sumSizes_reg, hinv], by simp [h1], ?_⟩
  simp only [srcOffs_append, srcOffs_reg_some, Nat.zero_add, hinv]
  by_cases c : s = 0 ∧ f.isArr = true
  · have : emitted f = false := by
      cases he : emitted f
      · rfl
      · exact absurd c (h2.mp he)
    simp [c, this]
  · simp [c, h2.mpr c]

theorem pushPad_step {β} (st st1 : St β) (n : Nat) (hinv : sumSizes st.1 = st.2)
    (h : pushPad st n = .ok st1) :
    sumSizes st1.1 = st1.2 ∧ st1.2 = st.2 + n ∧ srcOffs 0 st1.1 = srcOffs 0 st.1 := by
  unfold pushPad at h
  obtain ⟨s, hs, rfl⟩ := push_ok_inv _ _ _ _ _ _ h
  cases hs
  refine ⟨by simp [sumSizes_append, sumSizes_reg, hinv], rfl, ?_⟩
  simp [srcOffs_append, srcOffs_reg_none]

/-! ## case analysis of `place` on a non-empty list -/

theorem place_cons_inv {β} (st st' : St β) (f : PField β) (fs : List (PField β))
    (h : place st (f :: fs) = .ok st') :
    (f.addr = none ∧ ∃ st2, pushField st f = .ok st2 ∧ place st2 fs = .ok st') ∨
    (∃ a, f.addr = some a ∧ st.2 ≤ a ∧
      ∃ st1 st2, pushPad st (a - st.2) = .ok st1 ∧ pushField st1 f = .ok st2 ∧ place st2 fs = .ok st') := by
  unfold place at h
  split at h
  · rename_i a ha
    split at h
    · cases h
    · rename_i hlt
      split at h
      · rename_i st1 h1
        split at h
        · rename_i st2 h2
          exact Or.inr ⟨a, ha, by omega, st1, st2, h1, h2, h⟩
        all_goals cases h
      all_goals cases h
  · rename_i ha
    split at h
    · rename_i st2 h2
      exact Or.inl ⟨ha, st2, h2, h⟩
    all_goals cases h

/-- the placement loop puts every emitted source field where `specOffsets` says -/
theorem place_spec {β} (st st' : St β) (fields : List (PField β)) (hinv : sumSizes st.1 = st.2)
    (h : place st fields = .ok st') :
    sumSizes st'.1 = st'.2 ∧ srcOffs 0 st'.1 = srcOffs 0 st.1 ++ specSrc st.2 fields := by
  induction fields generalizing st with
  | nil =>
    simp only [place] at h
    cases h
    simp [hinv, specSrc_nil]
  | cons f fs ih =>
    rcases place_cons_inv st st' f fs h with ⟨ha, st2, h2, h3⟩ | ⟨a, ha, hle, st1, st2, h1, h2, h3⟩
    · obtain ⟨i1, i2, i3⟩ := pushField_step st st2 f hinv h2
      obtain ⟨j1, j2⟩ := ih st2 i1 h3
      refine ⟨j1, ?_⟩
      rw [j2, i3, i2, specSrc_cons, ha]
      simp
    · obtain ⟨p1, p2, p3⟩ := pushPad_step st st1 _ hinv h1
      obtain ⟨i1, i2, i3⟩ := pushField_step st1 st2 f p1 h2
      obtain ⟨j1, j2⟩ := ih st2 i1 h3
      refine ⟨j1, ?_⟩
      have e : st1.2 = a := by omega
      rw [j2, i3, i2, p3, specSrc_cons, ha, e]
      simp

theorem padTail_step {β} (st st2 : St β) (target : Option Nat) (hinv : sumSizes st.1 = st.2)
    (h : padTail st target = .ok st2) :
    sumSizes st2.1 = st2.2 ∧ srcOffs 0 st2.1 = srcOffs 0 st.1 := by
  unfold padTail at h
  split at h
  · split at h
    · obtain ⟨p1, _, p3⟩ := pushPad_step st st2 _ hinv h
      exact ⟨p1, p3⟩
    · cases h; exact ⟨hinv, rfl⟩
  · cases h; exact ⟨hinv, rfl⟩

/-- case analysis of an accepted `resolve` -/
theorem resolve_inv {β} (vptr : Option (PField β)) (fields : List (PField β)) (target : Option Nat)
    (placed : List (Placed β)) (size : Nat) (h : resolve vptr fields target = .ok (placed, size)) :
    ∃ st0 st1 st2,
      (match vptr with | some v => pushField ([], 0) v | none => .ok ([], 0)) = .ok st0 ∧
      place st0 fields = .ok st1 ∧ padTail st1 target = .ok st2 ∧
      placed = st2.1 ∧ size = sumSizes st2.1 ∧ ∀ t, target = some t → size = t := by
  unfold resolve at h
  split at h
  · rename_i st0 h0
    split at h
    · rename_i st1 h1
      split at h
      · rename_i st2 h2
        refine ⟨st0, st1, st2, h0, h1, h2, ?_⟩
        simp only [] at h
        split at h
        · rename_i t
          split at h
          · cases h
          · rename_i hne
            cases h
            refine ⟨rfl, rfl, ?_⟩
            intro t' ht'
            cases ht'
            exact Classical.byContradiction fun hc => hne hc
        · cases h
          exact ⟨rfl, rfl, fun t ht => by cases ht⟩
      all_goals cases h
    all_goals cases h
  all_goals cases h

/-- where the first field starts: after the vftable pointer, if the type owns one -/
def vstart {β} (vptr : Option (PField β)) : Nat :=
  match vptr with | some v => (if emitted v then fsize v else 0) | none => 0

def vhead {β} (vptr : Option (PField β)) : List (Nat × β) :=
  match vptr with | some v => (if emitted v then [(0, v.val)] else []) | none => []

theorem fsize_of_not_emitted {β} (v : PField β) (he : emitted v = false) : fsize v = 0 := by
  unfold emitted at he
  simp only [Bool.not_eq_false', Bool.and_eq_true, beq_iff_eq] at he
  exact he.1

theorem vptr_step {β} (vptr : Option (PField β)) (st0 : St β)
    (h0 : (match vptr with | some v => pushField ([], 0) v | none => .ok ([], 0)) = .ok st0) :
    sumSizes st0.1 = st0.2 ∧ st0.2 = vstart vptr ∧ srcOffs 0 st0.1 = vhead vptr := by
  cases vptr with
  | none => cases h0; exact ⟨rfl, rfl, rfl⟩
  | some v =>
    simp only [] at h0
    obtain ⟨i1, i2, i3⟩ := pushField_step ([], 0) st0 v rfl h0
    refine ⟨i1, ?_, ?_⟩
    · simp only [Nat.zero_add] at i2
      rw [i2]
      show fsize v = if emitted v = true then fsize v else 0
      by_cases he : emitted v = true
      · rw [if_pos he]
      · rw [if_neg he]
        exact fsize_of_not_emitted v (by simpa using he)
    · rw [i3]; simp [srcOffs, offsets, vhead]

theorem resolve_spec {β} (vptr : Option (PField β)) (fields : List (PField β)) (target : Option Nat)
    (placed : List (Placed β)) (size : Nat)
    (h : resolve vptr fields target = .ok (placed, size)) :
    sourceOffsets placed = vhead vptr ++ specSrc (vstart vptr) fields ∧ size = sumSizes placed := by
  obtain ⟨st0, st1, st2, h0, h1, h2, rfl, rfl, _⟩ := resolve_inv vptr fields target placed size h
  refine ⟨?_, rfl⟩
  obtain ⟨k1, k2, k3⟩ := vptr_step vptr st0 h0
  obtain ⟨j1, j2⟩ := place_spec st0 st1 fields k1 h1
  obtain ⟨l1, l2⟩ := padTail_step st1 st2 target j1 h2
  rw [sourceOffsets_eq, l2, j2, k3, k2]

/-! ## the modelled compiler on regions that pass pyxis's checks -/

theorem alignUp_of_dvd (o a : Nat) (ha : a ≠ 0) (h : o % a = 0) : RustSem.alignUp o a = o := by
  unfold RustSem.alignUp
  rw [if_neg ha]
  obtain ⟨k, rfl⟩ := Nat.dvd_of_mod_eq_zero h
  have e : a * k + a - 1 = a * k + (a - 1) := by omega
  rw [e, Nat.mul_add_div (by omega), Nat.div_eq_of_lt (by omega)]
  simp [Nat.mul_comm]

theorem alignUp_one (o : Nat) : RustSem.alignUp o 1 = o := by
  simp [RustSem.alignUp]

theorem rust_packed {β} (o : Nat) (rs : List (Placed β)) :
    RustSem.offsets true o (rs.map toFld) = (offsets o rs).map (·.1) ∧
      RustSem.endOf true o (rs.map toFld) = o + sumSizes rs := by
  induction rs generalizing o with
  | nil => simp [RustSem.offsets, RustSem.endOf, offsets, sumSizes]
  | cons r rs ih =>
    obtain ⟨h1, h2⟩ := ih (o + r.size)
    simp only [List.map_cons, RustSem.offsets, RustSem.endOf, offsets, if_true, toFld, sumSizes_cons] at h1 h2 ⊢
    refine ⟨by rw [h1], ?_⟩
    rw [h2]; omega

theorem fieldsAligned_cons_inv {β} (off : Nat) (r : Placed β) (rs : List (Placed β))
    (h : fieldsAligned off (r :: rs) = .ok ()) :
    ∃ a, r.align = some a ∧ a ≠ 0 ∧ off % a = 0 ∧ fieldsAligned (off + r.size) rs = .ok () := by
  unfold fieldsAligned at h
  split at h
  · cases h
  · rename_i a ha
    split at h
    · cases h
    · rename_i h0
      split at h
      · cases h
      · rename_i hm
        split at h
        · cases h
        · exact ⟨a, ha, h0, by omega, h⟩

theorem fieldsAligned_all {β} (off : Nat) (rs : List (Placed β)) (h : fieldsAligned off rs = .ok ()) :
    ∀ r ∈ rs, ∃ x, r.align = some x ∧ x ≠ 0 := by
  induction rs generalizing off with
  | nil => intro r hr; cases hr
  | cons r rs ih =>
    obtain ⟨a, ha, h0, _, h'⟩ := fieldsAligned_cons_inv off r rs h
    intro r' hr'
    rcases List.mem_cons.mp hr' with rfl | hr'
    · exact ⟨a, ha, h0⟩
    · exact ih _ h' r' hr'

theorem rust_unpacked {β} (o : Nat) (rs : List (Placed β)) (h : fieldsAligned o rs = .ok ()) :
    RustSem.offsets false o (rs.map toFld) = (offsets o rs).map (·.1) ∧
      RustSem.endOf false o (rs.map toFld) = o + sumSizes rs := by
  induction rs generalizing o with
  | nil => simp [RustSem.offsets, RustSem.endOf, offsets, sumSizes]
  | cons r rs ih =>
    obtain ⟨a, ha, h0, hm, h'⟩ := fieldsAligned_cons_inv o r rs h
    obtain ⟨h1, h2⟩ := ih (o + r.size) h'
    have hal : RustSem.alignUp o ((toFld r).align) = o := by
      simp only [toFld, ha, Option.getD_some]
      exact alignUp_of_dvd o a h0 hm
    simp only [List.map_cons, RustSem.offsets, RustSem.endOf, offsets, Bool.false_eq_true, if_false,
      hal, sumSizes_cons, List.cons.injEq, true_and]
    simp only [toFld] at h1 h2 ⊢
    refine ⟨h1, ?_⟩
    rw [h2]; omega

theorem offsets_zip {β} (o : Nat) (rs : List (Placed β)) :
    ((offsets o rs).map (·.1)).zip rs = offsets o rs := by
  induction rs generalizing o with
  | nil => rfl
  | cons r rs ih => simp [offsets, ih]

/-! ## `lcmAll` -/

def lcmFrom {β} (acc : Nat) (rs : List (Placed β)) : Res Nat :=
  Res.foldlM (fun acc (r : Placed β) => match r.align with | some a => lcmStep acc a | none => .ok acc)
    acc rs

theorem lcmAll_eq {β} (rs : List (Placed β)) : lcmAll rs = lcmFrom 1 rs := rfl

theorem lcmStep_ok (acc x m : Nat) (h : lcmStep acc x = .ok m) :
    acc ∣ m ∧ x ∣ m ∧ (0 < acc → 0 < x → 0 < m) := by
  unfold lcmStep at h
  split at h
  · cases h
  · split at h
    · cases h
    · cases h
      have hg1 : Nat.gcd acc x ∣ acc := Nat.gcd_dvd_left acc x
      have hg2 : Nat.gcd acc x ∣ x := Nat.gcd_dvd_right acc x
      refine ⟨?_, Nat.dvd_mul_left _ _, ?_⟩
      · obtain ⟨k, hk⟩ := hg2
        refine ⟨k, ?_⟩
        calc acc / Nat.gcd acc x * x = acc / Nat.gcd acc x * (Nat.gcd acc x * k) := by rw [← hk]
          _ = (acc / Nat.gcd acc x * Nat.gcd acc x) * k := by rw [Nat.mul_assoc]
          _ = acc * k := by rw [Nat.div_mul_cancel hg1]
      · intro ha hx
        have hle : Nat.gcd acc x ≤ acc := Nat.le_of_dvd ha hg1
        have hgp : 0 < Nat.gcd acc x := Nat.gcd_pos_of_pos_left x ha
        have : 0 < acc / Nat.gcd acc x := Nat.div_pos hle hgp
        exact Nat.mul_pos this hx

theorem lcmFrom_ok {β} (acc : Nat) (rs : List (Placed β)) (L : Nat) (h : lcmFrom acc rs = .ok L)
    (hall : ∀ r ∈ rs, ∃ x, r.align = some x ∧ x ≠ 0) (hacc : 0 < acc) :
    0 < L ∧ acc ∣ L ∧ ∀ r ∈ rs, ∀ x, r.align = some x → x ∣ L := by
  induction rs generalizing acc with
  | nil =>
    simp only [lcmFrom, Res.foldlM] at h
    cases h
    exact ⟨hacc, Nat.dvd_refl _, fun r hr => by cases hr⟩
  | cons r rs ih =>
    obtain ⟨x, hx, hx0⟩ := hall r (by simp)
    unfold lcmFrom Res.foldlM at h
    simp only [hx] at h
    split at h
    · rename_i m hm
      obtain ⟨d1, d2, d3⟩ := lcmStep_ok acc x m hm
      obtain ⟨i1, i2, i3⟩ := ih m h (fun r' hr' => hall r' (by simp [hr'])) (d3 hacc (by omega))
      refine ⟨i1, Nat.dvd_trans d1 i2, ?_⟩
      intro r' hr' x' hx'
      rcases List.mem_cons.mp hr' with rfl | hr'
      · rw [hx] at hx'; cases hx'
        exact Nat.dvd_trans d2 i2
      · exact i3 r' hr' x' hx'
    all_goals cases h

theorem foldl_max_le (fs : List RustSem.Fld) (m a : Nat) (hm : m ≤ a) (h : ∀ f ∈ fs, f.align ≤ a) :
    fs.foldl (fun m f => max m f.align) m ≤ a := by
  induction fs generalizing m with
  | nil => exact hm
  | cons f fs ih =>
    simp only [List.foldl_cons]
    have := h f (by simp)
    exact ih _ (by omega) (fun g hg => h g (by simp [hg]))

theorem isPow2_pos (a : Nat) (h : isPow2 a = true) : 1 ≤ a := by
  unfold isPow2 at h
  simp only [Bool.and_eq_true, bne_iff_ne, ne_eq] at h
  omega

/-! ## the alignment block, case analysis -/

theorem alignCheck_packed_inv {β} (ps : Nat) (align? : Option Nat) (rs : List (Placed β)) (size a : Nat)
    (h : alignCheck ps true align? rs size = .ok a) : a = 1 ∧ align? = none := by
  unfold alignCheck at h
  simp only [if_true] at h
  split at h
  · cases h
  · rename_i hn
    cases h
    refine ⟨rfl, ?_⟩
    cases align? with
    | none => rfl
    | some x => simp at hn

theorem alignCheck_unpacked_inv {β} (ps : Nat) (align? : Option Nat) (rs : List (Placed β)) (size a : Nat)
    (h : alignCheck ps false align? rs size = .ok a) :
    a = requestedAlign ps align? rs ∧ isPow2 a = true ∧
      (∃ L, lcmAll rs = .ok L ∧ L ≤ a) ∧ fieldsAligned 0 rs = .ok () ∧ a ≠ 0 ∧ size % a = 0 := by
  unfold alignCheck at h
  simp only [Bool.false_eq_true, if_false] at h
  split at h
  · cases h
  · rename_i hp
    split at h
    · rename_i L hL
      split at h
      · cases h
      · rename_i hle
        split at h
        · rename_i hfa
          split at h
          · cases h
          · rename_i h0
            split at h
            · cases h
            · rename_i hmod
              cases h
              refine ⟨rfl, by simpa using hp, ⟨L, hL, by omega⟩, hfa, h0, by omega⟩
        all_goals cases h
    all_goals cases h

theorem rustc_offsets_lem {β} (ps : Nat) (packed : Bool) (align? : Option Nat) (rs : List (Placed β)) (size a : Nat)
    (hs : size = sumSizes rs) (h : alignCheck ps packed align? rs size = .ok a) :
    RustSem.offsets packed 0 (rs.map toFld) = (offsets 0 rs).map (·.1)
    ∧ RustSem.structSize packed (if packed then none else some a) (rs.map toFld) = size
    ∧ RustSem.structAlign packed (if packed then none else some a) (rs.map toFld) = a := by
  cases packed with
  | true =>
    obtain ⟨rfl, _⟩ := alignCheck_packed_inv ps align? rs size a h
    obtain ⟨h1, h2⟩ := rust_packed 0 rs
    refine ⟨h1, ?_, ?_⟩
    · simp only [RustSem.structSize, RustSem.structAlign, if_true, h2, alignUp_one]
      omega
    · simp [RustSem.structAlign]
  | false =>
    obtain ⟨_, hp, ⟨L, hL, hLa⟩, hfa, h0, hmod⟩ := alignCheck_unpacked_inv ps align? rs size a h
    obtain ⟨h1, h2⟩ := rust_unpacked 0 rs hfa
    have hall := fieldsAligned_all 0 rs hfa
    rw [lcmAll_eq] at hL
    obtain ⟨l1, _, l3⟩ := lcmFrom_ok 1 rs L hL hall (by omega)
    have ha1 := isPow2_pos a hp
    have hmax : RustSem.maxAlign (rs.map toFld) ≤ a := by
      unfold RustSem.maxAlign
      apply foldl_max_le _ _ _ ha1
      intro f hf
      obtain ⟨r, hr, rfl⟩ := List.mem_map.mp hf
      obtain ⟨x, hx, _⟩ := hall r hr
      have := Nat.le_of_dvd l1 (l3 r hr x hx)
      simp only [toFld, hx, Option.getD_some]
      omega
    have hsa : RustSem.structAlign false (some a) (rs.map toFld) = a := by
      simp only [RustSem.structAlign, Bool.false_eq_true, if_false, Option.getD_some]
      omega
    refine ⟨h1, ?_, ?_⟩
    · simp only [Bool.false_eq_true, if_false]
      unfold RustSem.structSize
      rw [hsa, h2, Nat.zero_add, ← hs]
      exact alignUp_of_dvd size a h0 hmod
    · simpa using hsa

/-! ## `type_definition::build`, unfolded -/

theorem cast_ne_ok {α β} (e : Res α) (b : β) : (e.cast : Res β) ≠ .ok b := by
  cases e <;> simp [Res.cast]

def isFieldStmt (st : G.Stmt) : Bool := match st.field with | .field .. => true | .vftable _ => false

theorem stmtStep_pending (reg : Registry) (scope : List Path) (acc acc' : StmtAcc) (ist : Nat × G.Stmt)
    (h : stmtStep reg scope acc ist = .ok acc') :
    acc'.pending.length = acc.pending.length + (if isFieldStmt ist.2 then 1 else 0) := by
  obtain ⟨idx, st⟩ := ist
  unfold stmtStep at h
  simp only [] at h
  unfold isFieldStmt
  split at h
  · rename_i vis name ty hf
    simp only [hf, if_true]
    split at h
    · cases h
    · split at h
      · split at h
        · cases h
        · split at h
          · generalize (if (name != "_") = true then some name else none) = ident at h
            split at h
            · cases h
            · cases h; simp
          · exact absurd h (cast_ne_ok _ _)
      · exact absurd h (cast_ne_ok _ _)
  · rename_i fns hf
    simp only [hf, Bool.false_eq_true, if_false, Nat.add_zero]
    split at h
    · cases h
    · split at h
      · cases h
      · split at h
        · split at h
          · cases h; rfl
          · exact absurd h (cast_ne_ok _ _)
        · exact absurd h (cast_ne_ok _ _)

theorem stmts_pending (reg : Registry) (scope : List Path) (l : List (Nat × G.Stmt)) (acc acc' : StmtAcc)
    (h : Res.foldlM (stmtStep reg scope) acc l = .ok acc') :
    acc'.pending.length = acc.pending.length + ((l.map (·.2)).filter isFieldStmt).length := by
  induction l generalizing acc with
  | nil => simp only [Res.foldlM] at h; cases h; simp
  | cons x l ih =>
    unfold Res.foldlM at h
    split at h
    · rename_i acc1 h1
      have := stmtStep_pending reg scope acc acc1 x h1
      rw [ih acc1 h, this]
      simp only [List.map_cons, List.filter_cons]
      split <;> simp <;> omega
    all_goals cases h

theorem zipIdx_swap_snd {α} (l : List α) (i : Nat) :
    ((l.zipIdx i).map fun p => (p.2, p.1)).map (·.2) = l := by
  induction l generalizing i with
  | nil => rfl
  | cons a l ih => simp [List.zipIdx_cons, ih]

theorem resolveRegions_inv (s s1 : State) (owner : Path) (vis : Vis) (target : Option Nat)
    (pending : List (Option Nat × Region)) (vfns : Option (List SFunc))
    (regions : List Region) (vft : Option Vft) (size : Nat) (placed : List (Placed Region))
    (h : resolveRegions s owner vis target pending vfns = (s1, .ok (regions, vft, size, placed))) :
    ∃ vregion : Option Region,
      resolve (vregion.map (toPField s1.reg none)) (pending.map fun p => toPField s1.reg p.1 p.2) target
        = .ok (placed, size) ∧
      nameRegions s1.reg 0 placed = .ok regions := by
  unfold resolveRegions at h
  simp only [] at h
  split at h
  · simp only [Prod.mk.injEq] at h; exact absurd h.2 (by simp)
  · simp only [Prod.mk.injEq] at h; exact absurd h.2 (by simp)
  · simp only [Prod.mk.injEq] at h; exact absurd h.2 (by simp)
  · simp only [Prod.mk.injEq] at h; exact absurd h.2 (by simp)
  · split at h
    · rename_i s1' vft' vregion hb
      simp only [Prod.mk.injEq] at h
      obtain ⟨rfl, h⟩ := h
      refine ⟨vregion, ?_⟩
      split at h
      · rename_i placed' size' hr
        split at h
        · rename_i regions' hn
          cases h
          exact ⟨hr, hn⟩
        · exact absurd h (cast_ne_ok _ _)
      · exact absurd h (cast_ne_ok _ _)
    · simp only [Prod.mk.injEq] at h
      exact absurd h.2 (cast_ne_ok _ _)

theorem buildType_inv (s s1 : State) (path : Path) (vis : Vis) (d : G.TypeDef) (r : Resolved)
    (h : buildType s path vis d = (s1, .ok r)) :
    ∃ (module : Mod) (ta : TypeAttrs) (sa : StmtAcc) (regions : List Region) (vft : Option Vft)
      (placed : List (Placed Region)) (td : TypeDefn),
      Res.foldlM (stmtStep s.reg module.scope) {} (d.stmts.zipIdx.map fun p => (p.2, p.1)) = .ok sa ∧
      resolveRegions s path vis ta.targetSize sa.pending sa.vfns = (s1, .ok (regions, vft, r.size, placed)) ∧
      alignCheck s1.reg.ps ta.packed ta.align placed r.size = .ok r.align ∧
      r.inner = .type td ∧ td.regions = regions ∧ td.packed = ta.packed := by
  unfold buildType at h
  split at h
  · simp only [Prod.mk.injEq] at h; exact absurd h.2 (by simp)
  · rename_i module _
    split at h
    · simp only [Prod.mk.injEq] at h; exact absurd h.2 (by simp)
    · rename_i doc _
      split at h
      · rename_i ta _
        split at h
        · rename_i sa hsa
          split at h
          · rename_i s1' regions vft size placed hrr
            simp only [Prod.mk.injEq] at h
            obtain ⟨rfl, h⟩ := h
            split at h
            · cases h
            · split at h
              · split at h
                · split at h
                  · split at h
                    · rename_i alignment hal
                      cases h
                      exact ⟨module, ta, sa, regions, vft, placed, _, hsa, hrr, hal, rfl, rfl, rfl⟩
                    · exact absurd h (cast_ne_ok _ _)
                  · exact absurd h (cast_ne_ok _ _)
                · exact absurd h (cast_ne_ok _ _)
              · exact absurd h (cast_ne_ok _ _)
          · simp only [Prod.mk.injEq] at h; exact absurd h.2 (cast_ne_ok _ _)
        · simp only [Prod.mk.injEq] at h; exact absurd h.2 (cast_ne_ok _ _)
      · simp only [Prod.mk.injEq] at h; exact absurd h.2 (cast_ne_ok _ _)

theorem buildType_layout_lem (s s1 : State) (path : Path) (vis : Vis) (d : G.TypeDef) (r : Resolved)
    (h : buildType s path vis d = (s1, .ok r)) :
    ∃ (td : TypeDefn) (vptr : Option (PField Region)) (fields : List (PField Region)) (target align? : Option Nat)
      (placed : List (Placed Region)),
      r.inner = .type td
      ∧ resolve vptr fields target = .ok (placed, r.size)
      ∧ alignCheck s1.reg.ps td.packed align? placed r.size = .ok r.align
      ∧ nameRegions s1.reg 0 placed = .ok td.regions
      ∧ fields.length = (d.stmts.filter isFieldStmt).length := by
  obtain ⟨module, ta, sa, regions, vft, placed, td, hsa, hrr, hal, hin, hreg, hpk⟩ :=
    buildType_inv s s1 path vis d r h
  obtain ⟨vregion, hres, hname⟩ := resolveRegions_inv _ _ _ _ _ _ _ _ _ _ _ hrr
  refine ⟨td, _, _, ta.targetSize, ta.align, placed, hin, hres, by rw [hpk]; exact hal,
    by rw [hreg]; exact hname, ?_⟩
  have := stmts_pending _ _ _ _ _ hsa
  rw [zipIdx_swap_snd] at this
  simpa using this

/-! ## `nameRegions` -/

/-- what naming does to one placed region -/
def NamedAs (reg : Registry) (p : Placed Region) (r' : Region) : Prop :=
  match p.src with
  | some r => r'.ty = r.ty ∧ (r.name.isSome → r' = r)
  | none => ∃ t, reg.paddingType p.size = .ok t ∧ r'.ty = .data t ∧ r'.vis = .priv

theorem nameRegions_cons_inv (reg : Registry) (off : Nat) (p : Placed Region) (ps : List (Placed Region))
    (regions : List Region) (h : nameRegions reg off (p :: ps) = .ok regions) :
    ∃ r' rs, regions = r' :: rs ∧ nameRegions reg (off + p.size) ps = .ok rs ∧ NamedAs reg p r' := by
  unfold nameRegions at h
  split at h
  · rename_i r hr
    simp only [] at h
    split at h
    · rename_i rs hrs
      cases h
      refine ⟨_, rs, rfl, hrs, ?_⟩
      unfold NamedAs
      split at hr
      · rename_i r0 hsrc
        cases hr
        simp only [hsrc]
        cases hn : r.name with
        | none => simp
        | some n => simp
      · rename_i hsrc
        simp only [hsrc]
        split at hr
        · rename_i t ht
          cases hr
          exact ⟨t, ht, by simp, by simp⟩
        · exact absurd hr (cast_ne_ok _ _)
    · rename_i hne
      exact absurd h (hne _)
  · exact absurd h (cast_ne_ok _ _)

theorem nameRegions_types_lem (reg : Registry) (off : Nat) (placed : List (Placed Region)) (regions : List Region)
    (h : nameRegions reg off placed = .ok regions) :
    regions.length = placed.length ∧
    ∀ k (hk : k < placed.length) (hk' : k < regions.length), NamedAs reg placed[k] regions[k] := by
  induction placed generalizing off regions with
  | nil =>
    simp only [nameRegions] at h
    cases h
    exact ⟨rfl, fun k hk => by cases hk⟩
  | cons p ps ih =>
    obtain ⟨r', rs, rfl, hrs, hn⟩ := nameRegions_cons_inv reg off p ps regions h
    obtain ⟨i1, i2⟩ := ih _ rs hrs
    refine ⟨by simp [i1], ?_⟩
    intro k hk hk'
    cases k with
    | zero => exact hn
    | succ k =>
      simp only [List.getElem_cons_succ]
      exact i2 k (by simpa using hk) (by simpa using hk')

end PyxisVerif.C01
