import PyxisVerif.Lemmas.MonoVft
import PyxisVerif.Lemmas.C20E2E
/-!
# helper lemmas for the end-to-end frame theorem of C19 WITH vftable blocks (`Props/C19FrameVft.lean`)

`Lemmas/C19Frame.lean` proves the frame property for descriptions without `vftable` blocks, on top of
`Lemmas/Mono.lean`.  Here the same is done on top of `Lemmas/MonoVft.lean`, for descriptions in which nothing mentions
a generated `<T>Vftable` item by name (`C09.NoGenRefs`).

* Section A: a registry extension directly under `path` (`RegExt`) is an agreement outside the list of new keys
  (`C09.AgreeOut`), and every lookup made with a scope that does not mention `path` or a child of it is clean with
  respect to that list; so `C09.btV_out` / `C09.genOf_out` (written for the generated paths) give the locality of
  one attempt for free (`attempt_extV`).
* Section B: the item an old type generates is the same in both initial states (`gen_ext`), the concrete final
  registries (abstract registry plus generated items, `C09.Rep`) are again a `RegExt` directly under `path`
  (`rep_regExt`): a generated path has the parent of its owner.
* Section C: the fuel of `dfs_hierarchy` (`Settled`) – along a run (`run_settledV`) and for the generated items,
  which have no `#[base]` region (`rep_allSettled`).
* Section D: the frame property for states (`frame_statesV`).  The definition paths of an old module may be listed
  in a different order in the two final states (`add_item` prepends the generated paths in attempt order); the
  emitted file sorts them (`C20.reorder_definitions_lem`).
-/
namespace PyxisVerif.C19
open C09 Work Layout Mono

/-! ## A. `RegExt` as an agreement outside the new keys -/

/-- the keys of `t` that are not keys of `s` -/
def newKeys (s t : Registry) : List Path := (C10.keys t).filter fun q => !s.contains q

theorem mem_newKeys {s t : Registry} {q : Path} :
    q ∈ newKeys s t ↔ t.contains q = true ∧ s.contains q = false := by
  unfold newKeys
  rw [List.mem_filter, ← C10.contains_iff_mem_keys]
  simp

theorem RegExt.agreeOut {path : Path} {s t : Registry} (h : RegExt path s t) : AgreeOut (newKeys s t) s t := by
  refine ⟨h.ps, fun q hq => ?_⟩
  cases hs : s.contains q with
  | true => exact h.old q hs
  | false =>
    cases ht : t.contains q with
    | true => exact absurd (mem_newKeys.mpr ⟨ht, hs⟩) hq
    | false => rw [contains_false_get hs, contains_false_get ht]

theorem RegExt.newKeys_under {path : Path} {s t : Registry} (h : RegExt path s t) {q : Path}
    (hq : q ∈ newKeys s t) : ∃ x, q = path ++ [x] := by
  obtain ⟨ht, hs⟩ := mem_newKeys.mp hq
  rcases h.new q ht with h1 | h1
  · rw [hs] at h1; cases h1
  · exact h1

theorem RegExt.notNew_out {path : Path} {s t : Registry} (h : RegExt path s t) {q : Path} (hq : NotNew path q) :
    q ∉ newKeys s t := by
  intro hm
  obtain ⟨x, hx⟩ := h.newKeys_under hm
  exact hq x hx

theorem u8_notNew {path : Path} (hne : path ≠ []) : NotNew path ["u8"] := by
  intro x hx
  have := (List.append_inj' (s₁ := []) (t₁ := ["u8"]) hx rfl).1
  exact hne this.symm

section clean
variable {path : Path} {s t : Registry} (h : RegExt path s t) (hne : path ≠ []) {scope : List Path}
  (hs : GoodScope path scope)
include h hne hs

theorem cleanName_good (name : String) : CleanName (newKeys s t) scope name :=
  fun _ hq => h.notNew_out (cand_notNew hne hs hq)

theorem cleanTy_good (ty : G.Ty) : CleanTy (newKeys s t) scope ty := by
  induction ty with
  | cptr t ih => exact ih
  | mptr t ih => exact ih
  | arr t n ih => exact ih
  | ident nm => exact cleanName_good h hne hs nm
  | unk n => trivial

theorem cleanFunc_good (f : G.Func) : CleanFunc (newKeys s t) scope f := by
  refine ⟨?_, fun ty _ => cleanTy_good h hne hs ty⟩
  intro a _
  cases a with
  | constSelf => trivial
  | mutSelf => trivial
  | named n ty => exact cleanTy_good h hne hs ty

theorem cleanStmt_good (st : G.Stmt) : CleanStmt (newKeys s t) scope st := by
  unfold CleanStmt
  cases st.field with
  | field vis name ty => exact cleanTy_good h hne hs ty
  | vftable fns => exact fun f _ => cleanFunc_good h hne hs f

end clean

/-- **`type_definition::build` is local**, with or without a `vftable` block -/
theorem btV_ext {path : Path} {s t : Registry} (h : RegExt path s t) (hne : path ≠ []) (module : Mod)
    (hs : GoodScope path module.scope) (k : Path) (vis : Vis) (d : G.TypeDef) :
    btV t (some module) k vis d = btV s (some module) k vis d :=
  btV_out (h.notNew_out (u8_notNew hne)) h.agreeOut module k vis d
    (fun st _ => cleanStmt_good h hne hs st) (fun _ _ f _ => cleanFunc_good h hne hs f)

/-- … and so is the item it generates -/
theorem genOf_ext {path : Path} {s t : Registry} (h : RegExt path s t) (hne : path ≠ []) (module : Mod)
    (hs : GoodScope path module.scope) (k : Path) (vis : Vis) (d : G.TypeDef) :
    genOf t (some module) k vis d = genOf s (some module) k vis d :=
  genOf_out (h.notNew_out (u8_notNew hne)) h.agreeOut module k vis d (fun st _ => cleanStmt_good h hne hs st)

/-- **one attempt on an old item is local**, with `vftable` blocks, when nothing mentions a generated name -/
theorem attempt_extV {path : Path} (hne : path ≠ []) {s0 t0 : State} (hx : StExt path s0 t0)
    (hf : FrameInv path s0) (cs : Ctx s0) (ct : Ctx t0) (R : Reg Path Resolved) (k : Path)
    (hk : s0.reg.contains k = true) : attempt t0 R k = attempt s0 R k := by
  have hg : t0.reg.get k = s0.reg.get k := hx.reg.old k hk
  have hxr := regExt_stateOf hx.reg R
  unfold attempt
  rw [hg]
  cases hi : s0.reg.get k with
  | none => rfl
  | some i =>
    simp only []
    cases hpre : i.isPredefined with
    | true => simp only [if_true]
    | false =>
      simp only [Bool.false_eq_true, if_false]
      obtain ⟨m, hm⟩ := cs.ok.ok.parents k i hi (by simp [hpre])
      obtain ⟨hmt, hgs⟩ := moduleFor_ext hx hf k m hm
      have hms' : (stateOf s0 R).moduleFor k = some m := hm
      have hmt' : (stateOf t0 R).moduleFor k = some m := hmt
      cases hst : i.state with
      | res r => rfl
      | unres d =>
        simp only []
        cases hin : d.inner with
        | type td =>
          simp only []
          have hit : t0.reg.get k = some i := by rw [hg, hi]
          rw [buildType_canon ct R hit hst hin, buildType_canon cs R hi hst hin, hmt, hm,
            btV_ext hxr hne m hgs k d.vis td]
        | enum ed =>
          simp only []
          rw [buildEnum_ext hxr hne k (hmt'.trans hms'.symm)
            (fun module hmod => by rw [hms'] at hmod; cases hmod; exact hgs) ed]

theorem run_transportV {path : Path} (hne : path ≠ []) {s0 t0 : State} (hx : StExt path s0 t0)
    (hf : FrameInv path s0) (cs : Ctx s0) (ct : Ctx t0) {R : Reg Path Resolved}
    (r : Run (attempt s0) R0 R) : Run (attempt t0) R0 R := by
  induction r with
  | start => exact Run.start
  | step R k v _ hk ha ih =>
    refine Run.step R k v ih hk ?_
    obtain ⟨i, _, hi, _, _⟩ := attempt_pending s0 R k (by rw [ha]; intro e; cases e)
    rw [attempt_extV hne hx hf cs ct R k (contains_of_get hi)]
    exact ha

/-! ## B. generated items, and the concrete final registries -/

theorem parent_eq {q key : Path} (h : Path.parent? q = some key) : ∃ x, q = key ++ [x] := by
  unfold Path.parent? at h
  split at h
  · cases h
  · next hne =>
    simp only [Option.some.injEq] at h
    cases hl : q.getLast? with
    | none =>
      rw [List.getLast?_eq_none_iff] at hl
      subst hl
      simp at hne
    | some x =>
      obtain ⟨ys, rfl⟩ := List.getLast?_eq_some_iff.mp hl
      refine ⟨x, ?_⟩
      rw [← h]
      simp

/-- the item an old type generates is the same in both initial states -/
theorem gen_ext {path : Path} (hne : path ≠ []) {s0 t0 : State} (hx : StExt path s0 t0) (hf : FrameInv path s0)
    (cs : Ctx s0) {T : Path} {item : ItemDef} (hT : s0.reg.contains T = true) :
    C09.Gen t0 T item ↔ C09.Gen s0 T item := by
  have hg : t0.reg.get T = s0.reg.get T := hx.reg.old T hT
  have key : ∀ i d td, s0.reg.get T = some i → i.isPredefined = false → i.state = .unres d → d.inner = .type td →
      genOf t0.reg (t0.moduleFor T) T d.vis td = genOf s0.reg (s0.moduleFor T) T d.vis td := by
    intro i d td hi hpre _ _
    obtain ⟨m, hm⟩ := cs.ok.ok.parents T i hi (by simp [hpre])
    obtain ⟨hmt, hgs⟩ := moduleFor_ext hx hf T m hm
    rw [hmt, hm, genOf_ext hx.reg hne m hgs T d.vis td]
  constructor
  · rintro ⟨i, d, td, h1, h2, h3, h4, h5⟩
    rw [hg] at h1
    exact ⟨i, d, td, h1, h2, h3, h4, by rw [← key i d td h1 h2 h3 h4]; exact h5⟩
  · rintro ⟨i, d, td, h1, h2, h3, h4, h5⟩
    exact ⟨i, d, td, by rw [hg]; exact h1, h2, h3, h4, by rw [key i d td h1 h2 h3 h4]; exact h5⟩

theorem gen_contains {s0 : State} {T : Path} {a : ItemDef} (ha : C09.Gen s0 T a) : s0.reg.contains T = true := by
  obtain ⟨i, _, _, h1, _⟩ := ha
  exact contains_of_get h1

/-- an old key is a key of every state that represents a registry over the initial state, with the abstract entry -/
theorem rep_get_old {s0 : State} {R : Reg Path Resolved} {s : State} (h : Rep s0 R s) {q : Path}
    (hq : s0.reg.contains q = true) : s.reg.get q = (stateOf s0 R).reg.get q := by
  rcases h.entries q with e | ⟨e0, _⟩
  · exact e
  · unfold Registry.contains at hq
    rw [e0] at hq
    cases hq

theorem rep_contains_old {s0 : State} {R : Reg Path Resolved} {s : State} (h : Rep s0 R s) {q : Path}
    (hq : s0.reg.contains q = true) : s.reg.contains q = true := by
  unfold Registry.contains
  rw [rep_get_old h hq]
  have := contains_stateOf s0 R q
  unfold Registry.contains at this
  rw [this]
  exact hq

/-- **the concrete final registries** (abstract registry plus generated items) of the old and of the new state agree on
    everything that is not directly under `path`: a generated item has the parent of its owner, and an old owner
    generates the same item in both -/
theorem rep_regExt {path : Path} (hne : path ≠ []) {s0 t0 : State} (hx : StExt path s0 t0) (hf : FrameInv path s0)
    (cs : Ctx s0) {R1 R2 : Reg Path Resolved} {s1 s2 : State}
    (hfin : RegExt path (stateOf s0 R1).reg (stateOf t0 R2).reg) (rep1 : Rep s0 R1 s1) (rep2 : Rep t0 R2 s2)
    (t1 : Total s0 R1) (t2 : Total t0 R2) : RegExt path s1.reg s2.reg := by
  refine ⟨rep2.ps.trans (hx.reg.ps.trans rep1.ps.symm), ?_, ?_⟩
  · intro q hq
    rcases rep1.entries q with e | ⟨e0, T, item, hg, hp, e⟩
    · have hc : (stateOf s0 R1).reg.contains q = true := by
        unfold Registry.contains at hq ⊢; rw [← e]; exact hq
      have h2 := hfin.old q hc
      have hc0 : s0.reg.contains q = true := by rw [contains_stateOf] at hc; exact hc
      have hct : t0.reg.contains q = true := by
        unfold Registry.contains; rw [hx.reg.old q hc0]; exact hc0
      rw [rep_get_old rep2 hct, h2, e]
    · have hg' : C09.Gen t0 T item := (gen_ext hne hx hf cs (gen_contains hg)).mpr hg
      obtain ⟨v, hv⟩ := Option.isSome_iff_exists.mp (t2 T hg'.pending)
      have := rep2.registered T v item hv hg'
      rw [hp] at this
      rw [this, e]
  · intro q hq
    rcases rep2.entries q with e | ⟨e0, T, item, hg, hp, e⟩
    · have hc : (stateOf t0 R2).reg.contains q = true := by
        unfold Registry.contains at hq ⊢; rw [← e]; exact hq
      rcases hfin.new q hc with h1 | h1
      · left
        rw [contains_stateOf] at h1
        exact rep_contains_old rep1 h1
      · exact .inr h1
    · by_cases hT : s0.reg.contains T = true
      · left
        have hg' : C09.Gen s0 T item := (gen_ext hne hx hf cs hT).mp hg
        obtain ⟨v, hv⟩ := Option.isSome_iff_exists.mp (t1 T hg'.pending)
        have := rep1.registered T v item hv hg'
        rw [hp] at this
        exact contains_of_get this
      · right
        rcases hx.reg.new T (gen_contains hg) with h1 | ⟨x, hx'⟩
        · exact absurd h1 hT
        · obtain ⟨name, _, e2⟩ := vftablePath_eq hg.path
          refine ⟨PyxisVerif.Gen.fmtVftableType name, ?_⟩
          rw [← hp, e2, hx']
          simp

/-! ## C. the fuel of `dfs_hierarchy` is never exhausted, with generated items -/

theorem btTail_regions {reg : Registry} {m : Mod} {path : Path} {doc : Option String} {ta : TypeAttrs}
    {regions : List Region} {vft : Option Vft} {size : Nat} {placed : List (Placed Region)} {v : Resolved}
    (h : btTail reg m path doc ta regions vft size placed = .ok v) : ∃ td, v.inner = .type td ∧ td.regions = regions := by
  unfold btTail at h
  simp only [] at h
  split at h
  · split at h
    · split at h
      · split at h
        · cases h; exact ⟨_, rfl, rfl⟩
        · exact absurd h (C01.cast_ne_ok _ _)
      · exact absurd h (C01.cast_ne_ok _ _)
    · exact absurd h (C01.cast_ne_ok _ _)
  · exact absurd h (C01.cast_ne_ok _ _)

/-- what a successful `type_definition::build` consists of -/
theorem btV_inv {reg : Registry} {m : Mod} {path : Path} {vis : Vis} {d : G.TypeDef} {v : Resolved}
    (h : btV reg (some m) path vis d = .ok v) :
    ∃ doc ta sa regions vft size placed, foldStmts reg m.scope d = .ok sa ∧
      rrV reg (regAfter reg path vis sa.vfns) path ta.targetSize sa.pending sa.vfns
        = .ok (regions, vft, size, placed) ∧
      btTail (regAfter reg path vis sa.vfns) m path doc ta regions vft size placed = .ok v := by
  unfold btV at h
  simp only [] at h
  cases hdoc : G.docOf d.attrs with
  | none => rw [hdoc] at h; cases h
  | some doc =>
    rw [hdoc] at h
    simp only [] at h
    cases hta : Res.foldlM typeAttrStep {} d.attrs with
    | ok ta =>
      rw [hta] at h
      simp only [] at h
      cases hsa : foldStmts reg m.scope d with
      | ok sa =>
        rw [hsa] at h
        simp only [] at h
        cases hrr : rrV reg (regAfter reg path vis sa.vfns) path ta.targetSize sa.pending sa.vfns with
        | ok x =>
          obtain ⟨regions, vft, size, placed⟩ := x
          rw [hrr] at h
          exact ⟨doc, ta, sa, regions, vft, size, placed, rfl, hrr, h⟩
        | defer => rw [hrr] at h; cases h
        | err e => rw [hrr] at h; cases h
        | panic e => rw [hrr] at h; cases h
      | defer => rw [hsa] at h; cases h
      | err e => rw [hsa] at h; cases h
      | panic e => rw [hsa] at h; cases h
    | defer => rw [hta] at h; cases h
    | err e => rw [hta] at h; cases h
    | panic e => rw [hta] at h; cases h

/-- what is resolved after the registration of a generated item and is not a generated path was resolved before -/
theorem known_of_regAfter {Gs : List Path} (r : Registry) (owner : Path) (vis : Vis) (vfns : Option (List SFunc))
    (hg : ∀ item, genItem r owner vis vfns = some item → item.path ∈ Gs) (t : RTy)
    (hk : KnownR (regAfter r owner vis vfns) t) (ho : OutR Gs t) : KnownR r t := by
  unfold regAfter at hk
  cases hgi : genItem r owner vis vfns with
  | none => rw [hgi] at hk; exact hk
  | some item =>
    rw [hgi] at hk
    simp only [] at hk
    cases t with
    | fn cc args ret => trivial
    | data d =>
      intro q hq
      obtain ⟨i, res, hi, hres⟩ := hk q hq
      rw [C14.get_add, if_neg (fun (e : q = item.path) => ho q hq (by rw [e]; exact hg item hgi))] at hi
      exact ⟨i, res, hi, hres⟩

/-- the regions of a type that an attempt resolves have resolved by-value dependencies -/
theorem attempt_done_knownV {s0 : State} (cs : Ctx s0) (R : Reg Path Resolved) (k : Path)
    (v : Resolved) (td : TypeDefn) (ha : attempt s0 R k = .done v) (hin : v.inner = .type td) :
    ∀ r ∈ td.regions, KnownR (stateOf s0 R).reg r.ty := by
  have hus : U8 (stateOf s0 R).reg := stateOf_u8 s0 R (u8_of_ok cs.ok.ok)
  obtain ⟨i0, d0, hi0, hpre, hst0⟩ := attempt_pending s0 R k (by rw [ha]; intro e; cases e)
  unfold attempt at ha
  simp only [hi0, hpre, hst0, Bool.false_eq_true, if_false] at ha
  cases hinn : d0.inner with
  | type td0 =>
    simp only [hinn] at ha
    rw [buildType_canon cs R hi0 hst0 hinn] at ha
    have hb := toOut_done ha
    obtain ⟨m, hm⟩ := cs.ok.ok.parents k i0 hi0 (by simp [hpre])
    rw [hm] at hb
    obtain ⟨doc, ta, sa, regions, vft, size, placed, hsa, hrr, htail⟩ := btV_inv hb
    obtain ⟨td', hin', hregs⟩ := btTail_regions htail
    rw [hin] at hin'
    cases hin'
    rw [hregs]
    have hstm := cs.stmts hi0 hst0 hinn hm
    have hcl : ∀ ist ∈ (td0.stmts.zipIdx.map fun p => (p.2, p.1)), CleanStmt (genPaths s0) m.scope ist.2 := by
      intro ist hist
      apply hstm
      have := List.mem_map_of_mem (f := (·.2)) hist
      rw [C01.zipIdx_swap_snd] at this
      exact this
    have hpo : PendOut (genPaths s0) sa := stmts_fold_pendOut cs.u8 _ _ hcl sa hsa
    have hgen : ∀ item, genItem (stateOf s0 R).reg k d0.vis sa.vfns = some item → item.path ∈ genPaths s0 := by
      intro item hitem
      have e1 : genOf (stateOf s0 R).reg (some m) k d0.vis td0 = some item := by
        simp only [genOf, vfnsOf, hsa]; exact hitem
      rw [genOf_keys s0.reg (stateOf s0 R).reg (contains_stateOf s0 R) rfl] at e1
      exact genOf_mem cs.ok.ok.u8c hi0 hst0 hinn e1
    intro r hr
    exact known_of_regAfter _ k d0.vis sa.vfns hgen r.ty
      (rrV_known (u8_regAfter _ k d0.vis sa.vfns hus) hrr r hr) (rrV_out cs.u8 hpo hrr r hr)
  | enum ed =>
    simp only [hinn] at ha
    obtain ⟨e, _, he, _⟩ := C02.buildEnum_inv (stateOf s0 R) k ed v (toOut_done ha)
    rw [hin] at he
    cases he

/-- **along a run every resolved type is settled from fuel "number of resolved entries" on**, with `vftable` blocks -/
theorem run_settledV {s0 : State} (cs : Ctx s0) (hflat : Flat s0)
    {R : Reg Path Resolved} (r : Run (attempt s0) R0 R) : AllSettled (stateOf s0 R).reg (cnt s0 R) := by
  induction r with
  | start =>
    intro p i res td hi hres hin
    rw [stateOf_R0] at hi ⊢
    exact (settled_flat s0.reg td (hflat p i hi res td (state_of_resolved hres) hin)).mono
      (ResLe.refl _) (Nat.zero_le _)
  | step R k v _ hk ha ih =>
    have hpend := attempt_pending s0 R k (by rw [ha]; intro e; cases e)
    have hle : ResLe (stateOf s0 R).reg (stateOf s0 (upd R k v)).reg :=
      ResLe.of_regLe (stateOf_le s0 R (upd R k v) (le_upd R k v hk))
    have hc := cnt_step s0 R k v hpend hk
    intro p i res td hi hres hin
    rw [get_stateOf] at hi
    by_cases hpk : p = k
    · subst hpk
      obtain ⟨i0, d0, hi0, _, hst0⟩ := hpend
      rw [hi0] at hi
      simp only [Option.map_some, Option.some.injEq] at hi
      rw [resItem_some (upd R p v) p i0 d0 v hst0 (by simp [upd])] at hi
      subst hi
      simp only [ItemDef.resolved?, Option.some.injEq] at hres
      subst hres
      exact (settled_step _ (cnt s0 R) td (attempt_done_knownV cs R p v td ha hin) ih).mono hle hc
    · rw [resItem_upd_ne' R k v p hpk, ← get_stateOf] at hi
      exact (ih p i res td hi hres hin).mono hle (by omega)

/-- a generated vftable struct has no `#[base]` region -/
theorem genItem_noBase {reg : Registry} {owner : Path} {vis : Vis} {vfns : Option (List SFunc)} {item : ItemDef}
    {res : Resolved} {td : TypeDefn} (h : genItem reg owner vis vfns = some item) (hres : item.resolved? = some res)
    (hin : res.inner = .type td) : ∀ r ∈ td.regions, r.isBase = false := by
  unfold genItem at h
  cases vfns with
  | none => cases h
  | some fns =>
    simp only [Option.bind_some] at h
    unfold buildVftableItem at h
    obtain ⟨q, _, rfl⟩ := Option.map_eq_some_iff.mp h
    simp only [ItemDef.resolved?, Option.some.injEq] at hres
    subst hres
    simp only [SInner.type.injEq] at hin
    subst hin
    intro r hr
    obtain ⟨f, _, rfl⟩ := List.mem_map.mp hr
    rfl

theorem settled_noBase (reg : Registry) (n : Nat) (td : TypeDefn) (hb : ∀ r ∈ td.regions, r.isBase = false) :
    Settled reg n td := by
  refine ⟨fun _ => [], ?_⟩
  intro reg' _ m _ fp
  cases m with
  | zero => simp only [Emit.dfsHierarchy]
  | succ m => exact dfs_no_bases reg' m td fp hb

theorem rep_resLe {s0 : State} {R : Reg Path Resolved} {s : State} (rep : Rep s0 R s) :
    ResLe (stateOf s0 R).reg s.reg := by
  intro q i res hi hr
  refine ⟨i, ?_, hr⟩
  have hc : s0.reg.contains q = true := by rw [← contains_stateOf s0 R q]; exact contains_of_get hi
  rw [rep_get_old rep hc]
  exact hi

/-- every resolved type of a state that represents `R` – the generated ones too – is settled from the fuel of `R` on -/
theorem rep_allSettled {s0 : State} {R : Reg Path Resolved} {s : State} (rep : Rep s0 R s) {n : Nat}
    (a : AllSettled (stateOf s0 R).reg n) : AllSettled s.reg n := by
  intro p i res td hi hres hin
  rcases rep.entries p with e | ⟨_, T, item, hg, hp, e⟩
  · rw [e] at hi
    exact (a p i res td hi hres hin).mono (rep_resLe rep) (Nat.le_refl n)
  · rw [e] at hi
    cases hi
    obtain ⟨i', d, td', _, _, _, _, h5⟩ := hg
    exact settled_noBase _ _ _ (genItem_noBase h5 hres hin)

theorem rep_length {s0 : State} {R : Reg Path Resolved} {s : State} (rep : Rep s0 R s)
    (hn0 : (C10.keys s0.reg).Nodup) : s0.reg.types.length ≤ s.reg.types.length := by
  have := C10.nodup_subset_length (C10.keys s0.reg) (C10.keys s.reg) hn0 (fun q hq =>
    (C10.contains_iff_mem_keys s.reg q).mp (rep_contains_old rep ((C10.contains_iff_mem_keys s0.reg q).mpr hq)))
  simpa [C10.keys] using this

theorem cnt_le_rep {s0 : State} {R : Reg Path Resolved} {s : State} (rep : Rep s0 R s)
    (hn0 : (C10.keys s0.reg).Nodup) : cnt s0 R ≤ s.reg.types.length := by
  have h1 := cnt_le s0 R
  have h2 : (stateOf s0 R).reg.types.length = s0.reg.types.length := by simp [stateOf]
  have h3 := rep_length rep hn0
  omega

/-! ## D. the frame property for states -/

theorem dpRep_under {s0 : State} {reg : Registry} {key : Path} {m0 : Mod} {dp : List Path}
    (h : DpRep s0 reg key m0 dp) (hd : ∀ p ∈ m0.defPaths, ∃ x, p = key ++ [x]) : ∀ p ∈ dp, ∃ x, p = key ++ [x] := by
  obtain ⟨L, h1, _, h3⟩ := h
  intro p hp
  rw [h1] at hp
  rcases List.mem_append.mp hp with hp | hp
  · exact parent_eq ((h3 p).mp hp).2.2.2
  · exact hd p hp

/-- the definition paths of an old module in the two final states: the same paths, maybe in another order -/
theorem dpRep_perm {path : Path} {s0 t0 : State} (hx : StExt path s0 t0) {r1 r2 : Registry}
    (hfin : RegExt path r1 r2) {key : Path} (hk : key ≠ path) {m0 : Mod} {dp1 dp2 : List Path}
    (h1 : DpRep s0 r1 key m0 dp1) (h2 : DpRep t0 r2 key m0 dp2) : dp2.Perm dp1 := by
  obtain ⟨L1, a1, b1, c1⟩ := h1
  obtain ⟨L2, a2, b2, c2⟩ := h2
  rw [a1, a2]
  refine List.Perm.append_right _ ?_
  rw [List.perm_ext_iff_of_nodup b2 b1]
  intro q
  rw [c1 q, c2 q]
  constructor
  · rintro ⟨x1, x2, x3, x4⟩
    obtain ⟨x, rfl⟩ := parent_eq x4
    have hnn := notNew_of_parent hk x
    exact ⟨x1, by rw [← hx.reg.get_notNew hnn]; exact x2, by rw [← hfin.contains_notNew hnn]; exact x3, x4⟩
  · rintro ⟨x1, x2, x3, x4⟩
    obtain ⟨x, rfl⟩ := parent_eq x4
    have hnn := notNew_of_parent hk x
    exact ⟨x1, by rw [hx.reg.get_notNew hnn]; exact x2, by rw [hfin.contains_notNew hnn]; exact x3, x4⟩

/-- **frame, for states, with `vftable` blocks**: `t0` is `s0` plus a module `path` that no scope of `s0` mentions, nothing in
    either state mentions a generated name; when both builds succeed (under any two priorities), the final registries
    agree on everything that is not directly under `path` (`RegExt`: this covers the generated items of the old modules,
    which are there in both, and puts the generated items of the new module among the new entries), the final module
    list of `t0` is that of `s0` plus the new module up to the order of the definition paths, and every module of the
    old final state is printed identically from the new final state -/
theorem frame_statesV {path : Path} (hne : path ≠ []) {s0 t0 : State} (hx : StExt path s0 t0)
    (hf : FrameInv path s0) (cs : Ctx s0) (ct : Ctx t0) (hfs : Flat s0) (hft : Flat t0) (p1 p2 : List Path)
    (s s' : State) (h : s0.build p1 = .ok s) (h' : t0.build p2 = .ok s') :
    RegExt path s.reg s'.reg ∧
    ∃ (base : List (Path × Mod)) (f1 f2 : Path → List Path) (M' : Mod),
      s.modules = base.map (fun e => (e.1, { e.2 with defPaths := f1 e.1 })) ∧
      s'.modules = (path, M') :: base.map (fun e => (e.1, { e.2 with defPaths := f2 e.1 })) ∧
      (∀ e ∈ base, e.1 ≠ path) ∧
      (∀ k, (List.lookup k base).isSome = (s0.getModule k).isSome) ∧
      (∀ e ∈ base, (f2 e.1).Perm (f1 e.1)) ∧
      (∀ e ∈ base, Emit.moduleFile s' e.1 { e.2 with defPaths := f2 e.1 }
        = Emit.moduleFile s e.1 { e.2 with defPaths := f1 e.1 }) := by
  obtain ⟨s1, l1, ms1, m1, rfl⟩ := build_ok_inv s0 p1 s h
  obtain ⟨s2, l2, ms2, m2, rfl⟩ := build_ok_inv t0 p2 s' h'
  have hns := cs.ok.ok.reg.keys
  have hnt := ct.ok.ok.reg.keys
  have q1 := resolveLoop_simV cs p1 (2 * (s0.reg.types.filter fun e => !e.2.isResolved).length + 2) R0
    Run.start s0 (Rep.init cs) hns
  have q2 := resolveLoop_simV ct p2 (2 * (t0.reg.types.filter fun e => !e.2.isResolved).length + 2) R0
    Run.start t0 (Rep.init ct) hnt
  rw [l1] at q1
  rw [l2] at q2
  obtain ⟨R1, r1, rep1, n1, tot1⟩ := q1
  obtain ⟨R2, r2, rep2, n2, tot2⟩ := q2
  have hm := attempt_monoV ct
  have r1' := run_transportV hne hx hf cs ct r1
  have hfin0 := final_regExt hx hm r1 r1' r2 tot1 tot2
  have hfin : RegExt path s1.reg s2.reg := rep_regExt hne hx hf cs hfin0 rep1 rep2 tot1 tot2
  have hwk2 : C20.WK s2.reg := C20.WK.resolveLoop p2 _ (fun q i hi => ct.ok.ok.reg.wellKeyed q i hi) l2
  obtain ⟨f1, hf1, hd1⟩ := rep1.mods
  obtain ⟨f2, hf2, hd2⟩ := rep2.mods
  obtain ⟨M, hM⟩ := hx.mods
  have m1' : Res.mapM' (xvStep s1.reg) s1.modules = .ok ms1 := m1
  have m2' : Res.mapM' (xvStep s2.reg) s2.modules = .ok ms2 := m2
  rw [hf1, mapM'_xv] at m1'
  rw [hf2, mapM'_xv, hM] at m2'
  cases hb1 : Res.mapM' (xvStep s1.reg) s0.modules with
  | ok base =>
    rw [hb1] at m1'
    simp only [Res.ok.injEq] at m1'
    cases hb2 : Res.mapM' (xvStep s2.reg) ((path, M) :: s0.modules) with
    | ok base2 =>
      rw [hb2] at m2'
      simp only [Res.ok.injEq] at m2'
      obtain ⟨M'', hbase2⟩ := xvals_modules hfin hne s0.modules hf.scopes M base base2 hb1 hb2
      subst hbase2
      have a1 : AllSettled s1.reg (cnt s0 R1) := rep_allSettled rep1 (run_settledV cs hfs r1)
      have a2 : AllSettled s2.reg (cnt t0 R2) := rep_allSettled rep2 (run_settledV ct hft r2)
      have hc1 := cnt_le_rep rep1 hns
      have hc2 := cnt_le_rep rep2 hnt
      -- every module of `base` comes from a module of `s0` with the same key
      have hsrc : ∀ e ∈ base, ∃ e0 ∈ s0.modules, e.1 = e0.1 := by
        intro e he
        obtain ⟨e0, he0, hxe⟩ := mapM'_mem _ _ _ hb1 e he
        exact ⟨e0, he0, (xvStep_inv _ e0 e hxe).1⟩
      have hperm : ∀ e ∈ base, (f2 e.1).Perm (f1 e.1) := by
        intro e he
        obtain ⟨e0, he0, hk⟩ := hsrc e he
        rw [hk]
        exact dpRep_perm hx hfin (hf.nokey e0 he0) (hd1 e0 he0)
          (hd2 e0 (by rw [hM]; exact List.mem_cons_of_mem _ he0))
      refine ⟨hfin, base, f1, f2, { M'' with defPaths := f2 path }, m1'.symm, ?_, ?_, ?_, hperm, ?_⟩
      · rw [← m2']
        rfl
      · intro e he
        obtain ⟨e0, he0, hk⟩ := hsrc e he
        rw [hk]
        exact hf.nokey e0 he0
      · intro k
        exact lookup_mapM' _ (fun a b hab => (xvStep_inv _ a b hab).1) s0.modules base hb1 k
      · intro e he
        obtain ⟨e0, he0, hk⟩ := hsrc e he
        have hkp : e.1 ≠ path := by rw [hk]; exact hf.nokey e0 he0
        have hunder : ∀ p ∈ f1 e.1, ∃ x, p = e.1 ++ [x] := by
          rw [hk]
          exact dpRep_under (hd1 e0 he0) (hf.defs e0 he0)
        have e1 := C20.reorder_definitions_lem ⟨ms2, s2.reg⟩ e.1 { e.2 with defPaths := f1 e.1 }
          { e.2 with defPaths := f2 e.1 } (hperm e he) hwk2 rfl
        rw [e1]
        apply module_file_lem
        · intro p hp
          obtain ⟨x, rfl⟩ := hunder p hp
          exact hfin.get_notNew (notNew_of_parent hkp x)
        · intro p _ i hi
          exact itemItems_settled (ResLe.of_regExt hfin) a1 a2 hc1 hc2 p i hi (hfin.get_ext hi)
    | defer => rw [hb2] at m2'; cases m2'
    | err e => rw [hb2] at m2'; cases m2'
    | panic e => rw [hb2] at m2'; cases m2'
  | defer => rw [hb1] at m1'; cases m1'
  | err e => rw [hb1] at m1'; cases m1'
  | panic e => rw [hb1] at m1'; cases m1'

end PyxisVerif.C19
