import PyxisVerif.Spec.C20
import PyxisVerif.Lemmas.C01
import PyxisVerif.Lemmas.C04
/-! helper lemmas for C20 -/
namespace PyxisVerif.C20
open Layout

/-! ## the placement loop as a bind -/

theorem pushPad_zero {β} (st : St β) : pushPad st 0 = .ok st := by
  simp [pushPad, push]

/-- one iteration of `place` -/
def placeStep {β} (st : St β) (f : PField β) : Res (St β) :=
  match f.addr with
  | some a =>
    if a < st.2 then .err "attempted to insert padding, but overlapped with existing region"
    else Res.bind (pushPad st (a - st.2)) (fun st1 => pushField st1 f)
  | none => pushField st f

theorem place_cons {β} (st : St β) (f : PField β) (fs : List (PField β)) :
    place st (f :: fs) = Res.bind (placeStep st f) (fun st2 => place st2 fs) := by
  rw [place.eq_def]
  simp only [placeStep]
  cases f.addr with
  | none =>
    simp only
    cases pushField st f <;> rfl
  | some a =>
    simp only
    by_cases c : a < st.2
    · simp only [c, if_true]; rfl
    · simp only [c, if_false]
      cases pushPad st (a - st.2) with
      | ok st1 =>
        simp only [Res.bind]
        cases pushField st1 f <;> rfl
      | _ => rfl

theorem place_nil {β} (st : St β) : place st [] = .ok st := by
  rw [place.eq_def]

theorem place_append {β} (st : St β) (pre post : List (PField β)) :
    place st (pre ++ post) = Res.bind (place st pre) (fun st1 => place st1 post) := by
  induction pre generalizing st with
  | nil => simp [place_nil, Res.bind]
  | cons f pre ih =>
    simp only [List.cons_append, place_cons]
    cases placeStep st f with
    | ok st2 => simp only [Res.bind]; exact ih st2
    | _ => rfl

theorem placeStep_addr_irrel_none {β} (st : St β) (f : PField β) :
    placeStep st { f with addr := some st.2 } = placeStep st { f with addr := none } := by
  simp [placeStep, pushPad_zero, Res.bind, pushField]

theorem explicit_address_noop_lem {β} (st : St β) (f : PField β) (fs : List (PField β)) :
    place st ({ f with addr := some st.2 } :: fs) = place st ({ f with addr := none } :: fs) := by
  rw [place_cons, place_cons, placeStep_addr_irrel_none]

theorem explicit_address_noop_at_lem {β} (st st1 : St β) (pre : List (PField β)) (f : PField β)
    (post : List (PField β)) (h : place st pre = .ok st1) :
    place st (pre ++ { f with addr := some st1.2 } :: post) = place st (pre ++ { f with addr := none } :: post) := by
  rw [place_append, place_append, h]
  simp only [Res.bind]
  exact explicit_address_noop_lem st1 f post

end PyxisVerif.C20
