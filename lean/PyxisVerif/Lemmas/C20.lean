import PyxisVerif.Spec.C20
/-! helper lemmas for C20 -/
namespace PyxisVerif.C20
open Layout

/-! ## the placement loop as a bind -/

theorem pushPad_zero {β} (st : St β) : pushPad st 0 = .ok st := by
  simp [pushPad, push]

/-- one iteration of `place` -/
def placeStep {β} (st : St β) (f : PField β) : Res (St β) :=
  match f.addr with
  | some a =>
    if a < st.2 then .err "attempted to insert padding, but overlapped with existing region"
    else Res.bind (pushPad st (a - st.2)) (fun st1 => pushField st1 f)
  | none => pushField st f

theorem place_cons {β} (st : St β) (f : PField β) (fs : List (PField β)) :
    place st (f :: fs) = Res.bind (placeStep st f) (fun st2 => place st2 fs) := by
  rw [place.eq_def]
  simp only [placeStep]
  cases f.addr with
  | none =>
    simp only
    cases pushField st f <;> rfl
  | some a =>
    simp only
    by_cases c : a < st.2
    · simp only [c, if_true]; rfl
    · simp only [c, if_false]
      cases pushPad st (a - st.2) with
      | ok st1 =>
        simp only [Res.bind]
        cases pushField st1 f <;> rfl
      | _ => rfl

theorem place_nil {β} (st : St β) : place st [] = .ok st := by
  rw [place.eq_def]

theorem place_append {β} (st : St β) (pre post : List (PField β)) :
    place st (pre ++ post) = Res.bind (place st pre) (fun st1 => place st1 post) := by
  induction pre generalizing st with
  | nil => simp [place_nil, Res.bind]
  | cons f pre ih =>
    simp only [List.cons_append, place_cons]
    cases placeStep st f with
    | ok st2 => simp only [Res.bind]; exact ih st2
    | _ => rfl

theorem placeStep_addr_irrel_none {β} (st : St β) (f : PField β) :
    placeStep st { f with addr := some st.2 } = placeStep st { f with addr := none } := by
  simp [placeStep, pushPad_zero, Res.bind, pushField]

theorem explicit_address_noop_lem {β} (st : St β) (f : PField β) (fs : List (PField β)) :
    place st ({ f with addr := some st.2 } :: fs) = place st ({ f with addr := none } :: fs) := by
  rw [place_cons, place_cons, placeStep_addr_irrel_none]

theorem explicit_address_noop_at_lem {β} (st st1 : St β) (pre : List (PField β)) (f : PField β)
    (post : List (PField β)) (h : place st pre = .ok st1) :
    place st (pre ++ { f with addr := some st1.2 } :: post) = place st (pre ++ { f with addr := none } :: post) := by
  rw [place_append, place_append, h]
  simp only [Res.bind]
  exact explicit_address_noop_lem st1 f post

/-! ## placement from related states -/

/-- two placed regions that are equal, or a source gap `r` of `n` bytes against generated padding -/
def PR (r : Region) (n : Nat) (p q : Placed Region) : Prop :=
  p = q ∨ (p.src = some r ∧ q.src = none ∧ p.size = n ∧ q.size = n ∧ p.align = q.align)

inductive LR (r : Region) (n : Nat) : List (Placed Region) → List (Placed Region) → Prop
  | nil : LR r n [] []
  | cons {p q ps qs} : PR r n p q → LR r n ps qs → LR r n (p :: ps) (q :: qs)

theorem LR.refl (r : Region) (n : Nat) (l : List (Placed Region)) : LR r n l l := by
  induction l with
  | nil => exact .nil
  | cons p ps ih => exact .cons (.inl rfl) ih

theorem LR.append {r : Region} {n : Nat} {a b c d : List (Placed Region)}
    (h1 : LR r n a b) (h2 : LR r n c d) : LR r n (a ++ c) (b ++ d) := by
  induction h1 with
  | nil => exact h2
  | cons hp _ ih => exact .cons hp ih

theorem LR.length_eq {r : Region} {n : Nat} {a b : List (Placed Region)} (h : LR r n a b) :
    a.length = b.length := by
  induction h with
  | nil => rfl
  | cons _ _ ih => simp [ih]

theorem LR.map_eq {r : Region} {n : Nat} {a b : List (Placed Region)} (h : LR r n a b) :
    a.map (fun p => (p.size, p.align)) = b.map (fun p => (p.size, p.align)) := by
  induction h with
  | nil => rfl
  | cons hp _ ih =>
    simp only [List.map_cons, ih, List.cons.injEq, and_true]
    rcases hp with rfl | ⟨_, _, h1, h2, h3⟩
    · rfl
    · rw [h1, h2, h3]

theorem LR.get {r : Region} {n : Nat} {a b : List (Placed Region)} (h : LR r n a b) :
    ∀ k (h1 : k < a.length) (h2 : k < b.length), PR r n a[k] b[k] := by
  induction h with
  | nil => intro k h1; simp at h1
  | cons hp _ ih =>
    intro k h1 h2
    cases k with
    | zero => exact hp
    | succ k => simp only [List.getElem_cons_succ]; exact ih k _ _

/-- related loop states -/
def SR (r : Region) (n : Nat) (s t : St Region) : Prop := s.2 = t.2 ∧ LR r n s.1 t.1

/-- related outcomes -/
def RR (r : Region) (n : Nat) : Res (St Region) → Res (St Region) → Prop
  | .ok a, .ok b => SR r n a b
  | .defer, .defer => True
  | .err m, .err m' => m = m'
  | .panic s, .panic s' => s = s'
  | _, _ => False

theorem RR.bind {r : Region} {n : Nat} {x y : Res (St Region)} {k1 k2 : St Region → Res (St Region)}
    (h : RR r n x y) (hk : ∀ a b, SR r n a b → RR r n (k1 a) (k2 b)) :
    RR r n (Res.bind x k1) (Res.bind y k2) := by
  cases x <;> cases y <;> simp only [RR] at h <;> simp only [Res.bind, RR]
  · exact hk _ _ h
  · exact h
  · exact h

theorem RR.isOk_eq {r : Region} {n : Nat} {x y : Res (St Region)} (h : RR r n x y) : x.isOk = y.isOk := by
  cases x <;> cases y <;> simp only [RR] at h <;> rfl

theorem RR.of_ok {r : Region} {n : Nat} {x y : Res (St Region)} {a b} (h : RR r n x y)
    (hx : x = .ok a) (hy : y = .ok b) : SR r n a b := by
  subst hx hy; exact h

theorem push_congr (r : Region) (n : Nat) (s t : St Region) (h : SR r n s t) (sz : Res (Option Nat))
    (al : Option Nat) (arr : Bool) (src : Option Region) :
    RR r n (push s sz al arr src) (push t sz al arr src) := by
  unfold push
  cases sz with
  | ok o =>
    cases o with
    | none => simp [RR]
    | some v =>
      simp only
      by_cases c : v = 0 ∧ arr = true
      · simp only [c, and_self, if_true, RR]; exact h
      · simp only [c, if_false, ← h.1]
        by_cases c2 : s.2 + v ≤ usizeMax
        · simp only [c2, if_true, RR]
          exact ⟨rfl, LR.append h.2 (LR.refl _ _ _)⟩
        · simp [c2, RR]
  | defer => simp [RR]
  | err m => simp [RR]
  | panic m => simp [RR]

theorem placeStep_congr (r : Region) (n : Nat) (s t : St Region) (h : SR r n s t) (f : PField Region) :
    RR r n (placeStep s f) (placeStep t f) := by
  unfold placeStep
  cases f.addr with
  | none => exact push_congr r n s t h _ _ _ _
  | some a =>
    simp only [← h.1]
    by_cases c : a < s.2
    · simp [c, RR]
    · simp only [c, if_false]
      exact RR.bind (push_congr r n s t h _ _ _ _) (fun a b hab => push_congr r n a b hab _ _ _ _)

theorem place_congr (r : Region) (n : Nat) (fs : List (PField Region)) (s t : St Region) (h : SR r n s t) :
    RR r n (place s fs) (place t fs) := by
  induction fs generalizing s t with
  | nil => simp only [place_nil, RR]; exact h
  | cons f fs ih =>
    rw [place_cons, place_cons]
    exact RR.bind (placeStep_congr r n s t h f) (fun a b hab => ih a b hab)

theorem gap_first_step (st : St Region) (r : Region) (n : Nat) :
    RR r n (pushField st (gapField r n)) (pushPad st n) := by
  unfold pushField pushPad gapField push
  simp only
  by_cases c : n = 0
  · simp only [c, and_self, if_true, RR]; exact ⟨rfl, LR.refl _ _ _⟩
  · simp only [c, false_and, if_false]
    by_cases c2 : st.2 + n ≤ usizeMax
    · simp only [c2, if_true, RR]
      exact ⟨rfl, LR.append (LR.refl _ _ _) (.cons (.inr ⟨rfl, rfl, rfl, rfl, rfl⟩) .nil)⟩
    · simp [c2, RR]

theorem gap_vs_address_RR (st : St Region) (r : Region) (n : Nat) (g : PField Region) (fs : List (PField Region))
    (hg : g.addr = none) :
    RR r n (place st (gapField r n :: g :: fs)) (place st ({ g with addr := some (st.2 + n) } :: fs)) := by
  have e1 : place st (gapField r n :: g :: fs)
      = Res.bind (pushField st (gapField r n)) (fun s => place s (g :: fs)) := by
    rw [place_cons]; rfl
  have e2 : place st ({ g with addr := some (st.2 + n) } :: fs)
      = Res.bind (pushPad st n) (fun s => place s (g :: fs)) := by
    rw [place_cons]
    have : placeStep st { g with addr := some (st.2 + n) }
        = Res.bind (pushPad st n) (fun s => placeStep s g) := by
      simp only [placeStep, hg]
      have h1 : ¬ (st.2 + n < st.2) := by omega
      have h2 : st.2 + n - st.2 = n := by omega
      simp only [h1, if_false, h2]
      rfl
    rw [this]
    cases pushPad st n with
    | ok s => simp only [Res.bind]; rw [place_cons]; rfl
    | _ => rfl
  rw [e1, e2]
  exact RR.bind (gap_first_step st r n) (fun a b hab => place_congr r n _ a b hab)

theorem gap_vs_address_lem (st : St Region) (r : Region) (n : Nat) (g : PField Region) (fs : List (PField Region))
    (hg : g.addr = none) :
    (place st (gapField r n :: g :: fs)).isOk = (place st ({ g with addr := some (st.2 + n) } :: fs)).isOk
    ∧ ∀ st1 st2, place st (gapField r n :: g :: fs) = .ok st1 →
        place st ({ g with addr := some (st.2 + n) } :: fs) = .ok st2 →
        st1.2 = st2.2 ∧ st1.1.map (fun p => (p.size, p.align)) = st2.1.map (fun p => (p.size, p.align))
        ∧ st1.1.length = st2.1.length
        ∧ ∀ k (h1 : k < st1.1.length) (h2 : k < st2.1.length),
            st1.1[k] = st2.1[k] ∨ (st1.1[k].src = some r ∧ st2.1[k].src = none ∧ st1.1[k].size = n) := by
  have h := gap_vs_address_RR st r n g fs hg
  refine ⟨h.isOk_eq, ?_⟩
  intro st1 st2 h1 h2
  have hs := h.of_ok h1 h2
  refine ⟨hs.1, hs.2.map_eq, hs.2.length_eq, ?_⟩
  intro k k1 k2
  rcases hs.2.get k k1 k2 with e | ⟨a, b, c, _, _⟩
  · exact .inl e
  · exact .inr ⟨a, b, c⟩

/-! ## naming of a gap region -/

theorem gap_region_named_lem (reg : Registry) (off : Nat) (r : Region) (n : Nat)
    (rest : List (Placed Region)) (hr : IsGapRegion reg r n) :
    nameRegions reg off (⟨n, some 1, some r⟩ :: rest) = nameRegions reg off (⟨n, some 1, none⟩ :: rest) := by
  obtain ⟨hn, _, t, ht, hty⟩ := hr
  rw [nameRegions.eq_def, nameRegions.eq_def]
  simp only [ht, hn, hty]

/-! ## a size attribute equal to the natural size -/

theorem push_sum {β} (st st' : St β) (sz : Res (Option Nat)) (al : Option Nat) (arr : Bool) (src : Option β)
    (hinv : sumSizes st.1 = st.2) (h : push st sz al arr src = .ok st') : sumSizes st'.1 = st'.2 := by
  unfold push at h
  split at h
  · cases h
  · split at h
    · cases h; exact hinv
    · split at h
      · cases h
        simp only [sumSizes, List.map_append, List.sum_append, List.map_cons, List.map_nil, List.sum_cons,
          List.sum_nil] at hinv ⊢
        omega
      · cases h
  all_goals cases h

theorem placeStep_sum {β} (st st' : St β) (f : PField β) (hinv : sumSizes st.1 = st.2)
    (h : placeStep st f = .ok st') : sumSizes st'.1 = st'.2 := by
  unfold placeStep at h
  split at h
  · split at h
    · cases h
    · cases h1 : pushPad st (_ - st.2) with
      | ok st1 =>
        rw [h1] at h
        exact push_sum st1 st' _ _ _ _ (push_sum st st1 _ _ _ _ hinv h1) h
      | _ => rw [h1] at h; cases h
  · exact push_sum st st' _ _ _ _ hinv h

theorem place_sum {β} (fs : List (PField β)) (st st' : St β) (hinv : sumSizes st.1 = st.2)
    (h : place st fs = .ok st') : sumSizes st'.1 = st'.2 := by
  induction fs generalizing st with
  | nil => rw [place_nil] at h; cases h; exact hinv
  | cons f fs ih =>
    rw [place_cons] at h
    cases h1 : placeStep st f with
    | ok st2 =>
      rw [h1] at h
      exact ih st2 (placeStep_sum st st2 f hinv h1) h
    | _ => rw [h1] at h; cases h

/-- `resolve` from a given start state -/
def resolveFrom {β} (start : Res (St β)) (fields : List (PField β)) (target : Option Nat) :
    Res (List (Placed β) × Nat) :=
  match start with
  | .ok st0 =>
    match place st0 fields with
    | .ok st1 =>
      match padTail st1 target with
      | .ok st2 =>
        let size := sumSizes st2.1
        match target with
        | some t => if size ≠ t then .err "calculated size does not match target size" else .ok (st2.1, size)
        | none => .ok (st2.1, size)
      | .defer => .defer
      | .err m => .err m
      | .panic s => .panic s
    | .defer => .defer
    | .err m => .err m
    | .panic s => .panic s
  | .defer => .defer
  | .err m => .err m
  | .panic s => .panic s

theorem resolve_eq {β} (vptr : Option (PField β)) (fields : List (PField β)) (target : Option Nat) :
    resolve vptr fields target
      = resolveFrom (match vptr with | some v => pushField ([], 0) v | none => .ok ([], 0)) fields target := rfl

theorem resolveFrom_natural {β} (start : Res (St β)) (fields : List (PField β))
    (hstart : ∀ st0, start = .ok st0 → sumSizes st0.1 = st0.2)
    (placed : List (Placed β)) (size : Nat) (h : resolveFrom start fields none = .ok (placed, size)) :
    resolveFrom start fields (some size) = .ok (placed, size) := by
  unfold resolveFrom at h ⊢
  cases start with
  | ok st0 =>
    simp only at h ⊢
    cases h1 : place st0 fields with
    | ok st1 =>
      rw [h1] at h
      simp only [padTail] at h
      cases h
      have j1 := place_sum fields st0 st1 (hstart st0 rfl) h1
      simp only [padTail, j1, Nat.lt_irrefl, if_false, ne_eq, not_true_eq_false]
    | _ => rw [h1] at h; cases h
  | _ => cases h

theorem natural_size_noop_lem {β} (vptr : Option (PField β)) (fields : List (PField β))
    (placed : List (Placed β)) (size : Nat) (h : resolve vptr fields none = .ok (placed, size)) :
    resolve vptr fields (some size) = .ok (placed, size) := by
  rw [resolve_eq] at h ⊢
  refine resolveFrom_natural _ fields ?_ placed size h
  intro st0 h0
  cases vptr with
  | none => cases h0; rfl
  | some v => exact push_sum ([], 0) st0 _ _ _ _ rfl h0

/-! ## an index attribute equal to the natural slot -/

theorem foldlM_append {α β} (f : β → α → Res β) (b : β) (l l' : List α) :
    Res.foldlM f b (l ++ l') = Res.bind (Res.foldlM f b l) (fun b' => Res.foldlM f b' l') := by
  induction l generalizing b with
  | nil => rfl
  | cons a l ih =>
    simp only [List.cons_append, Res.foldlM]
    cases f b a with
    | ok b' => exact ih b'
    | _ => rfl

def idxStep (acc : Option Int) (a : G.Attr) : Option Int :=
  match a with | .fn "index" [.int i] => some i | _ => acc

def idxAttrStep (acc : Option Nat) (a : G.Attr) : Res (Option Nat) :=
  match a with
  | .fn "index" [.int i] => match tryUsize i with
    | some v => .ok (some v)
    | none => .err "failed to convert `index` attribute into usize"
  | _ => .ok acc

theorem indexAttr_eq (attrs : List G.Attr) : indexAttr attrs = Res.foldlM idxAttrStep none attrs := rfl
theorem declIndex_eq (f : G.Func) : C04.declIndex f = f.attrs.foldl idxStep none := rfl

theorem foldl_idxStep_some (l : List G.Attr) (v : Int) : (l.foldl idxStep (some v)).isSome = true := by
  induction l generalizing v with
  | nil => rfl
  | cons a l ih =>
    simp only [List.foldl_cons]
    unfold idxStep
    split
    · exact ih _
    · exact ih _

theorem idxAttr_none (l : List G.Attr) (h : l.foldl idxStep none = none) :
    Res.foldlM idxAttrStep none l = .ok none := by
  induction l with
  | nil => rfl
  | cons a l ih =>
    simp only [List.foldl_cons] at h
    simp only [Res.foldlM]
    revert h
    unfold idxStep idxAttrStep
    split
    · next i =>
      intro h
      have := foldl_idxStep_some l i
      unfold idxStep at this
      rw [h] at this
      cases this
    · intro h
      exact ih h

theorem indexAttr_none (f : G.Func) (hf : C04.declIndex f = none) : indexAttr f.attrs = .ok none := by
  rw [indexAttr_eq]
  exact idxAttr_none f.attrs (by rw [← declIndex_eq]; exact hf)

theorem tryUsize_nat (k : Nat) : tryUsize (k : Int) = some k := by
  simp [tryUsize]

theorem indexAttr_withIndex (f : G.Func) (k : Nat) (hf : C04.declIndex f = none) :
    indexAttr (withIndex f k).attrs = .ok (some k) := by
  have h := indexAttr_none f hf
  rw [indexAttr_eq] at h ⊢
  simp only [withIndex, foldlM_append, h, Res.bind, Res.foldlM, idxAttrStep, tryUsize_nat]

theorem makePadding_self (out : List SFunc) : makePadding out out.length = .ok out := by
  simp [makePadding]

theorem docOf_withIndex (f : G.Func) (k : Nat) : G.docOf (withIndex f k).attrs = G.docOf f.attrs := by
  simp only [withIndex, G.docOf, List.foldl_append, List.foldl_cons, List.foldl_nil]
  split
  · next h => exact h.symm
  · next h => exact h.symm

theorem fnAttr_withIndex (f : G.Func) (k : Nat) (st : FnAttrSt) :
    Res.foldlM (fnAttrStep true) st (withIndex f k).attrs = Res.foldlM (fnAttrStep true) st f.attrs := by
  simp only [withIndex, foldlM_append]
  cases Res.foldlM (fnAttrStep true) st f.attrs with
  | ok st' => simp [Res.bind, Res.foldlM, fnAttrStep]
  | _ => rfl

theorem buildFunction_withIndex (reg : Registry) (scope : List Path) (f : G.Func) (k : Nat) :
    buildFunction reg scope true (withIndex f k) = buildFunction reg scope true f := by
  unfold buildFunction
  rw [docOf_withIndex, fnAttr_withIndex]
  rfl

theorem natural_index_noop_lem (reg : Registry) (scope : List Path) (out : List SFunc) (f : G.Func)
    (hf : C04.declIndex f = none) :
    slotStep reg scope out (withIndex f out.length) = slotStep reg scope out f := by
  unfold slotStep
  rw [indexAttr_withIndex f _ hf, indexAttr_none f hf, buildFunction_withIndex]
  simp only [Nat.lt_irrefl, if_false, makePadding_self]

theorem convertVfuncs_fold_lem (reg : Registry) (scope : List Path) (size : Option Nat) (fns : List G.Func) :
    convertVfuncs reg scope size fns =
      (match Res.foldlM (slotStep reg scope) [] fns with
       | .ok out => (match size with
          | some n => if n < out.length then .err "vftable is declared with a size smaller than the slots its functions occupy" else makePadding out n
          | none => .ok out)
       | e => e) := rfl

/-! ## an explicit enum value equal to the implicit one -/

theorem implicit_enum_value_lem (range : Int × Int) (acc : EnumAcc) (st : G.EnumStmt) (v : Int)
    (hl : acc.last = some v) (he : st.expr = none) :
    enumStmtStep range acc { st with expr := some (.int v) } = enumStmtStep range acc st := by
  unfold enumStmtStep
  simp only [he, hl]

/-! ## the order on paths -/

theorem str_eq_of_not_lt {x y : String} (c1 : ¬ x < y) (c2 : ¬ y < x) : x = y :=
  String.le_antisymm (String.not_lt.mp c2) (String.not_lt.mp c1)

theorem plt_asymm (a b : Path) (h : Path.lt a b = true) : Path.lt b a = false := by
  induction a generalizing b with
  | nil => cases b <;> simp [Path.lt] at h ⊢
  | cons x xs ih =>
    cases b with
    | nil => simp [Path.lt] at h
    | cons y ys =>
      simp only [Path.lt] at h ⊢
      by_cases c1 : x < y
      · have := String.lt_asymm c1
        simp [c1, this]
      · by_cases c2 : y < x
        · simp [c1, c2] at h
        · simp only [c1, c2, if_false] at h ⊢
          exact ih _ h

theorem plt_negtrans (a b c : Path) (h : Path.lt a c = true) : Path.lt a b = true ∨ Path.lt b c = true := by
  induction a generalizing b c with
  | nil =>
    cases c with
    | nil => simp [Path.lt] at h
    | cons z zs => cases b <;> simp [Path.lt]
  | cons x xs ih =>
    cases c with
    | nil => simp [Path.lt] at h
    | cons z zs =>
      cases b with
      | nil => simp [Path.lt]
      | cons y ys =>
        simp only [Path.lt] at h ⊢
        by_cases c1 : x < y
        · simp [c1]
        · by_cases c2 : y < x
          · right
            by_cases c3 : x < z
            · simp [String.lt_trans c2 c3]
            · by_cases c4 : z < x
              · simp [c3, c4] at h
              · have := str_eq_of_not_lt c3 c4
                subst this
                simp [c2]
          · have := str_eq_of_not_lt c1 c2
            subst this
            simp only [c1, if_false]
            by_cases c3 : x < z
            · simp [c3]
            · by_cases c4 : z < x
              · simp [c3, c4] at h
              · simp only [c3, c4, if_false] at h ⊢
                exact ih _ _ h

theorem plt_antisymm (a b : Path) (h1 : Path.lt a b = false) (h2 : Path.lt b a = false) : a = b := by
  induction a generalizing b with
  | nil => cases b <;> simp [Path.lt] at h1 ⊢
  | cons x xs ih =>
    cases b with
    | nil => simp [Path.lt] at h2
    | cons y ys =>
      simp only [Path.lt] at h1 h2
      by_cases c1 : x < y
      · simp [c1] at h1
      · by_cases c2 : y < x
        · simp [c2] at h2
        · simp only [c1, c2, if_false] at h1 h2
          rw [str_eq_of_not_lt c1 c2, ih _ h1 h2]

theorem ple_total (a b : Path) : (Path.le a b || Path.le b a) = true := by
  unfold Path.le
  cases h : Path.lt b a
  · rfl
  · simp [plt_asymm b a h]

theorem ple_trans (a b c : Path) (h1 : Path.le a b = true) (h2 : Path.le b c = true) : Path.le a c = true := by
  unfold Path.le at *
  cases h : Path.lt c a
  · rfl
  · rcases plt_negtrans c b a h with h' | h'
    · simp [h'] at h2
    · simp [h'] at h1

theorem ple_antisymm (a b : Path) (h1 : Path.le a b = true) (h2 : Path.le b a = true) : a = b := by
  unfold Path.le at *
  exact plt_antisymm a b (by simpa using h2) (by simpa using h1)

theorem prioLe_total (prio : List Path) (a b : Path) : (prioLe prio a b || prioLe prio b a) = true := by
  unfold prioLe
  simp only
  by_cases c1 : prioIndex prio a < prioIndex prio b
  · simp [c1]
  · by_cases c2 : prioIndex prio b < prioIndex prio a
    · simp [c2]
    · simp only [c1, c2, if_false]; exact ple_total a b

theorem prioLe_trans (prio : List Path) (a b c : Path) (h1 : prioLe prio a b = true) (h2 : prioLe prio b c = true) :
    prioLe prio a c = true := by
  unfold prioLe at *
  simp only at *
  by_cases c1 : prioIndex prio a < prioIndex prio b
  · by_cases c3 : prioIndex prio b < prioIndex prio c
    · have : prioIndex prio a < prioIndex prio c := by omega
      simp [this]
    · by_cases c4 : prioIndex prio c < prioIndex prio b
      · simp [c3, c4] at h2
      · have : prioIndex prio a < prioIndex prio c := by omega
        simp [this]
  · by_cases c2 : prioIndex prio b < prioIndex prio a
    · simp [c1, c2] at h1
    · simp only [c1, c2, if_false] at h1
      by_cases c3 : prioIndex prio b < prioIndex prio c
      · have : prioIndex prio a < prioIndex prio c := by omega
        simp [this]
      · by_cases c4 : prioIndex prio c < prioIndex prio b
        · simp [c3, c4] at h2
        · simp only [c3, c4, if_false] at h2
          have e1 : ¬ prioIndex prio a < prioIndex prio c := by omega
          have e2 : ¬ prioIndex prio c < prioIndex prio a := by omega
          simp only [e1, e2, if_false]
          exact ple_trans a b c h1 h2

theorem prioLe_antisymm (prio : List Path) (a b : Path) (h1 : prioLe prio a b = true) (h2 : prioLe prio b a = true) :
    a = b := by
  unfold prioLe at *
  simp only at *
  by_cases c1 : prioIndex prio a < prioIndex prio b
  · have : ¬ prioIndex prio b < prioIndex prio a := by omega
    simp [c1, this] at h2
  · by_cases c2 : prioIndex prio b < prioIndex prio a
    · simp [c1, c2] at h1
    · simp only [c1, c2, if_false] at h1 h2
      exact ple_antisymm a b h1 h2

/-! ## sorting a permutation -/

theorem mergeSort_perm_eq {α} (le : α → α → Bool)
    (trans : ∀ (a b c : α), le a b = true → le b c = true → le a c = true)
    (total : ∀ (a b : α), (le a b || le b a) = true)
    (l1 l2 : List α) (hp : l1.Perm l2)
    (anti : ∀ a b, a ∈ l1 → b ∈ l1 → le a b = true → le b a = true → a = b) :
    l1.mergeSort le = l2.mergeSort le := by
  apply List.Perm.eq_of_pairwise (le := fun a b => le a b = true)
  · intro a b ha hb h1 h2
    rw [List.mem_mergeSort] at ha hb
    exact anti a b ha (hp.symm.subset hb) h1 h2
  · exact List.pairwise_mergeSort trans total l1
  · exact List.pairwise_mergeSort trans total l2
  · exact (List.mergeSort_perm l1 le).trans (hp.trans (List.mergeSort_perm l2 le).symm)

theorem defs_sorted_eq (s : State) (ps ps' : List Path) (hp : ps'.Perm ps)
    (hk : ∀ p i, s.reg.get p = some i → i.path = p) :
    Emit.sortBy (fun (a b : ItemDef) => Path.le a.path b.path) (ps'.filterMap s.reg.get)
      = Emit.sortBy (fun (a b : ItemDef) => Path.le a.path b.path) (ps.filterMap s.reg.get) := by
  unfold Emit.sortBy
  apply mergeSort_perm_eq
  · intro a b c; exact ple_trans _ _ _
  · intro a b; exact ple_total _ _
  · exact hp.filterMap _
  · intro a b ha hb h1 h2
    rw [List.mem_filterMap] at ha hb
    obtain ⟨p, _, hp1⟩ := ha
    obtain ⟨q, _, hq1⟩ := hb
    have e := ple_antisymm _ _ h1 h2
    rw [hk p a hp1, hk q b hq1] at e
    subst e
    rw [hp1] at hq1
    exact Option.some.inj hq1

theorem reorder_definitions_lem (s : State) (key : Path) (m m' : Mod)
    (hp : m'.defPaths.Perm m.defPaths)
    (hk : ∀ p i, s.reg.get p = some i → i.path = p)
    (hrest : m' = { m with defPaths := m'.defPaths }) :
    Emit.moduleFile s key m' = Emit.moduleFile s key m := by
  have h := defs_sorted_eq s m.defPaths m'.defPaths hp hk
  rw [hrest]
  unfold Emit.moduleFile
  simp only [Mod.backendsFor]
  rw [h]
  rfl

theorem unresolved_order_lem (r r' : Registry) (prio : List Path) (hp : r'.types.Perm r.types) :
    r'.unresolved prio = r.unresolved prio := by
  unfold Registry.unresolved
  apply mergeSort_perm_eq
  · exact prioLe_trans prio
  · exact prioLe_total prio
  · exact (hp.filter _).map _
  · intro a b _ _ h1 h2
    exact prioLe_antisymm prio a b h1 h2

end PyxisVerif.C20
