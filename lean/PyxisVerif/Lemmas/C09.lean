import PyxisVerif.Spec.C09
import PyxisVerif.Lemmas.C20
/-! helper lemmas for C09 / C10 / C19 -/
namespace PyxisVerif.C09

/-! ## monotone readers -/

theorem get_resolved_mono (r r' : Registry) (h : RegLe r r') (p : Path) (i : ItemDef) (res : Resolved)
    (hi : r.get p = some i) (hr : i.resolved? = some res) :
    ∃ i', r'.get p = some i' ∧ i'.resolved? = some res := by
  obtain ⟨i', h1, _, _, _, h2⟩ := h.entries p i hi
  refine ⟨i', h1, ?_⟩
  cases h2 with
  | inl e => simp only [ItemDef.resolved?, e] at hr ⊢; exact hr
  | inr e => simp [ItemDef.isResolved, hr] at e

theorem raw_read_mono {β} (f : Resolved → β) (r r' : Registry) (h : RegLe r r') (p : Path) (b : β)
    (hs : ((r.get p).bind fun i => i.resolved?.map f) = some b) :
    ((r'.get p).bind fun i => i.resolved?.map f) = some b := by
  cases hi : r.get p with
  | none => simp [hi] at hs
  | some i =>
    simp only [hi, Option.bind_some] at hs
    cases hr : i.resolved? with
    | none => simp [hr] at hs
    | some res =>
      obtain ⟨i', h1, h2⟩ := get_resolved_mono r r' h p i res hi hr
      simp only [hr, Option.map_some] at hs
      simp only [h1, Option.bind_some, h2, Option.map_some]
      exact hs

theorem size_mono_lem (r r' : Registry) (h : RegLe r r') (t : DTy) :
    ∀ s, t.size r = .ok (some s) → t.size r' = .ok (some s) := by
  induction t with
  | raw p =>
    intro s hs
    simp only [DTy.size, Res.ok.injEq] at hs ⊢
    exact raw_read_mono _ r r' h p s hs
  | cptr t _ => intro s hs; simp only [DTy.size] at hs ⊢; rw [← h.ps]; exact hs
  | mptr t _ => intro s hs; simp only [DTy.size] at hs ⊢; rw [← h.ps]; exact hs
  | arr t n ih =>
    intro s hs
    simp only [DTy.size] at hs ⊢
    cases ht : DTy.size r t with
    | ok o =>
      cases o with
      | none => simp [ht] at hs
      | some s0 => rw [ih s0 ht]; simp only [ht] at hs; exact hs
    | defer => simp [ht] at hs
    | err m => simp [ht] at hs
    | panic m => simp [ht] at hs

theorem align_mono_lem (r r' : Registry) (h : RegLe r r') (t : DTy) :
    ∀ a, t.align r = some a → t.align r' = some a := by
  induction t with
  | raw p =>
    intro a ha
    simp only [DTy.align] at ha ⊢
    exact raw_read_mono _ r r' h p a ha
  | cptr t _ => intro s hs; simp only [DTy.align] at hs ⊢; rw [← h.ps]; exact hs
  | mptr t _ => intro s hs; simp only [DTy.align] at hs ⊢; rw [← h.ps]; exact hs
  | arr t n ih =>
    intro a ha
    simp only [DTy.align] at ha ⊢
    exact ih a ha

theorem pfield_mono_lem (r r' : Registry) (h : RegLe r r') (addr : Option Nat) (reg : Region) (s : Nat)
    (hs : reg.ty.size r = .ok (some s)) (ha : (reg.ty.align r).isSome) :
    toPField r' addr reg = toPField r addr reg := by
  unfold toPField
  cases hty : reg.ty with
  | data t =>
    rw [hty] at hs ha
    simp only [RTy.size, RTy.align] at hs ha ⊢
    obtain ⟨a, ha'⟩ := Option.isSome_iff_exists.mp ha
    rw [size_mono_lem r r' h t s hs, hs, align_mono_lem r r' h t a ha', ha']
  | fn cc args ret =>
    simp only [RTy.size, RTy.align, h.ps]

/-! ## lookup depends on the key set only -/

theorem find?_congr' {α} (p q : α → Bool) (l : List α) (h : ∀ x ∈ l, p x = q x) :
    l.find? p = l.find? q := by
  induction l with
  | nil => rfl
  | cons a l ih =>
    simp only [List.find?_cons, h a (List.mem_cons_self ..)]
    rw [ih (fun x hx => h x (List.mem_cons_of_mem _ hx))]

theorem resolveString_congr (r r' : Registry) (scope : List Path) (name : String)
    (h1 : ∀ p ∈ scope, r'.contains p = r.contains p)
    (h2 : ∀ p ∈ ([] :: scope).map (· ++ [name]), r'.contains p = r.contains p) :
    r'.resolveString scope name = r.resolveString scope name := by
  unfold Registry.resolveString
  have e1 : scope.filter r'.contains = scope.filter r.contains :=
    List.filter_congr (fun p hp => h1 p hp)
  have e2 : scope.filter (fun p => !r'.contains p) = scope.filter (fun p => !r.contains p) :=
    List.filter_congr (fun p hp => by rw [h1 p hp])
  have e3 : ((([] : Path) :: scope.filter (fun p => !r.contains p)).map (· ++ [name])).find? r'.contains
      = ((([] : Path) :: scope.filter (fun p => !r.contains p)).map (· ++ [name])).find? r.contains := by
    apply find?_congr'
    intro p hp
    apply h2
    rw [List.mem_map] at hp ⊢
    obtain ⟨q, hq, e⟩ := hp
    refine ⟨q, ?_, e⟩
    rw [List.mem_cons] at hq ⊢
    cases hq with
    | inl h => exact .inl h
    | inr h => exact .inr (List.mem_filter.mp h).1
  simp only [e1, e2, e3]

theorem resolveTy_congr (r r' : Registry) (h : ∀ p, r'.contains p = r.contains p)
    (scope : List Path) (t : G.Ty) : r'.resolveTy scope t = r.resolveTy scope t := by
  induction t with
  | cptr t ih => simp only [Registry.resolveTy, ih]
  | mptr t ih => simp only [Registry.resolveTy, ih]
  | arr t n ih => simp only [Registry.resolveTy, ih]
  | ident s =>
    simp only [Registry.resolveTy]
    rw [resolveString_congr r r' scope s (fun p _ => h p) (fun p _ => h p)]
  | unk n =>
    simp only [Registry.resolveTy, Registry.paddingType]
    rw [resolveString_congr r r' [] "u8" (fun p _ => h p) (fun p _ => h p)]

/-! ## `setState` -/

theorem lookup_map_state (l : List (Path × ItemDef)) (p q : Path) (s : IState) :
    List.lookup q (l.map fun e => if e.1 == p then (e.1, { e.2 with state := s }) else e)
      = (List.lookup q l).map (fun v => if q == p then { v with state := s } else v) := by
  induction l with
  | nil => rfl
  | cons e l ih =>
    obtain ⟨k, v⟩ := e
    by_cases hq : q = k
    · subst hq
      by_cases hk : q = p
      · subst hk; simp
      · simp [hk]
    · have hq' : (q == k) = false := by simpa using hq
      simp only [List.map_cons]
      split <;> simp only [List.lookup_cons, hq'] <;> exact ih

theorem get_setState (r : Registry) (p q : Path) (s : IState) :
    (r.setState p s).get q = (r.get q).map (fun v => if q == p then { v with state := s } else v) := by
  simp only [Registry.get, Registry.setState]
  exact lookup_map_state r.types p q s

theorem setState_extends_lem (r : Registry) (p : Path) (res : Resolved) (i : ItemDef)
    (hi : r.get p = some i) (hu : i.isResolved = false) : RegLe r (r.setState p (.res res)) := by
  refine ⟨rfl, ?_, ?_⟩
  · intro q
    simp only [Registry.contains, get_setState, Option.isSome_map]
  · intro q j hq
    rw [get_setState, hq]
    by_cases e : q = p
    · subst e
      rw [hi] at hq
      cases hq
      refine ⟨{ i with state := .res res }, by simp only [Option.map_some, BEq.rfl, if_true], rfl, rfl, rfl, .inr ⟨hu, ?_⟩⟩
      simp [ItemDef.isResolved, ItemDef.resolved?]
    · have e' : (q == p) = false := by simpa using e
      exact ⟨j, by simp [e'], rfl, rfl, rfl, .inl rfl⟩

/-! ## files -/

theorem eq_of_nodup_keys {α β} (l : List (α × β)) (hn : (l.map (·.1)).Nodup) (a b : α × β)
    (ha : a ∈ l) (hb : b ∈ l) (e : a.1 = b.1) : a = b := by
  induction l with
  | nil => cases ha
  | cons x l ih =>
    simp only [List.map_cons, List.nodup_cons, List.mem_map, not_exists, not_and] at hn
    rw [List.mem_cons] at ha hb
    cases ha with
    | inl ha =>
      cases hb with
      | inl hb => rw [ha, hb]
      | inr hb => subst ha; exact absurd e.symm (hn.1 b hb)
    | inr ha =>
      cases hb with
      | inl hb => subst hb; exact absurd e (hn.1 a ha)
      | inr hb => exact ih hn.2 ha hb

theorem moduleFile_reg (s s' : State) (hr : s'.reg = s.reg) (k : Path) (m : Mod) :
    Emit.moduleFile s' k m = Emit.moduleFile s k m := by
  unfold Emit.moduleFile
  rw [hr]

theorem files_order_lem (s s' : State) (hr : s'.reg = s.reg) (hp : s'.modules.Perm s.modules)
    (hn : (s.modules.map (·.1)).Nodup)
    (hinj : ∀ a ∈ s.modules, ∀ b ∈ s.modules, Emit.relFile a.1 = Emit.relFile b.1 → a.1 = b.1) :
    Emit.files s' = Emit.files s := by
  unfold Emit.files Emit.sortBy
  have hs : (s'.modules.filter fun e => !e.1.isEmpty).mergeSort
        (fun (a b : Path × Mod) => decide (Emit.relFile a.1 ≤ Emit.relFile b.1))
      = (s.modules.filter fun e => !e.1.isEmpty).mergeSort
        (fun (a b : Path × Mod) => decide (Emit.relFile a.1 ≤ Emit.relFile b.1)) := by
    apply C20.mergeSort_perm_eq
    · intro a b c h1 h2
      simp only [decide_eq_true_eq] at h1 h2 ⊢
      exact String.le_trans h1 h2
    · intro a b
      simp only [Bool.or_eq_true, decide_eq_true_eq]
      exact String.le_total _ _
    · exact hp.filter _
    · intro a b ha hb h1 h2
      simp only [decide_eq_true_eq] at h1 h2
      have ha' := hp.subset (List.mem_filter.mp ha).1
      have hb' := hp.subset (List.mem_filter.mp hb).1
      exact eq_of_nodup_keys s.modules hn a b ha' hb' (hinj a ha' b hb' (String.le_antisymm h1 h2))
  simp only [hs]
  apply List.map_congr_left
  intro e _
  exact moduleFile_reg s s' hr e.1 e.2

end PyxisVerif.C09
