import PyxisVerif.Lemmas.Mono
import PyxisVerif.Lemmas.C09Case
import PyxisVerif.Lemmas.C19
/-!
# helper lemmas for the global C10 statements (`Props/C10Global.lean`)

Part 1: which functions of the model can answer `defer` ("try again later") at all.
Part 2: the dependency relation an unresolved item waits on, read off its definition.
Part 3: a deferred attempt has a cause (missing name / unresolved by-value dependency / a size that
        does not fit in a `usize`).
Part 4: the last round of a build that gives up, and the states it goes through.
-/
namespace PyxisVerif.C10
open C09 Layout

/-! ## Part 1: outcomes that are never `defer` -/

theorem cast_defer {α β} {e : Res α} (h : (e.cast : Res β) = .defer) : e = .defer := by
  cases e <;> simp [Res.cast] at h ⊢

theorem foldlM_defer {α β} (f : β → α → Res β) (l : List α) (b : β) (h : Res.foldlM f b l = .defer) :
    ∃ b' a, a ∈ l ∧ f b' a = .defer := by
  induction l generalizing b with
  | nil => simp [Res.foldlM] at h
  | cons a as ih =>
    unfold Res.foldlM at h
    split at h
    · next b1 hb1 =>
      obtain ⟨b', x, hx, hd⟩ := ih b1 h
      exact ⟨b', x, List.mem_cons_of_mem _ hx, hd⟩
    · next hd => exact ⟨b, a, List.mem_cons_self, hd⟩
    · cases h
    · cases h

theorem foldlM_nd {α β} (f : β → α → Res β) (l : List α) (b : β) (hf : ∀ b a, a ∈ l → f b a ≠ .defer) :
    Res.foldlM f b l ≠ .defer := by
  intro h
  obtain ⟨b', a, ha, hd⟩ := foldlM_defer f l b h
  exact hf b' a ha hd

theorem mapM'_nd {α β} (f : α → Res β) (l : List α) (hf : ∀ a ∈ l, f a ≠ .defer) : Res.mapM' f l ≠ .defer := by
  induction l with
  | nil => simp [Res.mapM']
  | cons a as ih =>
    intro h
    unfold Res.mapM' at h
    have h1 := hf a (by simp)
    have h2 := ih (fun a ha => hf a (by simp [ha]))
    split at h
    · split at h
      · cases h
      · next hd => exact h2 hd
      · cases h
      · cases h
    · next hd => exact h1 hd
    · cases h
    · cases h

theorem cast_nd {α β} {e : Res α} (h : e ≠ .defer) : (e.cast : Res β) ≠ .defer := fun hc => h (cast_defer hc)

/-- closes `h : e = .defer` when every branch of `e` is visibly not `defer` -/
macro "no_defer_at " h:ident : tactic =>
  `(tactic| repeat' (first | (cases $h:ident; done) | (split at $h:ident)))

theorem typeAttrStep_nd (st : TypeAttrs) (a : G.Attr) : typeAttrStep st a ≠ .defer := by
  intro h; unfold typeAttrStep at h; no_defer_at h

theorem fieldAttrStep_nd (st : FieldAttrs) (a : G.Attr) : fieldAttrStep st a ≠ .defer := by
  intro h; unfold fieldAttrStep at h; no_defer_at h

theorem fnAttrStep_nd (isV : Bool) (st : FnAttrSt) (a : G.Attr) : fnAttrStep isV st a ≠ .defer := by
  intro h; unfold fnAttrStep at h; no_defer_at h

theorem enumAttrStep_nd (st : EnumAttrs) (a : G.Attr) : enumAttrStep st a ≠ .defer := by
  intro h; unfold enumAttrStep at h; no_defer_at h

theorem indexAttr_nd (attrs : List G.Attr) : indexAttr attrs ≠ .defer := by
  unfold indexAttr
  apply foldlM_nd
  intro b a _ h; no_defer_at h

theorem vftableSizeAttr_nd (attrs : List G.Attr) : vftableSizeAttr attrs ≠ .defer := by
  unfold vftableSizeAttr
  apply foldlM_nd
  intro b a _ h; no_defer_at h

theorem addItem_nd (s : State) (i : ItemDef) : s.addItem i ≠ .defer := by
  intro h; unfold State.addItem at h; no_defer_at h

theorem makePadding_nd (out : List SFunc) (target : Nat) : makePadding out target ≠ .defer := by
  intro h; unfold makePadding at h; simp only [] at h; no_defer_at h

theorem paddingType_nd (r : Registry) (n : Nat) : r.paddingType n ≠ .defer := by
  intro h; unfold Registry.paddingType at h; no_defer_at h

/-- the identifier a type expression is built around (`unknown<N>` has none) -/
def tyName : G.Ty → Option String
  | .cptr t => tyName t
  | .mptr t => tyName t
  | .arr t _ => tyName t
  | .ident s => some s
  | .unk _ => none

/-- **a type expression defers exactly for an undefined name**: `resolve_grammar_type` answers `None`
    only when the identifier inside does not resolve in the scope -/
theorem resolveTy_defer (r : Registry) (scope : List Path) (t : G.Ty) (h : r.resolveTy scope t = .defer) :
    ∃ n, tyName t = some n ∧ r.resolveString scope n = none := by
  induction t with
  | cptr t ih =>
    unfold Registry.resolveTy at h
    split at h
    · cases h
    · exact ih h
  | mptr t ih =>
    unfold Registry.resolveTy at h
    split at h
    · cases h
    · exact ih h
  | arr t n ih =>
    unfold Registry.resolveTy at h
    split at h
    · cases h
    · exact ih h
  | ident s =>
    unfold Registry.resolveTy at h
    split at h
    · cases h
    · next hn => exact ⟨s, rfl, hn⟩
  | unk n => exact absurd h (paddingType_nd r n)

theorem buildArg_nd (reg : Registry) (scope : List Path) (a : G.Arg) : buildArg reg scope a ≠ .defer := by
  intro h; unfold buildArg at h; no_defer_at h

theorem buildFunction_nd (reg : Registry) (scope : List Path) (isV : Bool) (f : G.Func) :
    buildFunction reg scope isV f ≠ .defer := by
  unfold buildFunction
  split
  · nofun
  · split
    · split
      · nofun
      · split
        · simp only []
          split
          · nofun
          · apply cast_nd
            intro h; no_defer_at h
        · exact cast_nd (mapM'_nd _ _ (fun a _ => buildArg_nd reg scope a))
    · exact cast_nd (foldlM_nd _ _ _ (fun b a _ => fnAttrStep_nd isV b a))

theorem slotStep_nd (reg : Registry) (scope : List Path) (out : List SFunc) (f : G.Func) :
    C04.slotStep reg scope out f ≠ .defer := by
  unfold C04.slotStep
  split
  · split
    · split
      · nofun
      · exact cast_nd (buildFunction_nd reg scope true f)
    · next hne =>
      split
      · split
        · nofun
        · exact makePadding_nd _ _
      · nofun
  · exact cast_nd (indexAttr_nd _)

theorem convertVfuncs_nd (reg : Registry) (scope : List Path) (size : Option Nat) (fns : List G.Func) :
    convertVfuncs reg scope size fns ≠ .defer := by
  rw [C04.convertVfuncs_eq]
  split
  · split
    · split
      · nofun
      · exact makePadding_nd _ _
    · nofun
  · next hne =>
    intro h
    exact foldlM_nd _ _ _ (fun b a _ => slotStep_nd reg scope b a) h

/-- **the statement loop defers only for an undefined field type name**: a `vftable` block with an
    undefined name in a signature is a hard error (`function::build` turns `None` into an error) -/
theorem stmtStep_defer (reg : Registry) (scope : List Path) (acc : StmtAcc) (ist : Nat × G.Stmt)
    (h : stmtStep reg scope acc ist = .defer) :
    ∃ v n t, ist.2.field = .field v n t ∧ reg.resolveTy scope t = .defer := by
  obtain ⟨idx, st⟩ := ist
  unfold stmtStep at h
  simp only [] at h
  split at h
  · next vis name ty hf =>
    split at h
    · cases h
    · split at h
      · split at h
        · cases h
        · split at h
          · no_defer_at h
          · exact ⟨vis, name, ty, hf, cast_defer h⟩
      · exact absurd (cast_defer h) (foldlM_nd _ _ _ (fun b a _ => fieldAttrStep_nd b a))
  · split at h
    · cases h
    · split at h
      · cases h
      · split at h
        · split at h
          · cases h
          · exact absurd (cast_defer h) (convertVfuncs_nd _ _ _ _)
        · exact absurd (cast_defer h) (vftableSizeAttr_nd _)

theorem mem_stmts_of_swapped {α} (l : List α) (ist : Nat × α) (h : ist ∈ l.zipIdx.map fun p => (p.2, p.1)) :
    ist.2 ∈ l := by
  have := List.mem_map_of_mem (f := (·.2)) h
  rw [C01.zipIdx_swap_snd] at this
  exact this

theorem stmts_fold_defer (reg : Registry) (scope : List Path) (stmts : List G.Stmt)
    (h : Res.foldlM (stmtStep reg scope) {} (stmts.zipIdx.map fun p => (p.2, p.1)) = .defer) :
    ∃ st ∈ stmts, ∃ v n t, st.field = .field v n t ∧ reg.resolveTy scope t = .defer := by
  obtain ⟨acc, ist, hist, hd⟩ := foldlM_defer _ _ _ h
  obtain ⟨v, n, t, hf, ht⟩ := stmtStep_defer reg scope acc ist hd
  exact ⟨ist.2, mem_stmts_of_swapped stmts ist hist, v, n, t, hf, ht⟩

/-- every pending field is the resolved type of a field statement -/
def FromStmts (reg : Registry) (scope : List Path) (stmts : List G.Stmt) (acc : StmtAcc) : Prop :=
  ∀ f ∈ acc.pending, ∃ st ∈ stmts, ∃ v n t dt, st.field = .field v n t ∧ reg.resolveTy scope t = .ok dt ∧
    f.2.ty = .data dt

theorem stmtStep_from (reg : Registry) (scope : List Path) (stmts : List G.Stmt) (acc acc' : StmtAcc)
    (ist : Nat × G.Stmt) (ha : FromStmts reg scope stmts acc) (hst : ist.2 ∈ stmts)
    (h : stmtStep reg scope acc ist = .ok acc') : FromStmts reg scope stmts acc' := by
  obtain ⟨idx, st⟩ := ist
  unfold stmtStep at h
  simp only [] at h
  split at h
  · next vis name ty hf =>
    split at h
    · cases h
    · split at h
      · next fa _ =>
        split at h
        · cases h
        · split at h
          · next dt hdt =>
            generalize (if (name != "_") = true then some name else none) = ident at h
            split at h
            · cases h
            · cases h
              intro f hfm
              rcases List.mem_append.mp hfm with hfm | hfm
              · exact ha f hfm
              · simp only [List.mem_singleton] at hfm
                subst hfm
                exact ⟨st, hst, vis, name, ty, dt, hf, hdt, rfl⟩
          · exact absurd h (C01.cast_ne_ok _ _)
      · exact absurd h (C01.cast_ne_ok _ _)
  · split at h
    · cases h
    · split at h
      · cases h
      · split at h
        · split at h
          · cases h; exact ha
          · exact absurd h (C01.cast_ne_ok _ _)
        · exact absurd h (C01.cast_ne_ok _ _)

theorem stmts_fold_from (reg : Registry) (scope : List Path) (stmts : List G.Stmt) (sa : StmtAcc)
    (h : Res.foldlM (stmtStep reg scope) {} (stmts.zipIdx.map fun p => (p.2, p.1)) = .ok sa) :
    FromStmts reg scope stmts sa :=
  (C12.PO.foldlM_inv (S := fun _ => True) (FromStmts reg scope stmts) _ _ _
    (fun f hf => by cases hf)
    (fun acc ist hist hacc => ⟨fun _ _ => trivial,
      fun acc' h' => stmtStep_from reg scope stmts acc acc' ist hacc (mem_stmts_of_swapped stmts ist hist) h'⟩)).2 sa h

/-! ### the rest of `type_definition::build` never defers -/

theorem regionNameAndTypeDef_nd (reg : Registry) (r : Region) : regionNameAndTypeDef reg r ≠ .defer := by
  intro h; unfold regionNameAndTypeDef at h; no_defer_at h

theorem baseVftable_nd (reg : Registry) (fb : Option Region) : baseVftable reg fb ≠ .defer := by
  unfold baseVftable
  split
  · nofun
  · split
    · nofun
    · nofun
    · exact cast_nd (regionNameAndTypeDef_nd _ _)

theorem vftCheck_nd (reg : Registry) (fb : Option Region) (fns : List SFunc) (p : Path) :
    C06.vftCheck reg fb fns p ≠ .defer := by
  unfold C06.vftCheck
  split
  · split
    · nofun
    · split <;> nofun
  · nofun
  · exact cast_nd (baseVftable_nd _ _)

theorem nameRegions_nd (reg : Registry) (ps : List (Layout.Placed Region)) (off : Nat) :
    nameRegions reg off ps ≠ .defer := by
  induction ps generalizing off with
  | nil => simp [nameRegions]
  | cons p ps ih =>
    unfold nameRegions
    split
    · simp only []
      split
      · nofun
      · next hne =>
        intro h
        exact ih _ h
    · apply cast_nd
      split
      · nofun
      · split
        · nofun
        · exact cast_nd (paddingType_nd _ _)

theorem injectBases_nd (reg : Registry) (regions : List Region) (acc : InjAcc) :
    injectBases reg regions acc ≠ .defer := by
  unfold injectBases
  apply foldlM_nd
  intro acc ib _
  split
  · nofun
  · nofun
  · exact cast_nd (regionNameAndTypeDef_nd _ _)

theorem addImplFns_nd (reg : Registry) (scope : List Path) (impl : Option G.Impl) (acc : InjAcc) :
    addImplFns reg scope impl acc ≠ .defer := by
  unfold addImplFns
  split
  · nofun
  · apply foldlM_nd
    intro acc f _
    split
    · nofun
    · split
      · nofun
      · exact cast_nd (buildFunction_nd _ _ _ _)

theorem checkDefaultable_nd (reg : Registry) (regions : List Region) : checkDefaultable reg regions ≠ .defer := by
  unfold checkDefaultable
  apply foldlM_nd
  intro _ r _ h
  no_defer_at h

theorem lcmStep_nd (acc x : Nat) : lcmStep acc x ≠ .defer := by
  intro h; unfold lcmStep at h; no_defer_at h

theorem lcmAll_nd {β} (rs : List (Placed β)) : lcmAll rs ≠ .defer := by
  unfold lcmAll
  apply foldlM_nd
  intro acc r _
  split
  · exact lcmStep_nd _ _
  · nofun

theorem fieldsAligned_nd {β} (rs : List (Placed β)) (off : Nat) : fieldsAligned off rs ≠ .defer := by
  induction rs generalizing off with
  | nil => simp [fieldsAligned]
  | cons r rs ih =>
    unfold fieldsAligned
    split
    · nofun
    · split
      · nofun
      · split
        · nofun
        · split
          · nofun
          · exact ih _

theorem alignCheck_nd {β} (ps : Nat) (packed : Bool) (al : Option Nat) (rs : List (Placed β)) (size : Nat) :
    alignCheck ps packed al rs size ≠ .defer := by
  unfold alignCheck
  split
  · split <;> nofun
  · simp only []
    split
    · nofun
    · split
      · split
        · nofun
        · split
          · split
            · nofun
            · split <;> nofun
          · next hd => exact absurd hd (fieldsAligned_nd _ _)
          · nofun
          · nofun
      · next hd => exact absurd hd (lcmAll_nd _)
      · nofun
      · nofun

/-! ### the placement loop defers only for an unknown size or an offset beyond `usize::MAX` -/

/-- the size the registry answered for a pending field (0 when unknown) -/
def fsz {β} (f : PField β) : Nat := match f.size with | .ok (some n) => n | _ => 0

/-- the size of the pending field is known -/
def Known {β} (f : PField β) : Prop := ∃ n, f.size = .ok (some n)

theorem push_known {β} (st : St β) (n : Nat) (al : Option Nat) (arr : Bool) (src : Option β) :
    (∃ st', push st (.ok (some n)) al arr src = .ok st' ∧ st'.2 = st.2 + n) ∨
    (push st (.ok (some n)) al arr src = .defer ∧ usizeMax < st.2 + n) := by
  unfold push
  simp only []
  split
  · next h0 => left; exact ⟨st, rfl, by omega⟩
  · split
    · left; exact ⟨_, rfl, rfl⟩
    · right; exact ⟨rfl, by omega⟩

theorem pushField_known {β} (st : St β) (f : PField β) (hk : Known f) :
    (∃ st', pushField st f = .ok st' ∧ st'.2 = st.2 + fsz f) ∨
    (pushField st f = .defer ∧ usizeMax < st.2 + fsz f) := by
  obtain ⟨n, hn⟩ := hk
  have : fsz f = n := by simp [fsz, hn]
  unfold pushField
  rw [hn, this]
  exact push_known st n _ _ _

theorem step_known {β} (st : St β) (f : PField β) (hk : Known f) :
    (∃ st', Mono.step st f = .ok st' ∧ st'.2 ≤ st.2 + (f.addr.getD 0 + fsz f)) ∨
    (Mono.step st f = .defer ∧ usizeMax < st.2 + (f.addr.getD 0 + fsz f)) ∨
    (∃ m, Mono.step st f = .err m) := by
  unfold Mono.step
  cases ha : f.addr with
  | none =>
    simp only [Option.getD_none]
    rcases pushField_known st f hk with ⟨st', h1, h2⟩ | ⟨h1, h2⟩
    · left; exact ⟨st', h1, by omega⟩
    · right; left; exact ⟨h1, by omega⟩
  | some a =>
    simp only [Option.getD_some]
    split
    · right; right; exact ⟨_, rfl⟩
    · next hlt =>
      rcases push_known st (a - st.2) (some 1) true none with ⟨st1, h1, h2⟩ | ⟨h1, h2⟩
      · unfold pushPad
        rw [h1]
        simp only []
        rcases pushField_known st1 f hk with ⟨st', h3, h4⟩ | ⟨h3, h4⟩
        · left; exact ⟨st', h3, by omega⟩
        · right; left; exact ⟨h3, by omega⟩
      · unfold pushPad
        rw [h1]
        right; left; exact ⟨rfl, by omega⟩

/-- declared offsets plus sizes of a list of pending fields -/
def fieldsExtent {β} (fs : List (PField β)) : Nat := (fs.map fun f => f.addr.getD 0 + fsz f).sum

theorem place_defer_big {β} (fs : List (PField β)) (st : St β) (hk : ∀ f ∈ fs, Known f)
    (h : place st fs = .defer) : usizeMax < st.2 + fieldsExtent fs := by
  induction fs generalizing st with
  | nil => simp [place] at h
  | cons f fs ih =>
    rw [Mono.place_cons] at h
    have hf := hk f List.mem_cons_self
    simp only [fieldsExtent, List.map_cons, List.sum_cons]
    rcases step_known st f hf with ⟨st', h1, h2⟩ | ⟨h1, h2⟩ | ⟨m, h1⟩
    · rw [h1] at h
      have := ih st' (fun g hg => hk g (List.mem_cons_of_mem _ hg)) h
      simp only [fieldsExtent] at this
      omega
    · omega
    · rw [h1] at h; cases h

theorem place_ok_le {β} (fs : List (PField β)) (st st' : St β) (hk : ∀ f ∈ fs, Known f)
    (h : place st fs = .ok st') : st'.2 ≤ st.2 + fieldsExtent fs := by
  induction fs generalizing st with
  | nil => simp only [place, Res.ok.injEq] at h; subst h; simp [fieldsExtent]
  | cons f fs ih =>
    rw [Mono.place_cons] at h
    have hf := hk f List.mem_cons_self
    simp only [fieldsExtent, List.map_cons, List.sum_cons]
    rcases step_known st f hf with ⟨st1, h1, h2⟩ | ⟨h1, h2⟩ | ⟨m, h1⟩
    · rw [h1] at h
      have := ih st1 (fun g hg => hk g (List.mem_cons_of_mem _ hg)) h
      simp only [fieldsExtent] at this
      omega
    · rw [h1] at h; cases h
    · rw [h1] at h; cases h

/-- the size of the vftable pointer region, if the type owns one -/
def vsz {β} (vptr : Option (PField β)) : Nat := match vptr with | some v => fsz v | none => 0

/-- **the layout defers only beyond `usize::MAX`** when every size is known: the vftable pointer, the
    declared offsets, the field sizes and the declared size add up to more than `usize::MAX` -/
theorem resolve_defer_big {β} (vptr : Option (PField β)) (fields : List (PField β)) (target : Option Nat)
    (hv : ∀ v, vptr = some v → Known v) (hk : ∀ f ∈ fields, Known f)
    (h : Layout.resolve vptr fields target = .defer) :
    usizeMax < vsz vptr + fieldsExtent fields + target.getD 0 := by
  unfold Layout.resolve at h
  split at h
  · next st0 e0 =>
    have h0 : st0.2 = vsz vptr := by
      cases vptr with
      | none => simp only [Res.ok.injEq] at e0; subst e0; rfl
      | some v =>
        simp only [] at e0
        rcases pushField_known ([], 0) v (hv v rfl) with ⟨st', h1, h2⟩ | ⟨h1, h2⟩
        · rw [h1] at e0; cases e0; simpa [vsz] using h2
        · rw [h1] at e0; cases e0
    split at h
    · next st1 hp =>
      have hle := place_ok_le fields st0 st1 hk hp
      split at h
      · simp only [] at h
        split at h
        · split at h <;> cases h
        · cases h
      · next hpad =>
        cases target with
        | none => simp only [padTail] at hpad; cases hpad
        | some t =>
          simp only [padTail] at hpad
          split at hpad
          · next hlt =>
            rcases push_known st1 (t - st1.2) (some 1) true none with ⟨st2, h1, h2⟩ | ⟨h1, h2⟩
            · unfold pushPad at hpad
              rw [h1] at hpad
              cases hpad
            · simp only [Option.getD_some]
              omega
          · cases hpad
      · cases h
      · cases h
    · next hp =>
      have := place_defer_big fields st0 hk hp
      omega
    · cases h
    · cases h
  · next e0 =>
    cases vptr with
    | none => cases e0
    | some v =>
      simp only [] at e0
      rcases pushField_known ([], 0) v (hv v rfl) with ⟨st', h1, h2⟩ | ⟨h1, h2⟩
      · rw [h1] at e0; cases e0
      · simp only [vsz]
        simp only [Nat.zero_add] at h2
        omega
  · cases h
  · cases h

/-! ### `vftable::build` and `enum_definition::build` -/

theorem buildVftable_nd (s : State) (owner : Path) (vis : Vis) (fb : Option Region) (vfns : Option (List SFunc)) :
    (buildVftable s owner vis fb vfns).2 ≠ .defer := by
  cases vfns with
  | none =>
    unfold buildVftable
    simp only []
    split
    · nofun
    · nofun
    · exact cast_nd (baseVftable_nd _ _)
  | some fns =>
    cases hi : buildVftableItem s.reg owner vis fns with
    | none => unfold buildVftable; simp only [hi]; nofun
    | some item =>
      cases hc : (match s.reg.get item.path with | some e => e != item | none => false) with
      | true =>
        unfold buildVftable; simp only [hi]
        rw [if_pos (by exact hc)]
        nofun
      | false =>
        cases ha : s.addItem item with
        | ok s1 =>
          rw [C06.buildVftable_eq s s1 owner vis fb fns item hi hc ha]
          exact vftCheck_nd _ _ _ _
        | defer => exact absurd ha (addItem_nd s item)
        | err m =>
          unfold buildVftable; simp only [hi, ha]
          rw [if_neg (by rw [Bool.not_eq_true]; exact hc)]
          simp [Res.cast]
        | panic m =>
          unfold buildVftable; simp only [hi, ha]
          rw [if_neg (by rw [Bool.not_eq_true]; exact hc)]
          simp [Res.cast]

/-- the only region `vftable::build` asks to push is a pointer -/
theorem buildVftable_vregion (s s1 : State) (owner : Path) (vis : Vis) (fb : Option Region)
    (vfns : Option (List SFunc)) (vft : Option Vft) (r : Region)
    (h : buildVftable s owner vis fb vfns = (s1, .ok (vft, some r))) : ∃ t, r.ty = .data (.cptr t) := by
  cases vfns with
  | none =>
    unfold buildVftable at h
    simp only [Prod.mk.injEq] at h
    obtain ⟨_, h⟩ := h
    split at h
    · cases h
    · cases h
    · exact absurd h (C01.cast_ne_ok _ _)
  | some fns =>
    cases hi : buildVftableItem s.reg owner vis fns with
    | none =>
      unfold buildVftable at h
      simp only [hi, Prod.mk.injEq] at h
      obtain ⟨_, h⟩ := h
      cases h
    | some item =>
      have hv := C06.buildVftable_ok_inv s s1 owner vis fb fns item _ hi h
      unfold C06.vftCheck at hv
      split at hv
      · split at hv
        · cases hv
        · split at hv <;> cases hv
      · cases hv
        exact ⟨_, rfl⟩
      · exact absurd hv (C01.cast_ne_ok _ _)

theorem enumStmtStep_nd (range : Int × Int) (acc : EnumAcc) (st : G.EnumStmt) :
    enumStmtStep range acc st ≠ .defer := by
  intro h
  unfold enumStmtStep at h
  split at h
  · split at h
    · cases h
    · split at h
      · cases h
      · simp only [] at h
        split at h
        · cases h
        · refine foldlM_nd _ _ _ ?_ (cast_defer h)
          intro b a _ hd
          no_defer_at hd
  · have := cast_defer h
    no_defer_at this

/-! ## Part 2: what an unresolved item waits on -/

/-- the type expressions the attempt on a definition waits for: the field types of a type definition,
    the base type of an enum.  The signatures of functions (`vftable` blocks, `impl` blocks) are NOT among
    them: `function::build` turns an undefined name into a hard error. -/
def usedTys (d : G.Item) : List G.Ty :=
  match d.inner with
  | .type td => td.stmts.filterMap fun st => match st.field with | .field _ _ t => some t | .vftable _ => none
  | .enum ed => [ed.ty]

/-- `Module::scope` of the module an item lives in -/
def scopeOf (s : State) (p : Path) : Option (List Path) := (s.moduleFor p).map Mod.scope

/-- why the attempt on an unresolved item answers "try again later" -/
inductive Cause where
  /-- a type name that does not resolve in the scope of the item's module -/
  | missing (name : String)
  /-- an item that is embedded by value (field, `#[base]` field, array element, enum base type) and
      must be resolved first -/
  | waitsFor (q : Path)
  /-- a size that does not fit in a `usize`: pyxis treats `checked_mul` / `checked_add` overflow as
      "size not known yet" -/
  | overflow
deriving DecidableEq, Repr

/-- `p` is an unresolved item of the registry with definition `d`, in a module with scope `sc` -/
def Pend (s : State) (p : Path) (d : G.Item) (sc : List Path) : Prop :=
  ∃ i, s.reg.get p = some i ∧ i.state = .unres d ∧ scopeOf s p = some sc

/-- **the dependency relation read off the definition**: `p` uses the name `n` in a by-value relevant
    position / embeds `q` by value (through the resolution of names in the current key set) / may overflow -/
inductive WaitsOn (s : State) (p : Path) : Cause → Prop
  | missing (d : G.Item) (sc : List Path) (t : G.Ty) (n : String) :
      Pend s p d sc → t ∈ usedTys d → tyName t = some n → WaitsOn s p (.missing n)
  | waitsFor (d : G.Item) (sc : List Path) (t : G.Ty) (dt : DTy) (q : Path) :
      Pend s p d sc → t ∈ usedTys d → s.reg.resolveTy sc t = .ok dt → q ∈ byValue dt → WaitsOn s p (.waitsFor q)
  | overflow (d : G.Item) (sc : List Path) : Pend s p d sc → WaitsOn s p .overflow

/-- the size the registry answers for a region type (0 when unknown) -/
def rsz (r : Registry) (t : RTy) : Nat := match t.size r with | .ok (some n) => n | _ => 0

/-- declared offsets plus sizes of the pending fields of a type -/
def pendExtent (r : Registry) (pending : List (Option Nat × Region)) : Nat :=
  (pending.map fun f => f.1.getD 0 + rsz r f.2.ty).sum

/-- **a size of `p` does not fit in a `usize`**: an array type of `p` has all its by-value dependencies
    resolved and still no size (`checked_mul` failed), or all fields of `p` have a known size and the
    pointer size, the declared offsets, the field sizes and the declared size add up to more than
    `usize::MAX` (a `checked_add` in the placement loop failed) -/
inductive Overflow (s : State) (p : Path) : Prop
  | array (d : G.Item) (sc : List Path) (t : G.Ty) (dt : DTy) :
      Pend s p d sc → t ∈ usedTys d → s.reg.resolveTy sc t = .ok dt →
      (∀ q ∈ byValue dt, ∃ j, s.reg.get q = some j ∧ j.isResolved = true) →
      dt.size s.reg = .ok none → Overflow s p
  | extent (d : G.Item) (sc : List Path) (td : G.TypeDef) (ta : TypeAttrs) (sa : StmtAcc) :
      Pend s p d sc → d.inner = .type td →
      Res.foldlM typeAttrStep {} td.attrs = .ok ta →
      Res.foldlM (stmtStep s.reg sc) {} (td.stmts.zipIdx.map fun p => (p.2, p.1)) = .ok sa →
      (∀ f ∈ sa.pending, ∃ n, f.2.ty.size s.reg = .ok (some n)) →
      usizeMax < s.reg.ps + pendExtent s.reg sa.pending + ta.targetSize.getD 0 → Overflow s p

/-- the cause is what blocks `p` right now, in state `s` -/
def Active (s : State) (p : Path) : Cause → Prop
  | .missing n => ∃ sc, scopeOf s p = some sc ∧ s.reg.resolveString sc n = none
  | .waitsFor q => ∃ j, s.reg.get q = some j ∧ j.isResolved = false
  | .overflow => Overflow s p

/-! ## Part 3: a deferred attempt has a cause -/

theorem resolveString_raw (r : Registry) (scope : List Path) (name : String) (dt : DTy)
    (h : r.resolveString scope name = some dt) : ∃ p, dt = .raw p ∧ r.contains p = true := by
  have hraw : ∃ p, dt = .raw p := by
    unfold Registry.resolveString at h
    simp only at h
    split at h
    · cases h; exact ⟨_, rfl⟩
    · split at h
      · cases h; exact ⟨_, rfl⟩
      · cases h
  obtain ⟨p, rfl⟩ := hraw
  exact ⟨p, rfl, (C19.lookup_answer_lem r scope name p h).2⟩

/-- a resolved type expression only mentions registered items -/
theorem resolveTy_contains (r : Registry) (scope : List Path) (t : G.Ty) (dt : DTy)
    (h : r.resolveTy scope t = .ok dt) : ∀ q ∈ byValue dt, r.contains q = true := by
  induction t generalizing dt with
  | cptr t ih =>
    unfold Registry.resolveTy at h
    split at h
    · cases h; intro q hq; simp [byValue] at hq
    · next hne => exact absurd h (hne dt)
  | mptr t ih =>
    unfold Registry.resolveTy at h
    split at h
    · cases h; intro q hq; simp [byValue] at hq
    · next hne => exact absurd h (hne dt)
  | arr t n ih =>
    unfold Registry.resolveTy at h
    split at h
    · next t' ht' => cases h; simp only [byValue]; exact ih t' ht'
    · next hne => exact absurd h (hne dt)
  | ident s =>
    unfold Registry.resolveTy at h
    split at h
    · next t' ht' =>
      cases h
      obtain ⟨p, rfl, hc⟩ := resolveString_raw r scope s _ ht'
      intro q hq
      simp only [byValue, List.mem_singleton] at hq
      subst hq; exact hc
    · cases h
  | unk n =>
    unfold Registry.resolveTy Registry.paddingType at h
    split at h
    · next t' ht' =>
      cases h
      obtain ⟨p, rfl, hc⟩ := resolveString_raw r [] "u8" _ ht'
      intro q hq
      simp only [byValue, List.mem_singleton] at hq
      subst hq; exact hc
    · cases h

theorem contains_get (r : Registry) (q : Path) (h : r.contains q = true) : ∃ j, r.get q = some j := by
  unfold Registry.contains at h
  exact Option.isSome_iff_exists.mp h

/-- an unknown size of a resolved type expression: a by-value dependency is unresolved, or all are
    resolved (and the array size overflowed) -/
theorem byValue_dichotomy (r : Registry) (dt : DTy) (hc : ∀ q ∈ byValue dt, r.contains q = true) :
    (∃ q ∈ byValue dt, ∃ j, r.get q = some j ∧ j.isResolved = false) ∨
    (∀ q ∈ byValue dt, ∃ j, r.get q = some j ∧ j.isResolved = true) := by
  by_cases h : ∃ q ∈ byValue dt, ∃ j, r.get q = some j ∧ j.isResolved = false
  · exact .inl h
  · right
    intro q hq
    obtain ⟨j, hj⟩ := contains_get r q (hc q hq)
    refine ⟨j, hj, ?_⟩
    cases hr : j.isResolved with
    | true => rfl
    | false => exact absurd ⟨q, hq, j, hj, hr⟩ h

/-- the cause of an unknown size of a used type -/
theorem unknown_size_cause (s : State) (p : Path) (d : G.Item) (sc : List Path) (t : G.Ty) (dt : DTy)
    (hp : Pend s p d sc) (ht : t ∈ usedTys d) (hr : s.reg.resolveTy sc t = .ok dt)
    (hsz : dt.size s.reg = .ok none) : ∃ c, WaitsOn s p c ∧ Active s p c := by
  rcases byValue_dichotomy s.reg dt (resolveTy_contains s.reg sc t dt hr) with ⟨q, hq, j, hj, hu⟩ | hall
  · exact ⟨.waitsFor q, .waitsFor d sc t dt q hp ht hr hq, j, hj, hu⟩
  · exact ⟨.overflow, .overflow d sc hp, .array d sc t dt hp ht hr hall hsz⟩

theorem missing_name_cause (s : State) (p : Path) (d : G.Item) (sc : List Path) (t : G.Ty)
    (hp : Pend s p d sc) (ht : t ∈ usedTys d) (hr : s.reg.resolveTy sc t = .defer) :
    ∃ c, WaitsOn s p c ∧ Active s p c := by
  obtain ⟨n, hn, hnone⟩ := resolveTy_defer s.reg sc t hr
  obtain ⟨i, _, _, hsc⟩ := hp
  exact ⟨.missing n, .missing d sc t n ⟨i, ‹_›, ‹_›, hsc⟩ ht hn, sc, hsc, hnone⟩

/-- **an enum defers for an undefined base name, an unresolved base type, or an oversized one** -/
theorem buildEnum_defer_cause (s : State) (p : Path) (i : ItemDef) (d : G.Item) (ed : G.EnumDef)
    (hg : s.reg.get p = some i) (hu : i.state = .unres d) (hin : d.inner = .enum ed)
    (h : buildEnum s p ed = .defer) : ∃ c, WaitsOn s p c ∧ Active s p c := by
  unfold buildEnum at h
  cases hm : s.moduleFor p with
  | none => rw [hm] at h; cases h
  | some m =>
    rw [hm] at h
    simp only [] at h
    have hp : Pend s p d m.scope := ⟨i, hg, hu, by simp [scopeOf, hm]⟩
    have ht : ed.ty ∈ usedTys d := by simp [usedTys, hin]
    split at h
    · next ty hty =>
      split at h
      · next hsz => exact unknown_size_cause s p d m.scope ed.ty ty hp ht hty hsz
      · exfalso
        split at h
        · cases h
        · split at h
          · cases h
          · split at h
            · split at h
              · cases h
              · split at h
                · no_defer_at h
                · exact foldlM_nd _ _ _ (fun b a _ => enumAttrStep_nd b a) (cast_defer h)
            · exact foldlM_nd _ _ _ (fun b a _ => enumStmtStep_nd _ b a) (cast_defer h)
      · exfalso
        obtain ⟨o, ho⟩ := Mono.dsize_ok s.reg ty
        have := cast_defer h
        rw [ho] at this
        cases this
    · exact missing_name_cause s p d m.scope ed.ty hp ht (cast_defer h)

/-! ### `resolve_regions` -/

/-- `r'` has every entry of `r` (and maybe more) and the same pointer size -/
structure GetExt (r r' : Registry) : Prop where
  ps : r'.ps = r.ps
  get : ∀ q i, r.get q = some i → r'.get q = some i

theorem GetExt.refl (r : Registry) : GetExt r r := ⟨rfl, fun _ _ h => h⟩

theorem dsize_getExt (r r' : Registry) (h : GetExt r r') (t : DTy) (n : Nat) (hs : t.size r = .ok (some n)) :
    t.size r' = .ok (some n) := by
  induction t generalizing n with
  | raw p =>
    simp only [DTy.size, Res.ok.injEq] at hs ⊢
    cases hi : r.get p with
    | none => simp [hi] at hs
    | some i => rw [h.get p i hi]; rw [hi] at hs; exact hs
  | cptr t _ => simp only [DTy.size] at hs ⊢; rw [h.ps]; exact hs
  | mptr t _ => simp only [DTy.size] at hs ⊢; rw [h.ps]; exact hs
  | arr t m ih =>
    simp only [DTy.size] at hs ⊢
    cases ht : DTy.size r t with
    | ok o =>
      cases o with
      | none => simp [ht] at hs
      | some s0 => rw [ih s0 ht]; simp only [ht] at hs; exact hs
    | defer => simp [ht] at hs
    | err m => simp [ht] at hs
    | panic m => simp [ht] at hs

theorem rsize_getExt (r r' : Registry) (h : GetExt r r') (t : RTy) (n : Nat) (hs : t.size r = .ok (some n)) :
    t.size r' = .ok (some n) := by
  cases t with
  | data t => exact dsize_getExt r r' h t n hs
  | fn cc args ret => simp only [RTy.size] at hs ⊢; rw [h.ps]; exact hs

theorem Reach.getExt {s s1 : State} {owner : Path} (h : Reach s s1 owner) : GetExt s.reg s1.reg := by
  rcases h with rfl | ⟨item, _, _, hex, ha⟩
  · exact GetExt.refl _
  · rw [C14.addItem_reg s s1 item ha]
    refine ⟨rfl, ?_⟩
    intro q i hq
    rw [C14.get_add]
    split
    · next e =>
      subst e
      rcases hex with hn | hsome
      · rw [hn] at hq; cases hq
      · rw [hsome] at hq; exact hq
    · exact hq

/-- **`resolve_regions` with all field sizes known defers only beyond `usize::MAX`** -/
theorem resolveRegions_defer_big (s : State) (owner : Path) (vis : Vis) (target : Option Nat)
    (pending : List (Option Nat × Region)) (vfns : Option (List SFunc))
    (hall : ∀ f ∈ pending, ∃ n, f.2.ty.size s.reg = .ok (some n))
    (h : (resolveRegions s owner vis target pending vfns).2 = .defer) :
    usizeMax < s.reg.ps + pendExtent s.reg pending + target.getD 0 := by
  have hfb : ∀ b, (pending.map (·.2)).find? (·.isBase) = some b → ∃ n, b.ty.size s.reg = .ok (some n) := by
    intro b hb
    obtain ⟨f, hf, rfl⟩ := List.mem_map.mp (List.mem_of_find?_eq_some hb)
    exact hall f hf
  unfold resolveRegions at h
  simp only [] at h
  split at h
  · next hsz =>
    exfalso
    split at hsz
    · next b hb => obtain ⟨n, hn⟩ := hfb b hb; rw [hn] at hsz; cases hsz
    · cases hsz
  · next hsz =>
    exfalso
    split at hsz
    · next b hb => obtain ⟨n, hn⟩ := hfb b hb; rw [hn] at hsz; cases hsz
    · cases hsz
  · cases h
  · cases h
  · split at h
    · next s1 vft vregion hb =>
      simp only [] at h
      have hreach := buildVftable_reach s owner vis ((pending.map (·.2)).find? (·.isBase)) vfns
      rw [hb] at hreach
      have hext : GetExt s.reg s1.reg := hreach.getExt
      have hres : Layout.resolve (vregion.map (toPField s1.reg none))
          (pending.map fun p => toPField s1.reg p.1 p.2) target = .defer := by
        split at h
        · split at h
          · cases h
          · exact absurd (cast_defer h) (nameRegions_nd _ _ _)
        · exact cast_defer h
      have hv : ∀ v, vregion.map (toPField s1.reg none) = some v → Known v ∧ fsz v = s.reg.ps := by
        intro v hv
        cases vregion with
        | none => cases hv
        | some r =>
          simp only [Option.map_some, Option.some.injEq] at hv
          subst hv
          obtain ⟨t, ht⟩ := buildVftable_vregion s s1 owner vis _ vfns vft r hb
          have : (toPField s1.reg none r).size = .ok (some s1.reg.ps) := by
            simp only [toPField, ht, RTy.size, DTy.size]
          exact ⟨⟨_, this⟩, by simp only [fsz, this, hext.ps]⟩
      have hk : ∀ f ∈ pending.map (fun p => toPField s1.reg p.1 p.2), Known f := by
        intro f hf
        obtain ⟨g, hg, rfl⟩ := List.mem_map.mp hf
        obtain ⟨n, hn⟩ := hall g hg
        exact ⟨n, rsize_getExt _ _ hext _ n hn⟩
      have hbig := resolve_defer_big _ _ _ (fun v hv' => (hv v hv').1) hk hres
      have h1 : vsz (vregion.map (toPField s1.reg none)) ≤ s.reg.ps := by
        cases hvr : vregion.map (toPField s1.reg none) with
        | none => simp [vsz]
        | some v => simp only [vsz]; rw [(hv v hvr).2]; exact Nat.le_refl _
      have h2 : fieldsExtent (pending.map fun p => toPField s1.reg p.1 p.2) = pendExtent s.reg pending := by
        unfold fieldsExtent pendExtent
        rw [List.map_map]
        congr 1
        apply List.map_congr_left
        intro g hg
        obtain ⟨n, hn⟩ := hall g hg
        have hn' := rsize_getExt _ _ hext _ n hn
        simp only [Function.comp, toPField, fsz, rsz, hn, hn']
      omega
    · next s1 e hne hb =>
      have := buildVftable_nd s owner vis ((pending.map (·.2)).find? (·.isBase)) vfns
      rw [hb] at this
      exact absurd (cast_defer h) this

/-! ### `type_definition::build` -/

theorem mem_usedTys_type (d : G.Item) (td : G.TypeDef) (hin : d.inner = .type td) (st : G.Stmt)
    (hst : st ∈ td.stmts) (v : Vis) (n : String) (t : G.Ty) (hf : st.field = .field v n t) : t ∈ usedTys d := by
  simp only [usedTys, hin, List.mem_filterMap]
  exact ⟨st, hst, by rw [hf]⟩

/-- **a type defers for an undefined field type name, an unresolved by-value dependency, or a size
    beyond `usize::MAX`** – nothing else: pointers to unresolved types, function signatures, base
    function injection, the defaultable check and the alignment block never defer -/
theorem buildType_defer_cause (s : State) (p : Path) (vis : Vis) (i : ItemDef) (d : G.Item) (td : G.TypeDef)
    (hg : s.reg.get p = some i) (hu : i.state = .unres d) (hin : d.inner = .type td)
    (h : (buildType s p vis td).2 = .defer) : ∃ c, WaitsOn s p c ∧ Active s p c := by
  unfold buildType at h
  cases hm : s.moduleFor p with
  | none => rw [hm] at h; cases h
  | some m =>
    rw [hm] at h
    simp only [] at h
    have hp : Pend s p d m.scope := ⟨i, hg, hu, by simp [scopeOf, hm]⟩
    split at h
    · cases h
    · split at h
      · next ta hta =>
        cases hsa : Res.foldlM (stmtStep s.reg m.scope) {} (td.stmts.zipIdx.map fun p => (p.2, p.1)) with
        | ok sa =>
          rw [hsa] at h
          simp only [] at h
          have hfrom := stmts_fold_from s.reg m.scope td.stmts sa hsa
          by_cases hall : ∀ f ∈ sa.pending, ∃ n, f.2.ty.size s.reg = .ok (some n)
          · -- every field size is known: only the placement can have deferred
            have hrr : (resolveRegions s p vis ta.targetSize sa.pending sa.vfns).2 = .defer := by
              split at h
              · next s1 regions vft size placed hrr =>
                exfalso
                simp only [] at h
                split at h
                · cases h
                · split at h
                  · split at h
                    · split at h
                      · split at h
                        · cases h
                        · exact alignCheck_nd _ _ _ _ _ (cast_defer h)
                      · refine absurd (cast_defer h) ?_
                        split
                        · exact checkDefaultable_nd _ _
                        · nofun
                    · exact addImplFns_nd _ _ _ _ (cast_defer h)
                  · exact injectBases_nd _ _ _ (cast_defer h)
              · next s1 e hne hrr => rw [hrr]; exact cast_defer h
            have hbig := resolveRegions_defer_big s p vis ta.targetSize sa.pending sa.vfns hall hrr
            exact ⟨.overflow, .overflow d m.scope hp, .extent d m.scope td ta sa hp hin hta hsa hall hbig⟩
          · -- some field has no size yet
            have : ∃ f ∈ sa.pending, f.2.ty.size s.reg = .ok none := by
              apply Classical.byContradiction
              intro hno
              apply hall
              intro f hf
              obtain ⟨o, ho⟩ := Mono.rsize_ok s.reg f.2.ty
              cases o with
              | none => exact absurd ⟨f, hf, ho⟩ hno
              | some n => exact ⟨n, ho⟩
            obtain ⟨f, hf, hsz⟩ := this
            obtain ⟨st, hst, v, n, t, dt, hfield, hres, hty⟩ := hfrom f hf
            rw [hty] at hsz
            exact unknown_size_cause s p d m.scope t dt hp (mem_usedTys_type d td hin st hst v n t hfield) hres hsz
        | defer =>
          obtain ⟨st, hst, v, n, t, hfield, hres⟩ := stmts_fold_defer s.reg m.scope td.stmts hsa
          exact missing_name_cause s p d m.scope t hp (mem_usedTys_type d td hin st hst v n t hfield) hres
        | err e => rw [hsa] at h; cases h
        | panic e => rw [hsa] at h; cases h
      · exact absurd (cast_defer h) (foldlM_nd _ _ _ (fun b a _ => typeAttrStep_nd b a))

/-- the attempt on the unresolved item `p` in state `t` answers "try again later" (`Ok(None)`) -/
def Deferred (t : State) (p : Path) : Prop :=
  ∃ i d, t.reg.get p = some i ∧ i.state = .unres d ∧
    (match d.inner with
     | .type td => (buildType t p d.vis td).2 = .defer
     | .enum ed => buildEnum t p ed = .defer)

/-- **a deferred attempt has a cause** -/
theorem deferred_has_cause (t : State) (p : Path) (h : Deferred t p) : ∃ c, WaitsOn t p c ∧ Active t p c := by
  obtain ⟨i, d, hg, hu, h⟩ := h
  cases hin : d.inner with
  | type td => rw [hin] at h; exact buildType_defer_cause t p d.vis i d td hg hu hin h
  | enum ed => rw [hin] at h; exact buildEnum_defer_cause t p i d ed hg hu hin h

/-! ## Part 4: the last round of a build that gives up -/

theorem not_mem_ulist_setState (r : Registry) (p : Path) (x : Resolved) : p ∉ ulist (r.setState p (.res x)) := by
  intro hq
  simp only [ulist, Registry.setState, List.mem_map, List.mem_filter] at hq
  obtain ⟨e', ⟨⟨e, he, rfl⟩, hf⟩, hk⟩ := hq
  by_cases hk' : (e.1 == p) = true
  · simp [hk', ItemDef.isResolved, ItemDef.resolved?] at hf
  · simp only [hk'] at hk
    simp only [Bool.false_eq_true, if_false] at hk
    simp [hk] at hk'

theorem get_of_mem_ulist (r : Registry) (hn : (keys r).Nodup) (p : Path) (h : p ∈ ulist r) :
    ∃ j, r.get p = some j ∧ j.isResolved = false ∧ j.isPredefined = false := by
  simp only [ulist, List.mem_map, List.mem_filter] at h
  obtain ⟨e, ⟨he, hf⟩, rfl⟩ := h
  refine ⟨e.2, Mono.lookup_of_mem r.types hn e.1 e.2 he, ?_, ?_⟩
  · simp only [Bool.and_eq_true, Bool.not_eq_eq_eq_not, Bool.not_true] at hf; exact hf.2
  · simp only [Bool.and_eq_true, Bool.not_eq_eq_eq_not, Bool.not_true] at hf; exact hf.1

theorem mem_ulist_of_get (r : Registry) (p : Path) (j : ItemDef) (hg : r.get p = some j)
    (hr : j.isResolved = false) (hp : j.isPredefined = false) : p ∈ ulist r := by
  simp only [ulist, List.mem_map, List.mem_filter]
  exact ⟨(p, j), ⟨C14.mem_of_lookup _ _ _ hg, by simp [hr, hp]⟩, rfl⟩

theorem get_setState_self_resolved (r : Registry) (p : Path) (x : Resolved) (j : ItemDef)
    (h : (r.setState p (.res x)).get p = some j) : j.isResolved = true := by
  rw [get_setState] at h
  cases hg : r.get p with
  | none => rw [hg] at h; cases h
  | some v =>
    rw [hg] at h
    simp only [Option.map_some, BEq.rfl, if_true, Option.some.injEq] at h
    subst h
    rfl

/-- an attempt that answers `Ok` and leaves the item unresolved was a deferred one, and the only thing it may
    have done to the state is registering the generated vftable item -/
theorem attempt_deferred (t t' : State) (p : Path)
    (h : attemptItem t p = (t', .ok ())) (hu : ∃ j, t'.reg.get p = some j ∧ j.isResolved = false) :
    Deferred t p ∧ Reach t t' p := by
  obtain ⟨j, hj, hjr⟩ := hu
  unfold attemptItem at h
  split at h
  · simp at h
  · next item hget =>
    split at h
    · next r hres =>
      simp only [Prod.mk.injEq, and_true] at h
      subst h
      rw [hget] at hj; cases hj
      simp [ItemDef.isResolved, ItemDef.resolved?, hres] at hjr
    · next d hd =>
      split at h
      · next td htd =>
        have hreach := buildType_reach t p d.vis td
        split at h
        · next s1 r hb =>
          simp only [Prod.mk.injEq, and_true] at h
          subst h
          rw [get_setState_self_resolved _ _ _ _ hj] at hjr
          cases hjr
        · next s1 hb =>
          simp only [Prod.mk.injEq, and_true] at h
          subst h
          rw [hb] at hreach
          refine ⟨⟨item, d, hget, hd, ?_⟩, hreach⟩
          rw [htd]
          simp only [hb]
        · simp at h
        · simp at h
      · next ed hed =>
        split at h
        · next r hb =>
          simp only [Prod.mk.injEq, and_true] at h
          subst h
          rw [get_setState_self_resolved _ _ _ _ hj] at hjr
          cases hjr
        · next hb =>
          simp only [Prod.mk.injEq, and_true] at h
          subst h
          refine ⟨⟨item, d, hget, hd, ?_⟩, Or.inl rfl⟩
          rw [hed]
          exact hb
        · simp at h
        · simp at h

/-- two states the causes cannot tell apart: same entries, same pointer size, same module scopes (they may differ
    in the order of the registry entries and in the `defined paths` of the modules) -/
structure Same (s t : State) : Prop where
  get : ∀ q, t.reg.get q = s.reg.get q
  ps : t.reg.ps = s.reg.ps
  scope : ∀ q, scopeOf t q = scopeOf s q

theorem Same.refl (s : State) : Same s s := ⟨fun _ => rfl, rfl, fun _ => rfl⟩
theorem Same.symm {s t : State} (h : Same s t) : Same t s :=
  ⟨fun q => (h.get q).symm, h.ps.symm, fun q => (h.scope q).symm⟩
theorem Same.trans {s t u : State} (h1 : Same s t) (h2 : Same t u) : Same s u :=
  ⟨fun q => (h2.get q).trans (h1.get q), h2.ps.trans h1.ps, fun q => (h2.scope q).trans (h1.scope q)⟩

theorem Same.contains {s t : State} (h : Same s t) (q : Path) : t.reg.contains q = s.reg.contains q := by
  simp only [Registry.contains, h.get]

theorem addItem_scopeOf (s s' : State) (i : ItemDef) (h : s.addItem i = .ok s') (q : Path) :
    scopeOf s' q = scopeOf s q := by
  have key : ∀ pp, (s'.getModule pp).map Mod.scope = (s.getModule pp).map Mod.scope := by
    intro pp
    obtain ⟨parent, m0, hm0, rfl⟩ := C14.addItem_inv s s' i h
    unfold State.getModule at *
    simp only [C14.lookup_map_replace]
    by_cases hp : pp = parent
    · subst hp
      simp [hm0, Mod.scope]
    · have : (pp == parent) = false := by simpa using hp
      simp only [this]
      rfl
  unfold scopeOf State.moduleFor
  cases Path.parent? q with
  | none => rfl
  | some parent => exact key parent

theorem Reach.same {s s1 : State} {p : Path} (h : Reach s s1 p) (hn : (keys s.reg).Nodup)
    (hl : s1.reg.types.length = s.reg.types.length) : Same s s1 := by
  rcases h with rfl | ⟨item, _, _, hex, ha⟩
  · exact Same.refl _
  · have hreg := C14.addItem_reg s s1 item ha
    rcases hex with hnone | hsome
    · exfalso
      have hall : ∀ e ∈ s.reg.types, (e.1 != item.path) = true := by
        intro e he
        have : e.1 ≠ item.path := by
          intro heq
          have hc : s.reg.contains item.path = true :=
            (contains_iff_mem_keys s.reg item.path).mpr (heq ▸ List.mem_map.mpr ⟨e, he, rfl⟩)
          simp [Registry.contains, hnone] at hc
        simpa using this
      rw [hreg] at hl
      simp only [Registry.add, List.length_cons, List.filter_eq_self.mpr hall] at hl
      omega
    · refine ⟨?_, by rw [hreg]; rfl, addItem_scopeOf s s1 item ha⟩
      intro q
      rw [hreg, C14.get_add]
      split
      · next e => rw [e, hsome]
      · rfl

theorem Prog.length_le {r r' : Registry} {l : List Path} (h : Prog r r' l) (hn : (keys r).Nodup) :
    r.types.length ≤ r'.types.length := by
  have := nodup_subset_length (keys r) (keys r') hn (fun q hq =>
    (contains_iff_mem_keys r' q).mp (h.mono q ((contains_iff_mem_keys r q).mpr hq)))
  simpa [keys] using this

/-- **the last round**: if a whole round over `l` leaves every item of `l` unresolved and registers nothing,
    every attempt of the round was a deferred one, made in a state the causes cannot tell from the initial one -/
theorem stuck_round (l : List Path) (t t1 : State) (hn : (keys t.reg).Nodup)
    (hr : runRound t l = (t1, .ok ())) (hlen : t1.reg.types.length = t.reg.types.length)
    (hu : ∀ p ∈ l, p ∈ ulist t1.reg) :
    Same t t1 ∧ ∀ p ∈ l, ∃ t', Same t t' ∧ Deferred t' p := by
  induction l generalizing t with
  | nil =>
    simp only [runRound, Prod.mk.injEq, and_true] at hr
    subst hr
    exact ⟨Same.refl _, fun p hp => by cases hp⟩
  | cons p ps ih =>
    unfold runRound at hr
    split at hr
    · next s1 ha =>
      have hp1 := attemptItem_prog t p hn
      rw [ha] at hp1
      simp only [] at hp1
      have hp2 := runRound_prog ps s1 hp1.nodup
      rw [hr] at hp2
      simp only [] at hp2
      have l1 := hp1.length_le hn
      have l2 := hp2.length_le hp1.nodup
      have hpu : p ∈ ulist s1.reg := hp2.sub p (hu p List.mem_cons_self)
      obtain ⟨j, hj, hjr, _⟩ := get_of_mem_ulist s1.reg hp1.nodup p hpu
      obtain ⟨hdef, hreach⟩ := attempt_deferred t s1 p ha ⟨j, hj, hjr⟩
      have hsame : Same t s1 := hreach.same hn (by omega)
      obtain ⟨hs1, hrest⟩ := ih s1 hp1.nodup hr (by omega) (fun q hq => hu q (List.mem_cons_of_mem _ hq))
      refine ⟨hsame.trans hs1, ?_⟩
      intro q hq
      rcases List.mem_cons.mp hq with rfl | hq
      · exact ⟨t, Same.refl _, hdef⟩
      · obtain ⟨t', h1, h2⟩ := hrest q hq
        exact ⟨t', hsame.trans h1, h2⟩
    · next s1 e hne ha =>
      simp only [Prod.mk.injEq] at hr
      exact (hne hr.2).elim

/-! ### causes do not distinguish `Same` states -/

theorem Same.rsize {s t : State} (h : Same s t) (ty : RTy) : ty.size t.reg = ty.size s.reg := by
  cases ty with
  | data d => exact (C19.size_local_lem s.reg t.reg d h.ps (fun q _ => h.get q)).1
  | fn cc args ret => simp only [RTy.size, h.ps]

theorem Same.pend {s t : State} (h : Same s t) {p : Path} {d : G.Item} {sc : List Path} (hp : Pend t p d sc) :
    Pend s p d sc := by
  obtain ⟨i, hg, hu, hsc⟩ := hp
  exact ⟨i, by rw [← h.get p]; exact hg, hu, by rw [← h.scope p]; exact hsc⟩

theorem Same.waitsOn {s t : State} (h : Same s t) {p : Path} {c : Cause} (hw : WaitsOn t p c) : WaitsOn s p c := by
  cases hw with
  | missing d sc ty n hp ht hn => exact .missing d sc ty n (h.pend hp) ht hn
  | waitsFor d sc ty dt q hp ht hr hq =>
    exact .waitsFor d sc ty dt q (h.pend hp) ht (by rw [← resolveTy_congr s.reg t.reg h.contains sc ty]; exact hr) hq
  | overflow d sc hp => exact .overflow d sc (h.pend hp)

theorem Same.overflow {s t : State} (h : Same s t) {p : Path} (ho : Overflow t p) : Overflow s p := by
  cases ho with
  | array d sc ty dt hp ht hr hall hsz =>
    refine .array d sc ty dt (h.pend hp) ht (by rw [← resolveTy_congr s.reg t.reg h.contains sc ty]; exact hr) ?_ ?_
    · intro q hq
      obtain ⟨j, hj, hres⟩ := hall q hq
      exact ⟨j, by rw [← h.get q]; exact hj, hres⟩
    · rw [← (C19.size_local_lem s.reg t.reg dt h.ps (fun q _ => h.get q)).1]; exact hsz
  | extent d sc td ta sa hp hin hta hsa hall hbig =>
    have hrsz : ∀ ty, rsz t.reg ty = rsz s.reg ty := fun ty => by simp only [rsz, h.rsize]
    refine .extent d sc td ta sa (h.pend hp) hin hta ?_ ?_ ?_
    · rw [← Mono.stmtStep_fun s.reg t.reg h.contains]; exact hsa
    · intro f hf
      obtain ⟨n, hn⟩ := hall f hf
      exact ⟨n, by rw [← h.rsize]; exact hn⟩
    · have : pendExtent t.reg sa.pending = pendExtent s.reg sa.pending := by simp only [pendExtent, hrsz]
      rw [← this, ← h.ps]; exact hbig

theorem Same.active {s t : State} (h : Same s t) {p : Path} {c : Cause} (ha : Active t p c) : Active s p c := by
  cases c with
  | missing n =>
    obtain ⟨sc, hsc, hnone⟩ := ha
    refine ⟨sc, by rw [← h.scope p]; exact hsc, ?_⟩
    rw [← resolveString_congr s.reg t.reg sc n (fun q _ => h.contains q) (fun q _ => h.contains q)]
    exact hnone
  | waitsFor q =>
    obtain ⟨j, hj, hu⟩ := ha
    exact ⟨j, by rw [← h.get q]; exact hj, hu⟩
  | overflow => exact h.overflow ha

/-! ### the rounds of the resolution loop -/

/-- `s'` is the state after some number of complete rounds of the resolution loop from `s`, each ending `Ok` -/
inductive Rounds (prio : List Path) : State → State → Prop
  | refl (s : State) : Rounds prio s s
  | head (s s1 s' : State) : runRound s (s.reg.unresolved prio) = (s1, .ok ()) → Rounds prio s1 s' → Rounds prio s s'

/-- the build gives up in `s'` with the list `l`: `l` is the (non-empty) list of unresolved items of `s'`, and a
    whole round over `l` from `s'` ended `Ok` with the same list and the same number of registered items -/
structure StuckAt (prio : List Path) (s' : State) (l : List Path) : Prop where
  list : l = s'.reg.unresolved prio
  ne : l ≠ []
  round : ∃ s1, runRound s' l = (s1, .ok ()) ∧ l = s1.reg.unresolved prio ∧
    s'.reg.types.length = s1.reg.types.length

theorem resolveLoop_nonterm_inv (prio : List Path) (fuel : Nat) (s : State) (l : List Path)
    (h : resolveLoop prio fuel s = .nonterm l) : ∃ s', Rounds prio s s' ∧ StuckAt prio s' l := by
  induction fuel generalizing s with
  | zero => simp [resolveLoop] at h
  | succ n ih =>
    unfold resolveLoop at h
    simp only [] at h
    split at h
    · cases h
    · next hne =>
      split at h
      · next s1 hr =>
        split at h
        · next hcond =>
          cases h
          simp only [Bool.and_eq_true, beq_iff_eq] at hcond
          refine ⟨s, .refl s, rfl, ?_, s1, hr, hcond.1, hcond.2⟩
          intro he; rw [he] at hne; simp at hne
        · obtain ⟨s', h1, h2⟩ := ih s1 h
          exact ⟨s', .head s s1 s' hr h1, h2⟩
      all_goals cases h

theorem build_nonterm_inv (s : State) (prio : List Path) (l : List Path) (h : s.build prio = .nonterm l) :
    ∃ fuel, resolveLoop prio fuel s = .nonterm l := by
  unfold State.build at h
  simp only [] at h
  split at h
  · split at h <;> cases h
  · exact ⟨_, h⟩

/-- predefined items are resolved (true of every state made by `SemanticState::new` and `add_module`) -/
def PredefResolved (s : State) : Prop :=
  ∀ q j, s.reg.get q = some j → j.isPredefined = true → j.isResolved = true

theorem Reach.predef {s s1 : State} {p : Path} (h : Reach s s1 p) (hp : PredefResolved s) : PredefResolved s1 := by
  rcases h with rfl | ⟨item, _, hres, _, ha⟩
  · exact hp
  · intro q j hj hpre
    rw [C14.addItem_reg s s1 item ha, C14.get_add] at hj
    split at hj
    · cases hj; exact hres
    · exact hp q j hj hpre

theorem setState_predef (s : State) (p : Path) (x : Resolved) (hp : PredefResolved s) :
    PredefResolved { s with reg := s.reg.setState p (.res x) } := by
  intro q j hj hpre
  simp only [get_setState] at hj
  cases hg : s.reg.get q with
  | none => rw [hg] at hj; cases hj
  | some v =>
    rw [hg] at hj
    simp only [Option.map_some, Option.some.injEq] at hj
    subst hj
    split
    · simp [ItemDef.isResolved, ItemDef.resolved?]
    · next hne =>
      simp only [hne] at hpre
      exact hp q v hg hpre

theorem attemptItem_predef (s : State) (p : Path) (hp : PredefResolved s) : PredefResolved (attemptItem s p).1 := by
  unfold attemptItem
  split
  · exact hp
  · split
    · exact hp
    · next d _ =>
      split
      · next td _ =>
        have hr := (buildType_reach s p d.vis td).predef hp
        split
        · next s1 r hb => rw [hb] at hr; exact setState_predef s1 p r hr
        · next s1 hb => rw [hb] at hr; exact hr
        · next s1 m hb => rw [hb] at hr; exact hr
        · next s1 m hb => rw [hb] at hr; exact hr
      · split
        · exact setState_predef s p _ hp
        · exact hp
        · exact hp
        · exact hp

theorem runRound_predef (l : List Path) (s : State) (hp : PredefResolved s) : PredefResolved (runRound s l).1 := by
  induction l generalizing s with
  | nil => exact hp
  | cons p ps ih =>
    have h1 := attemptItem_predef s p hp
    unfold runRound
    split
    · next s1 ha => rw [ha] at h1; exact ih s1 h1
    · next s1 e _ ha => rw [ha] at h1; exact h1

theorem Rounds.inv {prio : List Path} {s s' : State} (h : Rounds prio s s') (hs : C12.StateOkB s)
    (hp : PredefResolved s) : C12.StateOkB s' ∧ PredefResolved s' := by
  induction h with
  | refl s => exact ⟨hs, hp⟩
  | head s s1 s' hr _ ih =>
    have h1 := (C12.runRound_shape (s.reg.unresolved prio) s hs).1
    have h2 := runRound_predef (s.reg.unresolved prio) s hp
    rw [hr] at h1 h2
    exact ih h1 h2

/-- **in the state where the build gives up, every listed item has an active cause, and an item it waits for is
    listed too** -/
theorem stuck_has_cause_at (prio : List Path) (s' : State) (l : List Path) (hs : C12.StateOkB s')
    (hp : PredefResolved s') (hst : StuckAt prio s' l) :
    ∀ p ∈ l, ∃ c, WaitsOn s' p c ∧ Active s' p c ∧ (match c with | .waitsFor q => q ∈ l | _ => True) := by
  obtain ⟨hl, _, s1, hr, hl1, hlen⟩ := hst
  have hn : (keys s'.reg).Nodup := hs.ok.reg.keys
  have hu : ∀ p ∈ l, p ∈ ulist s1.reg := by
    intro p hp
    rw [hl1, unresolved_eq, List.mem_mergeSort] at hp
    exact hp
  obtain ⟨_, hall⟩ := stuck_round l s' s1 hn hr hlen.symm hu
  intro p hpl
  obtain ⟨t', hsame, hdef⟩ := hall p hpl
  obtain ⟨c, hw, ha⟩ := deferred_has_cause t' p hdef
  refine ⟨c, hsame.waitsOn hw, hsame.active ha, ?_⟩
  have ha' := hsame.active ha
  cases c with
  | missing n => trivial
  | overflow => trivial
  | waitsFor q =>
    obtain ⟨j, hj, hjr⟩ := ha'
    have hjp : j.isPredefined = false := by
      cases hpre : j.isPredefined with
      | false => rfl
      | true => rw [hp q j hj hpre] at hjr; cases hjr
    show q ∈ l
    rw [hl, unresolved_eq, List.mem_mergeSort]
    exact mem_ulist_of_get s'.reg q j hj hjr hjp

theorem stuck_has_cause_lem (s : State) (prio : List Path) (hs : C12.StateOkB s) (hp : PredefResolved s)
    (l : List Path) (h : s.build prio = .nonterm l) :
    ∃ s', Rounds prio s s' ∧ StuckAt prio s' l ∧
      ∀ p ∈ l, ∃ c, WaitsOn s' p c ∧ Active s' p c ∧ (match c with | .waitsFor q => q ∈ l | _ => True) := by
  obtain ⟨fuel, hf⟩ := build_nonterm_inv s prio l h
  obtain ⟨s', hr, hst⟩ := resolveLoop_nonterm_inv prio fuel s l hf
  obtain ⟨hs', hp'⟩ := hr.inv hs hp
  exact ⟨s', hr, hst, stuck_has_cause_at prio s' l hs' hp' hst⟩

/-! ## Part 5: without `vftable` blocks the dependency relation of the initial state is the one of every later state -/

/-- `s'` is `s` with some unresolved items resolved: same modules, same keys, every unresolved entry unchanged -/
structure Ext (s s' : State) : Prop where
  modules : s'.modules = s.modules
  keys : ∀ q, s'.reg.contains q = s.reg.contains q
  unres : ∀ q j, s'.reg.get q = some j → j.isResolved = false → s.reg.get q = some j

theorem Ext.refl (s : State) : Ext s s := ⟨rfl, fun _ => rfl, fun _ _ h _ => h⟩

theorem Ext.trans {s t u : State} (h1 : Ext s t) (h2 : Ext t u) : Ext s u :=
  ⟨h2.modules.trans h1.modules, fun q => (h2.keys q).trans (h1.keys q),
   fun q j hj hr => h1.unres q j (h2.unres q j hj hr) hr⟩

theorem setState_ext (s : State) (p : Path) (x : Resolved) : Ext s { s with reg := s.reg.setState p (.res x) } := by
  refine ⟨rfl, ?_, ?_⟩
  · intro q
    simp only [Registry.contains, get_setState, Option.isSome_map]
  · intro q j hj hr
    simp only [get_setState] at hj
    cases hg : s.reg.get q with
    | none => rw [hg] at hj; cases hj
    | some v =>
      rw [hg] at hj
      simp only [Option.map_some, Option.some.injEq] at hj
      subst hj
      split at hr
      · simp [ItemDef.isResolved, ItemDef.resolved?] at hr
      · next hne => simp only [hne]; rfl

theorem attemptItem_ext (s : State) (p : Path) (hv : Mono.NoVftS s) (hu8 : s.reg.contains ["u8"] = true) :
    Ext s (attemptItem s p).1 := by
  unfold attemptItem
  split
  · exact Ext.refl s
  · next item hget =>
    split
    · exact Ext.refl s
    · next d hd =>
      split
      · next td htd =>
        rw [Mono.buildType_pure s p d.vis td (hv p item d td hget hd htd) hu8]
        cases Mono.btPure s.reg (s.moduleFor p) p td with
        | ok r => exact setState_ext s p r
        | defer => exact Ext.refl s
        | err m => exact Ext.refl s
        | panic m => exact Ext.refl s
      · split
        · exact setState_ext s p _
        · exact Ext.refl s
        · exact Ext.refl s
        · exact Ext.refl s

theorem Ext.noVftS {s s' : State} (h : Ext s s') (hv : Mono.NoVftS s) : Mono.NoVftS s' := by
  intro p i d td hi hst hin
  exact hv p i d td (h.unres p i hi (by simp [ItemDef.isResolved, ItemDef.resolved?, hst])) hst hin

theorem runRound_ext (l : List Path) (s : State) (hv : Mono.NoVftS s) (hu8 : s.reg.contains ["u8"] = true) :
    Ext s (runRound s l).1 := by
  induction l generalizing s with
  | nil => exact Ext.refl s
  | cons p ps ih =>
    have h1 := attemptItem_ext s p hv hu8
    unfold runRound
    split
    · next s1 ha =>
      rw [ha] at h1
      exact h1.trans (ih s1 (h1.noVftS hv) (by rw [h1.keys]; exact hu8))
    · next s1 e _ ha => rw [ha] at h1; exact h1

theorem Rounds.ext {prio : List Path} {s s' : State} (h : Rounds prio s s') (hv : Mono.NoVftS s)
    (hu8 : s.reg.contains ["u8"] = true) : Ext s s' := by
  induction h with
  | refl s => exact Ext.refl s
  | head s s1 s' hr _ ih =>
    have h1 := runRound_ext (s.reg.unresolved prio) s hv hu8
    rw [hr] at h1
    exact h1.trans (ih (h1.noVftS hv) (by rw [h1.keys]; exact hu8))

theorem Ext.scopeOf {s s' : State} (h : Ext s s') (q : Path) : scopeOf s' q = scopeOf s q := by
  unfold C10.scopeOf
  rw [Mono.moduleFor_congr s s' h.modules q]

theorem Ext.pend {s s' : State} (h : Ext s s') {p : Path} {d : G.Item} {sc : List Path} (hp : Pend s' p d sc) :
    Pend s p d sc := by
  obtain ⟨i, hg, hu, hsc⟩ := hp
  exact ⟨i, h.unres p i hg (by simp [ItemDef.isResolved, ItemDef.resolved?, hu]), hu, by rw [← h.scopeOf p]; exact hsc⟩

/-- the dependency relation of a later state is the one of the initial state -/
theorem Ext.waitsOn {s s' : State} (h : Ext s s') {p : Path} {c : Cause} (hw : WaitsOn s' p c) : WaitsOn s p c := by
  cases hw with
  | missing d sc ty n hp ht hn => exact .missing d sc ty n (h.pend hp) ht hn
  | waitsFor d sc ty dt q hp ht hr hq =>
    exact .waitsFor d sc ty dt q (h.pend hp) ht (by rw [← resolveTy_congr s.reg s'.reg h.keys sc ty]; exact hr) hq
  | overflow d sc hp => exact .overflow d sc (h.pend hp)

/-- an undefined name / an unresolved dependency of a later state is one of the initial state -/
theorem Ext.active {s s' : State} (h : Ext s s') {p : Path} {c : Cause} (hc : c ≠ .overflow) (ha : Active s' p c) :
    Active s p c := by
  cases c with
  | missing n =>
    obtain ⟨sc, hsc, hnone⟩ := ha
    refine ⟨sc, by rw [← h.scopeOf p]; exact hsc, ?_⟩
    rw [← resolveString_congr s.reg s'.reg sc n (fun q _ => h.keys q) (fun q _ => h.keys q)]
    exact hnone
  | waitsFor q =>
    obtain ⟨j, hj, hu⟩ := ha
    exact ⟨j, h.unres q j hj hu, hu⟩
  | overflow => exact absurd rfl hc

theorem exists_min_rank (rank : Path → Nat) (l : List Path) (hne : l ≠ []) :
    ∃ p ∈ l, ∀ q ∈ l, rank p ≤ rank q := by
  induction l with
  | nil => exact absurd rfl hne
  | cons a l ih =>
    cases l with
    | nil => exact ⟨a, List.mem_cons_self, fun q hq => by simp at hq; subst hq; exact Nat.le_refl _⟩
    | cons b l' =>
      obtain ⟨m, hm, hmin⟩ := ih (by simp)
      by_cases hle : rank a ≤ rank m
      · refine ⟨a, List.mem_cons_self, ?_⟩
        intro q hq
        rcases List.mem_cons.mp hq with rfl | hq
        · exact Nat.le_refl _
        · exact Nat.le_trans hle (hmin q hq)
      · refine ⟨m, List.mem_cons_of_mem _ hm, ?_⟩
        intro q hq
        rcases List.mem_cons.mp hq with rfl | hq
        · omega
        · exact hmin q hq

/-- **names defined and by-value embedding acyclic ⇒ a build that gives up does so for a size beyond `usize::MAX`**
    (descriptions without `vftable` blocks) -/
theorem acyclic_defined_stuck_overflow (s : State) (prio : List Path) (hs : C12.StateOkB s)
    (hp : PredefResolved s) (hv : C09.NoVft s)
    (hdef : ∀ p n, WaitsOn s p (.missing n) → ¬ Active s p (.missing n))
    (rank : Path → Nat)
    (hacyc : ∀ p q, WaitsOn s p (.waitsFor q) → Active s p (.waitsFor q) → rank q < rank p)
    (l : List Path) (h : s.build prio = .nonterm l) :
    ∃ s', Rounds prio s s' ∧ StuckAt prio s' l ∧ ∃ p ∈ l, Overflow s' p := by
  obtain ⟨s', hr, hst, hcause⟩ := stuck_has_cause_lem s prio hs hp l h
  have hext : Ext s s' := hr.ext (C09.noVftS_of_noVft hv) hs.ok.u8c
  refine ⟨s', hr, hst, ?_⟩
  obtain ⟨p, hpl, hmin⟩ := exists_min_rank rank l hst.ne
  obtain ⟨c, hw, ha, hin⟩ := hcause p hpl
  cases c with
  | missing n => exact absurd (hext.active (by simp) ha) (hdef p n (hext.waitsOn hw))
  | waitsFor q =>
    have := hacyc p q (hext.waitsOn hw) (hext.active (by simp) ha)
    have := hmin q hin
    omega
  | overflow => exact ⟨p, hpl, ha⟩

/-! ## `PredefResolved` holds for every state made by `SemanticState::new` and `add_module` -/

theorem addItem_predef (s s' : State) (i : ItemDef) (hs : PredefResolved s)
    (hi : i.isPredefined = true → i.isResolved = true) (h : s.addItem i = .ok s') : PredefResolved s' := by
  intro q j hj hpre
  rw [C14.addItem_reg s s' i h, C14.get_add] at hj
  split at hj
  · cases hj; exact hi hpre
  · exact hs q j hj hpre

theorem new_predef (ps : Nat) : PredefResolved (State.new ps) := by
  rw [C02.new_eq]
  have : ∀ (l : List (String × Nat)) (s : State), (s.getModule []).isSome = true → PredefResolved s →
      PredefResolved (l.foldl C02.newStep s) := by
    intro l
    induction l with
    | nil => intro s _ hs; exact hs
    | cons x l ih =>
      intro s hm hs
      obtain ⟨h1, h2⟩ := C02.newStep_spec s x hm
      refine ih _ h1 ?_
      intro q j hj _
      rw [h2, C14.get_add] at hj
      split at hj
      · cases hj; rfl
      · exact hs q j hj ‹_›
  refine this _ _ rfl ?_
  intro q j hj
  cases hj

theorem defStep_predef (path : Path) (s s' : State) (d : G.Item) (hs : PredefResolved s)
    (h : C14.defStep path s d = .ok s') : PredefResolved s' := by
  unfold C14.defStep at h
  split at h
  · cases h
  · exact addItem_predef s s' _ hs (fun hp => by simp [ItemDef.isPredefined] at hp) h

theorem xtypeStep_predef (path : Path) (s s' : State) (xt : String × List G.Attr) (hs : PredefResolved s)
    (h : C14.xtypeStep path s xt = .ok s') : PredefResolved s' := by
  unfold C14.xtypeStep at h
  split at h
  · split at h
    · cases h
    · split at h
      · cases h
      · split at h
        · cases h
        · split at h
          · cases h
          · exact addItem_predef s s' _ hs (fun _ => rfl) h
  · exact (C14.cast_ne_ok _ _ h).elim

theorem addModule_predef (s s' : State) (m : G.Module) (path : Path) (hs : PredefResolved s)
    (h : s.addModule m path = .ok s') : PredefResolved s' := by
  obtain ⟨xvals, doc, s2, _, h1, h2⟩ := C14.addModule_inv s s' m path h
  have k0 : PredefResolved (s.putModule path (C14.newMod m path xvals doc)) := hs
  have k2 : PredefResolved s2 :=
    (C12.PO.foldlM_inv (S := fun _ => True) PredefResolved (C14.defStep path) m.defs _ k0
      (fun b d _ hb => ⟨fun _ _ => trivial, fun b' hb' => defStep_predef path b b' d hb hb'⟩)).2 s2 h1
  exact (C12.PO.foldlM_inv (S := fun _ => True) PredefResolved (C14.xtypeStep path) m.xtypes _ k2
      (fun b xt _ hb => ⟨fun _ _ => trivial, fun b' hb' => xtypeStep_predef path b b' xt hb hb'⟩)).2 s' h2

/-- the initial state of every case has its predefined items resolved -/
theorem initialState_predef (c : Case) (s : State) (h : c.initialState = .ok s) : PredefResolved s := by
  unfold Case.initialState at h
  refine (C12.PO.foldlM_inv (S := fun _ => True) PredefResolved _ c.modules _ (new_predef c.ps) ?_).2 s h
  intro b me _ hb
  cases me with
  | ast path file m => exact ⟨fun _ _ => trivial, fun b' hb' => addModule_predef b b' m path hb hb'⟩
  | text f t => exact ⟨fun _ _ => trivial, fun b' hb' => by cases hb'⟩

/-! ## Part 6: the causes, computed (an executable reading of `WaitsOn` / `Active`) -/

/-- the causes the definition of `p` gives rise to, in the order of its statements -/
def causes (s : State) (p : Path) : List Cause :=
  match s.reg.get p with
  | some i =>
    match i.state with
    | .unres d =>
      match scopeOf s p with
      | some sc =>
        (usedTys d).filterMap (fun t => (tyName t).map Cause.missing) ++
        (usedTys d).flatMap (fun t => match s.reg.resolveTy sc t with
          | .ok dt => (byValue dt).map Cause.waitsFor
          | _ => []) ++ [Cause.overflow]
      | none => []
    | .res _ => []
  | none => []

theorem waitsOn_iff_mem_causes (s : State) (p : Path) (c : Cause) : WaitsOn s p c ↔ c ∈ causes s p := by
  constructor
  · intro h
    cases h with
    | missing d sc t n hp ht hn =>
      obtain ⟨i, hg, hu, hsc⟩ := hp
      simp only [causes, hg, hu, hsc, List.mem_append, List.mem_filterMap]
      exact .inl (.inl ⟨t, ht, by rw [hn]; rfl⟩)
    | waitsFor d sc t dt q hp ht hr hq =>
      obtain ⟨i, hg, hu, hsc⟩ := hp
      simp only [causes, hg, hu, hsc, List.mem_append, List.mem_flatMap]
      refine .inl (.inr ⟨t, ht, ?_⟩)
      rw [hr]
      exact List.mem_map.mpr ⟨q, hq, rfl⟩
    | overflow d sc hp =>
      obtain ⟨i, hg, hu, hsc⟩ := hp
      simp only [causes, hg, hu, hsc, List.mem_append, List.mem_singleton]
      exact .inr trivial
  · intro h
    unfold causes at h
    cases hg : s.reg.get p with
    | none => simp only [hg] at h; cases h
    | some i =>
      simp only [hg] at h
      cases hu : i.state with
      | res r => simp only [hu] at h; cases h
      | unres d =>
        simp only [hu] at h
        cases hsc : scopeOf s p with
        | none => simp only [hsc] at h; cases h
        | some sc =>
          simp only [hsc] at h
          have hp : Pend s p d sc := ⟨i, hg, hu, hsc⟩
          simp only [List.mem_append, List.mem_filterMap, List.mem_flatMap, List.mem_singleton] at h
          rcases h with (⟨t, ht, hn⟩ | ⟨t, ht, hq⟩) | rfl
          · cases hn' : tyName t with
            | none => rw [hn'] at hn; cases hn
            | some n =>
              rw [hn'] at hn
              simp only [Option.map_some, Option.some.injEq] at hn
              subst hn
              exact .missing d sc t n hp ht hn'
          · cases hr : s.reg.resolveTy sc t with
            | ok dt =>
              rw [hr] at hq
              simp only [] at hq
              obtain ⟨q, hq', rfl⟩ := List.mem_map.mp hq
              exact .waitsFor d sc t dt q hp ht hr hq'
            | defer => rw [hr] at hq; cases hq
            | err m => rw [hr] at hq; cases hq
            | panic m => rw [hr] at hq; cases hq
          · exact .overflow d sc hp

/-- `Overflow`, computed -/
def overflowB (s : State) (p : Path) : Bool :=
  match s.reg.get p with
  | some i =>
    match i.state with
    | .unres d =>
      match scopeOf s p with
      | some sc =>
        (usedTys d).any (fun t => match s.reg.resolveTy sc t with
          | .ok dt =>
            (byValue dt).all (fun q => match s.reg.get q with | some j => j.isResolved | none => false) &&
            decide (dt.size s.reg = .ok none)
          | _ => false) ||
        (match d.inner with
         | .type td =>
           match Res.foldlM typeAttrStep {} td.attrs,
                 Res.foldlM (stmtStep s.reg sc) {} (td.stmts.zipIdx.map fun p => (p.2, p.1)) with
           | .ok ta, .ok sa =>
             sa.pending.all (fun f => match f.2.ty.size s.reg with | .ok (some _) => true | _ => false) &&
             decide (usizeMax < s.reg.ps + pendExtent s.reg sa.pending + ta.targetSize.getD 0)
           | _, _ => false
         | .enum _ => false)
      | none => false
    | .res _ => false
  | none => false

theorem resolvedB_iff (r : Registry) (q : Path) :
    (match r.get q with | some j => j.isResolved | none => false) = true ↔ ∃ j, r.get q = some j ∧ j.isResolved = true := by
  cases r.get q with
  | none => simp
  | some j => simp

theorem knownB_iff (r : Registry) (ty : RTy) :
    (match ty.size r with | .ok (some _) => true | _ => false) = true ↔ ∃ n, ty.size r = .ok (some n) := by
  split
  · next n hn => simp only [true_iff]; exact ⟨n, hn⟩
  · next hne =>
    constructor
    · intro h; cases h
    · rintro ⟨n, hn⟩; exact absurd hn (hne n)

theorem overflow_iff (s : State) (p : Path) : Overflow s p ↔ overflowB s p = true := by
  constructor
  · intro h
    cases h with
    | array d sc t dt hp ht hr hall hsz =>
      obtain ⟨i, hg, hu, hsc⟩ := hp
      simp only [overflowB, hg, hu, hsc, Bool.or_eq_true, List.any_eq_true]
      refine .inl ⟨t, ht, ?_⟩
      rw [hr]
      simp only [Bool.and_eq_true, List.all_eq_true, decide_eq_true_eq]
      exact ⟨fun q hq => (resolvedB_iff s.reg q).mpr (hall q hq), hsz⟩
    | extent d sc td ta sa hp hin hta hsa hall hbig =>
      obtain ⟨i, hg, hu, hsc⟩ := hp
      simp only [overflowB, hg, hu, hsc, Bool.or_eq_true]
      refine .inr ?_
      rw [hin]
      simp only [hta, hsa, Bool.and_eq_true, List.all_eq_true, decide_eq_true_eq]
      exact ⟨fun f hf => (knownB_iff s.reg f.2.ty).mpr (hall f hf), hbig⟩
  · intro h
    unfold overflowB at h
    cases hg : s.reg.get p with
    | none => simp only [hg] at h; cases h
    | some i =>
      simp only [hg] at h
      cases hu : i.state with
      | res r => simp only [hu] at h; cases h
      | unres d =>
        simp only [hu] at h
        cases hsc : scopeOf s p with
        | none => simp only [hsc] at h; cases h
        | some sc =>
          simp only [hsc] at h
          have hp : Pend s p d sc := ⟨i, hg, hu, hsc⟩
          simp only [Bool.or_eq_true, List.any_eq_true] at h
          rcases h with ⟨t, ht, h⟩ | h
          · cases hr : s.reg.resolveTy sc t with
            | ok dt =>
              rw [hr] at h
              simp only [Bool.and_eq_true, List.all_eq_true, decide_eq_true_eq] at h
              exact .array d sc t dt hp ht hr (fun q hq => (resolvedB_iff s.reg q).mp (h.1 q hq)) h.2
            | defer => rw [hr] at h; cases h
            | err m => rw [hr] at h; cases h
            | panic m => rw [hr] at h; cases h
          · cases hin : d.inner with
            | enum ed => rw [hin] at h; cases h
            | type td =>
              rw [hin] at h
              simp only [] at h
              split at h
              · next ta sa hta hsa =>
                simp only [Bool.and_eq_true, List.all_eq_true, decide_eq_true_eq] at h
                exact .extent d sc td ta sa hp hin hta hsa (fun f hf => (knownB_iff s.reg f.2.ty).mp (h.1 f hf)) h.2
              · cases h

/-- `Active`, computed -/
def activeB (s : State) (p : Path) : Cause → Bool
  | .missing n => match scopeOf s p with | some sc => (s.reg.resolveString sc n).isNone | none => false
  | .waitsFor q => match s.reg.get q with | some j => !j.isResolved | none => false
  | .overflow => overflowB s p

theorem active_iff (s : State) (p : Path) (c : Cause) : Active s p c ↔ activeB s p c = true := by
  cases c with
  | missing n =>
    simp only [Active, activeB]
    cases scopeOf s p with
    | none => simp
    | some sc => simp
  | waitsFor q =>
    simp only [Active, activeB]
    cases s.reg.get q with
    | none => simp
    | some j => simp
  | overflow => exact overflow_iff s p

/-- the causes that block `p` in state `s`, computed -/
def activeCauses (s : State) (p : Path) : List Cause := (causes s p).filter (activeB s p)

theorem mem_activeCauses (s : State) (p : Path) (c : Cause) :
    c ∈ activeCauses s p ↔ WaitsOn s p c ∧ Active s p c := by
  simp only [activeCauses, List.mem_filter, waitsOn_iff_mem_causes, active_iff]

theorem WaitsOn.pend {s : State} {p : Path} {c : Cause} (h : WaitsOn s p c) : ∃ d sc, Pend s p d sc := by
  cases h with
  | missing d sc _ _ hp _ _ => exact ⟨d, sc, hp⟩
  | waitsFor d sc _ _ _ hp _ _ _ => exact ⟨d, sc, hp⟩
  | overflow d sc hp => exact ⟨d, sc, hp⟩

/-- only unresolved entries of the registry wait on anything -/
theorem WaitsOn.unres_key {s : State} {p : Path} {c : Cause} (h : WaitsOn s p c) :
    p ∈ (s.reg.types.filter (fun e => !e.2.isResolved)).map (·.1) := by
  obtain ⟨d, sc, i, hg, hu, _⟩ := h.pend
  refine List.mem_map.mpr ⟨(p, i), List.mem_filter.mpr ⟨C14.mem_of_lookup _ _ _ hg, ?_⟩, rfl⟩
  simp [ItemDef.isResolved, ItemDef.resolved?, hu]

/-- a build that ends in `nonterm` is a resolution loop that ends in `nonterm`; lifted to cases -/
theorem run_nonterm_inv (c : Case) (l : List Path) (h : c.run = .nonterm l) :
    ∃ s0, c.initialState = .ok s0 ∧ s0.build c.prio = .nonterm l := by
  unfold Case.run at h
  cases hi : c.initialState with
  | ok s0 => rw [hi] at h; exact ⟨s0, rfl, h⟩
  | defer => rw [hi] at h; cases h
  | err m => rw [hi] at h; cases h
  | panic m => rw [hi] at h; cases h

/-! ## Part 7: an accepted description has all names defined and no by-value cycle (no `vftable` blocks) -/

theorem resolveTy_ok_name (r : Registry) (scope : List Path) (t : G.Ty) (dt : DTy) (n : String)
    (h : r.resolveTy scope t = .ok dt) (hn : tyName t = some n) : (r.resolveString scope n).isSome = true := by
  induction t generalizing dt with
  | cptr t ih =>
    unfold Registry.resolveTy at h
    split at h
    · next t' ht' => exact ih t' ht' hn
    · next hne => exact absurd h (hne dt)
  | mptr t ih =>
    unfold Registry.resolveTy at h
    split at h
    · next t' ht' => exact ih t' ht' hn
    · next hne => exact absurd h (hne dt)
  | arr t m ih =>
    unfold Registry.resolveTy at h
    split at h
    · next t' ht' => exact ih t' ht' hn
    · next hne => exact absurd h (hne dt)
  | ident s =>
    simp only [tyName, Option.some.injEq] at hn
    subst hn
    unfold Registry.resolveTy at h
    split at h
    · next t' ht' => rw [ht']; rfl
    · cases h
  | unk m => cases hn

/-- a successful statement loop resolved the type of every field statement and queued it -/
def Covers (reg : Registry) (scope : List Path) (done : List G.Stmt) (acc : StmtAcc) : Prop :=
  ∀ st ∈ done, ∀ v n t, st.field = .field v n t →
    ∃ dt, reg.resolveTy scope t = .ok dt ∧ ∃ f ∈ acc.pending, f.2.ty = .data dt

theorem stmtStep_covers (reg : Registry) (scope : List Path) (acc acc' : StmtAcc) (ist : Nat × G.Stmt)
    (h : stmtStep reg scope acc ist = .ok acc') :
    (∀ f ∈ acc.pending, f ∈ acc'.pending) ∧
    (∀ v n t, ist.2.field = .field v n t →
      ∃ dt, reg.resolveTy scope t = .ok dt ∧ ∃ f ∈ acc'.pending, f.2.ty = .data dt) := by
  obtain ⟨idx, st⟩ := ist
  unfold stmtStep at h
  simp only [] at h
  split at h
  · next vis name ty hf =>
    split at h
    · cases h
    · split at h
      · next fa _ =>
        split at h
        · cases h
        · split at h
          · next dt hdt =>
            generalize (if (name != "_") = true then some name else none) = ident at h
            split at h
            · cases h
            · cases h
              refine ⟨fun f hfm => List.mem_append_left _ hfm, ?_⟩
              intro v n t hft
              rw [hf] at hft
              cases hft
              exact ⟨dt, hdt, _, List.mem_append_right _ (List.mem_singleton.mpr rfl), rfl⟩
          · exact absurd h (C01.cast_ne_ok _ _)
      · exact absurd h (C01.cast_ne_ok _ _)
  · next fns hf =>
    split at h
    · cases h
    · split at h
      · cases h
      · split at h
        · split at h
          · cases h
            exact ⟨fun f hfm => hfm, fun v n t hft => by rw [hf] at hft; cases hft⟩
          · exact absurd h (C01.cast_ne_ok _ _)
        · exact absurd h (C01.cast_ne_ok _ _)

theorem stmts_fold_covers_aux (reg : Registry) (scope : List Path) (l : List (Nat × G.Stmt)) (acc acc' : StmtAcc)
    (h : Res.foldlM (stmtStep reg scope) acc l = .ok acc') :
    (∀ f ∈ acc.pending, f ∈ acc'.pending) ∧ Covers reg scope (l.map (·.2)) acc' := by
  induction l generalizing acc with
  | nil =>
    simp only [Res.foldlM, Res.ok.injEq] at h
    subst h
    exact ⟨fun f hf => hf, fun st hst => by cases hst⟩
  | cons x l ih =>
    obtain ⟨acc1, h1, h2⟩ := C14.foldlM_cons_ok _ _ _ _ _ h
    obtain ⟨k1, k2⟩ := stmtStep_covers reg scope acc acc1 x h1
    obtain ⟨i1, i2⟩ := ih acc1 h2
    refine ⟨fun f hf => i1 f (k1 f hf), ?_⟩
    intro st hst v n t hft
    simp only [List.map_cons, List.mem_cons] at hst
    rcases hst with rfl | hst
    · obtain ⟨dt, hdt, f, hf, hty⟩ := k2 v n t hft
      exact ⟨dt, hdt, f, i1 f hf, hty⟩
    · exact i2 st hst v n t hft

theorem stmts_fold_covers (reg : Registry) (scope : List Path) (stmts : List G.Stmt) (sa : StmtAcc)
    (h : Res.foldlM (stmtStep reg scope) {} (stmts.zipIdx.map fun p => (p.2, p.1)) = .ok sa) :
    Covers reg scope stmts sa := by
  have := (stmts_fold_covers_aux reg scope _ {} sa h).2
  rw [C01.zipIdx_swap_snd] at this
  exact this

theorem step_ok_known {β} (st st' : St β) (f : PField β) (h : Mono.step st f = .ok st') : Known f := by
  have hp : ∀ st0 : St β, pushField st0 f = .ok st' → Known f := by
    intro st0 h0
    unfold pushField push at h0
    split at h0
    · cases h0
    · next s hs => exact ⟨s, hs⟩
    · cases h0
    · cases h0
    · cases h0
  unfold Mono.step at h
  split at h
  · split at h
    · cases h
    · split at h
      · exact hp _ h
      · cases h
      · cases h
      · cases h
  · exact hp _ h

theorem place_ok_known {β} (fs : List (PField β)) (st st' : St β) (h : place st fs = .ok st') :
    ∀ f ∈ fs, Known f := by
  induction fs generalizing st with
  | nil => intro f hf; cases hf
  | cons g fs ih =>
    rw [Mono.place_cons] at h
    cases hs : Mono.step st g with
    | ok st1 =>
      rw [hs] at h
      intro f hf
      rcases List.mem_cons.mp hf with rfl | hf
      · exact step_ok_known st st1 f hs
      · exact ih st1 h f hf
    | defer => rw [hs] at h; cases h
    | err m => rw [hs] at h; cases h
    | panic m => rw [hs] at h; cases h

theorem resolve_ok_known {β} (fields : List (PField β)) (target : Option Nat) (x : List (Placed β) × Nat)
    (h : Layout.resolve none fields target = .ok x) : ∀ f ∈ fields, Known f := by
  unfold Layout.resolve at h
  simp only [] at h
  cases hp : place ([], 0) fields with
  | ok st1 => exact place_ok_known fields _ st1 hp
  | defer => rw [hp] at h; cases h
  | err m => rw [hp] at h; cases h
  | panic m => rw [hp] at h; cases h

/-- **a type that resolves (no vftable block) has every field type resolved with a known size** -/
theorem btPure_ok_deps (reg : Registry) (m : Mod) (path : Path) (td : G.TypeDef) (r : Resolved)
    (h : Mono.btPure reg (some m) path td = .ok r) :
    ∀ st ∈ td.stmts, ∀ v n t, st.field = .field v n t →
      ∃ dt k, reg.resolveTy m.scope t = .ok dt ∧ dt.size reg = .ok (some k) := by
  unfold Mono.btPure at h
  simp only [] at h
  split at h
  · cases h
  · split at h
    · next ta _ =>
      split at h
      · next sa hsa =>
        have hcov := stmts_fold_covers reg m.scope td.stmts sa hsa
        cases hrr : Mono.rrPure reg ta.targetSize sa.pending with
        | ok x =>
          have hknown : ∀ f ∈ sa.pending, ∃ k, f.2.ty.size reg = .ok (some k) := by
            unfold Mono.rrPure at hrr
            split at hrr
            · cases hrr
            · cases hrr
            · cases hrr
            · cases hrr
            · split at hrr
              · split at hrr
                · next placed size hres =>
                  intro f hf
                  exact resolve_ok_known _ _ _ hres (toPField reg f.1 f.2) (List.mem_map.mpr ⟨f, hf, rfl⟩)
                · exact absurd hrr (C01.cast_ne_ok _ _)
              · exact absurd hrr (C01.cast_ne_ok _ _)
          intro st hst v n t hft
          obtain ⟨dt, hdt, f, hf, hty⟩ := hcov st hst v n t hft
          obtain ⟨k, hk⟩ := hknown f hf
          rw [hty] at hk
          exact ⟨dt, k, hdt, hk⟩
        | defer => rw [hrr] at h; cases h
        | err e => rw [hrr] at h; cases h
        | panic e => rw [hrr] at h; cases h
      · exact absurd h (C01.cast_ne_ok _ _)
    · exact absurd h (C01.cast_ne_ok _ _)

theorem buildEnum_ok_deps (s : State) (p : Path) (ed : G.EnumDef) (r : Resolved) (h : buildEnum s p ed = .ok r) :
    ∃ m dt k, s.moduleFor p = some m ∧ s.reg.resolveTy m.scope ed.ty = .ok dt ∧ dt.size s.reg = .ok (some k) := by
  unfold buildEnum at h
  split at h
  · cases h
  · next m hm =>
    split at h
    · next ty hty =>
      split at h
      · cases h
      · next size hsize => exact ⟨m, ty, size, hm, hty, hsize⟩
      · exact absurd h (C01.cast_ne_ok _ _)
    · exact absurd h (C01.cast_ne_ok _ _)

/-- the by-value dependencies of a type expression with a known size are resolved -/
theorem known_size_resolved (r : Registry) (dt : DTy) (k : Nat) (h : dt.size r = .ok (some k)) (q : Path)
    (hq : q ∈ byValue dt) : ∃ j, r.get q = some j ∧ j.isResolved = true := by
  obtain ⟨i, res, hi, hres⟩ := Mono.knownD_of_size r dt k h q hq
  exact ⟨i, hi, by simp [ItemDef.isResolved, hres]⟩

/-- **what a successful attempt tells about the initial state**: every name the definition of `k` uses resolves, and
    every item it embeds by value that was unresolved initially has been resolved by the run before `k` -/
theorem attempt_done_deps (s : State) (hv : Mono.NoVftS s) (hu8 : s.reg.contains ["u8"] = true)
    (R : Work.Reg Path Resolved) (k : Path) (v : Resolved) (h : Mono.attempt s R k = .done v) :
    (∀ n, WaitsOn s k (.missing n) → ¬ Active s k (.missing n)) ∧
    (∀ q, WaitsOn s k (.waitsFor q) → Active s k (.waitsFor q) → (R q).isSome = true) := by
  unfold Mono.attempt at h
  cases hg : s.reg.get k with
  | none => simp [hg] at h
  | some i =>
    simp only [hg] at h
    split at h
    · cases h
    · cases hst : i.state with
      | res r => simp [hst] at h
      | unres d =>
        simp only [hst] at h
        -- the state the attempt ran in has the keys and modules of `s`
        have hkeys : ∀ q, (Mono.stateOf s R).reg.contains q = s.reg.contains q := by
          intro q
          simp only [Registry.contains, Mono.get_stateOf, Option.isSome_map]
        have hmod : (Mono.stateOf s R).moduleFor k = s.moduleFor k := Mono.moduleFor_congr s _ rfl k
        have hresolved : ∀ q j, s.reg.get q = some j → j.isResolved = false →
            (∃ j', (Mono.stateOf s R).reg.get q = some j' ∧ j'.isResolved = true) → (R q).isSome = true := by
          intro q j hj hjr ⟨j', hj', hjr'⟩
          rw [Mono.get_stateOf, hj] at hj'
          simp only [Option.map_some, Option.some.injEq] at hj'
          subst hj'
          cases hR : R q with
          | some r => rfl
          | none => rw [Mono.resItem_none R q j hR, hjr] at hjr'; cases hjr'
        -- what the build function established for every used type
        have key : ∃ m, s.moduleFor k = some m ∧ ∀ t ∈ usedTys d, ∃ dt n,
            (Mono.stateOf s R).reg.resolveTy m.scope t = .ok dt ∧ dt.size (Mono.stateOf s R).reg = .ok (some n) := by
          cases hin : d.inner with
          | type td =>
            simp only [hin] at h
            have hfo := hv k i d td hg hst hin
            rw [Mono.buildType_pure _ k d.vis td hfo (by rw [hkeys]; exact hu8)] at h
            simp only [] at h
            cases hb : Mono.btPure (Mono.stateOf s R).reg ((Mono.stateOf s R).moduleFor k) k td with
            | ok r =>
              cases hm : (Mono.stateOf s R).moduleFor k with
              | none => rw [hm] at hb; simp [Mono.btPure] at hb
              | some m =>
                rw [hm] at hb
                refine ⟨m, by rw [← hmod]; exact hm, ?_⟩
                intro t ht
                simp only [usedTys, hin, List.mem_filterMap] at ht
                obtain ⟨st, hstm, hft⟩ := ht
                cases hf : st.field with
                | vftable fns => rw [hf] at hft; cases hft
                | field vis n ty =>
                  rw [hf] at hft
                  simp only [Option.some.injEq] at hft
                  subst hft
                  exact btPure_ok_deps _ m k td r hb st hstm vis n ty hf
            | defer => rw [hb] at h; cases h
            | err e => rw [hb] at h; cases h
            | panic e => rw [hb] at h; cases h
          | enum ed =>
            simp only [hin] at h
            cases hb : buildEnum (Mono.stateOf s R) k ed with
            | ok r =>
              obtain ⟨m, dt, n, hm, hdt, hsz⟩ := buildEnum_ok_deps _ k ed r hb
              refine ⟨m, by rw [← hmod]; exact hm, ?_⟩
              intro t ht
              simp only [usedTys, hin, List.mem_singleton] at ht
              subst ht
              exact ⟨dt, n, hdt, hsz⟩
            | defer => rw [hb] at h; cases h
            | err e => rw [hb] at h; cases h
            | panic e => rw [hb] at h; cases h
        obtain ⟨m, hm, hall⟩ := key
        have hpend : ∀ d' sc', Pend s k d' sc' → d' = d ∧ sc' = m.scope := by
          intro d' sc' ⟨i', hg', hu', hsc'⟩
          rw [hg] at hg'; cases hg'
          rw [hst] at hu'; cases hu'
          simp only [scopeOf, hm, Option.map_some, Option.some.injEq] at hsc'
          exact ⟨rfl, hsc'.symm⟩
        constructor
        · intro n hw ⟨sc, hsc, hnone⟩
          cases hw with
          | missing d' sc' t _ hp ht hn =>
            obtain ⟨rfl, rfl⟩ := hpend d' sc' hp
            simp only [scopeOf, hm, Option.map_some, Option.some.injEq] at hsc
            subst hsc
            obtain ⟨dt, _, hdt, _⟩ := hall t ht
            rw [resolveTy_congr s.reg _ hkeys] at hdt
            have := resolveTy_ok_name s.reg m.scope t dt n hdt hn
            rw [hnone] at this
            cases this
        · intro q hw ⟨j, hj, hjr⟩
          cases hw with
          | waitsFor d' sc' t dt' _ hp ht hr hq =>
            obtain ⟨rfl, rfl⟩ := hpend d' sc' hp
            obtain ⟨dt, n, hdt, hsz⟩ := hall t ht
            rw [resolveTy_congr s.reg _ hkeys, hr] at hdt
            cases hdt
            exact hresolved q j hj hjr (known_size_resolved _ dt' n hsz q hq)

/-- the run so far is ranked: every item resolved by the run has its names defined and was resolved after the
    initially unresolved items it embeds by value -/
def Ranked (s : State) (R : Work.Reg Path Resolved) (rank : Path → Nat) (N : Nat) : Prop :=
  ∀ k v, R k = some v → rank k < N ∧
    (∀ n, WaitsOn s k (.missing n) → ¬ Active s k (.missing n)) ∧
    (∀ q, WaitsOn s k (.waitsFor q) → Active s k (.waitsFor q) → (R q).isSome = true ∧ rank q < rank k)

theorem run_ranked (s : State) (hv : Mono.NoVftS s) (hu8 : s.reg.contains ["u8"] = true)
    {R : Work.Reg Path Resolved} (r : Work.Run (Mono.attempt s) Mono.R0 R) : ∃ rank N, Ranked s R rank N := by
  induction r with
  | start => exact ⟨fun _ => 0, 0, fun k v h => by simp [Mono.R0] at h⟩
  | step R k v _ hk ha ih =>
    obtain ⟨rank, N, hR⟩ := ih
    obtain ⟨d1, d2⟩ := attempt_done_deps s hv hu8 R k v ha
    refine ⟨fun x => if x = k then N else rank x, N + 1, ?_⟩
    intro k' v' hk'
    have hsome_ne : ∀ q, (R q).isSome = true → q ≠ k := by
      intro q hq e; rw [e, hk] at hq; cases hq
    have hupd : ∀ q, (R q).isSome = true → (Work.upd R k v q).isSome = true := by
      intro q hq; simp only [Work.upd, if_neg (hsome_ne q hq)]; exact hq
    by_cases e : k' = k
    · subst e
      refine ⟨by simp, d1, ?_⟩
      intro q hw hact
      have hq := d2 q hw hact
      refine ⟨hupd q hq, ?_⟩
      simp only [if_neg (hsome_ne q hq), if_true]
      obtain ⟨vq, hvq⟩ := Option.isSome_iff_exists.mp hq
      exact (hR q vq hvq).1
    · have hk'' : R k' = some v' := by simpa [Work.upd, e] using hk'
      obtain ⟨h1, h2, h3⟩ := hR k' v' hk''
      refine ⟨by simp only [if_neg e]; omega, h2, ?_⟩
      intro q hw hact
      obtain ⟨hq, hlt⟩ := h3 q hw hact
      refine ⟨hupd q hq, ?_⟩
      simp only [if_neg (hsome_ne q hq), if_neg e]
      exact hlt

/-- **accepted ⇒ every used name is defined and by-value embedding among the unresolved items is acyclic**
    (descriptions without `vftable` blocks): the order of resolution is a rank -/
theorem accepted_defined_acyclic_lem (s : State) (prio : List Path) (hs : C12.StateOkB s) (hp : PredefResolved s)
    (hv : C09.NoVft s) (fuel : Nat) (s' : State) (h : resolveLoop prio fuel s = .ok s') :
    (∀ p n, WaitsOn s p (.missing n) → ¬ Active s p (.missing n)) ∧
    ∃ rank : Path → Nat, ∀ p q, WaitsOn s p (.waitsFor q) → Active s p (.waitsFor q) → rank q < rank p := by
  have hn := hs.ok.reg.keys
  have hv' := C09.noVftS_of_noVft hv
  have hsim := Mono.resolveLoop_sim s hn hv' prio fuel Mono.R0 Work.Run.start (by rw [Mono.stateOf_R0]; exact hs)
  rw [Mono.stateOf_R0, h] at hsim
  obtain ⟨R', hrun, _, hunres⟩ := hsim
  have htotal := Mono.total_of_unresolved_nil s hn R' prio hunres
  obtain ⟨rank, N, hR⟩ := run_ranked s hv' hs.ok.u8c hrun
  -- every item that waits on something was resolved by the run
  have hres : ∀ p c, WaitsOn s p c → ∃ v, R' p = some v := by
    intro p c hw
    obtain ⟨d, sc, i, hg, hu, _⟩ := hw.pend
    have hpre : i.isPredefined = false := by
      cases hpi : i.isPredefined with
      | false => rfl
      | true =>
        have := hp p i hg hpi
        simp [ItemDef.isResolved, ItemDef.resolved?, hu] at this
    exact Option.isSome_iff_exists.mp (htotal p ⟨i, d, hg, hpre, hu⟩)
  refine ⟨?_, rank, ?_⟩
  · intro p n hw
    obtain ⟨v, hv⟩ := hres p _ hw
    exact (hR p v hv).2.1 n hw
  · intro p q hw ha
    obtain ⟨v, hv⟩ := hres p _ hw
    exact ((hR p v hv).2.2 q hw ha).2

end PyxisVerif.C10
