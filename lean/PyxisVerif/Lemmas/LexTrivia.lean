import PyxisVerif.Lemmas.LexRender
/-!
# C18 – lexing a text rendered with arbitrary trivia (`Print.render`)
-/
namespace PyxisVerif
namespace C18
open Lex (K Delim Tok Pos)
open Print (digitsLE digitChar Base Piece Trivia)




/-! ## skipping trivia -/

theorem untilNl_line (t : List Char) (h : '\n' ∉ t) (rest : List Char) :
    (Lex.untilNl (t ++ '\n' :: rest)).2 = '\n' :: rest := by
  induction t with
  | nil => simp [Lex.untilNl]
  | cons c t ih =>
    have hc : c ≠ '\n' := by intro e; subst e; simp at h
    have ht : '\n' ∉ t := by intro e; exact h (by simp [e])
    have ih' := ih ht
    simp only [List.cons_append]
    unfold Lex.untilNl
    split
    · rename_i heq; cases heq
    · rename_i r heq; simp only [List.cons.injEq] at heq; exact absurd heq.1 hc
    · rename_i r heq
      simp only [List.cons.injEq] at heq
      cases t with
      | nil => simp only [List.nil_append, List.cons.injEq] at heq; rw [heq.2.2]
      | cons x xs =>
        simp only [List.cons_append, List.cons.injEq] at heq
        have : x ≠ '\n' := by intro e; subst e; simp at ht
        exact absurd heq.2.1 this
    · rename_i c' r' _ _ heq
      simp only [List.cons.injEq] at heq
      rw [← heq.2]
      exact ih'

theorem blockEnd_append (xs : List Char) : ∀ (d : Nat) (ys rest : List Char),
    Lex.blockEnd d xs = some ys → Lex.blockEnd d (xs ++ rest) = some (ys ++ rest) := by
  intro d ys rest h
  fun_induction Lex.blockEnd d xs with
  | case1 d => cases h
  | case2 d r ih => simpa [Lex.blockEnd] using ih h
  | case3 r => cases h; simp [Lex.blockEnd]
  | case4 d r ih => simpa [Lex.blockEnd] using ih h
  | case5 d c r h1 h2 h3 ih =>
    cases r with
    | nil => simp [Lex.blockEnd] at h
    | cons x r' =>
      have ih' := ih h
      simp only [List.cons_append] at ih' ⊢
      rw [← ih']
      conv => lhs; unfold Lex.blockEnd
      split
      · rename_i heq; cases heq
      · rename_i d' r'' heq
        simp only [List.cons.injEq] at heq
        exact (h1 r' heq.1 (by rw [heq.2.1])).elim
      · rename_i r'' heq
        simp only [List.cons.injEq] at heq
        exact (h2 r' rfl heq.1 (by rw [heq.2.1])).elim
      · rename_i d' r'' heq
        simp only [List.cons.injEq] at heq
        exact (h3 d' r' rfl heq.1 (by rw [heq.2.1])).elim
      · rename_i heq
        simp only [List.cons.injEq] at heq
        rw [← heq.2]

open Print (digitsLE digitChar Base Piece Trivia)

def pieceSteps (p : Piece) : Nat :=
  if p.valid then (match p with | .ws _ => 1 | .line _ => 2 | .block _ => 1) else 1

def piecesSteps (ps : List Piece) : Nat := (ps.map pieceSteps).sum

theorem lexCore_ws (c : Char) (h : Lex.isWs c = true) (f : Nat) (r : List Char)
    (st : List (Delim × Lex.Mark)) : Lex.lexCore (f + 1) (c :: r) st = Lex.lexCore f r st := by
  rw [Lex.lexCore]; simp [h]

theorem lexCore_skip (c : Char) (r rest : List Char) (hws : Lex.isWs c = false)
    (h : Lex.scanSlash (c :: r) = .skip rest) (f : Nat) (st : List (Delim × Lex.Mark)) :
    Lex.lexCore (f + 1) (c :: r) st = Lex.lexCore f rest st := by
  rw [Lex.lexCore]; simp [hws, h]

theorem scanSlash_ll_plain (r : List Char) (h1 : ∀ r', r ≠ '!' :: r') (h2 : ∀ r', r ≠ '/' :: r') :
    Lex.scanSlash ('/' :: '/' :: r) = .skip (Lex.untilNl r).2 := by
  simp only [Lex.scanSlash]

theorem scanSlash_ll_outer (r' : List Char) (h : ∀ r'', r' ≠ '/' :: r'') :
    Lex.scanSlash ('/' :: '/' :: '/' :: r') = Lex.docLine false r' := by
  simp only [Lex.scanSlash]

theorem scanSlash_bl_plain (r : List Char) (h1 : ∀ r', r ≠ '!' :: r') (h2 : ∀ r', r ≠ '*' :: r') :
    Lex.scanSlash ('/' :: '*' :: r) = Lex.plainBlock r := by
  simp only [Lex.scanSlash]

theorem scanSlash_bl_outer (r' : List Char) (h1 : ∀ r'', r' ≠ '/' :: r'') (h2 : ∀ r'', r' ≠ '*' :: r'') :
    Lex.scanSlash ('/' :: '*' :: '*' :: r') = Lex.docBlock false ('*' :: r') := by
  simp only [Lex.scanSlash]

theorem scanSlash_line (t rest : List Char) (h1 : '\n' ∉ t)
    (h2 : ∀ c t', t = c :: t' → c ≠ '/' ∧ c ≠ '!') :
    Lex.scanSlash ('/' :: '/' :: (t ++ '\n' :: rest)) = .skip ('\n' :: rest) := by
  have hu := untilNl_line t h1 rest
  rw [scanSlash_ll_plain _ ?_ ?_, hu]
  · intro r' e
    cases t with
    | nil => simp at e
    | cons c t' =>
      simp only [List.cons_append, List.cons.injEq] at e
      exact (h2 c t' rfl).2 e.1
  · intro r' e
    cases t with
    | nil => simp at e
    | cons c t' =>
      simp only [List.cons_append, List.cons.injEq] at e
      exact (h2 c t' rfl).1 e.1

theorem scanSlash_block (b rest : List Char) (h1 : Lex.blockEnd 0 (b ++ ['*', '/']) = some [])
    (h2 : ∀ c b', b = c :: b' → c ≠ '*' ∧ c ≠ '!') :
    Lex.scanSlash ('/' :: '*' :: (b ++ '*' :: '/' :: rest)) = .skip rest := by
  have hb := blockEnd_append (b ++ ['*', '/']) 0 [] rest h1
  simp only [List.append_assoc, List.cons_append, List.nil_append] at hb
  cases b with
  | nil => rfl
  | cons c b' =>
    obtain ⟨ha, hc⟩ := h2 c b' rfl
    simp only [List.cons_append] at hb ⊢
    rw [scanSlash_bl_plain _ (fun r' e => by simp only [List.cons.injEq] at e; exact hc e.1)
      (fun r' e => by simp only [List.cons.injEq] at e; exact ha e.1)]
    simp [Lex.plainBlock, hb]

theorem lexCore_piece (p : Piece) (f : Nat) (rest : List Char) (st : List (Delim × Lex.Mark)) :
    Lex.lexCore (pieceSteps p + f) (p.text ++ rest) st = Lex.lexCore f rest st := by
  by_cases hv : p.valid = true
  · cases p with
    | ws c =>
      simp only [Piece.valid, Bool.and_eq_true, decide_eq_true_eq] at hv
      have : pieceSteps (.ws c) + f = f + 1 := by simp [pieceSteps, Piece.valid, hv]; omega
      rw [this]
      simp only [Piece.text, Piece.valid, hv, Bool.and_self, decide_true, if_true, List.cons_append,
        List.nil_append]
      exact lexCore_ws c hv.1 f rest st
    | line t =>
      have hv' := hv
      simp only [Piece.valid, Bool.and_eq_true, Bool.not_eq_true', List.contains_eq_mem,
        decide_eq_false_iff_not] at hv'
      have h1 : '\n' ∉ t := hv'.1
      have h2 : ∀ c t', t = c :: t' → c ≠ '/' ∧ c ≠ '!' := by
        intro c t' e; subst e; simpa using hv'.2
      have : pieceSteps (.line t) + f = (f + 1) + 1 := by simp [pieceSteps, hv]; omega
      rw [this]
      simp only [Piece.text, hv, if_true, List.cons_append, List.append_assoc, List.nil_append]
      rw [lexCore_skip '/' _ _ (by decide) (scanSlash_line t rest h1 h2)]
      exact lexCore_ws '\n' (by decide) f rest st
    | block b =>
      have hv' := hv
      simp only [Piece.valid, Bool.and_eq_true, beq_iff_eq] at hv'
      have h2 : ∀ c b', b = c :: b' → c ≠ '*' ∧ c ≠ '!' := by
        intro c b' e; subst e; simpa using hv'.1
      have : pieceSteps (.block b) + f = f + 1 := by simp [pieceSteps, hv]; omega
      rw [this]
      simp only [Piece.text, hv, if_true, List.cons_append, List.append_assoc, List.nil_append]
      exact lexCore_skip '/' _ _ (by decide) (scanSlash_block b rest hv'.2 h2) f st
  · have : pieceSteps p + f = f + 1 := by simp [pieceSteps, hv]; omega
    rw [this]
    simp only [Piece.text, hv, Bool.false_eq_true, if_false, List.cons_append, List.nil_append]
    exact lexCore_ws ' ' (by decide) f rest st

theorem lexCore_pieces (ps : List Piece) (f : Nat) (rest : List Char) (st : List (Delim × Lex.Mark)) :
    Lex.lexCore (piecesSteps ps + f) (Print.piecesText ps ++ rest) st = Lex.lexCore f rest st := by
  induction ps with
  | nil => simp [piecesSteps, Print.piecesText]
  | cons p ps ih =>
    have : piecesSteps (p :: ps) + f = pieceSteps p + (piecesSteps ps + f) := by
      simp [piecesSteps]; omega
    rw [this]
    simp only [Print.piecesText, List.flatMap_cons, List.append_assoc] at ih ⊢
    rw [lexCore_piece, ih]

theorem pieceSteps_le (p : Piece) : pieceSteps p ≤ p.text.length := by
  simp only [pieceSteps, Piece.text]
  split
  · cases p <;> simp
  · simp

theorem piecesSteps_le (ps : List Piece) : piecesSteps ps ≤ (Print.piecesText ps).length := by
  induction ps with
  | nil => simp [piecesSteps]
  | cons p ps ih =>
    have := pieceSteps_le p
    simp only [piecesSteps, List.map_cons, List.sum_cons, Print.piecesText, List.flatMap_cons,
      List.length_append] at ih ⊢
    omega

/-- the text of a piece list is empty or starts with a white-space character or a comment -/
def TriviaHead : List Char → Prop
  | [] => True
  | c :: r => (Lex.isWs c = true ∧ c.toNat < 128) ∨ (c = '/' ∧ ∃ d r', r = d :: r' ∧ (d = '/' ∨ d = '*'))

theorem piece_text_head (p : Piece) : ∃ c r, p.text = c :: r ∧ ∀ rest, TriviaHead (c :: (r ++ rest)) := by
  by_cases hv : p.valid = true
  · cases p with
    | ws c =>
      have hv' := hv
      simp only [Piece.valid, Bool.and_eq_true, decide_eq_true_eq] at hv'
      exact ⟨c, [], by simp [Piece.text, hv], fun _ => Or.inl hv'⟩
    | line t =>
      exact ⟨'/', '/' :: t ++ ['\n'], by simp [Piece.text, hv],
        fun _ => Or.inr ⟨rfl, '/', _, rfl, Or.inl rfl⟩⟩
    | block b =>
      exact ⟨'/', '*' :: b ++ ['*', '/'], by simp [Piece.text, hv],
        fun _ => Or.inr ⟨rfl, '*', _, rfl, Or.inr rfl⟩⟩
  · exact ⟨' ', [], by simp [Piece.text, hv], fun _ => Or.inl ⟨by decide, by decide⟩⟩

theorem triviaHead_pieces (ps : List Piece) (rest : List Char) (h : Print.piecesText ps ≠ []) :
    ∃ c r, Print.piecesText ps ++ rest = c :: r ∧ TriviaHead (c :: r) := by
  cases ps with
  | nil => simp [Print.piecesText] at h
  | cons p ps =>
    obtain ⟨c, r, hcr, hh⟩ := piece_text_head p
    refine ⟨c, r ++ (Print.piecesText ps ++ rest), ?_, hh _⟩
    simp [Print.piecesText, hcr]

open Print (digitsLE digitChar Base Piece Trivia)

/-! ## tokens followed by arbitrary admissible text -/

/-- the text after an identifier: nothing, or a character that neither continues the
    identifier nor turns a leading `r`/`b`/`c` into a literal prefix -/
def FollowId : List Char → Prop
  | [] => True
  | c :: _ => Lex.isIdCont c = false ∧ Safe c

theorem takeWhile_stop' {p : Char → Bool} (w T : List Char) (hw : ∀ x ∈ w, p x = true)
    (hT : ∀ c r, T = c :: r → p c = false) :
    (w ++ T).takeWhile p = w ∧ (w ++ T).dropWhile p = T := by
  induction w with
  | nil =>
    cases T with
    | nil => simp
    | cons c r => simp [hT c r rfl]
  | cons x xs ih =>
    have hx := hw x (by simp)
    have := ih (fun y hy => hw y (by simp [hy]))
    simp [hx, this]

theorem lexIdent_plain' (c : Char) (w T : List Char) (hc : Lex.isIdStart c = true)
    (hw : ∀ x ∈ w, Lex.isIdCont x = true) (hT : FollowId T) :
    Lex.lexIdent (c :: w ++ T) = some (.ident (String.ofList (c :: w)), T) := by
  have tk := takeWhile_stop' (p := Lex.isIdCont) (c :: w) T
    (fun x hx => by
      rcases List.mem_cons.mp hx with e | e
      · subst e; exact idStart_cont hc
      · exact hw x e)
    (fun d r e => by subst e; exact hT.1)
  have h2 : ∀ r', w ++ T ≠ '#' :: r' := by
    intro r' e
    cases w with
    | nil =>
      simp only [List.nil_append] at e
      subst e
      exact hT.2.2.1 rfl
    | cons x xs =>
      simp only [List.cons_append, List.cons.injEq] at e
      have := safe_idCont (hw x (by simp))
      exact this.2.1 e.1
  unfold Lex.lexIdent
  split
  · rename_i r heq
    simp only [List.cons_append, List.cons.injEq] at heq
    exact absurd heq.2 (h2 _)
  · simp only [tk.1, tk.2]

theorem safe_of_followId {c : Char} {r : List Char} (h : FollowId (c :: r)) : Safe c := h.2

theorem lexLeaf_ident' (c : Char) (w T : List Char) (hc : Lex.isIdStart c = true)
    (hw : ∀ x ∈ w, Lex.isIdCont x = true) (hT : FollowId T) :
    Lex.lexLeaf (c :: w ++ T) = some (.ident (String.ofList (c :: w)), T) := by
  have hn := (isIdStart_iff c).1 hc
  have h1 : c ≠ '"' := by intro e; subst e; simp at hn
  have h2 : c ≠ '\'' := by intro e; subst e; simp at hn
  have h3 : c.isDigit = false := by
    cases h : c.isDigit with
    | false => rfl
    | true => have := (isDigit_iff c).1 h; omega
  have h4 : Lex.isPunctCh c = false := by
    cases h : Lex.isPunctCh c with
    | false => rfl
    | true =>
      simp only [Lex.isPunctCh, Bool.or_eq_true, beq_iff_eq] at h
      rcases h with (((((((((((((((((((((h | h) | h) | h) | h) | h) | h) | h) | h) | h) | h) | h) | h) | h) | h) | h) | h) | h) | h) | h) | h) | h) <;>
        (subst h; simp at hn)
  have hp : Lex.litPrefix (c :: w ++ T) = none := by
    cases w with
    | nil =>
      cases T with
      | nil => simp [Lex.litPrefix]
      | cons d r =>
        exact litPrefix_none c d r hT.2 (fun e => by
          subst e; exact absurd hT.1 (by decide))
    | cons x xs =>
      exact litPrefix_none c x _ (safe_idCont (hw x (by simp))) (fun _ y r' e => by
        cases xs with
        | nil =>
          have e' : T = y :: r' := e
          subst e'; exact hT.2
        | cons z zs =>
          have e' : z = y := by injection e
          rw [← e']; exact safe_idCont (hw z (by simp)))
  have hl := lexIdent_plain' c w T hc hw hT
  simp only [List.cons_append] at hl hp ⊢
  simp only [Lex.lexLeaf, h1, h2, h3, h4, hc, if_false, if_true, Bool.false_eq_true, hp, hl]

/-- the text after a string literal: not the start of a suffix -/
def FollowStr : List Char → Prop
  | [] => True
  | c :: _ => Lex.isIdStart c = false

theorem dropSuffix_follow {T : List Char} (h : FollowStr T) : Lex.dropSuffix T = T := by
  cases T with
  | nil => rfl
  | cons c r => simp only [FollowStr] at h; simp [Lex.dropSuffix, h]

theorem lexLeaf_str' (s : List Char) (T : List Char) (hT : FollowStr T) :
    Lex.lexLeaf (Print.spellStr s ++ T) = some (.str (String.ofList s), T) := by
  have hc := cooked_esc s T []
    ((s.flatMap Print.escChar ++ '"' :: T).length + 1)
    (by have := length_esc_ge s; simp only [List.length_append, List.length_cons]; omega)
  simp only [Print.spellStr, List.cons_append, List.append_assoc, List.nil_append]
  rw [Lex.lexLeaf]
  simp only [if_true, Lex.cookedAll]
  rw [hc]
  simp [Lex.strTok, dropSuffix_follow hT]

open Print (digitsLE digitChar Base Piece Trivia)

/-! ## integer spellings -/

theorem digitsVal_mapg (g : Nat → Char) (hg : ∀ d : Fin 16, Lex.hexVal (g d.val) = some d.val ∧ g d.val ≠ '_')
    (b : Nat) (ds : List Nat) (h : ∀ d ∈ ds, d < 16) (v : Nat) :
    digitsVal b v (ds.map g) = ds.foldl (fun acc d => acc * b + d) v := by
  induction ds generalizing v with
  | nil => rfl
  | cons d ds ih =>
    have hd : d < 16 := h d (by simp)
    obtain ⟨h1, h2⟩ := hg ⟨d, hd⟩
    simp only at h1 h2
    simp only [List.map_cons, digitsVal, h2, if_false, h1, Option.getD_some, List.foldl_cons]
    exact ih (fun x hx => h x (by simp [hx])) _

def lowDigit (d : Nat) : Char := Print.lowerCh (digitChar d)

theorem lowDigit_ok : ∀ d : Fin 16, Lex.hexVal (lowDigit d.val) = some d.val ∧ lowDigit d.val ≠ '_' := by
  decide

theorem upDigit_ok : ∀ d : Fin 16, Lex.hexVal (digitChar d.val) = some d.val ∧ digitChar d.val ≠ '_' := by
  decide

theorem filter_weave (ds : List Char) (hds : ∀ c ∈ ds, c ≠ '_') (ns : List Nat) :
    (Print.weave ds ns).filter (fun c => !decide (c = '_')) = ds := by
  induction ds generalizing ns with
  | nil => cases ns <;> simp [Print.weave]
  | cons d ds ih =>
    have hd := hds d (by simp)
    have ih' := ih (fun c hc => hds c (by simp [hc]))
    cases ns with
    | nil => simp [Print.weave, hd, ih']
    | cons n ns =>
      simp only [Print.weave, List.filter_cons, hd, decide_false, Bool.not_false, if_true,
        List.filter_append, ih']
      have : (List.replicate n '_').filter (fun c => !decide (c = '_')) = [] := by
        simp
      rw [this]; rfl

theorem mem_weave (ds : List Char) (ns : List Nat) (c : Char) (h : c ∈ Print.weave ds ns) :
    c ∈ ds ∨ c = '_' := by
  induction ds generalizing ns with
  | nil =>
    rw [show Print.weave [] ns = [] by cases ns <;> rfl] at h
    cases h
  | cons d ds ih =>
    cases ns with
    | nil =>
      simp only [Print.weave, List.mem_cons] at h
      rcases h with h | h
      · left; simp [h]
      · rcases ih [] h with h | h
        · left; simp [h]
        · right; exact h
    | cons n ns =>
      simp only [Print.weave, List.mem_cons, List.mem_append, List.mem_replicate] at h
      rcases h with (h | ⟨_, h⟩) | h
      · left; simp [h]
      · right; exact h
      · rcases ih ns h with h | h
        · left; simp [h]
        · right; exact h

theorem weave_cons_head (d : Char) (ds : List Char) (ns : List Nat) :
    ∃ r, Print.weave (d :: ds) ns = d :: r := by
  cases ns with
  | nil => exact ⟨_, rfl⟩
  | cons n ns => exact ⟨_, rfl⟩

/-- every spelling `render` may choose for an integer is a `Spelling` of that integer -/
theorem spellInt_spelling (sp : Print.IntSpell) (v : Nat) :
    ∃ cs, Print.spellInt sp v = sp.base.pre ++ cs ∧ Spelling sp.base cs ∧
      digitsVal sp.base.radix 0 cs = v := by
  have hb : 2 ≤ sp.base.radix ∧ sp.base.radix ≤ 16 := by cases sp.base <;> simp [Base.radix]
  -- the digit characters
  let g : Nat → Char := if sp.lower then lowDigit else digitChar
  have hg : ∀ d : Fin 16, Lex.hexVal (g d.val) = some d.val ∧ g d.val ≠ '_' := by
    intro d; simp only [g]; split
    · exact lowDigit_ok d
    · exact upDigit_ok d
  let dl := (digitsLE sp.base.radix v).reverse
  have hdl : ∀ d ∈ dl, d < sp.base.radix := fun d hd =>
    digitsLE_lt _ _ hb.1 d (by simpa [dl] using hd)
  have hdl16 : ∀ d ∈ dl, d < 16 := fun d hd => by have := hdl d hd; omega
  have hne : dl ≠ [] := by simp [dl, digitsLE_ne_nil]
  let ds := dl.map g
  have hds_eq : (if sp.lower then (dl.map digitChar).map Print.lowerCh else dl.map digitChar) = ds := by
    simp only [ds, g]
    split
    · simp [List.map_map, lowDigit, Function.comp_def]
    · rfl
  have hds : ∀ c ∈ ds, ∃ d, Lex.hexVal c = some d ∧ d < sp.base.radix ∧ c ≠ '_' := by
    intro c hc
    simp only [ds, List.mem_map] at hc
    obtain ⟨d, hd, rfl⟩ := hc
    exact ⟨d, (hg ⟨d, hdl16 d hd⟩).1, hdl d hd, (hg ⟨d, hdl16 d hd⟩).2⟩
  have hval : digitsVal sp.base.radix 0 ds = v := by
    rw [digitsVal_mapg g hg _ dl hdl16 0]
    exact read_print _ _ hb.1
  obtain ⟨d0, dr, hd0⟩ : ∃ d0 dr, ds = d0 :: dr := by
    cases h : ds with
    | nil => simp [ds] at h; exact absurd h hne
    | cons a b => exact ⟨a, b, rfl⟩
  let us := if sp.base = .dec then [] else List.replicate sp.lead '_'
  refine ⟨us ++ Print.weave ds sp.after, ?_, ⟨?_, ?_, ?_⟩, ?_⟩
  · simp only [Print.spellInt, us, List.append_assoc]
    rw [hds_eq]
  · intro c hc
    simp only [List.mem_append] at hc
    rcases hc with hc | hc
    · left
      simp only [us] at hc
      split at hc
      · simp at hc
      · exact (List.mem_replicate.mp hc).2
    · rcases mem_weave ds sp.after c hc with h | h
      · obtain ⟨d, h1, h2, _⟩ := hds c h
        exact Or.inr ⟨d, h1, h2⟩
      · exact Or.inl h
  · refine ⟨d0, ?_, (hds d0 (by simp [hd0])).choose_spec.2.2⟩
    simp only [List.mem_append]
    right
    rw [hd0]
    obtain ⟨r, hr⟩ := weave_cons_head d0 dr sp.after
    simp [hr]
  · intro e
    have hus : us = [] := by simp [us, e]
    rw [hus, hd0]
    obtain ⟨r, hr⟩ := weave_cons_head d0 dr sp.after
    exact ⟨d0, r, by simp [hr], (hds d0 (by simp [hd0])).choose_spec.2.2⟩
  · have hf : (us ++ Print.weave ds sp.after).filter (fun c => !decide (c = '_')) = ds := by
      rw [List.filter_append, filter_weave ds (fun c hc => (hds c hc).choose_spec.2.2)]
      have : us.filter (fun c => !decide (c = '_')) = [] := by
        simp only [us]; split
        · rfl
        · simp
      rw [this]; rfl
    rw [← digitsVal_filter, hf, hval]

open Print (digitsLE digitChar Base Piece Trivia)

/-! ## doc comments -/

theorem untilNl_full (t : List Char) (h1 : '\n' ∉ t) (h2 : '\r' ∉ t) (rest : List Char) :
    Lex.untilNl (t ++ '\n' :: rest) = (t, '\n' :: rest) := by
  induction t with
  | nil => simp [Lex.untilNl]
  | cons c t ih =>
    have hc1 : c ≠ '\n' := by intro e; subst e; simp at h1
    have hc2 : c ≠ '\r' := by intro e; subst e; simp at h2
    have ih' := ih (fun e => h1 (by simp [e])) (fun e => h2 (by simp [e]))
    simp only [List.cons_append]
    unfold Lex.untilNl
    split
    · rename_i heq; cases heq
    · rename_i r heq; simp only [List.cons.injEq] at heq; exact absurd heq.1 hc1
    · rename_i r heq; simp only [List.cons.injEq] at heq; exact absurd heq.1 hc2
    · rename_i c' r' _ _ heq
      simp only [List.cons.injEq] at heq
      rw [← heq.1, ← heq.2, ih']

theorem hasBareCR_none (t : List Char) (h : '\r' ∉ t) : Lex.hasBareCR t = false := by
  induction t with
  | nil => rfl
  | cons c t ih =>
    have hc : c ≠ '\r' := by intro e; subst e; simp at h
    have ih' := ih (fun e => h (by simp [e]))
    unfold Lex.hasBareCR
    split
    · rename_i heq; cases heq
    · rename_i heq; simp only [List.cons.injEq] at heq; exact absurd heq.1 hc
    · rename_i heq; simp only [List.cons.injEq] at heq; exact absurd heq.1 hc
    · rename_i heq; simp only [List.cons.injEq] at heq; rw [← heq.2]; exact ih'

theorem lineDocOk_iff (inner : Bool) (t : List Char) (h : Print.lineDocOk inner t = true) :
    '\n' ∉ t ∧ '\r' ∉ t ∧ (inner = false → ∀ c t', t = c :: t' → c ≠ '/') := by
  simp only [Print.lineDocOk, Bool.and_eq_true, Bool.not_eq_true', List.contains_eq_mem,
    decide_eq_false_iff_not, Bool.or_eq_true] at h
  refine ⟨h.1.1, h.1.2, fun hi c t' e => ?_⟩
  subst e hi
  simpa using h.2

theorem scanSlash_lineDoc (inner : Bool) (t rest : List Char) (h : Print.lineDocOk inner t = true) :
    Lex.scanSlash (Print.docText inner t false ++ rest) = .doc inner t ('\n' :: rest) := by
  obtain ⟨h1, h2, h3⟩ := lineDocOk_iff inner t h
  have hu := untilNl_full t h1 h2 rest
  have hb := hasBareCR_none t h2
  cases inner with
  | true =>
    simp only [Print.docText, Bool.false_eq_true, if_false, if_true, List.cons_append,
      List.append_assoc, List.nil_append]
    simp [Lex.scanSlash, Lex.docLine, hu, hb]
  | false =>
    simp only [Print.docText, Bool.false_eq_true, if_false, List.cons_append,
      List.append_assoc, List.nil_append]
    have h4 : ∀ r', t ++ '\n' :: rest ≠ '/' :: r' := by
      intro r' e
      cases t with
      | nil => simp at e
      | cons c t' =>
        simp only [List.cons_append, List.cons.injEq] at e
        exact h3 rfl c t' rfl e.1
    rw [scanSlash_ll_outer _ h4]
    simp [Lex.docLine, hu, hb]

theorem blockDocOk_iff (inner : Bool) (t : List Char) (h : Print.blockDocOk inner t = true) :
    Lex.hasBareCR t = false ∧
    (inner = false → ∃ c t', t = c :: t' ∧ c ≠ '*' ∧ c ≠ '/') ∧
    Lex.blockEnd 0 ((if inner then '!' else '*') :: t ++ ['*', '/']) = some [] := by
  simp only [Print.blockDocOk, Bool.and_eq_true, Bool.not_eq_true', Bool.or_eq_true,
    beq_iff_eq] at h
  refine ⟨h.1.1, fun hi => ?_, h.2⟩
  subst hi
  have := h.1.2
  cases t with
  | nil => simp at this
  | cons c t' => exact ⟨c, t', rfl, by simpa using this⟩

theorem docBlock_spec (inner : Bool) (x : Char) (t rest : List Char)
    (hb : Lex.blockEnd 0 (x :: t ++ '*' :: '/' :: rest) = some rest)
    (hcr : Lex.hasBareCR t = false) :
    Lex.docBlock inner (x :: t ++ '*' :: '/' :: rest) = .doc inner t rest := by
  have hbody : (x :: t ++ '*' :: '/' :: rest).take ((x :: t ++ '*' :: '/' :: rest).length - rest.length)
      = x :: t ++ ['*', '/'] := by
    have : (x :: t ++ '*' :: '/' :: rest).length - rest.length = (x :: t ++ ['*', '/']).length := by
      simp only [List.length_cons, List.length_append, List.length_nil]; omega
    rw [this]
    have e : x :: t ++ '*' :: '/' :: rest = (x :: t ++ ['*', '/']) ++ rest := by simp
    rw [e, List.take_left']
    rfl
  unfold Lex.docBlock
  rw [hb]
  simp only [hbody]
  have : ((x :: t ++ ['*', '/']).drop 1).take ((x :: t ++ ['*', '/']).length - 3) = t := by simp
  rw [this, hcr]
  rfl

theorem scanSlash_blockDoc (inner : Bool) (t rest : List Char) (h : Print.blockDocOk inner t = true) :
    Lex.scanSlash (Print.docText inner t true ++ rest) = .doc inner t rest := by
  obtain ⟨h1, h2, h3⟩ := blockDocOk_iff inner t h
  cases inner with
  | true =>
    have hb := blockEnd_append _ 0 [] rest h3
    simp only [if_true, List.cons_append, List.append_assoc, List.nil_append] at hb
    simp only [Print.docText, if_true, List.cons_append, List.append_assoc, List.nil_append]
    have := docBlock_spec true '!' t rest (by simpa using hb) h1
    simp only [List.cons_append] at this
    simp only [Lex.scanSlash, this]
  | false =>
    obtain ⟨c, t', rfl, hc1, hc2⟩ := h2 rfl
    have hb := blockEnd_append _ 0 [] rest h3
    simp only [Bool.false_eq_true, if_false, List.cons_append, List.append_assoc,
      List.nil_append] at hb
    simp only [Print.docText, Bool.false_eq_true, if_false, if_true, List.cons_append,
      List.append_assoc, List.nil_append]
    rw [scanSlash_bl_outer _ (fun r'' e => by simp only [List.cons.injEq] at e; exact hc2 e.1)
      (fun r'' e => by simp only [List.cons.injEq] at e; exact hc1 e.1)]
    have := docBlock_spec false '*' (c :: t') rest (by simpa using hb) h1
    simpa using this

/-- `token_stream` on a doc comment -/
theorem lexCore_doc (inner : Bool) (t : List Char) (block : Bool) (rest : List Char)
    (h : if block then Print.blockDocOk inner t = true else Print.lineDocOk inner t = true) :
    ∃ n m, ∀ (f : Nat) (st : List (Delim × Lex.Mark)),
      Lex.lexCore ((if block then 1 else 2) + f) (Print.docText inner t block ++ rest) st
        = (Lex.lexCore f rest st).map (Lex.docToks inner t n m ++ ·) := by
  have hhead : ∃ r, Print.docText inner t block ++ rest = '/' :: r := by
    cases block <;> exact ⟨_, rfl⟩
  obtain ⟨r, hr⟩ := hhead
  cases block with
  | true =>
    simp only [if_true] at h ⊢
    have hs := scanSlash_blockDoc inner t rest h
    rw [hr] at hs
    refine ⟨Lex.here ('/' :: r), Lex.here rest, fun f st => ?_⟩
    rw [hr, show 1 + f = f + 1 by omega, Lex.lexCore]
    simp only [show Lex.isWs '/' = false from by decide, Bool.false_eq_true, if_false, hs]
  | false =>
    simp only [Bool.false_eq_true, if_false] at h ⊢
    have hs := scanSlash_lineDoc inner t rest h
    rw [hr] at hs
    refine ⟨Lex.here ('/' :: r), Lex.here ('\n' :: rest), fun f st => ?_⟩
    rw [hr, show 2 + f = (f + 1) + 1 by omega, Lex.lexCore]
    simp only [show Lex.isWs '/' = false from by decide, Bool.false_eq_true, if_false, hs]
    rw [lexCore_ws '\n' (by decide)]

/-! ## the first character of a rendered token -/

/-- the class of the first character of a token's spelling -/
inductive Head : K → Char → Prop where
  | ident (s : String) (c : Char) : Lex.isIdStart c = true → Head (.ident s) c
  | int (v : Nat) (c : Char) : c.isDigit = true → Head (.int v) c
  | str (s : String) : Head (.str s) '"'
  | punct (c : Char) (j : Bool) : okPunct c = true → Head (.punct c j) c
  | op (d : Delim) : Head (.op d) (Print.openCh d)
  | cl (d : Delim) : Head (.cl d) (Print.closeCh d)

/-- a single token that `chk` accepts (as far as its spelling is concerned) -/
def tokOk : K → Bool
  | .ident s => plainId s
  | .punct c _ => okPunct c
  | .lit => false
  | _ => true

theorem tokOk_of_chk (st : List Delim) (k : K) (ks : List K) (st' : List Delim)
    (h : chk st (k :: ks) = some st') : tokOk k = true := by
  cases k with
  | lit => simp [chk] at h
  | ident s => simp only [chk] at h; split at h; assumption; cases h
  | punct c j =>
    simp only [chk] at h; split at h
    · rename_i hp; simp only [Bool.and_eq_true] at hp; exact hp.1
    · cases h
  | int _ => rfl
  | str _ => rfl
  | op _ => rfl
  | cl _ => rfl

theorem spellWith_head (τ : Trivia) (i : Nat) (k : K) (h : tokOk k = true) :
    ∃ c r, Print.spellWith τ i k = c :: r ∧ Head k c := by
  cases k with
  | lit => simp [tokOk] at h
  | ident s =>
    simp only [tokOk, plainId] at h
    cases hh : s.toList with
    | nil => rw [hh] at h; simp at h
    | cons c w =>
      rw [hh] at h
      simp only [Bool.and_eq_true] at h
      exact ⟨c, w, by simp [Print.spellWith, Print.spell, hh], .ident s c h.1⟩
  | int v =>
    obtain ⟨cs, h1, h2, _⟩ := spellInt_spelling (τ.int i) v
    obtain ⟨c, r, hcr, hd⟩ := spelling_head_digit _ cs h2 []
    simp only [List.append_nil] at hcr
    exact ⟨c, r, by simp [Print.spellWith, h1, hcr], .int v c hd⟩
  | str s => exact ⟨'"', _, rfl, .str s⟩
  | punct c j => exact ⟨c, [], rfl, .punct c j h⟩
  | op d => exact ⟨_, [], rfl, .op d⟩
  | cl d => exact ⟨_, [], rfl, .cl d⟩

/-- a doc comment starts with `//` or `/*` -/
theorem docText_head (inner : Bool) (t : List Char) (block : Bool) :
    ∃ d r, Print.docText inner t block = '/' :: d :: r ∧ (d = '/' ∨ d = '*') := by
  cases block
  · exact ⟨'/', _, rfl, Or.inl rfl⟩
  · exact ⟨'*', _, rfl, Or.inr rfl⟩

/-- the head of the rendering of a non-empty token list: a comment start (doc comment) or
    the first character of the first token -/
theorem renderK_head (τ : Trivia) (f i : Nat) (k : K) (ks : List K) (h : tokOk k = true) :
    ∃ c r, Print.renderK τ (f + 1) i (k :: ks) = c :: r ∧
      ((c = '/' ∧ ∃ d r', r = d :: r' ∧ (d = '/' ∨ d = '*')) ∨ Head k c) := by
  simp only [Print.renderK]
  cases hd : Print.docChoice τ i (k :: ks) with
  | some p =>
    obtain ⟨inner, t, block, n, rest⟩ := p
    obtain ⟨d, r, hdr, hdd⟩ := docText_head inner t block
    refine ⟨'/', d :: (r ++ (Print.gapText (K.cl Delim.bracket) rest.head? (τ.gap (i + n - 1)) ++
      Print.renderK τ f (i + n) rest)), ?_, Or.inl ⟨rfl, d, _, rfl, hdd⟩⟩
    simp only [hdr, List.cons_append, List.append_assoc]
  | none =>
    obtain ⟨c, r, hcr, hh⟩ := spellWith_head τ i k h
    exact ⟨c, r ++ (Print.gapText k ks.head? (τ.gap i) ++ Print.renderK τ f (i + 1) ks),
      by simp only [hcr, List.cons_append, List.append_assoc], Or.inr hh⟩

open Print (digitsLE digitChar Base Piece Trivia)

/-! ## what follows a token in the rendered text -/

/-- the text after token `k` and its gap: nothing, trivia (white space, a comment – also a doc
    comment), or directly the first character of a token `b` that does not glue to `k` -/
inductive After (k : K) : List Char → Prop where
  | nil : After k []
  | trivia (c : Char) (r : List Char) : TriviaHead (c :: r) → After k (c :: r)
  | tok (b : K) (c : Char) (r : List Char) : Print.glues k b = false → Head b c → After k (c :: r)

theorem renderK_nil (τ : Trivia) (f i : Nat) : Print.renderK τ f i [] = [] := by
  cases f <;> rfl

theorem after_gap (τ : Trivia) (f i : Nat) (k : K) (ks : List K)
    (hk : ∀ c, k ≠ .punct c true) (hks : ∀ b ∈ ks.head?, tokOk b = true) (hf : ks.length ≤ f) :
    After k (Print.gapText k ks.head? (τ.gap i) ++ Print.renderK τ f (i + 1) ks) := by
  have hg : ∀ b? ps, Print.gapText k b? ps =
      (let t := Print.piecesText ps
       match b? with
       | none => t
       | some b =>
         if t.isEmpty && Print.glues k b then [' ']
         else if k == .op .paren && b == .cl .paren && t == "/*ERROR*/".toList then ' ' :: t
         else t) := by
    intro b? ps
    cases k with
    | punct c j =>
      cases j with
      | true => exact absurd rfl (hk c)
      | false => rfl
    | _ => rfl
  rw [hg]
  have htriv : ∀ (t : List Char) (R : List Char), t ≠ [] → (∃ ps, t = Print.piecesText ps) →
      After k (t ++ R) := by
    intro t R hne ⟨ps, hps⟩
    subst hps
    obtain ⟨c, r, h1, h2⟩ := triviaHead_pieces ps R hne
    rw [h1]; exact .trivia c r h2
  have hsp : ∀ R : List Char, After k (' ' :: R) :=
    fun R => .trivia ' ' R (Or.inl ⟨by decide, by decide⟩)
  cases ks with
  | nil =>
    simp only [List.head?_nil, renderK_nil, List.append_nil]
    by_cases ht : Print.piecesText (τ.gap i) = []
    · rw [ht]; exact .nil
    · have := htriv _ [] ht ⟨_, rfl⟩
      simpa using this
  | cons b ks' =>
    obtain ⟨f, rfl⟩ : ∃ g, f = g + 1 := ⟨f - 1, by simp at hf; omega⟩
    simp only [List.head?_cons]
    split
    · exact hsp _
    · split
      · exact hsp _
      · rename_i h1 h2
        by_cases ht : Print.piecesText (τ.gap i) = []
        · rw [ht] at h1 ⊢
          simp only [List.isEmpty_nil, Bool.true_and, Bool.not_eq_true] at h1
          simp only [List.nil_append]
          obtain ⟨c, r, hcr, hh⟩ := renderK_head τ f (i + 1) b ks' (hks b (by simp))
          rw [hcr]
          rcases hh with ⟨rfl, d, r', rfl, hd⟩ | hh
          · exact .trivia '/' _ (Or.inr ⟨rfl, d, r', rfl, hd⟩)
          · exact .tok b c r h1 hh
        · exact htriv _ _ ht ⟨_, rfl⟩

/-- an ASCII white-space character -/
theorem ws_ascii {c : Char} (h : Lex.isWs c = true) (h' : c.toNat < 128) :
    (9 ≤ c.toNat ∧ c.toNat ≤ 13) ∨ c.toNat = 32 := by
  simp only [Lex.isWs, Lex.isRustWs, Bool.or_eq_true, Bool.and_eq_true, decide_eq_true_eq,
    beq_iff_eq] at h
  omega

open Print (digitsLE digitChar Base Piece Trivia)


/-- facts about the first character of trivia -/
theorem triviaHead_facts {c : Char} {r : List Char} (h : TriviaHead (c :: r)) :
    Lex.isIdCont c = false ∧ Safe c ∧ c ≠ '.' ∧ Lex.isIdStart c = false ∧
      Lex.punctNext (c :: r) = false := by
  rcases h with ⟨h1, h2⟩ | ⟨rfl, d, r', rfl, hd⟩
  · have hn := ws_ascii h1 h2
    have a1 : Lex.isIdCont c = false := by
      cases hh : Lex.isIdCont c with
      | false => rfl
      | true => have := (isIdCont_iff c).1 hh; omega
    have a4 : Lex.isIdStart c = false := by
      cases hh : Lex.isIdStart c with
      | false => rfl
      | true => have := (isIdStart_iff c).1 hh; omega
    have ne : ∀ k : Char, (¬ ((9 ≤ k.toNat ∧ k.toNat ≤ 13) ∨ k.toNat = 32)) → c ≠ k := by
      intro k hk e; subst e; exact hk hn
    have a5 : Lex.isPunctCh c = false := by
      cases hh : Lex.isPunctCh c with
      | false => rfl
      | true =>
        simp only [Lex.isPunctCh, Bool.or_eq_true, beq_iff_eq] at hh
        rcases hh with (((((((((((((((((((((h | h) | h) | h) | h) | h) | h) | h) | h) | h) | h) | h) | h) | h) | h) | h) | h) | h) | h) | h) | h) | h) <;>
          (subst h; simp at hn)
    refine ⟨a1, ⟨ne _ (by decide), ne _ (by decide), ne _ (by decide)⟩, ne _ (by decide), a4, ?_⟩
    have hs : c ≠ '/' := ne _ (by decide)
    unfold Lex.punctNext
    split
    · rename_i heq; simp only [List.cons.injEq] at heq; exact absurd heq.1 hs
    · rename_i heq; simp only [List.cons.injEq] at heq; exact absurd heq.1 hs
    · rename_i heq; simp only [List.cons.injEq] at heq; rw [← heq.1]; exact a5
    · rfl
  · refine ⟨by decide, ⟨by decide, by decide, by decide⟩, by decide, by decide, ?_⟩
    rcases hd with rfl | rfl <;> rfl

/-- facts about the first character of a delimiter -/
theorem delim_facts (c : Char) (h : (∃ d, c = Print.openCh d) ∨ (∃ d, c = Print.closeCh d)) :
    Lex.isIdCont c = false ∧ Safe c ∧ c ≠ '.' ∧ Lex.isIdStart c = false ∧ Lex.isPunctCh c = false ∧
      c ≠ '/' := by
  rcases h with ⟨d, rfl⟩ | ⟨d, rfl⟩ <;> cases d <;>
    exact ⟨by decide, ⟨by decide, by decide, by decide⟩, by decide, by decide, by decide, by decide⟩

theorem followId_after {s : String} {T : List Char} (h : After (.ident s) T) : FollowId T := by
  cases h with
  | nil => trivial
  | trivia c r ht => have := triviaHead_facts ht; exact ⟨this.1, this.2.1⟩
  | tok b c r hg hh =>
    cases hh with
    | ident _ _ _ => simp [Print.glues, Print.isWordy] at hg
    | int _ _ _ => simp [Print.glues, Print.isWordy] at hg
    | str _ => simp [Print.glues, Print.isWordy] at hg
    | punct _ _ _ => simp [Print.glues, Print.isWordy, Print.isPunctK] at hg
    | op d => have := delim_facts _ (Or.inl ⟨d, rfl⟩); exact ⟨this.1, this.2.1⟩
    | cl d => have := delim_facts _ (Or.inr ⟨d, rfl⟩); exact ⟨this.1, this.2.1⟩

theorem okPunct_word {c : Char} (h : okPunct c = true) :
    Lex.isIdCont c = false ∧ c ≠ '.' ∧ Lex.isIdStart c = false := by
  rcases okPunct_cases h with h | h | h | h | h | h | h | h | h | h | h <;> subst h <;>
    exact ⟨by decide, by decide, by decide⟩

theorem intTail_after {v : Nat} {T : List Char} (h : After (.int v) T) : IntTail T := by
  cases h with
  | nil => trivial
  | trivia c r ht => have := triviaHead_facts ht; exact ⟨this.1, this.2.2.1⟩
  | tok b c r hg hh =>
    cases hh with
    | ident _ _ _ => simp [Print.glues, Print.isWordy] at hg
    | int _ _ _ => simp [Print.glues, Print.isWordy] at hg
    | str _ => simp [Print.glues, Print.isWordy] at hg
    | punct _ _ hp => have := okPunct_word hp; exact ⟨this.1, this.2.1⟩
    | op d => have := delim_facts _ (Or.inl ⟨d, rfl⟩); exact ⟨this.1, this.2.2.1⟩
    | cl d => have := delim_facts _ (Or.inr ⟨d, rfl⟩); exact ⟨this.1, this.2.2.1⟩

theorem followStr_after {s : String} {T : List Char} (h : After (.str s) T) : FollowStr T := by
  cases h with
  | nil => trivial
  | trivia c r ht => exact (triviaHead_facts ht).2.2.2.1
  | tok b c r hg hh =>
    cases hh with
    | ident _ _ _ => simp [Print.glues, Print.isWordy] at hg
    | int _ _ _ => simp [Print.glues, Print.isWordy] at hg
    | str _ => simp [Print.glues, Print.isWordy] at hg
    | punct _ _ hp => exact (okPunct_word hp).2.2
    | op d => exact (delim_facts _ (Or.inl ⟨d, rfl⟩)).2.2.2.1
    | cl d => exact (delim_facts _ (Or.inr ⟨d, rfl⟩)).2.2.2.1

theorem punctNext_of_not_punct {c : Char} (r : List Char) (h1 : Lex.isPunctCh c = false) :
    Lex.punctNext (c :: r) = false := by
  have hs : c ≠ '/' := by intro e; subst e; simp [Lex.isPunctCh] at h1
  unfold Lex.punctNext
  split
  · rename_i heq; simp only [List.cons.injEq] at heq; exact absurd heq.1 hs
  · rename_i heq; simp only [List.cons.injEq] at heq; exact absurd heq.1 hs
  · rename_i heq; simp only [List.cons.injEq] at heq; rw [← heq.1]; exact h1
  · rfl

theorem punctNext_after {c0 : Char} {T : List Char} (h : After (.punct c0 false) T) :
    Lex.punctNext T = false := by
  cases h with
  | nil => rfl
  | trivia c r ht => exact (triviaHead_facts ht).2.2.2.2
  | tok b c r hg hh =>
    cases hh with
    | ident _ _ hi =>
      apply punctNext_of_not_punct
      have hn := (isIdStart_iff c).1 hi
      cases hp : Lex.isPunctCh c with
      | false => rfl
      | true =>
        simp only [Lex.isPunctCh, Bool.or_eq_true, beq_iff_eq] at hp
        rcases hp with (((((((((((((((((((((h | h) | h) | h) | h) | h) | h) | h) | h) | h) | h) | h) | h) | h) | h) | h) | h) | h) | h) | h) | h) | h) <;>
          (subst h; simp at hn)
    | int _ _ hi =>
      apply punctNext_of_not_punct
      have hn := (isDigit_iff c).1 hi
      cases hp : Lex.isPunctCh c with
      | false => rfl
      | true =>
        simp only [Lex.isPunctCh, Bool.or_eq_true, beq_iff_eq] at hp
        rcases hp with (((((((((((((((((((((h | h) | h) | h) | h) | h) | h) | h) | h) | h) | h) | h) | h) | h) | h) | h) | h) | h) | h) | h) | h) | h) <;>
          (subst h; simp at hn)
    | str _ => exact punctNext_of_not_punct _ (by decide)
    | punct _ _ _ => simp [Print.glues, Print.isWordy, Print.isPunctK] at hg
    | op d => exact punctNext_of_not_punct _ (delim_facts _ (Or.inl ⟨d, rfl⟩)).2.2.2.2.1
    | cl d => exact punctNext_of_not_punct _ (delim_facts _ (Or.inr ⟨d, rfl⟩)).2.2.2.2.1

open Print (digitsLE digitChar Base Piece Trivia)

/-! ## `(` is never followed by `/*ERROR*/)` -/

def errTail : List Char := ['/', '*', 'E', 'R', 'R', 'O', 'R', '*', '/', ')']

theorem isERROR_cons (T : List Char) : Lex.isERROR ('(' :: T) = errTail.isPrefixOf T := by
  simp [Lex.isERROR, errTail, List.isPrefixOf]

theorem errTail_head {c : Char} {r : List Char} (h : c ≠ '/') : errTail.isPrefixOf (c :: r) = false := by
  simp [errTail, List.isPrefixOf, Ne.symm h]

theorem head_ne_slash {b : K} {c : Char} (h : Head b c) : c ≠ '/' := by
  cases h with
  | ident _ _ hi => intro e; subst e; exact absurd hi (by decide)
  | int _ _ hi => intro e; subst e; exact absurd hi (by decide)
  | str _ => decide
  | punct _ _ hp => exact (okPunct_facts hp).2.2.2.2.1
  | op d => cases d <;> decide
  | cl d => cases d <;> decide

theorem head_rparen {b : K} {c : Char} (h : Head b c) (hc : c = ')') : b = .cl .paren := by
  cases h with
  | ident _ _ hi => subst hc; exact absurd hi (by decide)
  | int _ _ hi => subst hc; exact absurd hi (by decide)
  | str _ => exact absurd hc (by decide)
  | punct _ _ hp => subst hc; exact absurd hp (by decide)
  | op d => cases d <;> exact absurd hc (by decide)
  | cl d =>
    cases d
    · rfl
    · exact absurd hc (by decide)
    · exact absurd hc (by decide)

theorem errTail_docText (inner : Bool) (t : List Char) (block : Bool) (rest : List Char) :
    errTail.isPrefixOf (Print.docText inner t block ++ rest) = false := by
  cases block <;> cases inner <;> simp [Print.docText, errTail, List.isPrefixOf]

/-- refined head of a rendering: a doc comment, or a token's first character -/
theorem renderK_head' (τ : Trivia) (f i : Nat) (k : K) (ks : List K) (h : tokOk k = true) :
    (∃ inner t block rest, Print.renderK τ (f + 1) i (k :: ks) = Print.docText inner t block ++ rest) ∨
    (∃ c r, Print.renderK τ (f + 1) i (k :: ks) = c :: r ∧ Head k c) := by
  simp only [Print.renderK]
  cases hd : Print.docChoice τ i (k :: ks) with
  | some p =>
    obtain ⟨inner, t, block, n, rest⟩ := p
    exact Or.inl ⟨inner, t, block,
      Print.gapText (K.cl Delim.bracket) rest.head? (τ.gap (i + n - 1)) ++ Print.renderK τ f (i + n) rest,
      by simp only [List.append_assoc]⟩
  | none =>
    obtain ⟨c, r, hcr, hh⟩ := spellWith_head τ i k h
    exact Or.inr ⟨c, r ++ (Print.gapText k ks.head? (τ.gap i) ++ Print.renderK τ f (i + 1) ks),
      by simp only [hcr, List.cons_append, List.append_assoc], hh⟩

theorem piece_text_ne_nil (p : Piece) : p.text ≠ [] := by
  obtain ⟨c, r, h, _⟩ := piece_text_head p
  rw [h]; simp

theorem piecesText_eq_nil {ps : List Piece} (h : Print.piecesText ps = []) : ps = [] := by
  cases ps with
  | nil => rfl
  | cons p ps =>
    simp only [Print.piecesText, List.flatMap_cons, List.append_eq_nil_iff] at h
    exact absurd h.1 (piece_text_ne_nil p)

theorem blockEnd_error (u : List Char) :
    Lex.blockEnd 0 ('E' :: 'R' :: 'R' :: 'O' :: 'R' :: '*' :: '/' :: u) = some u := by
  simp [Lex.blockEnd]

/-- if the text of a piece list followed by `R` starts with `/*ERROR*/)`, the pieces are the
    single comment `/*ERROR*/` and `R` starts with `)` -/
theorem errTail_pieces (ps : List Piece) (R : List Char)
    (h : errTail.isPrefixOf (Print.piecesText ps ++ R) = true) (hne : Print.piecesText ps ≠ []) :
    Print.piecesText ps = ['/', '*', 'E', 'R', 'R', 'O', 'R', '*', '/'] ∧ ∃ u, R = ')' :: u := by
  cases ps with
  | nil => simp [Print.piecesText] at hne
  | cons p ps' =>
    simp only [Print.piecesText, List.flatMap_cons, List.append_assoc] at h ⊢
    by_cases hv : p.valid = true
    · cases p with
      | ws c =>
        have hv' := hv
        simp only [Piece.valid, Bool.and_eq_true, decide_eq_true_eq] at hv'
        have hn := ws_ascii hv'.1 hv'.2
        have : c ≠ '/' := by intro e; subst e; simp at hn
        simp [Piece.text, hv, errTail_head this] at h
      | line t =>
        simp [Piece.text, hv, errTail, List.isPrefixOf] at h
      | block b0 =>
        have hv' := hv
        simp only [Piece.valid, Bool.and_eq_true, beq_iff_eq] at hv'
        simp only [Piece.text, hv, if_true, List.cons_append, List.append_assoc, List.nil_append]
          at h ⊢
        -- the comment body followed by `*/` and the rest starts with `ERROR*/)`
        have hpre : ['E', 'R', 'R', 'O', 'R', '*', '/', ')'].isPrefixOf
            (b0 ++ '*' :: '/' :: (List.flatMap Piece.text ps' ++ R)) = true := by
          simpa [errTail, List.isPrefixOf] using h
        obtain ⟨u, hu⟩ := List.isPrefixOf_iff_prefix.mp hpre
        have hb := blockEnd_append (b0 ++ ['*', '/']) 0 [] (List.flatMap Piece.text ps' ++ R) hv'.2
        simp only [List.append_assoc, List.cons_append, List.nil_append] at hb
        rw [← hu] at hb
        simp only [List.cons_append, List.nil_append] at hb
        rw [blockEnd_error] at hb
        simp only [Option.some.injEq] at hb
        -- so the rest is `)` …: no further pieces
        have hps' : ps' = [] := by
          by_cases he : Print.piecesText ps' = []
          · exact piecesText_eq_nil he
          · obtain ⟨c, r, h1, h2⟩ := triviaHead_pieces ps' R he
            simp only [Print.piecesText] at h1
            rw [h1] at hb
            simp only [List.cons.injEq] at hb
            rw [← hb.1] at h2
            rcases h2 with ⟨hw, _⟩ | ⟨hs, _⟩
            · exact absurd hw (by decide)
            · exact absurd hs (by decide)
        subst hps'
        simp only [List.flatMap_nil, List.nil_append] at hb hu ⊢
        refine ⟨?_, u, hb.symm⟩
        rw [← hb] at hu
        have : b0 ++ ['*', '/'] ++ (')' :: u) = ['E', 'R', 'R', 'O', 'R', '*', '/'] ++ (')' :: u) := by
          simpa using hu.symm
        have h2 := List.append_cancel_right this
        have h3 : b0 = ['E', 'R', 'R', 'O', 'R'] := by
          have : b0 ++ ['*', '/'] = ['E', 'R', 'R', 'O', 'R'] ++ ['*', '/'] := by simpa using h2
          exact List.append_cancel_right this
        subst h3
        rfl
    · simp [Piece.text, hv, errTail, List.isPrefixOf] at h

open Print (digitsLE digitChar Base Piece Trivia)

theorem errStr : "/*ERROR*/".toList = ['/', '*', 'E', 'R', 'R', 'O', 'R', '*', '/'] := by decide

theorem isERROR_gap (τ : Trivia) (f i : Nat) (ks : List K)
    (hks : ∀ b ∈ ks.head?, tokOk b = true) (hf : ks.length ≤ f) :
    Lex.isERROR ('(' :: (Print.gapText (.op .paren) ks.head? (τ.gap i) ++
      Print.renderK τ f (i + 1) ks)) = false := by
  rw [isERROR_cons]
  cases ks with
  | nil =>
    simp only [List.head?_nil, renderK_nil, List.append_nil, Print.gapText]
    by_cases ht : Print.piecesText (τ.gap i) = []
    · rw [ht]; rfl
    · cases hp : errTail.isPrefixOf (Print.piecesText (τ.gap i)) with
      | false => rfl
      | true =>
        have := errTail_pieces (τ.gap i) [] (by simpa using hp) ht
        obtain ⟨_, u, hu⟩ := this
        cases hu
  | cons b ks' =>
    obtain ⟨f, rfl⟩ : ∃ g, f = g + 1 := ⟨f - 1, by simp at hf; omega⟩
    have hb := hks b (by simp)
    simp only [List.head?_cons, Print.gapText]
    split
    · exact errTail_head (by decide)
    · split
      · exact errTail_head (by decide)
      · rename_i h1 h2
        cases hp : errTail.isPrefixOf (Print.piecesText (τ.gap i) ++ Print.renderK τ (f + 1) (i + 1) (b :: ks')) with
        | false => rfl
        | true =>
          exfalso
          by_cases ht : Print.piecesText (τ.gap i) = []
          · rw [ht, List.nil_append] at hp
            rcases renderK_head' τ f (i + 1) b ks' hb with ⟨inner, t, block, rest, e⟩ | ⟨c, r, e, hh⟩
            · rw [e, errTail_docText] at hp; cases hp
            · rw [e, errTail_head (head_ne_slash hh)] at hp; cases hp
          · obtain ⟨h3, u, hu⟩ := errTail_pieces (τ.gap i) _ hp ht
            rcases renderK_head' τ f (i + 1) b ks' hb with ⟨inner, t, block, rest, e⟩ | ⟨c, r, e, hh⟩
            · rw [e] at hu
              obtain ⟨d, r', hd, _⟩ := docText_head inner t block
              rw [hd] at hu
              simp at hu
            · rw [e] at hu
              simp only [List.cons.injEq] at hu
              have hbb := head_rparen hh hu.1
              apply h2
              simp [hbb, h3, errStr]

open Print (digitsLE digitChar Base Piece Trivia)

/-! ## one token, one gap -/

/-- the gap after a token is skipped in `n ≤ length` iterations -/
theorem gap_skip (k : K) (b? : Option K) (ps : List Piece) :
    ∃ n, n ≤ (Print.gapText k b? ps).length ∧
      ∀ (m : Nat) (R : List Char) (st : List (Delim × Lex.Mark)),
        Lex.lexCore (n + m) (Print.gapText k b? ps ++ R) st = Lex.lexCore m R st := by
  have hpieces : ∃ n, n ≤ (Print.piecesText ps).length ∧
      ∀ (m : Nat) (R : List Char) (st : List (Delim × Lex.Mark)),
        Lex.lexCore (n + m) (Print.piecesText ps ++ R) st = Lex.lexCore m R st :=
    ⟨piecesSteps ps, piecesSteps_le ps, fun m R st => lexCore_pieces ps m R st⟩
  have hsp : ∃ n, n ≤ [' '].length ∧
      ∀ (m : Nat) (R : List Char) (st : List (Delim × Lex.Mark)),
        Lex.lexCore (n + m) ([' '] ++ R) st = Lex.lexCore m R st :=
    ⟨1, by simp, fun m R st => by
      rw [show 1 + m = m + 1 by omega]; exact lexCore_ws ' ' (by decide) m R st⟩
  have hsp2 : ∃ n, n ≤ (' ' :: Print.piecesText ps).length ∧
      ∀ (m : Nat) (R : List Char) (st : List (Delim × Lex.Mark)),
        Lex.lexCore (n + m) (' ' :: Print.piecesText ps ++ R) st = Lex.lexCore m R st :=
    ⟨piecesSteps ps + 1, by have := piecesSteps_le ps; simp; omega, fun m R st => by
      rw [show piecesSteps ps + 1 + m = (piecesSteps ps + m) + 1 by omega]
      simp only [List.cons_append]
      rw [lexCore_ws ' ' (by decide), lexCore_pieces]⟩
  have hnil : ∃ n, n ≤ ([] : List Char).length ∧
      ∀ (m : Nat) (R : List Char) (st : List (Delim × Lex.Mark)),
        Lex.lexCore (n + m) ([] ++ R) st = Lex.lexCore m R st :=
    ⟨0, by simp, fun m R st => by simp⟩
  have main : ∀ (_ : ∀ c, k ≠ .punct c true), ∃ n, n ≤ (Print.gapText k b? ps).length ∧
      ∀ (m : Nat) (R : List Char) (st : List (Delim × Lex.Mark)),
        Lex.lexCore (n + m) (Print.gapText k b? ps ++ R) st = Lex.lexCore m R st := by
    intro hk
    have hg : Print.gapText k b? ps =
        (match b? with
         | none => Print.piecesText ps
         | some b =>
           if (Print.piecesText ps).isEmpty && Print.glues k b then [' ']
           else if k == .op .paren && b == .cl .paren && Print.piecesText ps == "/*ERROR*/".toList
             then ' ' :: Print.piecesText ps
           else Print.piecesText ps) := by
      cases k with
      | punct c j =>
        cases j with
        | true => exact absurd rfl (hk c)
        | false => rfl
      | _ => rfl
    rw [hg]
    cases b? with
    | none => exact hpieces
    | some b =>
      simp only []
      split
      · exact hsp
      · split
        · exact hsp2
        · exact hpieces
  by_cases hk : ∃ c, k = .punct c true
  · obtain ⟨c, rfl⟩ := hk
    exact hnil
  · exact main (fun c e => hk ⟨c, e⟩)

/-- what the text after a leaf token must satisfy -/
def AfterLeaf (k : K) (T : List Char) : Prop :=
  match k with
  | .punct _ true => Lex.punctNext T = true
  | _ => After k T

def isLeaf : K → Bool
  | .op _ | .cl _ | .lit => false
  | _ => true

theorem leaf_step (τ : Trivia) (i : Nat) (k : K) (hl : isLeaf k = true) (hk : tokOk k = true)
    (T : List Char) (hT : AfterLeaf k T) (m : Nat) (st : List (Delim × Lex.Mark)) :
    Lex.lexCore (m + 1) (Print.spellWith τ i k ++ T) st =
      (Lex.lexCore m T st).map ((k, Lex.here (Print.spellWith τ i k ++ T)) :: ·) := by
  cases k with
  | lit => simp [isLeaf] at hl
  | op _ => simp [isLeaf] at hl
  | cl _ => simp [isLeaf] at hl
  | ident s =>
    simp only [tokOk, plainId] at hk
    cases hh : s.toList with
    | nil => rw [hh] at hk; simp at hk
    | cons c w =>
      rw [hh] at hk
      simp only [Bool.and_eq_true, List.all_eq_true] at hk
      have hstr : String.ofList (c :: w) = s := by rw [← hh]; exact String.ofList_toList
      have hf := followId_after (s := s) hT
      simp only [Print.spellWith, Print.spell, hh, List.cons_append]
      rw [lexCore_leaf c _ (leafStart_idStart hk.1)]
      have := lexLeaf_ident' c w T hk.1 hk.2 hf
      simp only [List.cons_append] at this
      rw [this, hstr]
  | int v =>
    obtain ⟨cs, h1, h2, h3⟩ := spellInt_spelling (τ.int i) v
    have hl' := lexLeaf_int _ cs h2 T (intTail_after (v := v) hT)
    obtain ⟨c, r, hcr, hd⟩ := spelling_head_digit _ cs h2 T
    simp only [Print.spellWith, h1]
    rw [hcr, lexCore_leaf c r (leafStart_digit hd), ← hcr, hl', h3]
  | str s =>
    have hl' := lexLeaf_str' s.toList T (followStr_after (s := s) hT)
    obtain ⟨r, hr⟩ : ∃ r, Print.spellStr s.toList ++ T = '"' :: r := ⟨_, rfl⟩
    simp only [Print.spellWith, Print.spell]
    rw [hr] at hl' ⊢
    rw [lexCore_leaf '"' r (by simp [LeafStart]), hl']
    simp only [String.ofList_toList]
  | punct c j =>
    simp only [tokOk] at hk
    simp only [Print.spellWith, Print.spell, List.cons_append, List.nil_append]
    rw [lexCore_leaf c _ (okPunct_facts hk).2.2.2.2.2, lexLeaf_punct c hk]
    cases j with
    | false => rw [punctNext_after (c0 := c) hT]
    | true => simp only [AfterLeaf] at hT; rw [hT]

open Print (digitsLE digitChar Base Piece Trivia)

/-- the tokens of a doc attribute -/
def docKs (inner : Bool) (s : String) : List K :=
  K.punct '#' false :: (if inner then [K.punct '!' false] else []) ++
  [K.op .bracket, K.ident "doc", K.punct '=' false, K.str s, K.cl .bracket]

theorem docAttr_some (ks : List K) (inner : Bool) (s : String) (n : Nat) (rest : List K)
    (h : Print.docAttr? ks = some (inner, s, n, rest)) : ks = docKs inner s ++ rest := by
  unfold Print.docAttr? at h
  split at h
  · simp only [Option.some.injEq, Prod.mk.injEq] at h
    obtain ⟨rfl, rfl, _, rfl⟩ := h
    rfl
  · simp only [Option.some.injEq, Prod.mk.injEq] at h
    obtain ⟨rfl, rfl, _, rfl⟩ := h
    rfl
  · cases h

theorem docChoice_some (τ : Trivia) (i : Nat) (ks : List K) (inner : Bool) (t : List Char)
    (block : Bool) (n : Nat) (rest : List K)
    (h : Print.docChoice τ i ks = some (inner, t, block, n, rest)) :
    ∃ s : String, t = s.toList ∧ ks = docKs inner s ++ rest ∧
      (if block then Print.blockDocOk inner t = true else Print.lineDocOk inner t = true) := by
  unfold Print.docChoice at h
  split at h
  · rename_i inner' s n' rest' hd
    have hks := docAttr_some ks inner' s n' rest' hd
    split at h
    · split at h
      · simp only [Option.some.injEq, Prod.mk.injEq] at h
        obtain ⟨rfl, rfl, rfl, _, rfl⟩ := h
        exact ⟨s, rfl, hks, by simpa using ‹Print.lineDocOk inner' s.toList = true›⟩
      · cases h
    · split at h
      · simp only [Option.some.injEq, Prod.mk.injEq] at h
        obtain ⟨rfl, rfl, rfl, _, rfl⟩ := h
        exact ⟨s, rfl, hks, by simpa using ‹Print.blockDocOk inner' s.toList = true›⟩
      · cases h
    · cases h
  · cases h

theorem chk_docKs (st : List Delim) (inner : Bool) (s : String) (rest : List K) :
    chk st (docKs inner s ++ rest) = chk st rest := by
  cases inner <;> simp [docKs, chk, okPunct, plainId, Lex.isIdStart, Lex.isIdCont]

theorem docToks_fst (inner : Bool) (s : String) (n m : Lex.Mark) :
    (Lex.docToks inner s.toList n m).map (·.1) = docKs inner s := by
  cases inner <;> simp [Lex.docToks, docKs, String.ofList_toList]

theorem docKs_length (inner : Bool) (s : String) : 6 ≤ (docKs inner s).length := by
  cases inner <;> simp [docKs]

open Print (digitsLE digitChar Base Piece Trivia)

theorem lexCore_open' (d : Delim) (f : Nat) (T : List Char) (st : List (Delim × Lex.Mark))
    (h : d = .paren → Lex.isERROR ('(' :: T) = false) :
    Lex.lexCore (f + 1) (Print.openCh d :: T) st =
      (Lex.lexCore f T ((d, Lex.here (Print.openCh d :: T)) :: st)).map
        ((K.op d, Lex.here (Print.openCh d :: T)) :: ·) := by
  rw [Lex.lexCore]
  cases d with
  | paren =>
    simp [Print.openCh, show Lex.isWs '(' = false from by decide, Lex.scanSlash, Lex.delimOpen,
      h rfl]
  | bracket =>
    simp [Print.openCh, show Lex.isWs '[' = false from by decide, Lex.scanSlash, Lex.delimOpen]
  | brace =>
    simp [Print.openCh, show Lex.isWs '{' = false from by decide, Lex.scanSlash, Lex.delimOpen]

/-- the chk facts for a leaf token -/
theorem chk_leaf (st : List Delim) (k : K) (ks : List K) (st' : List Delim) (hl : isLeaf k = true)
    (h : chk st (k :: ks) = some st') :
    chk st ks = some st' ∧ (∀ c, k = .punct c true → nextPunct ks = true) := by
  cases k with
  | lit => simp [isLeaf] at hl
  | op _ => simp [isLeaf] at hl
  | cl _ => simp [isLeaf] at hl
  | ident s =>
    simp only [chk] at h
    split at h
    · exact ⟨h, fun c e => by cases e⟩
    · cases h
  | int v => exact ⟨by simpa [chk] using h, fun c e => by cases e⟩
  | str s => exact ⟨by simpa [chk] using h, fun c e => by cases e⟩
  | punct c j =>
    simp only [chk] at h
    split at h
    · rename_i hp
      simp only [Bool.and_eq_true, Bool.or_eq_true, Bool.not_eq_true'] at hp
      refine ⟨h, fun c' e => ?_⟩
      cases e
      rcases hp.2 with h2 | h2
      · cases h2
      · exact h2
    · cases h

theorem tokOk_head_of_chk (st : List Delim) (ks : List K) (st' : List Delim)
    (h : chk st ks = some st') : ∀ b ∈ ks.head?, tokOk b = true := by
  intro b hb
  cases ks with
  | nil => simp at hb
  | cons k ks' =>
    simp only [List.head?_cons, Option.mem_def, Option.some.injEq] at hb
    subst hb
    exact tokOk_of_chk st _ ks' st' h

theorem lexCore_renderK (τ : Trivia) : ∀ (f i : Nat) (ks : List K) (st : List (Delim × Lex.Mark))
    (st' : List Delim), ks.length ≤ f → chk (st.map (·.1)) ks = some st' →
    ∃ (toks : List (K × Lex.Mark)) (st2 : List (Delim × Lex.Mark)) (n : Nat),
      toks.map (·.1) = ks ∧ st2.map (·.1) = st' ∧ n ≤ (Print.renderK τ f i ks).length ∧
      ∀ g, Lex.lexCore (n + g) (Print.renderK τ f i ks) st
        = (Lex.lexCore g [] st2).map (toks ++ ·) := by
  intro f
  induction f with
  | zero =>
    intro i ks st st' hf h
    have : ks = [] := by cases ks with | nil => rfl | cons _ _ => simp at hf
    subst this
    simp only [chk, Option.some.injEq] at h
    exact ⟨[], st, 0, rfl, h, by simp, fun g => by
      simpa [Print.renderK] using map_nil_append _⟩
  | succ f ih =>
    intro i ks st st' hf h
    cases ks with
    | nil =>
      simp only [chk, Option.some.injEq] at h
      exact ⟨[], st, 0, rfl, h, by simp, fun g => by
        simpa [Print.renderK] using map_nil_append _⟩
    | cons k ks =>
      have hk := tokOk_of_chk _ k ks st' h
      have hf' : ks.length ≤ f := by simp at hf; omega
      simp only [Print.renderK]
      cases hd : Print.docChoice τ i (k :: ks) with
      | some p =>
        obtain ⟨inner, t, block, n, rest⟩ := p
        obtain ⟨s, rfl, hks, hok⟩ := docChoice_some τ i (k :: ks) inner t block n rest hd
        have hlen : rest.length ≤ f := by
          have := congrArg List.length hks
          have := docKs_length inner s
          simp only [List.length_cons, List.length_append] at *
          omega
        rw [hks, chk_docKs] at h
        obtain ⟨toks, st2, n', h1, h2, h3, h4⟩ := ih (i + n) rest st st' hlen h
        obtain ⟨nX, hX1, hX2⟩ := gap_skip (.cl .bracket) rest.head? (τ.gap (i + n - 1))
        simp only []
        -- the comment
        obtain ⟨N, M, hdoc⟩ := lexCore_doc inner s.toList block
          (Print.gapText (.cl .bracket) rest.head? (τ.gap (i + n - 1)) ++ Print.renderK τ f (i + n) rest)
          hok
        refine ⟨Lex.docToks inner s.toList N M ++ toks, st2, (if block then 1 else 2) + (nX + n'),
          ?_, h2, ?_, fun g => ?_⟩
        · rw [List.map_append, docToks_fst, h1, hks]
        · have hdl : (if block then 1 else 2) ≤ (Print.docText inner s.toList block).length := by
            cases block <;> simp [Print.docText]
          simp only [List.length_append]
          omega
        · rw [show (if block then 1 else 2) + (nX + n') + g
              = (if block then 1 else 2) + (nX + (n' + g)) by omega]
          rw [List.append_assoc, hdoc, hX2, h4]
          cases Lex.lexCore g [] st2 <;> simp [Except.map]
      | none =>
        simp only []
        obtain ⟨nX, hX1, hX2⟩ := gap_skip k ks.head? (τ.gap i)
        obtain ⟨c0, r0, hsp, _⟩ := spellWith_head τ i k hk
        have hsl : 1 ≤ (Print.spellWith τ i k).length := by rw [hsp]; simp
        by_cases hl : isLeaf k = true
        · -- identifiers, numbers, strings, punctuation
          obtain ⟨hc, hj⟩ := chk_leaf _ k ks st' hl h
          obtain ⟨toks, st2, n', h1, h2, h3, h4⟩ := ih (i + 1) ks st st' hf' hc
          have hT : AfterLeaf k (Print.gapText k ks.head? (τ.gap i) ++ Print.renderK τ f (i + 1) ks) := by
            by_cases hjj : ∃ c, k = .punct c true
            · obtain ⟨c, rfl⟩ := hjj
              have hnp := hj c rfl
              simp only [AfterLeaf, Print.gapText, List.nil_append]
              -- the next token is a punct other than `#`
              cases ks with
              | nil => simp [nextPunct] at hnp
              | cons b ks' =>
                obtain ⟨f, rfl⟩ : ∃ g, f = g + 1 := ⟨f - 1, by simp at hf'; omega⟩
                cases b with
                | punct c' j' =>
                  simp only [nextPunct, Bool.and_eq_true, bne_iff_ne, ne_eq] at hnp
                  have hnd : Print.docChoice τ (i + 1) (K.punct c' j' :: ks') = none := by
                    unfold Print.docChoice Print.docAttr?
                    split
                    · rename_i heq
                      split at heq
                      · rename_i e; simp only [List.cons.injEq, K.punct.injEq] at e; exact absurd e.1.1 hnp.2
                      · rename_i e; simp only [List.cons.injEq, K.punct.injEq] at e; exact absurd e.1.1 hnp.2
                      · cases heq
                    · rfl
                  simp only [Print.renderK, hnd, Print.spellWith, Print.spell, List.cons_append,
                    List.nil_append]
                  exact punctNext_okPunct hnp.1 _
                | ident _ => simp [nextPunct] at hnp
                | int _ => simp [nextPunct] at hnp
                | str _ => simp [nextPunct] at hnp
                | lit => simp [nextPunct] at hnp
                | op _ => simp [nextPunct] at hnp
                | cl _ => simp [nextPunct] at hnp
            · have hk' : ∀ c, k ≠ .punct c true := fun c e => hjj ⟨c, e⟩
              have := after_gap τ f i k ks hk' (tokOk_head_of_chk _ ks st' hc) hf'
              cases k with
              | punct c j =>
                cases j with
                | true => exact absurd rfl (hk' c)
                | false => exact this
              | _ => exact this
          refine ⟨(k, Lex.here (Print.spellWith τ i k ++ (Print.gapText k ks.head? (τ.gap i) ++
            Print.renderK τ f (i + 1) ks))) :: toks, st2, 1 + (nX + n'), by simp [h1], h2, ?_,
            fun g => ?_⟩
          · simp only [List.length_append]; omega
          · rw [show 1 + (nX + n') + g = (nX + (n' + g)) + 1 by omega, List.append_assoc,
              leaf_step τ i k hl hk _ hT, hX2, h4, map_cons_map]
        · -- delimiters
          cases k with
          | ident _ => simp [isLeaf] at hl
          | int _ => simp [isLeaf] at hl
          | str _ => simp [isLeaf] at hl
          | punct _ _ => simp [isLeaf] at hl
          | lit => simp [tokOk] at hk
          | op d =>
            simp only [chk] at h
            have hE : d = .paren → Lex.isERROR ('(' :: (Print.gapText (.op d) ks.head? (τ.gap i) ++
                Print.renderK τ f (i + 1) ks)) = false := by
              intro e; subst e
              exact isERROR_gap τ f i ks (tokOk_head_of_chk _ ks st' h) hf'
            have hc : chk ((((d, Lex.here (Print.openCh d :: (Print.gapText (.op d) ks.head? (τ.gap i) ++
                Print.renderK τ f (i + 1) ks))) :: st)).map (·.1)) ks = some st' := by
              simpa using h
            obtain ⟨toks, st2, n', h1, h2, h3, h4⟩ := ih (i + 1) ks _ st' hf' hc
            refine ⟨(K.op d, Lex.here (Print.openCh d :: (Print.gapText (.op d) ks.head? (τ.gap i) ++
              Print.renderK τ f (i + 1) ks))) :: toks, st2, 1 + (nX + n'),
              by simp [h1], h2, ?_, fun g => ?_⟩
            · simp only [List.length_append]; omega
            · rw [show 1 + (nX + n') + g = (nX + (n' + g)) + 1 by omega]
              simp only [Print.spellWith, Print.spell, List.cons_append, List.nil_append]
              rw [lexCore_open' d _ _ st hE, hX2, h4, map_cons_map]
              rfl
          | cl d =>
            cases st with
            | nil => simp [chk] at h
            | cons p st0 =>
              obtain ⟨d', n0⟩ := p
              simp only [List.map_cons, chk] at h
              by_cases hdd : d' = d
              · subst hdd
                simp only [if_true] at h
                obtain ⟨toks, st2, n', h1, h2, h3, h4⟩ := ih (i + 1) ks st0 st' hf' h
                refine ⟨(K.cl d', Lex.here (Print.closeCh d' :: (Print.gapText (.cl d') ks.head? (τ.gap i) ++
                  Print.renderK τ f (i + 1) ks))) :: toks, st2, 1 + (nX + n'),
                  by simp [h1], h2, ?_, fun g => ?_⟩
                · simp only [List.length_append]; omega
                · rw [show 1 + (nX + n') + g = (nX + (n' + g)) + 1 by omega]
                  simp only [Print.spellWith, Print.spell, List.cons_append, List.nil_append]
                  rw [lexCore_close, hX2, h4, map_cons_map]
                  rfl
              · simp [hdd] at h

open Print (digitsLE digitChar Base Piece Trivia)

theorem head_ascii {k : K} {c : Char} (h : Head k c) : c.toNat < 128 := by
  cases h with
  | ident _ _ hi => have := (isIdStart_iff c).1 hi; omega
  | int _ _ hi => have := (isDigit_iff c).1 hi; omega
  | str _ => decide
  | punct _ _ hp => have := (okPunct_facts hp).2.2.2.2.2; simp only [LeafStart] at this; omega
  | op d => cases d <;> decide
  | cl d => cases d <;> decide

theorem stripBom_of_lt {c : Char} (h : c.toNat < 128) (r : List Char) :
    Lex.stripBom (c :: r) = c :: r := by
  simp only [Lex.stripBom, beq_iff_eq]
  rw [if_neg (by omega)]

/-- lexing a text rendered with arbitrary trivia gives the tokens back -/
theorem lexL_renderT (τ : Trivia) (ks : List K) (h : chk [] ks = some []) :
    ∃ ts, Lex.lexL (Print.piecesText τ.lead ++ Print.renderK τ ks.length 0 ks) = .ok ts ∧
      ts.map (·.k) = ks := by
  obtain ⟨toks, st2, n, h1, h2, h3, h4⟩ := lexCore_renderK τ ks.length 0 ks [] [] (Nat.le_refl _)
    (by simpa using h)
  have hst2 : st2 = [] := by simpa using h2
  subst hst2
  have hL := piecesSteps_le τ.lead
  -- no byte order mark at the start
  have hbom : Lex.stripBom (Print.piecesText τ.lead ++ Print.renderK τ ks.length 0 ks)
      = Print.piecesText τ.lead ++ Print.renderK τ ks.length 0 ks := by
    by_cases hl : Print.piecesText τ.lead = []
    · rw [hl, List.nil_append]
      cases ks with
      | nil => simp [renderK_nil, Lex.stripBom]
      | cons k ks' =>
        have hk := tokOk_of_chk [] k ks' [] h
        obtain ⟨c, r, hcr, hh⟩ := renderK_head τ ks'.length 0 k ks' hk
        simp only [List.length_cons]
        rw [hcr]
        rcases hh with ⟨rfl, _⟩ | hh
        · exact stripBom_of_lt (by decide) r
        · exact stripBom_of_lt (head_ascii hh) r
    · obtain ⟨c, r, hcr, hh⟩ := triviaHead_pieces τ.lead (Print.renderK τ ks.length 0 ks) hl
      rw [hcr]
      rcases hh with ⟨_, h2⟩ | ⟨rfl, _⟩
      · exact stripBom_of_lt h2 r
      · exact stripBom_of_lt (by decide) r
  -- the fuel is enough
  let total := (Print.piecesText τ.lead ++ Print.renderK τ ks.length 0 ks).length
  have htot : total = (Print.piecesText τ.lead).length + (Print.renderK τ ks.length 0 ks).length := by
    simp [total]
  obtain ⟨g, hg⟩ : ∃ g, total + 1 = piecesSteps τ.lead + (n + (g + 1)) :=
    ⟨total - piecesSteps τ.lead - n, by omega⟩
  have hrun : Lex.lexCore (total + 1) (Print.piecesText τ.lead ++ Print.renderK τ ks.length 0 ks) []
      = .ok toks := by
    rw [hg, lexCore_pieces, h4]
    have hnil : Lex.lexCore (g + 1) [] [] = .ok [] := rfl
    rw [hnil]
    simp [Except.map]
  refine ⟨toks.map fun p => ⟨p.1, Lex.posOfRem (Print.piecesText τ.lead ++ Print.renderK τ ks.length 0 ks) p.2.rem⟩, ?_, ?_⟩
  · simp only [Lex.lexL, hbom]
    rw [show (Print.piecesText τ.lead ++ Print.renderK τ ks.length 0 ks).length + 1 = total + 1 from rfl, hrun]
  · simp only [List.map_map]
    rw [← h1]
    apply List.map_congr_left
    intro p _
    rfl

end C18
end PyxisVerif
