import PyxisVerif.Spec.C15
import PyxisVerif.Lemmas.C14
/-! helper lemmas for C15 -/
namespace PyxisVerif.C15
open Gen
open PyxisVerif.C14 (foldlM_cons_ok cast_ne_ok)

/-! ## the last written integer attribute and `usize::try_from` -/

/-- the step of `declInt` -/
def declStep (name : String) (acc : Option Int) (a : G.Attr) : Option Int :=
  match a with | .fn n [.int v] => if n = name then some v else acc | _ => acc

theorem declInt_eq (name : String) (attrs : List G.Attr) :
    declInt name attrs = attrs.foldl (declStep name) none := rfl

/-- `o` is the `usize` conversion of the declared integer `ai` -/
def Rel (o : Option Nat) (ai : Option Int) : Prop :=
  match ai with
  | some a => 0 ≤ a ∧ o = some a.toNat
  | none => o = none

theorem declStep_hit (name : String) (acc : Option Int) (v : Int) :
    declStep name acc (.fn name [.int v]) = some v := by
  simp [declStep]

theorem declStep_miss (name : String) (acc : Option Int) (a : G.Attr)
    (h : ∀ v, a = .fn name [.int v] → False) : declStep name acc a = acc := by
  unfold declStep
  split
  · next n v =>
    split
    · next hn => subst hn; exact (h v rfl).elim
    · rfl
  · rfl

theorem tryUsize_some (v : Int) (n : Nat) (h : tryUsize v = some n) : 0 ≤ v ∧ n = v.toNat := by
  unfold tryUsize at h
  split at h
  · next hv => simp only [Option.some.injEq] at h; exact ⟨hv, h.symm⟩
  · cases h

/-- fold invariant: if every successful step keeps `Rel` between the projected field and the declared
    value, so does the whole loop -/
theorem foldlM_rel {σ} (proj : σ → Option Nat) (f : σ → G.Attr → Res σ) (name : String)
    (hstep : ∀ st a st' ai, Rel (proj st) ai → f st a = .ok st' → Rel (proj st') (declStep name ai a))
    (attrs : List G.Attr) (st st' : σ) (ai : Option Int) (hr : Rel (proj st) ai)
    (h : Res.foldlM f st attrs = .ok st') : Rel (proj st') (attrs.foldl (declStep name) ai) := by
  induction attrs generalizing st ai with
  | nil =>
    simp only [Res.foldlM, Res.ok.injEq] at h
    subst h; exact hr
  | cons a as ih =>
    obtain ⟨st1, h1, h2⟩ := foldlM_cons_ok f st st' a as h
    exact ih st1 _ (hstep st a st1 ai hr h1) h2

theorem rel_none : Rel none none := rfl

theorem rel_set (v : Int) (n : Nat) (h : tryUsize v = some n) : Rel (some n) (some v) := by
  obtain ⟨h0, hn⟩ := tryUsize_some v n h
  exact ⟨h0, by rw [hn]⟩

theorem typeAttrStep_rel (st : TypeAttrs) (a : G.Attr) (st' : TypeAttrs) (ai : Option Int)
    (hr : Rel st.singleton ai) (h : typeAttrStep st a = .ok st') :
    Rel st'.singleton (declStep "singleton" ai a) := by
  unfold typeAttrStep at h
  split at h
  · split at h
    · cases h; rw [declStep_miss _ _ _ (by intro v hv; simp at hv)]; exact hr
    · cases h
  · next v =>
    split at h
    · next n hn => cases h; rw [declStep_hit]; exact rel_set v n hn
    · cases h
  · split at h
    · cases h; rw [declStep_miss _ _ _ (by intro v hv; simp at hv)]; exact hr
    · cases h
  · cases h; rw [declStep_miss _ _ _ (by intro v hv; simp at hv)]; exact hr
  · cases h; rw [declStep_miss _ _ _ (by intro v hv; simp at hv)]; exact hr
  · cases h; rw [declStep_miss _ _ _ (by intro v hv; simp at hv)]; exact hr
  · cases h; rw [declStep_miss _ _ _ (by intro v hv; simp at hv)]; exact hr
  · next _ hs _ _ _ _ _ =>
    cases h; rw [declStep_miss _ _ _ (fun v hv => hs v hv)]; exact hr

theorem enumAttrStep_rel (st : EnumAttrs) (a : G.Attr) (st' : EnumAttrs) (ai : Option Int)
    (hr : Rel st.singleton ai) (h : enumAttrStep st a = .ok st') :
    Rel st'.singleton (declStep "singleton" ai a) := by
  unfold enumAttrStep at h
  split at h
  · cases h; rw [declStep_miss _ _ _ (by intro v hv; simp at hv)]; exact hr
  · cases h; rw [declStep_miss _ _ _ (by intro v hv; simp at hv)]; exact hr
  · cases h; rw [declStep_miss _ _ _ (by intro v hv; simp at hv)]; exact hr
  · next v =>
    split at h
    · next n hn => cases h; rw [declStep_hit]; exact rel_set v n hn
    · cases h
  · next _ _ _ hs =>
    cases h; rw [declStep_miss _ _ _ (fun v hv => hs v hv)]; exact hr

theorem rel_result (o : Option Nat) (name : String) (attrs : List G.Attr)
    (h : Rel o (attrs.foldl (declStep name) none)) :
    (match declInt name attrs with
     | some a => 0 ≤ a ∧ o = some a.toNat
     | none => o = none) := by
  rw [declInt_eq]; exact h

theorem type_singleton_main (attrs : List G.Attr) (ta : TypeAttrs) (h : Res.foldlM typeAttrStep {} attrs = .ok ta) :
    (match declInt "singleton" attrs with
     | some a => 0 ≤ a ∧ ta.singleton = some a.toNat
     | none => ta.singleton = none) :=
  rel_result _ _ _ (foldlM_rel (fun (t : TypeAttrs) => t.singleton) typeAttrStep "singleton" typeAttrStep_rel attrs {} ta none rel_none h)

theorem enum_singleton_main (attrs : List G.Attr) (ea : EnumAttrs) (h : Res.foldlM enumAttrStep {} attrs = .ok ea) :
    (match declInt "singleton" attrs with
     | some a => 0 ≤ a ∧ ea.singleton = some a.toNat
     | none => ea.singleton = none) :=
  rel_result _ _ _ (foldlM_rel (fun (t : EnumAttrs) => t.singleton) enumAttrStep "singleton" enumAttrStep_rel attrs {} ea none rel_none h)

/-! ## extern values -/

/-- the step of `xvalAddress` -/
def xaddrStep (acc : Option Nat) (a : G.Attr) : Res (Option Nat) :=
  match a with
  | .fn "address" [.int v] => match tryUsize v with
    | some n => .ok (some n)
    | none => .err "failed to convert `address` attribute into usize for extern value"
  | _ => .ok acc

theorem xvalAddress_eq (attrs : List G.Attr) : xvalAddress attrs = Res.foldlM xaddrStep none attrs := rfl

theorem xaddrStep_rel (st : Option Nat) (a : G.Attr) (st' : Option Nat) (ai : Option Int)
    (hr : Rel st ai) (h : xaddrStep st a = .ok st') : Rel st' (declStep "address" ai a) := by
  unfold xaddrStep at h
  split at h
  · next v =>
    split at h
    · next n hn => cases h; rw [declStep_hit]; exact rel_set v n hn
    · cases h
  · next hs =>
    cases h; rw [declStep_miss _ _ _ (fun v hv => hs v hv)]; exact hr

theorem xvalAddress_rel (attrs : List G.Attr) (o : Option Nat) (h : xvalAddress attrs = .ok o) :
    Rel o (declInt "address" attrs) := by
  rw [declInt_eq]
  exact foldlM_rel id xaddrStep "address" xaddrStep_rel attrs none o none rel_none h

/-- `collect::<Result<Vec<_>>>()` is pointwise and keeps the length -/
theorem mapM'_ok {α β} (f : α → Res β) (l : List α) (l' : List β) (h : Res.mapM' f l = .ok l') :
    l'.length = l.length ∧ ∀ k (hk : k < l.length) (hk' : k < l'.length), f l[k] = .ok l'[k] := by
  induction l generalizing l' with
  | nil =>
    simp only [Res.mapM', Res.ok.injEq] at h
    subst h; exact ⟨rfl, fun k hk => by simp at hk⟩
  | cons a as ih =>
    unfold Res.mapM' at h
    split at h
    · next b hb =>
      split at h
      · next bs hbs =>
        simp only [Res.ok.injEq] at h
        subst h
        obtain ⟨ih1, ih2⟩ := ih bs hbs
        refine ⟨by simp [ih1], ?_⟩
        intro k hk hk'
        cases k with
        | zero => simpa using hb
        | succ k =>
          simp only [List.getElem_cons_succ]
          exact ih2 k _ _
      · cases h
      · cases h
      · cases h
    · cases h
    · cases h
    · cases h

open PyxisVerif.C14 in
theorem xvalStep_ok (ev : G.XVal) (x : XValue) (h : xvalStep ev = .ok x) :
    ∃ a : Int, declInt "address" ev.attrs = some a ∧ 0 ≤ a ∧ x.addr = a.toNat
      ∧ x.name = ev.name ∧ x.vis = ev.vis ∧ x.gty = ev.ty := by
  unfold xvalStep at h
  split at h
  · cases h
  · next n hn =>
    simp only [Res.ok.injEq] at h
    subst h
    have hr := xvalAddress_rel _ _ hn
    unfold Rel at hr
    split at hr
    · next a ha => exact ⟨a, ha, hr.1, by simpa using hr.2, rfl, rfl, rfl⟩
    · cases hr
  · exact (cast_ne_ok _ _ h).elim

open PyxisVerif.C14 in
theorem extern_value_address_main (s s' : State) (m : G.Module) (path : Path) (h : s.addModule m path = .ok s') :
    ∃ md, s'.getModule path = some md ∧ md.xvals.length = m.xvals.length ∧
      ∀ k (hk : k < m.xvals.length) (hk' : k < md.xvals.length),
        ∃ a : Int, declInt "address" m.xvals[k].attrs = some a ∧ 0 ≤ a ∧ md.xvals[k].addr = a.toNat
          ∧ md.xvals[k].name = m.xvals[k].name ∧ md.xvals[k].vis = m.xvals[k].vis ∧ md.xvals[k].gty = m.xvals[k].ty := by
  obtain ⟨xvals, doc, s2, hx, h1, h2⟩ := addModule_inv s s' m path h
  obtain ⟨_, _, _, g1⟩ := fold_addItem (defStep path) path (·.name) (defStep_spec path) _ _ _ h1
  obtain ⟨_, _, _, g2⟩ := fold_addItem (xtypeStep path) path (·.1) (xtypeStep_spec path) _ _ _ h2
  have h0 : (s.putModule path (newMod m path xvals doc)).getModule path = some (newMod m path xvals doc) := by
    simp [State.putModule, State.getModule]
  obtain ⟨dp1, hd1⟩ := g1 _ _ h0
  obtain ⟨dp2, hd2⟩ := g2 _ _ hd1
  obtain ⟨hl, hp⟩ := mapM'_ok _ _ _ hx
  refine ⟨_, hd2, hl, ?_⟩
  intro k hk hk'
  exact xvalStep_ok _ _ (hp k hk hk')

open PyxisVerif.C14 in
theorem extern_without_address_main (s : State) (m : G.Module) (path : Path)
    (h : ∃ x ∈ m.xvals, declInt "address" x.attrs = none ∨ ∃ a, declInt "address" x.attrs = some a ∧ a < 0) :
    (s.addModule m path).isOk = false := by
  cases hr : s.addModule m path with
  | ok s' =>
    obtain ⟨md, _, hl, hp⟩ := extern_value_address_main s s' m path hr
    obtain ⟨x, hx, hd⟩ := h
    obtain ⟨k, hk, rfl⟩ := List.getElem_of_mem hx
    obtain ⟨a, ha, h0, _⟩ := hp k hk (by omega)
    rcases hd with hd | ⟨a', ha', hn⟩
    · rw [ha] at hd; cases hd
    · rw [ha] at ha'; cases ha'; omega
  | _ => rfl

theorem extern_value_type_main (reg : Registry) (m m' : Mod) (h : resolveXVals reg m = .ok m') :
    m'.xvals.length = m.xvals.length ∧
    ∀ k (hk : k < m.xvals.length) (hk' : k < m'.xvals.length),
      ∃ t, reg.resolveTy m.scope m.xvals[k].gty = .ok t ∧ m'.xvals[k].ty = some t ∧ m'.xvals[k].addr = m.xvals[k].addr
        ∧ m'.xvals[k].name = m.xvals[k].name ∧ m'.xvals[k].vis = m.xvals[k].vis := by
  unfold resolveXVals at h
  split at h
  · next xvals hx =>
    simp only [Res.ok.injEq] at h
    subst h
    obtain ⟨hl, hp⟩ := mapM'_ok _ _ _ hx
    refine ⟨hl, ?_⟩
    intro k hk hk'
    have := hp k hk hk'
    simp only at this hk' ⊢
    split at this
    · next t ht =>
      simp only [Res.ok.injEq] at this
      refine ⟨t, ht, ?_⟩
      rw [← this]
      exact ⟨rfl, rfl, rfl, rfl⟩
    · cases this
    · exact (cast_ne_ok _ _ this).elim
  · exact (cast_ne_ok _ _ h).elim

/-! ## emitted getters -/

theorem struct_getter_main (reg : Registry) (path : Path) (size align : Nat) (vis : Vis) (td : TypeDefn) (a : Nat)
    (h : td.singleton = some a) :
    Sexp.mk "singleton-struct" [.str (path.getLast?.getD ""), Emit.visS vis, .int a] ∈ Emit.typeItems reg path size align vis td := by
  unfold Emit.typeItems
  simp only [h]
  simp only [List.mem_append]
  exact Or.inl (Or.inl (Or.inl (Or.inr (List.mem_singleton.mpr rfl))))

theorem enum_getter_main (path : Path) (size : Nat) (vis : Vis) (ed : EnumDefn) (a : Nat) (h : ed.singleton = some a) :
    Sexp.mk "singleton-enum" [.str (path.getLast?.getD ""), Emit.visS vis, .int a] ∈ Emit.enumItems path size vis ed := by
  unfold Emit.enumItems
  simp only [h]
  simp only [List.mem_append]
  exact Or.inr (List.mem_singleton.mpr rfl)

theorem getter_semantics_main (mem : Mem) (a : Nat) :
    (execSingletonStruct mem a = none ↔ mem a = 0) ∧ (∀ p, execSingletonStruct mem a = some p → p = mem a ∧ p ≠ 0)
    ∧ execSingletonEnum mem a = mem a ∧ execExternValue a = a := by
  unfold execSingletonStruct execSingletonEnum execExternValue
  refine ⟨?_, ?_, rfl, rfl⟩
  · split <;> simp_all
  · intro p hp
    split at hp
    · cases hp
    · next hne => cases hp; exact ⟨rfl, hne⟩

theorem head_mk (t : String) (xs : List Sexp) : Sexp.head? (Sexp.mk t xs) = some t := rfl

theorem no_getter_main (reg : Registry) (path : Path) (size align : Nat) (vis : Vis) (td : TypeDefn)
    (h : td.singleton = none) :
    ∀ x ∈ Emit.typeItems reg path size align vis td, Sexp.head? x ≠ some "singleton-struct" := by
  intro x hx
  unfold Emit.typeItems at hx
  simp only [h, List.append_nil, List.mem_append, List.mem_singleton, List.mem_flatMap] at hx
  rcases hx with ((((hx | hx) | hx) | hx) | hx)
  · subst hx; rw [head_mk]; decide
  · split at hx
    · rw [List.mem_singleton] at hx; subst hx; rw [head_mk]; decide
    · cases hx
  · subst hx; rw [head_mk]; decide
  · obtain ⟨e, _, hx⟩ := hx
    split at hx
    · rw [List.mem_singleton] at hx; subst hx; rw [head_mk]; decide
    · simp only [List.mem_cons, List.not_mem_nil, or_false] at hx
      rcases hx with hx | hx <;> (subst hx; rw [head_mk]; decide)
  · simp only [List.mem_cons, List.not_mem_nil, or_false] at hx
    rcases hx with hx | hx <;> (subst hx; rw [head_mk]; decide)

theorem extern_accessor_main (x : XValue) (t : DTy) (h : x.ty = some t) :
    Emit.xvalItem x = Sexp.mk "xaccessor" [Emit.visS x.vis, .str ("get_" ++ unraw x.name), .str (Emit.tyStr t), .int x.addr] := by
  unfold Emit.xvalItem
  rw [h]
  rfl

end PyxisVerif.C15
