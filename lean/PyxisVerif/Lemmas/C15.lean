import PyxisVerif.Spec.C15
/-! helper lemmas for C15 -/
namespace PyxisVerif.C15
end PyxisVerif.C15
