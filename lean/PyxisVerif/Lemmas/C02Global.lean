import PyxisVerif.Props.C12
import PyxisVerif.Lemmas.C02
import PyxisVerif.Lemmas.C09Case
/-!
# C02, registry-wide: the recursive layout judgement of the modelled compiler and its agreement
with the sizes and alignments pyxis recorded

The per-item theorems of `Props/C02.lean` take the layouts of the field types from pyxis's registry
(`regLayout reg`).  The compiler does not read that registry: it computes the layout of a field's
type from the *emitted definition* of that type, recursively.  `Lay` below is that recursive
judgement, and `RegSound` says that it agrees with what pyxis recorded, for every resolved item of
the registry.  The theorems of this file establish `RegSound` for `SemanticState::new`, show that
`add_module`, every resolution attempt and the whole build preserve it, and lift it to whole cases.

## Specification part (definitions only)
-/
namespace PyxisVerif.C02
open Layout Gen

/-- what the compiler is asked to lay out: the item emitted for a registry path, a type expression,
    or the type of a field (a type expression or a function pointer) -/
inductive Node where
  | item (p : Path)
  | ty (t : DTy)
  | rty (t : RTy)

/-- **the modelled compiler's recursive layout judgement** over a registry: `Lay reg n s a` – the
    compiler gives `n` size `s` and alignment `a`.  Nothing here reads the size or alignment pyxis
    recorded for an item, with two exceptions that are part of what is *emitted* / *assumed*:
    the `align(N)` attribute printed on a struct is the resolved alignment (`Emit.typeItems`), and an
    extern type has the size and alignment it was declared with (the property assumes them). -/
inductive Lay (reg : Registry) : Node → Nat → Nat → Prop
  /-- a predefined primitive: the compiler's own table (`primLayout`); the registry is consulted only
      to see that the bare name still denotes the predefined type -/
  | prim (name : String) (i : ItemDef) (s a : Nat) :
      reg.get [name] = some i → i.cat = .predefined → i.isResolved = true → (name, s, a) ∈ primLayout →
      Lay reg (.item [name]) s a
  /-- `void` is emitted as `::std::ffi::c_void`: one byte, alignment 1 (pyxis records size 0) -/
  | void (i : ItemDef) :
      reg.get ["void"] = some i → i.cat = .predefined → i.isResolved = true → Lay reg (.item ["void"]) 1 1
  /-- an extern type: the declared size and alignment (assumed, as the property says) -/
  | extern (p : Path) (i : ItemDef) (r : Resolved) :
      reg.get p = some i → i.cat = .extern → i.state = .res r → Lay reg (.item p) r.size r.align
  /-- an emitted enum `#[repr(name)]`: the layout of the primitive `name` -/
  | enum (p : Path) (i : ItemDef) (r : Resolved) (ed : EnumDefn) (name : String) (s a : Nat) :
      reg.get p = some i → i.cat = .defined → i.state = .res r → r.inner = .enum ed →
      ed.ty = .raw [name] → (name, s, a) ∈ primLayout → Lay reg (.item p) s a
  /-- an emitted struct (`Emit.typeItems`; generated vftable structs are ordinary items of this kind):
      `#[repr(C, packed)]` or `#[repr(C, align(r.align))]`, one field per region of the resolved
      definition – source fields, `[u8; n]` padding, the vftable pointer, function pointers – each
      with the layout the compiler computes *recursively* for its type -/
  | struct (p : Path) (i : ItemDef) (r : Resolved) (td : TypeDefn) (flds : List RustSem.Fld) :
      reg.get p = some i → i.cat = .defined → i.state = .res r → r.inner = .type td →
      flds.length = td.regions.length →
      (∀ k (h1 : k < td.regions.length) (h2 : k < flds.length),
        Lay reg (.rty (td.regions[k]).ty) (flds[k]).size (flds[k]).align) →
      Lay reg (.item p)
        (RustSem.structSize td.packed (if td.packed then none else some r.align) flds)
        (RustSem.structAlign td.packed (if td.packed then none else some r.align) flds)
  /-- a named type has its item's layout -/
  | raw (p : Path) (s a : Nat) : Lay reg (.item p) s a → Lay reg (.ty (.raw p)) s a
  | cptr (t : DTy) : Lay reg (.ty (.cptr t)) reg.ps reg.ps
  | mptr (t : DTy) : Lay reg (.ty (.mptr t)) reg.ps reg.ps
  /-- `[T; n]`: `n` elements, the element's alignment -/
  | arr (t : DTy) (n s a : Nat) : Lay reg (.ty t) s a → Lay reg (.ty (.arr t n)) (s * n) a
  | data (t : DTy) (s a : Nat) : Lay reg (.ty t) s a → Lay reg (.rty (.data t)) s a
  /-- a function pointer is pointer-sized -/
  | fn (cc : CC) (args : List (String × DTy)) (ret : Option DTy) : Lay reg (.rty (.fn cc args ret)) reg.ps reg.ps

/-- `Compiled reg p s a`: the modelled compiler gives the item emitted for registry path `p` size `s`
    and alignment `a`, computing the layouts of the types of its fields recursively -/
abbrev Compiled (reg : Registry) (p : Path) (s a : Nat) : Prop := Lay reg (.item p) s a

/-- the same for a type expression -/
abbrev TyCompiled (reg : Registry) (t : DTy) (s a : Nat) : Prop := Lay reg (.ty t) s a

/-- … and for the type of a region (field) -/
abbrev RTyCompiled (reg : Registry) (t : RTy) (s a : Nat) : Prop := Lay reg (.rty t) s a

/-- **the exclusion**: `Tainted reg n` – `n` is `void`, or contains `void` *by value* (through struct
    fields and arrays, not through pointers).  pyxis resolves `void` with size 0 and emits it as
    `c_void` (size 1), so for these items the recorded layout is not the compiled one
    (`Props/C02Global.lean`, `sound_unrestricted_refuted`). -/
inductive Tainted (reg : Registry) : Node → Prop
  | void : Tainted reg (.item ["void"])
  | raw (p : Path) : Tainted reg (.item p) → Tainted reg (.ty (.raw p))
  | arr (t : DTy) (n : Nat) : Tainted reg (.ty t) → Tainted reg (.ty (.arr t n))
  | data (t : DTy) : Tainted reg (.ty t) → Tainted reg (.rty (.data t))
  | struct (p : Path) (i : ItemDef) (r : Resolved) (td : TypeDefn) (rg : Region) :
      reg.get p = some i → i.state = .res r → r.inner = .type td → rg ∈ td.regions →
      Tainted reg (.rty rg.ty) → Tainted reg (.item p)

/-- the item at `p` is `void` or embeds `void` by value -/
abbrev EmbedsVoid (reg : Registry) (p : Path) : Prop := Tainted reg (.item p)

/-- **registry-wide soundness**: every resolved item of the registry – predefined, extern, enum,
    struct, generated vftable struct – has, for the modelled compiler working recursively from the
    emitted definitions, the size and alignment pyxis recorded for it; the only items excluded are
    `void` and the items that embed `void` by value.

    Two auxiliary invariants are carried along because the induction needs them:
    `prims` – the names of the predefined types still denote them (nobody replaced `u8`; this is what
    `enum_sound` calls `hreg`), `unres` – every unresolved entry is a definition (category `defined`). -/
structure RegSound (s : State) : Prop where
  prims : ∀ nm ∈ predefinedTypes, s.reg.get [nm.1] = some (predefItem nm)
  unres : ∀ p i d, s.reg.get p = some i → i.state = .unres d → i.cat = .defined
  items : ∀ p i r, s.reg.get p = some i → i.state = .res r →
    Compiled s.reg p r.size r.align ∨ EmbedsVoid s.reg p

/-- the unrestricted statement (only `void` itself excluded, as in `init_sound`); FALSE in general:
    see `sound_unrestricted_refuted` -/
def RegSoundAll (s : State) : Prop :=
  ∀ p i r, s.reg.get p = some i → i.state = .res r → p ≠ ["void"] → Compiled s.reg p r.size r.align

/-- by-value dependencies of a region's type -/
def byValueR : RTy → List Path
  | .data t => C09.byValue t
  | .fn .. => []

/-- no region of a resolved type has `void` as its by-value core (`void`, `[void; n]`, …);
    pointers to `void` are fine -/
def NoVoidByValue (reg : Registry) : Prop :=
  ∀ p i r td rg, reg.get p = some i → i.state = .res r → r.inner = .type td → rg ∈ td.regions →
    ["void"] ∉ byValueR rg.ty

/-! ## Lemma part -/

/-! ### registry extension -/

/-- `r'` keeps every entry of `r` up to its state, and every resolved entry exactly -/
structure Ext (r r' : Registry) : Prop where
  ps : r'.ps = r.ps
  keep : ∀ p i, r.get p = some i → ∃ i', r'.get p = some i' ∧ i'.cat = i.cat ∧ (i.isResolved = true → i' = i)

theorem Ext.refl (r : Registry) : Ext r r := ⟨rfl, fun _ i h => ⟨i, h, rfl, fun _ => rfl⟩⟩

theorem Ext.trans {r1 r2 r3 : Registry} (h1 : Ext r1 r2) (h2 : Ext r2 r3) : Ext r1 r3 := by
  refine ⟨h2.ps.trans h1.ps, ?_⟩
  intro p i hi
  obtain ⟨i', g1, c1, e1⟩ := h1.keep p i hi
  obtain ⟨i'', g2, c2, e2⟩ := h2.keep p i' g1
  refine ⟨i'', g2, c2.trans c1, ?_⟩
  intro hr
  have := e1 hr
  subst this
  exact e2 hr

theorem isResolved_of_res {i : ItemDef} {r : Resolved} (h : i.state = .res r) : i.isResolved = true := by
  simp [ItemDef.isResolved, ItemDef.resolved?, h]

theorem Ext.res' {r r' : Registry} (h : Ext r r') {p : Path} {i : ItemDef}
    (hi : r.get p = some i) (hs : i.isResolved = true) : r'.get p = some i := by
  obtain ⟨i', g, _, e⟩ := h.keep p i hi
  rw [g, e hs]

theorem Ext.res {r r' : Registry} (h : Ext r r') {p : Path} {i : ItemDef} {res : Resolved}
    (hi : r.get p = some i) (hs : i.state = .res res) : r'.get p = some i := by
  obtain ⟨i', g, _, e⟩ := h.keep p i hi
  rw [g, e (isResolved_of_res hs)]

theorem Ext.cat {r r' : Registry} (h : Ext r r') {p : Path} {i : ItemDef}
    (hi : r.get p = some i) : ∃ i', r'.get p = some i' ∧ i'.cat = i.cat := by
  obtain ⟨i', g, c, _⟩ := h.keep p i hi
  exact ⟨i', g, c⟩

/-- the judgement is monotone: resolved entries never change -/
theorem Lay.mono {r r' : Registry} (he : Ext r r') {n : Node} {s a : Nat} (h : Lay r n s a) : Lay r' n s a := by
  induction h with
  | prim name i s a hg hc hr hm => exact Lay.prim name i s a (he.res' hg hr) hc hr hm
  | void i hg hc hr => exact Lay.void i (he.res' hg hr) hc hr
  | «extern» p i res hg hc hs => exact Lay.extern p i res (he.res hg hs) hc hs
  | «enum» p i res ed name s a hg hc hs hin hty hm =>
    exact Lay.enum p i res ed name s a (he.res hg hs) hc hs hin hty hm
  | struct p i res td flds hg hc hs hin hlen _ ih =>
    exact Lay.struct p i res td flds (he.res hg hs) hc hs hin hlen ih
  | raw p s a _ ih => exact Lay.raw p s a ih
  | cptr t => rw [← he.ps]; exact Lay.cptr t
  | mptr t => rw [← he.ps]; exact Lay.mptr t
  | arr t n s a _ ih => exact Lay.arr t n s a ih
  | data t s a _ ih => exact Lay.data t s a ih
  | fn cc args ret => rw [← he.ps]; exact Lay.fn cc args ret

theorem Tainted.mono {r r' : Registry} (he : Ext r r') {n : Node} (h : Tainted r n) : Tainted r' n := by
  induction h with
  | void => exact Tainted.void
  | raw p _ ih => exact Tainted.raw p ih
  | arr t n _ ih => exact Tainted.arr t n ih
  | data t _ ih => exact Tainted.data t ih
  | struct p i res td rg hg hs hin hm _ ih => exact Tainted.struct p i res td rg (he.res hg hs) hs hin hm ih

/-! ### an invariant of all placed regions (source and padding) -/

theorem push_all {β} (P : Placed β → Prop) (st st' : St β) (sz : Res (Option Nat))
    (al : Option Nat) (arr : Bool) (src : Option β) (h : push st sz al arr src = .ok st')
    (hinv : ∀ pl ∈ st.1, P pl) (hnew : ∀ s, sz = .ok (some s) → P ⟨s, al, src⟩) :
    ∀ pl ∈ st'.1, P pl := by
  obtain ⟨s, hs, rfl⟩ := C01.push_ok_inv _ _ _ _ _ _ h
  intro pl hpl
  rcases List.mem_append.mp hpl with hpl | hpl
  · exact hinv pl hpl
  · unfold C01.reg at hpl
    split at hpl
    · cases hpl
    · simp only [List.mem_singleton] at hpl
      subst hpl
      exact hnew s hs

theorem place_all {β} (P : Placed β → Prop) (hpad : ∀ n, P ⟨n, some 1, none⟩)
    (st st' : St β) (fields : List (PField β)) (h : place st fields = .ok st')
    (hinv : ∀ pl ∈ st.1, P pl) (hf : ∀ f ∈ fields, ∀ s, f.size = .ok (some s) → P ⟨s, f.align, some f.val⟩) :
    ∀ pl ∈ st'.1, P pl := by
  induction fields generalizing st with
  | nil => simp only [place] at h; cases h; exact hinv
  | cons f fs ih =>
    have hfs : ∀ g ∈ fs, ∀ s, g.size = .ok (some s) → P ⟨s, g.align, some g.val⟩ :=
      fun g hg => hf g (by simp [hg])
    rcases C01.place_cons_inv st st' f fs h with ⟨_, st2, h2, h3⟩ | ⟨a, _, _, st1, st2, h1, h2, h3⟩
    · exact ih st2 h3 (push_all P st st2 _ _ _ _ h2 hinv (hf f (by simp))) hfs
    · exact ih st2 h3 (push_all P st1 st2 _ _ _ _ h2
        (push_all P st st1 _ _ _ _ h1 hinv (fun n _ => hpad n)) (hf f (by simp))) hfs

theorem resolve_all {β} (P : Placed β → Prop) (hpad : ∀ n, P ⟨n, some 1, none⟩)
    (vptr : Option (PField β)) (fields : List (PField β)) (target : Option Nat)
    (placed : List (Placed β)) (size : Nat) (h : resolve vptr fields target = .ok (placed, size))
    (hv : ∀ v, vptr = some v → ∀ s, v.size = .ok (some s) → P ⟨s, v.align, some v.val⟩)
    (hf : ∀ f ∈ fields, ∀ s, f.size = .ok (some s) → P ⟨s, f.align, some f.val⟩) :
    ∀ pl ∈ placed, P pl := by
  obtain ⟨st0, st1, st2, h0, h1, h2, rfl, _, _⟩ := C01.resolve_inv vptr fields target placed size h
  have i0 : ∀ pl ∈ st0.1, P pl := by
    cases vptr with
    | none => cases h0; intro pl hpl; cases hpl
    | some v => exact push_all P ([], 0) st0 _ _ _ _ h0 (fun pl hpl => by cases hpl) (hv v rfl)
  have i1 := place_all P hpad st0 st1 fields h1 i0 hf
  unfold padTail at h2
  split at h2
  · split at h2
    · exact push_all P st1 st2 _ _ _ _ h2 i1 (fun n _ => hpad _)
    · cases h2; exact i1
  · cases h2; exact i1

/-- every placed region is a source region carrying `Type::size` / `Type::alignment` of its type, or a
    `[u8; n]` padding region of size `n` and alignment 1 -/
theorem placed_kinds (reg : Registry) (vptr : Option Region) (pending : List (Option Nat × Region))
    (target : Option Nat) (placed : List (Placed Region)) (size : Nat)
    (h : resolve (vptr.map (toPField reg none)) (pending.map fun p => toPField reg p.1 p.2) target = .ok (placed, size)) :
    ∀ pl ∈ placed,
      (∃ rg, pl.src = some rg ∧ rg.ty.size reg = .ok (some pl.size) ∧ rg.ty.align reg = pl.align) ∨
      (pl.src = none ∧ pl.align = some 1) := by
  refine resolve_all _ (fun n => Or.inr ⟨rfl, rfl⟩) _ _ _ _ _ h ?_ ?_
  · intro v hv s hs
    cases vptr with
    | none => cases hv
    | some r =>
      simp only [Option.map_some, Option.some.injEq] at hv
      subst hv
      exact Or.inl ⟨r, rfl, hs, rfl⟩
  · intro f hf s hs
    obtain ⟨p, _, rfl⟩ := List.mem_map.mp hf
    exact Or.inl ⟨p.2, rfl, hs, rfl⟩

/-! ### from recorded layouts to compiled layouts -/

/-- the `items` clause of `RegSound`, on a bare registry -/
def ItemsSound (reg : Registry) : Prop :=
  ∀ p i r, reg.get p = some i → i.state = .res r → Lay reg (.item p) r.size r.align ∨ Tainted reg (.item p)

def PrimsOk (reg : Registry) : Prop := ∀ nm ∈ predefinedTypes, reg.get [nm.1] = some (predefItem nm)

theorem resolved?_eq {i : ItemDef} {r : Resolved} (h : i.resolved? = some r) : i.state = .res r := by
  unfold ItemDef.resolved? at h
  split at h
  · next r' hr => cases h; exact hr
  · cases h

/-- the size and alignment pyxis computes for a type expression are the ones the compiler computes
    recursively – unless the expression contains `void` by value -/
theorem ty_sound (reg : Registry) (hit : ItemsSound reg) (t : DTy) (s a : Nat)
    (hs : t.size reg = .ok (some s)) (ha : t.align reg = some a) :
    Lay reg (.ty t) s a ∨ Tainted reg (.ty t) := by
  induction t generalizing s with
  | raw p =>
    simp only [DTy.size, DTy.align, Res.ok.injEq] at hs ha
    cases hg : reg.get p with
    | none => simp [hg] at hs
    | some i =>
      simp only [hg, Option.bind_some] at hs ha
      cases hr : i.resolved? with
      | none => simp [hr] at hs
      | some r =>
        simp only [hr, Option.map_some, Option.some.injEq] at hs ha
        subst hs; subst ha
        rcases hit p i r hg (resolved?_eq hr) with h | h
        · exact Or.inl (Lay.raw p _ _ h)
        · exact Or.inr (Tainted.raw p h)
  | cptr t _ =>
    simp only [DTy.size, DTy.align, Res.ok.injEq, Option.some.injEq] at hs ha
    subst hs; subst ha
    exact Or.inl (Lay.cptr t)
  | mptr t _ =>
    simp only [DTy.size, DTy.align, Res.ok.injEq, Option.some.injEq] at hs ha
    subst hs; subst ha
    exact Or.inl (Lay.mptr t)
  | arr t n ih =>
    simp only [DTy.size, DTy.align] at hs ha
    split at hs
    · rename_i s' hs'
      split at hs
      · simp only [Res.ok.injEq, Option.some.injEq] at hs
        subst hs
        rcases ih s' hs' ha with h | h
        · exact Or.inl (Lay.arr t n s' a h)
        · exact Or.inr (Tainted.arr t n h)
      · cases hs
    · rename_i hne
      exact absurd hs (hne s)

theorem rty_sound (reg : Registry) (hit : ItemsSound reg) (t : RTy) (s a : Nat)
    (hs : t.size reg = .ok (some s)) (ha : t.align reg = some a) :
    Lay reg (.rty t) s a ∨ Tainted reg (.rty t) := by
  cases t with
  | data t =>
    rcases ty_sound reg hit t s a hs ha with h | h
    · exact Or.inl (Lay.data t s a h)
    · exact Or.inr (Tainted.data t h)
  | fn cc args ret =>
    simp only [RTy.size, RTy.align, Res.ok.injEq, Option.some.injEq] at hs ha
    subst hs; subst ha
    exact Or.inl (Lay.fn cc args ret)

theorem paddingType_eq (reg : Registry) (n : Nat) (t : DTy) (h : reg.paddingType n = .ok t) :
    t = .arr (.raw ["u8"]) n := by
  unfold Registry.paddingType Registry.resolveString at h
  simp only [List.filter_nil, List.reverse_nil, List.find?_nil, List.map_cons, List.nil_append, List.map_nil,
    List.find?_cons] at h
  split at h
  · next t0 ht0 =>
    cases h
    split at ht0
    · next p hp =>
      cases ht0
      split at hp
      · cases hp; rfl
      · cases hp
    · cases ht0
  · cases h

theorem predefItem_resolved (nm : String × Nat) : (predefItem nm).isResolved = true := rfl

/-- the padding type `[u8; n]` has size `n` and alignment 1 for the compiler -/
theorem padding_lay (reg : Registry) (hp : PrimsOk reg) (n : Nat) : Lay reg (.ty (.arr (.raw ["u8"]) n)) n 1 := by
  have h := Lay.arr (reg := reg) (.raw ["u8"]) n 1 1
    (Lay.raw ["u8"] 1 1 (Lay.prim "u8" _ 1 1 (hp ("u8", 1) (by decide)) rfl rfl (by decide)))
  rw [Nat.one_mul] at h
  exact h

/-- the fields of the emitted struct – the named regions – have for the compiler the layouts pyxis
    placed them with, unless one of them contains `void` by value -/
theorem regions_sound (reg : Registry) (hp : PrimsOk reg) (hit : ItemsSound reg)
    (vptr : Option Region) (pending : List (Option Nat × Region))
    (target : Option Nat) (placed : List (Placed Region)) (size : Nat)
    (h : resolve (vptr.map (toPField reg none)) (pending.map fun p => toPField reg p.1 p.2) target = .ok (placed, size))
    (regions : List Region) (hn : nameRegions reg 0 placed = .ok regions) :
    regions.length = placed.length ∧
    ∀ k (h1 : k < regions.length) (h2 : k < (placed.map C01.toFld).length),
      Lay reg (.rty (regions[k]).ty) ((placed.map C01.toFld)[k]).size ((placed.map C01.toFld)[k]).align ∨
      Tainted reg (.rty (regions[k]).ty) := by
  obtain ⟨hlen, hnamed⟩ := C01.nameRegions_types_lem reg 0 placed regions hn
  refine ⟨hlen, ?_⟩
  intro k h1 h2
  have hk : k < placed.length := by rw [← hlen]; exact h1
  have hna := hnamed k hk h1
  have hkind := placed_kinds reg vptr pending target placed size h placed[k] (List.getElem_mem hk)
  simp only [List.getElem_map, C01.toFld]
  unfold C01.NamedAs at hna
  rcases hkind with ⟨rg, hsrc, hsz, hal⟩ | ⟨hsrc, hal⟩
  · simp only [hsrc] at hna
    rw [hna.1]
    obtain ⟨a, ha⟩ : ∃ a, rg.ty.align reg = some a := by
      have := Mono.ralign_of_size reg rg.ty _ hsz
      exact Option.isSome_iff_exists.mp this
    rw [← hal, ha]
    exact rty_sound reg hit rg.ty _ a hsz ha
  · simp only [hsrc] at hna
    obtain ⟨t, ht, hty, _⟩ := hna
    rw [hty, hal, paddingType_eq reg _ t ht]
    exact Or.inl (Lay.data _ _ _ (padding_lay reg hp _))

/-! ### the generic step: old entries are kept, new or changed entries are sound -/

theorem RegSound.step {s s' : State} (h : RegSound s) (he : Ext s.reg s'.reg)
    (hnew : ∀ p i, s'.reg.get p = some i → s.reg.get p = some i ∨
      ((∀ d, i.state = .unres d → i.cat = .defined) ∧
       (∀ r, i.state = .res r → Lay s'.reg (.item p) r.size r.align ∨ Tainted s'.reg (.item p)))) :
    RegSound s' := by
  refine ⟨?_, ?_, ?_⟩
  · intro nm hnm
    exact he.res' (h.prims nm hnm) (predefItem_resolved nm)
  · intro p i d hg hd
    rcases hnew p i hg with ho | hn
    · exact h.unres p i d ho hd
    · exact hn.1 d hd
  · intro p i r hg hr
    rcases hnew p i hg with ho | hn
    · rcases h.items p i r ho hr with h1 | h1
      · exact Or.inl (h1.mono he)
      · exact Or.inr (h1.mono he)
    · exact hn.2 r hr

/-- `RegSound` looks at the registry only -/
theorem RegSound.of_reg {s s' : State} (h : RegSound s) (e : s'.reg = s.reg) : RegSound s' := by
  refine ⟨?_, ?_, ?_⟩
  · rw [e]; exact h.prims
  · rw [e]; exact h.unres
  · rw [e]; exact h.items

/-- `add_item` of an item whose key is free or already holds that very item -/
theorem addItem_ext (s s' : State) (i : ItemDef) (h : s.addItem i = .ok s')
    (hfree : s.reg.get i.path = none ∨ s.reg.get i.path = some i) :
    Ext s.reg s'.reg ∧ ∀ p j, s'.reg.get p = some j → s.reg.get p = some j ∨ (p = i.path ∧ j = i) := by
  have hreg := C14.addItem_reg s s' i h
  refine ⟨⟨by rw [hreg]; rfl, ?_⟩, ?_⟩
  · intro p j hj
    rw [hreg, C14.get_add]
    by_cases hp : p = i.path
    · subst hp
      rw [if_pos rfl]
      rcases hfree with hf | hf
      · rw [hf] at hj; cases hj
      · rw [hf] at hj; cases hj; exact ⟨i, rfl, rfl, fun _ => rfl⟩
    · rw [if_neg hp]; exact ⟨j, hj, rfl, fun _ => rfl⟩
  · intro p j hj
    rw [hreg, C14.get_add] at hj
    by_cases hp : p = i.path
    · rw [if_pos hp] at hj; cases hj; exact Or.inr ⟨hp, rfl⟩
    · rw [if_neg hp] at hj; exact Or.inl hj

theorem addItem_sound (s s' : State) (i : ItemDef) (hs : RegSound s) (h : s.addItem i = .ok s')
    (hfree : s.reg.get i.path = none ∨ s.reg.get i.path = some i)
    (hu : ∀ d, i.state = .unres d → i.cat = .defined)
    (hr : ∀ r, i.state = .res r → Lay s'.reg (.item i.path) r.size r.align ∨ Tainted s'.reg (.item i.path)) :
    RegSound s' := by
  obtain ⟨he, hn⟩ := addItem_ext s s' i h hfree
  refine hs.step he ?_
  intro p j hj
  rcases hn p j hj with ho | ⟨rfl, rfl⟩
  · exact Or.inl ho
  · exact Or.inr ⟨hu, hr⟩

/-! ### `SemanticState::new` -/

theorem fold_get_inv (l : List (String × Nat)) (s : State) (hm : (s.getModule []).isSome = true)
    (p : Path) (i : ItemDef) (h : (l.foldl newStep s).reg.get p = some i) :
    (∃ nm ∈ l, p = [nm.1] ∧ i = predefItem nm) ∨ s.reg.get p = some i := by
  induction l generalizing s with
  | nil => exact Or.inr h
  | cons x l ih =>
    obtain ⟨h1, h2⟩ := newStep_spec s x hm
    simp only [List.foldl_cons] at h
    rcases ih (newStep s x) h1 h with ⟨nm, hnm, e1, e2⟩ | ho
    · exact Or.inl ⟨nm, List.mem_cons_of_mem _ hnm, e1, e2⟩
    · rw [h2, C14.get_add] at ho
      by_cases hp : p = (predefItem x).path
      · rw [if_pos hp] at ho
        cases ho
        exact Or.inl ⟨x, List.mem_cons_self, hp, rfl⟩
      · rw [if_neg hp] at ho
        exact Or.inr ho

theorem new_get_inv (ps : Nat) (p : Path) (i : ItemDef) (h : (State.new ps).reg.get p = some i) :
    ∃ nm ∈ predefinedTypes, p = [nm.1] ∧ i = predefItem nm := by
  rw [new_eq] at h
  rcases fold_get_inv predefinedTypes _ rfl p i h with h | h
  · exact h
  · cases h

theorem init_sound' : ∀ e ∈ predefinedTypes, e.1 = "void" ∨ (e.1, e.2, predefinedAlign e.2) ∈ primLayout := by
  decide

theorem new_sound_lem (ps : Nat) : RegSound (State.new ps) := by
  refine ⟨fun nm hnm => new_get ps nm hnm, ?_, ?_⟩
  · intro p i d hg hd
    obtain ⟨nm, _, _, rfl⟩ := new_get_inv ps p i hg
    cases hd
  · intro p i r hg hr
    obtain ⟨nm, hnm, rfl, rfl⟩ := new_get_inv ps p i hg
    simp only [predefItem, IState.res.injEq] at hr
    subst hr
    rcases init_sound' nm hnm with hv | hl
    · right
      rw [hv]
      exact Tainted.void
    · left
      exact Lay.prim nm.1 _ _ _ hg rfl rfl hl

/-! ### `add_module` -/

theorem contains_false_get {r : Registry} {p : Path} (h : r.contains p = false) : r.get p = none := by
  unfold Registry.contains at h
  cases hg : r.get p with
  | none => rfl
  | some i => simp [hg] at h

theorem defStep_sound (path : Path) (s s' : State) (d : G.Item) (hs : RegSound s)
    (h : C14.defStep path s d = .ok s') : RegSound s' := by
  unfold C14.defStep at h
  split at h
  · cases h
  · next hc =>
    refine addItem_sound s s' _ hs h (Or.inl (contains_false_get (by simpa using hc))) ?_ ?_
    · intro _ _; rfl
    · intro r hr; cases hr

theorem addExtern_sound (s s' : State) (i : ItemDef) (r : Resolved) (hs : RegSound s) (h : s.addItem i = .ok s')
    (hfree : s.reg.get i.path = none) (hst : i.state = .res r) (hc : i.cat = .extern) : RegSound s' := by
  have hreg := C14.addItem_reg s s' i h
  refine addItem_sound s s' i hs h (Or.inl hfree) ?_ ?_
  · intro d hd; rw [hst] at hd; cases hd
  · intro r' hr
    left
    refine Lay.extern i.path i r' ?_ hc hr
    rw [hreg]
    exact get_add_same _ _

theorem xtypeStep_sound (path : Path) (s s' : State) (xt : String × List G.Attr) (hs : RegSound s)
    (h : C14.xtypeStep path s xt = .ok s') : RegSound s' := by
  unfold C14.xtypeStep at h
  split at h
  · split at h
    · cases h
    · split at h
      · cases h
      · split at h
        · cases h
        · split at h
          · cases h
          · next hc =>
            exact addExtern_sound s s' _ _ hs h (contains_false_get (by simpa using hc)) rfl rfl
  · exact (C14.cast_ne_ok _ _ h).elim

/-- `add_module` keeps registry-wide soundness: definitions enter unresolved, extern types with the
    layout they declare -/
theorem addModule_sound_lem (s s' : State) (m : G.Module) (path : Path) (hs : RegSound s)
    (h : s.addModule m path = .ok s') : RegSound s' := by
  obtain ⟨xvals, doc, s2, _, h1, h2⟩ := C14.addModule_inv s s' m path h
  have k0 : RegSound (s.putModule path (C14.newMod m path xvals doc)) := hs.of_reg rfl
  have k2 : RegSound s2 :=
    (C12.PO.foldlM_inv (S := fun _ => True) RegSound (C14.defStep path) m.defs _ k0
      (fun b d _ hb => ⟨fun _ _ => trivial, fun b' hb' => defStep_sound path b b' d hb hb'⟩)).2 s2 h1
  exact (C12.PO.foldlM_inv (S := fun _ => True) RegSound (C14.xtypeStep path) m.xtypes _ k2
      (fun b xt _ hb => ⟨fun _ _ => trivial, fun b' hb' => xtypeStep_sound path b b' xt hb hb'⟩)).2 s' h2

/-! ### the generated vftable struct -/

/-- the only way a build step changes the state: the generated vftable item of `owner` is added, under
    a key that was free or already held that very item (`C10.Reach`, with the shape of the item) -/
def Reach2 (s s1 : State) (owner : Path) : Prop :=
  s1 = s ∨ ∃ vis fns item, buildVftableItem s.reg owner vis fns = some item ∧
    (s.reg.get item.path = none ∨ s.reg.get item.path = some item) ∧ s.addItem item = .ok s1

theorem buildVftable_reach2 (s : State) (owner : Path) (vis : Vis) (fb : Option Region)
    (vfns : Option (List SFunc)) : Reach2 s (buildVftable s owner vis fb vfns).1 owner := by
  cases vfns with
  | none => exact Or.inl rfl
  | some fns =>
    cases hi : buildVftableItem s.reg owner vis fns with
    | none => left; unfold buildVftable; simp only [hi]
    | some item =>
      cases hc : (match s.reg.get item.path with | some e => e != item | none => false) with
      | true =>
        left; unfold buildVftable; simp only [hi]
        rw [if_pos (by exact hc)]
      | false =>
        cases ha : s.addItem item with
        | ok s1 =>
          rw [C06.buildVftable_eq s s1 owner vis fb fns item hi hc ha]
          refine Or.inr ⟨vis, fns, item, hi, ?_, ha⟩
          cases hg : s.reg.get item.path with
          | none => exact Or.inl rfl
          | some ex =>
            rw [hg] at hc
            simp only [bne_eq_false_iff_eq] at hc
            exact Or.inr (by rw [hc])
        | defer =>
          left; unfold buildVftable; simp only [hi, ha]
          rw [if_neg (by rw [Bool.not_eq_true]; exact hc)]
        | err m =>
          left; unfold buildVftable; simp only [hi, ha]
          rw [if_neg (by rw [Bool.not_eq_true]; exact hc)]
        | panic m =>
          left; unfold buildVftable; simp only [hi, ha]
          rw [if_neg (by rw [Bool.not_eq_true]; exact hc)]

theorem resolveRegions_reach2 (s : State) (owner : Path) (vis : Vis) (target : Option Nat)
    (pending : List (Option Nat × Region)) (vfns : Option (List SFunc)) :
    Reach2 s (resolveRegions s owner vis target pending vfns).1 owner := by
  unfold resolveRegions
  simp only []
  split
  · exact Or.inl rfl
  · exact Or.inl rfl
  · exact Or.inl rfl
  · exact Or.inl rfl
  · split
    · next s1 vft vregion hb =>
      have := buildVftable_reach2 s owner vis ((pending.map (·.2)).find? (·.isBase)) vfns
      rw [hb] at this; exact this
    · next s1 e _ hb =>
      have := buildVftable_reach2 s owner vis ((pending.map (·.2)).find? (·.isBase)) vfns
      rw [hb] at this; exact this

theorem buildType_reach2 (s : State) (path : Path) (vis : Vis) (d : G.TypeDef) :
    Reach2 s (buildType s path vis d).1 path := by
  unfold buildType
  split
  · exact Or.inl rfl
  · split
    · exact Or.inl rfl
    · split
      · next ta _ =>
        split
        · next sa _ =>
          split
          · next s1 regions vft size placed hrr =>
            have := resolveRegions_reach2 s path vis ta.targetSize sa.pending sa.vfns
            rw [hrr] at this; exact this
          · next s1 e _ hrr =>
            have := resolveRegions_reach2 s path vis ta.targetSize sa.pending sa.vfns
            rw [hrr] at this; exact this
        · exact Or.inl rfl
      · exact Or.inl rfl

/-- the generated vftable struct: `slots` function pointers, `align(ps)` – `slots * ps` bytes for the
    compiler as for pyxis -/
theorem vftableItem_lay (reg reg' : Registry) (owner : Path) (vis : Vis) (fns : List SFunc) (item : ItemDef)
    (hps : 0 < reg.ps) (hps' : reg'.ps = reg.ps)
    (hi : buildVftableItem reg owner vis fns = some item) (hg : reg'.get item.path = some item) :
    ∃ r, item.state = .res r ∧ item.cat = .defined ∧ Lay reg' (.item item.path) r.size r.align := by
  unfold buildVftableItem at hi
  obtain ⟨q, _, rfl⟩ := Option.map_eq_some_iff.mp hi
  refine ⟨_, rfl, rfl, ?_⟩
  have hs := vftable_sound_lem reg.ps (fns.map (functionToRegion owner)).length hps
  have h := Lay.struct (reg := reg') _ _ _ { regions := fns.map (functionToRegion owner) }
    (List.replicate (fns.map (functionToRegion owner)).length ⟨reg.ps, reg.ps⟩) hg rfl rfl rfl
    (by simp) (by
      intro k h1 h2
      simp only [List.getElem_map, functionToRegion, List.getElem_replicate]
      rw [← hps']
      exact Lay.fn _ _ _)
  simp only [Bool.false_eq_true, if_false] at h
  rw [hs.1, hs.2] at h
  exact h

theorem reach2_sound {s s1 : State} {owner : Path} (hr : Reach2 s s1 owner) (hs : RegSound s)
    (hps : 0 < s.reg.ps) :
    RegSound s1 ∧ Ext s.reg s1.reg ∧ ∀ p i, s.reg.get p = some i → s1.reg.get p = some i := by
  rcases hr with rfl | ⟨vis, fns, item, hi, hfree, ha⟩
  · exact ⟨hs, Ext.refl _, fun _ _ h => h⟩
  · have hreg := C14.addItem_reg s s1 item ha
    have hg : s1.reg.get item.path = some item := by rw [hreg]; exact get_add_same _ _
    obtain ⟨r, hst, hcat, hl⟩ := vftableItem_lay s.reg s1.reg owner vis fns item hps (by rw [hreg]; rfl) hi hg
    refine ⟨?_, (addItem_ext s s1 item ha hfree).1, ?_⟩
    · refine addItem_sound s s1 item hs ha hfree (fun _ _ => hcat) ?_
      intro r' hr'
      rw [hst] at hr'
      cases hr'
      exact Or.inl hl
    · intro p i hp
      rw [hreg, C14.get_add]
      by_cases e : p = item.path
      · subst e
        rw [if_pos rfl]
        rcases hfree with hf | hf
        · rw [hf] at hp; cases hp
        · rw [hf] at hp; exact hp
      · rw [if_neg e]; exact hp

/-! ### one resolution attempt -/

theorem setState_ext (r : Registry) (p : Path) (res : Resolved) (i : ItemDef) (d : G.Item)
    (hi : r.get p = some i) (hu : i.state = .unres d) : Ext r (r.setState p (.res res)) := by
  refine ⟨rfl, ?_⟩
  intro q j hq
  rw [C12.get_setState]
  by_cases e : q = p
  · subst e
    rw [if_pos rfl, hq]
    rw [hi] at hq
    cases hq
    refine ⟨_, rfl, rfl, ?_⟩
    intro hr
    simp [ItemDef.isResolved, ItemDef.resolved?, hu] at hr
  · rw [if_neg e]
    exact ⟨j, hq, rfl, fun _ => rfl⟩

/-- storing the result of a successful attempt: sound if the result is -/
theorem setState_sound (s : State) (p : Path) (res : Resolved) (i : ItemDef) (d : G.Item) (hs : RegSound s)
    (hi : s.reg.get p = some i) (hu : i.state = .unres d)
    (hl : Lay (s.reg.setState p (.res res)) (.item p) res.size res.align ∨
          Tainted (s.reg.setState p (.res res)) (.item p)) :
    RegSound { s with reg := s.reg.setState p (.res res) } := by
  refine hs.step (setState_ext s.reg p res i d hi hu) ?_
  intro q j hq
  simp only [C12.get_setState] at hq
  by_cases e : q = p
  · subst e
    rw [if_pos rfl, hi] at hq
    simp only [Option.map_some, Option.some.injEq] at hq
    subst hq
    right
    refine ⟨fun d' hd' => (by cases hd'), ?_⟩
    intro r' hr'
    simp only [IState.res.injEq] at hr'
    subst hr'
    exact hl
  · rw [if_neg e] at hq
    exact Or.inl hq

/-- a newly resolved struct: the compiled layout of the emitted struct is the resolved one, by
    `regions_sound` for the fields and `struct_sound` for the struct -/
theorem buildType_lay (s s1 : State) (p : Path) (vis : Vis) (td : G.TypeDef) (r : Resolved) (i : ItemDef) (d : G.Item)
    (hs1 : RegSound s1) (hb : buildType s p vis td = (s1, .ok r))
    (hi : s1.reg.get p = some i) (hu : i.state = .unres d) :
    Lay (s1.reg.setState p (.res r)) (.item p) r.size r.align ∨ Tainted (s1.reg.setState p (.res r)) (.item p) := by
  obtain ⟨module, ta, sa, regions, vft, placed, tdn, _, hrr, hal, hin, hreg, hpk⟩ :=
    C01.buildType_inv s s1 p vis td r hb
  obtain ⟨vregion, hres, hname⟩ := C01.resolveRegions_inv _ _ _ _ _ _ _ _ _ _ _ hrr
  obtain ⟨hlen, hflds⟩ := regions_sound s1.reg hs1.prims hs1.items vregion sa.pending ta.targetSize placed r.size
    hres regions hname
  have he := setState_ext s1.reg p r i d hi hu
  have hcat : i.cat = .defined := hs1.unres p i d hi hu
  have hg : (s1.reg.setState p (.res r)).get p = some { i with state := .res r } := by
    rw [C12.get_setState, if_pos rfl, hi]; rfl
  obtain ⟨e1, e2, _⟩ := struct_sound_lem s1.reg.ps ta.packed ta.align _ _ ta.targetSize placed r.size r.align hres hal
  by_cases hT : ∃ k, ∃ h1 : k < regions.length, Tainted s1.reg (.rty (regions[k]).ty)
  · obtain ⟨k, h1, ht⟩ := hT
    right
    refine Tainted.struct p _ r tdn regions[k] hg rfl hin ?_ (ht.mono he)
    rw [hreg]
    exact List.getElem_mem h1
  · left
    have h := Lay.struct (reg := s1.reg.setState p (.res r)) p _ r tdn (placed.map C01.toFld) hg hcat rfl hin
      (by rw [hreg, hlen]; simp) (by
        intro k h1 h2
        have h1' : k < regions.length := by rw [← hreg]; exact h1
        have e : tdn.regions[k] = regions[k] := by simp only [hreg]
        rw [e]
        rcases hflds k h1' h2 with hl | ht
        · exact hl.mono he
        · exact absurd ⟨k, h1', ht⟩ hT)
    rw [hpk, e1, e2] at h
    exact h

theorem buildEnum_lay (s : State) (p : Path) (ed : G.EnumDef) (r : Resolved) (i : ItemDef) (d : G.Item)
    (hs : RegSound s) (hb : buildEnum s p ed = .ok r)
    (hi : s.reg.get p = some i) (hu : i.state = .unres d) :
    Lay (s.reg.setState p (.res r)) (.item p) r.size r.align := by
  have hreg : ∀ e ∈ C08.intTypes, s.reg.get [e.1] = (State.new s.reg.ps).reg.get [e.1] := by
    intro e he
    obtain ⟨sz, hpre, _⟩ := int_layout e.1 (List.mem_map.mpr ⟨e, he, rfl⟩)
    rw [hs.prims (e.1, sz) hpre, new_get s.reg.ps (e.1, sz) hpre]
  obtain ⟨edn, name, hin, hty, hm⟩ := enum_sound_lem s p ed r hreg hb
  have hg : (s.reg.setState p (.res r)).get p = some { i with state := .res r } := by
    rw [C12.get_setState, if_pos rfl, hi]; rfl
  exact Lay.enum p _ r edn name _ _ hg (hs.unres p i d hi hu) rfl hin hty hm

theorem buildType_sound (s : State) (p : Path) (vis : Vis) (td : G.TypeDef) (hs : RegSound s) (hps : 0 < s.reg.ps) :
    RegSound (buildType s p vis td).1 ∧ ∀ q i, s.reg.get q = some i → (buildType s p vis td).1.reg.get q = some i := by
  obtain ⟨h1, _, h3⟩ := reach2_sound (buildType_reach2 s p vis td) hs hps
  exact ⟨h1, h3⟩

theorem attemptItem_sound (s : State) (p : Path) (hps : 0 < s.reg.ps) (hs : RegSound s) :
    RegSound (attemptItem s p).1 := by
  unfold attemptItem
  split
  · exact hs
  · next item hget =>
    split
    · exact hs
    · next d hd =>
      split
      · next td htd =>
        have sh := buildType_sound s p d.vis td hs hps
        split
        · next s1 r hb =>
          rw [hb] at sh
          have hi := sh.2 p item hget
          exact setState_sound s1 p r item d sh.1 hi hd (buildType_lay s s1 p d.vis td r item d sh.1 hb hi hd)
        · next s1 hb => rw [hb] at sh; exact sh.1
        · next s1 m hb => rw [hb] at sh; exact sh.1
        · next s1 m hb => rw [hb] at sh; exact sh.1
      · next ed _ =>
        split
        · next r hb =>
          exact setState_sound s p r item d hs hget hd (Or.inl (buildEnum_lay s p ed r item d hs hb hget hd))
        · exact hs
        · exact hs
        · exact hs

theorem ps_pos_of_ok {s : State} (hs : C12.StateOk s) : 0 < s.reg.ps :=
  C01.isPow2_pos _ hs.reg.ps_pow2

/-! ### rounds, the resolution loop, `build`, whole cases -/

theorem runRound_sound (l : List Path) (s : State) (hs : C12.StateOkB s) (h : RegSound s) :
    RegSound (runRound s l).1 := by
  induction l generalizing s with
  | nil => exact h
  | cons p ps ih =>
    have h1 := C12.attemptItem_ok s p hs
    have h2 := attemptItem_sound s p (ps_pos_of_ok hs.ok) h
    unfold runRound
    split
    · next s1 ha => rw [ha] at h1 h2; exact ih s1 h1 h2
    · next s1 e _ ha => rw [ha] at h2; exact h2

theorem resolveLoop_sound (prio : List Path) (fuel : Nat) (s : State) (hs : C12.StateOkB s) (h : RegSound s)
    (s' : State) (hl : resolveLoop prio fuel s = .ok s') : RegSound s' := by
  induction fuel generalizing s with
  | zero => simp [resolveLoop] at hl
  | succ n ih =>
    unfold resolveLoop at hl
    simp only [] at hl
    split at hl
    · cases hl; exact h
    · have hr := C12.runRound_shape (s.reg.unresolved prio) s hs
      have hr2 := runRound_sound (s.reg.unresolved prio) s hs h
      split at hl
      · next s1 h1 =>
        rw [h1] at hr hr2
        split at hl
        · cases hl
        · exact ih s1 hr.1 hr2 hl
      · cases hl
      · cases hl
      · cases hl

theorem build_sound_lem (s : State) (prio : List Path) (hs : C12.StateOkB s) (h : RegSound s)
    (s' : State) (hb : s.build prio = .ok s') : RegSound s' := by
  obtain ⟨s1, hl, ms, _, rfl⟩ := C09.build_ok_inv s prio s' hb
  exact (resolveLoop_sound prio _ s hs h s1 hl).of_reg rfl

theorem initialState_sound (c : Case) (hps : c.ps = 4 ∨ c.ps = 8) (hb : C12.CaseBounded c) (s : State)
    (h : c.initialState = .ok s) : C12.StateOkB s ∧ RegSound s := by
  unfold Case.initialState at h
  refine (C12.PO.foldlM_inv (S := fun _ => True) (fun s => C12.StateOkB s ∧ RegSound s) _ c.modules _
    ⟨C12.new_okB c.ps hps, new_sound_lem c.ps⟩ ?_).2 s h
  intro b me hme hbI
  cases me with
  | ast path file m =>
    exact ⟨fun _ _ => trivial, fun b' hb' =>
      ⟨C12.addModule_okB b b' m path hbI.1 (hb path file m hme) hb', addModule_sound_lem b b' m path hbI.2 hb'⟩⟩
  | text f t => exact ⟨fun _ _ => trivial, fun _ h => by cases h⟩

theorem case_sound_lem (c : Case) (hps : c.ps = 4 ∨ c.ps = 8) (hb : C12.CaseBounded c) (s : State)
    (h : c.run = .ok s) : RegSound s := by
  unfold Case.run at h
  split at h
  · next s0 hs0 =>
    obtain ⟨h1, h2⟩ := initialState_sound c hps hb s0 hs0
    exact build_sound_lem s0 c.prio h1 h2 s h
  · cases h
  · cases h
  · cases h

/-! ### without `void` by value, nothing is excluded -/

theorem tainted_core (reg : Registry) (hv : NoVoidByValue reg) {n : Node} (h : Tainted reg n) :
    match n with
    | .item p => p = ["void"]
    | .ty t => ["void"] ∈ C09.byValue t
    | .rty t => ["void"] ∈ byValueR t := by
  induction h with
  | void => rfl
  | raw p _ ih =>
    simp only at ih
    simp only [C09.byValue, List.mem_singleton]
    exact ih.symm
  | arr t n _ ih => simpa only [C09.byValue] using ih
  | data t _ ih => simpa only [byValueR] using ih
  | struct p i res td rg hg hs hin hm _ ih =>
    exact absurd ih (hv p i res td rg hg hs hin hm)

theorem voidfree_lem (s : State) (hs : RegSound s) (hv : NoVoidByValue s.reg) : RegSoundAll s := by
  intro p i r hg hr hne
  rcases hs.items p i r hg hr with h | h
  · exact h
  · exact absurd (tainted_core s.reg hv h) hne

/-- a decidable test for `NoVoidByValue` -/
def noVoidB (reg : Registry) : Bool :=
  reg.types.all fun e =>
    match e.2.state with
    | .res r =>
      match r.inner with
      | .type td => td.regions.all fun rg => !(byValueR rg.ty).contains ["void"]
      | .enum _ => true
    | .unres _ => true

theorem noVoidB_sound (reg : Registry) (h : noVoidB reg = true) : NoVoidByValue reg := by
  intro p i r td rg hg hs hin hm
  have hmem := C14.mem_of_lookup reg.types p i hg
  unfold noVoidB at h
  rw [List.all_eq_true] at h
  have := h (p, i) hmem
  simp only [hs, hin, List.all_eq_true] at this
  have := this rg hm
  simpa using this

/-! ### inversion of the judgement (used for the counterexample) -/

theorem Lay.data_inv {reg : Registry} {t : DTy} {s a : Nat} (h : Lay reg (.rty (.data t)) s a) :
    Lay reg (.ty t) s a := by
  generalize hn : Node.rty (.data t) = n at h
  cases h <;> cases hn
  assumption

theorem Lay.raw_inv {reg : Registry} {p : Path} {s a : Nat} (h : Lay reg (.ty (.raw p)) s a) :
    Lay reg (.item p) s a := by
  generalize hn : Node.ty (.raw p) = n at h
  cases h <;> cases hn
  assumption

theorem Lay.void_inv {reg : Registry} {i : ItemDef} {s a : Nat} (h : Lay reg (.item ["void"]) s a)
    (hg : reg.get ["void"] = some i) (hc : i.cat = .predefined) : s = 1 ∧ a = 1 := by
  generalize hn : Node.item ["void"] = n at h
  cases h <;> cases hn
  · next i' h1 h2 h3 h4 => simp [primLayout] at h4
  · exact ⟨rfl, rfl⟩
  · next i' r hc' _ hg' => rw [hg] at hg'; cases hg'; rw [hc] at hc'; cases hc'
  · next i' r ed name hc' _ _ _ _ hg' => rw [hg] at hg'; cases hg'; rw [hc] at hc'; cases hc'
  · next i' r td flds hc' _ _ _ _ hg' => rw [hg] at hg'; cases hg'; rw [hc] at hc'; cases hc'

theorem Lay.struct_inv {reg : Registry} {p : Path} {i : ItemDef} {r : Resolved} {td : TypeDefn} {s a : Nat}
    (h : Lay reg (.item p) s a) (hg : reg.get p = some i) (hc : i.cat = .defined) (hs : i.state = .res r)
    (hin : r.inner = .type td) :
    ∃ flds : List RustSem.Fld, flds.length = td.regions.length ∧
      (∀ k (h1 : k < td.regions.length) (h2 : k < flds.length),
        Lay reg (.rty (td.regions[k]).ty) (flds[k]).size (flds[k]).align) ∧
      s = RustSem.structSize td.packed (if td.packed then none else some r.align) flds ∧
      a = RustSem.structAlign td.packed (if td.packed then none else some r.align) flds := by
  generalize hn : Node.item p = n at h
  cases h <;> cases hn
  · next i' hg' hc' _ _ => rw [hg] at hg'; cases hg'; rw [hc] at hc'; cases hc'
  · next i' hg' hc' _ => rw [hg] at hg'; cases hg'; rw [hc] at hc'; cases hc'
  · next i' r' hc' _ hg' => rw [hg] at hg'; cases hg'; rw [hc] at hc'; cases hc'
  · next i' r' ed name _ hs' hin' _ _ hg' =>
    rw [hg] at hg'; cases hg'; rw [hs] at hs'; cases hs'; rw [hin] at hin'; cases hin'
  · next i' r' td' flds _ hs' hin' hlen hf hg' =>
    rw [hg] at hg'; cases hg'; rw [hs] at hs'; cases hs'; rw [hin] at hin'; cases hin'
    exact ⟨flds, hlen, hf, rfl, rfl⟩

theorem alignUp_ge (o a : Nat) : o ≤ RustSem.alignUp o a := by
  unfold RustSem.alignUp
  split
  · exact Nat.le_refl _
  · next ha =>
    have h1 := Nat.div_add_mod (o + a - 1) a
    have h2 := Nat.mod_lt (o + a - 1) (Nat.pos_of_ne_zero ha)
    rw [Nat.mul_comm] at h1
    omega

/-- a struct whose only field is one byte long is at least one byte long -/
theorem structSize_single_pos (packed : Bool) (al : Option Nat) (f : RustSem.Fld) (hf : f.size = 1) :
    0 < RustSem.structSize packed al [f] := by
  unfold RustSem.structSize
  refine Nat.lt_of_lt_of_le ?_ (alignUp_ge _ _)
  simp only [RustSem.endOf]
  split
  · omega
  · have := alignUp_ge 0 f.align
    omega

/-! ### the judgement is functional -/

theorem primLayout_fun : ∀ e1 ∈ primLayout, ∀ e2 ∈ primLayout, e1.1 = e2.1 → e1 = e2 := by decide

theorem prim_unique {name : String} {s a s' a' : Nat} (h1 : (name, s, a) ∈ primLayout) (h2 : (name, s', a') ∈ primLayout) :
    s = s' ∧ a = a' := by
  have := primLayout_fun _ h1 _ h2 rfl
  simp only [Prod.mk.injEq, true_and] at this
  exact this

theorem fld_ext (f g : RustSem.Fld) (h1 : f.size = g.size) (h2 : f.align = g.align) : f = g := by
  cases f; cases g; simp_all

/-- the judgement is functional: the compiler gives a node at most one layout -/
theorem Lay.unique {reg : Registry} {n : Node} {s a s' a' : Nat} (h1 : Lay reg n s a) (h2 : Lay reg n s' a') :
    s = s' ∧ a = a' := by
  induction h1 generalizing s' a' with
  | prim name i s a hg hc hr hm =>
    generalize hn : Node.item [name] = n at h2
    cases h2 <;> cases hn
    · next hm' => exact prim_unique hm hm'
    · simp [primLayout] at hm
    all_goals simp_all
  | void i hg hc hr =>
    generalize hn : Node.item ["void"] = n at h2
    cases h2 <;> cases hn
    · next i' h1 h2 h3 h4 => simp [primLayout] at h4
    · exact ⟨rfl, rfl⟩
    all_goals simp_all
  | «extern» p i res hg hc hs =>
    generalize hn : Node.item p = n at h2
    cases h2 <;> cases hn
    all_goals simp_all
  | «enum» p i res ed name s a hg hc hs hin hty hm =>
    generalize hn : Node.item p = n at h2
    cases h2 <;> cases hn
    iterate 3 simp_all
    · next i' r' ed' name' _ hs' hin' hty' hm' hg' =>
      rw [hg] at hg'; cases hg'; rw [hs] at hs'; cases hs'; rw [hin] at hin'; cases hin'
      rw [hty] at hty'; cases hty'
      exact prim_unique hm hm'
    · simp_all
  | struct p i res td flds hg hc hs hin hlen _ ih =>
    generalize hn : Node.item p = n at h2
    cases h2 <;> cases hn
    iterate 4 simp_all
    next i' r' td' flds' _ hs' hin' hlen' hf' hg' =>
    rw [hg] at hg'; cases hg'; rw [hs] at hs'; cases hs'; rw [hin] at hin'; cases hin'
    have e : flds = flds' := by
      apply List.ext_getElem (by omega)
      intro k h1 h2
      have := ih k (by omega) h1 (hf' k (by omega) h2)
      exact fld_ext _ _ this.1 this.2
    subst e
    exact ⟨rfl, rfl⟩
  | raw p s a _ ih => exact ih (Lay.raw_inv h2)
  | cptr t =>
    generalize hn : Node.ty (.cptr t) = n at h2
    cases h2 <;> cases hn
    exact ⟨rfl, rfl⟩
  | mptr t =>
    generalize hn : Node.ty (.mptr t) = n at h2
    cases h2 <;> cases hn
    exact ⟨rfl, rfl⟩
  | arr t n s a _ ih =>
    generalize hn : Node.ty (.arr t n) = m at h2
    cases h2 <;> cases hn
    next s2 h2 =>
    obtain ⟨rfl, rfl⟩ := ih h2
    exact ⟨rfl, rfl⟩
  | data t s a _ ih => exact ih (Lay.data_inv h2)
  | fn cc args ret =>
    generalize hn : Node.rty (.fn cc args ret) = n at h2
    cases h2 <;> cases hn
    exact ⟨rfl, rfl⟩

end PyxisVerif.C02
