import PyxisVerif.Lemmas.Mono
import PyxisVerif.Lemmas.C20
import PyxisVerif.Lemmas.C08
import PyxisVerif.Lemmas.C09Case
/-!
# C20, end to end: helper lemmas

`Props/C20E2E.lean` states that a description rewritten into an equivalent one gives the same
`Case.run` (hence the same O2 and O3).  This file has the simulation arguments.

* `RegSim r r'`: the two registries answer every lookup with the same item, except that the
  *definition stored in an unresolved entry* may differ.  Every reader of the registry that the
  builder and the backend use is invariant under `RegSim` (they only ever look at the resolved
  information of other items).
* `swapS p d d' s`: the state `s` with the unresolved entry `d` at key `p` replaced by `d'`.
  Every stage of the build commutes with it (`attemptItem_swap`, `runRound_swap`, `resolveLoop_swap`,
  `build_swap`, `addModule_swap`), provided the attempt on `d'` gives what the attempt on `d` gives in the
  states where the item is attempted; `run_replaced_on` / `run_replaced_ok` are the case-level results
  (invariant form / accepted-run form).
* the rewrites: `enumRewrite` (a), `sizeRewrite` (b), `addrRewrite` (c), `indexRewrite` (d), each with the
  lemma that lifts the inner no-op of `Lemmas/C20.lean` to `buildEnum` / `buildType`.
* `PermS s s'`: two states that differ in the order of the registry entries and of the modules'
  definition paths only; every stage of the build keeps it (`attemptItem_perm`, …, `build_perm`), and
  `add_module` of a module with permuted definitions establishes it (`defFold_perm`, by induction on the
  permutation) – rewrite (e).
-/
namespace PyxisVerif.C20
open Layout

/-! ## registries that agree up to the definitions stored in unresolved entries -/

/-- an item with the definition stored in an unresolved entry erased -/
def eraseI (i : ItemDef) : ItemDef :=
  match i.state with
  | .unres _ => { i with state := .unres default }
  | .res _ => i

theorem eraseI_resolved (i : ItemDef) : (eraseI i).resolved? = i.resolved? := by
  unfold eraseI ItemDef.resolved?
  cases h : i.state <;> simp [h]

theorem eraseI_vis (i : ItemDef) : (eraseI i).vis = i.vis := by
  unfold eraseI; cases i.state <;> rfl
theorem eraseI_path (i : ItemDef) : (eraseI i).path = i.path := by
  unfold eraseI; cases i.state <;> rfl
theorem eraseI_cat (i : ItemDef) : (eraseI i).cat = i.cat := by
  unfold eraseI; cases i.state <;> rfl

theorem eraseI_idem (i : ItemDef) : eraseI (eraseI i) = eraseI i := by
  unfold eraseI; cases h : i.state <;> simp [h]

/-- a resolved item is determined by its erasure -/
theorem eq_of_eraseI_res (i i' : ItemDef) (r : Resolved) (hi : i.state = .res r)
    (h : eraseI i' = eraseI i) : i' = i := by
  have e1 : eraseI i = i := by unfold eraseI; rw [hi]
  rw [e1] at h
  cases hs : i'.state with
  | res r' => have : eraseI i' = i' := by unfold eraseI; rw [hs]
              rw [this] at h; exact h
  | unres d =>
    have : (eraseI i').state = .unres default := by unfold eraseI; rw [hs]
    rw [h, hi] at this
    cases this

structure RegSim (r r' : Registry) : Prop where
  ps : r'.ps = r.ps
  len : r'.types.length = r.types.length
  get : ∀ q, (r'.get q).map eraseI = (r.get q).map eraseI

theorem RegSim.refl (r : Registry) : RegSim r r := ⟨rfl, rfl, fun _ => rfl⟩

theorem RegSim.symm {r r' : Registry} (h : RegSim r r') : RegSim r' r :=
  ⟨h.ps.symm, h.len.symm, fun q => (h.get q).symm⟩

/-- the resolved information under a key is the same -/
theorem RegSim.res {r r' : Registry} (h : RegSim r r') (q : Path) :
    (r'.get q).map (·.resolved?) = (r.get q).map (·.resolved?) := by
  have := congrArg (Option.map (·.resolved?)) (h.get q)
  simp only [Option.map_map] at this
  have e : (ItemDef.resolved? ∘ eraseI) = ItemDef.resolved? := by
    funext i; exact eraseI_resolved i
  have e' : ((fun x : ItemDef => x.resolved?) ∘ eraseI) = (fun x : ItemDef => x.resolved?) := e
  rw [e'] at this
  exact this

theorem RegSim.contains {r r' : Registry} (h : RegSim r r') (q : Path) : r'.contains q = r.contains q := by
  have := congrArg Option.isSome (h.get q)
  simpa [Registry.contains] using this

variable {r r' : Registry}

theorem dsize_sim (h : RegSim r r') (t : DTy) : t.size r' = t.size r := by
  induction t with
  | raw p =>
    have := h.res p
    simp only [DTy.size]
    cases h1 : r'.get p <;> cases h2 : r.get p <;> rw [h1, h2] at this <;> simp at this ⊢
    rw [this]
  | cptr t _ => simp only [DTy.size, h.ps]
  | mptr t _ => simp only [DTy.size, h.ps]
  | arr t n ih => simp only [DTy.size, ih]

theorem dalign_sim (h : RegSim r r') (t : DTy) : t.align r' = t.align r := by
  induction t with
  | raw p =>
    have := h.res p
    simp only [DTy.align]
    cases h1 : r'.get p <;> cases h2 : r.get p <;> rw [h1, h2] at this <;> simp at this ⊢
    rw [this]
  | cptr t _ => simp only [DTy.align, h.ps]
  | mptr t _ => simp only [DTy.align, h.ps]
  | arr t n ih => simp only [DTy.align, ih]

theorem rsize_sim (h : RegSim r r') (t : RTy) : t.size r' = t.size r := by
  cases t with
  | data t => exact dsize_sim h t
  | fn cc args ret => simp only [RTy.size, h.ps]

theorem ralign_sim (h : RegSim r r') (t : RTy) : t.align r' = t.align r := by
  cases t with
  | data t => exact dalign_sim h t
  | fn cc args ret => simp only [RTy.align, h.ps]

theorem toPField_sim (h : RegSim r r') : toPField r' = toPField r := by
  funext addr reg
  simp only [toPField, rsize_sim h, ralign_sim h]

theorem regionNameAndTypeDef_sim (h : RegSim r r') (reg : Region) :
    regionNameAndTypeDef r' reg = regionNameAndTypeDef r reg := by
  unfold regionNameAndTypeDef
  split
  · rfl
  · split
    · next p _ =>
      have := h.res p
      cases h1 : r'.get p <;> cases h2 : r.get p <;> rw [h1, h2] at this <;> simp at this ⊢
      rw [this]
    · rfl

theorem baseVftable_sim (h : RegSim r r') (fb : Option Region) : baseVftable r' fb = baseVftable r fb := by
  unfold baseVftable
  cases fb with
  | none => rfl
  | some b => simp only [regionNameAndTypeDef_sim h]

theorem injectBases_sim (h : RegSim r r') : injectBases r' = injectBases r := by
  funext regions acc
  unfold injectBases
  simp only [regionNameAndTypeDef_sim h]

theorem checkDefaultable_sim (h : RegSim r r') : checkDefaultable r' = checkDefaultable r := by
  funext regions
  unfold checkDefaultable
  congr 1
  funext u reg
  split
  · rfl
  · next p _ =>
    have := h.res p
    cases h1 : r'.get p <;> cases h2 : r.get p <;> rw [h1, h2] at this <;> simp at this ⊢
    rw [this]

theorem buildVftableItem_sim (h : RegSim r r') : buildVftableItem r' = buildVftableItem r := by
  funext owner vis fns
  simp only [buildVftableItem, h.ps]


/-! ## the backend and the O2 observation under `RegSim` -/

theorem dfsHierarchy_sim (h : RegSim r r') (fuel : Nat) (td : TypeDefn) (fields : List String) :
    Emit.dfsHierarchy r' fuel td fields = Emit.dfsHierarchy r fuel td fields := by
  induction fuel generalizing td fields with
  | zero => rfl
  | succ n ih => simp only [Emit.dfsHierarchy, regionNameAndTypeDef_sim h, ih]

theorem typeItems_sim (h : RegSim r r') : Emit.typeItems r' = Emit.typeItems r := by
  funext path size align vis td
  simp only [Emit.typeItems, dfsHierarchy_sim h, h.len]

theorem itemItems_sim (h : RegSim r r') : Emit.itemItems r' = Emit.itemItems r := by
  funext i
  simp only [Emit.itemItems, typeItems_sim h]

theorem itemItems_erase (r : Registry) (i : ItemDef) : Emit.itemItems r (eraseI i) = Emit.itemItems r i := by
  simp only [Emit.itemItems, eraseI_cat, eraseI_resolved, eraseI_path, eraseI_vis]

abbrev pathLe : ItemDef → ItemDef → Bool := fun a b => Path.le a.path b.path

theorem sortBy_eraseI (l : List ItemDef) :
    (Emit.sortBy pathLe l).map eraseI = Emit.sortBy pathLe (l.map eraseI) := by
  unfold Emit.sortBy
  apply List.map_mergeSort
  intro a _ b _
  simp only [pathLe, eraseI_path]

theorem filterMap_get_erase (h : RegSim r r') (ps : List Path) :
    (ps.filterMap r'.get).map eraseI = (ps.filterMap r.get).map eraseI := by
  simp only [List.map_filterMap, h.get]

theorem defs_flatMap_sim (h : RegSim r r') (ps : List Path) :
    (Emit.sortBy pathLe (ps.filterMap r'.get)).flatMap (Emit.itemItems r')
      = (Emit.sortBy pathLe (ps.filterMap r.get)).flatMap (Emit.itemItems r) := by
  have e : ∀ (l : List ItemDef), (Emit.sortBy pathLe l).flatMap (Emit.itemItems r)
      = (Emit.sortBy pathLe (l.map eraseI)).flatMap (Emit.itemItems r) := by
    intro l
    rw [← sortBy_eraseI, List.flatMap_map]
    simp only [itemItems_erase]
  rw [itemItems_sim h, e (ps.filterMap r'.get), e (ps.filterMap r.get), filterMap_get_erase h]

theorem moduleFile_sim (s s' : State) (h : RegSim s.reg s'.reg) (key : Path) (m : Mod) :
    Emit.moduleFile s' key m = Emit.moduleFile s key m := by
  unfold Emit.moduleFile
  simp only []
  rw [defs_flatMap_sim h]

theorem files_sim (s s' : State) (hm : s'.modules = s.modules) (h : RegSim s.reg s'.reg) :
    Emit.files s' = Emit.files s := by
  unfold Emit.files
  simp only [hm, moduleFile_sim s s' h]

theorem itemS_erase (i : ItemDef) : Obs.itemS (eraseI i) = Obs.itemS i := by
  unfold Obs.itemS eraseI
  cases h : i.state <;> simp [h]

theorem isPredefined_erase (i : ItemDef) : (eraseI i).isPredefined = i.isPredefined := by
  simp only [ItemDef.isPredefined, eraseI_cat]

theorem resolvedS_sim (s s' : State) (hm : s'.modules = s.modules) (h : RegSim s.reg s'.reg) :
    Obs.resolvedS s' = Obs.resolvedS s := by
  have e : ∀ (l : List ItemDef), (Emit.sortBy pathLe (l.filter (!·.isPredefined))).map Obs.itemS
      = (Emit.sortBy pathLe ((l.map eraseI).filter (!·.isPredefined))).map Obs.itemS := by
    intro l
    have : (l.map eraseI).filter (!·.isPredefined) = (l.filter (!·.isPredefined)).map eraseI := by
      rw [List.filter_map]
      congr 1
      apply List.filter_congr
      intro x _
      simp only [Function.comp, isPredefined_erase]
    rw [this, ← sortBy_eraseI, List.map_map]
    congr 1
    funext i
    exact (itemS_erase i).symm
  have e2 : (s'.modules.flatMap fun e => e.2.defPaths.filterMap s'.reg.get).map eraseI
      = (s.modules.flatMap fun e => e.2.defPaths.filterMap s.reg.get).map eraseI := by
    simp only [List.map_flatMap, hm, filterMap_get_erase h]
  unfold Obs.resolvedS
  simp only []
  rw [e (s'.modules.flatMap fun e => e.2.defPaths.filterMap s'.reg.get),
      e (s.modules.flatMap fun e => e.2.defPaths.filterMap s.reg.get), e2, hm]


/-! ## replacing the definition stored in one unresolved entry -/

/-- `Res.map` -/
def mapR {α β} (f : α → β) : Res α → Res β
  | .ok a => .ok (f a)
  | .defer => .defer
  | .err m => .err m
  | .panic s => .panic s

section swap
variable (p : Path) (d d' : G.Item)

/-- the item under key `q`, with the stored definition `d` replaced by `d'` if `q` is the key `p` -/
def swapI (q : Path) (i : ItemDef) : ItemDef :=
  if q = p ∧ i.state = .unres d then { i with state := .unres d' } else i

def swapR (r : Registry) : Registry :=
  { r with types := r.types.map fun e => (e.1, swapI p d d' e.1 e.2) }

def swapS (s : State) : State := { s with reg := swapR p d d' s.reg }

theorem eraseI_swapI (q : Path) (i : ItemDef) : eraseI (swapI p d d' q i) = eraseI i := by
  unfold swapI
  split
  · next h => unfold eraseI; simp only [h.2]
  · rfl

theorem swapI_res (q : Path) (i : ItemDef) (x : Resolved) (h : i.state = .res x) : swapI p d d' q i = i := by
  unfold swapI
  rw [if_neg]
  rw [h]; simp

theorem swapI_isResolved (q : Path) (i : ItemDef) : (swapI p d d' q i).isResolved = i.isResolved := by
  simp only [ItemDef.isResolved, ← eraseI_resolved (swapI p d d' q i), eraseI_swapI, eraseI_resolved]

theorem swapI_isPredefined (q : Path) (i : ItemDef) : (swapI p d d' q i).isPredefined = i.isPredefined := by
  rw [← isPredefined_erase, eraseI_swapI, isPredefined_erase]

theorem get_swapR (r : Registry) (q : Path) : (swapR p d d' r).get q = (r.get q).map (swapI p d d' q) := by
  simp only [swapR, Registry.get]
  exact Mono.lookup_map_val (swapI p d d') r.types q

theorem swapR_sim (r : Registry) : RegSim r (swapR p d d' r) := by
  refine ⟨rfl, by simp [swapR], ?_⟩
  intro q
  rw [get_swapR, Option.map_map]
  congr 1
  funext i
  exact eraseI_swapI p d d' q i

theorem swapR_contains (r : Registry) (q : Path) : (swapR p d d' r).contains q = r.contains q :=
  (swapR_sim p d d' r).contains q

theorem swapR_add (r : Registry) (i : ItemDef) (hi : swapI p d d' i.path i = i) :
    (swapR p d d' r).add i = swapR p d d' (r.add i) := by
  simp only [swapR, Registry.add, List.map_cons, hi, List.filter_map]
  rfl

theorem swapR_setState (r : Registry) (q : Path) (x : Resolved) :
    (swapR p d d' r).setState q (.res x) = swapR p d d' (r.setState q (.res x)) := by
  simp only [swapR, Registry.setState, List.map_map]
  congr 1
  apply List.map_congr_left
  intro e _
  simp only [Function.comp]
  by_cases hk : (e.1 == q) = true
  · simp only [hk, if_true]
    rw [swapI_res p d d' e.1 { e.2 with state := .res x } x rfl]
    unfold swapI
    split <;> rfl
  · simp only [hk]
    rfl

theorem swapR_unresolved (r : Registry) (prio : List Path) :
    (swapR p d d' r).unresolved prio = r.unresolved prio := by
  unfold Registry.unresolved
  congr 1
  simp only [swapR, List.filter_map, List.map_map]
  have : ((fun e : Path × ItemDef => !e.2.isPredefined && !e.2.isResolved) ∘
      fun e : Path × ItemDef => (e.1, swapI p d d' e.1 e.2))
      = fun e : Path × ItemDef => !e.2.isPredefined && !e.2.isResolved := by
    funext e
    simp only [Function.comp, swapI_isResolved, swapI_isPredefined]
  rw [this]
  rfl

theorem swapS_addItem (s : State) (i : ItemDef) (hi : swapI p d d' i.path i = i) :
    (swapS p d d' s).addItem i = mapR (swapS p d d') (s.addItem i) := by
  unfold State.addItem
  cases Path.parent? i.path with
  | none => rfl
  | some parent =>
    simp only []
    rw [show (swapS p d d' s).getModule parent = s.getModule parent from rfl]
    cases s.getModule parent with
    | none => rfl
    | some m =>
      simp only [mapR, swapS, swapR_add p d d' s.reg i hi]

theorem buildVftableItem_res (reg : Registry) (owner : Path) (vis : Vis) (fns : List SFunc) (item : ItemDef)
    (h : buildVftableItem reg owner vis fns = some item) : ∃ x, item.state = .res x := by
  unfold buildVftableItem at h
  obtain ⟨q, _, rfl⟩ := Option.map_eq_some_iff.mp h
  exact ⟨_, rfl⟩

theorem buildVftable_swap (s : State) (owner : Path) (vis : Vis) (fb : Option Region)
    (vfns : Option (List SFunc)) :
    buildVftable (swapS p d d' s) owner vis fb vfns
      = (swapS p d d' (buildVftable s owner vis fb vfns).1, (buildVftable s owner vis fb vfns).2) := by
  have hsim := swapR_sim p d d'
  cases vfns with
  | none =>
    simp only [buildVftable]
    rw [show (swapS p d d' s).reg = swapR p d d' s.reg from rfl, baseVftable_sim (hsim s.reg)]
  | some fns =>
    simp only [buildVftable]
    rw [show (swapS p d d' s).reg = swapR p d d' s.reg from rfl, buildVftableItem_sim (hsim s.reg)]
    cases hi : buildVftableItem s.reg owner vis fns with
    | none => rfl
    | some item =>
      simp only []
      obtain ⟨x, hx⟩ := buildVftableItem_res s.reg owner vis fns item hi
      rw [get_swapR]
      cases hg : s.reg.get item.path with
      | none =>
        simp only [Option.map_none, Bool.false_eq_true, if_false]
        rw [swapS_addItem p d d' s item (swapI_res p d d' _ item x hx)]
        cases ha : s.addItem item with
        | ok s1 =>
          simp only [mapR]
          rw [show (swapS p d d' s1).reg = swapR p d d' s1.reg from rfl, baseVftable_sim (hsim s1.reg)]
        | _ => rfl
      | some e =>
        have hb : (swapI p d d' item.path e != item) = (e != item) := by
          unfold swapI
          split
          · next hc =>
            have h1 : e ≠ item := by intro h; rw [h, hx] at hc; cases hc.2
            have h2 : ({ e with state := IState.unres d' } : ItemDef) ≠ item := by
              intro h; rw [← h] at hx; cases hx
            rw [bne_iff_ne.mpr h1, bne_iff_ne.mpr h2]
          · rfl
        simp only [Option.map_some, hb]
        split
        · rfl
        · rw [swapS_addItem p d d' s item (swapI_res p d d' _ item x hx)]
          cases ha : s.addItem item with
          | ok s1 =>
            simp only [mapR]
            rw [show (swapS p d d' s1).reg = swapR p d d' s1.reg from rfl, baseVftable_sim (hsim s1.reg)]
          | _ => rfl

end swap

section swap2
variable (p : Path) (d d' : G.Item)

theorem swapS_reg (s : State) : (swapS p d d' s).reg = swapR p d d' s.reg := rfl
theorem swapS_moduleFor (s : State) (q : Path) : (swapS p d d' s).moduleFor q = s.moduleFor q := rfl

theorem resolveRegions_swap (s : State) (owner : Path) (vis : Vis) (target : Option Nat)
    (pending : List (Option Nat × Region)) (vfns : Option (List SFunc)) :
    resolveRegions (swapS p d d' s) owner vis target pending vfns
      = (swapS p d d' (resolveRegions s owner vis target pending vfns).1,
         (resolveRegions s owner vis target pending vfns).2) := by
  have hsim := swapR_sim p d d'
  unfold resolveRegions
  simp only [swapS_reg, rsize_sim (hsim s.reg)]
  split
  · rfl
  · rfl
  · rfl
  · rfl
  · rw [buildVftable_swap]
    cases hb : buildVftable s owner vis ((pending.map (·.2)).find? (·.isBase)) vfns with
    | mk s1 res =>
      cases res with
      | ok x =>
        obtain ⟨vft, vregion⟩ := x
        simp only [swapS_reg, toPField_sim (hsim s1.reg),
          Mono.nameRegions_fun s1.reg (swapR p d d' s1.reg) (swapR_contains p d d' s1.reg)]
      | _ => rfl

theorem buildType_swap (s : State) (q : Path) (vis : Vis) (td : G.TypeDef) :
    buildType (swapS p d d' s) q vis td
      = (swapS p d d' (buildType s q vis td).1, (buildType s q vis td).2) := by
  have hsim := swapR_sim p d d'
  unfold buildType
  simp only [swapS_moduleFor]
  split
  · rfl
  · split
    · rfl
    · split
      · simp only [swapS_reg, Mono.stmtStep_fun s.reg (swapR p d d' s.reg) (swapR_contains p d d' s.reg)]
        split
        · next sa _ =>
          rw [resolveRegions_swap]
          cases hr : resolveRegions s q vis _ sa.pending sa.vfns with
          | mk s1 res =>
            cases res with
            | ok x =>
              obtain ⟨regions, vft, size, placed⟩ := x
              simp only [swapS_reg, swapS_moduleFor, injectBases_sim (hsim s1.reg),
                checkDefaultable_sim (hsim s1.reg),
                Mono.addImplFns_fun s1.reg (swapR p d d' s1.reg) (swapR_contains p d d' s1.reg),
                (hsim s1.reg).ps]
            | _ => rfl
        · rfl
      · rfl

theorem buildEnum_sim (s s' : State) (hm : s'.modules = s.modules) (h : RegSim s.reg s'.reg) (q : Path)
    (ed : G.EnumDef) : buildEnum s' q ed = buildEnum s q ed := by
  unfold buildEnum
  rw [Mono.moduleFor_congr s s' hm q]
  simp only [Mono.resolveTy_fun s.reg s'.reg h.contains, dsize_sim h, dalign_sim h]

theorem buildEnum_swap (s : State) (q : Path) (ed : G.EnumDef) :
    buildEnum (swapS p d d' s) q ed = buildEnum s q ed :=
  buildEnum_sim s (swapS p d d' s) rfl (swapR_sim p d d' s.reg) q ed

end swap2

/-! ## one attempt, as a function of the stored definition -/

/-- what `attemptItem` computes from the definition stored in an unresolved entry -/
def attemptDef (s : State) (p : Path) (d : G.Item) : State × Res Resolved :=
  match d.inner with
  | .type td => buildType s p d.vis td
  | .enum ed => (s, buildEnum s p ed)

/-- … and what it does with the answer -/
def finishAttempt (p : Path) : State × Res Resolved → State × Res Unit
  | (s1, .ok r) => ({ s1 with reg := s1.reg.setState p (.res r) }, .ok ())
  | (s1, .defer) => (s1, .ok ())
  | (s1, .err m) => (s1, .err m)
  | (s1, .panic m) => (s1, .panic m)

theorem attemptItem_eq (s : State) (p : Path) :
    attemptItem s p =
      match s.reg.get p with
      | none => (s, .err "failed to get type")
      | some item =>
        match item.state with
        | .res _ => (s, .ok ())
        | .unres d => finishAttempt p (attemptDef s p d) := by
  unfold attemptItem attemptDef
  cases s.reg.get p with
  | none => rfl
  | some item =>
    simp only []
    cases item.state with
    | res _ => rfl
    | unres d =>
      simp only []
      cases d.inner with
      | type td =>
        simp only []
        cases buildType s p d.vis td with
        | mk s1 res => cases res <;> rfl
      | enum ed =>
        simp only []
        cases buildEnum s p ed <;> rfl

section swap3
variable (p : Path) (d d' : G.Item)

theorem attemptDef_swap (s : State) (q : Path) (d0 : G.Item) :
    attemptDef (swapS p d d' s) q d0 = (swapS p d d' (attemptDef s q d0).1, (attemptDef s q d0).2) := by
  unfold attemptDef
  cases d0.inner with
  | type td => exact buildType_swap p d d' s q d0.vis td
  | enum ed => simp only [buildEnum_swap]

theorem finishAttempt_swap (q : Path) (x : State × Res Resolved) :
    finishAttempt q (swapS p d d' x.1, x.2) = (swapS p d d' (finishAttempt q x).1, (finishAttempt q x).2) := by
  obtain ⟨s1, res⟩ := x
  cases res with
  | ok r =>
    simp only [finishAttempt, swapS, swapR_setState]
  | _ => rfl

/-- one attempt commutes with the replacement, if in this state the attempt on `d'` at `p` gives what the
    attempt on `d` gives -/
theorem attemptItem_swap (s : State) (q : Path)
    (he : ∀ i, q = p → s.reg.get p = some i → i.state = .unres d → attemptDef s p d' = attemptDef s p d) :
    attemptItem (swapS p d d' s) q = (swapS p d d' (attemptItem s q).1, (attemptItem s q).2) := by
  rw [attemptItem_eq, attemptItem_eq, swapS_reg, get_swapR]
  cases hg : s.reg.get q with
  | none => rfl
  | some item =>
    simp only [Option.map_some]
    unfold swapI
    by_cases hc : q = p ∧ item.state = .unres d
    · rw [if_pos hc]
      obtain ⟨hq, hst⟩ := hc
      subst hq
      simp only [hst]
      rw [attemptDef_swap, he item rfl hg hst, finishAttempt_swap]
    · rw [if_neg hc]
      cases hst : item.state with
      | res x => rfl
      | unres d0 =>
        simp only []
        rw [attemptDef_swap, finishAttempt_swap]

end swap3

/-- `BuildOutcome.map` -/
def mapO (f : State → State) : BuildOutcome → BuildOutcome
  | .ok s => .ok (f s)
  | .nonterm l => .nonterm l
  | .err m => .err m
  | .panic m => .panic m
  | .fuel => .fuel

theorem runRound_cons_ok (s s1 : State) (q : Path) (qs : List Path) (h : attemptItem s q = (s1, .ok ())) :
    runRound s (q :: qs) = runRound s1 qs := by
  rw [runRound, h]

theorem runRound_cons_stop (s s1 : State) (q : Path) (qs : List Path) (e : Res Unit)
    (h : attemptItem s q = (s1, e)) (he : e ≠ .ok ()) : runRound s (q :: qs) = (s1, e) := by
  rw [runRound, h]
  cases e with
  | ok u => exact (he rfl).elim
  | _ => rfl

theorem resolveXVals_sim {r r' : Registry} (h : RegSim r r') : resolveXVals r' = resolveXVals r := by
  funext m
  simp only [resolveXVals, Mono.resolveTy_fun r r' h.contains]

section swap4
variable (p : Path) (d d' : G.Item)

/-- in the state `s`, the attempt on `d'` at `p` gives what the attempt on `d` gives -/
def EqAt (s : State) : Prop :=
  ∀ i, s.reg.get p = some i → i.state = .unres d → attemptDef s p d' = attemptDef s p d

theorem attemptItem_swap' (s : State) (q : Path) (he : EqAt p d d' s) :
    attemptItem (swapS p d d' s) q = (swapS p d d' (attemptItem s q).1, (attemptItem s q).2) :=
  attemptItem_swap p d d' s q (fun i _ hg hs => he i hg hs)

theorem runRound_swap (I : State → Prop) (hI : ∀ s q, I s → I (attemptItem s q).1)
    (hE : ∀ s, I s → EqAt p d d' s) (l : List Path) (s : State) (hs : I s) :
    runRound (swapS p d d' s) l = (swapS p d d' (runRound s l).1, (runRound s l).2) ∧ I (runRound s l).1 := by
  induction l generalizing s with
  | nil => exact ⟨rfl, hs⟩
  | cons q qs ih =>
    have hsw := attemptItem_swap' p d d' s q (hE s hs)
    have h2 := hI s q hs
    cases ha : attemptItem s q with
    | mk s2 r2 =>
      rw [ha] at h2 hsw
      cases r2 with
      | ok u =>
        cases u
        rw [runRound_cons_ok _ _ q qs hsw, runRound_cons_ok _ _ q qs ha]
        exact ih s2 h2
      | defer =>
        rw [runRound_cons_stop _ _ q qs _ hsw (by simp), runRound_cons_stop _ _ q qs _ ha (by simp)]
        exact ⟨rfl, h2⟩
      | err m =>
        rw [runRound_cons_stop _ _ q qs _ hsw (by simp), runRound_cons_stop _ _ q qs _ ha (by simp)]
        exact ⟨rfl, h2⟩
      | panic m =>
        rw [runRound_cons_stop _ _ q qs _ hsw (by simp), runRound_cons_stop _ _ q qs _ ha (by simp)]
        exact ⟨rfl, h2⟩

theorem swapR_length (r : Registry) : (swapR p d d' r).types.length = r.types.length := by
  simp [swapR]

theorem resolveLoop_swap (I : State → Prop) (hI : ∀ s q, I s → I (attemptItem s q).1)
    (hE : ∀ s, I s → EqAt p d d' s) (prio : List Path) (fuel : Nat) (s : State) (hs : I s) :
    resolveLoop prio fuel (swapS p d d' s) = mapO (swapS p d d') (resolveLoop prio fuel s) := by
  induction fuel generalizing s with
  | zero => rfl
  | succ n ih =>
    unfold resolveLoop
    simp only [swapS_reg, swapR_unresolved]
    split
    · rfl
    · obtain ⟨h1, h2⟩ := runRound_swap p d d' I hI hE (s.reg.unresolved prio) s hs
      rw [h1]
      cases hr : runRound s (s.reg.unresolved prio) with
      | mk s1 res =>
        rw [hr] at h2
        cases res with
        | ok u =>
          cases u
          simp only [swapS_reg, swapR_unresolved, swapR_length]
          split
          · rfl
          · exact ih s1 h2
        | _ => rfl

theorem swapR_nItems (r : Registry) :
    ((swapR p d d' r).types.filter fun e => !e.2.isResolved).length
      = (r.types.filter fun e => !e.2.isResolved).length := by
  simp only [swapR, List.filter_map, List.length_map]
  congr 2
  funext e
  simp only [Function.comp, swapI_isResolved]

theorem build_swap (I : State → Prop) (hI : ∀ s q, I s → I (attemptItem s q).1)
    (hE : ∀ s, I s → EqAt p d d' s) (prio : List Path) (s : State) (hs : I s) :
    (swapS p d d' s).build prio = mapO (swapS p d d') (s.build prio) := by
  unfold State.build
  simp only [swapS_reg, swapR_nItems]
  rw [resolveLoop_swap p d d' I hI hE prio _ s hs]
  cases resolveLoop prio (2 * (s.reg.types.filter fun e => !e.2.isResolved).length + 2) s with
  | ok s1 =>
    simp only [mapO, swapS_reg, resolveXVals_sim (swapR_sim p d d' s1.reg)]
    rw [show (swapS p d d' s1).modules = s1.modules from rfl]
    cases Res.mapM' (fun (e : Path × Mod) =>
        match resolveXVals s1.reg e.2 with
        | .ok m => Res.ok (e.1, m)
        | x => x.cast) s1.modules <;> rfl
  | _ => rfl

end swap4

/-! ## `add_module` and the initial state -/

theorem foldlM_mapR_inv {α β} (f : β → α → Res β) (g : β → β) (J : β → Prop)
    (hJ : ∀ b a b', J b → f b a = .ok b' → J b')
    (h : ∀ b a, J b → f (g b) a = mapR g (f b a)) (l : List α) (b : β) (hb : J b) :
    Res.foldlM f (g b) l = mapR g (Res.foldlM f b l) := by
  induction l generalizing b with
  | nil => rfl
  | cons a l ih =>
    simp only [Res.foldlM]
    rw [h b a hb]
    cases hf : f b a with
    | ok b' => exact ih b' (hJ b a b' hb hf)
    | _ => rfl

theorem foldlM_inv' {α β} (f : β → α → Res β) (J : β → Prop)
    (hJ : ∀ b a b', J b → f b a = .ok b' → J b') (l : List α) (b b' : β) (hb : J b)
    (h : Res.foldlM f b l = .ok b') : J b' := by
  induction l generalizing b with
  | nil => cases h; exact hb
  | cons a l ih =>
    simp only [Res.foldlM] at h
    cases hf : f b a with
    | ok b1 => rw [hf] at h; exact ih b1 (hJ b a b1 hb hf) h
    | _ => rw [hf] at h; cases h

theorem mapR_bind {α} (g : α → α) (x : Res α) (k k' : α → Res α) (hk : ∀ a, k' (g a) = mapR g (k a)) :
    Res.bind (mapR g x) k' = mapR g (Res.bind x k) := by
  cases x with
  | ok a => exact hk a
  | _ => rfl

theorem bind_of_not_ok {α} (x : Res α) (F : α → Res α) (h : ∀ a, x = .ok a → False) : x = Res.bind x F := by
  cases x with
  | ok a => exact (h a rfl).elim
  | _ => rfl

theorem cast_mapR {α β} (x : Res α) (g : β → β) (h : ∀ a, x = .ok a → False) :
    (x.cast : Res β) = mapR g x.cast := by
  cases x with
  | ok a => exact (h a rfl).elim
  | _ => rfl

/-- the part of `add_module` that touches the registry -/
def addCore (path : Path) (s1 : State) (defs : List G.Item) (xtypes : List (String × List G.Attr)) : Res State :=
  Res.bind (Res.foldlM (C14.defStep path) s1 defs) (fun s2 => Res.foldlM (C14.xtypeStep path) s2 xtypes)

/-- a type definition (as opposed to an enum) -/
def isTypeDef (d : G.Item) : Bool := match d.inner with | .type _ => true | .enum _ => false

/-- the test on the `impl` blocks of a module -/
def implCheck (m : G.Module) : Bool :=
  m.impls.any (fun b => !(m.defs.any fun d => d.name == b.name && isTypeDef d))

theorem addModule_eq (s : State) (m : G.Module) (path : Path) :
    s.addModule m path =
      Res.bind (Res.mapM' C14.xvalStep m.xvals) (fun xvals =>
        Res.bind (match G.docOf m.attrs with
                  | none => Res.err "doc attribute must be a string literal"
                  | some doc => Res.ok doc) (fun doc =>
          if implCheck m then .err "impl block does not belong to a type defined in that module"
          else addCore path (s.putModule path (C14.newMod m path xvals doc)) m.defs m.xtypes)) := by
  unfold State.addModule
  change (match Res.mapM' C14.xvalStep m.xvals with | .ok xvals => _ | e => e.cast) = _
  cases Res.mapM' C14.xvalStep m.xvals with
  | ok xvals =>
    simp only [Res.bind]
    cases G.docOf m.attrs with
    | none => rfl
    | some doc =>
      simp only []
      change (if implCheck m = true then _ else _) = _
      by_cases hc : implCheck m = true
      · rw [if_pos hc, if_pos hc]
      · rw [if_neg hc, if_neg hc]
        unfold addCore C14.newMod
        change (match Res.foldlM (C14.defStep path) _ m.defs with | .ok s2 => _ | e => e) = _
        split
        · next s2 h2 => rw [h2]; rfl
        · next e hne => exact bind_of_not_ok _ _ hne
  | _ => rfl

theorem addItem_contains (s s' : State) (i : ItemDef) (q : Path) (h : s.addItem i = .ok s')
    (hq : s.reg.contains q = true) : s'.reg.contains q = true := by
  rw [C14.addItem_reg s s' i h]
  exact (C14.contains_add s.reg i q).mpr (Or.inl hq)

theorem defStep_contains (path : Path) (s s' : State) (d0 : G.Item) (q : Path) (hq : s.reg.contains q = true)
    (h : C14.defStep path s d0 = .ok s') : s'.reg.contains q = true := by
  obtain ⟨_, i, _, hi⟩ := C14.defStep_spec path s d0 s' h
  exact addItem_contains s s' i q hi hq

theorem xtypeStep_contains (path : Path) (s s' : State) (xt : String × List G.Attr) (q : Path)
    (hq : s.reg.contains q = true) (h : C14.xtypeStep path s xt = .ok s') : s'.reg.contains q = true := by
  obtain ⟨_, i, _, hi⟩ := C14.xtypeStep_spec path s xt s' h
  exact addItem_contains s s' i q hi hq

theorem addCore_contains (path : Path) (s s' : State) (defs : List G.Item) (xtypes : List (String × List G.Attr))
    (q : Path) (hq : s.reg.contains q = true) (h : addCore path s defs xtypes = .ok s') :
    s'.reg.contains q = true := by
  unfold addCore at h
  cases h1 : Res.foldlM (C14.defStep path) s defs with
  | ok s2 =>
    rw [h1] at h
    have k2 := foldlM_inv' (C14.defStep path) (fun t => t.reg.contains q = true)
      (fun b a b' hb hf => defStep_contains path b b' a q hb hf) defs s s2 hq h1
    exact foldlM_inv' (C14.xtypeStep path) (fun t => t.reg.contains q = true)
      (fun b a b' hb hf => xtypeStep_contains path b b' a q hb hf) xtypes s2 s' k2 h
  | _ => rw [h1] at h; cases h

theorem addModule_contains (s s' : State) (m : G.Module) (path : Path) (q : Path)
    (hq : s.reg.contains q = true) (h : s.addModule m path = .ok s') : s'.reg.contains q = true := by
  obtain ⟨xvals, doc, s2, _, h1, h2⟩ := C14.addModule_inv s s' m path h
  refine addCore_contains path (s.putModule path (C14.newMod m path xvals doc)) s' m.defs m.xtypes q hq ?_
  unfold addCore
  rw [h1]
  exact h2

section swap5
variable (p : Path) (d d' : G.Item)

theorem defStep_swap (path : Path) (s : State) (d0 : G.Item) (hp : s.reg.contains p = true) :
    C14.defStep path (swapS p d d' s) d0 = mapR (swapS p d d') (C14.defStep path s d0) := by
  unfold C14.defStep
  rw [swapS_reg, swapR_contains]
  by_cases hc : s.reg.contains (path ++ [d0.name]) = true
  · rw [if_pos hc, if_pos hc]; rfl
  · rw [if_neg hc, if_neg hc]
    apply swapS_addItem
    unfold swapI
    rw [if_neg]
    intro h
    exact hc (by rw [show path ++ [d0.name] = p from h.1]; exact hp)

theorem xtypeStep_swap (path : Path) (s : State) (xt : String × List G.Attr) :
    C14.xtypeStep path (swapS p d d' s) xt = mapR (swapS p d d') (C14.xtypeStep path s xt) := by
  unfold C14.xtypeStep
  rw [swapS_reg, swapR_contains]
  split
  · split
    · rfl
    · split
      · rfl
      · split
        · rfl
        · split
          · rfl
          · apply swapS_addItem
            exact swapI_res p d d' _ _ _ rfl
  · next e hne => exact cast_mapR _ _ hne

theorem addCore_swap (path : Path) (s : State) (defs : List G.Item) (xtypes : List (String × List G.Attr))
    (hp : s.reg.contains p = true) :
    addCore path (swapS p d d' s) defs xtypes = mapR (swapS p d d') (addCore path s defs xtypes) := by
  unfold addCore
  rw [foldlM_mapR_inv (C14.defStep path) (swapS p d d') (fun t => t.reg.contains p = true)
    (fun b a b' hb hf => defStep_contains path b b' a p hb hf)
    (fun b a hb => defStep_swap p d d' path b a hb) defs s hp]
  apply mapR_bind
  intro s2
  exact foldlM_mapR_inv (C14.xtypeStep path) (swapS p d d') (fun _ => True)
    (fun _ _ _ _ _ => trivial) (fun b a _ => xtypeStep_swap p d d' path b a) xtypes s2 trivial

theorem addModule_swap (s : State) (m : G.Module) (path : Path) (hp : s.reg.contains p = true) :
    (swapS p d d' s).addModule m path = mapR (swapS p d d') (s.addModule m path) := by
  rw [addModule_eq, addModule_eq]
  cases Res.mapM' C14.xvalStep m.xvals with
  | ok xvals =>
    simp only [Res.bind]
    cases G.docOf m.attrs with
    | none => rfl
    | some doc =>
      simp only []
      by_cases hc : implCheck m = true
      · rw [if_pos hc, if_pos hc]; rfl
      · rw [if_neg hc, if_neg hc]
        exact addCore_swap p d d' path (s.putModule path (C14.newMod m path xvals doc)) m.defs m.xtypes hp
  | _ => rfl

end swap5

/-! ## a fold over a list in which one element is replaced -/

theorem foldlM_pivot {α β} (f : β → α → Res β) (g : β → β) (J : β → Prop) (a a' : α)
    (h1 : ∀ b, f b a' = mapR g (f b a))
    (h2 : ∀ b b', f b a = .ok b' → J b')
    (h3 : ∀ b x b', J b → f b x = .ok b' → J b')
    (h4 : ∀ b x, J b → f (g b) x = mapR g (f b x))
    (pre post : List α) (b : β) :
    Res.foldlM f b (pre ++ a' :: post) = mapR g (Res.foldlM f b (pre ++ a :: post)) := by
  rw [foldlM_append, foldlM_append]
  cases Res.foldlM f b pre with
  | ok t =>
    simp only [Res.bind, Res.foldlM]
    rw [h1 t]
    cases ha : f t a with
    | ok t1 => exact foldlM_mapR_inv f g J h3 h4 post t1 (h2 t t1 ha)
    | _ => rfl
  | _ => rfl

theorem foldlM_pivot_inv {α β} (f : β → α → Res β) (J : β → Prop) (a : α)
    (h2 : ∀ b b', f b a = .ok b' → J b')
    (h3 : ∀ b x b', J b → f b x = .ok b' → J b')
    (pre post : List α) (b b' : β) (h : Res.foldlM f b (pre ++ a :: post) = .ok b') : J b' := by
  rw [foldlM_append] at h
  cases hp : Res.foldlM f b pre with
  | ok t =>
    rw [hp] at h
    simp only [Res.bind, Res.foldlM] at h
    cases ha : f t a with
    | ok t1 => rw [ha] at h; exact foldlM_inv' f J h3 post t1 b' (h2 t t1 ha) h
    | _ => rw [ha] at h; cases h
  | _ => rw [hp] at h; cases h

section swap6
variable (p : Path) (d d' : G.Item)

theorem add_swapped (r : Registry) (i : ItemDef) (hi : i.path = p) :
    r.add (swapI p d d' p i) = swapR p d d' (r.add i) := by
  have hp : (swapI p d d' p i).path = p := by
    unfold swapI; split <;> exact hi
  simp only [swapR, Registry.add, List.map_cons, hp, hi]
  congr 2
  symm
  have : ∀ e ∈ r.types.filter (fun e => e.1 != p), (e.1, swapI p d d' e.1 e.2) = e := by
    intro e he
    have hne : e.1 ≠ p := by simpa using (List.mem_filter.mp he).2
    unfold swapI
    rw [if_neg (fun h => hne h.1)]
  rw [List.map_congr_left this, List.map_id']

theorem addItem_swapped (s : State) (i : ItemDef) (hi : i.path = p) :
    s.addItem (swapI p d d' p i) = mapR (swapS p d d') (s.addItem i) := by
  have hp : (swapI p d d' p i).path = i.path := by
    unfold swapI; split <;> rfl
  unfold State.addItem
  rw [hp]
  cases Path.parent? i.path with
  | none => rfl
  | some parent =>
    simp only []
    cases s.getModule parent with
    | none => rfl
    | some m =>
      simp only [mapR, swapS, ← add_swapped p d d' s.reg i hi]

theorem defStep_replaced (path : Path) (s : State) (hname : d'.name = d.name) (hvis : d'.vis = d.vis)
    (hp : p = path ++ [d.name]) :
    C14.defStep path s d' = mapR (swapS p d d') (C14.defStep path s d) := by
  unfold C14.defStep
  rw [hname, hvis, ← hp]
  by_cases hc : s.reg.contains p = true
  · rw [if_pos hc, if_pos hc]; rfl
  · rw [if_neg hc, if_neg hc]
    rw [← addItem_swapped p d d' s _ rfl]
    congr 1
    simp [swapI]

theorem defStep_pivot_contains (path : Path) (hp : p = path ++ [d.name]) (s s' : State)
    (h : C14.defStep path s d = .ok s') : s'.reg.contains p = true := by
  obtain ⟨_, i, hi, ha⟩ := C14.defStep_spec path s d s' h
  rw [C14.addItem_reg s s' i ha, hp, ← hi]
  exact (C14.contains_add s.reg i i.path).mpr (Or.inr rfl)

theorem implCheck_replaced (m : G.Module) (pre post : List G.Item) (hm : m.defs = pre ++ d :: post)
    (hname : d'.name = d.name) (hk : isTypeDef d' = isTypeDef d) :
    implCheck { m with defs := pre ++ d' :: post } = implCheck m := by
  unfold implCheck
  simp only [hm, List.any_append, List.any_cons, hname, hk]

theorem addCore_replaced (path : Path) (s : State) (pre post : List G.Item) (xtypes : List (String × List G.Attr))
    (hname : d'.name = d.name) (hvis : d'.vis = d.vis) (hp : p = path ++ [d.name]) :
    addCore path s (pre ++ d' :: post) xtypes = mapR (swapS p d d') (addCore path s (pre ++ d :: post) xtypes) := by
  unfold addCore
  rw [foldlM_pivot (C14.defStep path) (swapS p d d') (fun t => t.reg.contains p = true) d d'
    (fun b => defStep_replaced p d d' path b hname hvis hp)
    (fun b b' h => defStep_pivot_contains p d path hp b b' h)
    (fun b x b' hb hf => defStep_contains path b b' x p hb hf)
    (fun b x hb => defStep_swap p d d' path b x hb) pre post s]
  apply mapR_bind
  intro s2
  exact foldlM_mapR_inv (C14.xtypeStep path) (swapS p d d') (fun _ => True)
    (fun _ _ _ _ _ => trivial) (fun b a _ => xtypeStep_swap p d d' path b a) xtypes s2 trivial

theorem addCore_pivot_contains (path : Path) (hp : p = path ++ [d.name]) (s s' : State) (pre post : List G.Item)
    (xtypes : List (String × List G.Attr)) (h : addCore path s (pre ++ d :: post) xtypes = .ok s') :
    s'.reg.contains p = true := by
  unfold addCore at h
  cases h1 : Res.foldlM (C14.defStep path) s (pre ++ d :: post) with
  | ok s2 =>
    rw [h1] at h
    have k2 := foldlM_pivot_inv (C14.defStep path) (fun t => t.reg.contains p = true) d
      (fun b b' h => defStep_pivot_contains p d path hp b b' h)
      (fun b x b' hb hf => defStep_contains path b b' x p hb hf) pre post s s2 h1
    exact foldlM_inv' (C14.xtypeStep path) (fun t => t.reg.contains p = true)
      (fun b a b' hb hf => xtypeStep_contains path b b' a p hb hf) xtypes s2 s' k2 h
  | _ => rw [h1] at h; cases h

/-- the module with the definition `d` (between `pre` and `post`) replaced by `d'` -/
def replMod (m : G.Module) (pre post : List G.Item) : G.Module := { m with defs := pre ++ d' :: post }

theorem addModule_replaced (s : State) (m : G.Module) (path : Path) (pre post : List G.Item)
    (hm : m.defs = pre ++ d :: post) (hname : d'.name = d.name) (hvis : d'.vis = d.vis)
    (hk : isTypeDef d' = isTypeDef d) (hp : p = path ++ [d.name]) :
    s.addModule (replMod d' m pre post) path = mapR (swapS p d d') (s.addModule m path) := by
  rw [addModule_eq, addModule_eq]
  rw [show (replMod d' m pre post).xvals = m.xvals from rfl, show (replMod d' m pre post).attrs = m.attrs from rfl]
  cases Res.mapM' C14.xvalStep m.xvals with
  | ok xvals =>
    simp only [Res.bind]
    cases G.docOf m.attrs with
    | none => rfl
    | some doc =>
      simp only []
      rw [show implCheck (replMod d' m pre post) = implCheck m from implCheck_replaced d d' m pre post hm hname hk]
      by_cases hc : implCheck m = true
      · rw [if_pos hc, if_pos hc]; rfl
      · rw [if_neg hc, if_neg hc]
        rw [show (replMod d' m pre post).defs = pre ++ d' :: post from rfl,
            show (replMod d' m pre post).xtypes = m.xtypes from rfl, hm]
        exact addCore_replaced p d d' path _ pre post m.xtypes hname hvis hp
  | _ => rfl

theorem addModule_pivot_contains (s s' : State) (m : G.Module) (path : Path) (pre post : List G.Item)
    (hm : m.defs = pre ++ d :: post) (hp : p = path ++ [d.name]) (h : s.addModule m path = .ok s') :
    s'.reg.contains p = true := by
  obtain ⟨xvals, doc, s2, _, h1, h2⟩ := C14.addModule_inv s s' m path h
  refine addCore_pivot_contains p d path hp (s.putModule path (C14.newMod m path xvals doc)) s' pre post m.xtypes ?_
  unfold addCore
  rw [← hm, h1]
  exact h2

/-! ## the initial state of a case -/

/-- the step of `Case.initialState` -/
def caseStep (s : State) (me : ModEnt) : Res State :=
  match me with
  | .ast path _ m => s.addModule m path
  | .text _ _ => .err "tmodule: text modules are handled by the parser model"

theorem initialState_eq (c : Case) : c.initialState = Res.foldlM caseStep (State.new c.ps) c.modules := rfl

theorem caseStep_contains (s s' : State) (me : ModEnt) (q : Path) (hq : s.reg.contains q = true)
    (h : caseStep s me = .ok s') : s'.reg.contains q = true := by
  cases me with
  | ast path file m => exact addModule_contains s s' m path q hq h
  | text f t => cases h

theorem caseStep_swap (s : State) (me : ModEnt) (hp : s.reg.contains p = true) :
    caseStep (swapS p d d' s) me = mapR (swapS p d d') (caseStep s me) := by
  cases me with
  | ast path file m => exact addModule_swap p d d' s m path hp
  | text f t => rfl

theorem initialState_replaced (ps : Nat) (mpre mpost : List ModEnt) (path : Path) (file : String) (m : G.Module)
    (pre post : List G.Item) (hm : m.defs = pre ++ d :: post) (hname : d'.name = d.name) (hvis : d'.vis = d.vis)
    (hk : isTypeDef d' = isTypeDef d) (hp : p = path ++ [d.name]) :
    Res.foldlM caseStep (State.new ps) (mpre ++ .ast path file (replMod d' m pre post) :: mpost)
      = mapR (swapS p d d') (Res.foldlM caseStep (State.new ps) (mpre ++ .ast path file m :: mpost)) :=
  foldlM_pivot caseStep (swapS p d d') (fun t => t.reg.contains p = true) (.ast path file m)
    (.ast path file (replMod d' m pre post))
    (fun b => addModule_replaced p d d' b m path pre post hm hname hvis hk hp)
    (fun b b' h => addModule_pivot_contains p d b b' m path pre post hm hp h)
    (fun b x b' hb hf => caseStep_contains b b' x p hb hf)
    (fun b x hb => caseStep_swap p d d' b x hb) mpre mpost (State.new ps)

end swap6

/-! ## whole cases -/

/-- `d` and `d'` build to the same thing in every state and at every path: same name, same visibility,
    same kind, and `type_definition::build` / `enum_definition::build` give the same answer (and the same
    new state: the generated vftable item) -/
def BuildEquiv (d d' : G.Item) : Prop :=
  d'.name = d.name ∧ d'.vis = d.vis ∧
  match d.inner, d'.inner with
  | .type td, .type td' => ∀ (s : State) (p : Path), buildType s p d.vis td' = buildType s p d.vis td
  | .enum ed, .enum ed' => ∀ (s : State) (p : Path), buildEnum s p ed' = buildEnum s p ed
  | _, _ => False

theorem BuildEquiv.isTypeDef {d d' : G.Item} (h : BuildEquiv d d') : isTypeDef d' = isTypeDef d := by
  obtain ⟨_, _, h3⟩ := h
  unfold C20.isTypeDef
  cases h1 : d.inner <;> cases h2 : d'.inner <;> rw [h1, h2] at h3 <;> first | rfl | exact h3.elim

theorem BuildEquiv.attemptDef {d d' : G.Item} (h : BuildEquiv d d') (s : State) (p : Path) :
    attemptDef s p d' = attemptDef s p d := by
  obtain ⟨_, hv, h3⟩ := h
  unfold C20.attemptDef
  cases h1 : d.inner <;> cases h2 : d'.inner <;> rw [h1, h2] at h3
  · simp only [hv]; exact h3 s p
  · exact h3.elim
  · exact h3.elim
  · simp only [h3 s p]

/-- case `c'` is case `c` with the definition `d` (at position `k` of the `j`-th module, an AST module at
    `path`) replaced by `d'`; `p = path ++ [d.name]` is the path of the item -/
def ReplacedDef (c c' : Case) (p : Path) (d d' : G.Item) : Prop :=
  ∃ (j k : Nat) (path : Path) (file : String) (m : G.Module),
    c.modules[j]? = some (.ast path file m) ∧ m.defs[k]? = some d ∧ p = path ++ [d.name] ∧
    c' = { c with modules := c.modules.set j (.ast path file { m with defs := m.defs.set k d' }) }

theorem list_split {α} (l : List α) (k : Nat) (a b : α) (h : l[k]? = some a) :
    l = l.take k ++ a :: l.drop (k + 1) ∧ l.set k b = l.take k ++ b :: l.drop (k + 1) := by
  obtain ⟨hk, rfl⟩ := List.getElem?_eq_some_iff.mp h
  refine ⟨?_, ?_⟩
  · conv => lhs; rw [← List.take_append_drop k l]
    rw [List.drop_eq_getElem_cons hk]
  · rw [List.set_eq_take_append_cons_drop, if_pos hk]

theorem initialState_of_replaced (c c' : Case) (p : Path) (d d' : G.Item) (h : ReplacedDef c c' p d d')
    (hname : d'.name = d.name) (hvis : d'.vis = d.vis) (hk : isTypeDef d' = isTypeDef d) :
    c'.ps = c.ps ∧ c'.prio = c.prio ∧ c'.initialState = mapR (swapS p d d') c.initialState := by
  obtain ⟨j, k, path, file, m, hj, hkk, hp, rfl⟩ := h
  refine ⟨rfl, rfl, ?_⟩
  obtain ⟨e1, e2⟩ := list_split c.modules j (.ast path file m)
    (.ast path file { m with defs := m.defs.set k d' }) hj
  obtain ⟨f1, f2⟩ := list_split m.defs k d d' hkk
  rw [initialState_eq, initialState_eq]
  simp only []
  rw [e2]
  conv => rhs; rw [e1]
  rw [f2]
  exact initialState_replaced p d d' c.ps _ _ path file m _ _ f1 hname hvis hk hp

/-- the O3 observation of an outcome -/
def o3Of : BuildOutcome → Sexp
  | .ok s => Sexp.mk "files" (Emit.files s)
  | .nonterm _ => Sexp.mk "err" [.str "nonterm"]
  | .err m => Sexp.mk "err" [.str m]
  | .panic m => Sexp.mk "panic" [.str m]
  | .fuel => Sexp.mk "fuel" []

theorem o3_eq (c : Case) : c.o3 = o3Of c.run := by
  unfold Case.o3 o3Of
  cases c.run <;> rfl

theorem outcomeS_swap (p : Path) (d d' : G.Item) (o : BuildOutcome) :
    Obs.outcomeS (mapO (swapS p d d') o) = Obs.outcomeS o := by
  cases o with
  | ok s => exact resolvedS_sim s (swapS p d d' s) rfl (swapR_sim p d d' s.reg)
  | _ => rfl

theorem o3Of_swap (p : Path) (d d' : G.Item) (o : BuildOutcome) : o3Of (mapO (swapS p d d') o) = o3Of o := by
  cases o with
  | ok s => simp only [mapO, o3Of, files_sim s (swapS p d d' s) rfl (swapR_sim p d d' s.reg)]
  | _ => rfl

/-- the run of the rewritten case is the run of the original case with the stored definition replaced,
    provided the two definitions give the same attempt in all states of an invariant `I` that holds
    initially and is kept by every attempt -/
theorem run_replaced_on (c c' : Case) (p : Path) (d d' : G.Item) (h : ReplacedDef c c' p d d')
    (hname : d'.name = d.name) (hvis : d'.vis = d.vis) (hk : isTypeDef d' = isTypeDef d)
    (I : State → Prop) (hI0 : ∀ s0, c.initialState = .ok s0 → I s0)
    (hI : ∀ s q, I s → I (attemptItem s q).1) (hE : ∀ s, I s → EqAt p d d' s) :
    c'.run = mapO (swapS p d d') c.run := by
  obtain ⟨_, hprio, hinit⟩ := initialState_of_replaced c c' p d d' h hname hvis hk
  unfold Case.run
  rw [hinit, hprio]
  cases hi : c.initialState with
  | ok s0 => exact build_swap p d d' I hI hE c.prio s0 (hI0 s0 hi)
  | _ => rfl

theorem obs_of_run {c c' : Case} {p : Path} {d d' : G.Item} (h : c'.run = mapO (swapS p d d') c.run) :
    c'.o2 = c.o2 ∧ c'.o3 = c.o3 := by
  refine ⟨?_, ?_⟩
  · unfold Case.o2; rw [h, outcomeS_swap]
  · rw [o3_eq, o3_eq, h, o3Of_swap]

theorem rewrite_congruence_lem (c c' : Case) (p : Path) (d d' : G.Item) (h : ReplacedDef c c' p d d')
    (he : BuildEquiv d d') : c'.run = mapO (swapS p d d') c.run :=
  run_replaced_on c c' p d d' h he.1 he.2.1 he.isTypeDef (fun _ => True) (fun _ _ => trivial)
    (fun _ _ _ => trivial) (fun s _ _ _ _ => he.attemptDef s p)


/-! ## (a) an enum value equal to the implicit one -/

/-- the value after `v` (`none` after `isize::MAX`) -/
def succI (v : Int) : Option Int := if v + 1 > isizeMax then none else some (v + 1)

/-- the value the next case gets if none is written, after the cases `stmts`; it depends on the
    preceding cases only, not on the state -/
def nextAfter : Option Int → List G.EnumStmt → Option Int
  | last, [] => last
  | last, st :: rest =>
    nextAfter (match st.expr with
      | some (.int v) => succI v
      | some _ => last
      | none => last.bind succI) rest

theorem nextAfter_cons (last : Option Int) (st : G.EnumStmt) (rest : List G.EnumStmt) :
    nextAfter last (st :: rest) = nextAfter (match st.expr with
      | some (.int v) => succI v
      | some _ => last
      | none => last.bind succI) rest := by
  rw [nextAfter]

/-- the implicit value of the case that follows the cases `pre` of an enum -/
def implicitValue (pre : List G.EnumStmt) : Option Int := nextAfter (some 0) pre

theorem enumFold_last (range : Int × Int) (pre : List G.EnumStmt) (acc acc' : EnumAcc)
    (h : Res.foldlM (enumStmtStep range) acc pre = .ok acc') : acc'.last = nextAfter acc.last pre := by
  induction pre generalizing acc with
  | nil => cases h; rfl
  | cons st rest ih =>
    simp only [Res.foldlM] at h
    cases hs : enumStmtStep range acc st with
    | ok acc1 =>
      rw [hs] at h
      rw [ih acc1 h]
      obtain ⟨value, hv, _, _, _, hl, _⟩ := C08.enumStmtStep_ok range acc acc1 st hs
      rw [nextAfter_cons]
      congr 1
      rcases hv with hv | ⟨hv, hla⟩
      · simp only [hv, hl, succI]
      · simp only [hv, hl, hla, succI, Option.bind_some]
    | _ => rw [hs] at h; cases h

/-- the case `st` of the enum with its implicit value written out -/
def withValue (st : G.EnumStmt) (v : Int) : G.EnumStmt := { st with expr := some (.int v) }

theorem enumFold_rewrite (range : Int × Int) (pre post : List G.EnumStmt) (st : G.EnumStmt) (v : Int)
    (he : st.expr = none) (hv : implicitValue pre = some v) :
    Res.foldlM (enumStmtStep range) {} (pre ++ withValue st v :: post)
      = Res.foldlM (enumStmtStep range) {} (pre ++ st :: post) := by
  rw [foldlM_append, foldlM_append]
  cases hp : Res.foldlM (enumStmtStep range) {} pre with
  | ok acc =>
    have hl : acc.last = some v := by
      rw [enumFold_last range pre {} acc hp]; exact hv
    simp only [Res.bind, Res.foldlM]
    rw [show enumStmtStep range acc (withValue st v) = enumStmtStep range acc st from
      implicit_enum_value_lem range acc st v hl he]
  | _ => rfl

theorem buildEnum_rewrite (s : State) (p : Path) (ed : G.EnumDef) (pre post : List G.EnumStmt) (st : G.EnumStmt)
    (v : Int) (hs : ed.stmts = pre ++ st :: post) (he : st.expr = none) (hv : implicitValue pre = some v) :
    buildEnum s p { ed with stmts := pre ++ withValue st v :: post } = buildEnum s p ed := by
  unfold buildEnum
  simp only [hs, enumFold_rewrite _ pre post st v he hv]
  have e1 : (pre ++ withValue st v :: post).isEmpty = false := by cases pre <;> rfl
  have e2 : (pre ++ st :: post).isEmpty = false := by cases pre <;> rfl
  simp only [e1, e2]

/-- the definition `d` (an enum) with the implicit value of one of its cases written out -/
def enumRewrite (d : G.Item) (ed : G.EnumDef) (pre post : List G.EnumStmt) (st : G.EnumStmt) (v : Int) : G.Item :=
  { d with inner := .enum { ed with stmts := pre ++ withValue st v :: post } }

theorem enumRewrite_equiv (d : G.Item) (ed : G.EnumDef) (pre post : List G.EnumStmt) (st : G.EnumStmt) (v : Int)
    (hd : d.inner = .enum ed) (hs : ed.stmts = pre ++ st :: post) (he : st.expr = none)
    (hv : implicitValue pre = some v) : BuildEquiv d (enumRewrite d ed pre post st v) := by
  refine ⟨rfl, rfl, ?_⟩
  rw [hd]
  simp only [enumRewrite]
  intro s p
  exact buildEnum_rewrite s p ed pre post st v hs he hv


/-! ## (d) a virtual function given the index it already has -/

/-- the number of slots filled after the functions `fns`, starting from `n` filled slots; it depends on
    the `#[index]` attributes of the functions only, not on the state -/
def slotsAfter : Nat → List G.Func → Nat
  | n, [] => n
  | n, f :: fs => slotsAfter ((match indexAttr f.attrs with | .ok (some i) => i | _ => n) + 1) fs

theorem slotsAfter_cons (n : Nat) (f : G.Func) (fs : List G.Func) :
    slotsAfter n (f :: fs) = slotsAfter ((match indexAttr f.attrs with | .ok (some i) => i | _ => n) + 1) fs := by
  rw [slotsAfter]

theorem slotStep_length (reg : Registry) (scope : List Path) (out out' : List SFunc) (f : G.Func)
    (h : slotStep reg scope out f = .ok out') :
    out'.length = (match indexAttr f.attrs with | .ok (some i) => i | _ => out.length) + 1 := by
  unfold slotStep at h
  cases hi : indexAttr f.attrs with
  | ok idx =>
    rw [hi] at h
    cases idx with
    | none =>
      simp only [] at h
      cases hb : buildFunction reg scope true f with
      | ok sf => rw [hb] at h; cases h; simp
      | _ => rw [hb] at h; cases h
    | some i =>
      simp only [] at h
      by_cases hlt : i < out.length
      · rw [if_pos hlt] at h; cases h
      · rw [if_neg hlt] at h
        cases hm : makePadding out i with
        | ok out1 =>
          rw [hm] at h
          have hlen : out1.length = i := by
            unfold makePadding at hm
            simp only [] at hm
            split at hm
            · cases hm
            · cases hm
              simp only [List.length_append, List.length_map, List.length_range]
              omega
          cases hb : buildFunction reg scope true f with
          | ok sf => rw [hb] at h; cases h; simp [hlen]
          | _ => rw [hb] at h; cases h
        | _ => rw [hm] at h; cases h
  | _ => rw [hi] at h; cases h

theorem slotFold_length (reg : Registry) (scope : List Path) (fns : List G.Func) (out out' : List SFunc)
    (h : Res.foldlM (slotStep reg scope) out fns = .ok out') : out'.length = slotsAfter out.length fns := by
  induction fns generalizing out with
  | nil => cases h; rfl
  | cons f rest ih =>
    simp only [Res.foldlM] at h
    cases hs : slotStep reg scope out f with
    | ok out1 =>
      rw [hs] at h
      rw [ih out1 h, slotsAfter_cons, slotStep_length reg scope out out1 f hs]
    | _ => rw [hs] at h; cases h

theorem slotFold_rewrite (reg : Registry) (scope : List Path) (fpre fpost : List G.Func) (f : G.Func)
    (hf : C04.declIndex f = none) :
    Res.foldlM (slotStep reg scope) [] (fpre ++ withIndex f (slotsAfter 0 fpre) :: fpost)
      = Res.foldlM (slotStep reg scope) [] (fpre ++ f :: fpost) := by
  rw [foldlM_append, foldlM_append]
  cases hp : Res.foldlM (slotStep reg scope) [] fpre with
  | ok out =>
    have hl : slotsAfter 0 fpre = out.length := (slotFold_length reg scope fpre [] out hp).symm
    simp only [Res.bind, Res.foldlM]
    rw [hl, natural_index_noop_lem reg scope out f hf]
  | _ => rfl

theorem convertVfuncs_rewrite (reg : Registry) (scope : List Path) (size : Option Nat) (fpre fpost : List G.Func)
    (f : G.Func) (hf : C04.declIndex f = none) :
    convertVfuncs reg scope size (fpre ++ withIndex f (slotsAfter 0 fpre) :: fpost)
      = convertVfuncs reg scope size (fpre ++ f :: fpost) := by
  rw [convertVfuncs_fold_lem, convertVfuncs_fold_lem, slotFold_rewrite reg scope fpre fpost f hf]

theorem stmtStep_rewrite (reg : Registry) (scope : List Path) (acc : StmtAcc) (idx : Nat) (attrs : List G.Attr)
    (fpre fpost : List G.Func) (f : G.Func) (hf : C04.declIndex f = none) :
    stmtStep reg scope acc (idx, ⟨.vftable (fpre ++ withIndex f (slotsAfter 0 fpre) :: fpost), attrs⟩)
      = stmtStep reg scope acc (idx, ⟨.vftable (fpre ++ f :: fpost), attrs⟩) := by
  unfold stmtStep
  simp only [convertVfuncs_rewrite reg scope _ fpre fpost f hf, List.any_append, List.any_cons]
  rfl

/-- a fold over the indexed statements of a list in which one element is replaced by one that the step
    function does not distinguish from it -/
theorem foldlM_zipIdx_replace {α β} (f : β → Nat × α → Res β) (a a' : α)
    (h : ∀ b i, f b (i, a') = f b (i, a)) (pre post : List α) (b : β) :
    Res.foldlM f b ((pre ++ a' :: post).zipIdx.map fun p => (p.2, p.1))
      = Res.foldlM f b ((pre ++ a :: post).zipIdx.map fun p => (p.2, p.1)) := by
  simp only [List.zipIdx_append, List.zipIdx_cons, List.map_append, List.map_cons, foldlM_append]
  cases Res.foldlM f b (List.map (fun p => (p.2, p.1)) pre.zipIdx) with
  | ok t => simp only [Res.bind, Res.foldlM, h]
  | _ => rfl

/-- the definition `d` (a type) with the function `f` of its vftable block given its natural index -/
def indexRewrite (d : G.Item) (td : G.TypeDef) (spre spost : List G.Stmt) (attrs : List G.Attr)
    (fpre fpost : List G.Func) (f : G.Func) : G.Item :=
  { d with inner := .type { td with
      stmts := spre ++ ⟨.vftable (fpre ++ withIndex f (slotsAfter 0 fpre) :: fpost), attrs⟩ :: spost } }

theorem buildType_index_rewrite (s : State) (p : Path) (vis : Vis) (td : G.TypeDef) (spre spost : List G.Stmt)
    (attrs : List G.Attr) (fpre fpost : List G.Func) (f : G.Func)
    (hs : td.stmts = spre ++ ⟨.vftable (fpre ++ f :: fpost), attrs⟩ :: spost) (hf : C04.declIndex f = none) :
    buildType s p vis { td with
        stmts := spre ++ ⟨.vftable (fpre ++ withIndex f (slotsAfter 0 fpre) :: fpost), attrs⟩ :: spost }
      = buildType s p vis td := by
  unfold buildType
  simp only [hs]
  cases s.moduleFor p with
  | none => rfl
  | some module =>
    simp only []
    rw [foldlM_zipIdx_replace (stmtStep s.reg module.scope) _ _
      (fun b i => stmtStep_rewrite s.reg module.scope b i attrs fpre fpost f hf) spre spost]

theorem indexRewrite_equiv (d : G.Item) (td : G.TypeDef) (spre spost : List G.Stmt) (attrs : List G.Attr)
    (fpre fpost : List G.Func) (f : G.Func) (hd : d.inner = .type td)
    (hs : td.stmts = spre ++ ⟨.vftable (fpre ++ f :: fpost), attrs⟩ :: spost) (hf : C04.declIndex f = none) :
    BuildEquiv d (indexRewrite d td spre spost attrs fpre fpost f) := by
  refine ⟨rfl, rfl, ?_⟩
  rw [hd]
  simp only [indexRewrite]
  intro s p
  exact buildType_index_rewrite s p d.vis td spre spost attrs fpre fpost f hs hf


/-! ## what follows `resolve_regions` in `type_definition::build` never asks to be retried -/

theorem foldlM_ne_defer {α β} (f : β → α → Res β) (hf : ∀ b a, f b a ≠ .defer) (l : List α) (b : β) :
    Res.foldlM f b l ≠ .defer := by
  induction l generalizing b with
  | nil => intro h; cases h
  | cons a l ih =>
    simp only [Res.foldlM]
    cases h : f b a with
    | ok b' => exact ih b'
    | defer => exact (hf b a h).elim
    | err m => intro h; cases h
    | panic m => intro h; cases h

theorem mapM'_ne_defer {α β} (f : α → Res β) (hf : ∀ a, f a ≠ .defer) (l : List α) :
    Res.mapM' f l ≠ .defer := by
  induction l with
  | nil => intro h; cases h
  | cons a l ih =>
    simp only [Res.mapM']
    cases h : f a with
    | ok b =>
      simp only []
      cases h2 : Res.mapM' f l with
      | ok bs => intro h; cases h
      | defer => exact (ih h2).elim
      | err m => intro h; cases h
      | panic m => intro h; cases h
    | defer => exact (hf a h).elim
    | err m => intro h; cases h
    | panic m => intro h; cases h

theorem cast_ne_defer {α β} (e : Res α) (h : e ≠ .defer) : (e.cast : Res β) ≠ .defer := by
  cases e with
  | defer => exact (h rfl).elim
  | _ => intro h; cases h

theorem paddingType_ne_defer (reg : Registry) (n : Nat) : reg.paddingType n ≠ .defer := by
  unfold Registry.paddingType
  split <;> (intro h; cases h)

theorem nameRegions_ne_defer (reg : Registry) (off : Nat) (ps : List (Placed Region)) :
    nameRegions reg off ps ≠ .defer := by
  induction ps generalizing off with
  | nil => intro h; cases h
  | cons p ps ih =>
    have tail : ∀ (r' : Region), (match nameRegions reg (off + p.size) ps with
        | .ok rs => Res.ok (r' :: rs)
        | e => e) ≠ .defer := by
      intro r'
      cases hn : nameRegions reg (off + p.size) ps with
      | defer => exact (ih _ hn).elim
      | _ => intro h; cases h
    cases hsrc : p.src with
    | some r =>
      unfold nameRegions
      simp only [hsrc]
      exact tail _
    | none =>
      unfold nameRegions
      simp only [hsrc]
      cases hp : reg.paddingType p.size with
      | ok t => simp only []; exact tail _
      | defer => exact (paddingType_ne_defer reg p.size hp).elim
      | err m => intro h; cases h
      | panic m => intro h; cases h

theorem regionNameAndTypeDef_ne_defer (reg : Registry) (r : Region) : regionNameAndTypeDef reg r ≠ .defer := by
  unfold regionNameAndTypeDef
  split
  · intro h; cases h
  · split
    · split
      · intro h; cases h
      · split
        · intro h; cases h
        · split <;> (intro h; cases h)
    · intro h; cases h

theorem injectBases_ne_defer (reg : Registry) (regions : List Region) (acc : InjAcc) :
    injectBases reg regions acc ≠ .defer := by
  unfold injectBases
  apply foldlM_ne_defer
  intro b a
  split
  · intro h; cases h
  · intro h; cases h
  · exact cast_ne_defer _ (regionNameAndTypeDef_ne_defer reg _)

theorem fnAttrStep_ne_defer (isV : Bool) (st : FnAttrSt) (a : G.Attr) : fnAttrStep isV st a ≠ .defer := by
  unfold fnAttrStep
  split
  · split
    · intro h; cases h
    · split <;> (intro h; cases h)
  · split <;> (intro h; cases h)
  · split <;> (intro h; cases h)
  · intro h; cases h

theorem buildArg_ne_defer (reg : Registry) (scope : List Path) (a : G.Arg) : buildArg reg scope a ≠ .defer := by
  unfold buildArg
  split
  · intro h; cases h
  · intro h; cases h
  · split <;> (intro h; cases h)

theorem buildFunction_ne_defer (reg : Registry) (scope : List Path) (isV : Bool) (f : G.Func) :
    buildFunction reg scope isV f ≠ .defer := by
  unfold buildFunction
  split
  · intro h; cases h
  · split
    · split
      · intro h; cases h
      · split
        · simp only []
          split
          · intro h; cases h
          · apply cast_ne_defer
            intro h
            split at h
            · cases h
            · split at h <;> cases h
        · exact cast_ne_defer _ (mapM'_ne_defer _ (buildArg_ne_defer reg scope) _)
    · exact cast_ne_defer _ (foldlM_ne_defer _ (fnAttrStep_ne_defer isV) _ _)

theorem addImplFns_ne_defer (reg : Registry) (scope : List Path) (impl : Option G.Impl) (acc : InjAcc) :
    addImplFns reg scope impl acc ≠ .defer := by
  unfold addImplFns
  split
  · intro h; cases h
  · apply foldlM_ne_defer
    intro b a
    split
    · intro h; cases h
    · split
      · intro h; cases h
      · exact cast_ne_defer _ (buildFunction_ne_defer reg scope false a)

theorem checkDefaultable_ne_defer (reg : Registry) (regions : List Region) :
    checkDefaultable reg regions ≠ .defer := by
  unfold checkDefaultable
  apply foldlM_ne_defer
  intro b a
  split
  · intro h; cases h
  · split
    · intro h; cases h
    · split
      · intro h; cases h
      · split <;> (intro h; cases h)

theorem lcmStep_ne_defer (acc x : Nat) : lcmStep acc x ≠ .defer := by
  unfold lcmStep
  split
  · intro h; cases h
  · split <;> (intro h; cases h)

theorem lcmAll_ne_defer {β} (rs : List (Placed β)) : lcmAll rs ≠ .defer := by
  unfold lcmAll
  apply foldlM_ne_defer
  intro b a
  split
  · exact lcmStep_ne_defer _ _
  · intro h; cases h

theorem fieldsAligned_ne_defer {β} (off : Nat) (rs : List (Placed β)) : fieldsAligned off rs ≠ .defer := by
  induction rs generalizing off with
  | nil => intro h; cases h
  | cons r rs ih =>
    unfold fieldsAligned
    split
    · intro h; cases h
    · split
      · intro h; cases h
      · split
        · intro h; cases h
        · split
          · intro h; cases h
          · exact ih _

theorem alignCheck_ne_defer {β} (ps : Nat) (packed : Bool) (align? : Option Nat) (rs : List (Placed β)) (size : Nat) :
    alignCheck ps packed align? rs size ≠ .defer := by
  unfold alignCheck
  split
  · split <;> (intro h; cases h)
  · simp only []
    split
    · intro h; cases h
    · cases h1 : lcmAll rs with
      | ok required =>
        simp only []
        split
        · intro h; cases h
        · cases h2 : fieldsAligned 0 rs with
          | ok u =>
            simp only []
            split
            · intro h; cases h
            · split <;> (intro h; cases h)
          | defer => exact (fieldsAligned_ne_defer 0 rs h2).elim
          | err m => intro h; cases h
          | panic m => intro h; cases h
      | defer => exact (lcmAll_ne_defer rs h1).elim
      | err m => intro h; cases h
      | panic m => intro h; cases h


/-! ## `type_definition::build` as a function of the declared size -/

abbrev RROut := List Region × Option Vft × Nat × List (Placed Region)

/-- the part of `resolve_regions` that depends on the declared size -/
def rrTail (reg : Registry) (pending : List (Option Nat × Region)) (target : Option Nat)
    (vft : Option Vft) (vregion : Option Region) : Res RROut :=
  match Layout.resolve (vregion.map (toPField reg none)) (pending.map fun p => toPField reg p.1 p.2) target with
  | .ok (placed, size) =>
    match nameRegions reg 0 placed with
    | .ok regions => .ok (regions, vft, size, placed)
    | e => e.cast
  | e => e.cast

theorem resolveRegions_shape (s : State) (owner : Path) (vis : Vis) (pending : List (Option Nat × Region))
    (vfns : Option (List SFunc)) :
    (∃ s1 e, (∀ x, e ≠ .ok x) ∧ ∀ target, resolveRegions s owner vis target pending vfns = (s1, e)) ∨
    (∃ s1 vft vregion, ∀ target,
      resolveRegions s owner vis target pending vfns = (s1, rrTail s1.reg pending target vft vregion)) := by
  have main : ∀ fb, (pending.map (·.2)).find? (·.isBase) = fb →
      (∀ target, resolveRegions s owner vis target pending vfns =
        (match buildVftable s owner vis fb vfns with
         | (s1, .ok (vft, vregion)) => (s1, rrTail s1.reg pending target vft vregion)
         | (s1, e) => (s1, e.cast))) →
      (∃ s1 e, (∀ x, e ≠ .ok x) ∧ ∀ target, resolveRegions s owner vis target pending vfns = (s1, e)) ∨
      (∃ s1 vft vregion, ∀ target,
        resolveRegions s owner vis target pending vfns = (s1, rrTail s1.reg pending target vft vregion)) := by
    intro fb _ h
    cases hb : buildVftable s owner vis fb vfns with
    | mk s1 res =>
      cases res with
      | ok x =>
        obtain ⟨vft, vregion⟩ := x
        right
        exact ⟨s1, vft, vregion, fun target => by rw [h target, hb]⟩
      | defer => left; exact ⟨s1, .defer, (fun x h => by cases h), fun target => by rw [h target, hb]; rfl⟩
      | err m => left; exact ⟨s1, .err m, (fun x h => by cases h), fun target => by rw [h target, hb]; rfl⟩
      | panic m => left; exact ⟨s1, .panic m, (fun x h => by cases h), fun target => by rw [h target, hb]; rfl⟩
  cases hfb : (pending.map (·.2)).find? (·.isBase) with
  | none =>
    refine main none hfb ?_
    intro target
    unfold resolveRegions
    simp only [hfb]
    rfl
  | some b =>
    cases hsz : b.ty.size s.reg with
    | ok o =>
      cases o with
      | none =>
        left
        refine ⟨s, .defer, (fun x h => by cases h), fun target => ?_⟩
        unfold resolveRegions
        simp only [hfb, hsz]
      | some n =>
        refine main (some b) hfb ?_
        intro target
        unfold resolveRegions
        simp only [hfb, hsz]
        rfl
    | defer =>
      left
      refine ⟨s, .defer, (fun x h => by cases h), fun target => ?_⟩
      unfold resolveRegions
      simp only [hfb, hsz]
    | err m =>
      left
      refine ⟨s, .err m, (fun x h => by cases h), fun target => ?_⟩
      unfold resolveRegions
      simp only [hfb, hsz]
    | panic m =>
      left
      refine ⟨s, .panic m, (fun x h => by cases h), fun target => ?_⟩
      unfold resolveRegions
      simp only [hfb, hsz]

theorem resolveFrom_defer_target {β} (start : Res (St β)) (fields : List (PField β)) (N : Nat)
    (h : resolveFrom start fields none = .defer) : resolveFrom start fields (some N) = .defer := by
  unfold resolveFrom at h ⊢
  cases start with
  | ok st0 =>
    simp only [] at h ⊢
    cases hp : place st0 fields with
    | ok st1 => rw [hp] at h; simp only [padTail] at h; cases h
    | defer => rfl
    | err m => rw [hp] at h; cases h
    | panic m => rw [hp] at h; cases h
  | defer => rfl
  | err m => cases h
  | panic m => cases h

theorem resolve_defer_target {β} (vptr : Option (PField β)) (fields : List (PField β)) (N : Nat)
    (h : resolve vptr fields none = .defer) : resolve vptr fields (some N) = .defer := by
  rw [resolve_eq] at h ⊢
  exact resolveFrom_defer_target _ fields N h

theorem rrTail_natural (reg : Registry) (pending : List (Option Nat × Region)) (vft : Option Vft)
    (vregion : Option Region) (x : RROut) (h : rrTail reg pending none vft vregion = .ok x) :
    rrTail reg pending (some x.2.2.1) vft vregion = .ok x := by
  unfold rrTail at h ⊢
  cases hr : Layout.resolve (vregion.map (toPField reg none)) (pending.map fun p => toPField reg p.1 p.2) none with
  | ok y =>
    obtain ⟨placed, size⟩ := y
    rw [hr] at h
    simp only [] at h
    cases hn : nameRegions reg 0 placed with
    | ok regions =>
      rw [hn] at h
      simp only [Res.ok.injEq] at h
      subst h
      simp only []
      rw [natural_size_noop_lem _ _ placed size hr]
      simp only [hn]
    | defer => rw [hn] at h; cases h
    | err m => rw [hn] at h; cases h
    | panic m => rw [hn] at h; cases h
  | defer => rw [hr] at h; cases h
  | err m => rw [hr] at h; cases h
  | panic m => rw [hr] at h; cases h

theorem rrTail_defer (reg : Registry) (pending : List (Option Nat × Region)) (vft : Option Vft)
    (vregion : Option Region) (N : Nat) (h : rrTail reg pending none vft vregion = .defer) :
    rrTail reg pending (some N) vft vregion = .defer := by
  unfold rrTail at h ⊢
  cases hr : Layout.resolve (vregion.map (toPField reg none)) (pending.map fun p => toPField reg p.1 p.2) none with
  | ok y =>
    obtain ⟨placed, size⟩ := y
    rw [hr] at h
    simp only [] at h
    cases hn : nameRegions reg 0 placed with
    | ok regions => rw [hn] at h; cases h
    | defer => exact (nameRegions_ne_defer reg 0 placed hn).elim
    | err m => rw [hn] at h; cases h
    | panic m => rw [hn] at h; cases h
  | defer => rw [resolve_defer_target _ _ N hr]; rfl
  | err m => rw [hr] at h; cases h
  | panic m => rw [hr] at h; cases h

/-- what `type_definition::build` does after `resolve_regions` has answered -/
def btAfter (s1 : State) (path : Path) (doc : Option String) (ta : TypeAttrs) (x : RROut) : Res Resolved :=
  match s1.moduleFor path with
  | none => .panic "get_module_for_path(..).unwrap()"
  | some module1 =>
    let used0 : List String := match x.2.1 with | some v => v.fns.map (·.name) | none => []
    match injectBases s1.reg x.1 { fns := [], used := used0 } with
    | .ok acc1 =>
      match addImplFns s1.reg module1.scope (module1.implFor path) acc1 with
      | .ok acc2 =>
        match (if ta.defaultable then checkDefaultable s1.reg x.1 else .ok ()) with
        | .ok () =>
          match Layout.alignCheck s1.reg.ps ta.packed ta.align x.2.2.2 x.2.2.1 with
          | .ok alignment =>
            .ok { size := x.2.2.1, align := alignment,
                  inner := .type { regions := x.1, doc, fns := acc2.fns, vft := x.2.1, singleton := ta.singleton,
                                   copyable := ta.copyable, cloneable := ta.cloneable,
                                   defaultable := ta.defaultable, packed := ta.packed } }
          | e => e.cast
        | e => e.cast
      | e => e.cast
    | e => e.cast

theorem btAfter_ne_defer (s1 : State) (path : Path) (doc : Option String) (ta : TypeAttrs) (x : RROut) :
    btAfter s1 path doc ta x ≠ .defer := by
  unfold btAfter
  cases s1.moduleFor path with
  | none => intro h; cases h
  | some module1 =>
    simp only []
    cases h1 : injectBases s1.reg x.1 { fns := [], used := match x.2.1 with | some v => v.fns.map (·.name) | none => [] } with
    | ok acc1 =>
      simp only []
      cases h2 : addImplFns s1.reg module1.scope (module1.implFor path) acc1 with
      | ok acc2 =>
        simp only []
        cases h3 : (if ta.defaultable then checkDefaultable s1.reg x.1 else .ok ()) with
        | ok u =>
          simp only []
          cases h4 : Layout.alignCheck s1.reg.ps ta.packed ta.align x.2.2.2 x.2.2.1 with
          | ok al => intro h; cases h
          | defer => exact (alignCheck_ne_defer _ _ _ _ _ h4).elim
          | err m => intro h; cases h
          | panic m => intro h; cases h
        | defer =>
          exfalso
          split at h3
          · exact checkDefaultable_ne_defer _ _ h3
          · cases h3
        | err m => intro h; cases h
        | panic m => intro h; cases h
      | defer => exact (addImplFns_ne_defer _ _ _ _ h2).elim
      | err m => intro h; cases h
      | panic m => intro h; cases h
    | defer => exact (injectBases_ne_defer _ _ _ h1).elim
    | err m => intro h; cases h
    | panic m => intro h; cases h

theorem btAfter_size (s1 : State) (path : Path) (doc : Option String) (ta : TypeAttrs) (x : RROut) (r : Resolved)
    (h : btAfter s1 path doc ta x = .ok r) : r.size = x.2.2.1 := by
  unfold btAfter at h
  split at h
  · cases h
  · simp only [] at h
    split at h
    · split at h
      · split at h
        · split at h
          · cases h; rfl
          · exact (C14.cast_ne_ok _ _ h).elim
        · exact (C14.cast_ne_ok _ _ h).elim
      · exact (C14.cast_ne_ok _ _ h).elim
    · exact (C14.cast_ne_ok _ _ h).elim

/-- `type_definition::build` after the attribute and statement loops, with the declared size `target` -/
def btCore (s : State) (path : Path) (vis : Vis) (doc : Option String) (ta : TypeAttrs) (target : Option Nat)
    (sa : StmtAcc) : State × Res Resolved :=
  match resolveRegions s path vis target sa.pending sa.vfns with
  | (s1, .ok x) => (s1, btAfter s1 path doc ta x)
  | (s1, e) => (s1, e.cast)

theorem buildType_core (s : State) (path : Path) (vis : Vis) (td : G.TypeDef) (module : Mod) (doc : Option String)
    (ta : TypeAttrs) (sa : StmtAcc) (h1 : s.moduleFor path = some module) (h2 : G.docOf td.attrs = some doc)
    (h3 : Res.foldlM typeAttrStep {} td.attrs = .ok ta)
    (h4 : Res.foldlM (stmtStep s.reg module.scope) {} (td.stmts.zipIdx.map fun p => (p.2, p.1)) = .ok sa) :
    buildType s path vis td = btCore s path vis doc ta ta.targetSize sa := by
  unfold buildType btCore
  simp only [h1, h2, h3, h4]
  cases resolveRegions s path vis ta.targetSize sa.pending sa.vfns with
  | mk s1 res =>
    cases res with
    | ok x => obtain ⟨regions, vft, size, placed⟩ := x; rfl
    | _ => rfl

/-- with the declared size: the state is the same, a retry stays a retry, and a success with that very size
    stays the same success -/
theorem btCore_target (s : State) (path : Path) (vis : Vis) (doc : Option String) (ta : TypeAttrs) (sa : StmtAcc)
    (N : Nat) :
    (∀ s1, btCore s path vis doc ta none sa = (s1, .defer) → btCore s path vis doc ta (some N) sa = (s1, .defer)) ∧
    (∀ s1 r, btCore s path vis doc ta none sa = (s1, .ok r) → r.size = N →
      btCore s path vis doc ta (some N) sa = (s1, .ok r)) := by
  unfold btCore
  rcases resolveRegions_shape s path vis sa.pending sa.vfns with ⟨s1, e, he, h⟩ | ⟨s1, vft, vregion, h⟩
  · rw [h none, h (some N)]
    exact ⟨fun _ hh => hh, fun _ _ hh _ => hh⟩
  · rw [h none, h (some N)]
    refine ⟨?_, ?_⟩
    · intro s1' hh
      cases hr : rrTail s1.reg sa.pending none vft vregion with
      | ok x =>
        rw [hr] at hh
        simp only [Prod.mk.injEq] at hh
        exact (btAfter_ne_defer _ _ _ _ _ hh.2).elim
      | defer =>
        rw [hr] at hh
        rw [rrTail_defer _ _ _ _ N hr]
        exact hh
      | err m => rw [hr] at hh; simp only [Prod.mk.injEq] at hh; cases hh.2
      | panic m => rw [hr] at hh; simp only [Prod.mk.injEq] at hh; cases hh.2
    · intro s1' r hh hsz
      cases hr : rrTail s1.reg sa.pending none vft vregion with
      | ok x =>
        rw [hr] at hh
        simp only [Prod.mk.injEq] at hh
        have := btAfter_size _ _ _ _ _ _ hh.2
        rw [hsz] at this
        have hr2 := rrTail_natural _ _ _ _ x hr
        rw [← this] at hr2
        rw [hr2]
        simp only [Prod.mk.injEq]
        exact hh
      | defer => rw [hr] at hh; simp only [Prod.mk.injEq] at hh; cases hh.2
      | err m => rw [hr] at hh; simp only [Prod.mk.injEq] at hh; cases hh.2
      | panic m => rw [hr] at hh; simp only [Prod.mk.injEq] at hh; cases hh.2


/-! ## (b) a size attribute equal to the natural size -/

/-- `#[size(N)]` -/
def sizeAttr (N : Nat) : G.Attr := .fn "size" [.int (N : Int)]

/-- the type definition with `#[size(N)]` added -/
def withSize (td : G.TypeDef) (N : Nat) : G.TypeDef := { td with attrs := td.attrs ++ [sizeAttr N] }

theorem docOf_withSize (td : G.TypeDef) (N : Nat) : G.docOf (withSize td N).attrs = G.docOf td.attrs := by
  simp only [withSize, sizeAttr, G.docOf, List.foldl_append, List.foldl_cons, List.foldl_nil]
  split
  · next h => exact h.symm
  · next h => exact h.symm

theorem typeAttrs_withSize (td : G.TypeDef) (N : Nat) :
    Res.foldlM typeAttrStep {} (withSize td N).attrs
      = Res.bind (Res.foldlM typeAttrStep {} td.attrs) (fun ta => .ok { ta with targetSize := some N }) := by
  simp only [withSize, foldlM_append]
  cases Res.foldlM typeAttrStep {} td.attrs with
  | ok ta => simp only [Res.bind, Res.foldlM, sizeAttr, typeAttrStep, tryUsize_nat]
  | _ => rfl

/-- the attribute loop leaves the declared size unset: the type has no `#[size]` attribute -/
def NoSizeAttr (td : G.TypeDef) : Prop :=
  ∀ ta, Res.foldlM typeAttrStep {} td.attrs = .ok ta → ta.targetSize = none

theorem buildType_withSize (s : State) (path : Path) (vis : Vis) (td : G.TypeDef) (N : Nat) (hns : NoSizeAttr td) :
    buildType s path vis (withSize td N) = buildType s path vis td ∨
    ∃ doc ta sa, buildType s path vis td = btCore s path vis doc ta none sa ∧
      buildType s path vis (withSize td N) = btCore s path vis doc ta (some N) sa := by
  cases h1 : s.moduleFor path with
  | none => left; unfold buildType; simp only [h1]
  | some module =>
    cases h2 : G.docOf td.attrs with
    | none => left; unfold buildType; simp only [h1, docOf_withSize, h2]
    | some doc =>
      cases h3 : Res.foldlM typeAttrStep {} td.attrs with
      | ok ta =>
        have h3' : Res.foldlM typeAttrStep {} (withSize td N).attrs = .ok { ta with targetSize := some N } := by
          rw [typeAttrs_withSize, h3]; rfl
        cases h4 : Res.foldlM (stmtStep s.reg module.scope) {} (td.stmts.zipIdx.map fun p => (p.2, p.1)) with
        | ok sa =>
          right
          refine ⟨doc, ta, sa, ?_, ?_⟩
          · rw [buildType_core s path vis td module doc ta sa h1 h2 h3 h4, hns ta h3]
          · rw [buildType_core s path vis (withSize td N) module doc _ sa h1
              (by rw [docOf_withSize]; exact h2) h3' h4]
            rfl
        | defer =>
          left; unfold buildType
          simp only [h1, docOf_withSize, h2, h3, h3']
          rw [show (withSize td N).stmts = td.stmts from rfl, h4]
        | err m =>
          left; unfold buildType
          simp only [h1, docOf_withSize, h2, h3, h3']
          rw [show (withSize td N).stmts = td.stmts from rfl, h4]
        | panic m =>
          left; unfold buildType
          simp only [h1, docOf_withSize, h2, h3, h3']
          rw [show (withSize td N).stmts = td.stmts from rfl, h4]
      | defer =>
        left; unfold buildType
        simp only [h1, docOf_withSize, h2, typeAttrs_withSize, h3, Res.bind]
      | err m =>
        left; unfold buildType
        simp only [h1, docOf_withSize, h2, typeAttrs_withSize, h3, Res.bind]
      | panic m =>
        left; unfold buildType
        simp only [h1, docOf_withSize, h2, typeAttrs_withSize, h3, Res.bind]

/-- the local fact behind `natural_size_e2e` -/
theorem buildType_withSize_local (s : State) (path : Path) (vis : Vis) (td : G.TypeDef) (N : Nat)
    (hns : NoSizeAttr td) :
    (∀ s1, buildType s path vis td = (s1, .defer) → buildType s path vis (withSize td N) = (s1, .defer)) ∧
    (∀ s1 r, buildType s path vis td = (s1, .ok r) → r.size = N →
      buildType s path vis (withSize td N) = (s1, .ok r)) := by
  rcases buildType_withSize s path vis td N hns with h | ⟨doc, ta, sa, h1, h2⟩
  · rw [h]; exact ⟨fun _ hh => hh, fun _ _ hh _ => hh⟩
  · rw [h1, h2]; exact btCore_target s path vis doc ta sa N


/-! ## congruence along an accepted run -/

section keeps
variable (p : Path)

/-- a resolved entry under `p` in `s` is still there, unchanged, in `s'` -/
def Keeps (s s' : State) : Prop := ∀ i r, s.reg.get p = some i → i.state = .res r → s'.reg.get p = some i

theorem Keeps.refl (s : State) : Keeps p s s := fun _ _ h _ => h

theorem Keeps.trans {s1 s2 s3 : State} (h1 : Keeps p s1 s2) (h2 : Keeps p s2 s3) : Keeps p s1 s3 :=
  fun i r hg hr => h2 i r (h1 i r hg hr) hr

theorem reach_get (s s1 : State) (owner : Path) (h : C10.Reach s s1 owner) (i : ItemDef)
    (hg : s.reg.get p = some i) : s1.reg.get p = some i ∨
      (∃ item, item.isResolved = true ∧ i.isResolved = false ∧ s1.reg.get p = some item) := by
  rcases h with rfl | ⟨item, _, hres, hex, ha⟩
  · exact Or.inl hg
  · rw [C14.addItem_reg s s1 item ha, C14.get_add]
    by_cases hp : p = item.path
    · rw [if_pos hp]
      subst hp
      rcases hex with hn | hs
      · rw [hn] at hg; cases hg
      · rw [hs] at hg; cases hg; exact Or.inl rfl
    · rw [if_neg hp]; exact Or.inl hg

theorem attemptDef_reach (s : State) (q : Path) (d0 : G.Item) : C10.Reach s (attemptDef s q d0).1 q := by
  unfold attemptDef
  cases d0.inner with
  | type td => exact C10.buildType_reach s q d0.vis td
  | enum ed => exact Or.inl rfl

theorem reach_keeps (s s1 : State) (owner : Path) (h : C10.Reach s s1 owner) : Keeps p s s1 := by
  intro i r hg hr
  rcases reach_get p s s1 owner h i hg with h1 | ⟨item, _, hi, _⟩
  · exact h1
  · simp [ItemDef.isResolved, ItemDef.resolved?, hr] at hi

theorem attemptItem_keeps (s : State) (q : Path) : Keeps p s (attemptItem s q).1 := by
  intro i r hg hr
  rw [attemptItem_eq]
  cases hq : s.reg.get q with
  | none => exact hg
  | some item =>
    simp only []
    cases hst : item.state with
    | res x => exact hg
    | unres d0 =>
      simp only []
      have hk := reach_keeps p s _ q (attemptDef_reach s q d0) i r hg hr
      have hne : p ≠ q := by
        intro e; subst e
        rw [hq] at hg; cases hg
        rw [hr] at hst; cases hst
      cases hx : attemptDef s q d0 with
      | mk s1 x =>
        rw [hx] at hk
        cases x with
        | ok r0 =>
          simp only [finishAttempt]
          rw [C12.get_setState, if_neg hne]
          exact hk
        | _ => exact hk

theorem runRound_keeps (l : List Path) (s : State) : Keeps p s (runRound s l).1 := by
  induction l generalizing s with
  | nil => exact Keeps.refl p s
  | cons q qs ih =>
    have h1 := attemptItem_keeps p s q
    cases ha : attemptItem s q with
    | mk s2 r2 =>
      rw [ha] at h1
      cases r2 with
      | ok u => cases u; rw [runRound_cons_ok s s2 q qs ha]; exact Keeps.trans p h1 (ih s2)
      | defer => rw [runRound_cons_stop s s2 q qs _ ha (by simp)]; exact h1
      | err m => rw [runRound_cons_stop s s2 q qs _ ha (by simp)]; exact h1
      | panic m => rw [runRound_cons_stop s s2 q qs _ ha (by simp)]; exact h1

/-- one round of an accepted resolution loop -/
theorem resolveLoop_ok_inv (prio : List Path) (n : Nat) (s sf : State) (h : resolveLoop prio (n + 1) s = .ok sf) :
    ((s.reg.unresolved prio).isEmpty = true ∧ sf = s) ∨
    ((s.reg.unresolved prio).isEmpty = false ∧ ∃ s1, runRound s (s.reg.unresolved prio) = (s1, .ok ()) ∧
      (s.reg.unresolved prio == s1.reg.unresolved prio && s.reg.types.length == s1.reg.types.length) = false ∧
      resolveLoop prio n s1 = .ok sf) := by
  unfold resolveLoop at h
  simp only [] at h
  by_cases he : (s.reg.unresolved prio).isEmpty = true
  · rw [if_pos he] at h
    cases h
    exact Or.inl ⟨he, rfl⟩
  · rw [if_neg he] at h
    right
    refine ⟨by simpa using he, ?_⟩
    cases hr : runRound s (s.reg.unresolved prio) with
    | mk s1 res =>
      rw [hr] at h
      cases res with
      | ok u =>
        cases u
        simp only [] at h
        by_cases hc : (s.reg.unresolved prio == s1.reg.unresolved prio && s.reg.types.length == s1.reg.types.length) = true
        · rw [if_pos hc] at h; cases h
        · rw [if_neg hc] at h
          exact ⟨s1, rfl, by simpa using hc, h⟩
      | defer => cases h
      | err m => cases h
      | panic m => cases h

theorem resolveLoop_keeps (prio : List Path) (fuel : Nat) (s sf : State) (h : resolveLoop prio fuel s = .ok sf) :
    Keeps p s sf := by
  induction fuel generalizing s with
  | zero => cases h
  | succ n ih =>
    rcases resolveLoop_ok_inv prio n s sf h with ⟨_, rfl⟩ | ⟨_, s1, hr, _, hl⟩
    · exact Keeps.refl p _
    · have := runRound_keeps p (s.reg.unresolved prio) s
      rw [hr] at this
      exact Keeps.trans p this (ih s1 hl)

end keeps

section okrun
variable (p : Path) (d d' : G.Item) (K : Resolved → Prop)

/-- if `p` is resolved in `s`, its value satisfies `K` -/
def PK (s : State) : Prop := ∀ i r, s.reg.get p = some i → i.state = .res r → K r

theorem PK.of_keeps {s s' : State} (hk : Keeps p s s') (h : PK p K s') : PK p K s :=
  fun i r hg hr => h i r (hk i r hg hr) hr

/-- the attempt on `d'` at `p` repeats a retry of the attempt on `d`, and repeats a success whose value
    satisfies `K` -/
def LocalEq (s : State) : Prop :=
  (∀ s1, attemptDef s p d = (s1, .defer) → attemptDef s p d' = (s1, .defer)) ∧
  (∀ s1 r, attemptDef s p d = (s1, .ok r) → K r → attemptDef s p d' = (s1, .ok r))

theorem attemptItem_resolved (s s1 : State) (i : ItemDef) (r : Resolved) (hg : s.reg.get p = some i)
    (hst : i.state = .unres d) (hx : attemptDef s p d = (s1, .ok r)) :
    attemptItem s p = ({ s1 with reg := s1.reg.setState p (.res r) }, .ok ()) ∧
    ∃ i', (s1.reg.setState p (.res r)).get p = some i' ∧ i'.state = .res r := by
  refine ⟨?_, ?_⟩
  · rw [attemptItem_eq, hg]
    simp only [hst, hx, finishAttempt]
  · have hreach := attemptDef_reach s p d
    rw [hx] at hreach
    rw [C12.get_setState, if_pos rfl]
    rcases reach_get p s s1 p hreach i hg with h1 | ⟨item, _, _, h1⟩
    · rw [h1]; exact ⟨_, rfl, rfl⟩
    · rw [h1]; exact ⟨_, rfl, rfl⟩

theorem eqAt_of_ok (s s2 : State) (hloc : LocalEq p d d' K s) (ha : attemptItem s p = (s2, .ok ()))
    (hpk : PK p K s2) : EqAt p d d' s := by
  intro i hg hst
  cases hx : attemptDef s p d with
  | mk s1 x =>
    cases x with
    | ok r =>
      obtain ⟨h1, i', hi', hr'⟩ := attemptItem_resolved p d s s1 i r hg hst hx
      rw [h1] at ha
      simp only [Prod.mk.injEq, and_true] at ha
      subst ha
      exact hloc.2 s1 r hx (hpk i' r hi' hr')
    | defer => exact hloc.1 s1 hx
    | err m =>
      rw [attemptItem_eq, hg] at ha
      simp only [hst, hx, finishAttempt, Prod.mk.injEq] at ha
      cases ha.2
    | panic m =>
      rw [attemptItem_eq, hg] at ha
      simp only [hst, hx, finishAttempt, Prod.mk.injEq] at ha
      cases ha.2

theorem runRound_swap_ok (hloc : ∀ s, LocalEq p d d' K s) (l : List Path) (s s1 : State)
    (h : runRound s l = (s1, .ok ())) (hpk : PK p K s1) :
    runRound (swapS p d d' s) l = (swapS p d d' s1, .ok ()) := by
  induction l generalizing s with
  | nil =>
    simp only [runRound, Prod.mk.injEq, and_true] at h
    subst h; rfl
  | cons q qs ih =>
    cases ha : attemptItem s q with
    | mk s2 r2 =>
      cases r2 with
      | ok u =>
        cases u
        rw [runRound_cons_ok s s2 q qs ha] at h
        have hk2 : PK p K s2 := by
          have := runRound_keeps p qs s2
          rw [h] at this
          exact PK.of_keeps p K this hpk
        have hsw := attemptItem_swap p d d' s q (fun i hq hg hst => by
          rw [hq] at ha
          exact eqAt_of_ok p d d' K s s2 (hloc s) ha hk2 i hg hst)
        rw [ha] at hsw
        rw [runRound_cons_ok _ _ q qs hsw]
        exact ih s2 h
      | defer => rw [runRound_cons_stop s s2 q qs _ ha (by simp)] at h; simp only [Prod.mk.injEq] at h; cases h.2
      | err m => rw [runRound_cons_stop s s2 q qs _ ha (by simp)] at h; simp only [Prod.mk.injEq] at h; cases h.2
      | panic m => rw [runRound_cons_stop s s2 q qs _ ha (by simp)] at h; simp only [Prod.mk.injEq] at h; cases h.2

theorem resolveLoop_swap_ok (hloc : ∀ s, LocalEq p d d' K s) (prio : List Path) (fuel : Nat) (s sf : State)
    (h : resolveLoop prio fuel s = .ok sf) (hpk : PK p K sf) :
    resolveLoop prio fuel (swapS p d d' s) = .ok (swapS p d d' sf) := by
  induction fuel generalizing s with
  | zero => cases h
  | succ n ih =>
    rcases resolveLoop_ok_inv prio n s sf h with ⟨he, rfl⟩ | ⟨he, s1, hr, hc, hl⟩
    · unfold resolveLoop
      simp only [swapS_reg, swapR_unresolved, he, if_true]
    · have hk1 : PK p K s1 := PK.of_keeps p K (resolveLoop_keeps p prio n s1 sf hl) hpk
      have hr' := runRound_swap_ok p d d' K hloc _ s s1 hr hk1
      unfold resolveLoop
      simp only [swapS_reg, swapR_unresolved, he, Bool.false_eq_true, if_false, hr', swapR_length, hc]
      exact ih s1 hl

theorem build_swap_ok (hloc : ∀ s, LocalEq p d d' K s) (prio : List Path) (s sf : State)
    (h : s.build prio = .ok sf) (hpk : PK p K sf) :
    (swapS p d d' s).build prio = .ok (swapS p d d' sf) := by
  unfold State.build at h
  simp only [] at h
  split at h
  · next s1 hl =>
    split at h
    · next ms hms =>
      simp only [BuildOutcome.ok.injEq] at h
      subst h
      have hl' := resolveLoop_swap_ok p d d' K hloc prio _ s s1 hl hpk
      unfold State.build
      simp only [swapS_reg, swapR_nItems]
      rw [hl']
      simp only [swapS_reg, resolveXVals_sim (swapR_sim p d d' s1.reg)]
      rw [show (swapS p d d' s1).modules = s1.modules from rfl, hms]
      rfl
    · cases h
    · cases h
    · cases h
  · next hne => exact (hne sf h).elim

end okrun

/-- the run of the rewritten case along an accepted run of the original one: it is enough that the attempt
    on `d'` repeats every retry of the attempt on `d` and repeats a success whose value has the property
    `K` that the final value of the item has -/
theorem run_replaced_ok (c c' : Case) (p : Path) (d d' : G.Item) (h : ReplacedDef c c' p d d')
    (hname : d'.name = d.name) (hvis : d'.vis = d.vis) (hk : isTypeDef d' = isTypeDef d)
    (K : Resolved → Prop) (hloc : ∀ s, LocalEq p d d' K s) (sf : State) (hrun : c.run = .ok sf)
    (hpk : PK p K sf) : c'.run = mapO (swapS p d d') c.run := by
  obtain ⟨_, hprio, hinit⟩ := initialState_of_replaced c c' p d d' h hname hvis hk
  rw [hrun]
  unfold Case.run at hrun ⊢
  rw [hinit, hprio]
  cases hi : c.initialState with
  | ok s0 =>
    rw [hi] at hrun
    exact build_swap_ok p d d' K hloc c.prio s0 sf hrun hpk
  | defer => rw [hi] at hrun; cases hrun
  | err m => rw [hi] at hrun; cases hrun
  | panic m => rw [hi] at hrun; cases hrun

/-- the definition `d` (a type) with `#[size(N)]` added -/
def sizeRewrite (d : G.Item) (td : G.TypeDef) (N : Nat) : G.Item := { d with inner := .type (withSize td N) }

theorem sizeRewrite_local (d : G.Item) (td : G.TypeDef) (N : Nat) (hd : d.inner = .type td) (hns : NoSizeAttr td)
    (p : Path) (s : State) : LocalEq p d (sizeRewrite d td N) (fun r => r.size = N) s := by
  have e1 : attemptDef s p d = buildType s p d.vis td := by unfold attemptDef; rw [hd]
  have e2 : attemptDef s p (sizeRewrite d td N) = buildType s p d.vis (withSize td N) := rfl
  unfold LocalEq
  rw [e1, e2]
  exact buildType_withSize_local s p d.vis td N hns

theorem natural_size_run (c c' : Case) (p : Path) (d : G.Item) (td : G.TypeDef) (N : Nat)
    (hd : d.inner = .type td) (hns : NoSizeAttr td) (h : ReplacedDef c c' p d (sizeRewrite d td N))
    (sf : State) (hrun : c.run = .ok sf)
    (hsz : ∃ i r, sf.reg.get p = some i ∧ i.state = .res r ∧ r.size = N) :
    c'.run = mapO (swapS p d (sizeRewrite d td N)) c.run := by
  refine run_replaced_ok c c' p d _ h rfl rfl ?_ (fun r => r.size = N)
    (sizeRewrite_local d td N hd hns p) sf hrun ?_
  · unfold isTypeDef sizeRewrite; rw [hd]
  · obtain ⟨i, r, hg, hr, hs⟩ := hsz
    intro i' r' hg' hr'
    rw [hg] at hg'; cases hg'
    rw [hr] at hr'; cases hr'
    exact hs

theorem typeAttrStep_targetSize (st st' : TypeAttrs) (a : G.Attr) (ha : ∀ args, a ≠ .fn "size" args)
    (h : typeAttrStep st a = .ok st') : st'.targetSize = st.targetSize := by
  unfold typeAttrStep at h
  split at h
  · exact (ha _ rfl).elim
  · split at h
    · cases h; rfl
    · cases h
  · split at h
    · cases h; rfl
    · cases h
  · cases h; rfl
  · cases h; rfl
  · cases h; rfl
  · cases h; rfl
  · cases h; rfl

/-- a type without a `#[size(..)]` attribute -/
theorem noSizeAttr_of_attrs (td : G.TypeDef) (h : ∀ a ∈ td.attrs, ∀ args, a ≠ .fn "size" args) : NoSizeAttr td := by
  intro ta hta
  have : ∀ (l : List G.Attr) (st st' : TypeAttrs), (∀ a ∈ l, ∀ args, a ≠ .fn "size" args) →
      Res.foldlM typeAttrStep st l = .ok st' → st'.targetSize = st.targetSize := by
    intro l
    induction l with
    | nil => intro st st' _ hh; cases hh; rfl
    | cons a l ih =>
      intro st st' hl hh
      simp only [Res.foldlM] at hh
      cases hs : typeAttrStep st a with
      | ok st1 =>
        rw [hs] at hh
        rw [ih st1 st' (fun a ha => hl a (List.mem_cons_of_mem _ ha)) hh]
        exact typeAttrStep_targetSize st st1 a (hl a (List.mem_cons_self)) hs
      | _ => rw [hs] at hh; cases hh
  exact this td.attrs {} ta h hta


/-! ## (c) an address attribute equal to the natural offset -/

theorem docOf_append_fn (attrs : List G.Attr) (n : String) (args : List G.Expr) :
    G.docOf (attrs ++ [.fn n args]) = G.docOf attrs := by
  simp only [G.docOf, List.foldl_append, List.foldl_cons, List.foldl_nil]
  split
  · next h => exact h.symm
  · next h => exact h.symm

/-- `#[address(A)]` -/
def addrAttr (A : Nat) : G.Attr := .fn "address" [.int (A : Int)]

/-- the statement with `#[address(A)]` added -/
def withAddr (st : G.Stmt) (A : Nat) : G.Stmt := { st with attrs := st.attrs ++ [addrAttr A] }

/-- the attribute loop of the field leaves its address unset: the field has no `#[address]` attribute -/
def NoAddrAttr (st : G.Stmt) : Prop :=
  ∀ fa, Res.foldlM fieldAttrStep {} st.attrs = .ok fa → fa.address = none

theorem fieldAttrs_withAddr (st : G.Stmt) (A : Nat) :
    Res.foldlM fieldAttrStep {} (withAddr st A).attrs
      = Res.bind (Res.foldlM fieldAttrStep {} st.attrs) (fun fa => .ok { fa with address := some A }) := by
  simp only [withAddr, foldlM_append]
  cases Res.foldlM fieldAttrStep {} st.attrs with
  | ok fa => simp only [Res.bind, Res.foldlM, addrAttr, fieldAttrStep, tryUsize_nat]
  | _ => rfl

/-- the statement accumulators of the two descriptions: the same, except that the `K`-th pending field
    carries the address `A` in the second -/
def AR (A K : Nat) (acc acc' : StmtAcc) : Prop :=
  acc'.vfns = acc.vfns ∧ ∃ ppre r ppost, ppre.length = K ∧
    acc.pending = ppre ++ (none, r) :: ppost ∧ acc'.pending = ppre ++ (some A, r) :: ppost

theorem AR.names {A K : Nat} {acc acc' : StmtAcc} (h : AR A K acc acc') (ident : Option String) :
    acc'.pending.any (fun p => p.2.name == ident) = acc.pending.any (fun p => p.2.name == ident) := by
  obtain ⟨_, ppre, r, ppost, _, h1, h2⟩ := h
  rw [h1, h2]
  simp only [List.any_append, List.any_cons]

/-- two outcomes: the same failure, or two successes related by `R` -/
def RelRes {α} (R : α → α → Prop) (x y : Res α) : Prop :=
  (x = y ∧ ∀ a, x ≠ .ok a) ∨ ∃ a b, x = .ok a ∧ y = .ok b ∧ R a b

theorem stmtStep_AR (A K : Nat) (reg : Registry) (scope : List Path) (acc acc' : StmtAcc) (h : AR A K acc acc')
    (ist : Nat × G.Stmt) : RelRes (AR A K) (stmtStep reg scope acc ist) (stmtStep reg scope acc' ist) := by
  obtain ⟨idx, st⟩ := ist
  unfold stmtStep
  simp only []
  cases hf : st.field with
  | field vis name ty =>
    simp only []
    cases G.docOf st.attrs with
    | none => exact Or.inl ⟨rfl, fun a h => by cases h⟩
    | some doc =>
      simp only []
      cases Res.foldlM fieldAttrStep {} st.attrs with
      | ok fa =>
        simp only []
        by_cases hb : (fa.isBase && name == "_") = true
        · rw [if_pos hb, if_pos hb]; exact Or.inl ⟨rfl, fun a h => by cases h⟩
        · rw [if_neg hb, if_neg hb]
          cases reg.resolveTy scope ty with
          | ok t =>
            simp only [h.names]
            generalize (if (name != "_") = true then some name else none) = ident
            by_cases hd : (ident.isSome && acc.pending.any fun p => p.2.name == ident) = true
            · rw [if_pos hd, if_pos hd]; exact Or.inl ⟨rfl, fun a h => by cases h⟩
            · rw [if_neg hd, if_neg hd]
              refine Or.inr ⟨_, _, rfl, rfl, h.1, ?_⟩
              obtain ⟨_, ppre, r, ppost, hk, h1, h2⟩ := h
              exact ⟨ppre, r, ppost ++ [(fa.address, { vis, name := ident, doc, ty := .data t, isBase := fa.isBase })],
                hk, by simp [h1], by simp [h2]⟩
          | defer => exact Or.inl ⟨rfl, fun a h => by cases h⟩
          | err m => exact Or.inl ⟨rfl, fun a h => by cases h⟩
          | panic m => exact Or.inl ⟨rfl, fun a h => by cases h⟩
      | defer => exact Or.inl ⟨rfl, fun a h => by cases h⟩
      | err m => exact Or.inl ⟨rfl, fun a h => by cases h⟩
      | panic m => exact Or.inl ⟨rfl, fun a h => by cases h⟩
  | vftable fns =>
    simp only []
    split
    · exact Or.inl ⟨rfl, fun a h => by cases h⟩
    · split
      · exact Or.inl ⟨rfl, fun a h => by cases h⟩
      · cases vftableSizeAttr st.attrs with
        | ok size =>
          simp only []
          cases convertVfuncs reg scope size fns with
          | ok sfs =>
            refine Or.inr ⟨_, _, rfl, rfl, rfl, ?_⟩
            obtain ⟨_, ppre, r, ppost, hk, h1, h2⟩ := h
            exact ⟨ppre, r, ppost, hk, h1, h2⟩
          | defer => exact Or.inl ⟨rfl, fun a h => by cases h⟩
          | err m => exact Or.inl ⟨rfl, fun a h => by cases h⟩
          | panic m => exact Or.inl ⟨rfl, fun a h => by cases h⟩
        | defer => exact Or.inl ⟨rfl, fun a h => by cases h⟩
        | err m => exact Or.inl ⟨rfl, fun a h => by cases h⟩
        | panic m => exact Or.inl ⟨rfl, fun a h => by cases h⟩

theorem foldlM_RelRes {α β} (R : β → β → Prop) (f : β → α → Res β)
    (hf : ∀ b b' a, R b b' → RelRes R (f b a) (f b' a)) (l : List α) (b b' : β) (h : R b b') :
    RelRes R (Res.foldlM f b l) (Res.foldlM f b' l) := by
  induction l generalizing b b' with
  | nil => exact Or.inr ⟨b, b', rfl, rfl, h⟩
  | cons a l ih =>
    simp only [Res.foldlM]
    rcases hf b b' a h with ⟨he, hn⟩ | ⟨c, c', h1, h2, hr⟩
    · rw [← he]
      cases hx : f b a with
      | ok c => exact (hn c hx).elim
      | defer => exact Or.inl ⟨rfl, fun a h => by cases h⟩
      | err m => exact Or.inl ⟨rfl, fun a h => by cases h⟩
      | panic m => exact Or.inl ⟨rfl, fun a h => by cases h⟩
    · rw [h1, h2]
      exact ih c c' hr

theorem stmtStep_withAddr (A : Nat) (reg : Registry) (scope : List Path) (acc : StmtAcc) (idx : Nat) (st : G.Stmt)
    (vis : G.Vis) (name : String) (ty : G.Ty) (hf : st.field = .field vis name ty) (hna : NoAddrAttr st) :
    RelRes (AR A acc.pending.length) (stmtStep reg scope acc (idx, st)) (stmtStep reg scope acc (idx, withAddr st A)) := by
  unfold stmtStep
  simp only [show (withAddr st A).field = st.field from rfl, hf]
  rw [show (withAddr st A).attrs = st.attrs ++ [addrAttr A] from rfl, addrAttr, docOf_append_fn]
  cases G.docOf st.attrs with
  | none => exact Or.inl ⟨rfl, fun a h => by cases h⟩
  | some doc =>
    simp only []
    have hfa := fieldAttrs_withAddr st A
    rw [show (withAddr st A).attrs = st.attrs ++ [addrAttr A] from rfl, addrAttr] at hfa
    rw [hfa]
    cases hfold : Res.foldlM fieldAttrStep {} st.attrs with
    | ok fa =>
      simp only [Res.bind]
      by_cases hb : (fa.isBase && name == "_") = true
      · rw [if_pos hb, if_pos hb]; exact Or.inl ⟨rfl, fun a h => by cases h⟩
      · rw [if_neg hb, if_neg hb]
        cases reg.resolveTy scope ty with
        | ok t =>
          simp only []
          generalize (if (name != "_") = true then some name else none) = ident
          by_cases hd : (ident.isSome && acc.pending.any fun p => p.2.name == ident) = true
          · rw [if_pos hd, if_pos hd]; exact Or.inl ⟨rfl, fun a h => by cases h⟩
          · rw [if_neg hd, if_neg hd]
            refine Or.inr ⟨_, _, rfl, rfl, rfl, ?_⟩
            exact ⟨acc.pending, _, [], rfl, by rw [hna fa hfold], rfl⟩
        | defer => exact Or.inl ⟨rfl, fun a h => by cases h⟩
        | err m => exact Or.inl ⟨rfl, fun a h => by cases h⟩
        | panic m => exact Or.inl ⟨rfl, fun a h => by cases h⟩
    | defer => exact Or.inl ⟨rfl, fun a h => by cases h⟩
    | err m => exact Or.inl ⟨rfl, fun a h => by cases h⟩
    | panic m => exact Or.inl ⟨rfl, fun a h => by cases h⟩

/-- the statement loop of the two descriptions -/
theorem stmtFold_addr (A : Nat) (reg : Registry) (scope : List Path) (spre spost : List G.Stmt) (st : G.Stmt)
    (vis : G.Vis) (name : String) (ty : G.Ty) (hf : st.field = .field vis name ty) (hna : NoAddrAttr st) :
    RelRes (AR A (spre.filter C01.isFieldStmt).length)
      (Res.foldlM (stmtStep reg scope) {} ((spre ++ st :: spost).zipIdx.map fun p => (p.2, p.1)))
      (Res.foldlM (stmtStep reg scope) {} ((spre ++ withAddr st A :: spost).zipIdx.map fun p => (p.2, p.1))) := by
  simp only [List.zipIdx_append, List.zipIdx_cons, List.map_append, List.map_cons, foldlM_append]
  cases hp : Res.foldlM (stmtStep reg scope) {} (List.map (fun p => (p.2, p.1)) spre.zipIdx) with
  | ok acc =>
    have hlen : acc.pending.length = (spre.filter C01.isFieldStmt).length := by
      have := C01.stmts_pending reg scope _ {} acc hp
      rw [C01.zipIdx_swap_snd] at this
      simpa using this
    simp only [Res.bind, Res.foldlM]
    rcases stmtStep_withAddr A reg scope acc (0 + spre.length) st vis name ty hf hna with ⟨he, hn⟩ | ⟨a, a', h1, h2, hr⟩
    · rw [← he]
      cases hx : stmtStep reg scope acc (0 + spre.length, st) with
      | ok c => exact (hn c hx).elim
      | defer => exact Or.inl ⟨rfl, fun a h => by cases h⟩
      | err m => exact Or.inl ⟨rfl, fun a h => by cases h⟩
      | panic m => exact Or.inl ⟨rfl, fun a h => by cases h⟩
    · rw [h1, h2]
      rw [hlen] at hr
      exact foldlM_RelRes _ _ (fun b b' x hbb => stmtStep_AR A _ reg scope b b' hbb x) _ a a' hr
  | defer => exact Or.inl ⟨rfl, fun a h => by cases h⟩
  | err m => exact Or.inl ⟨rfl, fun a h => by cases h⟩
  | panic m => exact Or.inl ⟨rfl, fun a h => by cases h⟩

/-- `resolve_regions` as a function of the declared size and of the addresses of the pending fields -/
theorem resolveRegions_shape2 (s : State) (owner : Path) (vis : Vis) (pending : List (Option Nat × Region))
    (vfns : Option (List SFunc)) :
    (∃ s1 e, (∀ x, e ≠ .ok x) ∧ ∀ target pending', pending'.map (·.2) = pending.map (·.2) →
      resolveRegions s owner vis target pending' vfns = (s1, e)) ∨
    (∃ s1 vft vregion,
      buildVftable s owner vis ((pending.map (·.2)).find? (·.isBase)) vfns = (s1, .ok (vft, vregion)) ∧
      ∀ target pending', pending'.map (·.2) = pending.map (·.2) →
        resolveRegions s owner vis target pending' vfns = (s1, rrTail s1.reg pending' target vft vregion)) := by
  have main : ∀ fb, (pending.map (·.2)).find? (·.isBase) = fb →
      (∀ target pending', pending'.map (·.2) = pending.map (·.2) →
        resolveRegions s owner vis target pending' vfns =
        (match buildVftable s owner vis fb vfns with
         | (s1, .ok (vft, vregion)) => (s1, rrTail s1.reg pending' target vft vregion)
         | (s1, e) => (s1, e.cast))) →
      (∃ s1 e, (∀ x, e ≠ .ok x) ∧ ∀ target pending', pending'.map (·.2) = pending.map (·.2) →
        resolveRegions s owner vis target pending' vfns = (s1, e)) ∨
      (∃ s1 vft vregion,
        buildVftable s owner vis fb vfns = (s1, .ok (vft, vregion)) ∧
        ∀ target pending', pending'.map (·.2) = pending.map (·.2) →
          resolveRegions s owner vis target pending' vfns = (s1, rrTail s1.reg pending' target vft vregion)) := by
    intro fb hfb h
    cases hb : buildVftable s owner vis fb vfns with
    | mk s1 res =>
      cases res with
      | ok x =>
        obtain ⟨vft, vregion⟩ := x
        right
        exact ⟨s1, vft, vregion, rfl, fun target pending' hp => by rw [h target pending' hp, hb]⟩
      | defer =>
        left; exact ⟨s1, .defer, (fun x h => by cases h), fun target pending' hp => by rw [h target pending' hp, hb]; rfl⟩
      | err m =>
        left; exact ⟨s1, .err m, (fun x h => by cases h), fun target pending' hp => by rw [h target pending' hp, hb]; rfl⟩
      | panic m =>
        left; exact ⟨s1, .panic m, (fun x h => by cases h), fun target pending' hp => by rw [h target pending' hp, hb]; rfl⟩
  cases hfb : (pending.map (·.2)).find? (·.isBase) with
  | none =>
    refine main none hfb ?_
    intro target pending' hp
    unfold resolveRegions
    simp only [hp, hfb]
    rfl
  | some b =>
    cases hsz : b.ty.size s.reg with
    | ok o =>
      cases o with
      | none =>
        left
        refine ⟨s, .defer, (fun x h => by cases h), fun target pending' hp => ?_⟩
        unfold resolveRegions
        simp only [hp, hfb, hsz]
      | some n =>
        refine main (some b) hfb ?_
        intro target pending' hp
        unfold resolveRegions
        simp only [hp, hfb, hsz]
        rfl
    | defer =>
      left
      refine ⟨s, .defer, (fun x h => by cases h), fun target pending' hp => ?_⟩
      unfold resolveRegions
      simp only [hp, hfb, hsz]
    | err m =>
      left
      refine ⟨s, .err m, (fun x h => by cases h), fun target pending' hp => ?_⟩
      unfold resolveRegions
      simp only [hp, hfb, hsz]
    | panic m =>
      left
      refine ⟨s, .panic m, (fun x h => by cases h), fun target pending' hp => ?_⟩
      unfold resolveRegions
      simp only [hp, hfb, hsz]

/-- the state in which the placement loop starts: after the vftable pointer, if the type owns one -/
def placeStart (reg : Registry) (vregion : Option Region) : Res (St Region) :=
  match vregion with
  | some v => pushField ([], 0) (toPField reg none v)
  | none => .ok ([], 0)

theorem resolve_placeStart (reg : Registry) (vregion : Option Region) (fields : List (PField Region))
    (target : Option Nat) :
    Layout.resolve (vregion.map (toPField reg none)) fields target
      = resolveFrom (placeStart reg vregion) fields target := by
  cases vregion <;> rfl

theorem resolveFrom_addr (start : Res (St Region)) (fpre fpost : List (PField Region)) (f : PField Region)
    (A : Nat) (target : Option Nat)
    (hc : ∀ st0 st1, start = .ok st0 → place st0 fpre = .ok st1 → st1.2 = A) :
    resolveFrom start (fpre ++ { f with addr := some A } :: fpost) target
      = resolveFrom start (fpre ++ { f with addr := none } :: fpost) target := by
  cases start with
  | ok st0 =>
    have : place st0 (fpre ++ { f with addr := some A } :: fpost) = place st0 (fpre ++ { f with addr := none } :: fpost) := by
      cases hp : place st0 fpre with
      | ok st1 =>
        rw [← hc st0 st1 rfl hp]
        exact explicit_address_noop_at_lem st0 st1 fpre f fpost hp
      | defer => rw [place_append, place_append, hp]; rfl
      | err m => rw [place_append, place_append, hp]; rfl
      | panic m => rw [place_append, place_append, hp]; rfl
    unfold resolveFrom
    simp only [this]
  | _ => rfl

theorem rrTail_addr (reg : Registry) (ppre ppost : List (Option Nat × Region)) (r : Region) (A : Nat)
    (target : Option Nat) (vft : Option Vft) (vregion : Option Region)
    (hc : ∀ st0 st1, placeStart reg vregion = .ok st0 →
      place st0 (ppre.map fun p => toPField reg p.1 p.2) = .ok st1 → st1.2 = A) :
    rrTail reg (ppre ++ (some A, r) :: ppost) target vft vregion
      = rrTail reg (ppre ++ (none, r) :: ppost) target vft vregion := by
  unfold rrTail
  simp only [resolve_placeStart, List.map_append, List.map_cons]
  rw [show toPField reg (some A) r = { toPField reg none r with addr := some A } from rfl,
      show toPField reg none r = { toPField reg none r with addr := none } from rfl,
      resolveFrom_addr (placeStart reg vregion) _ _ (toPField reg none r) A target hc]

/-- the offset at which the placement loop of `resolve_regions` arrives at the `k`-th pending field of the
    type, in the state `s` (`none` if the build does not get that far in `s`) -/
def naturalOffset (s : State) (path : Path) (vis : Vis) (td : G.TypeDef) (k : Nat) : Option Nat :=
  match s.moduleFor path with
  | none => none
  | some module =>
    match Res.foldlM (stmtStep s.reg module.scope) {} (td.stmts.zipIdx.map fun p => (p.2, p.1)) with
    | .ok sa =>
      match buildVftable s path vis ((sa.pending.map (·.2)).find? (·.isBase)) sa.vfns with
      | (s1, .ok (_, vregion)) =>
        match placeStart s1.reg vregion with
        | .ok st0 =>
          match place st0 ((sa.pending.take k).map fun p => toPField s1.reg p.1 p.2) with
          | .ok st1 => some st1.2
          | _ => none
        | _ => none
      | _ => none
    | _ => none

theorem btCore_addr (s : State) (path : Path) (vis : Vis) (doc : Option String) (ta : TypeAttrs)
    (target : Option Nat) (sa sa' : StmtAcc) (A K : Nat) (har : AR A K sa sa')
    (hc : ∀ s1 vft vregion st0 st1,
      buildVftable s path vis ((sa.pending.map (·.2)).find? (·.isBase)) sa.vfns = (s1, .ok (vft, vregion)) →
      placeStart s1.reg vregion = .ok st0 →
      place st0 ((sa.pending.take K).map fun p => toPField s1.reg p.1 p.2) = .ok st1 → st1.2 = A) :
    btCore s path vis doc ta target sa' = btCore s path vis doc ta target sa := by
  obtain ⟨hv, ppre, r, ppost, hk, h1, h2⟩ := har
  have hmap : sa'.pending.map (·.2) = sa.pending.map (·.2) := by
    rw [h1, h2]; simp only [List.map_append, List.map_cons]
  unfold btCore
  rw [hv]
  rcases resolveRegions_shape2 s path vis sa.pending sa.vfns with ⟨s1, e, _, h⟩ | ⟨s1, vft, vregion, hb, h⟩
  · rw [h target sa'.pending hmap, h target sa.pending rfl]
  · rw [h target sa'.pending hmap, h target sa.pending rfl, h1, h2]
    rw [rrTail_addr s1.reg ppre ppost r A target vft vregion]
    intro st0 st1 h0 hp
    refine hc s1 vft vregion st0 st1 hb h0 ?_
    rw [h1, List.take_left' hk]
    exact hp

/-- the definition `d` (a type) with `#[address(A)]` added to the field statement `st` -/
def addrRewrite (d : G.Item) (td : G.TypeDef) (spre spost : List G.Stmt) (st : G.Stmt) (A : Nat) : G.Item :=
  { d with inner := .type { td with stmts := spre ++ withAddr st A :: spost } }

theorem buildType_addr (s : State) (path : Path) (vis : Vis) (td : G.TypeDef) (spre spost : List G.Stmt)
    (st : G.Stmt) (fvis : G.Vis) (name : String) (ty : G.Ty) (A : Nat)
    (hs : td.stmts = spre ++ st :: spost) (hf : st.field = .field fvis name ty) (hna : NoAddrAttr st)
    (hoff : ∀ a, naturalOffset s path vis td (spre.filter C01.isFieldStmt).length = some a → a = A) :
    buildType s path vis { td with stmts := spre ++ withAddr st A :: spost } = buildType s path vis td := by
  cases h1 : s.moduleFor path with
  | none => unfold buildType; simp only [h1]
  | some module =>
    cases h2 : G.docOf td.attrs with
    | none => unfold buildType; simp only [h1, h2]
    | some doc =>
      cases h3 : Res.foldlM typeAttrStep {} td.attrs with
      | ok ta =>
        rcases stmtFold_addr A s.reg module.scope spre spost st fvis name ty hf hna with ⟨he, hn⟩ | ⟨sa, sa', e1, e2, har⟩
        · unfold buildType
          simp only [h1, h2, h3, hs, ← he]
        · rw [← hs] at e1
          rw [buildType_core s path vis td module doc ta sa h1 h2 h3 e1,
              buildType_core s path vis { td with stmts := spre ++ withAddr st A :: spost } module doc ta sa' h1 h2 h3 e2]
          refine btCore_addr s path vis doc ta ta.targetSize sa sa' A _ har ?_
          intro s1 vft vregion st0 st1 hb h0 hp
          apply hoff
          unfold naturalOffset
          simp only [h1, e1, hb, h0, hp]
      | defer => unfold buildType; simp only [h1, h2, h3]
      | err m => unfold buildType; simp only [h1, h2, h3]
      | panic m => unfold buildType; simp only [h1, h2, h3]

/-- the states the resolution of case `c` can be in: the state after `add_module`, and every state reached
    from it by attempts (in any order) -/
inductive Visited (c : Case) : State → Prop
  | init (s0 : State) : c.initialState = .ok s0 → Visited c s0
  | step (s : State) (q : Path) : Visited c s → Visited c (attemptItem s q).1

theorem explicit_address_run (c c' : Case) (p : Path) (d : G.Item) (td : G.TypeDef) (spre spost : List G.Stmt)
    (st : G.Stmt) (fvis : G.Vis) (name : String) (ty : G.Ty) (A : Nat)
    (hd : d.inner = .type td) (hs : td.stmts = spre ++ st :: spost) (hf : st.field = .field fvis name ty)
    (hna : NoAddrAttr st) (h : ReplacedDef c c' p d (addrRewrite d td spre spost st A))
    (hoff : ∀ s, Visited c s → ∀ i, s.reg.get p = some i → i.state = .unres d →
      ∀ a, naturalOffset s p d.vis td (spre.filter C01.isFieldStmt).length = some a → a = A) :
    c'.run = mapO (swapS p d (addrRewrite d td spre spost st A)) c.run := by
  refine run_replaced_on c c' p d _ h rfl rfl ?_ (Visited c) (fun s0 h0 => .init s0 h0)
    (fun s q hs => .step s q hs) ?_
  · unfold isTypeDef addrRewrite; rw [hd]
  · intro s hv i hg hst
    have e1 : attemptDef s p d = buildType s p d.vis td := by unfold attemptDef; rw [hd]
    have e2 : attemptDef s p (addrRewrite d td spre spost st A)
        = buildType s p d.vis { td with stmts := spre ++ withAddr st A :: spost } := rfl
    rw [e1, e2]
    exact buildType_addr s p d.vis td spre spost st fvis name ty A hs hf hna (hoff s hv i hg hst)

theorem fieldAttrStep_address (fa fa' : FieldAttrs) (a : G.Attr) (ha : ∀ args, a ≠ .fn "address" args)
    (h : fieldAttrStep fa a = .ok fa') : fa'.address = fa.address := by
  unfold fieldAttrStep at h
  split at h
  · cases h; rfl
  · exact (ha _ rfl).elim
  · cases h; rfl

/-- a field without an `#[address(..)]` attribute -/
theorem noAddrAttr_of_attrs (st : G.Stmt) (h : ∀ a ∈ st.attrs, ∀ args, a ≠ .fn "address" args) : NoAddrAttr st := by
  intro fa hfa
  have : ∀ (l : List G.Attr) (x x' : FieldAttrs), (∀ a ∈ l, ∀ args, a ≠ .fn "address" args) →
      Res.foldlM fieldAttrStep x l = .ok x' → x'.address = x.address := by
    intro l
    induction l with
    | nil => intro x x' _ hh; cases hh; rfl
    | cons a l ih =>
      intro x x' hl hh
      simp only [Res.foldlM] at hh
      cases hs : fieldAttrStep x a with
      | ok x1 =>
        rw [hs] at hh
        rw [ih x1 x' (fun a ha => hl a (List.mem_cons_of_mem _ ha)) hh]
        exact fieldAttrStep_address x x1 a (hl a (List.mem_cons_self)) hs
      | _ => rw [hs] at hh; cases hh
  exact this st.attrs {} fa h hfa


/-! ## (e) reordering the definitions of a module -/

theorem sortPaths_perm (l l' : List Path) (h : l'.Perm l) : l'.mergeSort Path.le = l.mergeSort Path.le :=
  mergeSort_perm_eq Path.le ple_trans ple_total l' l h (fun a b _ _ h1 h2 => ple_antisymm a b h1 h2)

/-- a module with its definition paths in canonical (sorted) order -/
def canonM (m : Mod) : Mod := { m with defPaths := m.defPaths.mergeSort Path.le }

def canonE (e : Path × Mod) : Path × Mod := (e.1, canonM e.2)

theorem canonM_perm {m m' : Mod} (h : canonM m' = canonM m) : m'.defPaths.Perm m.defPaths := by
  have : m'.defPaths.mergeSort Path.le = m.defPaths.mergeSort Path.le := congrArg Mod.defPaths h
  exact ((List.mergeSort_perm m'.defPaths Path.le).symm.trans (this ▸ List.Perm.refl _)).trans
    (List.mergeSort_perm m.defPaths Path.le)

theorem canonM_rest {m m' : Mod} (h : canonM m' = canonM m) : m' = { m with defPaths := m'.defPaths } := by
  cases m; cases m'
  simp only [canonM, Mod.mk.injEq] at h ⊢
  obtain ⟨h1, h2, _, h4, h5, h6, h7⟩ := h
  exact ⟨h1, h2, trivial, h4, h5, h6, h7⟩

theorem canonM_scope {m m' : Mod} (h : canonM m' = canonM m) : m'.scope = m.scope := by
  rw [canonM_rest h]; rfl

theorem canonM_implFor {m m' : Mod} (h : canonM m' = canonM m) (p : Path) : m'.implFor p = m.implFor p := by
  rw [canonM_rest h]; rfl

/-- two states that differ only in the order of the registry entries and of the definition paths of the
    modules -/
structure PermS (s s' : State) : Prop where
  ps : s'.reg.ps = s.reg.ps
  get : ∀ q, s'.reg.get q = s.reg.get q
  perm : s'.reg.types.Perm s.reg.types
  mods : s'.modules.map canonE = s.modules.map canonE

theorem PermS.refl (s : State) : PermS s s := ⟨rfl, fun _ => rfl, List.Perm.refl _, rfl⟩

theorem PermS.trans {s1 s2 s3 : State} (h1 : PermS s1 s2) (h2 : PermS s2 s3) : PermS s1 s3 :=
  ⟨h2.ps.trans h1.ps, fun q => (h2.get q).trans (h1.get q), h2.perm.trans h1.perm, h2.mods.trans h1.mods⟩

theorem PermS.regSim {s s' : State} (h : PermS s s') : RegSim s.reg s'.reg :=
  ⟨h.ps, h.perm.length_eq, fun q => by rw [h.get q]⟩

theorem PermS.getModule {s s' : State} (h : PermS s s') (q : Path) :
    (s'.getModule q).map canonM = (s.getModule q).map canonM := by
  have e : ∀ (ms : List (Path × Mod)), List.lookup q (ms.map canonE) = (List.lookup q ms).map canonM := by
    intro ms
    exact Mono.lookup_map_val (fun _ m => canonM m) ms q
  unfold State.getModule
  rw [← e, ← e, h.mods]

theorem PermS.moduleFor {s s' : State} (h : PermS s s') (q : Path) :
    (s'.moduleFor q).map canonM = (s.moduleFor q).map canonM := by
  unfold State.moduleFor
  cases Path.parent? q with
  | none => rfl
  | some parent => exact h.getModule parent

theorem PermS.unresolved {s s' : State} (h : PermS s s') (prio : List Path) :
    s'.reg.unresolved prio = s.reg.unresolved prio :=
  unresolved_order_lem s.reg s'.reg prio h.perm

theorem PermS.nItems {s s' : State} (h : PermS s s') :
    (s'.reg.types.filter fun e => !e.2.isResolved).length = (s.reg.types.filter fun e => !e.2.isResolved).length :=
  (h.perm.filter _).length_eq

/-- two outcomes: the same failure, or two successes related by `R` (with the state component) -/
def RelSt (x y : State × Res α) : Prop := PermS x.1 y.1 ∧ y.2 = x.2

theorem addItem_perm {s s' : State} (h : PermS s s') (i : ItemDef) :
    RelRes PermS (s.addItem i) (s'.addItem i) := by
  unfold State.addItem
  cases Path.parent? i.path with
  | none => exact Or.inl ⟨rfl, fun a h => by cases h⟩
  | some parent =>
    simp only []
    have hm := h.getModule parent
    cases h1 : s.getModule parent with
    | none =>
      rw [h1] at hm
      cases h2 : s'.getModule parent with
      | none => exact Or.inl ⟨rfl, fun a h => by cases h⟩
      | some m' => rw [h2] at hm; cases hm
    | some m =>
      rw [h1] at hm
      cases h2 : s'.getModule parent with
      | none => rw [h2] at hm; cases hm
      | some m' =>
        rw [h2] at hm
        simp only [Option.map_some, Option.some.injEq] at hm
        refine Or.inr ⟨_, _, rfl, rfl, ?_⟩
        have hperm := canonM_perm hm
        have hrest := canonM_rest hm
        refine ⟨h.ps, ?_, ?_, ?_⟩
        · intro q
          simp only [C14.get_add, h.get]
        · simp only [Registry.add]
          exact List.Perm.cons _ (h.perm.filter _)
        · simp only [List.map_map]
          have hnew : canonM { m' with defPaths := if m'.defPaths.contains i.path then m'.defPaths else i.path :: m'.defPaths }
              = canonM { m with defPaths := if m.defPaths.contains i.path then m.defPaths else i.path :: m.defPaths } := by
            have hc : m'.defPaths.contains i.path = m.defPaths.contains i.path := by
              rw [Bool.eq_iff_iff]
              simp only [List.contains_eq_mem, decide_eq_true_eq]
              exact hperm.mem_iff
            rw [hrest]
            simp only [canonM, hc]
            congr 1
            split
            · exact sortPaths_perm _ _ hperm
            · exact sortPaths_perm _ _ (List.Perm.cons _ hperm)
          have e : ∀ (ms : List (Path × Mod)) (mn : Mod),
              ms.map (canonE ∘ fun e => if e.1 == parent then (e.1, mn) else e)
                = (ms.map canonE).map (fun x => if x.1 == parent then (x.1, canonM mn) else x) := by
            intro ms mn
            rw [List.map_map]
            apply List.map_congr_left
            intro e _
            simp only [Function.comp, canonE]
            by_cases hk : (e.1 == parent) = true <;> simp only [hk, if_true, Bool.false_eq_true, if_false]
          rw [e, e, h.mods, hnew]

/-- the generated vftable item clashes with a different item of that name -/
def conflict (r : Registry) (item : ItemDef) : Bool :=
  match r.get item.path with
  | some e => e != item
  | none => false

theorem buildVftable_none_item (s : State) (owner : Path) (vis : Vis) (fb : Option Region) (fns : List SFunc)
    (hi : buildVftableItem s.reg owner vis fns = none) :
    buildVftable s owner vis fb (some fns) = (s, .ok (none, none)) := by
  unfold buildVftable
  simp only [hi]

theorem buildVftable_conflict (s : State) (owner : Path) (vis : Vis) (fb : Option Region) (fns : List SFunc)
    (item : ItemDef) (hi : buildVftableItem s.reg owner vis fns = some item) (hc : conflict s.reg item = true) :
    buildVftable s owner vis fb (some fns)
      = (s, .err "generated vftable type conflicts with another definition of that name") := by
  unfold buildVftable
  simp only [hi]
  rw [if_pos (by exact hc)]

theorem buildVftable_added (s s1 : State) (owner : Path) (vis : Vis) (fb : Option Region) (fns : List SFunc)
    (item : ItemDef) (hi : buildVftableItem s.reg owner vis fns = some item) (hc : conflict s.reg item = false)
    (ha : s.addItem item = .ok s1) :
    buildVftable s owner vis fb (some fns) = (s1, C06.vftCheck s1.reg fb fns item.path) :=
  C06.buildVftable_eq s s1 owner vis fb fns item hi hc ha

theorem buildVftable_addfail (s : State) (owner : Path) (vis : Vis) (fb : Option Region) (fns : List SFunc)
    (item : ItemDef) (hi : buildVftableItem s.reg owner vis fns = some item) (hc : conflict s.reg item = false)
    (ha : ∀ s1, s.addItem item ≠ .ok s1) :
    buildVftable s owner vis fb (some fns) = (s, (s.addItem item).cast) := by
  unfold buildVftable
  simp only [hi]
  rw [if_neg (by rw [Bool.not_eq_true]; exact hc)]

theorem vftCheck_sim {r r' : Registry} (h : RegSim r r') : C06.vftCheck r' = C06.vftCheck r := by
  funext fb fns p
  simp only [C06.vftCheck, baseVftable_sim h]

theorem buildVftable_perm {s s' : State} (h : PermS s s') (owner : Path) (vis : Vis) (fb : Option Region)
    (vfns : Option (List SFunc)) :
    PermS (buildVftable s owner vis fb vfns).1 (buildVftable s' owner vis fb vfns).1 ∧
    (buildVftable s' owner vis fb vfns).2 = (buildVftable s owner vis fb vfns).2 := by
  cases vfns with
  | none =>
    simp only [buildVftable, baseVftable_sim h.regSim]
    exact ⟨h, trivial⟩
  | some fns =>
    have hi' : buildVftableItem s'.reg owner vis fns = buildVftableItem s.reg owner vis fns := by
      rw [buildVftableItem_sim h.regSim]
    cases hi : buildVftableItem s.reg owner vis fns with
    | none =>
      rw [buildVftable_none_item s owner vis fb fns hi, buildVftable_none_item s' owner vis fb fns (hi'.trans hi)]
      exact ⟨h, rfl⟩
    | some item =>
      have hcc : conflict s'.reg item = conflict s.reg item := by unfold conflict; rw [h.get]
      cases hc : conflict s.reg item with
      | true =>
        rw [buildVftable_conflict s owner vis fb fns item hi hc,
            buildVftable_conflict s' owner vis fb fns item (hi'.trans hi) (hcc.trans hc)]
        exact ⟨h, rfl⟩
      | false =>
        rcases addItem_perm h item with ⟨he, hn⟩ | ⟨a, b, h1, h2, hab⟩
        · rw [buildVftable_addfail s owner vis fb fns item hi hc (fun s1 hx => hn s1 hx),
              buildVftable_addfail s' owner vis fb fns item (hi'.trans hi) (hcc.trans hc)
                (fun s1 hx => hn s1 (he.trans hx)), he]
          exact ⟨h, rfl⟩
        · rw [buildVftable_added s a owner vis fb fns item hi hc h1,
              buildVftable_added s' b owner vis fb fns item (hi'.trans hi) (hcc.trans hc) h2,
              vftCheck_sim hab.regSim]
          exact ⟨hab, rfl⟩

/-- `resolve_regions` up to the vftable: the first base must be resolved, then `vftable::build` -/
def rrHead (s : State) (owner : Path) (vis : Vis) (fb : Option Region) (vfns : Option (List SFunc)) :
    State × Res (Option Vft × Option Region) :=
  match (match fb with | some b => b.ty.size s.reg | none => .ok (some 0)) with
  | .ok none => (s, .defer)
  | .defer => (s, .defer)
  | .err m => (s, .err m)
  | .panic m => (s, .panic m)
  | .ok (some _) => buildVftable s owner vis fb vfns

/-- … and from there -/
def rrFinish (pending : List (Option Nat × Region)) (target : Option Nat)
    (hd : State × Res (Option Vft × Option Region)) : State × Res RROut :=
  match hd with
  | (s1, .ok (vft, vregion)) => (s1, rrTail s1.reg pending target vft vregion)
  | (s1, e) => (s1, e.cast)

theorem resolveRegions_head (s : State) (owner : Path) (vis : Vis) (target : Option Nat)
    (pending : List (Option Nat × Region)) (vfns : Option (List SFunc)) :
    resolveRegions s owner vis target pending vfns
      = rrFinish pending target (rrHead s owner vis ((pending.map (·.2)).find? (·.isBase)) vfns) := by
  have fin : ∀ fb, (match buildVftable s owner vis fb vfns with
      | (s1, .ok (vft, vregion)) => (s1, rrTail s1.reg pending target vft vregion)
      | (s1, e) => (s1, e.cast)) = rrFinish pending target (buildVftable s owner vis fb vfns) := by
    intro fb
    unfold rrFinish
    cases buildVftable s owner vis fb vfns with
    | mk s1 res =>
      cases res with
      | ok x => obtain ⟨vft, vregion⟩ := x; rfl
      | _ => rfl
  cases hfb : (pending.map (·.2)).find? (·.isBase) with
  | none =>
    unfold resolveRegions rrHead
    simp only [hfb]
    exact fin none
  | some b =>
    cases hsz : b.ty.size s.reg with
    | ok o =>
      cases o with
      | none => unfold resolveRegions rrHead rrFinish; simp only [hfb, hsz]; rfl
      | some n =>
        unfold resolveRegions rrHead
        simp only [hfb, hsz]
        exact fin (some b)
    | defer => unfold resolveRegions rrHead rrFinish; simp only [hfb, hsz]; rfl
    | err m => unfold resolveRegions rrHead rrFinish; simp only [hfb, hsz]; rfl
    | panic m => unfold resolveRegions rrHead rrFinish; simp only [hfb, hsz]; rfl

theorem rrHead_perm {s s' : State} (h : PermS s s') (owner : Path) (vis : Vis) (fb : Option Region)
    (vfns : Option (List SFunc)) :
    PermS (rrHead s owner vis fb vfns).1 (rrHead s' owner vis fb vfns).1 ∧
    (rrHead s' owner vis fb vfns).2 = (rrHead s owner vis fb vfns).2 := by
  unfold rrHead
  simp only [rsize_sim h.regSim]
  cases (match fb with | some b => b.ty.size s.reg | none => Res.ok (some 0)) with
  | ok o =>
    cases o with
    | none => exact ⟨h, rfl⟩
    | some n => exact buildVftable_perm h owner vis fb vfns
  | defer => exact ⟨h, rfl⟩
  | err m => exact ⟨h, rfl⟩
  | panic m => exact ⟨h, rfl⟩

theorem rrTail_sim {r r' : Registry} (h : RegSim r r') : rrTail r' = rrTail r := by
  funext pending target vft vregion
  simp only [rrTail, toPField_sim h, Mono.nameRegions_fun r r' h.contains]

theorem rrFinish_perm (pending : List (Option Nat × Region)) (target : Option Nat)
    (hd hd' : State × Res (Option Vft × Option Region)) (h1 : PermS hd.1 hd'.1) (h2 : hd'.2 = hd.2) :
    PermS (rrFinish pending target hd).1 (rrFinish pending target hd').1 ∧
    (rrFinish pending target hd').2 = (rrFinish pending target hd).2 := by
  obtain ⟨s1, res⟩ := hd
  obtain ⟨s1', res'⟩ := hd'
  simp only [] at h1 h2
  subst h2
  unfold rrFinish
  cases res' with
  | ok x =>
    obtain ⟨vft, vregion⟩ := x
    simp only [rrTail_sim h1.regSim]
    exact ⟨h1, trivial⟩
  | _ => exact ⟨h1, rfl⟩

theorem resolveRegions_perm {s s' : State} (h : PermS s s') (owner : Path) (vis : Vis) (target : Option Nat)
    (pending : List (Option Nat × Region)) (vfns : Option (List SFunc)) :
    PermS (resolveRegions s owner vis target pending vfns).1 (resolveRegions s' owner vis target pending vfns).1 ∧
    (resolveRegions s' owner vis target pending vfns).2 = (resolveRegions s owner vis target pending vfns).2 := by
  rw [resolveRegions_head, resolveRegions_head]
  obtain ⟨h1, h2⟩ := rrHead_perm h owner vis ((pending.map (·.2)).find? (·.isBase)) vfns
  exact rrFinish_perm pending target _ _ h1 h2

theorem btAfter_perm {s1 s1' : State} (h : PermS s1 s1') (path : Path) (doc : Option String) (ta : TypeAttrs)
    (x : RROut) : btAfter s1' path doc ta x = btAfter s1 path doc ta x := by
  unfold btAfter
  have hm := h.moduleFor path
  cases h1 : s1.moduleFor path with
  | none =>
    rw [h1] at hm
    cases h2 : s1'.moduleFor path with
    | none => rfl
    | some m' => rw [h2] at hm; cases hm
  | some m =>
    rw [h1] at hm
    cases h2 : s1'.moduleFor path with
    | none => rw [h2] at hm; cases hm
    | some m' =>
      rw [h2] at hm
      simp only [Option.map_some, Option.some.injEq] at hm
      simp only [injectBases_sim h.regSim, checkDefaultable_sim h.regSim,
        Mono.addImplFns_fun s1.reg s1'.reg h.regSim.contains, h.ps, canonM_scope hm, canonM_implFor hm]

theorem btCore_perm {s s' : State} (h : PermS s s') (path : Path) (vis : Vis) (doc : Option String)
    (ta : TypeAttrs) (target : Option Nat) (sa : StmtAcc) :
    PermS (btCore s path vis doc ta target sa).1 (btCore s' path vis doc ta target sa).1 ∧
    (btCore s' path vis doc ta target sa).2 = (btCore s path vis doc ta target sa).2 := by
  unfold btCore
  obtain ⟨h1, h2⟩ := resolveRegions_perm h path vis target sa.pending sa.vfns
  cases hr : resolveRegions s path vis target sa.pending sa.vfns with
  | mk s1 res =>
    cases hr' : resolveRegions s' path vis target sa.pending sa.vfns with
    | mk s1' res' =>
      rw [hr, hr'] at h1 h2
      simp only [] at h1 h2
      subst h2
      cases res' with
      | ok x => exact ⟨h1, btAfter_perm h1 path doc ta x⟩
      | _ => exact ⟨h1, rfl⟩

/-- `type_definition::build`, stage by stage -/
def btOf (s : State) (path : Path) (vis : Vis) (td : G.TypeDef) : State × Res Resolved :=
  match s.moduleFor path with
  | none => (s, .err "failed to get module for path")
  | some module =>
    match G.docOf td.attrs with
    | none => (s, .err "doc attribute must be a string literal")
    | some doc =>
      match Res.foldlM typeAttrStep {} td.attrs with
      | .ok ta =>
        match Res.foldlM (stmtStep s.reg module.scope) {} (td.stmts.zipIdx.map fun p => (p.2, p.1)) with
        | .ok sa => btCore s path vis doc ta ta.targetSize sa
        | e => (s, e.cast)
      | e => (s, e.cast)

theorem buildType_btOf (s : State) (path : Path) (vis : Vis) (td : G.TypeDef) :
    buildType s path vis td = btOf s path vis td := by
  unfold btOf
  cases h1 : s.moduleFor path with
  | none => unfold buildType; simp only [h1]
  | some module =>
    cases h2 : G.docOf td.attrs with
    | none => unfold buildType; simp only [h1, h2]
    | some doc =>
      cases h3 : Res.foldlM typeAttrStep {} td.attrs with
      | ok ta =>
        cases h4 : Res.foldlM (stmtStep s.reg module.scope) {} (td.stmts.zipIdx.map fun p => (p.2, p.1)) with
        | ok sa => rw [buildType_core s path vis td module doc ta sa h1 h2 h3 h4]; simp only [h4]
        | defer => unfold buildType; simp only [h1, h2, h3, h4]
        | err m => unfold buildType; simp only [h1, h2, h3, h4]
        | panic m => unfold buildType; simp only [h1, h2, h3, h4]
      | defer => unfold buildType; simp only [h1, h2, h3]
      | err m => unfold buildType; simp only [h1, h2, h3]
      | panic m => unfold buildType; simp only [h1, h2, h3]

theorem buildType_perm {s s' : State} (h : PermS s s') (path : Path) (vis : Vis) (td : G.TypeDef) :
    PermS (buildType s path vis td).1 (buildType s' path vis td).1 ∧
    (buildType s' path vis td).2 = (buildType s path vis td).2 := by
  rw [buildType_btOf, buildType_btOf]
  unfold btOf
  have hm := h.moduleFor path
  cases h1 : s.moduleFor path with
  | none =>
    rw [h1] at hm
    cases h2 : s'.moduleFor path with
    | none => exact ⟨h, rfl⟩
    | some m' => rw [h2] at hm; cases hm
  | some m =>
    rw [h1] at hm
    cases h2 : s'.moduleFor path with
    | none => rw [h2] at hm; cases hm
    | some m' =>
      rw [h2] at hm
      simp only [Option.map_some, Option.some.injEq] at hm
      simp only [canonM_scope hm, Mono.stmtStep_fun s.reg s'.reg h.regSim.contains]
      cases G.docOf td.attrs with
      | none => exact ⟨h, rfl⟩
      | some doc =>
        simp only []
        cases Res.foldlM typeAttrStep {} td.attrs with
        | ok ta =>
          simp only []
          cases Res.foldlM (stmtStep s.reg m.scope) {} (td.stmts.zipIdx.map fun p => (p.2, p.1)) with
          | ok sa => exact btCore_perm h path vis doc ta ta.targetSize sa
          | _ => exact ⟨h, rfl⟩
        | _ => exact ⟨h, rfl⟩

theorem buildEnum_perm {s s' : State} (h : PermS s s') (path : Path) (ed : G.EnumDef) :
    buildEnum s' path ed = buildEnum s path ed := by
  unfold buildEnum
  have hm := h.moduleFor path
  cases h1 : s.moduleFor path with
  | none =>
    rw [h1] at hm
    cases h2 : s'.moduleFor path with
    | none => rfl
    | some m' => rw [h2] at hm; cases hm
  | some m =>
    rw [h1] at hm
    cases h2 : s'.moduleFor path with
    | none => rw [h2] at hm; cases hm
    | some m' =>
      rw [h2] at hm
      simp only [Option.map_some, Option.some.injEq] at hm
      simp only [canonM_scope hm, Mono.resolveTy_fun s.reg s'.reg h.regSim.contains, dsize_sim h.regSim,
        dalign_sim h.regSim]


/-- the step of the extern-value pass of `SemanticState::build` -/
def xvalPass (reg : Registry) (e : Path × Mod) : Res (Path × Mod) :=
  match resolveXVals reg e.2 with
  | .ok m => Res.ok (e.1, m)
  | x => x.cast

/-- `SemanticState::build` after the resolution loop -/
def buildFinish (o : BuildOutcome) : BuildOutcome :=
  match o with
  | .ok s1 =>
    match Res.mapM' (xvalPass s1.reg) s1.modules with
    | .ok ms => .ok { s1 with modules := ms }
    | .err m => .err m
    | .panic m => .panic m
    | .defer => .err "unreachable"
  | other => other

theorem build_eq (s : State) (prio : List Path) :
    s.build prio = buildFinish (resolveLoop prio (2 * (s.reg.types.filter fun e => !e.2.isResolved).length + 2) s) := by
  unfold State.build buildFinish
  simp only []
  cases resolveLoop prio (2 * (s.reg.types.filter fun e => !e.2.isResolved).length + 2) s with
  | ok s1 => rfl
  | _ => rfl

theorem setState_perm {s1 s1' : State} (h : PermS s1 s1') (q : Path) (st : IState) :
    PermS { s1 with reg := s1.reg.setState q st } { s1' with reg := s1'.reg.setState q st } := by
  refine ⟨h.ps, ?_, ?_, h.mods⟩
  · intro k
    simp only [C12.get_setState, h.get]
  · simp only [Registry.setState]
    exact h.perm.map _

theorem attemptDef_perm {s s' : State} (h : PermS s s') (q : Path) (d0 : G.Item) :
    PermS (attemptDef s q d0).1 (attemptDef s' q d0).1 ∧ (attemptDef s' q d0).2 = (attemptDef s q d0).2 := by
  unfold attemptDef
  cases d0.inner with
  | type td => exact buildType_perm h q d0.vis td
  | enum ed => exact ⟨h, buildEnum_perm h q ed⟩

theorem finishAttempt_perm (q : Path) (x x' : State × Res Resolved) (h1 : PermS x.1 x'.1) (h2 : x'.2 = x.2) :
    PermS (finishAttempt q x).1 (finishAttempt q x').1 ∧ (finishAttempt q x').2 = (finishAttempt q x).2 := by
  obtain ⟨s1, res⟩ := x
  obtain ⟨s1', res'⟩ := x'
  simp only [] at h1 h2
  subst h2
  cases res' with
  | ok r => exact ⟨setState_perm h1 q (.res r), rfl⟩
  | _ => exact ⟨h1, rfl⟩

theorem attemptItem_perm {s s' : State} (h : PermS s s') (q : Path) :
    PermS (attemptItem s q).1 (attemptItem s' q).1 ∧ (attemptItem s' q).2 = (attemptItem s q).2 := by
  rw [attemptItem_eq, attemptItem_eq, h.get]
  cases s.reg.get q with
  | none => exact ⟨h, rfl⟩
  | some item =>
    simp only []
    cases item.state with
    | res r => exact ⟨h, rfl⟩
    | unres d0 =>
      simp only []
      obtain ⟨h1, h2⟩ := attemptDef_perm h q d0
      exact finishAttempt_perm q _ _ h1 h2

theorem runRound_perm (l : List Path) {s s' : State} (h : PermS s s') :
    PermS (runRound s l).1 (runRound s' l).1 ∧ (runRound s' l).2 = (runRound s l).2 := by
  induction l generalizing s s' with
  | nil => exact ⟨h, rfl⟩
  | cons q qs ih =>
    obtain ⟨h1, h2⟩ := attemptItem_perm h q
    cases ha : attemptItem s q with
    | mk s2 r2 =>
      cases ha' : attemptItem s' q with
      | mk s2' r2' =>
        rw [ha, ha'] at h1 h2
        simp only [] at h1 h2
        subst h2
        cases r2' with
        | ok u =>
          cases u
          rw [runRound_cons_ok s s2 q qs ha, runRound_cons_ok s' s2' q qs ha']
          exact ih h1
        | defer =>
          rw [runRound_cons_stop s s2 q qs _ ha (by simp), runRound_cons_stop s' s2' q qs _ ha' (by simp)]
          exact ⟨h1, rfl⟩
        | err m =>
          rw [runRound_cons_stop s s2 q qs _ ha (by simp), runRound_cons_stop s' s2' q qs _ ha' (by simp)]
          exact ⟨h1, rfl⟩
        | panic m =>
          rw [runRound_cons_stop s s2 q qs _ ha (by simp), runRound_cons_stop s' s2' q qs _ ha' (by simp)]
          exact ⟨h1, rfl⟩

/-- two outcomes: the same failure, or accepted with related states -/
def RelO (R : State → State → Prop) : BuildOutcome → BuildOutcome → Prop
  | .ok s, .ok s' => R s s'
  | .nonterm l, .nonterm l' => l' = l
  | .err m, .err m' => m' = m
  | .panic m, .panic m' => m' = m
  | .fuel, .fuel => True
  | _, _ => False

theorem resolveLoop_perm (prio : List Path) (fuel : Nat) {s s' : State} (h : PermS s s') :
    RelO PermS (resolveLoop prio fuel s) (resolveLoop prio fuel s') := by
  induction fuel generalizing s s' with
  | zero => exact trivial
  | succ n ih =>
    unfold resolveLoop
    simp only [h.unresolved]
    split
    · exact h
    · obtain ⟨h1, h2⟩ := runRound_perm (s.reg.unresolved prio) h
      cases hr : runRound s (s.reg.unresolved prio) with
      | mk s1 res =>
        cases hr' : runRound s' (s.reg.unresolved prio) with
        | mk s1' res' =>
          rw [hr, hr'] at h1 h2
          simp only [] at h1 h2
          subst h2
          cases res' with
          | ok u =>
            cases u
            simp only [h1.unresolved, h.perm.length_eq, h1.perm.length_eq]
            split
            · rfl
            · exact ih h1
          | defer => rfl
          | err m => rfl
          | panic m => rfl

theorem resolveXVals_canon (reg : Registry) (m m' : Mod) (h : canonM m' = canonM m) :
    RelRes (fun a b => canonM b = canonM a) (resolveXVals reg m) (resolveXVals reg m') := by
  have hr := canonM_rest h
  unfold resolveXVals
  rw [canonM_scope h]
  rw [show m'.xvals = m.xvals by rw [hr]]
  cases Res.mapM' (fun (ev : XValue) =>
      match reg.resolveTy m.scope ev.gty with
      | .ok t => Res.ok { ev with ty := some t }
      | .defer => .err "failed to resolve type for extern value"
      | e => e.cast) m.xvals with
  | ok xvals =>
    refine Or.inr ⟨_, _, rfl, rfl, ?_⟩
    simp only [canonM, Mod.mk.injEq] at h ⊢
    obtain ⟨h1, h2, h3, h4, h5, h6, h7⟩ := h
    exact ⟨h1, h2, h3, trivial, h5, h6, h7⟩
  | defer => exact Or.inl ⟨rfl, fun a h => by cases h⟩
  | err m => exact Or.inl ⟨rfl, fun a h => by cases h⟩
  | panic m => exact Or.inl ⟨rfl, fun a h => by cases h⟩

theorem xvalPass_canon {r r' : Registry} (hs : RegSim r r') (e e' : Path × Mod) (h : canonE e' = canonE e) :
    RelRes (fun a b => canonE b = canonE a) (xvalPass r e) (xvalPass r' e') := by
  obtain ⟨k, m⟩ := e
  obtain ⟨k', m'⟩ := e'
  simp only [canonE, Prod.mk.injEq] at h
  obtain ⟨hk, hm⟩ := h
  subst hk
  unfold xvalPass
  simp only [resolveXVals_sim hs]
  rcases resolveXVals_canon r m m' hm with ⟨he, hn⟩ | ⟨a, b, h1, h2, hab⟩
  · rw [← he]
    cases hx : resolveXVals r m with
    | ok a => exact (hn a hx).elim
    | defer => exact Or.inl ⟨rfl, fun a h => by cases h⟩
    | err m => exact Or.inl ⟨rfl, fun a h => by cases h⟩
    | panic m => exact Or.inl ⟨rfl, fun a h => by cases h⟩
  · rw [h1, h2]
    refine Or.inr ⟨_, _, rfl, rfl, ?_⟩
    simp only [canonE, hab]

/-- two lists related element by element -/
inductive F2 {α} (R : α → α → Prop) : List α → List α → Prop
  | nil : F2 R [] []
  | cons {a b : α} {l l' : List α} : R a b → F2 R l l' → F2 R (a :: l) (b :: l')

theorem mapM'_rel {α} (R : α → α → Prop) (f f' : α → Res α) (Q : α → α → Prop)
    (hf : ∀ a a', Q a a' → RelRes R (f a) (f' a')) (l l' : List α) (h : F2 Q l l') :
    RelRes (F2 R) (Res.mapM' f l) (Res.mapM' f' l') := by
  induction h with
  | nil => exact Or.inr ⟨[], [], rfl, rfl, .nil⟩
  | @cons a a' l l' hq _ ih =>
    simp only [Res.mapM']
    rcases hf a a' hq with ⟨he, hn⟩ | ⟨b, b', h1, h2, hr⟩
    · rw [← he]
      cases hx : f a with
      | ok b => exact (hn b hx).elim
      | defer => exact Or.inl ⟨rfl, fun a h => by cases h⟩
      | err m => exact Or.inl ⟨rfl, fun a h => by cases h⟩
      | panic m => exact Or.inl ⟨rfl, fun a h => by cases h⟩
    · rw [h1, h2]
      simp only []
      rcases ih with ⟨he, hn⟩ | ⟨bs, bs', h3, h4, hrs⟩
      · rw [← he]
        cases hx : Res.mapM' f l with
        | ok bs => exact (hn bs hx).elim
        | defer => exact Or.inl ⟨rfl, fun a h => by cases h⟩
        | err m => exact Or.inl ⟨rfl, fun a h => by cases h⟩
        | panic m => exact Or.inl ⟨rfl, fun a h => by cases h⟩
      · rw [h3, h4]
        exact Or.inr ⟨_, _, rfl, rfl, .cons hr hrs⟩

theorem f2_of_map_eq {α β} (g : α → β) (l l' : List α) (h : l'.map g = l.map g) :
    F2 (fun a a' => g a' = g a) l l' := by
  induction l generalizing l' with
  | nil =>
    cases l' with
    | nil => exact .nil
    | cons a' l' => simp at h
  | cons a l ih =>
    cases l' with
    | nil => simp at h
    | cons a' l' =>
      simp only [List.map_cons, List.cons.injEq] at h
      exact .cons h.1 (ih l' h.2)

theorem map_eq_of_f2 {α β} (g : α → β) (l l' : List α) (h : F2 (fun a a' => g a' = g a) l l') :
    l'.map g = l.map g := by
  induction h with
  | nil => rfl
  | cons h1 _ ih => simp only [List.map_cons, h1, ih]

theorem build_perm (prio : List Path) {s s' : State} (h : PermS s s') :
    RelO PermS (s.build prio) (s'.build prio) := by
  rw [build_eq, build_eq, h.nItems]
  have hl := resolveLoop_perm prio (2 * (s.reg.types.filter fun e => !e.2.isResolved).length + 2) h
  cases hr : resolveLoop prio (2 * (s.reg.types.filter fun e => !e.2.isResolved).length + 2) s with
  | ok s1 =>
    cases hr' : resolveLoop prio (2 * (s.reg.types.filter fun e => !e.2.isResolved).length + 2) s' with
    | ok s1' =>
      rw [hr, hr'] at hl
      have hl : PermS s1 s1' := hl
      unfold buildFinish
      simp only []
      have key := mapM'_rel (fun a b => canonE b = canonE a) (xvalPass s1.reg) (xvalPass s1'.reg)
        (fun a b => canonE b = canonE a) (fun a a' hq => xvalPass_canon hl.regSim a a' hq)
        s1.modules s1'.modules (f2_of_map_eq canonE _ _ hl.mods)
      rcases key with ⟨he, hn⟩ | ⟨ms, ms', h1, h2, hms⟩
      · rw [← he]
        cases hx : Res.mapM' (xvalPass s1.reg) s1.modules with
        | ok ms => exact (hn ms hx).elim
        | defer => rfl
        | err m => rfl
        | panic m => rfl
      · rw [h1, h2]
        exact ⟨hl.ps, hl.get, hl.perm, map_eq_of_f2 canonE _ _ hms⟩
    | nonterm l => rw [hr, hr'] at hl; exact hl.elim
    | err m => rw [hr, hr'] at hl; exact hl.elim
    | panic m => rw [hr, hr'] at hl; exact hl.elim
    | fuel => rw [hr, hr'] at hl; exact hl.elim
  | nonterm l =>
    cases hr' : resolveLoop prio (2 * (s.reg.types.filter fun e => !e.2.isResolved).length + 2) s' with
    | nonterm l' => rw [hr, hr'] at hl; exact hl
    | ok _ => rw [hr, hr'] at hl; exact hl.elim
    | err m => rw [hr, hr'] at hl; exact hl.elim
    | panic m => rw [hr, hr'] at hl; exact hl.elim
    | fuel => rw [hr, hr'] at hl; exact hl.elim
  | err m =>
    cases hr' : resolveLoop prio (2 * (s.reg.types.filter fun e => !e.2.isResolved).length + 2) s' with
    | err m' => rw [hr, hr'] at hl; exact hl
    | ok _ => rw [hr, hr'] at hl; exact hl.elim
    | nonterm l => rw [hr, hr'] at hl; exact hl.elim
    | panic m => rw [hr, hr'] at hl; exact hl.elim
    | fuel => rw [hr, hr'] at hl; exact hl.elim
  | panic m =>
    cases hr' : resolveLoop prio (2 * (s.reg.types.filter fun e => !e.2.isResolved).length + 2) s' with
    | panic m' => rw [hr, hr'] at hl; exact hl
    | ok _ => rw [hr, hr'] at hl; exact hl.elim
    | nonterm l => rw [hr, hr'] at hl; exact hl.elim
    | err m => rw [hr, hr'] at hl; exact hl.elim
    | fuel => rw [hr, hr'] at hl; exact hl.elim
  | fuel =>
    cases hr' : resolveLoop prio (2 * (s.reg.types.filter fun e => !e.2.isResolved).length + 2) s' with
    | fuel => trivial
    | ok _ => rw [hr, hr'] at hl; exact hl.elim
    | nonterm l => rw [hr, hr'] at hl; exact hl.elim
    | err m => rw [hr, hr'] at hl; exact hl.elim
    | panic m => rw [hr, hr'] at hl; exact hl.elim


theorem RelRes.trans {α} {R : α → α → Prop} (hR : ∀ a b c, R a b → R b c → R a c) {x y z : Res α}
    (h1 : RelRes R x y) (h2 : RelRes R y z) : RelRes R x z := by
  rcases h1 with ⟨e1, n1⟩ | ⟨a, b, ha, hb, hab⟩
  · rcases h2 with ⟨e2, _⟩ | ⟨b, c, hb, _, _⟩
    · exact Or.inl ⟨e1.trans e2, n1⟩
    · rw [← e1] at hb; exact (n1 b hb).elim
  · rcases h2 with ⟨e2, n2⟩ | ⟨b', c, hb', hc, hbc⟩
    · exact (n2 b hb).elim
    · rw [hb] at hb'; cases hb'
      exact Or.inr ⟨a, c, ha, hc, hR a b c hab hbc⟩

theorem RelRes.of_eq {α} {R : α → α → Prop} (hR : ∀ a, R a a) (x : Res α) : RelRes R x x := by
  cases x with
  | ok a => exact Or.inr ⟨a, a, rfl, rfl, hR a⟩
  | defer => exact Or.inl ⟨rfl, fun a h => by cases h⟩
  | err m => exact Or.inl ⟨rfl, fun a h => by cases h⟩
  | panic m => exact Or.inl ⟨rfl, fun a h => by cases h⟩

/-- a relational fold: the same list from related states … -/
theorem foldlM_pivot_rel {α β} (R : β → β → Prop) (f : β → α → Res β) (a a' : α) (hrefl : ∀ b, R b b)
    (h1 : ∀ b b', R b b' → RelRes R (f b a) (f b' a'))
    (h4 : ∀ b b' x, R b b' → RelRes R (f b x) (f b' x)) (pre post : List α) (b : β) :
    RelRes R (Res.foldlM f b (pre ++ a :: post)) (Res.foldlM f b (pre ++ a' :: post)) := by
  rw [foldlM_append, foldlM_append]
  cases Res.foldlM f b pre with
  | ok t =>
    simp only [Res.bind, Res.foldlM]
    rcases h1 t t (hrefl t) with ⟨he, hn⟩ | ⟨c, c', hc, hc', hr⟩
    · rw [← he]
      cases hx : f t a with
      | ok c => exact (hn c hx).elim
      | defer => exact Or.inl ⟨rfl, fun a h => by cases h⟩
      | err m => exact Or.inl ⟨rfl, fun a h => by cases h⟩
      | panic m => exact Or.inl ⟨rfl, fun a h => by cases h⟩
    · rw [hc, hc']
      exact foldlM_RelRes R f h4 post c c' hr
  | defer => exact Or.inl ⟨rfl, fun a h => by cases h⟩
  | err m => exact Or.inl ⟨rfl, fun a h => by cases h⟩
  | panic m => exact Or.inl ⟨rfl, fun a h => by cases h⟩

theorem defStep_perm (path : Path) {s s' : State} (h : PermS s s') (d : G.Item) :
    RelRes PermS (C14.defStep path s d) (C14.defStep path s' d) := by
  unfold C14.defStep
  rw [h.regSim.contains]
  split
  · exact Or.inl ⟨rfl, fun a h => by cases h⟩
  · exact addItem_perm h _

theorem xtypeStep_perm (path : Path) {s s' : State} (h : PermS s s') (xt : String × List G.Attr) :
    RelRes PermS (C14.xtypeStep path s xt) (C14.xtypeStep path s' xt) := by
  unfold C14.xtypeStep
  rw [h.regSim.contains]
  cases Res.foldlM xtypeAttrStep {} xt.2 with
  | ok xa =>
    simp only []
    cases xa.size with
    | none => exact Or.inl ⟨rfl, fun a h => by cases h⟩
    | some size =>
      simp only []
      cases xa.align with
      | none => exact Or.inl ⟨rfl, fun a h => by cases h⟩
      | some align =>
        simp only []
        split
        · exact Or.inl ⟨rfl, fun a h => by cases h⟩
        · split
          · exact Or.inl ⟨rfl, fun a h => by cases h⟩
          · exact addItem_perm h _
  | defer => exact Or.inl ⟨rfl, fun a h => by cases h⟩
  | err m => exact Or.inl ⟨rfl, fun a h => by cases h⟩
  | panic m => exact Or.inl ⟨rfl, fun a h => by cases h⟩

/-- replace the module stored under `parent` -/
def updMod (parent : Path) (n : Mod) (e : Path × Mod) : Path × Mod := if e.1 == parent then (e.1, n) else e

/-- `HashSet::insert` on the definition paths of a module -/
def insPath (k : Path) (dp : List Path) : List Path := if dp.contains k then dp else k :: dp

theorem parent_concat (path : Path) (nm : String) : Path.parent? (path ++ [nm]) = some path := by
  simp [Path.parent?]

theorem addItem_closed (s : State) (i : ItemDef) (path : Path) (nm : String) (m : Mod)
    (hi : i.path = path ++ [nm]) (hm : s.getModule path = some m) :
    s.addItem i = .ok { modules := s.modules.map (updMod path { m with defPaths := insPath i.path m.defPaths }),
                        reg := s.reg.add i } := by
  unfold State.addItem
  rw [hi, parent_concat]
  simp only [hm]
  rfl

theorem getModule_updMod (ms : List (Path × Mod)) (reg : Registry) (path : Path) (m n : Mod)
    (hm : List.lookup path ms = some m) :
    ({ modules := ms.map (updMod path n), reg := reg } : State).getModule path = some n := by
  unfold State.getModule updMod
  rw [C14.lookup_map_replace]
  simp [hm]

theorem updMod_updMod (path : Path) (n1 n2 : Mod) (ms : List (Path × Mod)) :
    (ms.map (updMod path n1)).map (updMod path n2) = ms.map (updMod path n2) := by
  rw [List.map_map]
  apply List.map_congr_left
  intro e _
  simp only [Function.comp, updMod]
  by_cases hk : (e.1 == path) = true <;> simp [hk]

theorem canonE_updMod (path : Path) (n : Mod) (ms : List (Path × Mod)) :
    (ms.map (updMod path n)).map canonE = (ms.map canonE).map (updMod path (canonM n)) := by
  rw [List.map_map, List.map_map]
  apply List.map_congr_left
  intro e _
  simp only [Function.comp, updMod, canonE]
  by_cases hk : (e.1 == path) = true <;> simp [hk]

theorem insPath_perm {dp dp' : List Path} (h : dp'.Perm dp) (k : Path) : (insPath k dp').Perm (insPath k dp) := by
  unfold insPath
  have hc : dp'.contains k = dp.contains k := by
    rw [Bool.eq_iff_iff]
    simp only [List.contains_eq_mem, decide_eq_true_eq]
    exact h.mem_iff
  rw [hc]
  split
  · exact h
  · exact List.Perm.cons _ h

theorem insPath_comm (dp : List Path) (a b : Path) : (insPath a (insPath b dp)).Perm (insPath b (insPath a dp)) := by
  unfold insPath
  by_cases ha : dp.contains a = true <;> by_cases hb : dp.contains b = true <;>
    by_cases hab : a = b <;> simp_all
  rw [if_neg (fun h => hab h.symm)]
  exact List.Perm.swap _ _ _

/-- the registry entry `add_module` makes for a definition -/
def defItem (path : Path) (d : G.Item) : ItemDef :=
  { vis := d.vis, path := path ++ [d.name], state := .unres d, cat := .defined }

/-- the state after a definition was registered in the module `m` stored under `path` -/
def defAdded (path : Path) (m : Mod) (s : State) (d : G.Item) : State :=
  { modules := s.modules.map (updMod path { m with defPaths := insPath (path ++ [d.name]) m.defPaths }),
    reg := s.reg.add (defItem path d) }

theorem defStep_closed (path : Path) (s : State) (d : G.Item) (m : Mod) (hm : s.getModule path = some m) :
    C14.defStep path s d = if s.reg.contains (path ++ [d.name]) then .err "item is defined more than once"
      else .ok (defAdded path m s d) := by
  unfold C14.defStep
  split
  · rfl
  · exact addItem_closed s (defItem path d) path d.name m rfl hm

theorem defAdded_getModule (path : Path) (m : Mod) (s : State) (d : G.Item) (hm : s.getModule path = some m) :
    (defAdded path m s d).getModule path = some { m with defPaths := insPath (path ++ [d.name]) m.defPaths } :=
  getModule_updMod s.modules _ path m _ hm

theorem defAdded_contains (path : Path) (m : Mod) (s : State) (d : G.Item) (q : Path) :
    (defAdded path m s d).reg.contains q = (s.reg.contains q || q == path ++ [d.name]) := by
  rw [Bool.eq_iff_iff]
  simp only [Bool.or_eq_true, beq_iff_eq]
  exact C14.contains_add s.reg (defItem path d) q

/-- registering two definitions in either order -/
theorem defAdded_comm (path : Path) {s s' : State} (h : PermS s s') (m m' : Mod) (hmm : canonM m' = canonM m)
    (x y : G.Item) (hne : path ++ [x.name] ≠ path ++ [y.name]) :
    PermS
      (defAdded path { m with defPaths := insPath (path ++ [y.name]) m.defPaths } (defAdded path m s y) x)
      (defAdded path { m' with defPaths := insPath (path ++ [x.name]) m'.defPaths } (defAdded path m' s' x) y) := by
  have hperm := canonM_perm hmm
  have hrest := canonM_rest hmm
  refine ⟨h.ps, ?_, ?_, ?_⟩
  · intro q
    simp only [defAdded, C14.get_add, defItem, h.get]
    by_cases h1 : q = path ++ [x.name]
    · subst h1; simp [hne]
    · simp [h1]
  · simp only [defAdded, Registry.add, defItem, List.filter_cons]
    have e1 : ((path ++ [y.name]) != (path ++ [x.name])) = true := bne_iff_ne.mpr (fun e => hne e.symm)
    have e2 : ((path ++ [x.name]) != (path ++ [y.name])) = true := bne_iff_ne.mpr hne
    simp only [e1, e2, if_true]
    refine (List.Perm.swap _ _ _).trans (List.Perm.cons _ (List.Perm.cons _ ?_))
    rw [List.filter_filter, List.filter_filter]
    have : (fun (a : Path × ItemDef) => (a.1 != path ++ [y.name] && a.1 != path ++ [x.name]))
        = (fun a => (a.1 != path ++ [x.name] && a.1 != path ++ [y.name])) := by
      funext a; exact Bool.and_comm _ _
    rw [this]
    exact h.perm.filter _
  · simp only [defAdded, updMod_updMod, canonE_updMod, h.mods]
    congr 2
    rw [hrest]
    simp only [canonM]
    congr 1
    exact sortPaths_perm _ _ ((insPath_perm (insPath_perm hperm _) _).trans (insPath_comm _ _ _))

theorem PermS.getModule_some {s s' : State} (h : PermS s s') (q : Path) (m : Mod) (hm : s.getModule q = some m) :
    ∃ m', s'.getModule q = some m' ∧ canonM m' = canonM m := by
  have := h.getModule q
  rw [hm] at this
  cases h2 : s'.getModule q with
  | none => rw [h2] at this; cases this
  | some m' =>
    rw [h2] at this
    simp only [Option.map_some, Option.some.injEq] at this
    exact ⟨m', rfl, this⟩

theorem defStep_ok_getModule (path : Path) (s t : State) (d : G.Item) (hm : (s.getModule path).isSome = true)
    (h : C14.defStep path s d = .ok t) : (t.getModule path).isSome = true := by
  obtain ⟨m, hm⟩ := Option.isSome_iff_exists.mp hm
  rw [defStep_closed path s d m hm] at h
  split at h
  · cases h
  · cases h
    rw [defAdded_getModule path m s d hm]
    rfl

/-- the first two steps of the definitions loop, in closed form -/
theorem defFold_two (path : Path) (s : State) (m : Mod) (hm : s.getModule path = some m) (x y : G.Item)
    (l : List G.Item) :
    Res.foldlM (C14.defStep path) s (x :: y :: l) =
      if s.reg.contains (path ++ [x.name]) = true ∨ s.reg.contains (path ++ [y.name]) = true
          ∨ path ++ [y.name] = path ++ [x.name] then
        .err "item is defined more than once"
      else
        Res.foldlM (C14.defStep path)
          (defAdded path { m with defPaths := insPath (path ++ [x.name]) m.defPaths } (defAdded path m s x) y) l := by
  simp only [Res.foldlM]
  rw [defStep_closed path s x m hm]
  by_cases cx : s.reg.contains (path ++ [x.name]) = true
  · rw [if_pos cx, if_pos (Or.inl cx)]
  · rw [if_neg cx]
    simp only []
    rw [defStep_closed path _ y _ (defAdded_getModule path m s x hm), defAdded_contains]
    by_cases cy : s.reg.contains (path ++ [y.name]) = true
    · simp only [cy, Bool.true_or, if_true]
      rw [if_pos (Or.inr (Or.inl trivial))]
    · by_cases hxy : path ++ [y.name] = path ++ [x.name]
      · have : (path ++ [y.name] == path ++ [x.name]) = true := by rw [hxy]; exact beq_self_eq_true _
        simp only [this, Bool.or_true, if_true]
        rw [if_pos (Or.inr (Or.inr hxy))]
      · have : (path ++ [y.name] == path ++ [x.name]) = false := by simpa using hxy
        simp only [cy, this, Bool.or_false, Bool.false_eq_true, if_false]
        rw [if_neg]
        intro hh
        rcases hh with hh | hh | hh
        · exact cx hh
        · cases hh
        · exact hxy hh

/-- the definitions loop over a permuted list, from related states -/
theorem defFold_perm (path : Path) {l l' : List G.Item} (hp : l'.Perm l) :
    ∀ {s s' : State}, PermS s s' → (s.getModule path).isSome = true →
      RelRes PermS (Res.foldlM (C14.defStep path) s l) (Res.foldlM (C14.defStep path) s' l') := by
  induction hp with
  | nil => intro s s' h _; exact Or.inr ⟨s, s', rfl, rfl, h⟩
  | @cons x l1 l2 _ ih =>
    intro s s' h hm
    simp only [Res.foldlM]
    rcases defStep_perm path h x with ⟨he, hn⟩ | ⟨t, t', h1, h2, ht⟩
    · rw [← he]
      cases hx : C14.defStep path s x with
      | ok c => exact (hn c hx).elim
      | defer => exact Or.inl ⟨rfl, fun a h => by cases h⟩
      | err m => exact Or.inl ⟨rfl, fun a h => by cases h⟩
      | panic m => exact Or.inl ⟨rfl, fun a h => by cases h⟩
    · rw [h1, h2]
      exact ih ht (defStep_ok_getModule path s t x hm h1)
  | swap x y l0 =>
    intro s s' h hm
    obtain ⟨m, hm⟩ := Option.isSome_iff_exists.mp hm
    obtain ⟨m', hm', hmm⟩ := h.getModule_some path m hm
    rw [defFold_two path s m hm x y l0, defFold_two path s' m' hm' y x l0]
    simp only [h.regSim.contains]
    by_cases hc : s.reg.contains (path ++ [x.name]) = true ∨ s.reg.contains (path ++ [y.name]) = true
        ∨ path ++ [y.name] = path ++ [x.name]
    · rw [if_pos hc, if_pos]
      · exact Or.inl ⟨rfl, fun a h => by cases h⟩
      · rcases hc with hc | hc | hc
        · exact Or.inr (Or.inl hc)
        · exact Or.inl hc
        · exact Or.inr (Or.inr hc.symm)
    · rw [if_neg hc, if_neg]
      · have hne : path ++ [y.name] ≠ path ++ [x.name] := fun e => hc (Or.inr (Or.inr e))
        exact foldlM_RelRes PermS (C14.defStep path) (fun b b' a hb => defStep_perm path hb a) l0 _ _
          (defAdded_comm path h m m' hmm y x hne)
      · intro hh
        rcases hh with hh | hh | hh
        · exact hc (Or.inr (Or.inl hh))
        · exact hc (Or.inl hh)
        · exact hc (Or.inr (Or.inr hh.symm))
  | @trans l1 l2 l3 _ _ ih1 ih2 =>
    intro s s' h hm
    exact RelRes.trans (R := PermS) (fun a b c h1 h2 => PermS.trans h1 h2) (ih2 (PermS.refl s) hm) (ih1 h hm)

theorem putModule_perm {s s' : State} (h : PermS s s') (path : Path) (mod : Mod) :
    PermS (s.putModule path mod) (s'.putModule path mod) := by
  refine ⟨h.ps, h.get, h.perm, ?_⟩
  simp only [State.putModule, List.map_cons]
  congr 1
  have : ((fun (e : Path × Mod) => e.1 != path) ∘ canonE) = (fun (e : Path × Mod) => e.1 != path) := rfl
  have e : ∀ (ms : List (Path × Mod)), (ms.filter fun e => e.1 != path).map canonE
      = (ms.map canonE).filter fun e => e.1 != path := by
    intro ms
    rw [List.filter_map, this]
  rw [e, e, h.mods]

theorem putModule_getModule (s : State) (path : Path) (mod : Mod) :
    ((s.putModule path mod).getModule path).isSome = true := by
  simp [State.putModule, State.getModule]

theorem addCore_perm (path : Path) {s s' : State} (h : PermS s s') (hm : (s.getModule path).isSome = true)
    (defs defs' : List G.Item) (hp : defs'.Perm defs) (xtypes : List (String × List G.Attr)) :
    RelRes PermS (addCore path s defs xtypes) (addCore path s' defs' xtypes) := by
  unfold addCore
  rcases defFold_perm path hp h hm with ⟨he, hn⟩ | ⟨t, t', h1, h2, ht⟩
  · rw [← he]
    cases hx : Res.foldlM (C14.defStep path) s defs with
    | ok c => exact (hn c hx).elim
    | defer => exact Or.inl ⟨rfl, fun a h => by cases h⟩
    | err m => exact Or.inl ⟨rfl, fun a h => by cases h⟩
    | panic m => exact Or.inl ⟨rfl, fun a h => by cases h⟩
  · rw [h1, h2]
    exact foldlM_RelRes PermS (C14.xtypeStep path) (fun b b' a hb => xtypeStep_perm path hb a) xtypes t t' ht

theorem implCheck_perm (m : G.Module) (defs' : List G.Item) (hp : defs'.Perm m.defs) :
    implCheck { m with defs := defs' } = implCheck m := by
  unfold implCheck
  simp only []
  congr 1
  funext b
  congr 1
  rw [Bool.eq_iff_iff]
  simp only [List.any_eq_true]
  constructor
  · rintro ⟨d, hd, h⟩; exact ⟨d, hp.mem_iff.mp hd, h⟩
  · rintro ⟨d, hd, h⟩; exact ⟨d, hp.mem_iff.mpr hd, h⟩

/-- `add_module` of a module and of the same module with its definitions permuted, from related states -/
theorem addModule_perm {s s' : State} (h : PermS s s') (m : G.Module) (defs' : List G.Item)
    (hp : defs'.Perm m.defs) (path : Path) :
    RelRes PermS (s.addModule m path) (s'.addModule { m with defs := defs' } path) := by
  rw [addModule_eq, addModule_eq]
  simp only [implCheck_perm m defs' hp]
  cases Res.mapM' C14.xvalStep m.xvals with
  | ok xvals =>
    simp only [Res.bind]
    cases G.docOf m.attrs with
    | none => exact Or.inl ⟨rfl, fun a h => by cases h⟩
    | some doc =>
      simp only []
      by_cases hc : implCheck m = true
      · rw [if_pos hc, if_pos hc]; exact Or.inl ⟨rfl, fun a h => by cases h⟩
      · rw [if_neg hc, if_neg hc]
        exact addCore_perm path (putModule_perm h path _) (putModule_getModule s path _) m.defs defs' hp m.xtypes
  | defer => exact Or.inl ⟨rfl, fun a h => by cases h⟩
  | err m => exact Or.inl ⟨rfl, fun a h => by cases h⟩
  | panic m => exact Or.inl ⟨rfl, fun a h => by cases h⟩

theorem caseStep_perm {s s' : State} (h : PermS s s') (me : ModEnt) :
    RelRes PermS (caseStep s me) (caseStep s' me) := by
  cases me with
  | ast path file m => exact addModule_perm h m m.defs (List.Perm.refl _) path
  | text f t => exact Or.inl ⟨rfl, fun a h => by cases h⟩

/-- case `c'` is case `c` with the definitions of the `j`-th module (an AST module) permuted -/
def ReorderedDefs (c c' : Case) : Prop :=
  ∃ (j : Nat) (path : Path) (file : String) (m : G.Module) (defs' : List G.Item),
    c.modules[j]? = some (.ast path file m) ∧ defs'.Perm m.defs ∧
    c' = { c with modules := c.modules.set j (.ast path file { m with defs := defs' }) }

theorem initialState_reordered (c c' : Case) (h : ReorderedDefs c c') :
    c'.ps = c.ps ∧ c'.prio = c.prio ∧ RelRes PermS c.initialState c'.initialState := by
  obtain ⟨j, path, file, m, defs', hj, hp, rfl⟩ := h
  refine ⟨rfl, rfl, ?_⟩
  obtain ⟨e1, e2⟩ := list_split c.modules j (.ast path file m) (.ast path file { m with defs := defs' }) hj
  rw [initialState_eq, initialState_eq]
  simp only []
  rw [e2]
  conv => lhs; rw [e1]
  exact foldlM_pivot_rel PermS caseStep (.ast path file m) (.ast path file { m with defs := defs' }) PermS.refl
    (fun b b' hb => addModule_perm hb m defs' hp path)
    (fun b b' x hb => caseStep_perm hb x) _ _ (State.new c.ps)

/-- the runs of the two cases: the same failure, or two accepted states that differ in order only -/
theorem run_reordered (c c' : Case) (h : ReorderedDefs c c') : RelO PermS c.run c'.run := by
  obtain ⟨_, hprio, hinit⟩ := initialState_reordered c c' h
  unfold Case.run
  rw [hprio]
  rcases hinit with ⟨he, hn⟩ | ⟨s0, s0', h1, h2, hs⟩
  · rw [← he]
    cases hx : c.initialState with
    | ok a => exact (hn a hx).elim
    | defer => rfl
    | err m => rfl
    | panic m => rfl
  · rw [h1, h2]
    exact build_perm c.prio hs


/-! ### the registry keys agree with the items' own paths -/

/-- every item is stored under its own path -/
def WK (r : Registry) : Prop := ∀ q i, r.get q = some i → i.path = q

theorem WK.add {r : Registry} (h : WK r) (i : ItemDef) : WK (r.add i) := by
  intro q j hj
  rw [C14.get_add] at hj
  by_cases hq : q = i.path
  · rw [if_pos hq] at hj; cases hj; exact hq.symm
  · rw [if_neg hq] at hj; exact h q j hj

theorem WK.setState {r : Registry} (h : WK r) (p : Path) (st : IState) : WK (r.setState p st) := by
  intro q j hj
  rw [C12.get_setState] at hj
  by_cases hq : q = p
  · rw [if_pos hq] at hj
    cases hg : r.get q with
    | none => rw [hg] at hj; cases hj
    | some i => rw [hg] at hj; cases hj; exact h q i hg
  · rw [if_neg hq] at hj; exact h q j hj

theorem WK.addItem {s s' : State} (h : WK s.reg) (i : ItemDef) (ha : s.addItem i = .ok s') : WK s'.reg := by
  rw [C14.addItem_reg s s' i ha]; exact h.add i

theorem WK.new (ps : Nat) : WK (State.new ps).reg := by
  rw [C02.new_eq]
  have : ∀ (l : List (String × Nat)) (s : State), (s.getModule []).isSome = true → WK s.reg →
      WK (l.foldl C02.newStep s).reg := by
    intro l
    induction l with
    | nil => intro s _ hs; exact hs
    | cons x l ih =>
      intro s hm hs
      obtain ⟨h1, h2⟩ := C02.newStep_spec s x hm
      refine ih _ h1 ?_
      rw [h2]
      exact hs.add _
  refine this _ _ rfl ?_
  intro q i hi
  cases hi

theorem WK.addModule {s s' : State} (h : WK s.reg) (m : G.Module) (path : Path)
    (ha : s.addModule m path = .ok s') : WK s'.reg := by
  obtain ⟨xvals, doc, s2, _, h1, h2⟩ := C14.addModule_inv s s' m path ha
  have k0 : WK (s.putModule path (C14.newMod m path xvals doc)).reg := h
  have k2 := foldlM_inv' (C14.defStep path) (fun t => WK t.reg)
    (fun b a b' hb hf => by
      obtain ⟨_, i, _, hi⟩ := C14.defStep_spec path b a b' hf
      exact WK.addItem hb i hi) m.defs _ s2 k0 h1
  exact foldlM_inv' (C14.xtypeStep path) (fun t => WK t.reg)
    (fun b a b' hb hf => by
      obtain ⟨_, i, _, hi⟩ := C14.xtypeStep_spec path b a b' hf
      exact WK.addItem hb i hi) m.xtypes s2 s' k2 h2

theorem WK.initialState (c : Case) (s0 : State) (h : c.initialState = .ok s0) : WK s0.reg := by
  rw [initialState_eq] at h
  refine foldlM_inv' caseStep (fun t => WK t.reg) ?_ c.modules _ s0 (WK.new c.ps) h
  intro b me b' hb hf
  cases me with
  | ast path file m => exact WK.addModule hb m path hf
  | text f t => cases hf

theorem WK.reach {s s1 : State} {owner : Path} (h : WK s.reg) (hr : C10.Reach s s1 owner) : WK s1.reg := by
  rcases hr with rfl | ⟨item, _, _, _, ha⟩
  · exact h
  · exact WK.addItem h item ha

theorem WK.attemptItem {s : State} (h : WK s.reg) (q : Path) : WK (attemptItem s q).1.reg := by
  rw [attemptItem_eq]
  cases s.reg.get q with
  | none => exact h
  | some item =>
    simp only []
    cases item.state with
    | res r => exact h
    | unres d0 =>
      simp only []
      have h1 := WK.reach h (attemptDef_reach s q d0)
      cases hx : attemptDef s q d0 with
      | mk s1 x =>
        rw [hx] at h1
        cases x with
        | ok r => exact h1.setState q _
        | _ => exact h1

theorem WK.runRound (l : List Path) {s : State} (h : WK s.reg) : WK (runRound s l).1.reg := by
  induction l generalizing s with
  | nil => exact h
  | cons q qs ih =>
    have h1 := WK.attemptItem h q
    cases ha : PyxisVerif.attemptItem s q with
    | mk s2 r2 =>
      rw [ha] at h1
      cases r2 with
      | ok u => cases u; rw [runRound_cons_ok s s2 q qs ha]; exact ih h1
      | defer => rw [runRound_cons_stop s s2 q qs _ ha (by simp)]; exact h1
      | err m => rw [runRound_cons_stop s s2 q qs _ ha (by simp)]; exact h1
      | panic m => rw [runRound_cons_stop s s2 q qs _ ha (by simp)]; exact h1

theorem WK.resolveLoop (prio : List Path) (fuel : Nat) {s sf : State} (h : WK s.reg)
    (hl : resolveLoop prio fuel s = .ok sf) : WK sf.reg := by
  induction fuel generalizing s with
  | zero => cases hl
  | succ n ih =>
    rcases resolveLoop_ok_inv prio n s sf hl with ⟨_, rfl⟩ | ⟨_, s1, hr, _, hl1⟩
    · exact h
    · have := WK.runRound (s.reg.unresolved prio) h
      rw [hr] at this
      exact ih this hl1

theorem WK.build (prio : List Path) {s sf : State} (h : WK s.reg) (hb : s.build prio = .ok sf) : WK sf.reg := by
  obtain ⟨s1, hl, ms, _, rfl⟩ := C09.build_ok_inv s prio sf hb
  have k : WK s1.reg := WK.resolveLoop prio _ h hl
  exact k

theorem WK.run (c : Case) (sf : State) (h : c.run = .ok sf) : WK sf.reg := by
  unfold Case.run at h
  cases hi : c.initialState with
  | ok s0 => rw [hi] at h; exact WK.build c.prio (WK.initialState c s0 hi) h
  | defer => rw [hi] at h; cases h
  | err m => rw [hi] at h; cases h
  | panic m => rw [hi] at h; cases h

/-! ### the observations of two states that differ in order only -/

theorem moduleFile_canon (s : State) (hk : WK s.reg) (key : Path) (m : Mod) :
    Emit.moduleFile s key (canonM m) = Emit.moduleFile s key m :=
  reorder_definitions_lem s key m (canonM m) (List.mergeSort_perm _ _) hk rfl

abbrev fileLe : Path × Mod → Path × Mod → Bool := fun a b => Emit.relFile a.1 ≤ Emit.relFile b.1

theorem sortBy_canonE (l : List (Path × Mod)) :
    (Emit.sortBy fileLe l).map canonE = Emit.sortBy fileLe (l.map canonE) := by
  unfold Emit.sortBy
  apply List.map_mergeSort
  intro a _ b _
  rfl

theorem files_perm {s s' : State} (h : PermS s s') (hk : WK s.reg) : Emit.files s' = Emit.files s := by
  have e : ∀ (t : State) (ms : List (Path × Mod)), (∀ key m, Emit.moduleFile t key m = Emit.moduleFile s key (canonM m)) →
      (Emit.sortBy fileLe (ms.filter fun e => !e.1.isEmpty)).map (fun e => Emit.moduleFile t e.1 e.2)
        = (Emit.sortBy fileLe ((ms.map canonE).filter fun e => !e.1.isEmpty)).map (fun e => Emit.moduleFile s e.1 e.2) := by
    intro t ms ht
    have : (ms.map canonE).filter (fun e => !e.1.isEmpty) = (ms.filter fun e => !e.1.isEmpty).map canonE := by
      rw [List.filter_map]; rfl
    rw [this, ← sortBy_canonE, List.map_map]
    apply List.map_congr_left
    intro x _
    exact ht x.1 x.2
  unfold Emit.files
  simp only []
  rw [e s' s'.modules (fun key m => by rw [moduleFile_sim s s' h.regSim, moduleFile_canon s hk]),
      e s s.modules (fun key m => (moduleFile_canon s hk key m).symm), h.mods]

theorem o3Of_perm {o o' : BuildOutcome} (h : RelO PermS o o') (hk : ∀ s, o = .ok s → WK s.reg) :
    o3Of o' = o3Of o := by
  cases o with
  | ok s =>
    cases o' with
    | ok s' => simp only [o3Of, files_perm h (hk s rfl)]
    | _ => exact h.elim
  | nonterm l => cases o' <;> first | rfl | exact h.elim
  | err m =>
    cases o' with
    | err m' => have : m' = m := h; rw [this]
    | _ => exact h.elim
  | panic m =>
    cases o' with
    | panic m' => have : m' = m := h; rw [this]
    | _ => exact h.elim
  | fuel => cases o' <;> first | rfl | exact h.elim

theorem reorder_definitions_o3 (c c' : Case) (h : ReorderedDefs c c') : c'.o3 = c.o3 := by
  rw [o3_eq, o3_eq]
  exact o3Of_perm (run_reordered c c' h) (fun s hs => WK.run c s hs)

theorem flatMap_perm_of_f2 {α β} (Q : α → α → Prop) (g : α → List β) (hg : ∀ a a', Q a a' → (g a').Perm (g a))
    (l l' : List α) (h : F2 Q l l') : (l'.flatMap g).Perm (l.flatMap g) := by
  induction h with
  | nil => exact List.Perm.refl _
  | @cons a a' l l' hq _ ih =>
    simp only [List.flatMap_cons]
    exact List.Perm.append (hg a a' hq) ih

theorem resolvedS_perm {s s' : State} (h : PermS s s') (hk : WK s.reg) : Obs.resolvedS s' = Obs.resolvedS s := by
  have hget : s'.reg.get = s.reg.get := funext h.get
  -- the extern values
  have hx : (s'.modules.flatMap fun e => e.2.xvals.map fun x => (e.1, x))
      = (s.modules.flatMap fun e => e.2.xvals.map fun x => (e.1, x)) := by
    have e : ∀ (ms : List (Path × Mod)), (ms.flatMap fun e => e.2.xvals.map fun x => (e.1, x))
        = ((ms.map canonE).flatMap fun e => e.2.xvals.map fun x => (e.1, x)) := by
      intro ms
      rw [List.flatMap_map]
      rfl
    rw [e s'.modules, e s.modules, h.mods]
  -- the items
  have hperm : (s'.modules.flatMap fun e => e.2.defPaths.filterMap s'.reg.get).Perm
      (s.modules.flatMap fun e => e.2.defPaths.filterMap s.reg.get) := by
    rw [hget]
    refine flatMap_perm_of_f2 (fun a a' => canonE a' = canonE a) _ ?_ _ _ (f2_of_map_eq canonE _ _ h.mods)
    intro a a' hq
    have : canonM a'.2 = canonM a.2 := congrArg Prod.snd hq
    exact (canonM_perm this).filterMap _
  have hsort : Emit.sortBy pathLe ((s'.modules.flatMap fun e => e.2.defPaths.filterMap s'.reg.get).filter (!·.isPredefined))
      = Emit.sortBy pathLe ((s.modules.flatMap fun e => e.2.defPaths.filterMap s.reg.get).filter (!·.isPredefined)) := by
    unfold Emit.sortBy
    apply mergeSort_perm_eq
    · intro a b c; exact ple_trans _ _ _
    · intro a b; exact ple_total _ _
    · exact hperm.filter _
    · intro a b ha hb h1 h2
      have key : ∀ x, x ∈ (s'.modules.flatMap fun e => e.2.defPaths.filterMap s'.reg.get).filter (!·.isPredefined) →
          s.reg.get x.path = some x := by
        intro x hx
        have hx1 := (List.mem_filter.mp hx).1
        rw [List.mem_flatMap] at hx1
        obtain ⟨e, _, hxe⟩ := hx1
        rw [List.mem_filterMap] at hxe
        obtain ⟨q, _, hq⟩ := hxe
        rw [h.get] at hq
        rw [hk q x hq]
        exact hq
      have e := ple_antisymm _ _ h1 h2
      have ka := key a ha
      have kb := key b hb
      rw [e] at ka
      rw [ka] at kb
      exact Option.some.inj kb
  unfold Obs.resolvedS
  simp only []
  rw [hsort, hx]

theorem outcomeS_perm {o o' : BuildOutcome} (h : RelO PermS o o') (hk : ∀ s, o = .ok s → WK s.reg) :
    Obs.outcomeS o' = Obs.outcomeS o := by
  cases o with
  | ok s =>
    cases o' with
    | ok s' => exact resolvedS_perm h (hk s rfl)
    | _ => exact h.elim
  | nonterm l =>
    cases o' with
    | nonterm l' => have : l' = l := h; rw [this]
    | _ => exact h.elim
  | err m =>
    cases o' with
    | err m' => have : m' = m := h; rw [this]
    | _ => exact h.elim
  | panic m =>
    cases o' with
    | panic m' => have : m' = m := h; rw [this]
    | _ => exact h.elim
  | fuel => cases o' <;> first | rfl | exact h.elim

theorem reorder_definitions_o2 (c c' : Case) (h : ReorderedDefs c c') : c'.o2 = c.o2 := by
  unfold Case.o2
  exact outcomeS_perm (run_reordered c c' h) (fun s hs => WK.run c s hs)

end PyxisVerif.C20
