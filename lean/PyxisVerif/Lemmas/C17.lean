import PyxisVerif.Spec.C17
import PyxisVerif.Lemmas.C05
/-! helper lemmas for C17 -/
namespace PyxisVerif.C17
open Gen

def docStep (acc : Option (Option String)) (a : G.Attr) : Option (Option String) :=
    match acc with
    | none => none
    | some doc =>
      match a with
      | .assign "doc" (.str v) =>
        match doc with
        | none => some (some v)
        | some d => some (some (d ++ "\n" ++ v))
      | .assign "doc" _ => none
      | _ => some doc

theorem docOf_eq (attrs : List G.Attr) : G.docOf attrs = attrs.foldl docStep (some none) := rfl

/-- classification of an attribute w.r.t. docs -/
inductive DocKind (a : G.Attr) : Prop
  | str (v : String) (h : a = .assign "doc" (.str v))
  | bad (h1 : ∀ doc, docStep (some doc) a = none) (h2 : docsAreStrings [a] = false)
  | other (h1 : ∀ doc, docStep (some doc) a = some doc) (h2 : docStrings [a] = []) (h3 : docsAreStrings [a] = true)

theorem docKind (a : G.Attr) : DocKind a := by
  cases a with
  | ident n => exact .other (fun _ => rfl) rfl rfl
  | fn n args => exact .other (fun _ => rfl) rfl rfl
  | assign n e =>
    by_cases h : n = "doc"
    · subst h
      cases e with
      | str v => exact .str v rfl
      | int z => exact .bad (fun _ => rfl) rfl
      | ident s => exact .bad (fun _ => rfl) rfl
    · refine .other (fun _ => ?_) ?_ ?_
      · unfold docStep; split <;> simp_all
      · unfold docStrings; simp [List.filterMap]; split <;> simp_all
      · unfold docsAreStrings; simp; split <;> simp_all
theorem docStrings_cons (a : G.Attr) (l : List G.Attr) : docStrings (a :: l) = docStrings [a] ++ docStrings l := by
  unfold docStrings
  rw [← List.filterMap_append]; rfl

theorem docsAreStrings_cons (a : G.Attr) (l : List G.Attr) :
    docsAreStrings (a :: l) = (docsAreStrings [a] && docsAreStrings l) := by
  simp [docsAreStrings]

theorem foldl_docStep_none (l : List G.Attr) : l.foldl docStep none = none := by
  induction l with
  | nil => rfl
  | cons a l ih => exact ih

theorem foldl_docStep_some (d : String) (l : List G.Attr) (h : docsAreStrings l = true) :
    l.foldl docStep (some (some d)) = some (some ("\n".intercalate (d :: docStrings l))) := by
  induction l generalizing d with
  | nil => rfl
  | cons a l ih =>
    rw [docsAreStrings_cons, Bool.and_eq_true] at h
    rw [List.foldl_cons, docStrings_cons]
    cases docKind a with
    | str v ha =>
      subst ha
      have : docStep (some (some d)) (.assign "doc" (.str v)) = some (some (d ++ "\n" ++ v)) := rfl
      rw [this, ih _ h.2]
      have : docStrings [G.Attr.assign "doc" (.str v)] = [v] := rfl
      rw [this, List.singleton_append, String.intercalate_cons_cons, String.intercalate_cons_append]
    | bad h1 h2 => rw [h2] at h; exact absurd h.1 (by decide)
    | other h1 h2 h3 => rw [h1, h2]; exact ih _ h.2

theorem foldl_docStep_start (l : List G.Attr) (h : docsAreStrings l = true) :
    l.foldl docStep (some none) =
      some (if docStrings l = [] then none else some ("\n".intercalate (docStrings l))) := by
  induction l with
  | nil => rfl
  | cons a l ih =>
    rw [docsAreStrings_cons, Bool.and_eq_true] at h
    rw [List.foldl_cons, docStrings_cons]
    cases docKind a with
    | str v ha =>
      subst ha
      exact foldl_docStep_some v l h.2
    | bad h1 h2 => rw [h2] at h; exact absurd h.1 (by decide)
    | other h1 h2 h3 => rw [h1, h2]; exact ih h.2

theorem foldl_docStep_bad (acc : Option (Option String)) (l : List G.Attr) (h : docsAreStrings l = false) :
    l.foldl docStep acc = none := by
  induction l generalizing acc with
  | nil => exact absurd h (by decide)
  | cons a l ih =>
    rw [docsAreStrings_cons] at h
    rw [List.foldl_cons]
    cases acc with
    | none => exact foldl_docStep_none _
    | some doc =>
      cases docKind a with
      | str v ha =>
        subst ha
        exact ih _ (by simpa [docsAreStrings] using h)
      | bad h1 h2 => rw [h1]; exact foldl_docStep_none _
      | other h1 h2 h3 => rw [h1]; rw [h3] at h; exact ih _ (by simpa using h)
theorem splitNl_no_nl (l : List Char) (h : '\n' ∉ l) : Emit.splitNl l = [l] := by
  induction l with
  | nil => rfl
  | cons c cs ih =>
    have hc : c ≠ '\n' := fun e => h (e ▸ List.mem_cons_self)
    have hcs : '\n' ∉ cs := fun e => h (List.mem_cons_of_mem _ e)
    unfold Emit.splitNl
    rw [if_neg hc, ih hcs]

theorem splitNl_append_nl (l rest : List Char) (h : '\n' ∉ l) :
    Emit.splitNl (l ++ '\n' :: rest) = l :: Emit.splitNl rest := by
  induction l with
  | nil => simp [Emit.splitNl]
  | cons c cs ih =>
    have hc : c ≠ '\n' := fun e => h (e ▸ List.mem_cons_self)
    have hcs : '\n' ∉ cs := fun e => h (List.mem_cons_of_mem _ e)
    rw [List.cons_append, Emit.splitNl, if_neg hc, ih hcs]

theorem splitNl_intercalate (l : List Char) (ls : List (List Char)) (h : ∀ x ∈ l :: ls, '\n' ∉ x) :
    Emit.splitNl (['\n'].intercalate (l :: ls)) = l :: ls := by
  induction ls generalizing l with
  | nil => simpa using splitNl_no_nl l (h l List.mem_cons_self)
  | cons l' zs ih =>
    rw [List.intercalate_cons_cons, List.append_assoc, List.singleton_append,
      splitNl_append_nl _ _ (h l List.mem_cons_self), ih l' (fun x hx => h x (List.mem_cons_of_mem _ hx))]

theorem strLines_intercalate (d : String) (ds : List String) (h : ∀ x ∈ d :: ds, '\n' ∉ x.toList) :
    Emit.strLines ("\n".intercalate (d :: ds)) = d :: ds := by
  unfold Emit.strLines
  rw [String.toList_intercalate]
  have : "\n".toList = ['\n'] := rfl
  rw [this, List.map_cons, splitNl_intercalate]
  · simp [String.ofList_toList]
  · intro x hx
    rw [← List.map_cons, List.mem_map] at hx
    obtain ⟨y, hy, rfl⟩ := hx
    exact h y hy

theorem docLines_docOf (attrs : List G.Attr) (h : docsAreStrings attrs = true)
    (hn : ∀ d ∈ docStrings attrs, '\n' ∉ d.toList) :
    (G.docOf attrs).map Emit.docLines = some (docStrings attrs) := by
  rw [docOf_eq, foldl_docStep_start attrs h]
  cases hds : docStrings attrs with
  | nil => rfl
  | cons d ds =>
    rw [hds] at hn
    simp only [Option.map_some, Emit.docLines]
    rw [if_neg (by simp)]
    simp only
    rw [strLines_intercalate d ds hn]
/-! ## marker attributes -/

theorem hasIdent_cons (a : G.Attr) (l : List G.Attr) (n : String) :
    hasIdent (a :: l) n = (a == .ident n || hasIdent l n) := by
  simp [hasIdent]

theorem beq_dec {α} [DecidableEq α] (a b : α) : (a == b) = decide (a = b) := rfl

theorem typeAttrStep_flags (st st' : TypeAttrs) (a : G.Attr) (h : typeAttrStep st a = .ok st') :
    st'.copyable = (st.copyable || a == .ident "copyable")
    ∧ st'.cloneable = (st.cloneable || a == .ident "copyable" || a == .ident "cloneable")
    ∧ st'.defaultable = (st.defaultable || a == .ident "defaultable")
    ∧ st'.packed = (st.packed || a == .ident "packed") := by
  unfold typeAttrStep at h
  split at h
  · split at h
    · cases h; simp [beq_dec]
    · cases h
  · split at h
    · cases h; simp [beq_dec]
    · cases h
  · split at h
    · cases h; simp [beq_dec]
    · cases h
  · cases h; simp [beq_dec]
  · cases h; simp [beq_dec]
  · cases h; simp [beq_dec]
  · cases h; simp [beq_dec]
  · cases h
    cases a <;> simp_all [beq_dec]

theorem typeAttr_fold (attrs : List G.Attr) (st ta : TypeAttrs) (h : Res.foldlM typeAttrStep st attrs = .ok ta) :
    ta.copyable = (st.copyable || hasIdent attrs "copyable")
    ∧ ta.cloneable = (st.cloneable || hasIdent attrs "copyable" || hasIdent attrs "cloneable")
    ∧ ta.defaultable = (st.defaultable || hasIdent attrs "defaultable")
    ∧ ta.packed = (st.packed || hasIdent attrs "packed") := by
  induction attrs generalizing st with
  | nil => simp only [Res.foldlM] at h; cases h; simp [hasIdent]
  | cons a l ih =>
    simp only [Res.foldlM] at h
    split at h
    · next st' hst =>
      obtain ⟨h1, h2, h3, h4⟩ := typeAttrStep_flags st st' a hst
      obtain ⟨i1, i2, i3, i4⟩ := ih st' h
      simp only [hasIdent_cons]
      rw [i1, i2, i3, i4, h1, h2, h3, h4]
      refine ⟨?_, ?_, ?_, ?_⟩ <;> (simp only [Bool.or_assoc]; try (generalize (a == _) = x; generalize (a == _) = y; cases x <;> cases y <;> simp))
    all_goals cases h
theorem enumAttrStep_flags (st st' : EnumAttrs) (a : G.Attr) (h : enumAttrStep st a = .ok st') :
    st'.copyable = (st.copyable || a == .ident "copyable")
    ∧ st'.cloneable = (st.cloneable || a == .ident "copyable" || a == .ident "cloneable")
    ∧ st'.defaultable = (st.defaultable || a == .ident "defaultable") := by
  unfold enumAttrStep at h
  split at h
  · cases h; simp [beq_dec]
  · cases h; simp [beq_dec]
  · cases h; simp [beq_dec]
  · split at h
    · cases h; simp [beq_dec]
    · cases h
  · cases h
    cases a <;> simp_all [beq_dec]

theorem enumAttr_fold (attrs : List G.Attr) (st ea : EnumAttrs) (h : Res.foldlM enumAttrStep st attrs = .ok ea) :
    ea.copyable = (st.copyable || hasIdent attrs "copyable")
    ∧ ea.cloneable = (st.cloneable || hasIdent attrs "copyable" || hasIdent attrs "cloneable")
    ∧ ea.defaultable = (st.defaultable || hasIdent attrs "defaultable") := by
  induction attrs generalizing st with
  | nil => simp only [Res.foldlM] at h; cases h; simp [hasIdent]
  | cons a l ih =>
    simp only [Res.foldlM] at h
    split at h
    · next st' hst =>
      obtain ⟨h1, h2, h3⟩ := enumAttrStep_flags st st' a hst
      obtain ⟨i1, i2, i3⟩ := ih st' h
      simp only [hasIdent_cons]
      rw [i1, i2, i3, h1, h2, h3]
      refine ⟨?_, ?_, ?_⟩ <;> (simp only [Bool.or_assoc]; try (generalize (a == _) = x; generalize (a == _) = y; cases x <;> cases y <;> simp))
    all_goals cases h

theorem type_flags_aux (attrs : List G.Attr) (ta : TypeAttrs) (h : Res.foldlM typeAttrStep {} attrs = .ok ta) :
    Emit.derivesOf ta.copyable ta.cloneable ta.defaultable = specDerives attrs
    ∧ ta.packed = hasIdent attrs "packed" := by
  obtain ⟨h1, h2, h3, h4⟩ := typeAttr_fold attrs {} ta h
  simp only [Bool.false_or] at h1 h2 h3 h4
  rw [h1, h2, h3, h4]
  exact ⟨rfl, rfl⟩

theorem enum_flags_aux (attrs : List G.Attr) (ea : EnumAttrs) (h : Res.foldlM enumAttrStep {} attrs = .ok ea) :
    Emit.derivesOf ea.copyable ea.cloneable ea.defaultable = specDerives attrs := by
  obtain ⟨h1, h2, h3⟩ := enumAttr_fold attrs {} ea h
  simp only [Bool.false_or] at h1 h2 h3
  rw [h1, h2, h3]
  rfl

/-! ## functions -/

theorem function_doc_vis_aux (reg : Registry) (scope : List Path) (v : Bool) (f : G.Func) (sf : SFunc)
    (h : buildFunction reg scope v f = .ok sf) : G.docOf f.attrs = some sf.doc ∧ sf.vis = f.vis := by
  obtain ⟨doc, st, body, args, ret, hdoc, _, _, _, _, hv, _, hd, _⟩ := buildFunction_ok reg scope v f sf h
  rw [hd]; exact ⟨hdoc, hv⟩

def injStep (baseName : String) (acc : InjAcc) (f : SFunc) : InjAcc :=
    let name := if acc.used.contains f.name then fmtRenamed baseName f.name else f.name
    let f' := { f with name, body := .field baseName f.name }
    { fns := acc.fns ++ [f'], used := name :: acc.used }

theorem injFold (base : String) (l : List SFunc) (acc : InjAcc) :
    ∀ g ∈ (l.foldl (injStep base) acc).fns, g ∈ acc.fns ∨
      ∃ f ∈ l, g.doc = f.doc ∧ g.vis = f.vis ∧ g.args = f.args ∧ g.ret = f.ret ∧ g.cc = f.cc
        ∧ g.body = .field base f.name := by
  induction l generalizing acc with
  | nil => intro g hg; exact .inl hg
  | cons f fs ih =>
    intro g hg
    rw [List.foldl_cons] at hg
    rcases ih _ g hg with h | ⟨f', hf', hh⟩
    · simp only [injStep, List.mem_append, List.mem_singleton] at h
      rcases h with h | h
      · exact .inl h
      · subst h
        exact .inr ⟨f, List.mem_cons_self, rfl, rfl, rfl, rfl, rfl, rfl⟩
    · exact .inr ⟨f', List.mem_cons_of_mem _ hf', hh⟩

theorem inherited_aux (base : String) (acc : InjAcc) (fs : List SFunc) :
    ∀ g ∈ (addFunctions base acc fs).fns, g ∈ acc.fns ∨
      ∃ f ∈ fs, f.vis = .pub ∧ g.doc = f.doc ∧ g.vis = f.vis ∧ g.args = f.args ∧ g.ret = f.ret ∧ g.cc = f.cc
        ∧ g.body = .field base f.name := by
  intro g hg
  have : addFunctions base acc fs = (fs.filter fun f => f.isPublic && !f.isInternal).foldl (injStep base) acc := rfl
  rw [this] at hg
  rcases injFold base _ acc g hg with h | ⟨f, hf, hh⟩
  · exact .inl h
  · rw [List.mem_filter] at hf
    refine .inr ⟨f, hf.1, ?_, hh⟩
    have := hf.2
    have h2 : f.isPublic = true := by
      cases hp : f.isPublic <;> simp [hp] at this ⊢
    simpa [SFunc.isPublic] using h2

/-! ## padding -/

theorem cast_ne_ok' {α β} (e : Res α) (b : β) : (e.cast : Res β) ≠ .ok b := by
  cases e <;> simp [Res.cast]

theorem srcRegion_ok (reg : Registry) (p : Layout.Placed Region) (r : Region)
    (h : (match p.src with
      | some r => Res.ok r
      | none => match reg.paddingType p.size with
        | .ok t => Res.ok ({ vis := .priv, name := none, doc := none, ty := .data t, isBase := false } : Region)
        | e => e.cast) = .ok r) :
    p.src = some r ∨ (p.src = none ∧ r.vis = .priv ∧ r.doc = none ∧ r.name = none) := by
  cases hsrc : p.src with
  | some r0 => rw [hsrc] at h; cases h; exact .inl rfl
  | none =>
    rw [hsrc] at h
    simp only at h
    split at h
    · cases h; exact .inr ⟨rfl, rfl, rfl, rfl⟩
    · exact absurd h (cast_ne_ok' _ _)

/-- the renaming of an unnamed region -/
def renamed (off : Nat) (r : Region) : Region :=
  match r.name with
  | some _ => r
  | none => { vis := .priv, name := some (fmtPaddingField (toHexLower off)), doc := none, ty := r.ty, isBase := false }

theorem renamed_named (off : Nat) (r : Region) (h : r.name.isSome) : renamed off r = r := by
  unfold renamed
  cases hn : r.name with
  | none => rw [hn] at h; cases h
  | some _ => rfl

theorem renamed_unnamed (off : Nat) (r : Region) (h : r.name = none) :
    (renamed off r).vis = .priv ∧ (renamed off r).doc = none := by
  unfold renamed; rw [h]; exact ⟨rfl, rfl⟩

theorem nameRegions_cons (reg : Registry) (off : Nat) (p : Layout.Placed Region) (ps : List (Layout.Placed Region))
    (regions : List Region) (h : nameRegions reg off (p :: ps) = .ok regions) :
    ∃ r rs, (p.src = some r ∨ (p.src = none ∧ r.vis = .priv ∧ r.doc = none ∧ r.name = none))
      ∧ nameRegions reg (off + p.size) ps = .ok rs ∧ regions = renamed off r :: rs := by
  unfold nameRegions at h
  split at h
  · next r hr =>
    simp only at h
    split at h
    · next rs hrs =>
      cases h
      exact ⟨r, rs, srcRegion_ok reg p r hr, hrs, rfl⟩
    · next e hne => exact absurd h (hne _)
  · exact absurd h (cast_ne_ok' _ _)

theorem nameRegions_spec (reg : Registry) (off : Nat) (placed : List (Layout.Placed Region)) (regions : List Region)
    (h : nameRegions reg off placed = .ok regions) :
    ∀ k (hk : k < placed.length) (hk' : k < regions.length),
      (placed[k].src = none → regions[k].vis = .priv ∧ regions[k].doc = none)
      ∧ (∀ r, placed[k].src = some r → r.name.isSome → regions[k] = r)
      ∧ (∀ r, placed[k].src = some r → r.name = none → regions[k].vis = .priv ∧ regions[k].doc = none) := by
  induction placed generalizing off regions with
  | nil => intro k hk; exact absurd hk (by simp)
  | cons p ps ih =>
    obtain ⟨r, rs, hsrc, hrs, rfl⟩ := nameRegions_cons reg off p ps regions h
    intro k hk hk'
    cases k with
    | succ k =>
      simp only [List.getElem_cons_succ]
      exact ih _ rs hrs k (by simpa using hk) (by simpa using hk')
    | zero =>
      simp only [List.getElem_cons_zero]
      rcases hsrc with hsrc | ⟨hsrc, hv, hd, hn⟩
      · rw [hsrc]
        refine ⟨(by intro h; cases h), ?_, ?_⟩
        · intro r' hr' hn'
          cases hr'
          exact renamed_named off r hn'
        · intro r' hr' hn'
          cases hr'
          exact renamed_unnamed off r hn'
      · rw [hsrc]
        exact ⟨fun _ => renamed_unnamed off r hn, (by intro r' h; cases h), (by intro r' h; cases h)⟩
/-! ## emitted shapes -/

theorem typeItems_head (reg : Registry) (path : Path) (size align : Nat) (vis : Vis) (td : TypeDefn) :
    ∃ tl, Emit.typeItems reg path size align vis td =
      Sexp.mk "struct" ([Emit.docsS td.doc,
        Sexp.mk "derives" ((Emit.derivesOf td.copyable td.cloneable td.defaultable).map .str),
        Sexp.mk "repr" (if td.packed then [.str "C", .str "packed"] else [.str "C", .str ("align(" ++ toString align ++ ")")]),
        Emit.visS vis, .str (path.getLast?.getD "")] ++
        td.regions.map fun r => Sexp.mk "fld" [Emit.docsS r.doc, Emit.visS r.vis, .str (r.name.getD ""), .str (Emit.rtyStr r.ty)])
      :: tl := by
  unfold Emit.typeItems
  exact ⟨_, rfl⟩

theorem methodS_head (f : SFunc) :
    ∃ tl, Emit.methodS f = Sexp.mk "method" (Emit.docsS f.doc :: Emit.visS f.vis :: .str f.name :: tl) := by
  unfold Emit.methodS
  exact ⟨_, rfl⟩
end PyxisVerif.C17
