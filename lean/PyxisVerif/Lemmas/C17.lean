import PyxisVerif.Spec.C17
/-! helper lemmas for C17 -/
namespace PyxisVerif.C17
end PyxisVerif.C17
