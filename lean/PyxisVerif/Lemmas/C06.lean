import PyxisVerif.Spec.C06
/-! helper lemmas for C06 -/
namespace PyxisVerif.C06
open Gen

theorem prefix_of_zip_any {α} [DecidableEq α] (l₁ l₂ : List α) (hl : l₁.length ≤ l₂.length)
    (h : (l₁.zip l₂).any (fun p => p.1 != p.2) = false) : l₁ <+: l₂ := by
  induction l₁ generalizing l₂ with
  | nil => exact List.nil_prefix
  | cons a as ih =>
    cases l₂ with
    | nil => simp at hl
    | cons b bs =>
      simp only [List.zip_cons_cons, List.any_cons, Bool.or_eq_false_iff, bne_eq_false_iff_eq] at h
      obtain ⟨h1, h2⟩ := h
      subst h1
      simp only [List.length_cons, Nat.add_le_add_iff_right] at hl
      exact (List.prefix_cons_inj a).mpr (ih bs hl h2)

/-- the base checks of `vftable::build`, made after the generated item was added -/
def vftCheck (reg : Registry) (fb : Option Region) (fns : List SFunc) (p : Path) :
    Res (Option Vft × Option Region) :=
  match baseVftable reg fb with
  | .ok (some (baseName, bv)) =>
    if fns.length < bv.fns.length then .err "vftable is missing functions from base class"
    else if (bv.fns.zip fns).any (fun p => p.1 != p.2) then
      .err "vftable has a function that differs from the base class"
    else .ok (some { fns, baseField := some baseName, ty := .cptr (.raw p) }, none)
  | .ok none =>
    .ok (some { fns, baseField := none, ty := .cptr (.raw p) },
         some { vis := .priv, name := some vftableFieldName, doc := none,
                ty := .data (.cptr (.raw p)), isBase := false })
  | e => e.cast

theorem buildVftable_eq (s s1 : State) (owner : Path) (vis : Vis) (fb : Option Region) (fns : List SFunc)
    (item : ItemDef) (hi : buildVftableItem s.reg owner vis fns = some item)
    (hc : (match s.reg.get item.path with | some e => e != item | none => false) = false)
    (ha : s.addItem item = .ok s1) :
    buildVftable s owner vis fb (some fns) = (s1, vftCheck s1.reg fb fns item.path) := by
  unfold buildVftable vftCheck
  simp only [hi, ha]
  rw [if_neg (by rw [Bool.not_eq_true]; exact hc)]
  rfl

theorem buildVftable_ok_inv (s s1 : State) (owner : Path) (vis : Vis) (fb : Option Region) (fns : List SFunc)
    (item : ItemDef) (r : Option Vft × Option Region)
    (hi : buildVftableItem s.reg owner vis fns = some item)
    (h : buildVftable s owner vis fb (some fns) = (s1, .ok r)) :
    vftCheck s1.reg fb fns item.path = .ok r := by
  cases hc : (match s.reg.get item.path with | some e => e != item | none => false) with
  | true =>
    unfold buildVftable at h
    simp only [hi] at h
    rw [if_pos (by exact hc)] at h
    cases h
  | false =>
    cases ha : s.addItem item with
    | ok s1' =>
      rw [buildVftable_eq s s1' owner vis fb fns item hi hc ha] at h
      simp only [Prod.mk.injEq] at h
      obtain ⟨rfl, h⟩ := h
      exact h
    | defer => unfold buildVftable at h; simp only [hi, ha] at h; rw [if_neg (by rw [Bool.not_eq_true]; exact hc)] at h; simp [Res.cast] at h
    | err m => unfold buildVftable at h; simp only [hi, ha] at h; rw [if_neg (by rw [Bool.not_eq_true]; exact hc)] at h; simp [Res.cast] at h
    | panic m => unfold buildVftable at h; simp only [hi, ha] at h; rw [if_neg (by rw [Bool.not_eq_true]; exact hc)] at h; simp [Res.cast] at h

theorem item_of_path (reg : Registry) (owner vpath : Path) (vis : Vis) (fns : List SFunc)
    (hp : vftablePath owner = some vpath) :
    ∃ item, buildVftableItem reg owner vis fns = some item ∧ item.path = vpath := by
  simp [buildVftableItem, hp]


theorem accept_main (s s1 : State) (owner : Path) (vis : Vis) (fb : Option Region) (fns : List SFunc)
    (v : Option Vft) (ptr : Option Region) (bn : String) (bv : Vft)
    (vpath : Path) (hp : vftablePath owner = some vpath)
    (h : buildVftable s owner vis fb (some fns) = (s1, .ok (v, ptr)))
    (hb : baseVftable s1.reg fb = .ok (some (bn, bv))) :
    bv.fns <+: fns ∧ (bv.fns.map slotSig) <+: (fns.map slotSig) ∧ ptr = none ∧
      v = some { fns := fns, baseField := some bn, ty := .cptr (.raw vpath) } := by
  obtain ⟨item, hi, hpath⟩ := item_of_path s.reg owner vpath vis fns hp
  have hv := buildVftable_ok_inv s s1 owner vis fb fns item _ hi h
  unfold vftCheck at hv
  rw [hb] at hv
  simp only at hv
  split at hv
  · cases hv
  · next hlen =>
    split at hv
    · cases hv
    · next hany =>
      simp only [Res.ok.injEq, Prod.mk.injEq] at hv
      obtain ⟨hv1, hv2⟩ := hv
      have hpre := prefix_of_zip_any bv.fns fns (by omega) (by simpa using hany)
      exact ⟨hpre, hpre.map slotSig, hv2.symm, by rw [← hv1, hpath]⟩

theorem mutation_main (s : State) (owner : Path) (vis : Vis) (fb : Option Region) (fns : List SFunc)
    (s1 : State) (item : ItemDef) (bn : String) (bv : Vft)
    (hi : buildVftableItem s.reg owner vis fns = some item) (ha : s.addItem item = .ok s1)
    (hc : (match s.reg.get item.path with | some e => e != item | none => false) = false)
    (hb : baseVftable s1.reg fb = .ok (some (bn, bv)))
    (hm : ¬ (bv.fns.map slotSig) <+: (fns.map slotSig)) :
    ∃ m, (buildVftable s owner vis fb (some fns)).2 = .err m := by
  rw [buildVftable_eq s s1 owner vis fb fns item hi hc ha]
  unfold vftCheck
  rw [hb]
  simp only
  split
  · exact ⟨_, rfl⟩
  · next hlen =>
    split
    · exact ⟨_, rfl⟩
    · next hany =>
      exact absurd ((prefix_of_zip_any bv.fns fns (by omega) (by simpa using hany)).map slotSig) hm

theorem own_pointer_main (s s1 : State) (owner : Path) (vis : Vis) (fb : Option Region) (fns : List SFunc)
    (v : Option Vft) (ptr : Option Region)
    (vpath : Path) (hp : vftablePath owner = some vpath)
    (h : buildVftable s owner vis fb (some fns) = (s1, .ok (v, ptr)))
    (hb : baseVftable s1.reg fb = .ok none) :
    ptr = some (ownPointer vpath) ∧ v = some { fns := fns, baseField := none, ty := .cptr (.raw vpath) } := by
  obtain ⟨item, hi, hpath⟩ := item_of_path s.reg owner vpath vis fns hp
  have hv := buildVftable_ok_inv s s1 owner vis fb fns item _ hi h
  unfold vftCheck at hv
  rw [hb] at hv
  simp only [Res.ok.injEq, Prod.mk.injEq] at hv
  obtain ⟨hv1, hv2⟩ := hv
  exact ⟨by rw [← hv2, hpath]; rfl, by rw [← hv1, hpath]⟩

theorem inherited_main (s s1 : State) (owner : Path) (vis : Vis) (fb : Option Region)
    (v : Option Vft) (ptr : Option Region)
    (h : buildVftable s owner vis fb none = (s1, .ok (v, ptr))) :
    s1 = s ∧ ptr = none ∧
      (match baseVftable s.reg fb with
       | .ok (some (bn, bv)) => v = some { fns := bv.fns, baseField := some bn, ty := bv.ty }
       | _ => v = none) := by
  unfold buildVftable at h
  simp only [Prod.mk.injEq] at h
  obtain ⟨rfl, h⟩ := h
  cases hb : baseVftable s.reg fb with
  | ok o =>
    cases o with
    | none => rw [hb] at h; simp at h; simp [h]
    | some p =>
      obtain ⟨bn, bv⟩ := p
      rw [hb] at h; simp at h; simp [h]
  | defer => rw [hb] at h; simp [Res.cast] at h
  | err m => rw [hb] at h; simp [Res.cast] at h
  | panic m => rw [hb] at h; simp [Res.cast] at h

/-! ## the layout core keeps what was pushed first -/
open Layout in
theorem push_prefix {β} (st st' : St β) (sz : Res (Option Nat)) (al : Option Nat) (arr : Bool) (src : Option β)
    (h : push st sz al arr src = .ok st') : st.1 <+: st'.1 := by
  unfold push at h
  split at h
  · cases h
  · split at h
    · cases h; exact List.prefix_refl _
    · split at h
      · cases h; exact List.prefix_append _ _
      · cases h
  all_goals cases h

open Layout in
theorem place_prefix {β} (st st' : St β) (fs : List (PField β)) (h : place st fs = .ok st') :
    st.1 <+: st'.1 := by
  induction fs generalizing st with
  | nil => simp [place] at h; subst h; exact List.prefix_refl _
  | cons f fs ih =>
    simp only [place] at h
    split at h
    · split at h
      · cases h
      · split at h
        · next st1 h1 =>
          split at h
          · next st2 h2 =>
            exact (push_prefix _ _ _ _ _ _ h1).trans ((push_prefix _ _ _ _ _ _ h2).trans (ih _ h))
          all_goals cases h
        all_goals cases h
    · split at h
      · next st2 h2 => exact (push_prefix _ _ _ _ _ _ h2).trans (ih _ h)
      all_goals cases h

open Layout in
theorem padTail_prefix {β} (st st' : St β) (t : Option Nat) (h : padTail st t = .ok st') :
    st.1 <+: st'.1 := by
  unfold padTail at h
  split at h
  · split at h
    · exact push_prefix _ _ _ _ _ _ h
    · cases h; exact List.prefix_refl _
  · cases h; exact List.prefix_refl _

open Layout in
theorem pointer_first_main {β} (vp : PField β) (fields : List (PField β)) (target : Option Nat)
    (placed : List (Placed β)) (size : Nat)
    (h : resolve (some vp) fields target = .ok (placed, size)) :
    ∃ sz rest, vp.size = .ok (some sz) ∧ (sz = 0 ∧ vp.isArr = true ∨
      placed = ⟨sz, vp.align, some vp.val⟩ :: rest) := by
  unfold resolve at h
  simp only at h
  split at h
  · next st0 h0 =>
    split at h
    · next st1 h1 =>
      split at h
      · next st2 h2 =>
        have hpl : st2.1 = placed := by
          split at h
          · split at h
            · cases h
            · cases h; rfl
          · cases h; rfl
        have hpre : st0.1 <+: placed := hpl ▸ (place_prefix _ _ _ h1).trans (padTail_prefix _ _ _ h2)
        unfold pushField push at h0
        split at h0
        · cases h0
        · next s hs =>
          refine ⟨s, ?_⟩
          split at h0
          · next hz => exact ⟨[], hs, Or.inl hz⟩
          · split at h0
            · cases h0
              obtain ⟨rest, hrest⟩ := hpre
              exact ⟨rest, hs, Or.inr (by simpa using hrest.symm)⟩
            · cases h0
        all_goals cases h0
      all_goals cases h
    all_goals cases h
  all_goals cases h

theorem split_items {α} (a b c : List α) (x : α) (d e : List α) :
    a ++ b ++ c ++ [x] ++ d ++ e = (a ++ b ++ c) ++ [x] ++ (d ++ e) := by simp

theorem accessor_main (reg : Registry) (path : Path) (size align : Nat) (vis : Vis) (td : TypeDefn) (v : Vft)
    (h : td.vft = some v) :
    ∃ pre post ms, Emit.typeItems reg path size align vis td = pre ++
      [Sexp.mk "impl" (.str (path.getLast?.getD "") ::
        Sexp.mk "some" [Sexp.mk "vftacc" [.str (Emit.tyStr v.ty), Sexp.ofOpt .str v.baseField]] :: ms)] ++ post := by
  unfold Emit.typeItems
  simp only [h]
  exact ⟨_, _, _, split_items _ _ _ _ _ _⟩

end PyxisVerif.C06
