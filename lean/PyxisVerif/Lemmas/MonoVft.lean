import PyxisVerif.Lemmas.C19Frame
import PyxisVerif.Lemmas.CaseLift2
/-!
# Schedule independence WITH vftable blocks, when nothing mentions a generated name

`Lemmas/Mono.lean` instantiates the abstract worklist for descriptions without `vftable` blocks, where the key set
of the registry is fixed.  With `vftable` blocks an attempt on a type `T` registers the GENERATED item `<T>Vftable`
during the run, the key set grows, and name lookup is not monotone in the key set.  Here the instantiation is redone
under the hypothesis `NoGenRefs`: no lookup made during the build can ever answer with a generated path.  Then the
generated items are write-only during resolution:

* **frame** (section C): everything an attempt reads gives the same answer in two registries that agree outside the
  set `Gs` of generated paths (`AgreeOut`), provided the type expressions and scopes it works with are `Clean`;
* **pure form** (section D): `type_definition::build` – including the registration made by `vftable::build` – as a
  function `btV` of the registry it starts from;
* **monotonicity** (section E): `btV` is monotone along `RegLe` on registries without generated entries;
* **simulation** (section F): every state reached by `resolveLoop` *represents* (`Rep`) a registry of the abstract
  worklist `Work.Run (Mono.attempt s0)`: it is `Mono.stateOf s0 R` plus generated items, each of which is the one
  item `genOf s0 T` its owner `T` generates in the initial state;
* **agreement** (section G): any two runs end in the same verdict (`sameVerdictV`);
* **whole cases** (section H): the syntactic condition `CaseNoGenRefs` on the modules of a case gives `NoGenRefs` for its
  initial state; section I: both conditions are decidable; section J: no build panics when no vftable block asks for
  more than `paddingLoopBound` slots (`Small`), so that an error and the modelled allocation limit are never mixed.

The termination test of the loop (`to_resolve == unresolved ∧ item count unchanged`) needs no argument of its own: a
round that registers generated items only continues from the same abstract registry (`resolveLoop_simV` recurses on
the fuel), and `C10.resolveLoop_ne_fuel` bounds the number of rounds.
-/
namespace PyxisVerif.C09
open Work Layout Mono C19 Gen

/-! ## A. definitions -/

/-- the identifiers of a type expression -/
def tyIdents : G.Ty → List String
  | .cptr t => tyIdents t
  | .mptr t => tyIdents t
  | .arr t _ => tyIdents t
  | .ident s => [s]
  | .unk _ => []

def argIdents : G.Arg → List String
  | .named _ t => tyIdents t
  | _ => []

/-- … of the parameter and return types of a function -/
def funcIdents (f : G.Func) : List String :=
  f.args.flatMap argIdents ++ (match f.ret with | some t => tyIdents t | none => [])

/-- … of a statement of a type definition: the field type, or the signatures of the vftable functions -/
def stmtIdents (st : G.Stmt) : List String :=
  match st.field with
  | .field _ _ ty => tyIdents ty
  | .vftable fns => fns.flatMap funcIdents

/-- … of a definition: field types and vftable signatures of a type, the base type of an enum -/
def itemIdents (d : G.Item) : List String :=
  match d.inner with
  | .type td => td.stmts.flatMap stmtIdents
  | .enum ed => tyIdents ed.ty

/-- the type definition has a `vftable` block -/
def hasVftBlock (td : G.TypeDef) : Bool :=
  td.stmts.any fun st => match st.field with | .vftable _ => true | .field .. => false

/-- the generated path of one registry entry: `vftablePath` of an unresolved type definition with a vftable block -/
def genPathOf (e : Path × ItemDef) : Option Path :=
  match e.2.state with
  | .unres d =>
    match d.inner with
    | .type td => if hasVftBlock td then vftablePath e.1 else none
    | .enum _ => none
  | .res _ => none

/-- the paths of the vftable structs that resolution may generate: `vftablePath p` for every unresolved type
    definition at `p` with a vftable block -/
def genPaths (s : State) : List Path := s.reg.types.filterMap genPathOf

/-- their last segments: the names `<T>Vftable` -/
def genNames (s : State) : List String := (genPaths s).filterMap (·.getLast?)

/-- nothing in the state can SEE a generated item by name while the resolution loop runs.  Exactly what the proof
    uses:

* `modKeys`: the stored modules are a map (`add_item` rewrites the module stored under the parent path);
* `fresh`: no generated path is a registry key yet;
* `scopes`: no generated path is the path of a module or one of its `use`s – equality, not prefixes (a scope member
  that is a registry key counts as a type import, so registering it would change every lookup of that module);
* `defs` / `impls`: no identifier of a type expression of an unresolved definition (field types, enum bases,
  parameter and return types of vftable functions) or of a function of a function block is the last segment of a
  generated path (then no candidate path `[name]`, `u ++ [name]` of a lookup is generated).

The types of EXTERN VALUES are not restricted: they are resolved after the loop, in the final registry, which is
the same under every schedule.  Every condition is a bounded quantification over the lists of the state with a
decidable body (`instance : Decidable (NoGenRefs s)` at the end of this file). -/
structure NoGenRefs (s : State) : Prop where
  modKeys : (s.modules.map (·.1)).Nodup
  fresh : ∀ q ∈ genPaths s, s.reg.contains q = false
  scopes : ∀ e ∈ s.modules, ∀ u ∈ e.2.scope, u ∉ genPaths s
  defs : ∀ e ∈ s.reg.types, ∀ d, e.2.state = .unres d → ∀ nm ∈ itemIdents d, nm ∉ genNames s
  impls : ∀ e ∈ s.modules, ∀ b ∈ e.2.impls, ∀ f ∈ b.2.fns, ∀ nm ∈ funcIdents f, nm ∉ genNames s

/-! ## B. paths of generated items -/

theorem fmtVftableType_inj {a b : String} (h : fmtVftableType a = fmtVftableType b) : a = b := by
  unfold fmtVftableType at h
  have := congrArg String.toList h
  simp only [String.toList_append] at this
  exact String.toList_inj.mp (List.append_cancel_right this)

theorem vftablePath_eq {owner q : Path} (h : vftablePath owner = some q) :
    ∃ name, owner = owner.dropLast ++ [name] ∧ q = owner.dropLast ++ [fmtVftableType name] := by
  unfold vftablePath at h
  split at h
  · next name parent hl hp =>
    simp only [Option.some.injEq] at h
    unfold Path.parent? at hp
    split at hp
    · cases hp
    · simp only [Option.some.injEq] at hp
      subst hp
      refine ⟨name, ?_, h.symm⟩
      obtain ⟨ys, rfl⟩ := List.getLast?_eq_some_iff.mp hl
      simp
  · cases h

theorem vftablePath_inj {o1 o2 q : Path} (h1 : vftablePath o1 = some q) (h2 : vftablePath o2 = some q) : o1 = o2 := by
  obtain ⟨n1, e1, q1⟩ := vftablePath_eq h1
  obtain ⟨n2, e2, q2⟩ := vftablePath_eq h2
  rw [q1] at q2
  have hl := List.append_inj' q2 rfl
  have hn : n1 = n2 := by
    have := hl.2
    simp only [List.cons.injEq, and_true] at this
    exact fmtVftableType_inj this
  rw [e1, e2, hl.1, hn]

theorem vftablePath_parent {owner q : Path} (h : vftablePath owner = some q) :
    Path.parent? q = Path.parent? owner := by
  obtain ⟨name, e1, e2⟩ := vftablePath_eq h
  rw [e2]
  conv => rhs; rw [e1]
  rw [C19.parent_concat, C19.parent_concat]

theorem vftablePath_last {owner q : Path} (h : vftablePath owner = some q) : ∃ nm, q.getLast? = some nm := by
  obtain ⟨name, _, e2⟩ := vftablePath_eq h
  exact ⟨fmtVftableType name, by rw [e2]; simp⟩

theorem vftablePath_some {owner parent : Path} (h : Path.parent? owner = some parent) :
    ∃ q, vftablePath owner = some q := by
  unfold vftablePath
  rw [h]
  unfold Path.parent? at h
  split at h
  · cases h
  · next hne =>
    cases hl : owner.getLast? with
    | none =>
      rw [List.getLast?_eq_none_iff] at hl
      subst hl
      simp at hne
    | some name => exact ⟨_, rfl⟩

theorem item_path_of {reg : Registry} {owner : Path} {vis : Vis} {fns : List SFunc} {item : ItemDef}
    (h : buildVftableItem reg owner vis fns = some item) : vftablePath owner = some item.path := by
  unfold buildVftableItem at h
  obtain ⟨q, hq, rfl⟩ := Option.map_eq_some_iff.mp h
  exact hq

/-! ## C. the frame: readers agree on registries that agree outside `Gs` -/

/-- the two registries agree outside `Gs` -/
structure AgreeOut (Gs : List Path) (s t : Registry) : Prop where
  ps : t.ps = s.ps
  get : ∀ q, q ∉ Gs → t.get q = s.get q

theorem AgreeOut.refl (Gs : List Path) (s : Registry) : AgreeOut Gs s s := ⟨rfl, fun _ _ => rfl⟩

theorem AgreeOut.symm {Gs : List Path} {s t : Registry} (h : AgreeOut Gs s t) : AgreeOut Gs t s :=
  ⟨h.ps.symm, fun q hq => (h.get q hq).symm⟩

theorem AgreeOut.trans {Gs : List Path} {s t u : Registry} (h1 : AgreeOut Gs s t) (h2 : AgreeOut Gs t u) :
    AgreeOut Gs s u :=
  ⟨h2.ps.trans h1.ps, fun q hq => (h2.get q hq).trans (h1.get q hq)⟩

theorem AgreeOut.contains {Gs : List Path} {s t : Registry} (h : AgreeOut Gs s t) {q : Path} (hq : q ∉ Gs) :
    t.contains q = s.contains q := by
  unfold Registry.contains; rw [h.get q hq]

theorem AgreeOut.add {Gs : List Path} {s t : Registry} (h : AgreeOut Gs s t) (i : ItemDef) :
    AgreeOut Gs (s.add i) (t.add i) := by
  refine ⟨h.ps, ?_⟩
  intro q hq
  rw [C14.get_add, C14.get_add, h.get q hq]

theorem AgreeOut.add_right {Gs : List Path} {s t : Registry} (h : AgreeOut Gs s t) (i : ItemDef) (hi : i.path ∈ Gs) :
    AgreeOut Gs s (t.add i) := by
  refine ⟨h.ps, ?_⟩
  intro q hq
  rw [C14.get_add, if_neg (fun e => hq (by rw [e]; exact hi)), h.get q hq]

/-- a lookup of `name` in `scope` inspects no path of `Gs` -/
def CleanName (Gs : List Path) (scope : List Path) (name : String) : Prop := ∀ q ∈ candidates scope name, q ∉ Gs

/-- no lookup made for the type expression inspects a path of `Gs` -/
def CleanTy (Gs : List Path) (scope : List Path) : G.Ty → Prop
  | .cptr t => CleanTy Gs scope t
  | .mptr t => CleanTy Gs scope t
  | .arr t _ => CleanTy Gs scope t
  | .ident nm => CleanName Gs scope nm
  | .unk _ => True

def CleanArg (Gs : List Path) (scope : List Path) : G.Arg → Prop
  | .named _ t => CleanTy Gs scope t
  | _ => True

def CleanFunc (Gs : List Path) (scope : List Path) (f : G.Func) : Prop :=
  (∀ a ∈ f.args, CleanArg Gs scope a) ∧ (∀ t, f.ret = some t → CleanTy Gs scope t)

def CleanStmt (Gs : List Path) (scope : List Path) (st : G.Stmt) : Prop :=
  match st.field with
  | .field _ _ ty => CleanTy Gs scope ty
  | .vftable fns => ∀ f ∈ fns, CleanFunc Gs scope f

/-- the by-value dependencies of `d` are outside `Gs` -/
def OutD (Gs : List Path) (d : DTy) : Prop := ∀ q ∈ byValue d, q ∉ Gs

def OutR (Gs : List Path) : RTy → Prop
  | .data d => OutD Gs d
  | .fn .. => True

section frame
variable {Gs : List Path} {s t : Registry} (h : AgreeOut Gs s t) (hu8 : ["u8"] ∉ Gs)
include h

theorem resolveString_out {scope : List Path} {name : String} (hc : CleanName Gs scope name) :
    t.resolveString scope name = s.resolveString scope name :=
  lookup_local_lem s t scope name (fun q hq => h.contains (hc q hq))

include hu8

theorem paddingType_out : t.paddingType = s.paddingType := by
  funext n
  have hc : CleanName Gs [] "u8" := by
    intro q hq
    simp only [candidates, List.nil_append, List.map_nil, List.append_nil, List.mem_singleton] at hq
    subst hq; exact hu8
  simp only [Registry.paddingType, resolveString_out h hc]

theorem resolveTy_out {scope : List Path} {ty : G.Ty} (hc : CleanTy Gs scope ty) :
    t.resolveTy scope ty = s.resolveTy scope ty := by
  induction ty with
  | cptr t ih => simp only [Registry.resolveTy, ih hc]
  | mptr t ih => simp only [Registry.resolveTy, ih hc]
  | arr t n ih => simp only [Registry.resolveTy, ih hc]
  | ident nm => simp only [Registry.resolveTy, resolveString_out h hc]
  | unk n => simp only [Registry.resolveTy, paddingType_out h hu8]

theorem buildArg_out {scope : List Path} {a : G.Arg} (hc : CleanArg Gs scope a) :
    buildArg t scope a = buildArg s scope a := by
  cases a with
  | constSelf => rfl
  | mutSelf => rfl
  | named n ty => simp only [buildArg, resolveTy_out h hu8 hc]

theorem buildFunction_out {scope : List Path} {f : G.Func} (hc : CleanFunc Gs scope f) (isV : Bool) :
    buildFunction t scope isV f = buildFunction s scope isV f := by
  unfold buildFunction
  have e1 : Res.mapM' (buildArg t scope) f.args = Res.mapM' (buildArg s scope) f.args :=
    C19.mapM'_congr _ _ _ (fun a ha => buildArg_out h hu8 (hc.1 a ha))
  rw [e1]
  cases hr : f.ret with
  | none => rfl
  | some ty => simp only [resolveTy_out h hu8 (hc.2 ty hr)]

theorem convertVfuncs_out {scope : List Path} {fns : List G.Func} (hc : ∀ f ∈ fns, CleanFunc Gs scope f)
    (size : Option Nat) : convertVfuncs t scope size fns = convertVfuncs s scope size fns := by
  unfold convertVfuncs
  congr 1
  apply Mono.foldlM_congr
  intro out f hf
  simp only [buildFunction_out h hu8 (hc f hf)]

theorem stmtStep_out {scope : List Path} (acc : StmtAcc) {ist : Nat × G.Stmt} (hc : CleanStmt Gs scope ist.2) :
    stmtStep t scope acc ist = stmtStep s scope acc ist := by
  obtain ⟨idx, st⟩ := ist
  unfold stmtStep
  unfold CleanStmt at hc
  simp only [] at hc ⊢
  cases hf : st.field with
  | field vis name ty =>
    rw [hf] at hc
    simp only [resolveTy_out h hu8 hc]
  | vftable fns =>
    rw [hf] at hc
    simp only [convertVfuncs_out h hu8 hc]

theorem stmts_fold_out {scope : List Path} (l : List (Nat × G.Stmt)) (acc : StmtAcc)
    (hc : ∀ ist ∈ l, CleanStmt Gs scope ist.2) :
    Res.foldlM (stmtStep t scope) acc l = Res.foldlM (stmtStep s scope) acc l :=
  Mono.foldlM_congr _ _ l acc (fun b a ha => stmtStep_out h hu8 b (hc a ha))

theorem addImplFns_out {scope : List Path} (impl : Option G.Impl)
    (hc : ∀ im, impl = some im → ∀ f ∈ im.fns, CleanFunc Gs scope f) (acc : InjAcc) :
    addImplFns t scope impl acc = addImplFns s scope impl acc := by
  unfold addImplFns
  cases impl with
  | none => rfl
  | some im =>
    simp only []
    exact Mono.foldlM_congr _ _ im.fns acc
      (fun b f hf => by simp only [buildFunction_out h hu8 (hc im rfl f hf)])

end frame

/-! the answers of clean lookups are outside `Gs` -/

theorem resolveString_outD {Gs : List Path} (r : Registry) {scope : List Path} {name : String}
    (hc : CleanName Gs scope name) (d : DTy) (h : r.resolveString scope name = some d) : OutD Gs d := by
  obtain ⟨p, rfl⟩ := C19.resolveString_raw r scope name d h
  intro q hq
  simp only [byValue, List.mem_singleton] at hq
  subst hq
  exact hc q (lookup_answer_lem r scope name q h).1

theorem resolveTy_outD {Gs : List Path} (hu8 : ["u8"] ∉ Gs) (r : Registry) {scope : List Path} (ty : G.Ty)
    (hc : CleanTy Gs scope ty) (d : DTy) (h : r.resolveTy scope ty = .ok d) : OutD Gs d := by
  induction ty generalizing d with
  | cptr t ih =>
    simp only [Registry.resolveTy] at h
    split at h
    · cases h; intro q hq; simp [byValue] at hq
    · next hx => exact absurd h (hx d)
  | mptr t ih =>
    simp only [Registry.resolveTy] at h
    split at h
    · cases h; intro q hq; simp [byValue] at hq
    · next hx => exact absurd h (hx d)
  | arr t n ih =>
    simp only [Registry.resolveTy] at h
    split at h
    · next t' ht' => cases h; exact ih hc t' ht'
    · next hx => exact absurd h (hx d)
  | ident nm =>
    simp only [Registry.resolveTy] at h
    split at h
    · next t' ht' => cases h; exact resolveString_outD r hc _ ht'
    · cases h
  | unk n =>
    simp only [Registry.resolveTy] at h
    unfold Registry.paddingType at h
    split at h
    · next t0 ht0 =>
      cases h
      have hc0 : CleanName Gs [] "u8" := by
        intro q hq
        simp only [candidates, List.nil_append, List.map_nil, List.append_nil, List.mem_singleton] at hq
        subst hq; exact hu8
      exact resolveString_outD r hc0 t0 ht0
    · cases h

theorem paddingType_outD {Gs : List Path} (hu8 : ["u8"] ∉ Gs) (r : Registry) (n : Nat) (d : DTy)
    (h : r.paddingType n = .ok d) : OutD Gs d :=
  resolveTy_outD (scope := []) hu8 r (.unk n) trivial d (by simpa [Registry.resolveTy] using h)

theorem AgreeOut.agreeD {Gs : List Path} {s t : Registry} (h : AgreeOut Gs s t) {d : DTy} (hd : OutD Gs d) :
    AgreeD s t d := fun q hq => h.get q (hd q hq)

theorem AgreeOut.agreeR {Gs : List Path} {s t : Registry} (h : AgreeOut Gs s t) {r : RTy} (hr : OutR Gs r) :
    AgreeR s t r := by
  cases r with
  | data d => exact h.agreeD hr
  | fn cc args ret => trivial

/-- the by-value dependencies of the pending fields are outside `Gs` -/
def PendOut (Gs : List Path) (acc : StmtAcc) : Prop := ∀ p ∈ acc.pending, OutR Gs p.2.ty

theorem stmtStep_pendOut {Gs : List Path} (hu8 : ["u8"] ∉ Gs) (reg : Registry) {scope : List Path}
    (acc acc' : StmtAcc) (ist : Nat × G.Stmt) (hc : CleanStmt Gs scope ist.2)
    (ha : PendOut Gs acc) (h : stmtStep reg scope acc ist = .ok acc') : PendOut Gs acc' := by
  obtain ⟨idx, st⟩ := ist
  unfold stmtStep at h
  unfold CleanStmt at hc
  simp only [] at h hc
  split at h
  · rename_i vis name ty hf
    rw [hf] at hc
    split at h
    · cases h
    · split at h
      · rename_i fa _
        split at h
        · cases h
        · split at h
          · next t0 ht0 =>
            have hnn := resolveTy_outD hu8 reg ty hc t0 ht0
            generalize (if (name != "_") = true then some name else none) = ident at h
            split at h
            · cases h
            · cases h
              intro p hp
              rcases List.mem_append.mp hp with hp | hp
              · exact ha p hp
              · simp only [List.mem_singleton] at hp
                subst hp
                exact hnn
          · exact absurd h (C01.cast_ne_ok _ _)
      · exact absurd h (C01.cast_ne_ok _ _)
  · split at h
    · cases h
    · split at h
      · cases h
      · split at h
        · split at h
          · cases h; exact ha
          · exact absurd h (C01.cast_ne_ok _ _)
        · exact absurd h (C01.cast_ne_ok _ _)

theorem stmts_fold_pendOut {Gs : List Path} (hu8 : ["u8"] ∉ Gs) (reg : Registry) {scope : List Path}
    (l : List (Nat × G.Stmt)) (hc : ∀ ist ∈ l, CleanStmt Gs scope ist.2) (sa : StmtAcc)
    (h : Res.foldlM (stmtStep reg scope) {} l = .ok sa) : PendOut Gs sa :=
  (C12.PO.foldlM_inv (S := fun _ => True) (PendOut Gs) (stmtStep reg scope) l {}
    (fun p hp => by cases hp)
    (fun acc ist hist hacc => ⟨fun _ _ => trivial,
      fun acc' h' => stmtStep_pendOut hu8 reg acc acc' ist (hc ist hist) hacc h'⟩)).2 sa h

/-! ## D. `type_definition::build` with a `vftable` block, as a function of the registry -/

/-- the answer of `vftable::build`, read in the registry `reg` in which the generated item is registered -/
def vftRes (reg : Registry) (fb : Option Region) (owner : Path) : Option (List SFunc) → Res (Option Vft × Option Region)
  | some fns =>
    match vftablePath owner with
    | some p => C06.vftCheck reg fb fns p
    | none => .ok (none, none)
  | none =>
    match baseVftable reg fb with
    | .ok (some (baseName, bv)) => .ok (some { fns := bv.fns, baseField := some baseName, ty := bv.ty }, none)
    | .ok none => .ok (none, none)
    | e => e.cast

/-- the item `vftable::build` registers -/
def genItem (reg : Registry) (owner : Path) (vis : Vis) (vfns : Option (List SFunc)) : Option ItemDef :=
  vfns.bind (buildVftableItem reg owner vis)

/-- the registry after `vftable::build` -/
def regAfter (reg : Registry) (owner : Path) (vis : Vis) (vfns : Option (List SFunc)) : Registry :=
  match genItem reg owner vis vfns with
  | some item => reg.add item
  | none => reg

/-- `resolve_regions` after the size check of the first base -/
def rrTail (reg : Registry) (fb : Option Region) (owner : Path) (target : Option Nat)
    (pending : List (Option Nat × Region)) (vfns : Option (List SFunc)) :
    Res (List Region × Option Vft × Nat × List (Placed Region)) :=
  match vftRes reg fb owner vfns with
  | .ok (vft, vregion) =>
    match Layout.resolve (vregion.map (toPField reg none)) (pending.map fun p => toPField reg p.1 p.2) target with
    | .ok (placed, size) =>
      match nameRegions reg 0 placed with
      | .ok regions => .ok (regions, vft, size, placed)
      | e => e.cast
    | e => e.cast
  | e => e.cast

/-- `resolve_regions`: the size of the first base is read in `reg0` (before the registration), everything else in
    `reg` (after it) -/
def rrV (reg0 reg : Registry) (owner : Path) (target : Option Nat) (pending : List (Option Nat × Region))
    (vfns : Option (List SFunc)) : Res (List Region × Option Vft × Nat × List (Placed Region)) :=
  match (match (pending.map (·.2)).find? (·.isBase) with | some b => b.ty.size reg0 | none => .ok (some 0)) with
  | .ok none => .defer
  | .defer => .defer
  | .err m => .err m
  | .panic m => .panic m
  | .ok (some _) => rrTail reg ((pending.map (·.2)).find? (·.isBase)) owner target pending vfns

/-- the statement loop -/
def foldStmts (reg : Registry) (scope : List Path) (d : G.TypeDef) : Res StmtAcc :=
  Res.foldlM (stmtStep reg scope) {} (d.stmts.zipIdx.map fun p => (p.2, p.1))

/-- the converted vftable block of the definition (`none`: no block, or the statement loop does not succeed) -/
def vfnsOf (reg : Registry) (mf : Option Mod) (d : G.TypeDef) : Option (List SFunc) :=
  match mf with
  | some module =>
    match foldStmts reg module.scope d with
    | .ok sa => sa.vfns
    | _ => none
  | none => none

/-- the item an attempt on the definition registers (if it gets as far as `vftable::build`) -/
def genOf (reg : Registry) (mf : Option Mod) (path : Path) (vis : Vis) (d : G.TypeDef) : Option ItemDef :=
  genItem reg path vis (vfnsOf reg mf d)

/-- `type_definition::build` as a function of the registry -/
def btV (reg : Registry) (mf : Option Mod) (path : Path) (vis : Vis) (d : G.TypeDef) : Res Resolved :=
  match mf with
  | none => .err "failed to get module for path"
  | some module =>
    match G.docOf d.attrs with
    | none => .err "doc attribute must be a string literal"
    | some doc =>
      match Res.foldlM typeAttrStep {} d.attrs with
      | .ok ta =>
        match foldStmts reg module.scope d with
        | .ok sa =>
          match rrV reg (regAfter reg path vis sa.vfns) path ta.targetSize sa.pending sa.vfns with
          | .ok (regions, vft, size, placed) =>
            btTail (regAfter reg path vis sa.vfns) module path doc ta regions vft size placed
          | e => e.cast
        | e => e.cast
      | e => e.cast

theorem moduleFor_parent (s : State) {p q : Path} (h : Path.parent? p = Path.parent? q) :
    s.moduleFor p = s.moduleFor q := by
  unfold State.moduleFor; rw [h]

theorem addItem_ok_of_moduleFor (s : State) (i : ItemDef) (m : Mod) (h : s.moduleFor i.path = some m) :
    ∃ s1, s.addItem i = .ok s1 := by
  unfold State.moduleFor at h
  unfold State.addItem
  split at h
  · cases h
  · next parent hp =>
    simp only [h]
    exact ⟨_, rfl⟩

theorem buildVftable_pureV (s : State) (owner : Path) (vis : Vis) (fb : Option Region) (vfns : Option (List SFunc))
    (hnc : ∀ item, genItem s.reg owner vis vfns = some item →
      s.reg.get item.path = none ∨ s.reg.get item.path = some item)
    (hpar : ∃ m, s.moduleFor owner = some m) :
    ∃ s1, buildVftable s owner vis fb vfns = (s1, vftRes s1.reg fb owner vfns) ∧
      s1.reg = regAfter s.reg owner vis vfns ∧
      (s1 = s ∨ ∃ item, genItem s.reg owner vis vfns = some item ∧ s.addItem item = .ok s1) := by
  cases vfns with
  | none =>
    refine ⟨s, ?_, rfl, .inl rfl⟩
    unfold buildVftable vftRes
    simp only []
    cases baseVftable s.reg fb with
    | ok o =>
      cases o with
      | none => rfl
      | some x => rfl
    | defer => rfl
    | err m => rfl
    | panic m => rfl
  | some fns =>
    cases hi : buildVftableItem s.reg owner vis fns with
    | none =>
      have hp : vftablePath owner = none := by
        unfold buildVftableItem at hi
        cases hv : vftablePath owner with
        | none => rfl
        | some q => rw [hv] at hi; cases hi
      refine ⟨s, ?_, ?_, .inl rfl⟩
      · unfold buildVftable vftRes
        simp only [hi, hp]
      · simp only [regAfter, genItem, Option.bind_some, hi]
    | some item =>
      have hg : genItem s.reg owner vis (some fns) = some item := by simp only [genItem, Option.bind_some, hi]
      have hp := item_path_of hi
      have hc : (match s.reg.get item.path with | some e => e != item | none => false) = false := by
        rcases hnc item hg with e | e
        · rw [e]
        · rw [e]; simp
      obtain ⟨m, hm⟩ := hpar
      have hm' : s.moduleFor item.path = some m := by
        rw [moduleFor_parent s (vftablePath_parent hp)]; exact hm
      obtain ⟨s1, ha⟩ := addItem_ok_of_moduleFor s item m hm'
      refine ⟨s1, ?_, ?_, .inr ⟨item, hg, ha⟩⟩
      · rw [C06.buildVftable_eq s s1 owner vis fb fns item hi hc ha]
        simp only [vftRes, hp]
      · rw [C14.addItem_reg s s1 item ha]
        simp only [regAfter, hg]

theorem resolveRegions_pureV (s : State) (owner : Path) (vis : Vis) (target : Option Nat)
    (pending : List (Option Nat × Region)) (vfns : Option (List SFunc))
    (hnc : ∀ item, genItem s.reg owner vis vfns = some item →
      s.reg.get item.path = none ∨ s.reg.get item.path = some item)
    (hpar : ∃ m, s.moduleFor owner = some m) :
    ∃ s1, resolveRegions s owner vis target pending vfns
        = (s1, rrV s.reg (regAfter s.reg owner vis vfns) owner target pending vfns) ∧
      (s1 = s ∨ ∃ item, genItem s.reg owner vis vfns = some item ∧ s.addItem item = .ok s1) ∧
      (∀ x, rrV s.reg (regAfter s.reg owner vis vfns) owner target pending vfns = .ok x →
        s1.reg = regAfter s.reg owner vis vfns) := by
  unfold resolveRegions rrV
  simp only []
  generalize (pending.map (·.2)).find? (·.isBase) = fb
  have tail : ∀ fb : Option Region, ∃ s1, (match buildVftable s owner vis fb vfns with
      | (s1, .ok (vft, vregion)) =>
        (s1,
          match Layout.resolve (vregion.map (toPField s1.reg none)) (pending.map fun p => toPField s1.reg p.1 p.2) target with
          | .ok (placed, size) =>
            match nameRegions s1.reg 0 placed with
            | .ok regions => .ok (regions, vft, size, placed)
            | e => e.cast
          | e => e.cast)
      | (s1, e) => (s1, e.cast)) = (s1, rrTail (regAfter s.reg owner vis vfns) fb owner target pending vfns) ∧
      (s1 = s ∨ ∃ item, genItem s.reg owner vis vfns = some item ∧ s.addItem item = .ok s1) ∧
      s1.reg = regAfter s.reg owner vis vfns := by
    intro fb
    obtain ⟨s1, hb, hreg, hd⟩ := buildVftable_pureV s owner vis fb vfns hnc hpar
    refine ⟨s1, ?_, hd, hreg⟩
    rw [hb, ← hreg]
    unfold rrTail
    cases vftRes s1.reg fb owner vfns with
    | ok x => obtain ⟨vft, vregion⟩ := x; rfl
    | defer => rfl
    | err m => rfl
    | panic m => rfl
  cases fb with
  | none =>
    simp only []
    obtain ⟨s1, h1, h2, h3⟩ := tail none
    exact ⟨s1, h1, h2, fun _ _ => h3⟩
  | some b =>
    simp only []
    obtain ⟨o, ho⟩ := rsize_ok s.reg b.ty
    rw [ho]
    cases o with
    | none => exact ⟨s, rfl, .inl rfl, fun x hx => by cases hx⟩
    | some n =>
      simp only []
      obtain ⟨s1, h1, h2, h3⟩ := tail (some b)
      exact ⟨s1, h1, h2, fun _ _ => h3⟩

theorem btTail_defPaths (reg : Registry) (m : Mod) (dp : List Path) (path : Path) (doc : Option String)
    (ta : TypeAttrs) (regions : List Region) (vft : Option Vft) (size : Nat) (placed : List (Placed Region)) :
    btTail reg { m with defPaths := dp } path doc ta regions vft size placed
      = btTail reg m path doc ta regions vft size placed := rfl

theorem moduleFor_addItem_eq (s s1 : State) (i : ItemDef) (h : s.addItem i = .ok s1) (p : Path) (m : Mod)
    (hm : s.moduleFor p = some m) : ∃ dp, s1.moduleFor p = some { m with defPaths := dp } := by
  unfold State.moduleFor at hm ⊢
  split at hm
  · cases hm
  · next parent hp => exact C14.addItem_getModule s s1 i h parent m hm

/-- **pure form**: when the generated path is free or already holds the item this attempt generates,
    `type_definition::build` answers `btV` of the registry it starts from, and the only change to the state is the
    registration of that item -/
theorem buildType_pureV (s : State) (path : Path) (vis : Vis) (d : G.TypeDef)
    (hnc : ∀ item, genOf s.reg (s.moduleFor path) path vis d = some item →
      s.reg.get item.path = none ∨ s.reg.get item.path = some item) :
    ∃ s1, buildType s path vis d = (s1, btV s.reg (s.moduleFor path) path vis d) ∧
      (s1 = s ∨ ∃ item, genOf s.reg (s.moduleFor path) path vis d = some item ∧ s.addItem item = .ok s1) ∧
      (∀ r, btV s.reg (s.moduleFor path) path vis d = .ok r →
        ∀ item, genOf s.reg (s.moduleFor path) path vis d = some item → s1.reg.get item.path = some item) := by
  unfold buildType btV
  cases hm : s.moduleFor path with
  | none => exact ⟨s, rfl, .inl rfl, fun r hr => by cases hr⟩
  | some module =>
    simp only []
    cases hdoc : G.docOf d.attrs with
    | none => exact ⟨s, rfl, .inl rfl, fun r hr => by cases hr⟩
    | some doc =>
      simp only []
      cases hta : Res.foldlM typeAttrStep {} d.attrs with
      | ok ta =>
        simp only []
        have hfs : Res.foldlM (stmtStep s.reg module.scope) {} (d.stmts.zipIdx.map fun p => (p.2, p.1))
            = foldStmts s.reg module.scope d := rfl
        rw [hfs]
        cases hsa : foldStmts s.reg module.scope d with
        | ok sa =>
          simp only []
          have hgen : genOf s.reg (some module) path vis d = genItem s.reg path vis sa.vfns := by
            simp only [genOf, vfnsOf, hsa]
          rw [hm] at hnc
          rw [hgen] at hnc ⊢
          obtain ⟨s1, h1, h2, h3⟩ := resolveRegions_pureV s path vis ta.targetSize sa.pending sa.vfns hnc ⟨module, hm⟩
          rw [h1]
          cases hrr : rrV s.reg (regAfter s.reg path vis sa.vfns) path ta.targetSize sa.pending sa.vfns with
          | ok x =>
            obtain ⟨regions, vft, size, placed⟩ := x
            have hreg := h3 _ hrr
            have hmod : ∃ dp, s1.moduleFor path = some { module with defPaths := dp } := by
              rcases h2 with rfl | ⟨item, _, ha⟩
              · exact ⟨module.defPaths, hm⟩
              · exact moduleFor_addItem_eq s s1 item ha path module hm
            obtain ⟨dp, hdp⟩ := hmod
            refine ⟨s1, ?_, h2, ?_⟩
            · simp only [hdp, hreg]
              rfl
            · intro r _ item hitem
              rw [hreg]
              simp only [regAfter, hitem, C14.get_add, if_true]
          | defer => exact ⟨s1, rfl, h2, fun r hr => by cases hr⟩
          | err m => exact ⟨s1, rfl, h2, fun r hr => by cases hr⟩
          | panic m => exact ⟨s1, rfl, h2, fun r hr => by cases hr⟩
        | defer => exact ⟨s, rfl, .inl rfl, fun r hr => by cases hr⟩
        | err m => exact ⟨s, rfl, .inl rfl, fun r hr => by cases hr⟩
        | panic m => exact ⟨s, rfl, .inl rfl, fun r hr => by cases hr⟩
      | defer => exact ⟨s, rfl, .inl rfl, fun r hr => by cases hr⟩
      | err m => exact ⟨s, rfl, .inl rfl, fun r hr => by cases hr⟩
      | panic m => exact ⟨s, rfl, .inl rfl, fun r hr => by cases hr⟩

/-! ### what `rrV` and `vftRes` answer -/

theorem rrV_inv {reg0 reg : Registry} {owner : Path} {target : Option Nat} {pending : List (Option Nat × Region)}
    {vfns : Option (List SFunc)} {regions : List Region} {vft : Option Vft} {size : Nat} {placed : List (Placed Region)}
    (h : rrV reg0 reg owner target pending vfns = .ok (regions, vft, size, placed)) :
    ∃ vregion, vftRes reg ((pending.map (·.2)).find? (·.isBase)) owner vfns = .ok (vft, vregion) ∧
      Layout.resolve (vregion.map (toPField reg none)) (pending.map fun p => toPField reg p.1 p.2) target
        = .ok (placed, size) ∧
      nameRegions reg 0 placed = .ok regions := by
  unfold rrV at h
  simp only [] at h
  split at h
  · cases h
  · cases h
  · cases h
  · cases h
  · unfold rrTail at h
    split at h
    · next vft' vregion hv =>
      split at h
      · next placed' size' hres =>
        split at h
        · next regions' hname =>
          simp only [Res.ok.injEq, Prod.mk.injEq] at h
          obtain ⟨rfl, rfl, rfl, rfl⟩ := h
          exact ⟨vregion, hv, hres, hname⟩
        · exact absurd h (C01.cast_ne_ok _ _)
      · exact absurd h (C01.cast_ne_ok _ _)
    · exact absurd h (C01.cast_ne_ok _ _)

/-- the pointer region `vftable::build` hands to the layout core is a pointer -/
theorem vftRes_vregion {reg : Registry} {fb : Option Region} {owner : Path} {vfns : Option (List SFunc)}
    {vft : Option Vft} {vr : Region} (h : vftRes reg fb owner vfns = .ok (vft, some vr)) :
    ∃ d, vr.ty = .data (.cptr d) := by
  unfold vftRes at h
  split at h
  · split at h
    · unfold C06.vftCheck at h
      split at h
      · split at h
        · cases h
        · split at h
          · cases h
          · cases h
      · simp only [Res.ok.injEq, Prod.mk.injEq, Option.some.injEq] at h
        obtain ⟨_, rfl⟩ := h
        exact ⟨_, rfl⟩
      · exact absurd h (C01.cast_ne_ok _ _)
    · cases h
  · split at h
    · cases h
    · cases h
    · exact absurd h (C01.cast_ne_ok _ _)

theorem toPField_ptr (r r' : Registry) (hps : r'.ps = r.ps) (vr : Region) (d : DTy) (h : vr.ty = .data (.cptr d)) :
    toPField r' none vr = toPField r none vr := by
  unfold toPField
  rw [h]
  simp only [RTy.size, RTy.align, DTy.size, DTy.align, hps]

theorem rrV_out {Gs : List Path} (hu8 : ["u8"] ∉ Gs) {reg0 reg : Registry} {owner : Path} {target : Option Nat}
    {pending : List (Option Nat × Region)} {vfns : Option (List SFunc)} {regions : List Region} {vft : Option Vft}
    {size : Nat} {placed : List (Placed Region)} (hp : ∀ p ∈ pending, OutR Gs p.2.ty)
    (h : rrV reg0 reg owner target pending vfns = .ok (regions, vft, size, placed)) :
    ∀ r ∈ regions, OutR Gs r.ty := by
  obtain ⟨vregion, hv, hres, hname⟩ := rrV_inv h
  have hsrc := C02.resolve_allSrc (fun (r : Region) _ _ => OutR Gs r.ty) _ _ _ _ _ hres
    (by
      intro v hv' s _
      cases vregion with
      | none => cases hv'
      | some vr =>
        simp only [Option.map_some, Option.some.injEq] at hv'
        subst hv'
        obtain ⟨d, hd⟩ := vftRes_vregion hv
        show OutR Gs vr.ty
        rw [hd]
        intro q hq
        simp [byValue] at hq)
    (by
      intro f hf s _
      obtain ⟨p, hpm, rfl⟩ := List.mem_map.mp hf
      exact hp p hpm)
  obtain ⟨hlen, hnamed⟩ := C01.nameRegions_types_lem reg 0 placed regions hname
  intro r hr
  obtain ⟨k, hk, rfl⟩ := List.getElem_of_mem hr
  have hk' : k < placed.length := hlen ▸ hk
  have hn := hnamed k hk' hk
  unfold C01.NamedAs at hn
  split at hn
  · next r0 hsrc0 =>
    rw [hn.1]
    exact hsrc _ (List.getElem_mem hk') r0 hsrc0
  · obtain ⟨t, ht, hty, _⟩ := hn
    rw [hty]
    exact paddingType_outD hu8 reg _ t ht

theorem rrV_known {reg0 reg : Registry} (hu : U8 reg) {owner : Path} {target : Option Nat}
    {pending : List (Option Nat × Region)} {vfns : Option (List SFunc)} {regions : List Region} {vft : Option Vft}
    {size : Nat} {placed : List (Placed Region)}
    (h : rrV reg0 reg owner target pending vfns = .ok (regions, vft, size, placed)) :
    ∀ r ∈ regions, KnownR reg r.ty := by
  obtain ⟨vregion, _, hres, hname⟩ := rrV_inv h
  have hpl := C02.placed_layouts_lem reg vregion pending target placed size hres
  obtain ⟨hlen, hnamed⟩ := C01.nameRegions_types_lem reg 0 placed regions hname
  intro r hr
  obtain ⟨k, hk, rfl⟩ := List.getElem_of_mem hr
  have hk' : k < placed.length := hlen ▸ hk
  have hn := hnamed k hk' hk
  unfold C01.NamedAs at hn
  split at hn
  · next r0 hsrc =>
    rw [hn.1]
    exact knownR_of_size reg r0.ty _ (hpl _ (List.getElem_mem hk') r0 hsrc).1
  · obtain ⟨t, ht, hty, _⟩ := hn
    rw [hty]
    exact paddingType_known reg hu _ t ht

/-! ### the frame for `btV` -/

theorem genItem_ps (s t : Registry) (hps : t.ps = s.ps) (owner : Path) (vis : Vis) (vfns : Option (List SFunc)) :
    genItem t owner vis vfns = genItem s owner vis vfns := by
  unfold genItem buildVftableItem
  rw [hps]

theorem AgreeOut.regAfter {Gs : List Path} {s t : Registry} (h : AgreeOut Gs s t) (owner : Path) (vis : Vis)
    (vfns : Option (List SFunc)) : AgreeOut Gs (regAfter s owner vis vfns) (regAfter t owner vis vfns) := by
  unfold C09.regAfter
  rw [genItem_ps s t h.ps]
  cases genItem s owner vis vfns with
  | none => exact h
  | some item => exact h.add item

theorem vftRes_agree {s t : Registry} (fb : Option Region) (hk : ∀ b, fb = some b → AgreeR s t b.ty) (owner : Path)
    (vfns : Option (List SFunc)) : vftRes t fb owner vfns = vftRes s fb owner vfns := by
  unfold vftRes C06.vftCheck
  rw [baseVftable_agree fb hk]

theorem rrTail_agree {Gs : List Path} (hu8 : ["u8"] ∉ Gs) {s t : Registry}
    (h : AgreeOut Gs s t) (fb : Option Region) (hfb : ∀ b, fb = some b → OutR Gs b.ty) (owner : Path)
    (target : Option Nat) (pending : List (Option Nat × Region))
    (vfns : Option (List SFunc)) (hp : ∀ p ∈ pending, OutR Gs p.2.ty) :
    rrTail t fb owner target pending vfns = rrTail s fb owner target pending vfns := by
  unfold rrTail
  have e3 : (pending.map fun p => toPField t p.1 p.2) = (pending.map fun p => toPField s p.1 p.2) :=
    List.map_congr_left (fun p hpm => toPField_agree h.ps p.1 (h.agreeR (hp p hpm)))
  rw [e3, nameRegions_ext (paddingType_out h hu8), vftRes_agree fb (fun b hb => h.agreeR (hfb b hb))]
  cases hv : vftRes s fb owner vfns with
  | ok x =>
    obtain ⟨vft, vregion⟩ := x
    simp only []
    have e4 : vregion.map (toPField t none) = vregion.map (toPField s none) := by
      cases vregion with
      | none => rfl
      | some vr =>
        obtain ⟨d, hd⟩ := vftRes_vregion hv
        simp only [Option.map_some, toPField_ptr s t h.ps vr d hd]
    rw [e4]
  | defer => rfl
  | err m => rfl
  | panic m => rfl

theorem rrV_agree {Gs : List Path} (hu8 : ["u8"] ∉ Gs) {s0 t0 s t : Registry} (h0 : AgreeOut Gs s0 t0)
    (h : AgreeOut Gs s t) (owner : Path) (target : Option Nat) (pending : List (Option Nat × Region))
    (vfns : Option (List SFunc)) (hp : ∀ p ∈ pending, OutR Gs p.2.ty) :
    rrV t0 t owner target pending vfns = rrV s0 s owner target pending vfns := by
  unfold rrV
  have hfb : ∀ b, (pending.map (·.2)).find? (·.isBase) = some b → OutR Gs b.ty := by
    intro b hb
    obtain ⟨p, hpm, rfl⟩ := List.mem_map.mp (List.mem_of_find?_eq_some hb)
    exact hp p hpm
  revert hfb
  generalize (pending.map (·.2)).find? (·.isBase) = fb
  intro hfb
  rw [rrTail_agree hu8 h fb hfb owner target pending vfns hp]
  cases fb with
  | none => rfl
  | some b => simp only [(rsize_agree h0.ps (h0.agreeR (hfb b rfl))).1]

/-- **frame for `type_definition::build`**: the same answer in two registries that agree outside `Gs`, when the
    statements of the definition and the functions of its function blocks are clean -/
theorem btV_out {Gs : List Path} (hu8 : ["u8"] ∉ Gs) {s t : Registry} (h : AgreeOut Gs s t) (module : Mod)
    (path : Path) (vis : Vis) (d : G.TypeDef)
    (hstm : ∀ st ∈ d.stmts, CleanStmt Gs module.scope st)
    (himpl : ∀ im, module.implFor path = some im → ∀ f ∈ im.fns, CleanFunc Gs module.scope f) :
    btV t (some module) path vis d = btV s (some module) path vis d := by
  have hcl : ∀ ist ∈ (d.stmts.zipIdx.map fun p => (p.2, p.1)), CleanStmt Gs module.scope ist.2 := by
    intro ist hist
    apply hstm
    have := List.mem_map_of_mem (f := (·.2)) hist
    rw [C01.zipIdx_swap_snd] at this
    exact this
  have hfold : foldStmts t module.scope d = foldStmts s module.scope d := stmts_fold_out h hu8 _ _ hcl
  unfold btV
  simp only []
  cases G.docOf d.attrs with
  | none => rfl
  | some doc =>
    simp only []
    cases Res.foldlM typeAttrStep {} d.attrs with
    | ok ta =>
      simp only []
      rw [hfold]
      cases hsa : foldStmts s module.scope d with
      | ok sa =>
        simp only []
        have hpo : PendOut Gs sa := stmts_fold_pendOut hu8 s _ hcl sa hsa
        have h1 := h.regAfter path vis sa.vfns
        rw [rrV_agree hu8 h h1 path ta.targetSize sa.pending sa.vfns hpo]
        cases hrr : rrV s (regAfter s path vis sa.vfns) path ta.targetSize sa.pending sa.vfns with
        | ok x =>
          obtain ⟨regions, vft, size, placed⟩ := x
          simp only []
          have hk : ∀ r ∈ regions, AgreeR (regAfter s path vis sa.vfns) (regAfter t path vis sa.vfns) r.ty :=
            fun r hr => h1.agreeR (rrV_out hu8 hpo hrr r hr)
          unfold btTail
          simp only [fun acc => injectBases_agree regions acc hk, checkDefaultable_agree regions hk, h1.ps,
            fun acc => addImplFns_out h1 hu8 (module.implFor path) himpl acc]
        | defer => rfl
        | err m => rfl
        | panic m => rfl
      | defer => rfl
      | err m => rfl
      | panic m => rfl
    | defer => rfl
    | err m => rfl
    | panic m => rfl

/-- the generated item is computed from lookups only -/
theorem genOf_out {Gs : List Path} (hu8 : ["u8"] ∉ Gs) {s t : Registry} (h : AgreeOut Gs s t) (module : Mod)
    (path : Path) (vis : Vis) (d : G.TypeDef) (hstm : ∀ st ∈ d.stmts, CleanStmt Gs module.scope st) :
    genOf t (some module) path vis d = genOf s (some module) path vis d := by
  have hcl : ∀ ist ∈ (d.stmts.zipIdx.map fun p => (p.2, p.1)), CleanStmt Gs module.scope ist.2 := by
    intro ist hist
    apply hstm
    have := List.mem_map_of_mem (f := (·.2)) hist
    rw [C01.zipIdx_swap_snd] at this
    exact this
  have hfold : foldStmts t module.scope d = foldStmts s module.scope d := stmts_fold_out h hu8 _ _ hcl
  unfold genOf vfnsOf
  simp only [hfold, genItem_ps s t h.ps]

/-! ## E. `btV` is monotone along `RegLe` -/

theorem RegLe.add {r r' : Registry} (h : RegLe r r') (i : ItemDef) : RegLe (r.add i) (r'.add i) := by
  refine ⟨h.ps, ?_, ?_⟩
  · intro q
    have e1 := C14.contains_add r i q
    have e2 := C14.contains_add r' i q
    rw [h.keys q] at e2
    cases hc : (r.add i).contains q with
    | true => exact e2.mpr (e1.mp hc)
    | false =>
      cases hc' : (r'.add i).contains q with
      | true => rw [e1.mpr (e2.mp hc')] at hc; cases hc
      | false => rfl
  · intro q j hj
    rw [C14.get_add] at hj ⊢
    by_cases hq : q = i.path
    · rw [if_pos hq] at hj ⊢
      cases hj
      exact ⟨i, rfl, rfl, rfl, rfl, .inl rfl⟩
    · rw [if_neg hq] at hj ⊢
      exact h.entries q j hj

theorem RegLe.regAfter {r r' : Registry} (h : RegLe r r') (owner : Path) (vis : Vis) (vfns : Option (List SFunc)) :
    RegLe (regAfter r owner vis vfns) (regAfter r' owner vis vfns) := by
  unfold C09.regAfter
  rw [genItem_ps r r' h.ps.symm]
  cases genItem r owner vis vfns with
  | none => exact h
  | some item => exact h.add item

theorem genItem_resolved {reg : Registry} {owner : Path} {vis : Vis} {vfns : Option (List SFunc)} {item : ItemDef}
    (h : genItem reg owner vis vfns = some item) : ∃ res, item.resolved? = some res := by
  unfold genItem at h
  cases vfns with
  | none => cases h
  | some fns =>
    simp only [Option.bind_some] at h
    unfold buildVftableItem at h
    obtain ⟨q, _, rfl⟩ := Option.map_eq_some_iff.mp h
    exact ⟨_, rfl⟩

/-- what is resolved before the registration is resolved after it -/
theorem known_regAfter (r : Registry) (owner : Path) (vis : Vis) (vfns : Option (List SFunc)) (t : RTy)
    (hk : KnownR r t) : KnownR (regAfter r owner vis vfns) t := by
  unfold regAfter
  cases hg : genItem r owner vis vfns with
  | none => exact hk
  | some item =>
    simp only []
    cases t with
    | fn cc args ret => trivial
    | data d =>
      intro q hq
      rw [C14.get_add]
      by_cases e : q = item.path
      · rw [if_pos e]
        obtain ⟨res, hres⟩ := genItem_resolved hg
        exact ⟨item, res, rfl, hres⟩
      · rw [if_neg e]; exact hk q hq

theorem u8_regAfter (r : Registry) (owner : Path) (vis : Vis) (vfns : Option (List SFunc)) (hu : U8 r) :
    U8 (regAfter r owner vis vfns) := by
  have := known_regAfter r owner vis vfns (.data (.raw ["u8"])) (by
    intro q hq
    simp only [byValue, List.mem_singleton] at hq
    subst hq
    exact hu)
  exact this ["u8"] (by simp [byValue])

theorem vftRes_mono (r r' : Registry) (hle : RegLe r r') (fb : Option Region)
    (hk : ∀ b, fb = some b → KnownR r b.ty) (owner : Path) (vfns : Option (List SFunc)) :
    vftRes r' fb owner vfns = vftRes r fb owner vfns := by
  unfold vftRes C06.vftCheck
  rw [baseVftable_mono r r' hle fb hk]

theorem resolve_stabV (r r' : Registry) (hle : RegLe r r') (v : Option (PField Region))
    (pending : List (Option Nat × Region)) (target : Option Nat) :
    Stab (resolve v (pending.map fun p => toPField r p.1 p.2) target)
      (resolve v (pending.map fun p => toPField r' p.1 p.2) target) := by
  unfold resolve
  cases v with
  | none =>
    simp only []
    rcases (place_stab r r' hle pending ([], 0)).elim with hd | he
    · rw [hd]; exact Stab.defer _
    · rw [he]; exact Stab.rfl' _
  | some v0 =>
    simp only []
    cases pushField ([], 0) v0 with
    | ok st0 =>
      simp only []
      rcases (place_stab r r' hle pending st0).elim with hd | he
      · rw [hd]; exact Stab.defer _
      · rw [he]; exact Stab.rfl' _
    | defer => exact Stab.rfl' _
    | err m => exact Stab.rfl' _
    | panic m => exact Stab.rfl' _

theorem rrTail_stab (r r' : Registry) (hle : RegLe r r') (fb : Option Region)
    (hk : ∀ b, fb = some b → KnownR r b.ty) (owner : Path) (target : Option Nat)
    (pending : List (Option Nat × Region)) (vfns : Option (List SFunc)) :
    Stab (rrTail r fb owner target pending vfns) (rrTail r' fb owner target pending vfns) := by
  unfold rrTail
  rw [vftRes_mono r r' hle fb hk]
  cases hv : vftRes r fb owner vfns with
  | ok x =>
    obtain ⟨vft, vregion⟩ := x
    simp only []
    have e4 : vregion.map (toPField r' none) = vregion.map (toPField r none) := by
      cases vregion with
      | none => rfl
      | some vr =>
        obtain ⟨d, hd⟩ := vftRes_vregion hv
        simp only [Option.map_some, toPField_ptr r r' hle.ps.symm vr d hd]
    rw [e4]
    rcases (resolve_stabV r r' hle (vregion.map (toPField r none)) pending target).elim with hd | he
    · rw [hd]; exact Stab.defer _
    · rw [he, nameRegions_fun r r' hle.keys]; exact Stab.rfl' _
  | defer => exact Stab.rfl' _
  | err m => exact Stab.rfl' _
  | panic m => exact Stab.rfl' _

theorem rrV_stab (r0 r0' r r' : Registry) (hle0 : RegLe r0 r0') (hle : RegLe r r')
    (hkn : ∀ t, KnownR r0 t → KnownR r t) (owner : Path) (target : Option Nat)
    (pending : List (Option Nat × Region)) (vfns : Option (List SFunc)) :
    Stab (rrV r0 r owner target pending vfns) (rrV r0' r' owner target pending vfns) := by
  unfold rrV
  generalize (pending.map (·.2)).find? (·.isBase) = fb
  cases fb with
  | none =>
    simp only []
    exact rrTail_stab r r' hle none (fun b hb => by cases hb) owner target pending vfns
  | some b =>
    simp only []
    obtain ⟨o, ho⟩ := rsize_ok r0 b.ty
    cases o with
    | none => rw [ho]; exact Stab.defer _
    | some n =>
      rw [ho, rsize_mono r0 r0' hle0 b.ty n ho]
      simp only []
      exact rrTail_stab r r' hle (some b)
        (fun b' hb' => by cases hb'; exact hkn _ (knownR_of_size r0 b.ty n ho)) owner target pending vfns

/-- **`type_definition::build` is monotone**, with or without a `vftable` block -/
theorem btV_stab (r r' : Registry) (hle : RegLe r r') (hu : U8 r) (mf : Option Mod) (path : Path) (vis : Vis)
    (d : G.TypeDef) : Stab (btV r mf path vis d) (btV r' mf path vis d) := by
  unfold btV
  cases mf with
  | none => exact Stab.rfl' _
  | some module =>
    simp only []
    cases G.docOf d.attrs with
    | none => exact Stab.rfl' _
    | some doc =>
      simp only []
      cases Res.foldlM typeAttrStep {} d.attrs with
      | ok ta =>
        simp only []
        have hfold : foldStmts r' module.scope d = foldStmts r module.scope d := by
          unfold foldStmts; rw [stmtStep_fun r r' hle.keys]
        rw [hfold]
        cases foldStmts r module.scope d with
        | ok sa =>
          simp only []
          have hle1 := RegLe.regAfter hle path vis sa.vfns
          rcases (rrV_stab r r' _ _ hle hle1 (known_regAfter r path vis sa.vfns) path ta.targetSize sa.pending
            sa.vfns).elim with hd | he
          · rw [hd]; exact Stab.defer _
          · rw [he]
            cases hrr : rrV r (regAfter r path vis sa.vfns) path ta.targetSize sa.pending sa.vfns with
            | ok x =>
              obtain ⟨regions, vft, size, placed⟩ := x
              simp only []
              rw [btTail_mono _ _ hle1 module path doc ta regions vft size placed
                (rrV_known (u8_regAfter r path vis sa.vfns hu) hrr)]
              exact Stab.rfl' _
            | defer => exact Stab.rfl' _
            | err m => exact Stab.rfl' _
            | panic m => exact Stab.rfl' _
        | defer => exact Stab.rfl' _
        | err m => exact Stab.rfl' _
        | panic m => exact Stab.rfl' _
      | defer => exact Stab.rfl' _
      | err m => exact Stab.rfl' _
      | panic m => exact Stab.rfl' _

/-! ## F. the simulation -/

/-! ### from names to clean lookups -/

/-- the last segments of the paths of `Gs` -/
def gnames (Gs : List Path) : List String := Gs.filterMap (·.getLast?)

theorem not_mem_of_last {Gs : List Path} {q : Path} {nm : String} (hl : q.getLast? = some nm)
    (hn : nm ∉ gnames Gs) : q ∉ Gs := by
  intro hq
  exact hn (List.mem_filterMap.mpr ⟨q, hq, hl⟩)

theorem cleanName_of {Gs scope : List Path} {name : String} (hs : ∀ u ∈ scope, u ∉ Gs) (hn : name ∉ gnames Gs) :
    CleanName Gs scope name := by
  intro q hq
  simp only [candidates, List.mem_append, List.mem_singleton, List.mem_map] at hq
  rcases hq with (hq | hq) | ⟨u, _, rfl⟩
  · exact hs q hq
  · subst hq; exact not_mem_of_last (by simp) hn
  · exact not_mem_of_last (by simp) hn

theorem cleanTy_of {Gs scope : List Path} (hs : ∀ u ∈ scope, u ∉ Gs) (ty : G.Ty)
    (hn : ∀ nm ∈ tyIdents ty, nm ∉ gnames Gs) : CleanTy Gs scope ty := by
  induction ty with
  | cptr t ih => exact ih hn
  | mptr t ih => exact ih hn
  | arr t n ih => exact ih hn
  | ident nm => exact cleanName_of hs (hn nm (by simp [tyIdents]))
  | unk n => trivial

theorem cleanFunc_of {Gs scope : List Path} (hs : ∀ u ∈ scope, u ∉ Gs) (f : G.Func)
    (hn : ∀ nm ∈ funcIdents f, nm ∉ gnames Gs) : CleanFunc Gs scope f := by
  refine ⟨?_, ?_⟩
  · intro a ha
    cases a with
    | constSelf => trivial
    | mutSelf => trivial
    | named n t =>
      refine cleanTy_of hs t (fun nm hnm => hn nm ?_)
      unfold funcIdents
      exact List.mem_append.mpr (.inl (List.mem_flatMap.mpr ⟨_, ha, hnm⟩))
  · intro t ht
    refine cleanTy_of hs t (fun nm hnm => hn nm ?_)
    unfold funcIdents
    rw [ht]
    exact List.mem_append.mpr (.inr hnm)

theorem cleanStmt_of {Gs scope : List Path} (hs : ∀ u ∈ scope, u ∉ Gs) (st : G.Stmt)
    (hn : ∀ nm ∈ stmtIdents st, nm ∉ gnames Gs) : CleanStmt Gs scope st := by
  unfold CleanStmt
  unfold stmtIdents at hn
  cases hf : st.field with
  | field vis name ty =>
    rw [hf] at hn
    exact cleanTy_of hs ty hn
  | vftable fns =>
    rw [hf] at hn
    intro f hfm
    exact cleanFunc_of hs f (fun nm hnm => hn nm (List.mem_flatMap.mpr ⟨f, hfm, hnm⟩))

/-! ### what the hypotheses give for one item of the initial state -/

/-- the hypotheses on the initial state -/
structure Ctx (s0 : State) : Prop where
  ok : C12.StateOkB s0
  ng : NoGenRefs s0

theorem moduleFor_mem {s : State} {p : Path} {m : Mod} (h : s.moduleFor p = some m) :
    ∃ parent, Path.parent? p = some parent ∧ (parent, m) ∈ s.modules := by
  unfold State.moduleFor at h
  split at h
  · cases h
  · next parent hp => exact ⟨parent, hp, C14.mem_of_lookup _ _ _ h⟩

theorem implFor_fns {m : Mod} {p : Path} {im : G.Impl} (h : m.implFor p = some im) :
    ∀ f ∈ im.fns, ∃ b ∈ m.impls, f ∈ b.2.fns := by
  unfold Mod.implFor at h
  split at h
  · cases h
  · next b bs hb =>
    cases h
    intro f hf
    simp only [List.mem_flatMap] at hf
    obtain ⟨blk, hblk, hfb⟩ := hf
    rw [← hb] at hblk
    obtain ⟨e, he, rfl⟩ := List.mem_map.mp hblk
    exact ⟨e, (List.mem_filter.mp he).1, hfb⟩

theorem Ctx.u8 {s0 : State} (cx : Ctx s0) : ["u8"] ∉ genPaths s0 := by
  intro h
  have := cx.ng.fresh _ h
  rw [cx.ok.ok.u8c] at this
  cases this

theorem Ctx.scope {s0 : State} (cx : Ctx s0) {p : Path} {m : Mod} (hm : s0.moduleFor p = some m) :
    ∀ u ∈ m.scope, u ∉ genPaths s0 := by
  obtain ⟨parent, _, hmem⟩ := moduleFor_mem hm
  exact cx.ng.scopes _ hmem

theorem Ctx.stmts {s0 : State} (cx : Ctx s0) {T : Path} {i : ItemDef} {d : G.Item} {td : G.TypeDef} {m : Mod}
    (hget : s0.reg.get T = some i) (hst : i.state = .unres d) (hin : d.inner = .type td)
    (hm : s0.moduleFor T = some m) : ∀ st ∈ td.stmts, CleanStmt (genPaths s0) m.scope st := by
  intro st hstm
  refine cleanStmt_of (cx.scope hm) st (fun nm hnm => ?_)
  refine cx.ng.defs (T, i) (C14.mem_of_lookup _ _ _ hget) d hst nm ?_
  unfold itemIdents
  rw [hin]
  exact List.mem_flatMap.mpr ⟨st, hstm, hnm⟩

theorem Ctx.enumTy {s0 : State} (cx : Ctx s0) {T : Path} {i : ItemDef} {d : G.Item} {ed : G.EnumDef} {m : Mod}
    (hget : s0.reg.get T = some i) (hst : i.state = .unres d) (hin : d.inner = .enum ed)
    (hm : s0.moduleFor T = some m) : CleanTy (genPaths s0) m.scope ed.ty := by
  refine cleanTy_of (cx.scope hm) ed.ty (fun nm hnm => ?_)
  refine cx.ng.defs (T, i) (C14.mem_of_lookup _ _ _ hget) d hst nm ?_
  unfold itemIdents
  rw [hin]
  exact hnm

theorem Ctx.implFns {s0 : State} (cx : Ctx s0) {T : Path} {m : Mod} (hm : s0.moduleFor T = some m) :
    ∀ im, m.implFor T = some im → ∀ f ∈ im.fns, CleanFunc (genPaths s0) m.scope f := by
  intro im him f hf
  obtain ⟨parent, _, hmem⟩ := moduleFor_mem hm
  obtain ⟨b, hb, hfb⟩ := implFor_fns him f hf
  exact cleanFunc_of (cx.scope hm) f (cx.ng.impls _ hmem b hb f hfb)

/-! ### generated items -/

theorem fieldsOnly_of_noBlock {td : G.TypeDef} (h : hasVftBlock td = false) : FieldsOnly td := by
  intro st hst
  unfold hasVftBlock at h
  rw [List.any_eq_false] at h
  have := h st hst
  unfold C01.isFieldStmt
  cases hf : st.field with
  | field v n t => rfl
  | vftable fns => rw [hf] at this; simp at this

theorem vfnsOf_block {reg : Registry} (hu : reg.contains ["u8"] = true) {mf : Option Mod} {td : G.TypeDef}
    {fns : List SFunc} (h : vfnsOf reg mf td = some fns) : hasVftBlock td = true := by
  cases hb : hasVftBlock td with
  | true => rfl
  | false =>
    exfalso
    unfold vfnsOf at h
    cases mf with
    | none => cases h
    | some m =>
      simp only [] at h
      cases hsa : foldStmts reg m.scope td with
      | ok sa =>
        rw [hsa] at h
        simp only [] at h
        have := ((stmts_fold_novft reg m.scope td (fieldsOnly_of_noBlock hb) hu).2 sa hsa).1
        rw [this] at h; cases h
      | defer => rw [hsa] at h; cases h
      | err e => rw [hsa] at h; cases h
      | panic e => rw [hsa] at h; cases h

theorem genOf_path {reg : Registry} {mf : Option Mod} {T : Path} {vis : Vis} {td : G.TypeDef} {item : ItemDef}
    (h : genOf reg mf T vis td = some item) : vftablePath T = some item.path ∧ ∃ fns, vfnsOf reg mf td = some fns := by
  unfold genOf genItem at h
  cases hv : vfnsOf reg mf td with
  | none => rw [hv] at h; cases h
  | some fns =>
    rw [hv] at h
    simp only [Option.bind_some] at h
    exact ⟨item_path_of h, fns, rfl⟩

/-- the item generated for an unresolved definition of the state sits at one of `genPaths` -/
theorem genOf_mem {s0 : State} (hu : s0.reg.contains ["u8"] = true) {T : Path} {i : ItemDef} {d : G.Item}
    {td : G.TypeDef} (hget : s0.reg.get T = some i) (hst : i.state = .unres d) (hin : d.inner = .type td)
    {mf : Option Mod} {vis : Vis} {item : ItemDef} (h : genOf s0.reg mf T vis td = some item) :
    item.path ∈ genPaths s0 := by
  obtain ⟨hp, fns, hf⟩ := genOf_path h
  have hb := vfnsOf_block hu hf
  unfold genPaths
  refine List.mem_filterMap.mpr ⟨(T, i), C14.mem_of_lookup _ _ _ hget, ?_⟩
  unfold genPathOf
  simp only [hst, hin, hb, if_true, hp]

theorem genOf_keys (r r' : Registry) (hk : ∀ p, r'.contains p = r.contains p) (hps : r'.ps = r.ps) (mf : Option Mod)
    (T : Path) (vis : Vis) (td : G.TypeDef) : genOf r' mf T vis td = genOf r mf T vis td := by
  unfold genOf vfnsOf foldStmts
  rw [stmtStep_fun r r' hk, genItem_ps r r' hps]

theorem genOf_defPaths (reg : Registry) (m : Mod) (dp : List Path) (T : Path) (vis : Vis) (td : G.TypeDef) :
    genOf reg (some { m with defPaths := dp }) T vis td = genOf reg (some m) T vis td := rfl

theorem btV_defPaths (reg : Registry) (m : Mod) (dp : List Path) (T : Path) (vis : Vis) (td : G.TypeDef) :
    btV reg (some { m with defPaths := dp }) T vis td = btV reg (some m) T vis td := rfl

/-- `T` is an unresolved type definition of `s0` whose attempt generates `item` -/
def Gen (s0 : State) (T : Path) (item : ItemDef) : Prop :=
  ∃ i d td, s0.reg.get T = some i ∧ i.isPredefined = false ∧ i.state = .unres d ∧ d.inner = .type td ∧
    genOf s0.reg (s0.moduleFor T) T d.vis td = some item

theorem Gen.pending {s0 : State} {T : Path} {a : ItemDef} (ha : Gen s0 T a) : Pending s0 T := by
  obtain ⟨i, d, td, h1, hp, h2, _, _⟩ := ha
  exact ⟨i, d, h1, hp, h2⟩

theorem Gen.unique {s0 : State} {T : Path} {a b : ItemDef} (ha : Gen s0 T a) (hb : Gen s0 T b) : a = b := by
  obtain ⟨i, d, td, h1, _, h2, h3, h4⟩ := ha
  obtain ⟨i', d', td', h1', _, h2', h3', h4'⟩ := hb
  rw [h1] at h1'; cases h1'
  rw [h2] at h2'; cases h2'
  rw [h3] at h3'; cases h3'
  rw [h4] at h4'; cases h4'
  rfl

theorem Gen.path {s0 : State} {T : Path} {a : ItemDef} (ha : Gen s0 T a) : vftablePath T = some a.path := by
  obtain ⟨i, d, td, _, _, _, _, h4⟩ := ha
  exact (genOf_path h4).1

theorem Gen.inj {s0 : State} {T T' : Path} {a b : ItemDef} (ha : Gen s0 T a) (hb : Gen s0 T' b)
    (hp : a.path = b.path) : a = b := by
  have h1 := ha.path
  have h2 := hb.path
  rw [← hp] at h2
  have := vftablePath_inj h1 h2
  subst this
  exact ha.unique hb

theorem Gen.mem {s0 : State} (cx : Ctx s0) {T : Path} {a : ItemDef} (ha : Gen s0 T a) : a.path ∈ genPaths s0 := by
  obtain ⟨i, d, td, h1, _, h2, h3, h4⟩ := ha
  exact genOf_mem cx.ok.ok.u8c h1 h2 h3 h4

theorem Gen.fresh {s0 : State} (cx : Ctx s0) {T : Path} {a : ItemDef} (ha : Gen s0 T a) : s0.reg.get a.path = none :=
  contains_false_get (cx.ng.fresh _ (ha.mem cx))

theorem Gen.resolved {s0 : State} {T : Path} {a : ItemDef} (ha : Gen s0 T a) : ∃ res, a.resolved? = some res := by
  obtain ⟨i, d, td, _, _, _, _, h4⟩ := ha
  exact genItem_resolved h4

/-! ### the abstract attempt (`Mono.attempt`, on the state without generated items) is monotone -/

theorem canon_noclash {s0 : State} (cx : Ctx s0) (R : Reg Path Resolved) {T : Path} {i : ItemDef} {d : G.Item}
    {td : G.TypeDef} (hget : s0.reg.get T = some i) (hst : i.state = .unres d) (hin : d.inner = .type td) :
    ∀ item, genOf (stateOf s0 R).reg ((stateOf s0 R).moduleFor T) T d.vis td = some item →
      (stateOf s0 R).reg.get item.path = none ∨ (stateOf s0 R).reg.get item.path = some item := by
  intro item h
  left
  have e : genOf (stateOf s0 R).reg (s0.moduleFor T) T d.vis td = genOf s0.reg (s0.moduleFor T) T d.vis td :=
    genOf_keys s0.reg (stateOf s0 R).reg (contains_stateOf s0 R) rfl _ _ _ _
  have hm : (stateOf s0 R).moduleFor T = s0.moduleFor T := rfl
  rw [hm, e] at h
  apply contains_false_get
  rw [contains_stateOf]
  exact cx.ng.fresh _ (genOf_mem cx.ok.ok.u8c hget hst hin h)

theorem buildType_canon {s0 : State} (cx : Ctx s0) (R : Reg Path Resolved) {T : Path} {i : ItemDef} {d : G.Item}
    {td : G.TypeDef} (hget : s0.reg.get T = some i) (hst : i.state = .unres d) (hin : d.inner = .type td) :
    (buildType (stateOf s0 R) T d.vis td).2 = btV (stateOf s0 R).reg (s0.moduleFor T) T d.vis td := by
  obtain ⟨s1, h1, _, _⟩ := buildType_pureV (stateOf s0 R) T d.vis td (canon_noclash cx R hget hst hin)
  rw [h1]
  rfl

theorem attempt_stabV {s0 : State} (cx : Ctx s0) (R R' : Reg Path Resolved) (hle : Reg.le R R') (k : Path)
    (hne : attempt s0 R k ≠ .defer) : attempt s0 R' k = attempt s0 R k := by
  have hu := u8_of_ok cx.ok.ok
  unfold attempt at hne ⊢
  cases hg : s0.reg.get k with
  | none => rfl
  | some i =>
    simp only [hg] at hne ⊢
    split
    · rfl
    · next hp =>
      rw [if_neg hp] at hne
      cases hst : i.state with
      | res r => rfl
      | unres d =>
        simp only [hst] at hne ⊢
        cases hin : d.inner with
        | type td =>
          simp only [hin] at hne ⊢
          rw [buildType_canon cx R hg hst hin] at hne
          rw [buildType_canon cx R' hg hst hin, buildType_canon cx R hg hst hin]
          exact toOut_stab (btV_stab _ _ (stateOf_le s0 R R' hle) (stateOf_u8 s0 R hu) _ k d.vis td) hne
        | enum ed =>
          simp only [hin] at hne ⊢
          exact toOut_stab (buildEnum_stab (stateOf s0 R) (stateOf s0 R') rfl (stateOf_le s0 R R' hle) k ed) hne

/-- **`Mono` for the concrete attempt**, with `vftable` blocks, when nothing mentions a generated name -/
theorem attempt_monoV {s0 : State} (cx : Ctx s0) : Work.Mono (attempt s0) where
  done := by
    intro R R' k v hle h
    rw [attempt_stabV cx R R' hle k (by rw [h]; exact fun e => by cases e), h]
  fail := by
    intro R R' k hle h
    rw [attempt_stabV cx R R' hle k (by rw [h]; exact fun e => by cases e), h]

/-! ### the states of a run: `stateOf s0 R` plus generated items -/

/-- the definition paths of the module stored under `key`, in a state with registry `reg` reached from `s0`:
    those of `s0`, preceded by the (pairwise distinct) new keys of the registry directly under `key` -/
def DpRep (s0 : State) (reg : Registry) (key : Path) (m0 : Mod) (dp : List Path) : Prop :=
  ∃ L, dp = L ++ m0.defPaths ∧ L.Nodup ∧
    ∀ q, q ∈ L ↔ (q ∉ m0.defPaths ∧ s0.reg.get q = none ∧ reg.contains q = true ∧ Path.parent? q = some key)

theorem DpRep.congr {s0 : State} {reg reg' : Registry} {key : Path} {m0 : Mod} {dp : List Path}
    (h : DpRep s0 reg key m0 dp) (hc : ∀ q, reg'.contains q = reg.contains q) : DpRep s0 reg' key m0 dp := by
  obtain ⟨L, h1, h2, h3⟩ := h
  exact ⟨L, h1, h2, fun q => by rw [hc q]; exact h3 q⟩

theorem DpRep.add_other {s0 : State} {reg : Registry} {key : Path} {m0 : Mod} {dp : List Path}
    (h : DpRep s0 reg key m0 dp) (item : ItemDef) (hne : Path.parent? item.path ≠ some key) :
    DpRep s0 (reg.add item) key m0 dp := by
  obtain ⟨L, h1, h2, h3⟩ := h
  refine ⟨L, h1, h2, fun q => ?_⟩
  rw [h3 q]
  constructor
  · rintro ⟨a, b, c, d⟩
    exact ⟨a, b, (C14.contains_add reg item q).mpr (.inl c), d⟩
  · rintro ⟨a, b, c, d⟩
    refine ⟨a, b, ?_, d⟩
    rcases (C14.contains_add reg item q).mp c with c | c
    · exact c
    · subst c; exact absurd d hne

theorem DpRep.add_same {s0 : State} {reg : Registry} {key : Path} {m0 : Mod} {dp : List Path}
    (h : DpRep s0 reg key m0 dp) (item : ItemDef) (hp : Path.parent? item.path = some key)
    (hfresh : s0.reg.get item.path = none) :
    DpRep s0 (reg.add item) key m0 (if dp.contains item.path then dp else item.path :: dp) := by
  obtain ⟨L, h1, h2, h3⟩ := h
  have hadd : ∀ q, (reg.add item).contains q = true ↔ reg.contains q = true ∨ q = item.path :=
    C14.contains_add reg item
  by_cases hc : dp.contains item.path = true
  · rw [if_pos hc]
    refine ⟨L, h1, h2, fun q => ?_⟩
    by_cases hq : q = item.path
    · rw [hq]
      have hmem : item.path ∈ L ++ m0.defPaths := by rw [← h1]; simpa using hc
      constructor
      · intro hL
        exact ⟨((h3 _).mp hL).1, hfresh, (hadd _).mpr (.inr rfl), hp⟩
      · rintro ⟨a, _, _, _⟩
        rcases List.mem_append.mp hmem with hL | hD
        · exact hL
        · exact absurd hD a
    · rw [h3 q]
      constructor
      · rintro ⟨a, b, c, d⟩
        exact ⟨a, b, (hadd q).mpr (.inl c), d⟩
      · rintro ⟨a, b, c, d⟩
        refine ⟨a, b, ?_, d⟩
        rcases (hadd q).mp c with c | c
        · exact c
        · exact absurd c hq
  · rw [if_neg hc]
    have hnm : item.path ∉ L ++ m0.defPaths := by rw [← h1]; simpa using hc
    refine ⟨item.path :: L, by rw [h1]; rfl, List.nodup_cons.mpr ⟨fun hx => hnm (List.mem_append.mpr (.inl hx)), h2⟩,
      fun q => ?_⟩
    by_cases hq : q = item.path
    · rw [hq]
      constructor
      · intro _
        exact ⟨fun hx => hnm (List.mem_append.mpr (.inr hx)), hfresh, (hadd _).mpr (.inr rfl), hp⟩
      · intro _; exact List.mem_cons_self
    · rw [List.mem_cons, h3 q]
      constructor
      · rintro (e | ⟨a, b, c, d⟩)
        · exact absurd e hq
        · exact ⟨a, b, (hadd q).mpr (.inl c), d⟩
      · rintro ⟨a, b, c, d⟩
        refine .inr ⟨a, b, ?_, d⟩
        rcases (hadd q).mp c with c | c
        · exact c
        · exact absurd c hq

/-- `s` represents the abstract registry `R` over the initial state `s0`: it is `stateOf s0 R` plus generated items,
    each the one item its owner generates in `s0`; the generated item of every owner the loop has resolved is
    registered; the stored modules are those of `s0` up to the definition paths -/
structure Rep (s0 : State) (R : Reg Path Resolved) (s : State) : Prop where
  ps : s.reg.ps = s0.reg.ps
  entries : ∀ q, s.reg.get q = (stateOf s0 R).reg.get q ∨
    (s0.reg.get q = none ∧ ∃ T item, Gen s0 T item ∧ item.path = q ∧ s.reg.get q = some item)
  registered : ∀ T v item, R T = some v → Gen s0 T item → s.reg.get item.path = some item
  mods : ∃ f : Path → List Path,
    s.modules = s0.modules.map (fun e => (e.1, { e.2 with defPaths := f e.1 })) ∧
    ∀ e ∈ s0.modules, DpRep s0 s.reg e.1 e.2 (f e.1)

theorem lookup_mem_eq {s0 : State} (hn : (s0.modules.map (·.1)).Nodup) {e : Path × Mod} (he : e ∈ s0.modules)
    {m0 : Mod} (h : s0.getModule e.1 = some m0) : e.2 = m0 := by
  have := lookup_of_mem s0.modules hn e.1 e.2 he
  unfold State.getModule at h
  rw [h] at this
  cases this
  rfl

theorem Rep.init {s0 : State} (cx : Ctx s0) : Rep s0 R0 s0 := by
  refine ⟨rfl, fun q => .inl (by rw [stateOf_R0]), fun T v item h => (by cases h), ?_⟩
  refine ⟨fun k => ((s0.getModule k).map (·.defPaths)).getD [], ?_, ?_⟩
  · conv => lhs; rw [← List.map_id s0.modules]
    apply List.map_congr_left
    intro e he
    have : s0.getModule e.1 = some e.2 := lookup_of_mem s0.modules cx.ng.modKeys e.1 e.2 he
    simp only [this, Option.map_some, Option.getD_some, id]
  · intro e he
    have : s0.getModule e.1 = some e.2 := lookup_of_mem s0.modules cx.ng.modKeys e.1 e.2 he
    simp only [this, Option.map_some, Option.getD_some]
    refine ⟨[], rfl, List.nodup_nil, fun q => ?_⟩
    constructor
    · intro h; cases h
    · rintro ⟨_, b, c, _⟩
      unfold Registry.contains at c
      rw [b] at c
      cases c

theorem Rep.agree {s0 : State} (cx : Ctx s0) {R : Reg Path Resolved} {s : State} (h : Rep s0 R s) :
    AgreeOut (genPaths s0) (stateOf s0 R).reg s.reg := by
  refine ⟨h.ps, fun q hq => ?_⟩
  rcases h.entries q with e | ⟨_, T, item, hg, hp, _⟩
  · exact e
  · exact absurd (hp ▸ hg.mem cx) hq

theorem Rep.getModule {s0 : State} {R : Reg Path Resolved} {s : State} (h : Rep s0 R s) (k : Path) (m0 : Mod)
    (hm : s0.getModule k = some m0) : ∃ dp, s.getModule k = some { m0 with defPaths := dp } := by
  obtain ⟨f, hf, _⟩ := h.mods
  refine ⟨f k, ?_⟩
  unfold State.getModule at hm ⊢
  rw [hf, lookup_map_val (fun k (m : Mod) => { m with defPaths := f k }) s0.modules k, hm]
  rfl

theorem Rep.moduleFor {s0 : State} {R : Reg Path Resolved} {s : State} (h : Rep s0 R s) (p : Path) (m0 : Mod)
    (hm : s0.moduleFor p = some m0) : ∃ dp, s.moduleFor p = some { m0 with defPaths := dp } := by
  unfold State.moduleFor at hm ⊢
  split at hm
  · cases hm
  · next parent hp => exact h.getModule parent m0 hm

theorem Rep.moduleFor_none {s0 : State} {R : Reg Path Resolved} {s : State} (h : Rep s0 R s) (p : Path)
    (hm : s0.moduleFor p = none) : s.moduleFor p = none := by
  obtain ⟨f, hf, _⟩ := h.mods
  unfold State.moduleFor at hm ⊢
  split at hm
  · rfl
  · next parent hp =>
    unfold State.getModule at hm ⊢
    rw [hf, lookup_map_val (fun k (m : Mod) => { m with defPaths := f k }) s0.modules parent, hm]
    rfl

theorem Rep.addItem {s0 : State} (cx : Ctx s0) {R : Reg Path Resolved} {s s1 : State} (hrep : Rep s0 R s)
    {T : Path} {item : ItemDef} (hg : Gen s0 T item) (ha : s.addItem item = .ok s1) : Rep s0 R s1 := by
  have hreg := C14.addItem_reg s s1 item ha
  have hfresh := hg.fresh cx
  refine ⟨by rw [hreg]; exact hrep.ps, ?_, ?_, ?_⟩
  · intro q
    rw [hreg, C14.get_add]
    by_cases hq : q = item.path
    · rw [if_pos hq]
      exact .inr ⟨by rw [hq]; exact hfresh, T, item, hg, hq.symm, rfl⟩
    · rw [if_neg hq]
      exact hrep.entries q
  · intro T' v item' hR hg'
    rw [hreg, C14.get_add]
    by_cases hq : item'.path = item.path
    · rw [if_pos hq, hg'.inj hg hq]
    · rw [if_neg hq]
      exact hrep.registered T' v item' hR hg'
  · obtain ⟨f, hf, hdp⟩ := hrep.mods
    obtain ⟨parent, m, hpar, hm, rfl⟩ := CaseLift2.addItem_inv' s s1 item ha
    have hgm : s.getModule parent = (s0.getModule parent).map (fun m0 => { m0 with defPaths := f parent }) := by
      unfold State.getModule
      rw [hf]
      exact lookup_map_val (fun k (m : Mod) => { m with defPaths := f k }) s0.modules parent
    cases hm0 : s0.getModule parent with
    | none => rw [hm0, hm] at hgm; cases hgm
    | some m0 =>
      rw [hm0, hm] at hgm
      simp only [Option.map_some, Option.some.injEq] at hgm
      subst hgm
      simp only []
      refine ⟨fun k => if k = parent then
          (if (f parent).contains item.path then f parent else item.path :: f parent) else f k, ?_, ?_⟩
      · rw [hf, List.map_map]
        apply List.map_congr_left
        intro e he
        simp only [Function.comp]
        by_cases hk : e.1 = parent
        · have he2 : e.2 = m0 := lookup_mem_eq cx.ng.modKeys he (by rw [hk]; exact hm0)
          simp only [hk, beq_self_eq_true, if_true, he2]
        · have hk' : (e.1 == parent) = false := by simpa using hk
          simp only [hk', Bool.false_eq_true, if_false, hk]
      · intro e he
        by_cases hk : e.1 = parent
        · have he2 : e.2 = m0 := lookup_mem_eq cx.ng.modKeys he (by rw [hk]; exact hm0)
          simp only [hk, if_true]
          have := (hdp e he).add_same item (by rw [hk]; exact hpar) hfresh
          rw [hk] at this
          exact this
        · simp only [hk, if_false]
          exact (hdp e he).add_other item (fun hx => hk (by rw [hpar] at hx; cases hx; rfl))

theorem Rep.setState {s0 : State} (cx : Ctx s0) {R : Reg Path Resolved} {s : State} (hrep : Rep s0 R s)
    {T : Path} {i : ItemDef} {d : G.Item} (hget : s0.reg.get T = some i) (hst : i.state = .unres d)
    (hR : R T = none) (r : Resolved) (hreg : ∀ item, Gen s0 T item → s.reg.get item.path = some item) :
    Rep s0 (upd R T r) { s with reg := s.reg.setState T (.res r) } := by
  have hsT : s.reg.get T = some i := by
    rcases hrep.entries T with e | ⟨e, _⟩
    · rw [e, get_stateOf, hget]
      simp only [Option.map_some, resItem_none R T i hR]
    · rw [hget] at e; cases e
  refine ⟨hrep.ps, ?_, ?_, ?_⟩
  · intro q
    show (s.reg.setState T (.res r)).get q = _ ∨ _
    rw [C12.get_setState]
    by_cases hq : q = T
    · subst hq
      rw [if_pos rfl, hsT]
      left
      rw [get_stateOf, hget]
      simp only [Option.map_some, resItem_some (upd R q r) q i d r hst (by simp [upd])]
    · rw [if_neg hq]
      rcases hrep.entries q with e | ⟨e1, T', item, hg, hp, e2⟩
      · left
        rw [e, get_stateOf, get_stateOf, resItem_upd_ne' R T r q hq]
      · right
        exact ⟨e1, T', item, hg, hp, e2⟩
  · intro T' v item hv hg
    show (s.reg.setState T (.res r)).get item.path = _
    have hne : item.path ≠ T := by
      intro e
      have := hg.fresh cx
      rw [e, hget] at this; cases this
    rw [C12.get_setState, if_neg hne]
    by_cases hT : T' = T
    · subst hT; exact hreg item hg
    · have : R T' = some v := by simpa [upd, hT] using hv
      exact hrep.registered T' v item this hg
  · obtain ⟨f, hf, hdp⟩ := hrep.mods
    exact ⟨f, hf, fun e he => (hdp e he).congr (fun q => CaseLift2.contains_setState s.reg T q (.res r))⟩

/-! ### one attempt -/

theorem buildEnum_out {Gs : List Path} (hu8 : ["u8"] ∉ Gs) {ss ts : State} (h : AgreeOut Gs ss.reg ts.reg)
    (k : Path) (m0 : Mod) (dp : List Path) (hms : ss.moduleFor k = some m0)
    (hmt : ts.moduleFor k = some { m0 with defPaths := dp }) (ed : G.EnumDef)
    (hc : CleanTy Gs m0.scope ed.ty) : buildEnum ts k ed = buildEnum ss k ed := by
  unfold buildEnum
  rw [hms, hmt]
  simp only []
  have hsc : ({ m0 with defPaths := dp } : Mod).scope = m0.scope := rfl
  rw [hsc, resolveTy_out h hu8 hc]
  cases hty : ss.reg.resolveTy m0.scope ed.ty with
  | ok ty =>
    simp only []
    have e := size_local_lem ss.reg ts.reg ty h.ps (h.agreeD (resolveTy_outD hu8 ss.reg ed.ty hc ty hty))
    rw [e.1, e.2]
  | defer => rfl
  | err m => rfl
  | panic m => rfl

/-- one `type_definition::build` from a state that represents `R`: the answer is the abstract one, the new state
    represents `R` too, and when the answer is a result the generated item is registered -/
theorem buildType_rep {s0 : State} (cx : Ctx s0) {R : Reg Path Resolved} {s : State} (hrep : Rep s0 R s)
    {T : Path} {i : ItemDef} {d : G.Item} {td : G.TypeDef} {m0 : Mod}
    (hget : s0.reg.get T = some i) (hpre : i.isPredefined = false) (hst : i.state = .unres d)
    (hin : d.inner = .type td) (hm : s0.moduleFor T = some m0) :
    ∃ s1, buildType s T d.vis td = (s1, btV (stateOf s0 R).reg (s0.moduleFor T) T d.vis td) ∧ Rep s0 R s1 ∧
      (∀ r, btV (stateOf s0 R).reg (s0.moduleFor T) T d.vis td = .ok r →
        ∀ item, Gen s0 T item → s1.reg.get item.path = some item) := by
  have hag := hrep.agree cx
  obtain ⟨dp, hms⟩ := hrep.moduleFor T m0 hm
  have hstm := cx.stmts hget hst hin hm
  have hgen : genOf s.reg (s.moduleFor T) T d.vis td = genOf s0.reg (s0.moduleFor T) T d.vis td := by
    rw [hms, hm, genOf_defPaths, genOf_out cx.u8 hag m0 T d.vis td hstm,
      genOf_keys s0.reg (stateOf s0 R).reg (contains_stateOf s0 R) rfl]
  have hnc : ∀ item, genOf s.reg (s.moduleFor T) T d.vis td = some item →
      s.reg.get item.path = none ∨ s.reg.get item.path = some item := by
    intro item h
    rw [hgen] at h
    have hg : Gen s0 T item := ⟨i, d, td, hget, hpre, hst, hin, h⟩
    rcases hrep.entries item.path with e | ⟨_, T', item', hg', hp, e⟩
    · left
      rw [e]
      apply contains_false_get
      rw [contains_stateOf]
      exact cx.ng.fresh _ (hg.mem cx)
    · right
      rw [e, hg'.inj hg hp]
  obtain ⟨s1, h1, h2, h3⟩ := buildType_pureV s T d.vis td hnc
  have hres : btV s.reg (s.moduleFor T) T d.vis td = btV (stateOf s0 R).reg (s0.moduleFor T) T d.vis td := by
    rw [hms, hm, btV_defPaths, btV_out cx.u8 hag m0 T d.vis td hstm (cx.implFns hm)]
  refine ⟨s1, by rw [h1, hres], ?_, ?_⟩
  · rcases h2 with rfl | ⟨item, hi, ha⟩
    · exact hrep
    · rw [hgen] at hi
      exact hrep.addItem cx ⟨i, d, td, hget, hpre, hst, hin, hi⟩ ha
  · intro r hr item hg
    have hg0 : genOf s0.reg (s0.moduleFor T) T d.vis td = some item := by
      obtain ⟨i', d', td', a, _, b, c, e⟩ := hg
      rw [hget] at a; cases a
      rw [hst] at b; cases b
      rw [hin] at c; cases c
      exact e
    exact h3 r (by rw [hres]; exact hr) item (by rw [hgen]; exact hg0)

/-- what one attempt on a pending item does to a state that represents `R` -/
theorem attemptItem_simV {s0 : State} (cx : Ctx s0) {R : Reg Path Resolved} {s : State} (hrep : Rep s0 R s)
    (k : Path) (hp : Pending s0 k) :
    (∀ v, R k = some v → attemptItem s k = (s, .ok ())) ∧
    (R k = none →
      match attempt s0 R k with
      | .done v => ∃ s', attemptItem s k = (s', .ok ()) ∧ Rep s0 (upd R k v) s'
      | .defer => ∃ s', attemptItem s k = (s', .ok ()) ∧ Rep s0 R s'
      | .fail => ∃ s' e, attemptItem s k = (s', e) ∧ ∃ m, e = .err m ∨ e = .panic m) := by
  obtain ⟨i, d, hi, hpre, hst⟩ := hp
  have hg : s.reg.get k = some (resItem R k i) := by
    rcases hrep.entries k with e | ⟨e, _⟩
    · rw [e, get_stateOf, hi]; rfl
    · rw [hi] at e; cases e
  obtain ⟨m0, hm⟩ := cx.ok.ok.parents k i hi (by simp [hpre])
  constructor
  · intro v hR
    rw [resItem_some R k i d v hst hR] at hg
    unfold attemptItem
    simp only [hg]
  · intro hR
    rw [resItem_none R k i hR] at hg
    unfold attemptItem attempt
    simp only [hg, hi, hpre, hst, Bool.false_eq_true, if_false]
    cases hin : d.inner with
    | type td =>
      simp only []
      obtain ⟨s1, h1, h2, h3⟩ := buildType_rep cx hrep hi hpre hst hin hm
      rw [h1, buildType_canon cx R hi hst hin]
      cases hb : btV (stateOf s0 R).reg (s0.moduleFor k) k d.vis td with
      | ok r =>
        simp only [toOut]
        exact ⟨_, rfl, h2.setState cx hi hst hR r (h3 r hb)⟩
      | defer => simp only [toOut]; exact ⟨s1, rfl, h2⟩
      | err m => simp only [toOut]; exact ⟨s1, _, rfl, m, .inl rfl⟩
      | panic m => simp only [toOut]; exact ⟨s1, _, rfl, m, .inr rfl⟩
    | enum ed =>
      simp only []
      obtain ⟨dp, hms⟩ := hrep.moduleFor k m0 hm
      have hmc : (stateOf s0 R).moduleFor k = some m0 := hm
      rw [buildEnum_out cx.u8 (hrep.agree cx) k m0 dp hmc hms ed (cx.enumTy hi hst hin hm)]
      cases hb : buildEnum (stateOf s0 R) k ed with
      | ok r =>
        simp only [toOut]
        refine ⟨_, rfl, hrep.setState cx hi hst hR r ?_⟩
        intro item hgen
        obtain ⟨i', d', td', a, _, b, c, _⟩ := hgen
        rw [hi] at a; cases a
        rw [hst] at b; cases b
        rw [hin] at c; cases c
      | defer => simp only [toOut]; exact ⟨s, rfl, hrep⟩
      | err m => simp only [toOut]; exact ⟨s, _, rfl, m, .inl rfl⟩
      | panic m => simp only [toOut]; exact ⟨s, _, rfl, m, .inr rfl⟩

/-! ### one round, the whole loop -/

/-- what a round over `l` from `R` to `R'` with result `x` tells -/
def RoundPostV (s0 : State) (l : List Path) (R R' : Reg Path Resolved) : Res Unit → Prop
  | .ok () => ((∀ k ∈ l, R k = none → attempt s0 R k = .defer) ∧ R' = R) ∨ ∃ k ∈ l, R k = none ∧ (R' k).isSome
  | .err _ => ∃ R'' k, Run (attempt s0) R0 R'' ∧ R'' k = none ∧ attempt s0 R'' k = .fail
  | .panic _ => ∃ R'' k, Run (attempt s0) R0 R'' ∧ R'' k = none ∧ attempt s0 R'' k = .fail
  | .defer => False

theorem RoundPostV.skip {s0 : State} {p : Path} {ps : List Path} {R R' : Reg Path Resolved} {x : Res Unit}
    (hp : R p = none → attempt s0 R p = .defer) (h : RoundPostV s0 ps R R' x) : RoundPostV s0 (p :: ps) R R' x := by
  cases x with
  | ok u =>
    cases u
    rcases h with ⟨h1, h2⟩ | ⟨k, hk, h1, h2⟩
    · left
      refine ⟨?_, h2⟩
      intro k hk hR
      rcases List.mem_cons.mp hk with rfl | hk
      · exact hp hR
      · exact h1 k hk hR
    · right; exact ⟨k, List.mem_cons_of_mem _ hk, h1, h2⟩
  | err m => exact h
  | defer => exact h
  | panic m => exact h

theorem RoundPostV.step {s0 : State} {p : Path} {ps : List Path} {R R' : Reg Path Resolved} {v : Resolved}
    {x : Res Unit} (hp : R p = none) (hle : Reg.le (upd R p v) R') (h : RoundPostV s0 ps (upd R p v) R' x) :
    RoundPostV s0 (p :: ps) R R' x := by
  cases x with
  | ok u =>
    cases u
    right
    refine ⟨p, List.mem_cons_self, hp, ?_⟩
    rw [hle p v (by simp [upd])]; rfl
  | err m => exact h
  | defer => exact h
  | panic m => exact h

theorem runRound_simV {s0 : State} (cx : Ctx s0) (l : List Path) (hl : ∀ k ∈ l, Pending s0 k)
    (R : Reg Path Resolved) (hrun : Run (attempt s0) R0 R) (s : State) (hrep : Rep s0 R s) :
    ∃ R', Run (attempt s0) R0 R' ∧ Reg.le R R' ∧ ((runRound s l).2 = .ok () → Rep s0 R' (runRound s l).1) ∧
      RoundPostV s0 l R R' (runRound s l).2 := by
  induction l generalizing R s with
  | nil => exact ⟨R, hrun, Reg.le_refl R, fun _ => hrep, .inl ⟨fun k hk => (by cases hk), rfl⟩⟩
  | cons p ps ih =>
    have hps : ∀ k ∈ ps, Pending s0 k := fun k hk => hl k (List.mem_cons_of_mem _ hk)
    have hsim := attemptItem_simV cx hrep p (hl p List.mem_cons_self)
    cases hR : R p with
    | some v =>
      have ha := hsim.1 v hR
      have e : runRound s (p :: ps) = runRound s ps := by rw [runRound, ha]
      obtain ⟨R', h1, h3, h4, h5⟩ := ih hps R hrun s hrep
      rw [e]
      exact ⟨R', h1, h3, h4, h5.skip (fun h => by rw [hR] at h; cases h)⟩
    | none =>
      have h2 := hsim.2 hR
      cases hat : attempt s0 R p with
      | done v =>
        rw [hat] at h2
        simp only [] at h2
        obtain ⟨s', hs', hrep'⟩ := h2
        have e : runRound s (p :: ps) = runRound s' ps := by rw [runRound, hs']
        obtain ⟨R', i1, i3, i4, i5⟩ := ih hps (upd R p v) (Run.step R p v hrun hR hat) s' hrep'
        rw [e]
        exact ⟨R', i1, Reg.le_trans (le_upd R p v hR) i3, i4, i5.step hR i3⟩
      | defer =>
        rw [hat] at h2
        simp only [] at h2
        obtain ⟨s', hs', hrep'⟩ := h2
        have e : runRound s (p :: ps) = runRound s' ps := by rw [runRound, hs']
        obtain ⟨R', i1, i3, i4, i5⟩ := ih hps R hrun s' hrep'
        rw [e]
        exact ⟨R', i1, i3, i4, i5.skip (fun _ => hat)⟩
      | fail =>
        rw [hat] at h2
        simp only [] at h2
        obtain ⟨s', x, hs', m, hx⟩ := h2
        rcases hx with rfl | rfl
        · have e : runRound s (p :: ps) = (s', .err m) := by rw [runRound, hs']
          rw [e]
          exact ⟨R, hrun, Reg.le_refl R, fun h => (by cases h), ⟨R, p, hrun, hR, hat⟩⟩
        · have e : runRound s (p :: ps) = (s', .panic m) := by rw [runRound, hs']
          rw [e]
          exact ⟨R, hrun, Reg.le_refl R, fun h => (by cases h), ⟨R, p, hrun, hR, hat⟩⟩

theorem mem_ulist_iff (r : Registry) (hn : (C10.keys r).Nodup) (k : Path) :
    k ∈ C10.ulist r ↔ ∃ v, r.get k = some v ∧ v.isPredefined = false ∧ v.isResolved = false := by
  simp only [C10.ulist, List.mem_map, List.mem_filter]
  constructor
  · rintro ⟨e, ⟨he, hf⟩, rfl⟩
    refine ⟨e.2, lookup_of_mem r.types hn e.1 e.2 he, ?_⟩
    simpa using hf
  · rintro ⟨v, hv, h1, h2⟩
    exact ⟨(k, v), ⟨C14.mem_of_lookup _ _ _ hv, by simp [h1, h2]⟩, rfl⟩

theorem keys_stateOf (s0 : State) (R : Reg Path Resolved) : C10.keys (stateOf s0 R).reg = C10.keys s0.reg := by
  simp only [C10.keys, stateOf, List.map_map]
  rfl

/-- the unresolved items of a state that represents `R` are the pending items `R` has not resolved -/
theorem Rep.mem_unresolved {s0 : State} (cx : Ctx s0) {R : Reg Path Resolved} {s : State} (hrep : Rep s0 R s)
    (hn : (C10.keys s.reg).Nodup) (prio : List Path) (k : Path) :
    k ∈ s.reg.unresolved prio ↔ Pending s0 k ∧ R k = none := by
  have hn0 : (C10.keys s0.reg).Nodup := cx.ok.ok.reg.keys
  rw [C10.unresolved_eq, List.mem_mergeSort, mem_ulist_iff s.reg hn, ← mem_ulist_stateOf s0 hn0 R k,
    mem_ulist_iff (stateOf s0 R).reg (by rw [keys_stateOf]; exact hn0)]
  constructor
  · rintro ⟨v, hv, h1, h2⟩
    rcases hrep.entries k with e | ⟨_, T, item, hg, hp, e⟩
    · exact ⟨v, by rw [← e]; exact hv, h1, h2⟩
    · rw [e] at hv
      cases hv
      obtain ⟨res, hres⟩ := hg.resolved
      simp [ItemDef.isResolved, hres] at h2
  · rintro ⟨v, hv, h1, h2⟩
    rcases hrep.entries k with e | ⟨e0, _⟩
    · exact ⟨v, by rw [e]; exact hv, h1, h2⟩
    · rw [get_stateOf, e0] at hv; cases hv

/-- what the outcome of the resolution loop tells about the abstract run -/
def LoopPostV (s0 : State) (prio : List Path) : BuildOutcome → Prop
  | .ok s' => ∃ R', Run (attempt s0) R0 R' ∧ Rep s0 R' s' ∧ (C10.keys s'.reg).Nodup ∧ Total s0 R'
  | .nonterm l => ∃ R' s', Run (attempt s0) R0 R' ∧ Rep s0 R' s' ∧ (C10.keys s'.reg).Nodup ∧
      l = s'.reg.unresolved prio ∧ l ≠ [] ∧ Stuck s0 R'
  | .err _ => ∃ R'' k, Run (attempt s0) R0 R'' ∧ R'' k = none ∧ attempt s0 R'' k = .fail
  | .panic _ => ∃ R'' k, Run (attempt s0) R0 R'' ∧ R'' k = none ∧ attempt s0 R'' k = .fail
  | .fuel => True

theorem resolveLoop_simV {s0 : State} (cx : Ctx s0) (prio : List Path) (fuel : Nat) (R : Reg Path Resolved)
    (hrun : Run (attempt s0) R0 R) (s : State) (hrep : Rep s0 R s) (hn : (C10.keys s.reg).Nodup) :
    LoopPostV s0 prio (resolveLoop prio fuel s) := by
  induction fuel generalizing R s with
  | zero => simp [resolveLoop, LoopPostV]
  | succ n ih =>
    have hmem := fun k => hrep.mem_unresolved cx hn prio k
    unfold resolveLoop
    simp only []
    split
    · next he =>
      refine ⟨R, hrun, hrep, hn, ?_⟩
      intro k hp
      cases hR : R k with
      | some v => rfl
      | none =>
        have : k ∈ s.reg.unresolved prio := (hmem k).mpr ⟨hp, hR⟩
        rw [List.isEmpty_iff.mp he] at this
        cases this
    · next hne =>
      obtain ⟨R', h1, _, h4, h5⟩ := runRound_simV cx (s.reg.unresolved prio)
        (fun k hk => ((hmem k).mp hk).1) R hrun s hrep
      have hn1 := (C10.runRound_prog (s.reg.unresolved prio) s hn).nodup
      generalize runRound s (s.reg.unresolved prio) = rr at h4 h5 hn1 ⊢
      obtain ⟨s1, res⟩ := rr
      simp only [] at h4 h5 hn1
      cases res with
      | ok u =>
        cases u
        have hrep1 := h4 rfl
        simp only []
        split
        · next hcond =>
          simp only [Bool.and_eq_true, beq_iff_eq] at hcond
          rcases h5 with ⟨hdef, _⟩ | ⟨k, hk, hRk, hR'k⟩
          · refine ⟨R, s, hrun, hrep, hn, rfl, ?_, ?_⟩
            · intro e; rw [e] at hne; exact hne rfl
            · intro k hk
              by_cases hd : attempt s0 R k = .defer
              · exact hd
              · exact hdef k ((hmem k).mpr ⟨attempt_pending s0 R k hd, hk⟩) hk
          · exfalso
            rw [hcond.1] at hk
            have := ((hrep1.mem_unresolved cx hn1 prio k).mp hk).2
            rw [this] at hR'k
            cases hR'k
        · exact ih R' h1 s1 hrep1 hn1
      | err m => exact h5
      | defer => exact h5.elim
      | panic m => exact h5

/-! ## G. any two runs agree -/

/-- the module differs in the order of its definition paths only -/
def ModEqv (m1 m2 : Mod) : Prop := ∃ dp, m2 = { m1 with defPaths := dp } ∧ dp.Perm m1.defPaths

/-- the two module lists have the same keys in the same order, and equal modules up to the order of the
    definition paths -/
def ModsEqv : List (Path × Mod) → List (Path × Mod) → Prop
  | [], [] => True
  | a :: l1, b :: l2 => a.1 = b.1 ∧ ModEqv a.2 b.2 ∧ ModsEqv l1 l2
  | _, _ => False

/-- the verdict of a build, up to what may legitimately depend on the order in the presence of generated items:
    *which* failure is reported first (an error or the modelled allocation limit), the order in which the unresolved
    items are listed, and the order in which the generated paths were inserted into the definition paths of their
    modules -/
def sameVerdictV : BuildOutcome → BuildOutcome → Prop
  | .ok s1, .ok s2 => (∀ p, s1.reg.get p = s2.reg.get p) ∧ ModsEqv s1.modules s2.modules ∧
      s1.reg.ps = s2.reg.ps ∧ s1.reg.types.Perm s2.reg.types
  | .nonterm f1, .nonterm f2 => f1.Perm f2
  | .err _, .err _ => True
  | .err _, .panic _ => True
  | .panic _, .err _ => True
  | .panic _, .panic _ => True
  | .fuel, .fuel => True
  | _, _ => False

theorem modsEqv_map (l : List (Path × Mod)) (g1 g2 : Path × Mod → Mod)
    (h : ∀ e ∈ l, ModEqv (g1 e) (g2 e)) : ModsEqv (l.map fun e => (e.1, g1 e)) (l.map fun e => (e.1, g2 e)) := by
  induction l with
  | nil => trivial
  | cons a l ih =>
    exact ⟨rfl, h a List.mem_cons_self, ih (fun e he => h e (List.mem_cons_of_mem _ he))⟩

/-- two states that represent the same total registry have the same entries -/
theorem Rep.get_eq {s0 : State} {R : Reg Path Resolved} {s1 s2 : State} (h1 : Rep s0 R s1)
    (h2 : Rep s0 R s2) (ht : Total s0 R) (q : Path) : s1.reg.get q = s2.reg.get q := by
  have key : ∀ {a b : State}, Rep s0 R a → Rep s0 R b → a.reg.get q = (stateOf s0 R).reg.get q →
      b.reg.get q = (stateOf s0 R).reg.get q := by
    intro a b ha hb e
    rcases hb.entries q with e' | ⟨e0, T, item, hg, hp, _⟩
    · exact e'
    · exfalso
      obtain ⟨v, hv⟩ := Option.isSome_iff_exists.mp (ht T hg.pending)
      have := ha.registered T v item hv hg
      rw [hp, e, get_stateOf, e0] at this
      cases this
  rcases h1.entries q with e1 | ⟨_, T1, item1, hg1, hp1, e1⟩
  · rw [e1, key h1 h2 e1]
  · rcases h2.entries q with e2 | ⟨_, T2, item2, hg2, hp2, e2⟩
    · rw [e2, key h2 h1 e2]
    · rw [e1, e2, hg1.inj hg2 (hp1.trans hp2.symm)]

/-- … and the same modules up to the order of the definition paths -/
theorem Rep.mods_eqv {s0 : State} {R : Reg Path Resolved} {s1 s2 : State} (h1 : Rep s0 R s1) (h2 : Rep s0 R s2)
    (hget : ∀ q, s1.reg.get q = s2.reg.get q) :
    ∃ f1 f2 : Path → List Path,
      s1.modules = s0.modules.map (fun e => (e.1, { e.2 with defPaths := f1 e.1 })) ∧
      s2.modules = s0.modules.map (fun e => (e.1, { e.2 with defPaths := f2 e.1 })) ∧
      ∀ e ∈ s0.modules, (f2 e.1).Perm (f1 e.1) := by
  obtain ⟨f1, hf1, hd1⟩ := h1.mods
  obtain ⟨f2, hf2, hd2⟩ := h2.mods
  refine ⟨f1, f2, hf1, hf2, fun e he => ?_⟩
  obtain ⟨L1, a1, b1, c1⟩ := hd1 e he
  obtain ⟨L2, a2, b2, c2⟩ := hd2 e he
  have hc : ∀ q, s2.reg.contains q = s1.reg.contains q := by
    intro q; unfold Registry.contains; rw [hget q]
  have hperm : L2.Perm L1 := by
    rw [List.perm_ext_iff_of_nodup b2 b1]
    intro q
    rw [c1 q, c2 q, hc q]
  rw [a1, a2]
  exact hperm.append_right _

/-- the last step of `SemanticState::build`: the extern values of every module -/
def finish (s1 : State) : BuildOutcome :=
  match Res.mapM' (xvStep s1.reg) s1.modules with
  | .ok ms => .ok { s1 with modules := ms }
  | .err m => .err m
  | .panic m => .panic m
  | .defer => .err "unreachable"

theorem build_eq (s : State) (prio : List Path) :
    s.build prio = (match resolveLoop prio (2 * (s.reg.types.filter fun e => !e.2.isResolved).length + 2) s with
      | .ok s1 => finish s1
      | other => other) := rfl

theorem resolveXVals_setDp (reg : Registry) (m : Mod) (dp : List Path) :
    resolveXVals reg { m with defPaths := dp } = (match resolveXVals reg m with
      | .ok m' => .ok { m' with defPaths := dp }
      | .defer => .defer
      | .err e => .err e
      | .panic e => .panic e) := by
  unfold resolveXVals
  have hsc : ({ m with defPaths := dp } : Mod).scope = m.scope := rfl
  simp only [hsc]
  cases Res.mapM' (fun (ev : XValue) =>
      match reg.resolveTy m.scope ev.gty with
      | .ok t => Res.ok { ev with ty := some t }
      | .defer => .err "failed to resolve type for extern value"
      | e => e.cast) m.xvals <;> rfl

theorem xvStep_setDp (reg : Registry) (e : Path × Mod) (dp : List Path) :
    xvStep reg (e.1, { e.2 with defPaths := dp }) = (match xvStep reg e with
      | .ok e' => .ok (e'.1, { e'.2 with defPaths := dp })
      | .defer => .defer
      | .err x => .err x
      | .panic x => .panic x) := by
  unfold xvStep
  simp only [resolveXVals_setDp]
  cases resolveXVals reg e.2 <;> rfl

theorem xvStep_key (reg : Registry) (e e' : Path × Mod) (h : xvStep reg e = .ok e') : e'.1 = e.1 :=
  (xvStep_inv reg e e' h).1

theorem mapM'_xv (reg : Registry) (f : Path → List Path) (l : List (Path × Mod)) :
    Res.mapM' (xvStep reg) (l.map fun e => (e.1, { e.2 with defPaths := f e.1 })) =
      (match Res.mapM' (xvStep reg) l with
      | .ok ms => .ok (ms.map fun e => (e.1, { e.2 with defPaths := f e.1 }))
      | .defer => .defer
      | .err m => .err m
      | .panic m => .panic m) := by
  induction l with
  | nil => rfl
  | cons a l ih =>
    simp only [List.map_cons]
    unfold Res.mapM'
    rw [xvStep_setDp, ih]
    cases ha : xvStep reg a with
    | ok a' =>
      simp only []
      have hk := xvStep_key reg a a' ha
      cases Res.mapM' (xvStep reg) l with
      | ok ms => simp only [List.map_cons, hk]
      | defer => rfl
      | err m => rfl
      | panic m => rfl
    | defer => rfl
    | err m => rfl
    | panic m => rfl

theorem xvStep_congr (r1 r2 : Registry) (h : ∀ q, r2.get q = r1.get q) : xvStep r2 = xvStep r1 := by
  funext e
  unfold xvStep resolveXVals
  have hc : ∀ p, r2.contains p = r1.contains p := by intro p; unfold Registry.contains; rw [h p]
  rw [Mono.resolveTy_fun r1 r2 hc]

theorem nodup_of_map {α β} (f : α → β) (l : List α) (h : (l.map f).Nodup) : l.Nodup := by
  induction l with
  | nil => exact List.nodup_nil
  | cons a l ih =>
    simp only [List.map_cons, List.nodup_cons] at h ⊢
    exact ⟨fun ha => h.1 (List.mem_map_of_mem ha), ih h.2⟩

/-- registries with duplicate-free keys and the same entries are permutations of each other -/
theorem types_perm (r1 r2 : Registry) (n1 : (C10.keys r1).Nodup) (n2 : (C10.keys r2).Nodup)
    (h : ∀ q, r1.get q = r2.get q) : r1.types.Perm r2.types := by
  rw [List.perm_ext_iff_of_nodup (nodup_of_map _ _ n1) (nodup_of_map _ _ n2)]
  intro e
  constructor
  · intro he
    have := lookup_of_mem r1.types n1 e.1 e.2 he
    exact C14.mem_of_lookup r2.types e.1 e.2 (by rw [← this]; exact (h e.1).symm)
  · intro he
    have := lookup_of_mem r2.types n2 e.1 e.2 he
    exact C14.mem_of_lookup r1.types e.1 e.2 (by rw [← this]; exact h e.1)

/-- **the last step agrees** on two states that represent the same total registry -/
theorem finish_agree {s0 : State} {R : Reg Path Resolved} {s1 s2 : State} (h1 : Rep s0 R s1)
    (h2 : Rep s0 R s2) (ht : Total s0 R) (n1 : (C10.keys s1.reg).Nodup) (n2 : (C10.keys s2.reg).Nodup) :
    sameVerdictV (finish s1) (finish s2) := by
  have hget := Rep.get_eq h1 h2 ht
  obtain ⟨f1, f2, hf1, hf2, hperm⟩ := h1.mods_eqv h2 hget
  unfold finish
  rw [xvStep_congr s1.reg s2.reg (fun q => (hget q).symm), hf1, hf2, mapM'_xv, mapM'_xv]
  cases hms : Res.mapM' (xvStep s1.reg) s0.modules with
  | ok ms =>
    refine ⟨hget, ?_, h1.ps.trans h2.ps.symm, types_perm _ _ n1 n2 hget⟩
    show ModsEqv (ms.map fun e => (e.1, ({ e.2 with defPaths := f1 e.1 } : Mod)))
      (ms.map fun e => (e.1, ({ e.2 with defPaths := f2 e.1 } : Mod)))
    apply modsEqv_map
    intro e he
    obtain ⟨e0, he0, hx⟩ := C19.mapM'_mem _ _ _ hms e he
    have hk := xvStep_key _ _ _ hx
    refine ⟨f2 e.1, rfl, ?_⟩
    rw [hk]
    exact hperm e0 he0
  | defer => trivial
  | err m => trivial
  | panic m => trivial

/-- two outcomes of the resolution loop agree -/
def AgreeV (s0 : State) : BuildOutcome → BuildOutcome → Prop
  | .ok s1, .ok s2 => ∃ R, Rep s0 R s1 ∧ Rep s0 R s2 ∧ Total s0 R ∧ (C10.keys s1.reg).Nodup ∧ (C10.keys s2.reg).Nodup
  | .nonterm l1, .nonterm l2 => l1.Perm l2
  | .err _, .err _ => True
  | .err _, .panic _ => True
  | .panic _, .err _ => True
  | .panic _, .panic _ => True
  | .fuel, _ => True
  | _, .fuel => True
  | _, _ => False

/-- **the resolution loop is independent of the priority**, with `vftable` blocks, when nothing mentions a
    generated name -/
theorem loops_agreeV {s0 : State} (cx : Ctx s0) (p1 p2 : List Path) (f1 f2 : Nat) :
    AgreeV s0 (resolveLoop p1 f1 s0) (resolveLoop p2 f2 s0) := by
  have hn : (C10.keys s0.reg).Nodup := cx.ok.ok.reg.keys
  have hm := attempt_monoV cx
  have h1 := resolveLoop_simV cx p1 f1 R0 Run.start s0 (Rep.init cx) hn
  have h2 := resolveLoop_simV cx p2 f2 R0 Run.start s0 (Rep.init cx) hn
  have unstuck : ∀ (prio : List Path) (R : Reg Path Resolved) (s : State) (l : List Path), Rep s0 R s →
      (C10.keys s.reg).Nodup → l = s.reg.unresolved prio → l ≠ [] → ∃ k, Pending s0 k ∧ R k = none := by
    intro prio R s l hrep hns hl hne
    obtain ⟨k, hk⟩ := nonempty_mem l hne
    rw [hl] at hk
    exact ⟨k, (hrep.mem_unresolved cx hns prio k).mp hk⟩
  generalize resolveLoop p1 f1 s0 = o1 at h1 ⊢
  generalize resolveLoop p2 f2 s0 = o2 at h2 ⊢
  have failCase : ∀ (o : BuildOutcome), LoopPostV s0 p2 o →
      (∃ R'' k, Run (attempt s0) R0 R'' ∧ R'' k = none ∧ attempt s0 R'' k = .fail) →
      (match o with | .ok _ => False | .nonterm _ => False | _ => True) := by
    intro o ho ⟨R1, k, r1, hk, hf⟩
    cases o with
    | ok s2 =>
      obtain ⟨R2, r2, _, _, t2⟩ := ho
      exact fail_total s0 hm r1 r2 k hk hf t2
    | nonterm l2 =>
      obtain ⟨R2, s2, r2, _, _, _, _, st2⟩ := ho
      exact fail_stuck s0 hm r1 r2 k hk hf st2
    | err m => trivial
    | panic m => trivial
    | fuel => trivial
  cases o1 with
  | ok s1 =>
    obtain ⟨R1, r1, rep1, n1, t1⟩ := h1
    cases o2 with
    | ok s2 =>
      obtain ⟨R2, r2, rep2, n2, t2⟩ := h2
      have e := total_total s0 hm r1 r2 t1 t2
      subst e
      exact ⟨R1, rep1, rep2, t1, n1, n2⟩
    | nonterm l2 =>
      obtain ⟨R2, s2, r2, rep2, n2, e2, ne2, st2⟩ := h2
      obtain ⟨k, hk, hR⟩ := unstuck p2 R2 s2 l2 rep2 n2 e2 ne2
      exact total_stuck s0 hm r1 r2 t1 st2 k hk hR
    | err m2 =>
      obtain ⟨R2, k, r2, hk, hf⟩ := h2
      exact fail_total s0 hm r2 r1 k hk hf t1
    | panic m2 =>
      obtain ⟨R2, k, r2, hk, hf⟩ := h2
      exact fail_total s0 hm r2 r1 k hk hf t1
    | fuel => trivial
  | nonterm l1 =>
    obtain ⟨R1, s1, r1, rep1, n1, e1, ne1, st1⟩ := h1
    cases o2 with
    | ok s2 =>
      obtain ⟨R2, r2, rep2, n2, t2⟩ := h2
      obtain ⟨k, hk, hR⟩ := unstuck p1 R1 s1 l1 rep1 n1 e1 ne1
      exact total_stuck s0 hm r2 r1 t2 st1 k hk hR
    | nonterm l2 =>
      obtain ⟨R2, s2, r2, rep2, n2, e2, ne2, st2⟩ := h2
      have e := stuck_stuck s0 hm r1 r2 st1 st2
      subst e
      show l1.Perm l2
      rw [e1, e2]
      rw [List.perm_ext_iff_of_nodup]
      · intro k
        rw [rep1.mem_unresolved cx n1 p1 k, rep2.mem_unresolved cx n2 p2 k]
      · rw [C10.unresolved_eq]
        exact (List.mergeSort_perm _ _).nodup_iff.mpr (C10.ulist_nodup _ n1)
      · rw [C10.unresolved_eq]
        exact (List.mergeSort_perm _ _).nodup_iff.mpr (C10.ulist_nodup _ n2)
    | err m2 =>
      obtain ⟨R2, k, r2, hk, hf⟩ := h2
      exact fail_stuck s0 hm r2 r1 k hk hf st1
    | panic m2 =>
      obtain ⟨R2, k, r2, hk, hf⟩ := h2
      exact fail_stuck s0 hm r2 r1 k hk hf st1
    | fuel => trivial
  | err m1 =>
    have := failCase o2 h2 h1
    cases o2 <;> first | trivial | exact this
  | panic m1 =>
    have := failCase o2 h2 h1
    cases o2 <;> first | trivial | exact this
  | fuel => trivial

/-! ## H. whole cases: the syntactic condition on the modules of a case -/

/-- the generated paths of the definitions of a module written under `path` -/
def modGenPaths (path : Path) (m : G.Module) : List Path :=
  m.defs.filterMap fun d =>
    match d.inner with
    | .type td => if hasVftBlock td then vftablePath (path ++ [d.name]) else none
    | .enum _ => none

/-- the generated paths of a case: `<path>::<T>Vftable` for every type `T` with a vftable block written in the module
    `path` -/
def caseGenPaths (c : Case) : List Path :=
  c.modules.flatMap fun me => match me with | .ast path _ m => modGenPaths path m | .text .. => []

/-- the paths of the items of a case: the predefined types, and the definitions and extern types of every module -/
def caseItemPaths (c : Case) : List Path :=
  predefinedTypes.map (fun nm => [nm.1]) ++ c.modules.flatMap fun me =>
    match me with
    | .ast path _ m => m.defs.map (fun d => path ++ [d.name]) ++ m.xtypes.map (fun xt => path ++ [xt.1])
    | .text .. => []

/-- the module written under `path` does not mention a path of `Gs`: its path and its `use`s are not in `Gs`, and no
    identifier of a type expression of its definitions and of the functions of its function blocks is the last segment
    of one (the types of its extern values are not restricted) -/
def ModNoGenRefs (Gs : List Path) (path : Path) (m : G.Module) : Prop :=
  path ∉ Gs ∧ (∀ u ∈ m.uses, u ∉ Gs) ∧
  (∀ d ∈ m.defs, ∀ nm ∈ itemIdents d, nm ∉ gnames Gs) ∧
  (∀ b ∈ m.impls, ∀ f ∈ b.fns, ∀ nm ∈ funcIdents f, nm ∉ gnames Gs)

/-- nothing written in the case mentions a generated name (syntactic, on the modules of the case): no generated
    path is the path of an item of the case, and no module mentions one (text modules are not looked at:
    `Case.initialState` rejects them) -/
structure CaseNoGenRefs (c : Case) : Prop where
  fresh : ∀ q ∈ caseGenPaths c, q ∉ caseItemPaths c
  mods : ∀ me ∈ c.modules, match me with
    | .ast path _ m => ModNoGenRefs (caseGenPaths c) path m
    | .text .. => True

theorem keys_addItem (P : List Path) (s s' : State) (i : ItemDef) (h : s.addItem i = .ok s')
    (hk : ∀ q, s.reg.contains q = true → q ∈ P) (hi : i.path ∈ P) : ∀ q, s'.reg.contains q = true → q ∈ P := by
  intro q hq
  rw [C14.addItem_reg s s' i h, C14.contains_add] at hq
  rcases hq with hq | hq
  · exact hk q hq
  · rw [hq]; exact hi

theorem keys_new (ps : Nat) (P : List Path) (hP : ∀ nm ∈ predefinedTypes, [nm.1] ∈ P) :
    ∀ q, (State.new ps).reg.contains q = true → q ∈ P := by
  rw [C02.new_eq]
  have : ∀ (l : List (String × Nat)) (s : State), (s.getModule []).isSome = true →
      (∀ nm ∈ l, [nm.1] ∈ P) → (∀ q, s.reg.contains q = true → q ∈ P) →
      ∀ q, (l.foldl C02.newStep s).reg.contains q = true → q ∈ P := by
    intro l
    induction l with
    | nil => intro s _ _ hs; exact hs
    | cons x l ih =>
      intro s hm hl hs
      obtain ⟨h1, h2⟩ := C02.newStep_spec s x hm
      refine ih _ h1 (fun nm hnm => hl nm (List.mem_cons_of_mem _ hnm)) ?_
      intro q hq
      rw [h2, C14.contains_add] at hq
      rcases hq with hq | hq
      · exact hs q hq
      · rw [hq]; exact hl x List.mem_cons_self
  refine this _ _ rfl hP ?_
  intro q hq
  simp [Registry.contains, Registry.get] at hq

theorem keys_addModule (P : List Path) (s s' : State) (m : G.Module) (path : Path)
    (h : s.addModule m path = .ok s') (hk : ∀ q, s.reg.contains q = true → q ∈ P)
    (hd : ∀ d ∈ m.defs, path ++ [d.name] ∈ P) (hx : ∀ xt ∈ m.xtypes, path ++ [xt.1] ∈ P) :
    ∀ q, s'.reg.contains q = true → q ∈ P := by
  obtain ⟨xvals, doc, s2, _, h1, h2⟩ := C14.addModule_inv s s' m path h
  have k2 := (C12.PO.foldlM_inv (S := fun _ => True) (fun t : State => ∀ q, t.reg.contains q = true → q ∈ P)
    (C14.defStep path) m.defs _ (show ∀ q, (s.putModule path (C14.newMod m path xvals doc)).reg.contains q = true → q ∈ P from hk)
    (fun b d hdm hb => ⟨fun _ _ => trivial, fun b' hb' => by
      obtain ⟨_, i, hi, ha⟩ := C14.defStep_spec path b d b' hb'
      exact keys_addItem P b b' i ha hb (by rw [hi]; exact hd d hdm)⟩)).2 s2 h1
  exact (C12.PO.foldlM_inv (S := fun _ => True) (fun t : State => ∀ q, t.reg.contains q = true → q ∈ P)
    (C14.xtypeStep path) m.xtypes _ k2
    (fun b xt hxm hb => ⟨fun _ _ => trivial, fun b' hb' => by
      obtain ⟨_, i, hi, ha⟩ := C14.xtypeStep_spec path b xt b' hb'
      exact keys_addItem P b b' i ha hb (by rw [hi]; exact hx xt hxm)⟩)).2 s' h2

/-- every key of the initial registry of a case is the path of an item of the case -/
theorem keys_initial (c : Case) (s : State) (h : c.initialState = .ok s) :
    ∀ q, s.reg.contains q = true → q ∈ caseItemPaths c := by
  unfold Case.initialState at h
  refine (C12.PO.foldlM_inv (S := fun _ => True)
    (fun t : State => ∀ q, t.reg.contains q = true → q ∈ caseItemPaths c) _ c.modules _
    (keys_new c.ps _ (fun nm hnm => List.mem_append.mpr (.inl (List.mem_map.mpr ⟨nm, hnm, rfl⟩)))) ?_).2 s h
  intro b me hme hb
  cases me with
  | ast path file m =>
    refine ⟨fun _ _ => trivial, fun b' hb' => keys_addModule _ b b' m path hb' hb ?_ ?_⟩
    · intro d hd
      refine List.mem_append.mpr (.inr (List.mem_flatMap.mpr ⟨_, hme, ?_⟩))
      exact List.mem_append.mpr (.inl (List.mem_map.mpr ⟨d, hd, rfl⟩))
    · intro xt hxt
      refine List.mem_append.mpr (.inr (List.mem_flatMap.mpr ⟨_, hme, ?_⟩))
      exact List.mem_append.mpr (.inr (List.mem_map.mpr ⟨xt, hxt, rfl⟩))
  | text f t => exact ⟨fun _ _ => trivial, fun _ h => by cases h⟩

theorem genPaths_ne_nil {s : State} {q : Path} (h : q ∈ genPaths s) : q ≠ [] := by
  unfold genPaths at h
  obtain ⟨e, _, he⟩ := List.mem_filterMap.mp h
  unfold genPathOf at he
  split at he
  · split at he
    · split at he
      · obtain ⟨nm, hnm⟩ := vftablePath_last he
        intro e'; rw [e'] at hnm; cases hnm
      · cases he
    · cases he
  · cases he

/-- **the syntactic condition on the modules gives the condition on the initial state** -/
theorem initial_noGenRefs (c : Case) (hps : c.ps = 4 ∨ c.ps = 8) (hb : C12.CaseBounded c) (hg : CaseNoGenRefs c)
    (s : State) (h : c.initialState = .ok s) : NoGenRefs s := by
  obtain ⟨hok, _, hmods, hgood⟩ := CaseLift2.initialState_J2 c hps hb s h
  have hkeys := keys_initial c s h
  -- every generated path of the state is a generated path of the case
  have hsub : ∀ q ∈ genPaths s, q ∈ caseGenPaths c := by
    intro q hq
    unfold genPaths at hq
    obtain ⟨e, he, hge⟩ := List.mem_filterMap.mp hq
    have hget : s.reg.get e.1 = some e.2 := lookup_of_mem s.reg.types hok.ok.reg.keys e.1 e.2 he
    unfold genPathOf at hge
    split at hge
    · next d hd =>
      obtain ⟨⟨path, file, m, hm, hdm, hp⟩, _⟩ := (hgood e.1 e.2 hget).1 d hd
      refine List.mem_flatMap.mpr ⟨_, hm, ?_⟩
      simp only []
      refine List.mem_filterMap.mpr ⟨d, hdm, ?_⟩
      rw [← hp]
      exact hge
    · cases hge
  have hnames : ∀ nm, nm ∉ gnames (caseGenPaths c) → nm ∉ genNames s := by
    intro nm hnm hx
    apply hnm
    unfold genNames at hx
    obtain ⟨q, hq, hl⟩ := List.mem_filterMap.mp hx
    exact List.mem_filterMap.mpr ⟨q, hsub q hq, hl⟩
  have hast : ∀ path file m, ModEnt.ast path file m ∈ c.modules → ModNoGenRefs (caseGenPaths c) path m :=
    fun path file m hm => hg.mods _ hm
  refine ⟨(CaseLift2.modInv_initial c s h).keys, ?_, ?_, ?_, ?_⟩
  · intro q hq
    cases hc : s.reg.contains q with
    | false => rfl
    | true => exact absurd (hkeys q hc) (hg.fresh q (hsub q hq))
  · intro e he u hu hug
    rcases (hmods e he).2 with ⟨_, hp, huses, _⟩ | ⟨file, m, hm, hp, huses, _⟩
    · simp only [Mod.scope, hp, huses, List.mem_singleton] at hu
      subst hu
      exact genPaths_ne_nil hug rfl
    · obtain ⟨h1, h2, _⟩ := hast _ _ _ hm
      simp only [Mod.scope, hp, huses, List.mem_cons] at hu
      rcases hu with rfl | hu
      · exact h1 (hsub _ hug)
      · exact h2 u hu (hsub _ hug)
  · intro e he d hd nm hnm
    have hget : s.reg.get e.1 = some e.2 := lookup_of_mem s.reg.types hok.ok.reg.keys e.1 e.2 he
    obtain ⟨⟨path, file, m, hm, hdm, _⟩, _⟩ := (hgood e.1 e.2 hget).1 d hd
    exact hnames nm ((hast _ _ _ hm).2.2.1 d hdm nm hnm)
  · intro e he b hbm f hf nm hnm
    obtain ⟨blk, ⟨file, m, hm, hblk⟩, hb'⟩ := (hmods e he).1.2 b hbm
    subst hb'
    exact hnames nm ((hast _ _ _ hm).2.2.2 blk hblk f hf nm hnm)

/-! ## I. the conditions are decidable -/

instance (Gs : List Path) (path : Path) (m : G.Module) : Decidable (ModNoGenRefs Gs path m) := by
  unfold ModNoGenRefs; infer_instance

instance (c : Case) (me : ModEnt) : Decidable (match me with
    | .ast path _ m => ModNoGenRefs (caseGenPaths c) path m
    | .text .. => True) := by
  cases me <;> simp only [] <;> infer_instance

/-- `CaseNoGenRefs` is decidable: bounded quantifiers over the lists of the case -/
instance (c : Case) : Decidable (CaseNoGenRefs c) :=
  decidable_of_iff ((∀ q ∈ caseGenPaths c, q ∉ caseItemPaths c) ∧
      (∀ me ∈ c.modules, match me with
        | .ast path _ m => ModNoGenRefs (caseGenPaths c) path m
        | .text .. => True))
    ⟨fun h => ⟨h.1, h.2⟩, fun h => ⟨h.fresh, h.mods⟩⟩

/-- the condition `NoGenRefs.defs` on one entry, without the unbounded quantifier -/
def DefClean (s : State) (st : IState) : Prop :=
  match st with
  | .unres d => ∀ nm ∈ itemIdents d, nm ∉ genNames s
  | .res _ => True

instance (s : State) (st : IState) : Decidable (DefClean s st) := by
  unfold DefClean
  cases st <;> simp only [] <;> infer_instance

/-- `NoGenRefs` is decidable: bounded quantifiers over the lists of the state -/
instance (s : State) : Decidable (NoGenRefs s) :=
  decidable_of_iff ((s.modules.map (·.1)).Nodup ∧ (∀ q ∈ genPaths s, s.reg.contains q = false) ∧
      (∀ e ∈ s.modules, ∀ u ∈ e.2.scope, u ∉ genPaths s) ∧
      (∀ e ∈ s.reg.types, DefClean s e.2.state) ∧
      (∀ e ∈ s.modules, ∀ b ∈ e.2.impls, ∀ f ∈ b.2.fns, ∀ nm ∈ funcIdents f, nm ∉ genNames s))
    ⟨fun ⟨h1, h2, h3, h4, h5⟩ =>
      ⟨h1, h2, h3, fun e he d hd => by have := h4 e he; rw [hd] at this; exact this, h5⟩,
     fun h => ⟨h.modKeys, h.fresh, h.scopes, fun e he => by
       unfold DefClean
       cases hs : e.2.state with
       | unres d => exact h.defs e he d hs
       | res r => trivial, h.impls⟩⟩

/-! ## J. no modelled allocation limit when the vftable blocks ask for small tables

The only `panic` outcome of a build from a state satisfying `C12.StateOkB` is the modelled allocation limit
(`C12.build_total_partial`), reached by `make_padding_functions` when a `#[index(N)]` of a vftable function or the
`#[size(N)]` of a vftable block exceeds `paddingLoopBound`.  When all these literals are at most `paddingLoopBound`
(`Small`) a build never panics, so that the two kinds of failure `sameVerdictV` identifies are never mixed. -/

/-- every integer literal of the attributes called `name` is at most `paddingLoopBound` -/
def AttrSmall (name : String) (attrs : List G.Attr) : Prop :=
  ∀ args z, G.Attr.fn name args ∈ attrs → G.Expr.int z ∈ args → z ≤ (paddingLoopBound : Int)

/-- the vftable block asks for at most `paddingLoopBound` slots -/
def StmtSmall (st : G.Stmt) : Prop :=
  match st.field with
  | .vftable fns => AttrSmall "size" st.attrs ∧ ∀ f ∈ fns, AttrSmall "index" f.attrs
  | .field .. => True

def ItemSmall (d : G.Item) : Prop :=
  match d.inner with
  | .type td => ∀ st ∈ td.stmts, StmtSmall st
  | .enum _ => True

/-- the unresolved definitions of the state ask for small tables -/
def Small (s : State) : Prop := ∀ p i d, s.reg.get p = some i → i.state = .unres d → ItemSmall d

theorem tryUsize_small (z : Int) (v : Nat) (h : tryUsize z = some v) (hz : z ≤ (paddingLoopBound : Int)) :
    v ≤ paddingLoopBound := by
  unfold tryUsize at h
  split at h
  · cases h; omega
  · cases h

theorem indexAttr_small (attrs : List G.Attr) (h : AttrSmall "index" attrs) (v : Nat)
    (hv : indexAttr attrs = .ok (some v)) : v ≤ paddingLoopBound := by
  unfold indexAttr at hv
  refine (C12.PO.foldlM_inv (S := fun _ => True) (fun acc : Option Nat => ∀ v, acc = some v → v ≤ paddingLoopBound)
    _ attrs none (fun v hv => by cases hv) ?_).2 (some v) hv v rfl
  intro b a ha hb
  refine ⟨fun _ _ => trivial, fun b' hb' => ?_⟩
  split at hb'
  · next i =>
    split at hb'
    · next w hw =>
      cases hb'
      intro v hv
      cases hv
      exact tryUsize_small i w hw (h _ i ha List.mem_cons_self)
    · cases hb'
  · cases hb'; exact hb

theorem vftableSizeAttr_small (attrs : List G.Attr) (h : AttrSmall "size" attrs) (v : Nat)
    (hv : vftableSizeAttr attrs = .ok (some v)) : v ≤ paddingLoopBound := by
  unfold vftableSizeAttr at hv
  refine (C12.PO.foldlM_inv (S := fun _ => True) (fun acc : Option Nat => ∀ v, acc = some v → v ≤ paddingLoopBound)
    _ attrs none (fun v hv => by cases hv) ?_).2 (some v) hv v rfl
  intro b a ha hb
  refine ⟨fun _ _ => trivial, fun b' hb' => ?_⟩
  split at hb'
  · next i =>
    split at hb'
    · next w hw =>
      cases hb'
      intro v hv
      cases hv
      exact tryUsize_small i w hw (h _ i ha List.mem_cons_self)
    · cases hb'
  · cases hb'; exact hb

theorem makePadding_np (out : List SFunc) (target : Nat) (h : target ≤ paddingLoopBound) :
    C12.PO C12.NoSite (makePadding out target) := by
  intro site hs
  have := (C12.makePadding_panic out target site hs).2
  omega

open C12 in
theorem slotStep_np (reg : Registry) (scope : List Path) (out : List SFunc) (f : G.Func)
    (h : reg.contains ["u8"] = true) (hf : AttrSmall "index" f.attrs) :
    PO NoSite (C04.slotStep reg scope out f) := by
  unfold C04.slotStep
  have hbf : ∀ out1 : List SFunc, PO NoSite (match buildFunction reg scope true f with
      | .ok sf => Res.ok (out1 ++ [sf])
      | e => e.cast) := by
    intro out1
    split
    · po_triv
    · next hne => exact PO.cast (buildFunction_np reg scope true f h) hne
  cases hidx : indexAttr f.attrs with
  | ok idx =>
    simp only []
    cases idx with
    | none => exact hbf out
    | some i =>
      simp only []
      by_cases hlt : i < out.length
      · simp only [hlt, if_true]; po_triv
      · simp only [hlt, if_false]
        cases hmp : makePadding out i with
        | ok out1 => exact hbf out1
        | defer => po_triv
        | err m => po_triv
        | panic m => exact (makePadding_np out i (indexAttr_small f.attrs hf i hidx) m hmp).elim
  | defer => po_triv
  | err m => po_triv
  | panic m => exact (indexAttr_np f.attrs m hidx).elim

open C12 in
theorem convertVfuncs_np (reg : Registry) (scope : List Path) (size : Option Nat) (fns : List G.Func)
    (h : reg.contains ["u8"] = true) (hsz : ∀ n, size = some n → n ≤ paddingLoopBound)
    (hf : ∀ f ∈ fns, AttrSmall "index" f.attrs) : PO NoSite (convertVfuncs reg scope size fns) := by
  rw [C04.convertVfuncs_eq]
  split
  · split
    · next n =>
      split
      · po_triv
      · exact makePadding_np _ _ (hsz n rfl)
    · po_triv
  · exact PO.foldlM _ _ _ (fun out f hfm => slotStep_np reg scope out f h (hf f hfm))

open C12 in
theorem stmtStep_np (reg : Registry) (scope : List Path) (acc : StmtAcc) (ist : Nat × G.Stmt)
    (h : reg.contains ["u8"] = true) (hsm : StmtSmall ist.2) : PO NoSite (stmtStep reg scope acc ist) := by
  obtain ⟨idx, st⟩ := ist
  unfold stmtStep
  unfold StmtSmall at hsm
  simp only [] at hsm ⊢
  split
  · split
    · po_triv
    · split
      · split
        · po_triv
        · split
          · split <;> split <;> po_triv
          · next hne => exact PO.cast (resolveTy_np reg scope _ h) hne
      · next hne => exact PO.cast (PO.foldlM _ _ _ (fun b a _ => fieldAttrStep_np b a)) hne
  · next fns hfield =>
    rw [hfield] at hsm
    split
    · po_triv
    · split
      · po_triv
      · split
        · next size hsize =>
          split
          · po_triv
          · next hne =>
            exact PO.cast (convertVfuncs_np reg scope _ _ h
              (fun n hn => by subst hn; exact vftableSizeAttr_small st.attrs hsm.1 n hsize) hsm.2) hne
        · next hne => exact PO.cast (vftableSizeAttr_np _) hne

/-- `type_definition::build` does not panic when its vftable block asks for a small table
    (`C12.buildType_shape` with the statement loop shown not to reach the allocation limit) -/
theorem buildType_np_small (s : State) (path : Path) (vis : Vis) (d : G.TypeDef) (hs : C12.StateOk s)
    (hsm : ∀ st ∈ d.stmts, StmtSmall st) : C12.PO C12.NoSite (buildType s path vis d).2 := by
  open C12 in
  unfold buildType
  split
  · po_triv
  · next module hmod =>
    split
    · po_triv
    · split
      · next ta hta =>
        have hstm := PO.foldlM_inv (S := NoSite) PendOk (stmtStep s.reg module.scope)
          (d.stmts.zipIdx.map fun p => (p.2, p.1)) {} (fun p hp => by cases hp)
          (fun acc ist hist hacc => ⟨stmtStep_np _ _ _ _ hs.u8c (by
              apply hsm
              have := List.mem_map_of_mem (f := (·.2)) hist
              rw [C01.zipIdx_swap_snd] at this
              exact this),
            fun acc' h => stmtStep_pend _ _ _ _ _ hacc h⟩)
        split
        · next sa hsa =>
          have hpend := hstm.2 sa hsa
          have sh := resolveRegions_shape s path vis ta.targetSize sa.pending sa.vfns hs hpend
          split
          · next s1 regions vft size placed hrr =>
            rw [hrr] at sh
            obtain ⟨vregion, hres, hname⟩ := C01.resolveRegions_inv _ _ _ _ _ _ _ _ _ _ _ hrr
            have hk : Keeps s s1 := sh.1
            have hreg := hk.ok.reg
            obtain ⟨hgood, hsum⟩ := resolve_good _ _ _ _ _ hres
              (by
                intro v hv s0 hs0
                cases vregion with
                | none => cases hv
                | some _ =>
                  simp only [Option.map_some, Option.some.injEq] at hv; subst hv
                  exact rty_good hreg _ s0 hs0)
              (by
                intro f hf s0 hs0
                obtain ⟨p, _, rfl⟩ := List.mem_map.mp hf
                exact rty_good hreg _ s0 hs0)
            simp only []
            split
            · next hnone =>
              obtain ⟨m', hm'⟩ := hk.mods path module hmod
              rw [hm'] at hnone; cases hnone
            · split
              · split
                · split
                  · split
                    · po_triv
                    · next hne => exact PO.cast (alignCheck_np _ _ _ _ _ hgood hsum) hne
                  · next hne =>
                    refine PO.cast ?_ (fun a ha => hne ha)
                    split
                    · exact checkDefaultable_np _ _
                    · po_triv
                · next hne => exact PO.cast (addImplFns_np _ _ _ _ hk.ok.u8c) hne
              · next hne => exact PO.cast (injectBases_np _ _ _ (nameRegions_named _ _ _ _ hname)) hne
          · next s1 e hne hrr =>
            rw [hrr] at sh
            exact PO.cast sh.2 (fun a ha => hne a.1 a.2.1 a.2.2.1 a.2.2.2 ha)
        · next hne => exact PO.cast hstm.1 hne
      · next hne => exact PO.cast (PO.foldlM _ _ _ (fun b a _ => typeAttrStep_np b a)) hne

theorem small_addItem (s s' : State) (i : ItemDef) (hs : Small s) (h : s.addItem i = .ok s')
    (hi : ∀ d, i.state = .unres d → ItemSmall d) : Small s' := by
  have hreg := C14.addItem_reg s s' i h
  intro p j d hj hd
  rw [hreg, C14.get_add] at hj
  by_cases hp : p = i.path
  · rw [if_pos hp] at hj; cases hj; exact hi d hd
  · rw [if_neg hp] at hj; exact hs p j d hj hd

theorem small_setState (s : State) (p : Path) (r : Resolved) (hs : Small s) :
    Small { s with reg := s.reg.setState p (.res r) } := by
  intro q j d hj hd
  simp only [C12.get_setState] at hj
  by_cases hp : q = p
  · rw [if_pos hp] at hj
    cases hg : s.reg.get q with
    | none => simp [hg] at hj
    | some j0 =>
      simp only [hg, Option.map_some, Option.some.injEq] at hj
      subst hj
      cases hd
  · rw [if_neg hp] at hj; exact hs q j d hj hd

theorem small_reach {s s1 : State} {owner : Path} (hs : Small s) (h : C10.Reach s s1 owner) : Small s1 := by
  rcases h with rfl | ⟨item, _, hres, _, ha⟩
  · exact hs
  · refine small_addItem s s1 item hs ha ?_
    intro d hd
    simp [ItemDef.isResolved, ItemDef.resolved?, hd] at hres

theorem attemptItem_small (s : State) (p : Path) (hs : Small s) : Small (attemptItem s p).1 := by
  unfold attemptItem
  split
  · exact hs
  · split
    · exact hs
    · next d _ =>
      split
      · next td _ =>
        have sh := small_reach hs (C10.buildType_reach s p d.vis td)
        split
        · next s1 r hb => rw [hb] at sh; exact small_setState s1 p r sh
        · next s1 hb => rw [hb] at sh; exact sh
        · next s1 m hb => rw [hb] at sh; exact sh
        · next s1 m hb => rw [hb] at sh; exact sh
      · split
        · next r _ => exact small_setState s p r hs
        · exact hs
        · exact hs
        · exact hs

theorem attemptItem_np (s : State) (p : Path) (hs : C12.StateOk s) (hsm : Small s) :
    C12.PO C12.NoSite (attemptItem s p).2 := by
  open C12 in
  unfold attemptItem
  split
  · po_triv
  · next item hget =>
    split
    · po_triv
    · next d hd =>
      have hsd := hsm p item d hget hd
      unfold ItemSmall at hsd
      split
      · next td htd =>
        rw [htd] at hsd
        have sh := buildType_np_small s p d.vis td hs hsd
        split
        · po_triv
        · po_triv
        · po_triv
        · next s1 m hb => rw [hb] at sh; exact sh.of_panic rfl
      · next ed _ =>
        have sh := buildEnum_po s p ed hs.u8c
        split
        · po_triv
        · po_triv
        · po_triv
        · next m hb => exact sh.of_panic hb

theorem runRound_np (l : List Path) (s : State) (hs : C12.StateOkB s) (hsm : Small s) :
    C12.StateOkB (runRound s l).1 ∧ Small (runRound s l).1 ∧ C12.PO C12.NoSite (runRound s l).2 := by
  induction l generalizing s with
  | nil => exact ⟨hs, hsm, C12.PO.ok _⟩
  | cons p ps ih =>
    have h1 := C12.attemptItem_ok s p hs
    have h2 := attemptItem_np s p hs.ok hsm
    have h3 := attemptItem_small s p hsm
    unfold runRound
    split
    · next s1 ha => rw [ha] at h1 h3; exact ih s1 h1 h3
    · next s1 e _ ha => rw [ha] at h1 h2 h3; exact ⟨h1, h3, h2⟩

theorem resolveLoop_np (prio : List Path) (fuel : Nat) (s : State) (hs : C12.StateOkB s) (hsm : Small s) (m : String) :
    resolveLoop prio fuel s ≠ .panic m := by
  induction fuel generalizing s with
  | zero => simp [resolveLoop]
  | succ n ih =>
    unfold resolveLoop
    simp only []
    split
    · intro h; cases h
    · have hr := runRound_np (s.reg.unresolved prio) s hs hsm
      split
      · next s1 h1 =>
        rw [h1] at hr
        split
        · intro h; cases h
        · exact ih s1 hr.1 hr.2.1
      · intro h; cases h
      · next s1 m' h1 =>
        rw [h1] at hr
        exact (hr.2.2 m' rfl).elim
      · intro h; cases h

/-- **no panic at all** from a state whose unresolved definitions ask for small tables -/
theorem build_np_small (s : State) (prio : List Path) (hs : C12.StateOkB s) (hsm : Small s) (m : String) :
    s.build prio ≠ .panic m := by
  have h1 := C12.resolveLoop_shape prio (2 * (s.reg.types.filter fun e => !e.2.isResolved).length + 2) s hs
  have h2 := resolveLoop_np prio (2 * (s.reg.types.filter fun e => !e.2.isResolved).length + 2) s hs hsm
  rw [build_eq]
  cases hx : resolveLoop prio (2 * (s.reg.types.filter fun e => !e.2.isResolved).length + 2) s with
  | ok s1 =>
    rw [hx] at h1
    simp only []
    unfold finish
    intro hf
    split at hf
    · cases hf
    · cases hf
    · next m' hm =>
      refine C12.PO.mapM' (S := C12.NoSite) _ _ ?_ m' hm
      intro e _
      unfold xvStep
      split
      · exact C12.PO.ok _
      · next hne => exact C12.PO.cast (C12.resolveXVals_np _ _ h1.ok.u8c) hne
    · cases hf
  | nonterm f => intro h; cases h
  | err m' => intro h; cases h
  | panic m' => exact absurd hx (h2 m')
  | fuel => intro h; cases h

/-- the vftable blocks written in the case ask for at most `paddingLoopBound` slots (syntactic) -/
def CaseSmall (c : Case) : Prop :=
  ∀ path file m, ModEnt.ast path file m ∈ c.modules → ∀ d ∈ m.defs, ItemSmall d

theorem initial_small (c : Case) (hps : c.ps = 4 ∨ c.ps = 8) (hb : C12.CaseBounded c) (hsm : CaseSmall c)
    (s : State) (h : c.initialState = .ok s) : Small s := by
  obtain ⟨_, _, _, hgood⟩ := CaseLift2.initialState_J2 c hps hb s h
  intro p i d hget hd
  obtain ⟨⟨path, file, m, hm, hdm, _⟩, _⟩ := (hgood p i hget).1 d hd
  exact hsm path file m hm d hdm

end PyxisVerif.C09
