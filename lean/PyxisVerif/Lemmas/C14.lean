import PyxisVerif.Spec.C14
/-! helper lemmas for C14 / C15 -/
namespace PyxisVerif.C14
open Gen

/-! ## association lists -/

theorem lookup_filter_ne {α β} [BEq α] [LawfulBEq α] (l : List (α × β)) (p q : α) (h : p ≠ q) :
    List.lookup p (l.filter (fun e => e.1 != q)) = List.lookup p l := by
  induction l with
  | nil => rfl
  | cons e l ih =>
    obtain ⟨k, v⟩ := e
    by_cases hk : k = q
    · subst hk
      have : (p == k) = false := by simpa using h
      simp [List.lookup_cons, this, ih]
    · have hk' : (k != q) = true := by simpa using hk
      simp only [List.filter_cons, hk', if_true, List.lookup_cons, ih]

theorem mem_of_lookup {α β} [BEq α] [LawfulBEq α] (l : List (α × β)) (p : α) (v : β)
    (h : List.lookup p l = some v) : (p, v) ∈ l := by
  induction l with
  | nil => simp at h
  | cons e l ih =>
    obtain ⟨k, w⟩ := e
    rw [List.lookup_cons] at h
    by_cases hk : p = k
    · subst hk; simp at h; subst h; exact List.mem_cons_self
    · have : (p == k) = false := by simpa using hk
      rw [this] at h
      exact List.mem_cons_of_mem _ (ih h)

theorem lookup_map_replace {α β} [BEq α] [LawfulBEq α] (l : List (α × β)) (p q : α) (v : β) :
    List.lookup p (l.map fun e => if e.1 == q then (e.1, v) else e)
      = if p == q then (List.lookup p l).map (fun _ => v) else List.lookup p l := by
  induction l with
  | nil => simp
  | cons e l ih =>
    obtain ⟨k, w⟩ := e
    by_cases hkq : k = q
    · subst hkq
      by_cases hp : p = k
      · subst hp; simp
      · have : (p == k) = false := by simpa using hp
        simp [List.lookup_cons, this, ih]
    · have hkq' : (k == q) = false := by simpa using hkq
      by_cases hp : p = k
      · subst hp; simp [hkq']
      · have : (p == k) = false := by simpa using hp
        simp [hkq', List.lookup_cons, this, ih]

/-! ## registry -/

theorem get_add (r : Registry) (i : ItemDef) (p : Path) :
    (r.add i).get p = if p = i.path then some i else r.get p := by
  unfold Registry.add Registry.get
  simp only [List.lookup_cons]
  by_cases h : p = i.path
  · subst h; simp
  · have : (p == i.path) = false := by simpa using h
    simp only [this, if_neg h]
    exact lookup_filter_ne _ _ _ h

theorem contains_add (r : Registry) (i : ItemDef) (p : Path) :
    (r.add i).contains p = true ↔ r.contains p = true ∨ p = i.path := by
  unfold Registry.contains
  rw [get_add]
  by_cases h : p = i.path <;> simp [h]

/-! ## `add_item` -/

theorem addItem_inv (s s' : State) (i : ItemDef) (h : s.addItem i = .ok s') :
    ∃ parent m, s.getModule parent = some m ∧
      s' = { modules := s.modules.map (fun e => if e.1 == parent then
                (e.1, { m with defPaths := if m.defPaths.contains i.path then m.defPaths else i.path :: m.defPaths }) else e),
             reg := s.reg.add i } := by
  unfold State.addItem at h
  split at h
  · cases h
  · next parent _ =>
    split at h
    · cases h
    · next m hm =>
      simp only [Res.ok.injEq] at h
      exact ⟨parent, m, hm, h.symm⟩

theorem addItem_reg (s s' : State) (i : ItemDef) (h : s.addItem i = .ok s') : s'.reg = s.reg.add i := by
  obtain ⟨_, _, _, rfl⟩ := addItem_inv s s' i h
  rfl

/-- `add_item` changes only the `defPaths` of stored modules -/
theorem addItem_getModule (s s' : State) (i : ItemDef) (h : s.addItem i = .ok s') (p : Path) (m : Mod)
    (hm : s.getModule p = some m) : ∃ dp, s'.getModule p = some { m with defPaths := dp } := by
  obtain ⟨parent, m0, hm0, rfl⟩ := addItem_inv s s' i h
  unfold State.getModule at *
  simp only [lookup_map_replace]
  by_cases hp : p = parent
  · subst hp
    rw [hm] at hm0; cases hm0
    simp [hm]
  · have : (p == parent) = false := by simpa using hp
    simp only [this, hm]
    exact ⟨m.defPaths, rfl⟩

theorem defPaths_nodup_main (s s' : State) (i : ItemDef) (h : s.addItem i = .ok s')
    (hn : ∀ e ∈ s.modules, e.2.defPaths.Nodup) : ∀ e ∈ s'.modules, e.2.defPaths.Nodup := by
  obtain ⟨parent, m0, hm0, rfl⟩ := addItem_inv s s' i h
  intro e he
  simp only [List.mem_map] at he
  obtain ⟨e0, he0, rfl⟩ := he
  split
  · have h0 := hn _ (mem_of_lookup _ _ _ hm0)
    simp only at h0 ⊢
    split
    · exact h0
    · next hc =>
      simp only [List.contains_eq_mem, decide_eq_true_eq] at hc
      exact List.nodup_cons.mpr ⟨hc, h0⟩
  · exact hn _ he0

/-! ## folds of `add_item` guarded by a "defined more than once" test -/

theorem cast_ne_ok {α β} (e : Res α) (b : β) (h : (e.cast : Res β) = .ok b) : False := by
  cases e <;> simp [Res.cast] at h

theorem foldlM_cons_ok {α β} (f : β → α → Res β) (b b' : β) (a : α) (as : List α)
    (h : Res.foldlM f b (a :: as) = .ok b') : ∃ b1, f b a = .ok b1 ∧ Res.foldlM f b1 as = .ok b' := by
  unfold Res.foldlM at h
  split at h
  · next b1 hb => exact ⟨b1, hb, h⟩
  · cases h
  · cases h
  · cases h

theorem fold_addItem {α} (f : State → α → Res State) (path : Path) (nm : α → String)
    (hf : ∀ s a s', f s a = .ok s' → s.reg.contains (path ++ [nm a]) = false ∧
      ∃ i, i.path = path ++ [nm a] ∧ s.addItem i = .ok s')
    (l : List α) (s s' : State) (h : Res.foldlM f s l = .ok s') :
    (∀ a ∈ l, s.reg.contains (path ++ [nm a]) = false) ∧ (l.map nm).Nodup ∧
    (∀ p, s'.reg.contains p = true ↔ s.reg.contains p = true ∨ ∃ a ∈ l, p = path ++ [nm a]) ∧
    (∀ p m, s.getModule p = some m → ∃ dp, s'.getModule p = some { m with defPaths := dp }) := by
  induction l generalizing s with
  | nil =>
    simp only [Res.foldlM, Res.ok.injEq] at h
    subst h
    refine ⟨by simp, by simp, by simp, fun p m hm => ⟨m.defPaths, hm⟩⟩
  | cons a as ih =>
    obtain ⟨s1, h1, h2⟩ := foldlM_cons_ok f s s' a as h
    obtain ⟨hnc, i, hip, hadd⟩ := hf s a s1 h1
    obtain ⟨ih1, ih2, ih3, ih4⟩ := ih s1 h2
    have hreg := addItem_reg s s1 i hadd
    have hc1 : ∀ p, s1.reg.contains p = true ↔ s.reg.contains p = true ∨ p = path ++ [nm a] := by
      intro p; rw [hreg, contains_add, hip]
    refine ⟨?_, ?_, ?_, ?_⟩
    · intro a' ha'
      rcases List.mem_cons.mp ha' with rfl | ha'
      · exact hnc
      · have := ih1 a' ha'
        cases hs : s.reg.contains (path ++ [nm a']) with
        | false => rfl
        | true => rw [(hc1 _).mpr (Or.inl hs)] at this; cases this
    · rw [List.map_cons, List.nodup_cons]
      refine ⟨?_, ih2⟩
      intro hmem
      obtain ⟨a', ha', hnm⟩ := List.mem_map.mp hmem
      have := ih1 a' ha'
      rw [hnm, (hc1 _).mpr (Or.inr rfl)] at this
      cases this
    · intro p
      rw [ih3, hc1]
      constructor
      · rintro ((h | h) | ⟨a', ha', h⟩)
        · exact Or.inl h
        · exact Or.inr ⟨a, List.mem_cons_self, h⟩
        · exact Or.inr ⟨a', List.mem_cons_of_mem _ ha', h⟩
      · rintro (hp | ⟨a', ha', hp⟩)
        · exact Or.inl (Or.inl hp)
        · rcases List.mem_cons.mp ha' with ha' | ha'
          · subst ha'; exact Or.inl (Or.inr hp)
          · exact Or.inr ⟨a', ha', hp⟩
    · intro p m hm
      obtain ⟨dp, hdp⟩ := addItem_getModule s s1 i hadd p m hm
      obtain ⟨dp', hdp'⟩ := ih4 p _ hdp
      exact ⟨dp', hdp'⟩

/-! ## `add_module` -/

/-- the step of the definitions loop -/
def defStep (path : Path) (s : State) (d : G.Item) : Res State :=
  if s.reg.contains (path ++ [d.name]) then .err "item is defined more than once"
  else s.addItem { vis := d.vis, path := path ++ [d.name], state := .unres d, cat := .defined }

/-- the step of the extern-types loop -/
def xtypeStep (path : Path) (s : State) (xt : String × List G.Attr) : Res State :=
  match Res.foldlM xtypeAttrStep {} xt.2 with
  | .ok xa =>
    match xa.size with
    | none => .err "failed to find `size` attribute for extern type"
    | some size =>
      match xa.align with
      | none => .err "failed to find `align` attribute for extern type"
      | some align =>
        if !Layout.isPow2 align then .err "alignment of extern type is not a power of two"
        else if s.reg.contains (path ++ [xt.1]) then .err "item is defined more than once"
        else
        s.addItem { vis := .pub, path := path ++ [xt.1],
                    state := .res { size, align, inner := .type {} }, cat := .extern }
  | e => e.cast

theorem defStep_spec (path : Path) (s : State) (d : G.Item) (s' : State) (h : defStep path s d = .ok s') :
    s.reg.contains (path ++ [d.name]) = false ∧ ∃ i, i.path = path ++ [d.name] ∧ s.addItem i = .ok s' := by
  unfold defStep at h
  split at h
  · cases h
  · next hc => exact ⟨by simpa using hc, _, rfl, h⟩

theorem xtypeStep_spec (path : Path) (s : State) (xt : String × List G.Attr) (s' : State)
    (h : xtypeStep path s xt = .ok s') :
    s.reg.contains (path ++ [xt.1]) = false ∧ ∃ i, i.path = path ++ [xt.1] ∧ s.addItem i = .ok s' := by
  unfold xtypeStep at h
  split at h
  · split at h
    · cases h
    · split at h
      · cases h
      · split at h
        · cases h
        · split at h
          · cases h
          · next hc => exact ⟨by simpa using hc, _, rfl, h⟩
  · exact (cast_ne_ok _ _ h).elim

/-- the extern-value conversion of `add_module` -/
def xvalStep (ev : G.XVal) : Res XValue :=
  match xvalAddress ev.attrs with
  | .ok none => Res.err "failed to find `address` attribute for extern value"
  | .ok (some a) => .ok ({ vis := ev.vis, name := ev.name, gty := ev.ty, ty := none, addr := a } : XValue)
  | e => e.cast

/-- the module `add_module` stores -/
def newMod (m : G.Module) (path : Path) (xvals : List XValue) (doc : Option String) : Mod :=
  { path, uses := m.uses, defPaths := [], xvals,
    impls := m.impls.map (fun f => (path ++ [f.name], f)),
    backends := m.backends.map (fun b => (b.name, { prologue := b.prologue, epilogue := b.epilogue })),
    doc }

theorem addModule_inv (s s' : State) (m : G.Module) (path : Path) (h : s.addModule m path = .ok s') :
    ∃ xvals doc s2, Res.mapM' xvalStep m.xvals = .ok xvals ∧
      Res.foldlM (defStep path) (s.putModule path (newMod m path xvals doc)) m.defs = .ok s2 ∧
      Res.foldlM (xtypeStep path) s2 m.xtypes = .ok s' := by
  unfold State.addModule at h
  split at h
  · next xvals hx =>
    split at h
    · cases h
    · next doc _ =>
      split at h
      · cases h
      · dsimp only at h
        split at h
        · next s2 h2 => exact ⟨xvals, doc, s2, hx, h2, h⟩
        · next e hne => exact (hne _ h).elim
  · exact (cast_ne_ok _ _ h).elim

theorem addModule_ok_nodup (s s' : State) (m : G.Module) (path : Path) (h : s.addModule m path = .ok s') :
    (declaredNames m).Nodup := by
  obtain ⟨xvals, doc, s2, _, h1, h2⟩ := addModule_inv s s' m path h
  obtain ⟨_, nd1, c1, _⟩ := fold_addItem (defStep path) path (·.name) (defStep_spec path) _ _ _ h1
  obtain ⟨f2, nd2, _, _⟩ := fold_addItem (xtypeStep path) path (·.1) (xtypeStep_spec path) _ _ _ h2
  unfold declaredNames
  rw [List.nodup_append]
  refine ⟨nd1, nd2, ?_⟩
  intro a ha b hb hab
  obtain ⟨d, hd, rfl⟩ := List.mem_map.mp ha
  obtain ⟨xt, hxt, rfl⟩ := List.mem_map.mp hb
  have hf := f2 xt hxt
  have ht : s2.reg.contains (path ++ [xt.1]) = true := (c1 _).mpr (Or.inr ⟨d, hd, by rw [hab]⟩)
  rw [ht] at hf
  cases hf

theorem duplicate_main (s : State) (m : G.Module) (path : Path)
    (h : ¬ (declaredNames m).Nodup) : (s.addModule m path).isOk = false := by
  cases hr : s.addModule m path with
  | ok s' => exact absurd (addModule_ok_nodup s s' m path hr) h
  | _ => rfl

/-! ## the emitter -/

theorem files_length (s : State) :
    (Emit.files s).length = (s.modules.filter fun e => !e.1.isEmpty).length := by
  simp [Emit.files, Emit.sortBy, List.length_mergeSort]

theorem files_mem (s : State) (f : Sexp) (hf : f ∈ Emit.files s) :
    ∃ e ∈ s.modules, e.1 ≠ [] ∧ f = Emit.moduleFile s e.1 e.2 := by
  simp only [Emit.files, Emit.sortBy, List.mem_map, List.mem_mergeSort, List.mem_filter] at hf
  obtain ⟨e, ⟨he, hne⟩, rfl⟩ := hf
  refine ⟨e, he, ?_, rfl⟩
  intro h; simp [h] at hne

theorem relFile_eq (key : Path) : Emit.relFile key = specFile key := rfl

theorem backendsFor_mem (m : Mod) (name : String) (b : SBackend) (h : b ∈ m.backendsFor name) :
    (name, b) ∈ m.backends := by
  simp only [Mod.backendsFor, List.mem_map, List.mem_filter, beq_iff_eq] at h
  obtain ⟨⟨n, b'⟩, ⟨hm, hn⟩, rfl⟩ := h
  simp only at hn
  subst hn; exact hm

theorem itemItems_not_defined (reg : Registry) (i : ItemDef) (h : i.cat ≠ .defined) :
    Emit.itemItems reg i = [] := by
  unfold Emit.itemItems
  split
  · next h1 _ => exact absurd h1 h
  · rfl

/-! ## generated vftable structs -/

theorem vftable_item_path_main (reg : Registry) (owner : Path) (vis : Vis) (fns : List SFunc) (item : ItemDef)
    (h : buildVftableItem reg owner vis fns = some item) :
    ∃ name, owner.getLast? = some name ∧ item.path = owner.dropLast ++ [name ++ "Vftable"] ∧ item.cat = .defined := by
  unfold buildVftableItem vftablePath at h
  cases hl : owner.getLast? with
  | none => simp [hl] at h
  | some name =>
    cases hp : Path.parent? owner with
    | none => simp [hl, hp] at h
    | some parent =>
      simp only [hl, hp, Option.map_some, Option.some.injEq] at h
      subst h
      refine ⟨name, rfl, ?_, rfl⟩
      unfold Path.parent? at hp
      split at hp
      · cases hp
      · cases hp; rfl

theorem vftable_clash_main (s : State) (owner : Path) (vis : Vis) (fb : Option Region) (fns : List SFunc)
    (item : ItemDef) (existing : ItemDef)
    (hi : buildVftableItem s.reg owner vis fns = some item)
    (he : s.reg.get item.path = some existing) (hne : existing ≠ item) :
    ∃ msg, (buildVftable s owner vis fb (some fns)).2 = .err msg := by
  unfold buildVftable
  simp only [hi, he]
  rw [if_pos (by simpa using hne)]
  exact ⟨_, rfl⟩

end PyxisVerif.C14
