import PyxisVerif.Spec.C02
import PyxisVerif.Spec.C08
import PyxisVerif.Lemmas.C01
/-! helper lemmas for C02 -/
namespace PyxisVerif.C02
open Layout Gen

/-! ## embedding -/

theorem embedding_lem (reg : Registry) (t : DTy) (s a : Nat)
    (hs : t.size reg = .ok (some s)) (ha : t.align reg = some a) :
    tyLayout reg.ps (regLayout reg) t = some (s, a) := by
  induction t generalizing s with
  | raw p =>
    simp only [DTy.size, DTy.align, Res.ok.injEq] at hs ha
    simp only [tyLayout, regLayout]
    cases hg : reg.get p with
    | none => simp [hg] at hs
    | some i =>
      simp only [hg, Option.bind_some] at hs ha ⊢
      cases hr : i.resolved? with
      | none => simp [hr] at hs
      | some r =>
        simp only [hr, Option.map_some, Option.some.injEq] at hs ha ⊢
        simp [hs, ha]
  | cptr t _ =>
    simp only [DTy.size, DTy.align, Res.ok.injEq, Option.some.injEq] at hs ha
    subst hs; subst ha
    simp [tyLayout]
  | mptr t _ =>
    simp only [DTy.size, DTy.align, Res.ok.injEq, Option.some.injEq] at hs ha
    subst hs; subst ha
    simp [tyLayout]
  | arr t n ih =>
    simp only [DTy.size, DTy.align] at hs ha
    split at hs
    · rename_i s' hs'
      split at hs
      · simp only [Res.ok.injEq, Option.some.injEq] at hs
        simp [tyLayout, ih s' hs' ha, hs]
      · cases hs
    · rename_i hne
      exact absurd hs (hne s)

/-! ## structs -/

theorem struct_sound_lem {β} (ps : Nat) (packed : Bool) (align? : Option Nat)
    (vptr : Option (PField β)) (fields : List (PField β)) (target : Option Nat)
    (placed : List (Placed β)) (size a : Nat)
    (h : resolve vptr fields target = .ok (placed, size))
    (ha : alignCheck ps packed align? placed size = .ok a) :
    RustSem.structSize packed (if packed then none else some a) (placed.map C01.toFld) = size
    ∧ RustSem.structAlign packed (if packed then none else some a) (placed.map C01.toFld) = a
    ∧ (∀ n, target = some n → size = n)
    ∧ (∀ n, align? = some n → a = n)
    ∧ (packed = true → a = 1) := by
  have hsz := (C01.resolve_spec vptr fields target placed size h).2
  obtain ⟨_, r2, r3⟩ := C01.rustc_offsets_lem ps packed align? placed size a hsz ha
  obtain ⟨_, _, _, _, _, _, _, _, htgt⟩ := C01.resolve_inv vptr fields target placed size h
  refine ⟨r2, r3, htgt, ?_, ?_⟩
  · intro n hn
    subst hn
    cases packed with
    | true =>
      have := (C01.alignCheck_packed_inv ps _ placed size a ha).2
      cases this
    | false =>
      have := (C01.alignCheck_unpacked_inv ps _ placed size a ha).1
      rw [this]; rfl
  · intro hp
    subst hp
    exact (C01.alignCheck_packed_inv ps _ placed size a ha).1

/-! ## provenance of the placed regions -/

/-- every source region of `rs` satisfies `R` with its recorded size and alignment -/
def AllSrc {β} (R : β → Nat → Option Nat → Prop) (rs : List (Placed β)) : Prop :=
  ∀ pl ∈ rs, ∀ v, pl.src = some v → R v pl.size pl.align

def FieldOK {β} (R : β → Nat → Option Nat → Prop) (f : PField β) : Prop :=
  ∀ s, f.size = .ok (some s) → R f.val s f.align

theorem allSrc_nil {β} (R : β → Nat → Option Nat → Prop) : AllSrc R [] := by
  intro pl h; cases h

theorem push_allSrc {β} (R : β → Nat → Option Nat → Prop) (st st' : St β) (sz : Res (Option Nat))
    (al : Option Nat) (arr : Bool) (src : Option β) (h : push st sz al arr src = .ok st')
    (hinv : AllSrc R st.1) (hnew : ∀ v s, src = some v → sz = .ok (some s) → R v s al) :
    AllSrc R st'.1 := by
  obtain ⟨s, hs, rfl⟩ := C01.push_ok_inv _ _ _ _ _ _ h
  intro pl hpl v hv
  rcases List.mem_append.mp hpl with hpl | hpl
  · exact hinv pl hpl v hv
  · unfold C01.reg at hpl
    split at hpl
    · cases hpl
    · simp only [List.mem_singleton] at hpl
      subst hpl
      exact hnew v s hv hs

theorem pushField_allSrc {β} (R : β → Nat → Option Nat → Prop) (st st' : St β) (f : PField β)
    (h : pushField st f = .ok st') (hinv : AllSrc R st.1) (hf : FieldOK R f) : AllSrc R st'.1 := by
  unfold pushField at h
  refine push_allSrc R st st' _ _ _ _ h hinv ?_
  intro v s hv hs
  cases hv
  exact hf s hs

theorem pushPad_allSrc {β} (R : β → Nat → Option Nat → Prop) (st st' : St β) (n : Nat)
    (h : pushPad st n = .ok st') (hinv : AllSrc R st.1) : AllSrc R st'.1 := by
  unfold pushPad at h
  refine push_allSrc R st st' _ _ _ _ h hinv ?_
  intro v s hv
  cases hv

theorem place_allSrc {β} (R : β → Nat → Option Nat → Prop) (st st' : St β) (fields : List (PField β))
    (h : place st fields = .ok st') (hinv : AllSrc R st.1) (hf : ∀ f ∈ fields, FieldOK R f) :
    AllSrc R st'.1 := by
  induction fields generalizing st with
  | nil => simp only [place] at h; cases h; exact hinv
  | cons f fs ih =>
    have hfs : ∀ g ∈ fs, FieldOK R g := fun g hg => hf g (by simp [hg])
    rcases C01.place_cons_inv st st' f fs h with ⟨_, st2, h2, h3⟩ | ⟨a, _, _, st1, st2, h1, h2, h3⟩
    · exact ih st2 h3 (pushField_allSrc R st st2 f h2 hinv (hf f (by simp))) hfs
    · exact ih st2 h3 (pushField_allSrc R st1 st2 f h2 (pushPad_allSrc R st st1 _ h1 hinv)
        (hf f (by simp))) hfs

theorem padTail_allSrc {β} (R : β → Nat → Option Nat → Prop) (st st' : St β) (target : Option Nat)
    (h : padTail st target = .ok st') (hinv : AllSrc R st.1) : AllSrc R st'.1 := by
  unfold padTail at h
  split at h
  · split at h
    · exact pushPad_allSrc R st st' _ h hinv
    · cases h; exact hinv
  · cases h; exact hinv

theorem resolve_allSrc {β} (R : β → Nat → Option Nat → Prop) (vptr : Option (PField β))
    (fields : List (PField β)) (target : Option Nat) (placed : List (Placed β)) (size : Nat)
    (h : resolve vptr fields target = .ok (placed, size))
    (hv : ∀ v, vptr = some v → FieldOK R v) (hf : ∀ f ∈ fields, FieldOK R f) : AllSrc R placed := by
  obtain ⟨st0, st1, st2, h0, h1, h2, rfl, _, _⟩ := C01.resolve_inv vptr fields target placed size h
  have i0 : AllSrc R st0.1 := by
    cases vptr with
    | none => cases h0; exact allSrc_nil R
    | some v => exact pushField_allSrc R ([], 0) st0 v h0 (allSrc_nil R) (hv v rfl)
  exact padTail_allSrc R st1 st2 target h2 (place_allSrc R st0 st1 fields h1 i0 hf)

theorem placed_layouts_lem (reg : Registry) (vptr : Option Region) (pending : List (Option Nat × Region))
    (target : Option Nat) (placed : List (Placed Region)) (size : Nat)
    (h : resolve (vptr.map (toPField reg none)) (pending.map fun p => toPField reg p.1 p.2) target = .ok (placed, size)) :
    ∀ pl ∈ placed, ∀ r, pl.src = some r → r.ty.size reg = .ok (some pl.size) ∧ r.ty.align reg = pl.align := by
  refine resolve_allSrc (fun r s al => r.ty.size reg = .ok (some s) ∧ r.ty.align reg = al) _ _ _ _ _ h ?_ ?_
  · intro v hv s hs
    cases vptr with
    | none => cases hv
    | some r =>
      simp only [Option.map_some, Option.some.injEq] at hv
      subst hv
      exact ⟨hs, rfl⟩
  · intro f hf s hs
    obtain ⟨p, _, rfl⟩ := List.mem_map.mp hf
    exact ⟨hs, rfl⟩

/-! ## vftable structs -/

theorem endOf_replicate (ps n o : Nat) (hps : 0 < ps) (ho : o % ps = 0) :
    RustSem.endOf false o (List.replicate n ⟨ps, ps⟩) = o + n * ps := by
  induction n generalizing o with
  | zero => simp [RustSem.endOf]
  | succ n ih =>
    simp only [List.replicate_succ, RustSem.endOf, Bool.false_eq_true, if_false]
    rw [C01.alignUp_of_dvd o ps (by omega) ho, ih (o + ps) (by simp [ho])]
    rw [Nat.add_mul]; omega

theorem maxAlign_replicate (ps n : Nat) (hps : 0 < ps) :
    RustSem.maxAlign (List.replicate n ⟨ps, ps⟩) ≤ ps := by
  unfold RustSem.maxAlign
  apply C01.foldl_max_le _ _ _ hps
  intro f hf
  rw [(List.mem_replicate.mp hf).2]
  exact Nat.le_refl _

theorem vftable_sound_lem (ps n : Nat) (hps : 0 < ps) :
    RustSem.structSize false (some ps) (List.replicate n ⟨ps, ps⟩) = n * ps
    ∧ RustSem.structAlign false (some ps) (List.replicate n ⟨ps, ps⟩) = ps := by
  have hsa : RustSem.structAlign false (some ps) (List.replicate n ⟨ps, ps⟩) = ps := by
    have := maxAlign_replicate ps n hps
    simp only [RustSem.structAlign, Bool.false_eq_true, if_false, Option.getD_some]
    omega
  refine ⟨?_, hsa⟩
  unfold RustSem.structSize
  rw [hsa, endOf_replicate ps n 0 hps (by simp), Nat.zero_add]
  exact C01.alignUp_of_dvd _ ps (by omega) (by simp)

/-! ## the predefined types in a fresh state -/

def predefItem (nm : String × Nat) : ItemDef :=
  { vis := G.Vis.pub, path := [nm.1],
    state := IState.res { size := nm.2, align := predefinedAlign nm.2,
                          inner := SInner.type { cloneable := true, copyable := true, defaultable := true } },
    cat := Cat.predefined }

/-- the step of the fold in `State.new` -/
def newStep (s : State) (nm : String × Nat) : State :=
  match s.addItem (predefItem nm) with
  | .ok s' => s'
  | _ => s

theorem new_eq (ps : Nat) :
    State.new ps = predefinedTypes.foldl newStep { modules := [([], ({} : Mod))], reg := { ps := ps } } := rfl

theorem lookup_map_upd {α} (p : Path) (m' : α) (l : List (Path × α)) :
    (l.map fun e => if e.1 == p then (e.1, m') else e).lookup p = (l.lookup p).map fun _ => m' := by
  induction l with
  | nil => rfl
  | cons x l ih =>
    obtain ⟨q, m⟩ := x
    by_cases c : q = p
    · subst c
      simp
    · have c' : (p == q) = false := by simp [Ne.symm c]
      have c'' : (q == p) = false := by simp [c]
      simp only [List.map_cons, c'', Bool.false_eq_true, if_false, List.lookup_cons, c', ih]

theorem lookup_filter_ne {α} (p q : Path) (hne : p ≠ q) (l : List (Path × α)) :
    (l.filter fun e => e.1 != q).lookup p = l.lookup p := by
  induction l with
  | nil => rfl
  | cons x l ih =>
    obtain ⟨k, m⟩ := x
    by_cases c : k = q
    · subst c
      have c' : (p == k) = false := by simp [hne]
      simp [List.lookup_cons, c', ih]
    · have c' : (k != q) = true := by simp [c]
      simp only [List.filter_cons, c', if_true, List.lookup_cons, ih]

theorem get_add_same (r : Registry) (i : ItemDef) : (r.add i).get i.path = some i := by
  simp [Registry.add, Registry.get]

theorem get_add_ne (r : Registry) (i : ItemDef) (p : Path) (hne : p ≠ i.path) :
    (r.add i).get p = r.get p := by
  have c' : (p == i.path) = false := by simp [hne]
  simp only [Registry.add, Registry.get, List.lookup_cons, c']
  exact lookup_filter_ne p i.path hne r.types

theorem newStep_spec (s : State) (nm : String × Nat) (hm : (s.getModule []).isSome = true) :
    ((newStep s nm).getModule []).isSome = true ∧ (newStep s nm).reg = s.reg.add (predefItem nm) := by
  obtain ⟨m, hm'⟩ := Option.isSome_iff_exists.mp hm
  have hp : Path.parent? (predefItem nm).path = some [] := by
    simp [predefItem, Path.parent?]
  unfold newStep State.addItem
  simp only [hp, hm', and_true]
  unfold State.getModule at hm' ⊢
  simp only [lookup_map_upd, hm', Option.map_some, Option.isSome_some]

theorem fold_get_ne (l : List (String × Nat)) (s : State) (hm : (s.getModule []).isSome = true)
    (n : String) (hn : ∀ nm ∈ l, nm.1 ≠ n) :
    (l.foldl newStep s).reg.get [n] = s.reg.get [n] := by
  induction l generalizing s with
  | nil => rfl
  | cons x l ih =>
    obtain ⟨h1, h2⟩ := newStep_spec s x hm
    simp only [List.foldl_cons]
    rw [ih (newStep s x) h1 (fun nm hnm => hn nm (by simp [hnm])), h2]
    apply get_add_ne
    have := hn x (by simp)
    simp only [predefItem, ne_eq, List.cons.injEq, and_true]
    exact fun h => this h.symm

theorem fold_get (l : List (String × Nat)) (s : State) (hm : (s.getModule []).isSome = true)
    (nm : String × Nat) (hmem : nm ∈ l) (hnd : (l.map (·.1)).Nodup) :
    (l.foldl newStep s).reg.get [nm.1] = some (predefItem nm) := by
  induction l generalizing s with
  | nil => cases hmem
  | cons x l ih =>
    obtain ⟨h1, h2⟩ := newStep_spec s x hm
    simp only [List.map_cons, List.nodup_cons] at hnd
    simp only [List.foldl_cons]
    rcases List.mem_cons.mp hmem with rfl | hmem
    · rw [fold_get_ne l _ h1 nm.1 ?_, h2]
      · exact get_add_same s.reg (predefItem nm)
      · intro y hy hc
        exact hnd.1 (List.mem_map.mpr ⟨y, hy, hc⟩)
    · exact ih (newStep s x) h1 hmem hnd.2

theorem new_get (ps : Nat) (nm : String × Nat) (hmem : nm ∈ predefinedTypes) :
    (State.new ps).reg.get [nm.1] = some (predefItem nm) := by
  rw [new_eq]
  exact fold_get predefinedTypes _ rfl nm hmem (by decide)

/-! ## enums -/

theorem intTypeRange_inv (ty : DTy) (r : Int × Int) (h : intTypeRange ty = some r) :
    ∃ name, ty = .raw [name] ∧ name ∈ C08.intTypes.map (·.1) := by
  unfold intTypeRange at h
  split at h
  · rename_i name
    refine ⟨name, rfl, ?_⟩
    apply Classical.byContradiction
    intro hn
    simp only [C08.intTypes, List.map_cons, List.map_nil, List.mem_cons, List.not_mem_nil, or_false,
      not_or] at hn
    simp [hn] at h
  · cases h

theorem int_layout (name : String) (hname : name ∈ C08.intTypes.map (·.1)) :
    ∃ sz, (name, sz) ∈ predefinedTypes ∧ (name, sz, predefinedAlign sz) ∈ primLayout := by
  simp only [C08.intTypes, List.map_cons, List.map_nil, List.mem_cons, List.not_mem_nil, or_false] at hname
  rcases hname with rfl | rfl | rfl | rfl | rfl | rfl | rfl | rfl | rfl | rfl
  · exact ⟨1, by decide, by decide⟩
  · exact ⟨2, by decide, by decide⟩
  · exact ⟨4, by decide, by decide⟩
  · exact ⟨8, by decide, by decide⟩
  · exact ⟨16, by decide, by decide⟩
  · exact ⟨1, by decide, by decide⟩
  · exact ⟨2, by decide, by decide⟩
  · exact ⟨4, by decide, by decide⟩
  · exact ⟨8, by decide, by decide⟩
  · exact ⟨16, by decide, by decide⟩

theorem buildEnum_inv (s : State) (p : Path) (d : G.EnumDef) (r : Resolved)
    (h : buildEnum s p d = .ok r) :
    ∃ ed range, r.inner = .enum ed ∧ ed.ty.size s.reg = .ok (some r.size) ∧
      intTypeRange ed.ty = some range ∧ ed.ty.align s.reg = some r.align := by
  unfold buildEnum at h
  split at h
  · cases h
  · split at h
    · rename_i ty hty
      split at h
      · cases h
      · rename_i size hsize
        split at h
        · cases h
        · rename_i range hrange
          split at h
          · cases h
          · split at h
            · split at h
              · cases h
              · split at h
                · split at h
                  · cases h
                  · split at h
                    · cases h
                    · split at h
                      · cases h
                      · rename_i al hal
                        cases h
                        exact ⟨_, range, rfl, hsize, hrange, hal⟩
                · exact absurd h (C01.cast_ne_ok _ _)
            · exact absurd h (C01.cast_ne_ok _ _)
      · exact absurd h (C01.cast_ne_ok _ _)
    · exact absurd h (C01.cast_ne_ok _ _)

theorem enum_sound_lem (s : State) (p : Path) (d : G.EnumDef) (r : Resolved)
    (hreg : ∀ e ∈ C08.intTypes, s.reg.get [e.1] = (State.new s.reg.ps).reg.get [e.1])
    (h : buildEnum s p d = .ok r) :
    ∃ ed name, r.inner = .enum ed ∧ ed.ty = .raw [name] ∧ (name, r.size, r.align) ∈ primLayout := by
  obtain ⟨ed, range, hin, hsize, hrange, hal⟩ := buildEnum_inv s p d r h
  obtain ⟨name, hty, hname⟩ := intTypeRange_inv ed.ty range hrange
  obtain ⟨sz, hpre, hprim⟩ := int_layout name hname
  obtain ⟨e, he, rfl⟩ := List.mem_map.mp hname
  have hget : s.reg.get [e.1] = some (predefItem (e.1, sz)) := by
    rw [hreg e he]
    exact new_get s.reg.ps (e.1, sz) hpre
  refine ⟨ed, e.1, hin, hty, ?_⟩
  rw [hty] at hsize hal
  simp only [DTy.size, DTy.align, hget, Option.bind_some, ItemDef.resolved?, predefItem,
    Option.map_some, Res.ok.injEq, Option.some.injEq] at hsize hal
  rw [← hsize, ← hal]
  exact hprim

/-! ## emission -/

theorem size_check_lem (reg : Registry) (path : Path) (size align : Nat) (vis : Vis) (td : TypeDefn)
    (h : size > 0) :
    Sexp.mk "sizecheck" [.str (fmtSizeCheck (path.getLast?.getD "")), .str (path.getLast?.getD ""), .int size]
        ∈ Emit.typeItems reg path size align vis td := by
  unfold Emit.typeItems
  simp only [h, if_true]
  simp

end PyxisVerif.C02
