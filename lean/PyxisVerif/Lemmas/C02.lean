import PyxisVerif.Spec.C02
import PyxisVerif.Lemmas.C01
/-! helper lemmas for C02 -/
namespace PyxisVerif.C02
open Layout
end PyxisVerif.C02
