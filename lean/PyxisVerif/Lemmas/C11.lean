import PyxisVerif.Spec.C11
/-! helper lemmas for C11 -/
namespace PyxisVerif.C11

theorem find_rev_eq_getLast_filter {α} (l : List α) (p : α → Bool) :
    l.reverse.find? p = (l.filter p).getLast? := by
  induction l with
  | nil => rfl
  | cons a l ih =>
    simp only [List.reverse_cons, List.find?_append, ih, List.filter_cons]
    by_cases h : p a = true
    · simp only [h, if_true, List.find?_cons_of_pos]
      cases hl : (l.filter p).getLast? with
      | none =>
        have : l.filter p = [] := by simpa [List.getLast?_eq_none_iff] using hl
        simp [this]
      | some x =>
        simp [List.getLast?_cons, hl]
    · simp only [h, Bool.false_eq_true, if_false]
      simp [List.find?_cons_of_neg, h]

theorem resolve_spec (r : Registry) (own : Path) (uses : List Path) (name : String)
    (hown : r.contains own = false) :
    r.resolveString (own :: uses) name = (specBinding r own uses name).map DTy.raw := by
  unfold Registry.resolveString specBinding
  simp only [List.filter_cons, hown, Bool.false_eq_true, if_false, Bool.not_false, if_true]
  rw [find_rev_eq_getLast_filter]
  generalize ((uses.filter r.contains).filter fun p => p.getLast? == some name).getLast? = q
  cases q with
  | some p => rfl
  | none =>
    simp only [List.map_cons, List.nil_append, List.find?_cons]
    cases r.contains [name] <;> simp
    cases r.contains (own ++ [name]) <;> simp
    cases (List.find? (fun a => !r.contains a && r.contains (a ++ [name])) uses) <;> rfl

/-- the counterexample registry: a type `a::b` and a type `a::b::b` -/
def cexReg : Registry :=
  let mk (p : Path) : ItemDef := { vis := .pub, path := p, state := .res { size := 1, align := 1, inner := .type {} }, cat := .defined }
  (({ ps := 4 } : Registry).add (mk ["a", "b"])).add (mk ["a", "b", "b"])

theorem cex : cexReg.resolveString (["a", "b"] :: []) "b" ≠ (specBinding cexReg ["a", "b"] [] "b").map DTy.raw := by
  decide

theorem find?_contains {α} (p : α → Bool) (l : List α) (x : α) (h : l.find? p = some x) : p x = true :=
  List.find?_some h

theorem binding_exists_aux (r : Registry) (own : Path) (uses : List Path) (name : String) (p : Path)
    (h : specBinding r own uses name = some p) : r.contains p = true := by
  unfold specBinding at h
  simp only at h
  split at h
  · rename_i q hq
    cases h
    have hm := List.mem_of_getLast? hq
    have := (List.mem_filter.mp hm).1
    exact (List.mem_filter.mp this).2
  · split at h
    · cases h; assumption
    · split at h
      · cases h; assumption
      · exact List.find?_some h

theorem tyStr_raw (p : Path) :
    Emit.tyStr (.raw p) =
      if p = ["void"] then "::std::ffi::c_void"
      else if p.length > 1 then "crate::" ++ "::".intercalate p else "::".intercalate p := by
  unfold Emit.tyStr Path.display
  have : (p.length == 1 && p.getLast? == some "void") = decide (p = ["void"]) := by
    match p with
    | [] => simp
    | [a] => simp; by_cases h : a = "void" <;> simp [h]
    | a :: b :: l => simp
  rw [this]
  by_cases h : p = ["void"] <;> simp [h]

end PyxisVerif.C11
