import PyxisVerif.Model.Parser
import PyxisVerif.Model.Printer
/-!
# C18 – helper lemmas about the lexer: positions, numbers, rendering
-/
namespace PyxisVerif
namespace C18
open Lex (K Delim Tok Pos)
open Print (digitsLE digitChar Base)

/-! ## positions lie inside the text -/

theorem advance_line (p : Pos) (xs : List Char) :
    (Lex.advance p xs).1 = p.1 + xs.count '\n' := by
  induction xs generalizing p with
  | nil => simp [Lex.advance]
  | cons x xs ih =>
    obtain ⟨l, c⟩ := p
    by_cases hx : x = '\n'
    · subst hx; simp [Lex.advance, ih]; omega
    · rw [Lex.advance.eq_3 _ _ _ _ (by intro e; exact hx e)]
      simp [ih, hx]

/-- the line of any position computed by the lexer -/
def LineOk (cs : List Char) (p : Pos) : Prop := 1 ≤ p.1 ∧ p.1 ≤ cs.count '\n' + 1

theorem posAt_ok (cs : List Char) (off : Nat) : LineOk cs (Lex.posAt cs off) := by
  simp only [LineOk, Lex.posAt, advance_line]
  have : (cs.take off).count '\n' ≤ cs.count '\n' := (List.take_sublist off cs).count_le _
  omega

theorem posOfRem_ok (cs : List Char) (n : Nat) : LineOk cs (Lex.posOfRem cs n) := posAt_ok cs _

theorem lexL_error_ok (cs : List Char) (p : Pos) (h : Lex.lexL cs = .error p) : LineOk cs p := by
  simp only [Lex.lexL] at h
  split at h
  · cases h
  · cases h; exact posOfRem_ok cs _

theorem lexL_tok_ok (cs : List Char) (ts : List Tok) (h : Lex.lexL cs = .ok ts) :
    ∀ t ∈ ts, LineOk cs t.pos := by
  simp only [Lex.lexL] at h
  split at h
  · cases h
    intro t ht
    simp only [List.mem_map] at ht
    obtain ⟨p, _, rfl⟩ := ht
    exact posOfRem_ok cs _
  · cases h

theorem parse_posOfRem_cases (ts : List Tok) (n : Nat) :
    Parse.posOfRem ts n = (1, 0) ∨ ∃ t ∈ ts, Parse.posOfRem ts n = t.pos := by
  simp only [Parse.posOfRem]
  cases h : ts.drop (ts.length - n) with
  | nil => left; rfl
  | cons t r =>
    right
    exact ⟨t, List.mem_of_mem_drop (by rw [h]; simp), rfl⟩

theorem parseStr_error_ok (s : String) (p : Pos) (h : Parse.parseStr s = .error p) :
    LineOk s.toList p := by
  simp only [Parse.parseStr, Lex.lex] at h
  cases hl : Lex.lexL s.toList with
  | error q => rw [hl] at h; cases h; exact lexL_error_ok _ _ hl
  | ok ts =>
    rw [hl] at h
    simp only [Parse.parseModule] at h
    split at h
    · cases h
    · cases h
      rcases parse_posOfRem_cases ts ‹Nat› with e | ⟨t, ht, e⟩
      · rw [e]; simp [LineOk]
      · rw [e]; exact lexL_tok_ok _ _ hl t ht

/-! ## character classes -/

theorem toNat_eq_of_eq {c k : Char} (h : c = k) : c.toNat = k.toNat := by rw [h]

theorem char_of_toNat {c k : Char} (h : c.toNat = k.toNat) : c = k := by
  apply Char.ext
  apply UInt32.toNat_inj.mp
  exact h

theorem isDigit_iff (c : Char) : c.isDigit = true ↔ 48 ≤ c.toNat ∧ c.toNat ≤ 57 := by
  simp [Char.isDigit, UInt32.le_iff_toNat_le]

theorem isAlpha_iff (c : Char) :
    c.isAlpha = true ↔ (65 ≤ c.toNat ∧ c.toNat ≤ 90) ∨ (97 ≤ c.toNat ∧ c.toNat ≤ 122) := by
  simp [Char.isAlpha, Char.isUpper, Char.isLower, UInt32.le_iff_toNat_le]

theorem isIdStart_iff (c : Char) :
    Lex.isIdStart c = true ↔
      (65 ≤ c.toNat ∧ c.toNat ≤ 90) ∨ (97 ≤ c.toNat ∧ c.toNat ≤ 122) ∨ c.toNat = 95 := by
  simp only [Lex.isIdStart, Bool.or_eq_true, isAlpha_iff, beq_iff_eq]
  constructor
  · rintro (h | h)
    · omega
    · right; right; rw [h]; rfl
  · rintro (h | h | h)
    · left; left; exact h
    · left; right; exact h
    · right; exact char_of_toNat h

theorem isIdCont_iff (c : Char) :
    Lex.isIdCont c = true ↔
      (48 ≤ c.toNat ∧ c.toNat ≤ 57) ∨ (65 ≤ c.toNat ∧ c.toNat ≤ 90) ∨
      (97 ≤ c.toNat ∧ c.toNat ≤ 122) ∨ c.toNat = 95 := by
  simp only [Lex.isIdCont, Char.isAlphanum, Bool.or_eq_true, isAlpha_iff, isDigit_iff, beq_iff_eq]
  constructor
  · rintro ((h | h) | h)
    · omega
    · omega
    · right; right; right; rw [h]; rfl
  · rintro (h | h | h | h)
    · left; right; exact h
    · left; left; left; exact h
    · left; left; right; exact h
    · right; exact char_of_toNat h


theorem char_eq_iff (c k : Char) : c = k ↔ c.toNat = k.toNat :=
  ⟨toNat_eq_of_eq, char_of_toNat⟩

theorem hexVal_some_iff (c : Char) (d : Nat) : Lex.hexVal c = some d ↔
    (48 ≤ c.toNat ∧ c.toNat ≤ 57 ∧ d = c.toNat - 48) ∨
    (97 ≤ c.toNat ∧ c.toNat ≤ 102 ∧ d = c.toNat - 87) ∨
    (65 ≤ c.toNat ∧ c.toNat ≤ 70 ∧ d = c.toNat - 55) := by
  simp only [Lex.hexVal, Char.le_def, UInt32.le_iff_toNat_le, Char.toNat_val]
  have e0 : ('0' : Char).toNat = 48 := rfl
  have e9 : ('9' : Char).toNat = 57 := rfl
  have ea : ('a' : Char).toNat = 97 := rfl
  have ef : ('f' : Char).toNat = 102 := rfl
  have eA : ('A' : Char).toNat = 65 := rfl
  have eF : ('F' : Char).toNat = 70 := rfl
  rw [e0, e9, ea, ef, eA, eF]
  split
  · simp; omega
  · split
    · simp; omega
    · split
      · simp; omega
      · simp; omega

theorem hexVal_none_iff (c : Char) : Lex.hexVal c = none ↔
    ¬ ((48 ≤ c.toNat ∧ c.toNat ≤ 57) ∨ (97 ≤ c.toNat ∧ c.toNat ≤ 102) ∨
       (65 ≤ c.toNat ∧ c.toNat ≤ 70)) := by
  cases h : Lex.hexVal c with
  | none =>
    simp only [true_iff]
    intro hh
    have : ∃ d, Lex.hexVal c = some d := by
      rcases hh with hh | hh | hh
      · exact ⟨_, (hexVal_some_iff c _).2 (Or.inl ⟨hh.1, hh.2, rfl⟩)⟩
      · exact ⟨_, (hexVal_some_iff c _).2 (Or.inr (Or.inl ⟨hh.1, hh.2, rfl⟩))⟩
      · exact ⟨_, (hexVal_some_iff c _).2 (Or.inr (Or.inr ⟨hh.1, hh.2, rfl⟩))⟩
    obtain ⟨d, hd⟩ := this
    rw [h] at hd; cases hd
  | some d =>
    have := (hexVal_some_iff c d).1 h
    simp only [reduceCtorEq, false_iff, Classical.not_not]
    omega

/-! ## numbers -/

/-- positional value of a digit string in base `b`, read left to right from the accumulator
    `v`; `_` is ignored -/
def digitsVal (b : Nat) : Nat → List Char → Nat
  | v, [] => v
  | v, c :: r => if c = '_' then digitsVal b v r else digitsVal b (v * b + (Lex.hexVal c).getD 0) r

/-- `c` is `_` or a digit of base `b` -/
def DigitCh (b : Nat) (c : Char) : Prop := c = '_' ∨ ∃ d, Lex.hexVal c = some d ∧ d < b

/-- the text after a number does not continue it: not `_`, not a (hex) digit -/
def NumStop : List Char → Prop
  | [] => True
  | c :: _ => c ≠ '_' ∧ Lex.hexVal c = none

theorem intLoop_spec (b : Nat) (cs : List Char) (h : ∀ c ∈ cs, DigitCh b c) (tail : List Char)
    (ht : NumStop tail) (empty : Bool) (v : Nat) :
    Lex.intLoop b empty v (cs ++ tail) =
      if empty && cs.all (· == '_') then none else some (digitsVal b v cs, tail) := by
  induction cs generalizing empty v with
  | nil =>
    match tail, ht with
    | [], _ => cases empty <;> simp [Lex.intLoop, digitsVal]
    | c :: r, ht =>
      simp only [NumStop] at ht
      cases empty <;> simp [Lex.intLoop, digitsVal, ht.1, ht.2]
  | cons c cs ih =>
    have hc := h c (by simp)
    have ih' := ih (fun x hx => h x (by simp [hx]))
    rcases hc with hc | ⟨d, hd, hlt⟩
    · subst hc
      simp [Lex.intLoop, digitsVal, ih']
    · have hne : c ≠ '_' := by
        intro e; subst e; simp [Lex.hexVal] at hd
      simp [Lex.intLoop, digitsVal, hne, hd, hlt, ih']


/-- `cs` spells a number in base `b`: digits of the base and `_` separators, at least one digit,
    and a decimal number starts with a digit (a leading `_` would make it an identifier) -/
structure Spelling (b : Base) (cs : List Char) : Prop where
  chars : ∀ c ∈ cs, DigitCh b.radix c
  digit : ∃ c ∈ cs, c ≠ '_'
  first : b = .dec → ∃ c r, cs = c :: r ∧ c ≠ '_'

/-- the text after a number: not an identifier character (that would be a suffix or more
    digits) and not a `.` (that would make it a float) -/
def IntTail : List Char → Prop
  | [] => True
  | c :: _ => Lex.isIdCont c = false ∧ c ≠ '.'

theorem numStop_of_intTail {tail : List Char} (h : IntTail tail) : NumStop tail := by
  match tail, h with
  | [], _ => trivial
  | c :: r, h =>
    simp only [IntTail] at h
    have h1 : ¬ _ := fun hh => by have := (isIdCont_iff c).2 hh; rw [h.1] at this; cases this
    refine ⟨?_, (hexVal_none_iff c).2 (fun hh => h1 (by omega))⟩
    intro e; subst e; exact h1 (by decide)

theorem all_us_false {cs : List Char} (h : ∃ c ∈ cs, c ≠ '_') : cs.all (· == '_') = false := by
  obtain ⟨c, hc, hne⟩ := h
  cases hh : cs.all (· == '_') with
  | false => rfl
  | true =>
    rw [List.all_eq_true] at hh
    have := hh c hc
    simp at this; exact absurd this hne

theorem digitCh10 {c : Char} (h : DigitCh 10 c) : c.isDigit = true ∨ c = '_' := by
  rcases h with h | ⟨d, hd, hlt⟩
  · right; exact h
  · left
    rw [isDigit_iff]
    have := (hexVal_some_iff c d).1 hd
    omega

theorem digitCh_not {b : Nat} {c : Char} (k : Char) (hk : Lex.hexVal k = none) (hku : k ≠ '_') :
    DigitCh b c → c ≠ k := by
  intro h e
  subst e
  rcases h with h | ⟨d, hd, _⟩
  · exact hku h
  · rw [hk] at hd; cases hd

theorem intDigits_spec (b : Base) (cs : List Char) (h : Spelling b cs) (tail : List Char)
    (ht : IntTail tail) :
    Lex.intDigits (b.pre ++ cs ++ tail) = some (digitsVal b.radix 0 cs, tail) := by
  have hl := intLoop_spec b.radix cs h.chars tail (numStop_of_intTail ht) true 0
  rw [all_us_false h.digit] at hl
  simp only [Bool.and_false, Bool.false_eq_true, if_false] at hl
  cases b with
  | hex => simpa [Base.pre, Lex.intDigits, Base.radix] using hl
  | oct => simpa [Base.pre, Lex.intDigits, Base.radix] using hl
  | bin => simpa [Base.pre, Lex.intDigits, Base.radix] using hl
  | dec =>
    obtain ⟨c, r, rfl, hc⟩ := h.first rfl
    have hch := h.chars
    simp only [Base.pre, List.nil_append, List.cons_append] at hl ⊢
    -- the second character cannot be `x`, `o`, `b`
    have h2 : ∀ k : Char, Lex.isIdCont k = true → Lex.hexVal k = none ∨ 10 ≤ (Lex.hexVal k).getD 0 →
        k ≠ '_' → ∀ r', r ++ tail ≠ k :: r' := by
      intro k hk1 hk2 hk3 r' e
      cases r with
      | nil =>
        simp only [List.nil_append] at e
        subst e
        simp only [IntTail] at ht
        rw [hk1] at ht; exact absurd ht.1 (by simp)
      | cons x xs =>
        simp only [List.cons_append, List.cons.injEq] at e
        have hx := hch x (by simp)
        rw [e.1] at hx
        rcases hx with hx | ⟨d, hd, hlt⟩
        · exact hk3 hx
        · rcases hk2 with hk2 | hk2
          · rw [hk2] at hd; cases hd
          · rw [hd] at hk2; simp at hk2; simp [Base.radix] at hlt; omega
    unfold Lex.intDigits
    split
    · rename_i r' heq
      simp only [List.cons.injEq] at heq
      exact absurd heq.2 (h2 'x' (by decide) (Or.inl (by decide)) (by decide) _)
    · rename_i r' heq
      simp only [List.cons.injEq] at heq
      exact absurd heq.2 (h2 'o' (by decide) (Or.inl (by decide)) (by decide) _)
    · rename_i r' heq
      simp only [List.cons.injEq] at heq
      exact absurd heq.2 (h2 'b' (by decide) (Or.inr (by decide)) (by decide) _)
    · exact hl

theorem mant_digits (hd : Bool) (r : List Char) (h : ∀ c ∈ r, c.isDigit = true ∨ c = '_')
    (tail : List Char) (ht : IntTail tail) :
    (∃ t, Lex.mant hd (r ++ tail) = .noexp hd t) := by
  induction r with
  | nil =>
    match tail, ht with
    | [], _ => exact ⟨[], rfl⟩
    | c :: t, ht =>
      simp only [IntTail] at ht
      have hn : ¬ ((48 ≤ c.toNat ∧ c.toNat ≤ 57) ∨ (65 ≤ c.toNat ∧ c.toNat ≤ 90) ∨
          (97 ≤ c.toNat ∧ c.toNat ≤ 122) ∨ c.toNat = 95) :=
        fun hh => by have := (isIdCont_iff c).2 hh; rw [ht.1] at this; cases this
      have h1 : c.isDigit = false := by
        cases hc : c.isDigit with
        | false => rfl
        | true => exact absurd ((isDigit_iff c).1 hc) (fun hh => hn (Or.inl hh))
      have h2 : c ≠ '_' := by intro e; subst e; exact hn (by decide)
      have h3 : c ≠ 'e' := by intro e; subst e; exact hn (by decide)
      have h4 : c ≠ 'E' := by intro e; subst e; exact hn (by decide)
      exact ⟨c :: t, by simp [Lex.mant, h1, h2, h3, h4, ht.2]⟩
  | cons x xs ih =>
    obtain ⟨t, ht'⟩ := ih (fun c hc => h c (by simp [hc]))
    refine ⟨t, ?_⟩
    rcases h x (by simp) with hx | hx
    · simp [Lex.mant, hx, ht']
    · subst hx; simp [Lex.mant, ht']

theorem floatDigits_none (b : Base) (cs : List Char) (h : Spelling b cs) (tail : List Char)
    (ht : IntTail tail) : Lex.floatDigits (b.pre ++ cs ++ tail) = none := by
  cases b with
  | hex => simp [Base.pre, Lex.floatDigits, Lex.mant]
  | oct => simp [Base.pre, Lex.floatDigits, Lex.mant]
  | bin => simp [Base.pre, Lex.floatDigits, Lex.mant]
  | dec =>
    obtain ⟨c, r, rfl, hc⟩ := h.first rfl
    obtain ⟨t, ht'⟩ := mant_digits false r
      (fun x hx => digitCh10 (by simpa [Base.radix] using h.chars x (by simp [hx]))) tail ht
    simp [Base.pre, Lex.floatDigits, ht']

theorem dropSuffix_intTail {tail : List Char} (ht : IntTail tail) : Lex.dropSuffix tail = tail := by
  match tail, ht with
  | [], _ => rfl
  | c :: t, ht =>
    simp only [IntTail] at ht
    have : Lex.isIdStart c = false := by
      cases hc : Lex.isIdStart c with
      | false => rfl
      | true =>
        have h1 := (isIdStart_iff c).1 hc
        have h2 := (isIdCont_iff c).2 (by omega)
        rw [ht.1] at h2; cases h2
    simp [Lex.dropSuffix, this]

theorem lexNumber_spec (b : Base) (cs : List Char) (h : Spelling b cs) (tail : List Char)
    (ht : IntTail tail) :
    Lex.lexNumber (b.pre ++ cs ++ tail) = some (.int (digitsVal b.radix 0 cs), tail) := by
  simp only [Lex.lexNumber]
  rw [floatDigits_none b cs h tail ht, intDigits_spec b cs h tail ht]
  simp [dropSuffix_intTail ht]

theorem lexLeaf_digit (c : Char) (r : List Char) (h : c.isDigit = true) :
    Lex.lexLeaf (c :: r) = Lex.lexNumber (c :: r) := by
  have hn := (isDigit_iff c).1 h
  have h1 : c ≠ '"' := by intro e; subst e; simp at hn
  have h2 : c ≠ '\'' := by intro e; subst e; simp at hn
  simp [Lex.lexLeaf, h1, h2, h]

theorem spelling_head_digit (b : Base) (cs : List Char) (h : Spelling b cs) (tail : List Char) :
    ∃ c r, b.pre ++ cs ++ tail = c :: r ∧ c.isDigit = true := by
  cases b with
  | hex => exact ⟨'0', _, rfl, by decide⟩
  | oct => exact ⟨'0', _, rfl, by decide⟩
  | bin => exact ⟨'0', _, rfl, by decide⟩
  | dec =>
    obtain ⟨c, r, rfl, hc⟩ := h.first rfl
    refine ⟨c, r ++ tail, rfl, ?_⟩
    rcases digitCh10 (by simpa [Base.radix] using h.chars c (by simp)) with hd | hd
    · exact hd
    · exact absurd hd hc

/-- a number spelled in any base with any `_` separators is one `int` token whose value is
    the positional value of its digits -/
theorem lexLeaf_int (b : Base) (cs : List Char) (h : Spelling b cs) (tail : List Char)
    (ht : IntTail tail) :
    Lex.lexLeaf (b.pre ++ cs ++ tail) = some (.int (digitsVal b.radix 0 cs), tail) := by
  obtain ⟨c, r, e, hc⟩ := spelling_head_digit b cs h tail
  rw [e, lexLeaf_digit c r hc, ← e]
  exact lexNumber_spec b cs h tail ht



/-! ### printing a number and reading it back (DESIGN-scratch-proofs A.8) -/

def ofLE (b : Nat) : List Nat → Nat
  | [] => 0
  | d :: ds => d + b * ofLE b ds

theorem ofLE_digitsLE (b n : Nat) (hb : 2 ≤ b) : ofLE b (digitsLE b n) = n := by
  induction n using Nat.strongRecOn with
  | _ n ih =>
    rw [digitsLE]
    have h1 : ¬ b < 2 := by omega
    simp only [h1, dite_false]
    by_cases h2 : n < b
    · simp [h2, ofLE]
    · simp only [h2, if_false, ofLE]
      have : n / b < n := Nat.div_lt_self (by omega) (by omega)
      rw [ih _ this]
      exact Nat.mod_add_div n b

theorem digitsLE_lt (b n : Nat) (hb : 2 ≤ b) : ∀ d ∈ digitsLE b n, d < b := by
  induction n using Nat.strongRecOn with
  | _ n ih =>
    rw [digitsLE]
    have h1 : ¬ b < 2 := by omega
    simp only [h1, dite_false]
    by_cases h2 : n < b
    · simp [h2]
    · simp only [h2, if_false, List.mem_cons]
      intro d hd
      cases hd with
      | inl e => subst e; exact Nat.mod_lt _ (by omega)
      | inr e => exact ih _ (Nat.div_lt_self (by omega) (by omega)) d e

theorem digitsLE_ne_nil (b n : Nat) : digitsLE b n ≠ [] := by
  rw [digitsLE]
  split
  · simp
  · split <;> simp

def readBE (b : Nat) (ds : List Nat) : Nat := ds.foldl (fun acc d => acc * b + d) 0

theorem foldl_readBE (b : Nat) (ds : List Nat) (acc : Nat) :
    ds.foldl (fun acc d => acc * b + d) acc = acc * b ^ ds.length + readBE b ds := by
  induction ds generalizing acc with
  | nil => simp [readBE]
  | cons d ds ih =>
    simp only [List.foldl, List.length_cons, readBE]
    rw [ih, ih (0 * b + d)]
    simp [Nat.pow_succ, Nat.add_mul, Nat.mul_assoc, Nat.mul_comm b, Nat.add_assoc]

theorem readBE_reverse (b : Nat) (ds : List Nat) : readBE b ds.reverse = ofLE b ds := by
  induction ds with
  | nil => rfl
  | cons d ds ih =>
    simp only [List.reverse_cons, readBE, List.foldl_append, List.foldl, ofLE]
    have := ih; unfold readBE at this; rw [this]
    rw [Nat.mul_comm, Nat.add_comm]

theorem read_print (b n : Nat) (hb : 2 ≤ b) : readBE b (digitsLE b n).reverse = n := by
  rw [readBE_reverse, ofLE_digitsLE b n hb]

/-- the digits of `n` in base `b`, most significant first, upper-case letters above 9 -/
def numChars (b n : Nat) : List Char := ((digitsLE b n).reverse).map digitChar

theorem hexVal_digitChar : ∀ d : Fin 16, Lex.hexVal (digitChar d.val) = some d.val := by decide

theorem digitChar_ne_us : ∀ d : Fin 16, digitChar d.val ≠ '_' := by decide

theorem digitsVal_map (b : Nat) (ds : List Nat) (h : ∀ d ∈ ds, d < 16) (v : Nat) :
    digitsVal b v (ds.map digitChar) = ds.foldl (fun acc d => acc * b + d) v := by
  induction ds generalizing v with
  | nil => rfl
  | cons d ds ih =>
    have hd : d < 16 := h d (by simp)
    have h1 := hexVal_digitChar ⟨d, hd⟩
    have h2 := digitChar_ne_us ⟨d, hd⟩
    simp only at h1 h2
    simp only [List.map_cons, digitsVal, h2, if_false, h1, Option.getD_some, List.foldl_cons]
    exact ih (fun x hx => h x (by simp [hx])) _

/-- the canonical digit string of `n` reads back as `n` -/
theorem digitsVal_numChars (b n : Nat) (hb : 2 ≤ b) (hb' : b ≤ 16) :
    digitsVal b 0 (numChars b n) = n := by
  unfold numChars
  rw [digitsVal_map b _ (fun d hd => by
    have := digitsLE_lt b n hb d (by simpa using hd); omega)]
  exact read_print b n hb

/-- `_` separators do not change the value -/
theorem digitsVal_filter (b : Nat) (v : Nat) (cs : List Char) :
    digitsVal b v (cs.filter (fun c => !decide (c = '_'))) = digitsVal b v cs := by
  induction cs generalizing v with
  | nil => rfl
  | cons c cs ih =>
    by_cases hc : c = '_'
    · subst hc; simp [digitsVal, ih]
    · simp [hc, digitsVal, ih]

/-- leading zeros do not change the value -/
theorem digitsVal_zero (b : Nat) (cs : List Char) : digitsVal b 0 ('0' :: cs) = digitsVal b 0 cs := by
  simp [digitsVal, Lex.hexVal]

theorem numChars_spelling (b : Base) (n : Nat) : Spelling b (numChars b.radix n) := by
  have hb : 2 ≤ b.radix ∧ b.radix ≤ 16 := by cases b <;> simp [Base.radix]
  have hall : ∀ c ∈ numChars b.radix n, ∃ d, Lex.hexVal c = some d ∧ d < b.radix ∧ c ≠ '_' := by
    intro c hc
    simp only [numChars, List.mem_map, List.mem_reverse] at hc
    obtain ⟨d, hd, rfl⟩ := hc
    have hlt := digitsLE_lt b.radix n hb.1 d hd
    exact ⟨d, hexVal_digitChar ⟨d, by omega⟩, hlt, digitChar_ne_us ⟨d, by omega⟩⟩
  have hne : numChars b.radix n ≠ [] := by
    simp [numChars, digitsLE_ne_nil]
  obtain ⟨c, r, hcr⟩ : ∃ c r, numChars b.radix n = c :: r := by
    cases h : numChars b.radix n with
    | nil => exact absurd h hne
    | cons c r => exact ⟨c, r, rfl⟩
  refine ⟨fun c hc => ?_, ?_, fun _ => ?_⟩
  · obtain ⟨d, h1, h2, _⟩ := hall c hc
    exact Or.inr ⟨d, h1, h2⟩
  · refine ⟨c, by simp [hcr], ?_⟩
    obtain ⟨_, _, _, h3⟩ := hall c (by simp [hcr])
    exact h3
  · refine ⟨c, r, hcr, ?_⟩
    obtain ⟨_, _, _, h3⟩ := hall c (by simp [hcr])
    exact h3

open Print (digitsLE digitChar Base)

/-! ## one step of `lexCore` on the first character of a leaf token -/

/-- a printable ASCII character that is neither `/` nor a delimiter -/
def LeafStart (c : Char) : Prop :=
  33 ≤ c.toNat ∧ c.toNat ≤ 126 ∧ c.toNat ≠ 47 ∧ c.toNat ≠ 40 ∧ c.toNat ≠ 41 ∧ c.toNat ≠ 91 ∧
  c.toNat ≠ 93 ∧ c.toNat ≠ 123 ∧ c.toNat ≠ 125

theorem isWs_false_of_range {c : Char} (h1 : 33 ≤ c.toNat) (h2 : c.toNat ≤ 126) :
    Lex.isWs c = false := by
  cases h : Lex.isWs c with
  | false => rfl
  | true =>
    simp only [Lex.isWs, Lex.isRustWs, Bool.or_eq_true, Bool.and_eq_true, decide_eq_true_eq,
      beq_iff_eq] at h
    omega

theorem scanSlash_ne {c : Char} (h : c ≠ '/') (r : List Char) : Lex.scanSlash (c :: r) = .none := by
  unfold Lex.scanSlash
  split <;> first | rfl | (rename_i heq; simp only [List.cons.injEq] at heq; exact absurd heq.1 h)

theorem lexCore_leaf (c : Char) (r : List Char) (hc : LeafStart c) (f : Nat)
    (st : List (Delim × Lex.Mark)) :
    Lex.lexCore (f + 1) (c :: r) st =
      match Lex.lexLeaf (c :: r) with
      | some (k, rest) => (Lex.lexCore f rest st).map ((k, Lex.here (c :: r)) :: ·)
      | none => .error (Lex.here (c :: r)) := by
  obtain ⟨h1, h2, h3, h4, h5, h6, h7, h8, h9⟩ := hc
  have hws := isWs_false_of_range h1 h2
  have hsl : c ≠ '/' := fun e => h3 (by rw [e]; rfl)
  have ho : Lex.delimOpen c = none := by
    simp only [Lex.delimOpen, beq_iff_eq, char_eq_iff]
    have e1 : ('(' : Char).toNat = 40 := rfl
    have e2 : ('[' : Char).toNat = 91 := rfl
    have e3 : ('{' : Char).toNat = 123 := rfl
    simp [e1, e2, e3, h4, h6, h8]
  have hcl : Lex.delimClose c = none := by
    simp only [Lex.delimClose, beq_iff_eq, char_eq_iff]
    have e1 : (')' : Char).toNat = 41 := rfl
    have e2 : (']' : Char).toNat = 93 := rfl
    have e3 : ('}' : Char).toNat = 125 := rfl
    simp [e1, e2, e3, h5, h7, h9]
  rw [Lex.lexCore]
  simp only [hws, Bool.false_eq_true, if_false, scanSlash_ne hsl, ho, hcl]
  cases Lex.lexLeaf (c :: r) with
  | none => rfl
  | some p => rfl

theorem leafStart_digit {c : Char} (h : c.isDigit = true) : LeafStart c := by
  have := (isDigit_iff c).1 h
  simp only [LeafStart]; omega

theorem leafStart_idStart {c : Char} (h : Lex.isIdStart c = true) : LeafStart c := by
  have := (isIdStart_iff c).1 h
  simp only [LeafStart]; omega

theorem posOfRem_full (cs : List Char) : Lex.posOfRem cs cs.length = (1, 0) := by
  simp [Lex.posOfRem, Lex.posAt, Lex.advance]

theorem stripBom_digit {c : Char} (h : c.isDigit = true) (r : List Char) :
    Lex.stripBom (c :: r) = c :: r := by
  have := (isDigit_iff c).1 h
  simp only [Lex.stripBom, beq_iff_eq]
  rw [if_neg (by omega)]

/-- a text that consists of one number is one `int` token at line 1, column 0 -/
theorem lexL_int (b : Base) (cs : List Char) (h : Spelling b cs) :
    Lex.lexL (b.pre ++ cs) = .ok [⟨.int (digitsVal b.radix 0 cs), (1, 0)⟩] := by
  obtain ⟨c, r, e, hc⟩ := spelling_head_digit b cs h []
  have hl := lexLeaf_int b cs h [] trivial
  simp only [List.append_nil] at e hl
  simp only [Lex.lexL]
  rw [e, stripBom_digit hc, List.length_cons, lexCore_leaf c r (leafStart_digit hc), ← e, hl]
  simp only [Lex.lexCore, Except.map, List.map_cons, List.map_nil, Lex.Mark.rem, Lex.here,
    Nat.add_zero]
  rw [posOfRem_full]

open Print (digitsLE digitChar Base)

/-- executable form of `Spelling` -/
def digitChB (b : Nat) (c : Char) : Bool :=
  c == '_' || (match Lex.hexVal c with | some d => decide (d < b) | none => false)

def spellingB (b : Base) (cs : List Char) : Bool :=
  cs.all (digitChB b.radix) && cs.any (· != '_') &&
  (b != .dec || (match cs with | c :: _ => c != '_' | [] => false))

theorem digitChB_iff (b : Nat) (c : Char) : digitChB b c = true ↔ DigitCh b c := by
  simp only [digitChB, DigitCh, Bool.or_eq_true, beq_iff_eq]
  cases h : Lex.hexVal c with
  | none => simp
  | some d => simp

theorem spelling_of_B (b : Base) (cs : List Char) (h : spellingB b cs = true) : Spelling b cs := by
  simp only [spellingB, Bool.and_eq_true, List.all_eq_true, List.any_eq_true, bne_iff_ne,
    Bool.or_eq_true, ne_eq] at h
  obtain ⟨⟨h1, h2⟩, h3⟩ := h
  refine ⟨fun c hc => (digitChB_iff _ c).1 (h1 c hc), h2, fun e => ?_⟩
  rcases h3 with h3 | h3
  · exact absurd e h3
  · cases cs with
    | nil => simp at h3
    | cons c r => exact ⟨c, r, rfl, by simpa using h3⟩

end C18
end PyxisVerif
